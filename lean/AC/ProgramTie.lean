import AC.ProgramX
import AC.Gen.ProgramFns
/-! # The translated program.go equals the hand-written model (C18 translator tie)

`AC/Gen/ProgramFns.lean` is regenerated from program.go on every run; the theorems below prove each
translated function equal to the model function of `AC/ProgramX.lean` on which the C18 theorems are
stated (programs with natural-number operands: a Go `Program` literal with a negative operand is
outside the model; the builders take arbitrary `int` operands). -/
namespace AC.ProgramTie
open AC.Gen.Program AC.GoPrim AC.BigPrim P P.Prim P.PX

def toG (o : Op) : GOp := ⟨(o.1 : Int), (o.2 : Int)⟩
def toGs (p : List Op) : List GOp := p.map toG
def ints (l : List Nat) : List Int := l.map Int.ofNat

def errG : Err → GoErr
  | .negative i => ("negative index %d", [i])
  | .outOfBounds i => ("index %d out of bounds", [i])

@[simp] theorem toGs_length (p : List Op) : (toGs p).length = p.length := by simp [toGs]
@[simp] theorem toGs_nil : toGs [] = [] := rfl
@[simp] theorem toGs_cons (o : Op) (p : List Op) : toGs (o :: p) = toG o :: toGs p := rfl
@[simp] theorem toGs_append (p q : List Op) : toGs (p ++ q) = toGs p ++ toGs q := by simp [toGs]
@[simp] theorem ints_length (l : List Nat) : (ints l).length = l.length := by simp [ints]

@[simp] theorem beq_cast (a b : Nat) : ((a : Int) == (b : Int)) = (a == b) := by
  rw [Bool.eq_iff_iff]; simp only [beq_iff_eq]; omega

theorem idx_nat {α} (l : List α) (i : Nat) : idx l (i : Int) = l[i]? := by
  have : ¬ ((i : Int) < 0) := by omega
  simp [idx, this]

theorem opIsDouble_tie (o : Op) : opIsDouble (toG o) = some (o.1 == o.2) := by
  simp [opIsDouble, toG]

theorem opOperands_tie (o : Op) : opOperands (toG o) = some (ints (operands o)) := by
  unfold opOperands
  rw [opIsDouble_tie]
  by_cases h : o.1 = o.2 <;> simp [operands, ints, h, toG]

theorem opUses_tie (o : Op) (i : Nat) : opUses (toG o) (i : Int) = some (uses i o) := by
  simp [opUses, uses, toG]

theorem boundscheck_tie (p : List Op) (i : Int) :
    programBoundscheck (toGs p) i = some ((boundscheck p i).map errG) := by
  unfold programBoundscheck boundscheck
  by_cases h1 : i < 0
  · simp [h1, goErr, errG]
  · by_cases h2 : i > (p.length : Int)
    · simp [h1, h2, goErr, errG, len]
    · simp [h1, h2, goNil, len]

/-- what `Program.Add` returns, in the translated functions' shape -/
def addOut (p : List Op) : Except Err (List Op × Nat) → List GOp × Int × Option GoErr
  | .ok (q, n) => (toGs q, (n : Int), none)
  | .error e => (toGs p, 0, some (errG e))

theorem add_tie (p : List Op) (i j : Int) :
    programAdd (toGs p) i j = some (addOut p (padd p i j)) := by
  unfold programAdd padd
  simp only [boundscheck_tie, bind, Option.bind, pure]
  cases h1 : boundscheck p i with
  | some e => simp [addOut]
  | none =>
    cases h2 : boundscheck p j with
    | some e => simp [addOut]
    | none =>
      have hi := (boundscheck_none_iff p i).1 h1
      have hj := (boundscheck_none_iff p j).1 h2
      simp [addOut, goNil, len, toG, Int.toNat_of_nonneg hi.1, Int.toNat_of_nonneg hj.1]

theorem double_tie (p : List Op) (i : Int) :
    programDouble (toGs p) i = some (addOut p (pdouble p i)) := by
  unfold programDouble pdouble
  simp [add_tie]

/-- what `Program.Shift` leaves and returns, in the translated functions' shape -/
def shiftOut (r : List Op × Except Err Int) : List GOp × Int × Option GoErr :=
  match r.2 with
  | .ok v => (toGs r.1, v, none)
  | .error e => (toGs r.1, 0, some (errG e))

theorem shift_loop_tie : ∀ (s : Nat) (p : List Op) (i : Int),
    programShift_loop1 s (toGs p) i = some (shiftOut (pshift p i s)) := by
  intro s
  induction s with
  | zero => intro p i; simp [programShift_loop1, pshift, shiftOut, goNil]
  | succ s ih =>
    intro p i
    unfold programShift_loop1 pshift
    simp only [double_tie, bind, Option.bind, pure]
    cases h : pdouble p i with
    | error e => simp [addOut, shiftOut]
    | ok r =>
      obtain ⟨q, n⟩ := r
      simp [addOut, ih]

theorem shift_tie (p : List Op) (i : Int) (s : Nat) :
    programShift (toGs p) i s = some (shiftOut (pshift p i s)) := by
  unfold programShift
  exact shift_loop_tie s p i

/-- the fold of `Program.Count` from an arbitrary state -/
def cnt (q : List Op) (d a : Nat) : Nat × Nat :=
  q.foldl (fun (acc : Nat × Nat) o => if o.1 == o.2 then (acc.1 + 1, acc.2) else (acc.1, acc.2 + 1)) (d, a)

theorem count_loop_tie : ∀ (q : List Op) (p : List GOp) (d a : Nat),
    programCount_loop1 (toGs q) p (d : Int) (a : Int) =
      some (Int.ofNat (cnt q d a).1, Int.ofNat (cnt q d a).2) := by
  intro q
  induction q with
  | nil => intro p d a; simp [programCount_loop1, cnt]
  | cons o q ih =>
    intro p d a
    simp only [toGs_cons, programCount_loop1, opIsDouble_tie, bind, Option.bind, cnt, List.foldl_cons]
    by_cases h : o.1 = o.2
    · simp only [h, beq_self_eq_true, if_true]
      exact_mod_cast ih p (d + 1) a
    · have : (o.1 == o.2) = false := by simp [h]
      simp only [this]
      exact_mod_cast ih p d (a + 1)

theorem count_tie (p : List Op) :
    programCount (toGs p) = some (Int.ofNat (PX.count p).1, Int.ofNat (PX.count p).2) := by
  unfold programCount
  exact_mod_cast count_loop_tie p (toGs p) 0 0

theorem doubles_tie (p : List Op) : programDoubles (toGs p) = some (Int.ofNat (PX.count p).1) := by
  unfold programDoubles
  rw [count_tie]; rfl

theorem adds_tie (p : List Op) : programAdds (toGs p) = some (Int.ofNat (PX.count p).2) := by
  unfold programAdds
  rw [count_tie]; rfl

theorem idx_at' (c : Chain) (k : Nat) (h : k < c.length) : idx c (k : Int) = some (at' c k) := by
  rw [idx_nat]; simp [at', h]

theorem idx_oob {α} (c : List α) (k : Nat) (h : ¬ k < c.length) : idx c (k : Int) = none := by
  rw [idx_nat]; simp; omega

theorem evaluate_loop_tie : ∀ (q : List Op) (p : List GOp) (c : Chain),
    programEvaluate_loop1 (toGs q) p c =
      q.foldlM (fun (c : Chain) o =>
        if o.1 < c.length ∧ o.2 < c.length then some (c ++ [at' c o.1 + at' c o.2]) else none) c := by
  intro q
  induction q with
  | nil => intro p c; simp [programEvaluate_loop1]
  | cons o q ih =>
    intro p c
    simp only [toGs_cons, programEvaluate_loop1, List.foldlM_cons, toG]
    by_cases h1 : o.1 < c.length
    · by_cases h2 : o.2 < c.length
      · simp [idx_at' c _ h1, idx_at' c _ h2, h1, h2, bAdd, ih]
      · simp [idx_at' c _ h1, idx_oob c _ h2, h2]
    · simp [idx_oob c _ h1, h1]

theorem evaluate_tie (p : List Op) : programEvaluate (toGs p) = evaluateX p := by
  unfold programEvaluate evaluateX
  simp [fnNew, bNewInt, evaluate_loop_tie]

theorem ints_set (r : List Nat) (x v : Nat) : (ints r).set x (Int.ofNat v) = ints (r.set x v) := by
  simp [ints, List.map_set]

theorem incr_step (r : List Nat) (x : Nat) :
    ((idx (ints r) (x : Int)).bind fun v => setIdx (ints r) (x : Int) (v + 1)) = (incr r x).map ints := by
  unfold incr
  by_cases h : x < r.length
  · have hx : ¬ ((x : Int) < 0) := by omega
    have h1 : idx (ints r) (x : Int) = some (Int.ofNat (r.getD x 0)) := by
      rw [idx_nat]; simp [ints, h]
    rw [h1]
    simp only [Option.bind, setIdx, hx, if_false, Int.toNat_natCast, ints_length, h, if_true, Option.map]
    rw [show Int.ofNat (r.getD x 0) + 1 = Int.ofNat (r.getD x 0 + 1) from rfl, ints_set]
  · rw [idx_oob _ _ (by simpa using h)]
    simp [h]

theorem readCounts_loop2_tie : ∀ (xs : List Nat) (p : List GOp) (r : List Nat) (op : GOp),
    programReadCounts_loop2 (ints xs) p (ints r) op = (xs.foldlM incr r).map ints := by
  intro xs
  induction xs with
  | nil => intro p r op; simp [programReadCounts_loop2, ints]
  | cons x xs ih =>
    intro p r op
    show ((idx (ints r) (x : Int)).bind fun v => (setIdx (ints r) (x : Int) (v + 1)).bind fun r2 =>
      programReadCounts_loop2 (ints xs) p r2 op) = _
    rw [← Option.bind_assoc, incr_step, List.foldlM_cons]
    cases hi : incr r x with
    | none => rfl
    | some r' => exact ih p r' op

theorem readCounts_loop1_tie : ∀ (q : List Op) (p : List GOp) (r : List Nat),
    programReadCounts_loop1 (toGs q) p (ints r) =
      (q.foldlM (fun r o => (operands o).foldlM incr r) r).map ints := by
  intro q
  induction q with
  | nil => intro p r; simp [programReadCounts_loop1]
  | cons o q ih =>
    intro p r
    simp only [toGs_cons, programReadCounts_loop1, opOperands_tie, List.foldlM_cons, bind,
      Option.bind, readCounts_loop2_tie]
    cases h : (operands o).foldlM incr r with
    | none => simp [Option.map]
    | some r' => simp only [Option.map]; exact ih p r'

theorem readCounts_tie (p : List Op) :
    programReadCounts (toGs p) = (readCounts p).map ints := by
  unfold programReadCounts readCounts
  have hm : makeInts (len (toGs p) + 1) = some (ints (List.replicate (p.length + 1) 0)) := by
    have : ¬ ((p.length : Int) + 1 < 0) := by omega
    simp [makeInts, len, this, ints]
  simp only [hm, bind, Option.bind]
  exact readCounts_loop1_tie p (toGs p) _

theorem deps_loop_tie : ∀ (q : List Op) (p : List GOp) (ds : List Nat) (i : Nat),
    ds.length = i + 1 →
    programDependencies_loop1 (toGs q) (i : Int) p (ints ds) =
      (q.foldlM (fun (ds : List Nat) o =>
        if o.1 < ds.length ∧ o.2 < ds.length then some (depsStep ds o) else none) ds).map ints := by
  intro q
  induction q with
  | nil => intro p ds i _; simp [programDependencies_loop1]
  | cons o q ih =>
    intro p ds i hl
    simp only [toGs_cons, programDependencies_loop1, List.foldlM_cons, toG]
    have hget : ∀ k, k < ds.length → idx (ints ds) (k : Int) = some (Int.ofNat (ds.getD k 0)) := by
      intro k hk; rw [idx_nat]; simp [ints, hk]
    by_cases h1 : o.1 < ds.length
    · by_cases h2 : o.2 < ds.length
      · have hi : ¬ ((i : Int) + 1 < 0) := by omega
        have hstep : ints ds ++ [((((ds.getD o.1 0 ||| ds.getD o.2 0) ||| 2 ^ (i + 1) : Nat)) : Int)] =
            ints (depsStep ds o) := by
          simp [ints, depsStep, hl]
        have := ih p (depsStep ds o) (i + 1) (by simp [depsStep, hl])
        simp [hget _ h1, hget _ h2, h1, h2, bOr, bSetBit, hi, Int.toNat_add, Int.toNat_natCast] at this ⊢
        rw [← this, ← hstep]
        simp [List.getD_eq_getElem?_getD, h1, h2]
      · simp [hget _ h1, idx_oob (ints ds) _ (by simpa using h2), h2]
    · simp [idx_oob (ints ds) _ (by simpa using h1), h1]

theorem dependencies_tie (p : List Op) :
    programDependencies (toGs p) = (dependencies p).map ints := by
  unfold programDependencies dependencies
  exact deps_loop_tie p (toGs p) [1] 0 rfl
