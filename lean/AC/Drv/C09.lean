import AC.Drv.Proto
import AC.Decomp
import AC.Gen.ProgramFns
/-! driver handler for C09: `c09 <f|s|r|h> <x> <K> <T> <terms d:e,..> <dict> <unchanged>` -/
namespace AC.Drv
open P P.Bits

def pMethod : String → Option Method
  | "f" => some .fixed | "s" => some .sliding | "r" => some .runLength | "h" => some .hybrid | _ => none

def showTerms (s : List Term) : String := showList (fun t => s!"{t.d}:{t.e}") s

def allOnesLen (d : Nat) : Option Nat := if d + 1 = 2 ^ (Nat.log2 (d + 1)) then some (Nat.log2 (d + 1)) else none

def pairwiseB {α} (r : α → α → Bool) : List α → Bool
  | [] => true
  | a :: l => l.all (r a) && pairwiseB r l

/-- terms whose `d` may carry a sign: `d:e` -/
def pSignedTerm (s : String) : Option (Int × Nat) :=
  match s.splitOn ":" with
  | [a, b] => do let a ← a.toInt?; let b ← b.toNat?; pure (a, b)
  | _ => none

def handleC09core (sint : Option String) (f : List String) : Res :=
  match f with
  | [ms, xs, Ks, Ts, terms, dict, unch] =>
    -- a term with d ≤ 0 is a violation of "d > 0" as it stands (the model only produces naturals)
    if (match pList pSignedTerm terms with | some l => l.any (fun t => t.1 ≤ 0) | none => false) then
      specIf "d-positive" false { corr := false, detail := s!"terms:impl={terms}", tag := s!"m={ms},long=0" }
    else
    match pMethod ms, pNat xs, pNat Ks, pNat Ts, pPairs terms, pInts dict with
    | some m, some x, some K, some T, some tl, some dl =>
      let impl : List Term := tl.map fun p => ⟨p.1, p.2⟩
      let model := decompose m x K T
      let r : Res := {}
      let r := cmp "terms" (showTerms model) terms r
      -- `FixedWindow.Decompose` as TRANSLATED from dict.go (x >= 1, K >= 1; K = 0 does not terminate in Go)
      let r := if m == .fixed && x ≥ 1 && K ≥ 1 then
          cmp "translated-fixed-window" (match AC.Gen.Program.dictFixedWindowDecompose K (x : Int) with
            | some l => showList (fun (t : AC.GoPrim.GTerm) => s!"{t.D}:{t.E}") l | none => "panic") terms r
        else r
      let r := cmp "dictionary" (showInts (dictionary model)) dict r
      -- `Sum.Dictionary` and `Sum.Int` as TRANSLATED from dict.go, run on the implementation's own terms
      let implG : List AC.GoPrim.GTerm := impl.map fun t => ⟨(t.d : Int), t.e⟩
      let r := cmp "translated-dictionary" (match AC.Gen.Program.dictSumDictionary implG with
            | some l => showInts l | none => "panic") dict r
      let r := match sint with
        | some si => cmp "translated-sum-int" (match AC.Gen.Program.dictSumInt implG with
            | some v => toString v | none => "panic") si r
        | none => r
      let r := specIf "target-unmodified" (unch == "1") r
      let r := specIf "sum-exact" (value impl == x) r
      let r := specIf "d-positive" (impl.all fun t => 0 < t.d) r
      let r := specIf "exponents-strictly-increasing" (pairwiseB (fun a b => a.e < b.e) impl) r
      let r := specIf "non-overlap" (pairwiseB (fun a b => a.d * 2 ^ a.e < 2 ^ b.e) impl) r
      let shape := impl.all fun t => match m with
        | .fixed => t.d < 2 ^ K
        | .sliding => t.d % 2 == 1 && t.d < 2 ^ K
        | .runLength => match allOnesLen t.d with | some n => n ≥ 1 && (T == 0 || n ≤ T) | none => false
        | .hybrid => t.d % 2 == 1 && (t.d < 2 ^ K ||
            match allOnesLen t.d with | some n => n > K && (T == 0 || n ≤ T) | none => false)
      let r := specIf "shape" shape r
      let ds := impl.map fun t => (t.d : Int)
      let r := specIf "dictionary-sorted-distinct" (pairwiseB (fun a b => a < b) dl && dl.all (ds.contains ·) && ds.all (dl.contains ·)) r
      let long := impl.any fun t => t.d ≥ 2 ^ K
      { r with nt := impl.length ≥ 2, tag := s!"m={ms},long={b01' long}" }
    | _, _, _, _, _, _ => bad "c09-parse"
  | _ => bad "c09-arity"
where b01' (b : Bool) : String := if b then "1" else "0"

/-- the eighth field (the implementation's `Sum.Int()`) is optional: replays recorded before it existed
    have seven -/
def handleC09 (f : List String) : Res :=
  match f with
  | [a, b, c, d, e, g, h, si] => handleC09core (some si) [a, b, c, d, e, g, h]
  | _ => handleC09core none f

end AC.Drv
