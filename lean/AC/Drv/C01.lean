import AC.Drv.Proto
import AC.Drv.C08
import AC.DictAlg
import AC.Gen.ProgramFns
/-! driver handler for C01:
    `c01 <alg code> <n> <oracle d:e,..|-> <impl: err|panic|chain> <impl program> <end-ok> <unchanged> <deterministic> <stagewise>` -/
namespace AC.Drv
open P P.DA

def pDecomp (s : String) : Option Decomp :=
  match s.toList with
  | 'f' :: r => (String.ofList r).toNat?.map .fixed
  | 's' :: r => (String.ofList r).toNat?.map .sliding
  | 'r' :: r => (String.ofList r).toNat?.map .runLength
  | 'h' :: r => match (String.ofList r).splitOn "_" with
    | [a, b] => do let k ← a.toNat?; let t ← b.toNat?; pure (.hybrid k t)
    | _ => none
  | _ => none

def pChainAlgParts : List String → Option ChainAlg
  | "opt" :: r => (pChainAlgParts r).map .opt
  | ["bin"] => some .binaryRTL
  | ["seq", s] => (pSeqAlg s).map .asChain
  | ["dict", d, s] => do let d ← pDecomp d; let s ← pSeqAlg s; pure (.dict d s)
  | ["runs", s] => (pSeqAlg s).map .runs
  | _ => none

def pChainAlg (s : String) : Option ChainAlg := pChainAlgParts (s.splitOn "/")

def handleC01 (f : List String) : Res :=
  match f with
  | [alg, ns, orc, impl, prog, endok, unch, det, stage] =>
    match pChainAlg alg, pNat ns, pPairs orc, pPairs prog with
    | some a, some n, some o, some ip =>
      let r : Res := {}
      let (mc, mp) := match execute a n o with
        | .ok (c, p) => (showInts c, showPairs p)
        | .error .target => (match a.find n o with | .ok c => showInts c | .error _ => "err", "-")
        | .error _ => ("err", "-")
      let r := cmp "chain" mc impl r
      -- `RightToLeft.FindChain` as TRANSLATED from binary.go (n >= 1)
      let r := if alg == "bin" && n ≥ 1 then
          cmp "translated-binary" (match AC.Gen.Program.binaryRightToLeftFindChain (n : Int) with
            | some (c, none) => showInts c | some (_, some _) => "err" | none => "panic") impl r
        else r
      let r := if impl == "err" || impl == "panic" then r else cmp "program" mp prog r
      let r := specIf "harness-stagewise-equals-findchain" (stage == "1") r
      let r := if !a.wf || n == 0 then { r with tag := "outside-property" } else
        let r := specIf "target-unmodified" (unch == "1") r
        let r := specIf "deterministic" (det == "1") r
        match pInts impl with
        | some c =>
          let r := specIf "no-error" (endok == "1") r
          let r := specIf "valid-chain" (isChainO c) r
          let r := specIf "ends-at-target" (c.getLast? == some (n : Int)) r
          let r := specIf "one-op-per-element" (ip.length + 1 == c.length) r
          specIf "program-evaluates-to-chain" (evaluate ip == c) r
        | none => specIf (if impl == "panic" then "no-panic" else "no-error") false r
      let pow2 := n != 0 && n == 2 ^ Nat.log2 n
      { r with nt := !pow2 && n ≥ 3, tag := s!"kind={(alg.splitOn "/").filter (fun s => s == "opt" || s == "dict" || s == "runs" || s == "seq" || s == "bin")},oracle={if orc == "-" then 0 else 1}".replace " " "" }
    | _, _, _, _ => bad "c01-parse"
  | _ => bad "c01-arity"

/-- `c01ds <sum d:e,..> <impl dictsumchain(sum)>`: `dictsumchain` as TRANSLATED from dict.go and the model
    (`P.DA.dictSumChain`, tied to each other for all inputs by `AC.DictSumTie.dictsumchain_tie`) on the sum
    the implementation handed to it -/
def handleC01ds (f : List String) : Res :=
  match f with
  | [sum, dc] =>
    match pPairs sum with
    | some o =>
      let r : Res := {}
      let g : List AC.GoPrim.GTerm := o.map fun p => ⟨(p.1 : Int), p.2⟩
      let r := cmp "translated-dictsumchain" (match AC.Gen.Program.dictdictsumchain g with
        | some l => showInts l | none => "panic") dc r
      let r := cmp "dictsumchain" (showInts ((dictSumChain o).map fun (n : Nat) => (n : Int))) dc r
      { r with nt := o.length ≥ 2, tag := "kind=[dictsumchain]" }
    | none => bad "c01ds-parse"
  | _ => bad "c01ds-arity"

end AC.Drv
