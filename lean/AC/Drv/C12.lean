import AC.Drv.Proto
import AC.ExecTrace
/-! driver handler for C12:
`c12 <k> <L> <perm> <trace> <results-equal> <target-unchanged> <maxrunning> <outcome> <n> <kinds>`

`trace` is the event log of one real `exec.Parallel.Execute` call with `k` instrumented algorithms
and limit `L`: `s<i>` (logger saw "start: a<i>"), `r<i>` (FindChain of a<i> entered), `f<i>`
(FindChain returned), `d<i>` (logger saw "done: a<i>"), `ret` (Execute returned).
`outcome` is `ok`, `timeout` or `panic`; `n` is the target and `kinds` the per-algorithm result kind
(0 valid chain, 1 FindChain error, 2 wrong end, 3 not a chain) — both only needed to replay a case. -/
namespace AC.Drv
open P.ExecT

def c12Event (s : String) : Option Event :=
  if s = "ret" then some .ret else
  match s.toList with
  | c :: ds =>
    if ds.isEmpty then none else
    match (String.ofList ds).toNat? with
    | some i =>
      if c = 's' then some (.start i) else if c = 'r' then some (.run i)
      else if c = 'f' then some (.fin i) else if c = 'd' then some (.done i) else none
    | none => none
  | [] => none

/-- largest number of algorithms simultaneously inside FindChain over all prefixes -/
def c12MaxRunning (tr : List Event) : Nat :=
  (tr.foldl (fun (acc : Nat × Nat) e =>
    match e with
    | .run _ => (acc.1 + 1, max acc.2 (acc.1 + 1))
    | .fin _ => (acc.1 - 1, acc.2)
    | _ => acc) (0, 0)).2

def c12Idx (e : Event) : Option Nat :=
  match e with | .start i => some i | .run i => some i | .fin i => some i | .done i => some i | .ret => none

/-- each algorithm has exactly one start, run, fin, done, in this order; no foreign index -/
def c12WellFormed (k : Nat) (tr : List Event) : Bool :=
  ((List.range k).all fun i =>
    tr.count (.start i) == 1 && tr.count (.run i) == 1 && tr.count (.fin i) == 1 &&
    tr.count (.done i) == 1 &&
    tr.idxOf (.start i) < tr.idxOf (.run i) && tr.idxOf (.run i) < tr.idxOf (.fin i) &&
    tr.idxOf (.fin i) < tr.idxOf (.done i)) &&
  tr.all fun e => match c12Idx e with | some i => i < k | none => true

/-- `ret` occurs exactly once and is the last event (so it comes after every `done i`) -/
def c12RetLast (tr : List Event) : Bool := tr.count .ret == 1 && tr.getLast? == some .ret

def c12Order (tr : List Event) (sel : Event → Option Nat) : List Nat := tr.filterMap sel

def c12B (b : Bool) : String := if b then "1" else "0"

def handleC12 (f : List String) : Res :=
  match f with
  | [ks, Ls, perm, trace, req, tun, mr, outcome, _ns, kinds] =>
    match pNat ks, pNat Ls, pNats perm, pList c12Event trace, pNat mr, pNats kinds with
    | some k, some L, some pm, some tr, some mrun, some kd =>
      let r : Res := {}
      -- model: replay the implementation's trace on the LTS
      let verdict := match accepts k L tr with
        | none => "accepted"
        | some n => s!"rejected-at-{n}"
      let r := cmp "trace" verdict (if outcome == "ok" then "accepted" else outcome) r
      let r := cmp "maxrunning" (toString (c12MaxRunning tr)) mr r
      -- spec on the implementation's own trace, independent of the LTS
      let r := specIf "returns" (outcome == "ok") r
      let r := specIf "one-start-run-fin-done-per-algorithm-in-order" (c12WellFormed k tr) r
      let r := specIf "running-le-limit" (c12MaxRunning tr ≤ L && mrun ≤ L) r
      let r := specIf "ret-last-after-every-done" (c12RetLast tr) r
      let r := specIf "results-equal-sequential" (req == "1") r
      let r := specIf "target-unchanged" (tun == "1") r
      let startOrd := c12Order tr fun e => match e with | .start i => some i | _ => none
      let finOrd := c12Order tr fun e => match e with | .fin i => some i | _ => none
      let reorder := startOrd != finOrd
      let lim := if L < k then "lt" else if L == k then "eq" else "gt"
      { r with nt := k ≥ 3 && reorder && pm.length == k,
               tag := s!"k={k},lim={lim},maxrun={c12MaxRunning tr},reorder={c12B reorder},err={c12B (kd.any (· != 0))}" }
    | _, _, _, _, _, _ => bad "c12-parse"
  | _ => bad "c12-arity"

/-- `c12n <k> <L> <names> <results-equal> <outcome>`: un-instrumented algorithms whose names collide.
    Model: slot `i` holds the result of algorithm `i` whatever the names (`C12_return`), so the answer
    is "equal". -/
def handleC12n (f : List String) : Res :=
  match f with
  | [ks, Ls, _names, req, outcome] =>
    match pNat ks, pNat Ls with
    | some k, some L =>
      let r : Res := {}
      let r := cmp "results" "1" req r
      let r := cmp "outcome" "ok" outcome r
      let r := specIf "returns" (outcome == "ok") r
      let r := specIf "results-equal-sequential" (req == "1") r
      { r with nt := k ≥ 2, tag := s!"names,k={k},L={L}" }
    | _, _ => bad "c12n-parse"
  | _ => bad "c12n-arity"

end AC.Drv
