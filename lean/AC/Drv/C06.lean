import AC.Drv.Proto
import AC.Drv.C05
import AC.GenX
import AC.SemXText
/-! driver handler for C06:
`c06 <script hex> <ir|err> <names before allocation|-> <template> <impl output hex|err|panic|-> <chain> <ops> <reload>` -/
namespace AC.Drv.K06
open P.Alloc AC.AllocX AC.GenX AC.Drv AC.Drv.K05

/-! ### independent readers of the documented output formats -/
def rdLine (l : String) : Option (NInst String) :=
  match l.splitOn "\t" with
  | ["add", z, x, y] => some ⟨z, .add x y⟩
  | ["double", z, x] => some ⟨z, .dbl x⟩
  | ["shift", z, x, n] => n.toNat?.map fun n => ⟨z, .shl x n⟩
  | _ => none

/-- `tmp v ...` declares temporaries; then one `add z x y` / `double z x` / `shift z x n` per line -/
def rdListing (s : String) : Option (List String × List (NInst String)) :=
  match s.splitOn "\n" with
  | first :: rest =>
    if rest.getLast? != some "" then none else
    match first.splitOn "\t" with
    | "tmp" :: ts => (rest.dropLast.mapM rdLine).map fun ls => (ts.filter (· ≠ ""), ls)
    | _ => none
  | [] => none

def rdHex (s : String) : Option Nat :=
  match s.toList with
  | '0' :: 'x' :: ds =>
    if ds.isEmpty then none else ds.foldlM (fun acc c => (hexVal c).map fun d => acc * 16 + d) 0
  | _ => none

def words (s : String) : List String := (s.splitOn " ").filter (· ≠ "")

def bodyLines (s : String) : Option (List String) :=
  if s = "" then some [] else
  let ls := s.splitOn "\n"
  if ls.getLast? != some "" then none else some ls.dropLast

/-- `  n: 0x…` -/
def rdChainLine (l : String) : Option (Nat × Nat) :=
  match words l with
  | [n, h] => do
    let n ← match n.toList.reverse with
      | ':' :: ds => (String.ofList ds.reverse).toNat?
      | _ => none
    let v ← rdHex h
    pure (n, v)
  | _ => none

/-- `[  n]    i+j    0x…` -/
def rdOpsLine (l : String) : Option (Nat × Nat × Nat × Nat) :=
  match l.splitOn "]" with
  | [a, b] =>
    match a.toList, words b with
    | '[' :: ns, [ij, h] =>
      match ij.splitOn "+" with
      | [i, j] => do
        let n ← match words (String.ofList ns) with
          | [w] => w.toNat?
          | _ => none
        let i ← i.toNat?; let j ← j.toNat?; let v ← rdHex h
        pure (n, i, j, v)
      | _ => none
    | _, _ => none
  | _ => none

def strOfHexField (s : String) : Option String := (pHexChars s).map String.ofList

end AC.Drv.K06

namespace AC.Drv
open P.Alloc AC.AllocX AC.GenX AC.Drv.K05 AC.Drv.K06

def handleC06 (f : List String) : Res :=
  match f with
  | [scriptH, irS, preS, tmpl, outH, chainS, opsS, reloadS] =>
    match pIR irS, pNamed preS, pNats chainS, pPairs opsS, strOfHexField scriptH with
    | some ir, some preN, some chain, some ops, some script =>
      let r : Res := {}
      let cfg := strCfg "x" "z" "t"
      let occ := occOf ir preN
      let preOut : List String := if preN.isEmpty then ir.map (fun _ => "") else preN.map fun n => if n.out == "?" then "" else n.out
      -- model
      let m := prepareX cfg ir occ preOut
      let implErr := outH == "err"
      let mOut := match m with
        | .error _ => "err"
        | .ok d =>
          if tmpl == "listing" then showHexChars (listingOf d).toList
          else if tmpl == "chain" then showHexChars (renderChain d.chain)
          else if tmpl == "ops" then showHexChars (renderOps d.ops d.chain)
          else if implErr then "ok" else outH   -- script: the printer is C07's model; only refusal is compared
      let r := cmp "output" mOut outH r
      let r := match m with
        | .ok d => cmp "ops" (showPairs d.ops) opsS (cmp "chain" (showNats d.chain) chainS r)
        | .error _ => r
      -- the chain the generator evaluated must be the SCRIPT's chain: computed here from the script text
      -- by the loader model of C03 (parse, translate, compile, evaluate — proved to refine the direct
      -- semantics), independently of the implementation's translator
      let r := match P.SemX.loadText script.toList with
        | .ok st => specIf "evaluated-chain-is-the-scripts-chain" (st.chain == chain) r
        | .error _ => r
      -- spec on the implementation's output
      let nInst := ir.length
      let hasShift := ir.any fun i => match i.op with | .shl _ _ => true | _ => false
      let hasIndex := script.contains '['
      let nTemps := match m with | .ok d => d.temps.length | .error _ => 0
      let nt := nInst ≥ 2 && (hasShift || hasIndex || nTemps ≥ 2)
      let tag := s!"tmpl={tmpl},refused={c05b implErr},invalid={c05b (!validateB ir)},zeroshift={c05b (ir.any fun i => match i.op with | .shl _ 0 => true | _ => false)}"
      if implErr then { r with tag := tag }   -- refusal with an error is allowed
      else if outH == "panic" then specIf "no-panic" false { r with tag := tag }
      else
        match strOfHexField outH with
        | none => bad "c06-output-hex"
        | some out =>
          let last := chain.getLast?.getD 0
          let r :=
            if tmpl == "listing" then
              match rdListing out with
              | none => specIf "listing-readable" false r
              | some (tmps, prog) =>
                let r := specIf "listing-distinct" (specOut "x" "z" false 1 prog == some (Int.ofNat last)) r
                let r := specIf "listing-aliased" (specOut "x" "z" true 1 prog == some (Int.ofNat last)) r
                let r := specIf "only-declared-temporaries"
                  ((usedNames prog).all fun n => n == "x" || n == "z" || tmps.contains n) r
                r
            else if tmpl == "chain" then
              match (bodyLines out).bind (·.mapM rdChainLine) with
              | none => specIf "chain-readable" false r
              | some ls => specIf "chain-exact" (ls == (List.range chain.length).map (fun n => (n + 1, chain.getD n 0))) r
            else if tmpl == "ops" then
              match (bodyLines out).bind (·.mapM rdOpsLine) with
              | none => specIf "ops-readable" false r
              | some ls => specIf "ops-exact"
                  (ls == (List.range ops.length).map (fun n => (n, (ops.getD n (0,0)).1, (ops.getD n (0,0)).2, chain.getD (n + 1) 0))) r
            else if tmpl == "script" then
              specIf "script-reloads-to-same-chain" (reloadS == chainS) r
            else specIf "known-template" false r
          { r with nt := nt, tag := tag }
    | _, _, _, _, _ => bad "c06-parse"
  | _ => bad "c06-arity"

end AC.Drv
