import AC.Drv.Proto
import AC.Gen.ProgramFns
import AC.HelpersX
/-! driver handler for C19: `c19 <sub-op> <inputs…> <implementation outputs…> <unch>`; `unch` = 1 when the
    harness found every Go argument unmodified after the call. Sub-ops:
    mask l h out | ones n out | extract x l h out | ispow2 x b | pow2upto x list | bitsset x list |
    minmax x y min max | uint64s x list | bytesle x list | hex|binary <hex-encoded string> ok value |
    sort in out | index n xs i | contains n xs b | containssorted n xs b | unique xs out |
    insert xs x out | merge xs ys out | vadd u v out|panic | vlsh v s out -/
namespace AC.Drv
namespace D19
open P P.Bits P.Helpers P.HX

def bs (b : Bool) : String := if b then "1" else "0"

def pw {α} (r : α → α → Bool) : List α → Bool
  | [] => true
  | a :: l => l.all (r a) && pw r l

def strictAsc (l : List Int) : Bool := pw (fun a b => decide (a < b)) l
def nonDecr (l : List Int) : Bool := pw (fun a b => decide (a ≤ b)) l
def sameMembers (a b : List Int) : Bool := a.all (b.contains ·) && b.all (a.contains ·)

/-- little-endian positional value, written independently of the model -/
def leValue (b : Nat) (ws : List Nat) : Nat :=
  ((List.range ws.length).zip ws).foldl (fun acc p => acc + p.2 * b ^ p.1) 0

/-- digit value for the spec of Hex/Binary (independent of `P.HX.digitVal`) -/
def specDigit (base : Nat) (c : Char) : Option Nat :=
  let n := c.toNat
  let v := if 48 ≤ n && n ≤ 57 then n - 48 else if 97 ≤ n && n ≤ 102 then n - 87 else if 65 ≤ n && n ≤ 70 then n - 55 else 99
  if v < base then some v else none

/-- spec value of a digit string: Σ dᵢ·base^(position from the right) over the non-underscore characters;
    `none` when the string is not a well-formed underscore-separated digit string -/
def specParse (base : Nat) (s : List Char) : Option Nat :=
  let body := s.filter (· != '_')
  if body.isEmpty then none else
  match body.mapM (specDigit base) with
  | none => none
  | some ds => some (leValue base ds.reverse)

def finish (r : Res) (unch : String) (nt : Bool) (tag : String) : Res :=
  let r := specIf "arguments-unmodified" (unch == "1") r
  { r with nt := nt, tag := tag }

/-- consecutive de-duplication written from the definition: keep an element iff it differs from its predecessor -/
def specUnique (xs : List Int) : List Int :=
  ((List.range xs.length).filter fun i => i == 0 || xs.getD (i - 1) 0 != xs.getD i 0).map fun i => xs.getD i 0

def count (a : Int) (l : List Int) : Nat := (l.filter (· == a)).length

/-- number of input fields of each sub-op (the remaining fields, except the last, are implementation outputs) -/
def nInputs : String → Nat
  | "mask" => 2 | "extract" => 3 | "minmax" => 2 | "index" => 2 | "contains" => 2 | "containssorted" => 2
  | "insert" => 2 | "merge" => 2 | "vadd" => 2 | "vlsh" => 2 | _ => 1

/-- is the argument tuple "in range" in the sense of the property (so that a panic is a violation)? -/
def inRange (op : String) (ins : List String) : Bool :=
  match op, ins with
  | "mask", [l, h] => match pNat l, pNat h with | some l, some h => l ≤ h | _, _ => false
  | "extract", [x, l, h] =>
    match pInt x, pNat l, pNat h with | some x, some l, some h => decide (0 ≤ x) && decide (l ≤ h) | _, _, _ => false
  | "ispow2", [x] | "pow2upto", [x] | "bitsset", [x] | "uint64s", [x] =>
    match pInt x with | some x => decide (0 ≤ x) | none => false
  | "containssorted", [_, xs] => match pInts xs with | some xs => nonDecr xs | none => false
  | "insert", [xs, _] => match pInts xs with | some xs => strictAsc xs | none => false
  | "merge", [xs, ys] => match pInts xs, pInts ys with | some xs, some ys => strictAsc xs && strictAsc ys | _, _ => false
  | "vadd", [u, v] => match pInts u, pInts v with | some u, some v => u.length == v.length | _, _ => false
  | _, _ => true

/-- a line whose implementation output is the word `panic`: in range → spec failure `no-panic` (model comparison
    skipped); out of range → the model (which does not panic there) disagrees, no spec verdict. `none` = not a
    panic line, or the one case where the model panics too (vector Add with different lengths). -/
def panicLine (f : List String) : Option Res :=
  match f with
  | op :: rest =>
    let k := nInputs op
    let ins := rest.take k
    let outs := (rest.drop k).dropLast
    if outs.any (· == "panic") then
      let inr := inRange op ins
      if op == "vadd" && !inr then none
      else if inr then some { spec := "fail:no-panic", nt := true, tag := s!"{op},panic,inrange=1" }
      else some { corr := false, detail := s!"{op}:model-does-not-panic:impl=panic", tag := s!"{op},panic,inrange=0" }
    else none
  | [] => none

end D19
open D19 P P.Bits P.Helpers P.HX

def handleC19x (f : List String) : Res :=
  match f with
  | ["mask", ls, hs, out, unch] =>
    match pNat ls, pNat hs, pInt out with
    | some l, some h, some o =>
      let r : Res := {}
      let r := cmp "mask" (toString (maskI l h)) out r
      let r := if l ≤ h then
          let r := specIf "mask-range" (decide (0 ≤ o) && decide (o < (2 : Int) ^ h)) r
          specIf "mask-bits" ((List.range h).all fun i => o.toNat.testBit i == decide (l ≤ i)) r
        else r
      finish r unch (l < h) s!"mask,inrange={bs (l ≤ h)}"
    | _, _, _ => bad "c19-mask-parse"
  | ["ones", ns, out, unch] =>
    match pNat ns, pInt out with
    | some n, some o =>
      let r : Res := {}
      let r := cmp "ones" (toString (maskI 0 n)) out r
      let r := specIf "ones" (o + 1 == (2 : Int) ^ n) r
      finish r unch (n ≥ 1) "ones"
    | _, _ => bad "c19-ones-parse"
  | ["extract", xs, ls, hs, out, unch] =>
    match pInt xs, pNat ls, pNat hs, pInt out with
    | some x, some l, some h, some o =>
      let r : Res := {}
      let r := cmp "extract" (toString (extractI x l h)) out r
      let inr := decide (0 ≤ x) && decide (l ≤ h)
      let want : Nat := x.toNat / 2 ^ l % 2 ^ (h - l)
      let r := if inr then specIf "extract" (o == (want : Int)) r else r
      finish r unch (inr && l < h && want != 0) s!"extract,inrange={bs inr}"
    | _, _, _, _ => bad "c19-extract-parse"
  | ["ispow2", xs, out, unch] =>
    match pInt xs with
    | some x =>
      let r : Res := {}
      let r := cmp "ispow2" (bs (isPow2 x)) out r
      let want := (List.range (Nat.log2 x.natAbs + 2)).any fun k => x == (2 : Int) ^ k
      let r := if 0 ≤ x then specIf "ispow2" (out == bs want) r else r
      finish r unch (decide (1 ≤ x)) s!"ispow2,res={out},inrange={bs (decide (0 ≤ x))}"
    | _ => bad "c19-ispow2-parse"
  | ["pow2upto", xs, out, unch] =>
    match pInt xs, pNats out with
    | some x, some o =>
      let r : Res := {}
      let r := cmp "pow2upto" (showNats (pow2UpTo x)) out r
      let r := cmp "translated-pow2upto" (match AC.Gen.Program.bigintPow2UpTo x with
        | some o => showInts o | none => "panic") out r
      let r := if 0 ≤ x then
          let r := specIf "pow2upto-powers" (((List.range o.length).zip o).all fun p => p.2 == 2 ^ p.1) r
          let r := specIf "pow2upto-nonempty-iff-positive" (o.isEmpty == decide (x < 1)) r
          match o.getLast? with
          | some t => specIf "pow2upto-maximal" (decide ((t : Int) ≤ x) && decide (x < 2 * (t : Int))) r
          | none => r
        else r
      finish r unch (decide (2 ≤ x)) s!"pow2upto,inrange={bs (decide (0 ≤ x))}"
    | _, _ => bad "c19-pow2upto-parse"
  | ["bitsset", xs, out, unch] =>
    match pNat xs, pNats out with
    | some x, some o =>
      let r : Res := {}
      let r := cmp "bitsset" (showNats (bitsSet x)) out r
      let r := cmp "translated-bitsset" (match AC.Gen.Program.bigintBitsSet (x : Int) with
        | some o => showInts o | none => "panic") out r
      let r := specIf "bitsset-ascending" (pw (fun a b => decide (a < b)) o) r
      let r := specIf "bitsset-all-set" (o.all fun i => x.testBit i) r
      let r := specIf "bitsset-complete" ((o.foldl (fun acc i => acc + 2 ^ i) 0) == x) r
      finish r unch (o.length ≥ 2) "bitsset"
    | _, _ => bad "c19-bitsset-parse"
  | ["minmax", xs, ys, mn, mx, unch] =>
    match pInt xs, pInt ys, pInt mn, pInt mx with
    | some x, some y, some a, some b =>
      let r : Res := {}
      let m := minMax x y
      let r := cmp "min" (toString m.1) mn r
      let r := cmp "max" (toString m.2) mx r
      let r := specIf "minmax" (decide (a ≤ b) && ((a == x && b == y) || (a == y && b == x))) r
      finish r unch (x != y) s!"minmax,lt={bs (decide (x < y))}"
    | _, _, _, _ => bad "c19-minmax-parse"
  | ["uint64s", xs, out, unch] =>
    match pInt xs, pNats out with
    | some x, some o =>
      let r : Res := {}
      let r := cmp "uint64s" (match uint64s x with | some w => showNats w | none => "diverges") out r
      let r := if 0 ≤ x then
          let r := specIf "uint64s-sum" (leValue (2 ^ 64) o == x.toNat) r
          let r := specIf "uint64s-limb-range" (o.all fun w => w < 2 ^ 64) r
          specIf "uint64s-top-nonzero" (o.getLast? != some 0) r
        else r
      finish r unch (o.length ≥ 2) s!"uint64s,limbs={min o.length 3}"
    | _, _ => bad "c19-uint64s-parse"
  | ["bytesle", xs, out, unch] =>
    match pInt xs, pNats out with
    | some x, some o =>
      let r : Res := {}
      let r := cmp "bytesle" (showNats (bytesLE x)) out r
      let r := specIf "bytesle-sum" (leValue 256 o == x.natAbs) r
      let r := specIf "bytesle-byte-range" (o.all fun w => w < 256) r
      let r := specIf "bytesle-top-nonzero" (o.getLast? != some 0) r
      finish r unch (o.length ≥ 2) s!"bytesle,neg={bs (decide (x < 0))}"
    | _, _ => bad "c19-bytesle-parse"
  | [op, enc, ok, val, unch] =>
    if op == "hex" || op == "binary" then
      match pHexChars enc, pInt val with
      | some s, some v =>
        let base := if op == "hex" then 16 else 2
        let r : Res := {}
        let m := if op == "hex" then hex s else binary s
        let r := cmp "ok" (bs m.isSome) ok r
        let r := cmp "value" (toString (m.getD 0)) val r
        let sp := specParse base s
        let r := match sp with
          | some w => specIf s!"{op}-value" (ok == "1" && v == (w : Int)) r
          | none => r
        finish r unch (sp.isSome && s.length ≥ 2) s!"{op},wf={bs sp.isSome},ok={ok},us={bs (s.contains '_')}"
      | _, _ => bad "c19-parse-parse"
    else if op == "index" || op == "contains" || op == "containssorted" then
      -- fields: n xs out
      match pInt enc, pInts ok with
      | some n, some xs =>
        let r : Res := {}
        if op == "index" then
          match pInt val with
          | some o =>
            let r := cmp "index" (toString (index n xs)) val r
            let r := cmp "translated-index" (match AC.Gen.Program.bigintsIndex n xs with
              | some o => toString o | none => "panic") val r
            let good := if o == -1 then !(xs.contains n)
              else decide (0 ≤ o) && decide (o.toNat < xs.length) && xs.getD o.toNat 0 == n &&
                (List.range o.toNat).all fun j => xs.getD j 0 != n
            let r := specIf "index-first-occurrence" good r
            finish r unch (xs.length ≥ 2) s!"index,found={bs (o != -1)}"
          | none => bad "c19-index-parse"
        else if op == "contains" then
          let r := cmp "contains" (bs (HX.contains n xs)) val r
          let r := cmp "translated-contains" (match AC.Gen.Program.bigintsContains n xs with
            | some o => bs o | none => "panic") val r
          let r := specIf "contains-iff-member" (val == bs (xs.any (· == n))) r
          finish r unch (xs.length ≥ 2) s!"contains,res={val}"
        else
          let r := cmp "containssorted" (bs (containsSorted n xs)) val r
          let srt := nonDecr xs
          let r := if srt then specIf "containssorted-iff-member" (val == bs (xs.any (· == n))) r else r
          finish r unch (srt && xs.length ≥ 2) s!"containssorted,sorted={bs srt},res={val}"
      | _, _ => bad "c19-search-parse"
    else if op == "insert" then
      match pInts enc, pInt ok, pInts val with
      | some xs, some x, some o =>
        let r : Res := {}
        let r := cmp "insert" (showInts (insertSortedUnique xs x)) val r
        let r := cmp "translated-insert" (match AC.Gen.Program.bigintsInsertSortedUnique xs x with
          | some o => showInts o | none => "panic") val r
        let pre := strictAsc xs
        let r := if pre then
            let r := specIf "insert-sorted-distinct" (strictAsc o) r
            specIf "insert-members" (sameMembers o (x :: xs)) r
          else r
        finish r unch (pre && xs.length ≥ 2) s!"insert,pre={bs pre},present={bs (xs.contains x)}"
      | _, _, _ => bad "c19-insert-parse"
    else if op == "merge" then
      match pInts enc, pInts ok, pInts val with
      | some xs, some ys, some o =>
        let r : Res := {}
        let r := cmp "merge" (showInts (mergeUnique xs ys)) val r
        let r := cmp "translated-merge" (match AC.Gen.Program.bigintsMergeUnique xs ys with
          | some o => showInts o | none => "panic") val r
        let pre := strictAsc xs && strictAsc ys
        let r := if pre then
            let r := specIf "merge-sorted-distinct" (strictAsc o) r
            specIf "merge-members" (sameMembers o (xs ++ ys)) r
          else r
        finish r unch (pre && xs.length + ys.length ≥ 2)
          s!"merge,pre={bs pre},overlap={bs (xs.any (ys.contains ·))}"
      | _, _, _ => bad "c19-merge-parse"
    else if op == "vadd" then
      match pInts enc, pInts ok with
      | some u, some v =>
        let r : Res := {}
        let r := cmp "vadd" (match vadd u v with | some w => showInts w | none => "panic") val r
        let same := u.length == v.length
        let r := if same then
            match pInts val with
            | some o => specIf "vadd-pointwise" (o.length == u.length &&
                (List.range u.length).all fun i => o.getD i 0 == u.getD i 0 + v.getD i 0) r
            | none => specIf "vadd-no-panic" false r
          else r
        finish r unch (same && u.length ≥ 1) s!"vadd,samelen={bs same}"
      | _, _ => bad "c19-vadd-parse"
    else if op == "vlsh" then
      match pInts enc, pNat ok, pInts val with
      | some v, some s, some o =>
        let r : Res := {}
        let r := cmp "vlsh" (showInts (vlsh v s)) val r
        let r := specIf "vlsh-pointwise" (o.length == v.length &&
          (List.range v.length).all fun i => o.getD i 0 == v.getD i 0 * (2 : Int) ^ s) r
        finish r unch (v.length ≥ 1 && s ≥ 1) "vlsh"
      | _, _, _ => bad "c19-vlsh-parse"
    else bad s!"c19-unknown-subop:{op}"
  | [op, ins, out, unch] =>
    match pInts ins, pInts out with
    | some xs, some o =>
      let r : Res := {}
      if op == "sort" then
        let r := cmp "sort" (showInts (sort xs)) out r
        let r := specIf "sort-sorted" (nonDecr o) r
        let r := specIf "sort-permutation" (o.length == xs.length && xs.all fun a => count a o == count a xs) r
        finish r unch (xs.length ≥ 2) s!"sort,already={bs (nonDecr xs)}"
      else if op == "unique" then
        let r := cmp "unique" (showInts (uniq xs)) out r
        let r := cmp "translated-unique" (match AC.Gen.Program.bigintsUnique xs with
          | some o => showInts o | none => "panic") out r
        let r := specIf "unique-consecutive-dedup" (o == specUnique xs) r
        let srt := nonDecr xs
        let r := if srt then
            let r := specIf "unique-strictly-ascending" (strictAsc o) r
            specIf "unique-members" (sameMembers o xs) r
          else r
        finish r unch (xs.length ≥ 2) s!"unique,sorted={bs srt},dups={bs (o.length != xs.length)}"
      else bad s!"c19-unknown-subop:{op}"
    | _, _ => bad "c19-list-parse"
  | _ => bad "c19-arity"

def handleC19 (f : List String) : Res :=
  match panicLine f with
  | some r => r
  | none => handleC19x f

end AC.Drv
