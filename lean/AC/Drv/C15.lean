import AC.Drv.Proto
import AC.Drv.C13
import AC.CalcModel
/-! driver handler for C15:

`c15 cli <args NUL-separated hex> <stdin hex (first 2000 bytes)> <exit|-1> <timeout 0/1> <panic text 0/1> <stdin digest> <stdin length>`
`c15 lib <entry> <input hex> <ok|err|panic> <panic message hex>`

* spec on the implementation's own output, from the property text only: a command line ends with
  exit status 0, 1 or 2, on its own (no timeout), and without a Go runtime panic / fatal error on
  stderr; a library entry point returns a value or an error (no panic).
* model, where an executable model with an explicit outcome exists: the calc model (`AC.Calc`, run
  with C13's runtime guard) predicts the outcome class of `calc.Eval`, and with search.go's checks
  in their order (missing expression → 2, `-p < 1` → 2, evaluation error → 1, `n ≤ 0` → 1, else 0)
  the exit status of `search [-p N] [--] <expr>`.  Other entry points: spec only. -/
namespace AC.Drv
namespace C15

def splitNul (cs : List Char) : List (List Char) :=
  let rec go (cur : List Char) (acc : List (List Char)) : List Char → List (List Char)
    | [] => (cur.reverse :: acc).reverse
    | c :: r => if c.toNat == 0 then go [] (cur.reverse :: acc) r else go (c :: cur) acc r
  go [] [] cs

/-- a plain decimal integer within the range of Go's `int` (other spellings are not modelled) -/
def plainInt (v : List Char) : Option Int :=
  let (neg, ds) := match v with | '-' :: r => (true, r) | _ => (false, v)
  if ds.isEmpty || ds.length > 18 || !ds.all Char.isDigit then none
  else
    let n : Nat := ds.foldl (fun a c => 10 * a + (c.toNat - 48)) 0
    some (if neg then -(n : Int) else n)

inductive Pred | exit (n : Nat) | unmodelled | huge

/-- outcome class of the calc model on an expression, with the runtime guard -/
def calcClass (e : List Char) : Option (Option Int) :=   -- none = huge; some none = error; some (some v) = value
  match AC.Calc.evalWith C13.applyG e with
  | .halt .huge => none
  | .halt .divzero => some none
  | .err => some none
  | .ok v => some (some v)

/-- expected exit status of `search` for the argument shapes that are modelled -/
def searchPred (args : List (List Char)) : Pred :=
  let rec flags (fuel : Nat) (p : Int) : List (List Char) → Pred
    | [] => .exit 2                                   -- missing expression
    | a :: r =>
      match fuel with
      | 0 => .unmodelled
      | fuel+1 =>
        if a == "-p".toList then
          match r with
          | v :: r' => match plainInt v with
            | some n => flags fuel n r'
            | none => .unmodelled
          | [] => .unmodelled
        else if a == "--".toList then positional p r
        else if a.head? == some '-' then .unmodelled
        else positional p (a :: r)
  flags (args.length + 1) 1 args
where
  positional (p : Int) : List (List Char) → Pred
    | [] => .exit 2
    | e :: _ =>
      if p < 1 then .exit 2
      else match calcClass e with
        | none => .huge
        | some none => .exit 1
        | some (some v) => if v ≤ 0 then .exit 1 else .exit 0

def showArg0 (args : List (List Char)) : String :=
  match args with
  | a :: _ => String.ofList (a.filter fun c => c.isAlphanum)
  | [] => "none"

end C15

open C15 in
def handleC15 (f : List String) : Res :=
  match f with
  | ["cli", argsS, _stdin, exit, to, pn, _sha, _len] =>
    match pHexChars argsS with
    | none => bad "c15-parse"
    | some cs =>
      let args := if argsS == "-" then [] else splitNul cs
      let r : Res := {}
      let (r, mtag) : Res × String :=
        match args with
        | a :: rest =>
          if a == "search".toList then
            match searchPred rest with
            | .exit n => (cmp "search-exit" (toString n) exit r, "model=search")
            | .huge => (r, "model=skipped-huge")
            | .unmodelled => (r, "model=none")
          else (r, "model=none")
        | [] => (r, "model=none")
      let r := specIf "terminates-on-its-own" (to == "0") r
      let r := specIf "no-runtime-panic" (pn == "0") r
      let r := specIf "conventional-exit-status" (exit == "0" || exit == "1" || exit == "2") r
      let sub := match args with | [] => "none" | _ => showArg0 args
      { r with nt := exit != "0", tag := s!"cli,sub={if sub.isEmpty then "other" else sub},exit={exit},{mtag}" }
  | ["lib", entry, inputS, outcome, _pmsg] =>
    match pHexChars inputS with
    | none => bad "c15-parse"
    | some s =>
      let r : Res := {}
      let (r, mtag) : Res × String :=
        if entry == "calc" then
          match calcClass s with
          | none => (r, "model=skipped-huge")
          | some none => (cmp "calc-outcome" "err" outcome r, "model=calc")
          | some (some _) => (cmp "calc-outcome" "ok" outcome r, "model=calc")
        else (r, "model=none")
      let r := specIf "terminates-on-its-own" (outcome != "timeout") r
      let r := specIf "no-panic" (outcome == "ok" || outcome == "err" || outcome == "timeout") r
      { r with nt := entry != "parse" || outcome == "ok", tag := s!"lib,entry={entry},out={outcome},{mtag}" }
  | _ => bad "c15-arity"

end AC.Drv
