/-! Line protocol helpers for the correspondence driver (core only). -/
namespace AC.Drv

def splitSp (s : String) : List String := (s.splitOn " ").filter (· ≠ "")

def pInt (s : String) : Option Int := s.toInt?
def pNat (s : String) : Option Nat := s.toNat?

def pList {α} (f : String → Option α) (s : String) : Option (List α) :=
  if s = "-" then some [] else (s.splitOn ",").mapM f

def pInts := pList pInt
def pNats := pList pNat

def pPair (s : String) : Option (Nat × Nat) :=
  match s.splitOn ":" with
  | [a, b] => do let a ← a.toNat?; let b ← b.toNat?; pure (a, b)
  | _ => none
def pPairs := pList pPair

def showList {α} (f : α → String) : List α → String
  | [] => "-"
  | l => ",".intercalate (l.map f)
def showInts (l : List Int) : String := showList toString l
def showNats (l : List Nat) : String := showList toString l
def showPairs (l : List (Nat × Nat)) : String := showList (fun p => s!"{p.1}:{p.2}") l

def hexVal (c : Char) : Option Nat :=
  if '0' ≤ c ∧ c ≤ '9' then some (c.toNat - '0'.toNat)
  else if 'a' ≤ c ∧ c ≤ 'f' then some (c.toNat - 'a'.toNat + 10) else none

/-- decode a hex-encoded byte string into a list of bytes (as Nat); "-" is empty -/
def pHexBytes (s : String) : Option (List Nat) :=
  if s = "-" then some [] else
  let rec go : List Char → Option (List Nat)
    | [] => some []
    | [_] => none
    | a :: b :: r => do let x ← hexVal a; let y ← hexVal b; let t ← go r; pure ((x*16+y) :: t)
  go s.toList

/-- decode hex into a list of chars (bytes < 128 expected; others mapped to Char.ofNat) -/
def pHexChars (s : String) : Option (List Char) := (pHexBytes s).map (·.map Char.ofNat)

def hexDigit (n : Nat) : Char := if n < 10 then Char.ofNat (48 + n) else Char.ofNat (87 + n)
def showHexBytes : List Nat → String
  | [] => "-"
  | l => String.mk (l.flatMap fun b => [hexDigit (b / 16), hexDigit (b % 16)])
def showHexChars (l : List Char) : String := showHexBytes (l.map Char.toNat)

/-- result line: corr (eq|ne), spec (pass|fail:<clause>|na), nontrivial flag, branch tag, detail -/
structure Res where
  corr : Bool := true
  spec : String := "pass"
  nt : Bool := false
  tag : String := "-"
  detail : String := "-"

def Res.render (r : Res) : String :=
  s!"{if r.corr then "eq" else "ne"} {r.spec} {if r.nt then 1 else 0} {r.tag} {r.detail}"

def bad (msg : String) : Res := { corr := false, spec := "na", detail := s!"bad-line:{msg}" }

/-- compare model output with impl output -/
def cmp (field model impl : String) (r : Res) : Res :=
  if model = impl then r else
    { r with corr := false, detail := if r.detail = "-" then s!"{field}:model={model}:impl={impl}" else r.detail }

def specIf (clause : String) (ok : Bool) (r : Res) : Res :=
  if ok then r else { r with spec := if r.spec = "pass" then s!"fail:{clause}" else r.spec }

end AC.Drv
