import AC.Drv.Proto
import AC.OptX
import AC.Gen.ProgramFns
/-! driver handler for C10: `c10 <chain> <impl: err|chain> <unchanged>` -/
namespace AC.Drv
open P

def isSublist : List Int → List Int → Bool
  | [], _ => true
  | _ :: _, [] => false
  | a :: l, b :: r => if a == b then isSublist l r else isSublist (a :: l) r

def handleC10 (f : List String) : Res :=
  match f with
  | [cs, impl, unch] =>
    match pInts cs with
    | some c =>
      let r : Res := {}
      let m := P.OptX.optimize c
      let r := cmp "optimize" (showInts m) impl r
      -- `opt.Optimize` as TRANSLATED from opt.go (list based, hence only on chains of moderate length):
      -- validates the translator (nested loops, `continue`, in-place filtering) against the code
      let r := if c.length ≤ 20 then
          cmp "translated-optimize" (match AC.Gen.Program.optOptimize c with
            | some (o, none) => showInts o | some (_, some _) => "err" | none => "panic") impl r
        else r
      let valid := isChainB c
      if !valid then { r with tag := "invalid-input" } else
      match pInts impl with
      | some o =>
        let r := specIf "input-unmodified" (unch == "1") r
        let r := specIf "result-valid-chain" (isChainO o) r
        let r := specIf "subsequence" (isSublist o c) r
        let r := specIf "first-is-1" (o.head? == some 1) r
        let r := specIf "same-last" (o.getLast? == c.getLast?) r
        let r := specIf "not-longer" (o.length ≤ c.length) r
        let removed := c.length - o.length
        { r with nt := removed > 0, tag := s!"removed={if removed > 3 then 3 else removed},asc={if isAscending c then 1 else 0}" }
      | none => specIf "no-error" false r
    | none => bad "c10-parse"
  | _ => bad "c10-arity"

end AC.Drv
