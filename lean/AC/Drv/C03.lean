import AC.Drv.Proto
import AC.Gen.AccGrammar
import AC.SemX
import AC.SemXText
/-! driver handler for C03:
`c03 <text hex> <impl parse: err | tree dump> <impl load: err | chain> <impl program | -> <impl error class> <impl ir: - | err | _ | dump>`

Model side: `P.SemX.translate` / `P.SemX.load` run on the implementation's tree (so the semantic half does not
depend on the parser model) and are compared with the implementation's IR, chain, program and error class;
in addition the parser model `P.PegF.parse` (AC/PegFull.lean) is run on the text and compared with the
implementation's tree, and the composed `P.SemX.loadText` with the load outcome.
Spec side: `specRun`, a direct big-step evaluator written from the property text, independent of the IR
pipeline and of `P.SemX.denote`. -/
namespace AC.Drv
open P.SemX

/-! ## tree dump reader -/
namespace C03

def pNatC (ds : List Char) : Option Nat :=
  if ds.isEmpty || !ds.all Char.isDigit then none
  else some (ds.foldl (fun a c => 10 * a + (c.toNat - '0'.toNat)) 0)

def pIntC : List Char → Option Int
  | '-' :: ds => (pNatC ds).map fun n => - (n : Int)
  | ds => (pNatC ds).map fun n => (n : Int)

/-- reads one expression from the front of the input; fuel = input length -/
def pExpr : Nat → List Char → Option (Expr × List Char)
  | 0, _ => none
  | n+1, s =>
    match s with
    | 'O' :: '(' :: r =>
      match pIntC (r.takeWhile (· ≠ ')')), r.dropWhile (· ≠ ')') with
      | some i, ')' :: r' => some (.operand i, r')
      | _, _ => none
    | 'I' :: '(' :: r =>
      match r.dropWhile (· ≠ ')') with
      | ')' :: r' => some (.ident (String.ofList (r.takeWhile (· ≠ ')'))), r')
      | _ => none
    | 'D' :: '(' :: r =>
      match pExpr n r with
      | some (x, ')' :: r') => some (.double x, r')
      | _ => none
    | 'S' :: '(' :: r =>
      match pExpr n r with
      | some (x, ',' :: r') =>
        match pNatC (r'.takeWhile (· ≠ ')')), r'.dropWhile (· ≠ ')') with
        | some k, ')' :: r'' => some (.shift x k, r'')
        | _, _ => none
      | _ => none
    | 'A' :: '(' :: r =>
      match pExpr n r with
      | some (x, ',' :: r') =>
        match pExpr n r' with
        | some (y, ')' :: r'') => some (.add x y, r'')
        | _ => none
      | _ => none
    | _ => none

def pStmt (s : String) : Option Stmt :=
  let cs := s.toList
  let name := cs.takeWhile (· ≠ '=')
  match cs.dropWhile (· ≠ '=') with
  | '=' :: r =>
    match pExpr (r.length + 1) r with
    | some (e, []) => some ⟨String.ofList name, e⟩
    | _ => none
  | _ => none

def pTree (s : String) : Option Tree :=
  if s = "-" then some [] else (s.splitOn ";").mapM pStmt

/-! ## dumps of model results -/
def showInst (i : Inst) : String :=
  match i.op with
  | .add x y => s!"{i.out}=A({x},{y})"
  | .dbl x => s!"{i.out}=D({x})"
  | .shl x s => s!"{i.out}=S({x},{s})"

def showIR : List Inst → String
  | [] => "_"
  | l => ";".intercalate (l.map showInst)

def showErr : Err → String
  | .undefined => "undefined"
  | .redefine => "redefine"
  | .negindex => "negindex"
  | .bounds => "bounds"
  | .outputindex => "outputindex"

/-! ## the specification, executed directly (independent of translate / compile / denote)

"evaluating statements in order and operands left to right, where each addition or doubling appends one
element, a shift by s ≥ 1 appends s successive doublings, `1` denotes the first element, a name denotes the
element its statement produced and `[i]` denotes element i. … uses of undefined names, redefinitions, and
operations on an element index that has not been computed yet are rejected". -/

inductive Rej | undefinedName | redefinition | notComputed
deriving BEq

structure SSt where
  vals : Array Nat := #[1]
  ops : Array (Nat × Nat) := #[]      -- unordered operand pairs, stored (min, max)

abbrev Names := List (String × Int)

/-- an operation reads element `i`: it must have been computed -/
def readElem (st : SSt) (i : Int) : Except Rej Nat :=
  if i < 0 then .error .notComputed
  else if h : i.toNat < st.vals.size then .ok st.vals[i.toNat] else .error .notComputed

/-- append the sum of elements `i` and `j`; the new element's index is returned -/
def appendSum (st : SSt) (i j : Int) : Except Rej (SSt × Int) := do
  let a ← readElem st i
  let b ← readElem st j
  let k := st.vals.size
  pure ({ vals := st.vals.push (a + b), ops := st.ops.push (min i.toNat j.toNat, max i.toNat j.toNat) }, (k : Int))

def doublings : Nat → SSt → Int → Except Rej (SSt × Int)
  | 0, st, i => .ok (st, i)
  | s+1, st, i => do
    let (st', k) ← appendSum st i i
    doublings s st' k

def specExpr (names : Names) (st : SSt) : Expr → Except Rej (SSt × Int)
  | .operand i => .ok (st, i)
  | .ident n =>
    match names.find? (·.1 == n) with
    | some (_, i) => .ok (st, i)
    | none => .error .undefinedName
  | .add x y => do
    let (st1, i) ← specExpr names st x
    let (st2, j) ← specExpr names st1 y
    appendSum st2 i j
  | .double x => do
    let (st1, i) ← specExpr names st x
    appendSum st1 i i
  | .shift x s => do
    let (st1, i) ← specExpr names st x
    doublings s st1 i

def specStmts (names : Names) (st : SSt) : List Stmt → Except Rej SSt
  | [] => .ok st
  | s :: r => do
    let (st', i) ← specExpr names st s.e
    if names.any (·.1 == s.name) then .error .redefinition
    else specStmts ((s.name, i) :: names) st' r

def specRun (t : Tree) : Except Rej SSt := specStmts [] {} t

/-! ## features of a tree -/
def isOp : Expr → Bool
  | .add .. | .shift .. | .double .. => true
  | _ => false

def nOps : Expr → Nat
  | .add x y => nOps x + nOps y + 1
  | .shift x _ => nOps x + 1
  | .double x => nOps x + 1
  | _ => 0

def nested : Expr → Bool
  | .add x y => isOp x || isOp y || nested x || nested y
  | .shift x _ => isOp x || nested x
  | .double x => isOp x || nested x
  | _ => false

def hasShift0 : Expr → Bool
  | .add x y => hasShift0 x || hasShift0 y
  | .shift x s => s == 0 || hasShift0 x
  | .double x => hasShift0 x
  | _ => false

def hasIndex : Expr → Bool
  | .operand i => i != 0
  | .add x y => hasIndex x || hasIndex y
  | .shift x _ => hasIndex x
  | .double x => hasIndex x
  | _ => false

def hasWrap : Expr → Bool
  | .operand i => i < 0
  | .add x y => hasWrap x || hasWrap y
  | .shift x s => s ≥ 9223372036854775808 || hasWrap x
  | .double x => hasWrap x
  | _ => false

def isIdC (c : Char) : Bool := c.isAlphanum || c == '_'

/-- a numeric literal that is not decimal: `0x…` or a leading `0` followed by a digit -/
def nonDecimal : List Char → Bool
  | a :: '0' :: c :: r =>
    (!isIdC a && (c == 'x' || c.isDigit)) || nonDecimal ('0' :: c :: r)
  | _ :: r => nonDecimal r
  | [] => false

def normPairs (l : List (Nat × Nat)) : List (Nat × Nat) := l.map fun p => (min p.1 p.2, max p.1 p.2)

end C03

open C03 in
def handleC03 (f : List String) : Res :=
  match f with
  | [th, T, L, Pg, C, IR] =>
    match pHexChars th with
    | none => bad "c03-text"
    | some text =>
      let r : Res := {}
      -- parser model (AC/PegFull.lean, owned by C07): model parse of the text == impl tree
      let mTree := P.PegF.showRes (P.PegF.parse text)
      let r := cmp "parse" mTree T r
      -- the published grammar, executed: generic PEG interpreter on the table regenerated from acc.peg
      let gTree := P.PegF.showRes (AC.PegG.pegParse AC.Gen.accGrammar text)
      let r := cmp "parse-by-regenerated-grammar" gTree T r
      -- spec: a tree that is returned must be the one the published grammar assigns to the text
      -- (`check` treats this clause as a correspondence difference when the action code of acc.peg no
      -- longer matches its expectation: the interpreter's actions are written from that code)
      let r := if T == "err" then r else specIf "tree-as-published-grammar" (gTree == T) r
      -- the composed text-level model == impl load outcome
      let mText := match loadText text with
        | .ok st => showNats st.chain
        | .error _ => "err"
      let r := cmp "text-load" mText L r
      if T == "err" then
        -- the text is outside the grammar: it must be rejected
        let r := specIf "unparsable-text-rejected" (L == "err") r
        let r := cmp "class" "parse" C r
        { r with tag := "parse=err" }
      else
        match pTree T with
        | none => bad "c03-tree"
        | some t =>
          -- model: translate, compile, evaluate
          let mIR := match translate t with | .ok ir => showIR ir | .error _ => "err"
          let r := cmp "ir" mIR IR r
          let (mL, mP, mC) := match load t with
            | .ok st => (showNats st.chain, showPairs st.ops, "none")
            | .error e => ("err", "-", showErr e)
          let r := cmp "chain" mL L r
          let r := cmp "program" mP Pg r
          let r := cmp "class" mC C r
          -- spec
          let sh0 := t.any fun s => hasShift0 s.e
          let sp := specRun t
          let spTag := match sp with
            | .ok _ => "ok"
            | .error .undefinedName => "undefined"
            | .error .redefinition => "redefinition"
            | .error .notComputed => "notcomputed"
          let r := if sh0 then r else
            match sp with
            | .ok st =>
              let r := specIf "chain-as-specified" (L == showNats st.vals.toList) r
              specIf "ops-as-specified"
                ((pPairs Pg).map normPairs == some st.ops.toList) r
            | .error _ => specIf "rejected-as-specified" (L == "err") r
          -- features
          let ops := t.foldl (fun a s => a + nOps s.e) 0
          let nest := t.any fun s => nested s.e
          let idx := t.any fun s => hasIndex s.e
          let alias := t.any fun s => s.name != "" && (match s.e with | .ident _ => true | _ => false)
          let nondec := nonDecimal (' ' :: text)
          let wrap := t.any fun s => hasWrap s.e
          let nt := L != "err" && ops ≥ 2 && (nest || nondec || idx || alias)
          let tags := [s!"load={C}", s!"spec={if sh0 then "skip-shift0" else spTag}"]
            ++ (if nest then ["nest"] else []) ++ (if idx then ["idx"] else [])
            ++ (if alias then ["alias"] else []) ++ (if nondec then ["nondec"] else [])
            ++ (if sh0 then ["shift0"] else []) ++ (if wrap then ["wrap"] else [])
          { r with nt := nt, tag := ",".intercalate tags }
  | _ => bad "c03-arity"

end AC.Drv
