import AC.Drv.Proto
import AC.ProgramX
import AC.Gen.ProgramFns
/-! driver handler for C18.

* `c18 calls <calls> <results> <snaps> <final> <chain> <doubles> <adds> <reads> <deps>`:
  calls `a:i:j` / `d:i` / `s:i:n` joined with `;` (`-` = no call); results per call, comma
  separated: returned index, or `en<i>` / `eo<i>` for the two boundscheck errors; snaps = program
  after each call joined with `;` (`_` = no call); final program; `Evaluate` (or `panic`);
  doubles; adds; `ReadCounts` (or `panic`); `Dependencies` as decimal integers (or `panic`).
  Operands inside the program fields may be negative (a faulty builder that accepted them); such
  lines get a spec verdict (`rejects-out-of-range`, `evaluates-without-failure`), never a parse error.
* `c18 product <a> <b> <impl|panic> <unchanged01>`
* `c18 plus <a> <x> <impl|panic> <unchanged01>` -/
namespace AC.Drv
open P P.PX

def pCall18 (s : String) : Option Call :=
  match s.splitOn ":" with
  | ["a", i, j] => do pure (.add (← i.toInt?) (← j.toInt?))
  | ["d", i] => do pure (.double (← i.toInt?))
  | ["s", i, n] => do pure (.shift (← i.toInt?) (← n.toNat?))
  | _ => none

def pCalls18 (s : String) : Option (List Call) :=
  if s = "-" then some [] else (s.splitOn ";").mapM pCall18

def showRes18 : Except Err Int → String
  | .ok n => toString n
  | .error (.negative i) => s!"en{i}"
  | .error (.outOfBounds i) => s!"eo{i}"

/-- ops as the implementation reports them: a faulty builder may have accepted a negative operand -/
abbrev IOp := Int × Int

def pIOp18 (s : String) : Option IOp :=
  match s.splitOn ":" with
  | [a, b] => do pure ((← a.toInt?), (← b.toInt?))
  | _ => none
def pIProg18 := pList pIOp18

def pSnaps18 (s : String) : Option (List (List IOp)) :=
  if s = "_" then some [] else (s.splitOn ";").mapM pIProg18

def natOp18 (o : Nat × Nat) : IOp := ((o.1 : Int), (o.2 : Int))

def showSnaps18 (l : List (List Op)) : String :=
  if l.isEmpty then "_" else ";".intercalate (l.map showPairs)

def showOpt18 (f : α → String) : Option α → String
  | some a => f a
  | none => "panic"

/-- spec, written from the property text: walk the calls with the implementation's own snapshots -/
structure Walk18 where
  prev : List IOp := []
  rejects : Bool := true     -- out-of-range operand: error returned and program unchanged
  accepts : Bool := true     -- all operands in range: no error
  unch : Bool := true        -- program unchanged on error
  app : Bool := true         -- accepted call appends exactly the corresponding ops
  idx : Bool := true         -- accepted call returns the index of the new last element
  sh0 : Bool := true         -- documented `Shift(i,0)`: returns i, appends nothing
  acc : Nat := 0
  rej : Nat := 0
  bigShift : Bool := false
  zeroShift : Bool := false

def oor18 (L : Nat) (i : Int) : Bool := i < 0 || i > (L : Int)

def walkStep18 (w : Walk18) (c : Call) (res : String) (snap : List IOp) : Walk18 :=
  let L := w.prev.length
  let isErr := res.startsWith "e"
  let judge (bad : Bool) (ops : List IOp) (ret : Nat) (w : Walk18) : Walk18 :=
    let w := { w with rejects := w.rejects && (!bad || (isErr && snap == w.prev)),
                      accepts := w.accepts && (bad || !isErr) }
    if isErr then { w with unch := w.unch && snap == w.prev, rej := w.rej + 1 }
    else { w with app := w.app && snap == w.prev ++ ops, idx := w.idx && res == toString ret, acc := w.acc + 1 }
  let w := match c with
    | .add i j => judge (oor18 L i || oor18 L j) [(i, j)] (L + 1) w
    | .double i => judge (oor18 L i) [(i, i)] (L + 1) w
    | .shift i 0 => { w with sh0 := w.sh0 && res == toString i && snap == w.prev, zeroShift := true }
    | .shift i (s + 1) =>
      let w := judge (oor18 L i) ((i, i) :: (List.range s).map (fun t => natOp18 (L + 1 + t, L + 1 + t))) (L + s + 1) w
      { w with bigShift := w.bigShift || (s ≥ 1 && !isErr) }
  { w with prev := snap }

def walk18 : Walk18 → List Call → List String → List (List IOp) → Walk18
  | w, c :: cs, r :: rs, s :: ss => walk18 (walkStep18 w c r s) cs rs ss
  | w, _, _, _ => w

/-- closure of the operand relation from position `k`, as a bitset, by iterating
    "add the operands of every marked position" until nothing changes -/
def closure18 (p : Array Op) (k : Nat) : Nat :=
  let n := p.size
  let pass (mk : Array Bool) : Array Bool × Bool :=
    (List.range n).reverse.foldl (fun (st : Array Bool × Bool) m0 =>
      if st.1.getD (m0 + 1) false then
        let o := p.getD m0 (0, 0)
        let ch := st.2 || !(st.1.getD o.1 false) || !(st.1.getD o.2 false)
        ((st.1.setIfInBounds o.1 true).setIfInBounds o.2 true, ch)
      else st) (mk, false)
  let rec loop (fuel : Nat) (mk : Array Bool) : Array Bool :=
    match fuel with
    | 0 => mk
    | f + 1 => let (mk', ch) := pass mk; if ch then loop f mk' else mk'
  let mk := loop (n + 2) ((Array.replicate (n + 1) false).setIfInBounds k true)
  (List.range (n + 1)).foldl (fun acc j => if mk.getD j false then acc + 2 ^ j else acc) 0

/-! the functions TRANSLATED from program.go (AC/Gen/ProgramFns.lean), run on the same calls and on the
    implementation's own final program: validates the translator and its primitives against the code -/
open AC.Gen.Program AC.GoPrim in
def srcRes18 (n : Int) : Option GoErr → String
  | none => toString n
  | some ("negative index %d", [i]) => s!"en{i}"
  | some ("index %d out of bounds", [i]) => s!"eo{i}"
  | some (f, _) => s!"e?{f}"

open AC.Gen.Program AC.GoPrim in
def srcWalk18 (g : List GOp) : List Call → Option (List (String × List GOp))
  | [] => some []
  | c :: cs => do
    let (g', n, e) ← (match c with
      | .add i j => programAdd g i j
      | .double i => programDouble g i
      | .shift i s => programShift g i s)
    let rest ← srcWalk18 g' cs
    pure ((srcRes18 n e, g') :: rest)

open AC.GoPrim in
def showGOps18 (g : List GOp) : String := showList (fun o => s!"{o.I}:{o.J}") g

open AC.Gen.Program AC.GoPrim in
def srcCmp18 (calls : List Call) (ifinal : List IOp) (rs sn ch db ad rd dp : String) (r : Res) : Res :=
  let r := match srcWalk18 [] calls with
    | some w =>
      let r := cmp "translated-results" (showList (·.1) w) rs r
      cmp "translated-snapshots" (if w.isEmpty then "_" else ";".intercalate (w.map (showGOps18 ·.2))) sn r
    | none => cmp "translated-builders" "panic" "no-panic" r
  let g : List GOp := ifinal.map fun o => ⟨o.1, o.2⟩
  let r := cmp "translated-evaluate" (showOpt18 showInts (programEvaluate g)) ch r
  let r := cmp "translated-doubles" (showOpt18 toString (programDoubles g)) db r
  let r := cmp "translated-adds" (showOpt18 toString (programAdds g)) ad r
  let r := cmp "translated-readcounts" (showOpt18 showInts (programReadCounts g)) rd r
  cmp "translated-dependencies" (showOpt18 showInts (programDependencies g)) dp r

def ascB18 (c : Chain) : Bool := (c.zip c.tail).all (fun p => p.1 < p.2)

def handleC18 (f : List String) : Res :=
  match f with
  | ["calls", cs, rs, sn, fin, ch, db, ad, rd, dp] =>
    match pCalls18 cs, pSnaps18 sn, pIProg18 fin with
    | some calls, some snaps, some ifinal =>
      let rl := if rs = "-" then [] else rs.splitOn ","
      let (mfin, mres) := runCalls [] calls
      let r : Res := {}
      let r := cmp "results" (showList (fun x => showRes18 x.1) mres) rs r
      let r := cmp "snapshots" (showSnaps18 (mres.map (·.2))) sn r
      let r := cmp "final" (showPairs mfin) fin r
      let r := cmp "evaluate" (showOpt18 showInts (evaluateX mfin)) ch r
      let r := cmp "doubles" (toString (count mfin).1) db r
      let r := cmp "adds" (toString (count mfin).2) ad r
      let r := cmp "readcounts" (showOpt18 showNats (readCounts mfin)) rd r
      let r := cmp "dependencies" (showOpt18 showNats (dependencies mfin)) dp r
      let r := srcCmp18 calls ifinal rs sn ch db ad rd dp r
      -- spec on the implementation's own output
      let shape := rl.length == calls.length && snaps.length == calls.length
      let r := specIf "record-shape" shape r
      let w := walk18 {} calls rl snaps
      let r := specIf "rejects-out-of-range" w.rejects r
      let r := specIf "accepts-in-range" w.accepts r
      let r := specIf "unchanged-on-error" w.unch r
      let r := specIf "appended-ops" w.app r
      let r := specIf "returned-index" w.idx r
      let r := specIf "shift0-documented" w.sh0 r
      let r := specIf "final-is-last-snapshot" (ifinal == w.prev) r
      let panicked := ch == "panic" || rd == "panic" || dp == "panic"
      let r := specIf "evaluates-without-failure" (!panicked) r
      let r := specIf "program-operands-nonnegative" (ifinal.all fun o => 0 ≤ o.1 && 0 ≤ o.2) r
      let final : List Op := ifinal.map fun o => (o.1.toNat, o.2.toNat)
      let n := final.length
      let r := match pInts ch with
        | some c =>
          let ca := c.toArray
          let r := specIf "evaluate-length" (c.length == n + 1) r
          let r := specIf "evaluate-first" (ca.getD 0 0 == 1) r
          specIf "evaluate-sums" ((List.range n).all fun k =>
            let o := final.getD k (0, 0)
            o.1 < c.length && o.2 < c.length && ca.getD (k + 1) 0 == ca.getD o.1 0 + ca.getD o.2 0) r
        | none => specIf "evaluates-without-failure" false r
      let r := match pNat db, pNat ad with
        | some d, some a => specIf "doubles+adds=len" (d + a == n) r
        | _, _ => specIf "counts-readable" false r
      let r := match pNats rd with
        | some reads =>
          specIf "readcounts" (reads.length == n + 1 && (List.range (n + 1)).all fun i =>
            reads.getD i 0 == final.countP (fun o => o.1 == i || o.2 == i)) r
        | none => specIf "evaluates-without-failure" false r
      let r := match pNats dp with
        | some deps =>
          let pa := final.toArray
          specIf "dependencies-closure" (deps.length == n + 1 && (List.range (n + 1)).all fun k =>
            deps.getD k 0 == closure18 pa k) r
        | none => specIf "evaluates-without-failure" false r
      let nt := (w.acc ≥ 2 && w.rej ≥ 1) || w.bigShift
      let lb := if n ≤ 2 then "0-2" else if n ≤ 8 then "3-8" else if n ≤ 40 then "9-40" else "41+"
      { r with nt := nt, tag := s!"calls,rej={bb (w.rej ≥ 1)},shift2={bb w.bigShift},shift0={bb w.zeroShift},len={lb}" }
    | _, _, _ => bad "c18-calls-parse"
  | ["product", as, bs, impl, unch] =>
    match pInts as, pInts bs with
    | some a, some b =>
      let r : Res := {}
      let r := cmp "product" (showOpt18 showInts (productX a b)) impl r
      let r := cmp "translated-product" (showOpt18 showInts (AC.Gen.Program.fnProduct a b)) impl r
      let valid := isChainB a && ascB18 a && isChainB b && ascB18 b
      let r := if !valid then r else
        match pInts impl with
        | some c =>
          let r := specIf "product-valid-chain" (isChainB c) r
          let r := specIf "product-ascending" (ascB18 c) r
          let r := specIf "product-end" (c.getLast? == some (a.getLastD 0 * b.getLastD 0)) r
          specIf "arguments-unmodified" (unch == "1") r
        | none => specIf "product-no-failure" false r
      { r with nt := valid && a.length ≥ 2 && b.length ≥ 2, tag := s!"product,valid={bb valid}" }
    | _, _ => bad "c18-product-parse"
  | ["plus", as, xs, impl, unch] =>
    match pInts as, pInt xs with
    | some a, some x =>
      let r : Res := {}
      let r := cmp "plus" (showOpt18 showInts (plusX a x)) impl r
      let r := cmp "translated-plus" (showOpt18 showInts (AC.Gen.Program.fnPlus a x)) impl r
      let valid := isChainB a && ascB18 a && a.contains x
      let r := if !valid then r else
        match pInts impl with
        | some c =>
          let r := specIf "plus-valid-chain" (isChainB c) r
          let r := specIf "plus-end" (c.getLast? == some (a.getLastD 0 + x)) r
          specIf "arguments-unmodified" (unch == "1") r
        | none => specIf "plus-no-failure" false r
      { r with nt := valid && a.length ≥ 2, tag := s!"plus,valid={bb valid}" }
    | _, _ => bad "c18-plus-parse"
  | _ => bad "c18-arity"
where bb (x : Bool) : String := if x then "1" else "0"

end AC.Drv
