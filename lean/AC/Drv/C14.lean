import AC.Drv.Proto
import AC.Drv.C13
import AC.SearchX
/-! driver handler for C14:
`c14 <expr hex> <n> <A> <D> <exit> <script hex> <eval last|err> <eval doubles> <eval adds> <reported cost>
     <recomputed cost of the script> <min-of-all 0/1> <best-is-first-min 0/1> <fmt exit> <fmt -b exit> <gen exit>
     <identical-across-p 0/1> <identical-across-runs 0/1> <per-algorithm d:a list> <best index> <int|float> <P list>`

* spec on the implementation's own output, from the property text only: the search exits 0; `eval`
  of the printed script is a chain ending in `n`; the reported cost equals the weighted operation
  count of that script (same float64 expression, computed by the harness); the cost is the minimum
  over all algorithm results; `fmt` and `fmt -b` accept the script, `gen` accepts it when `n ≥ 2`;
  the output is byte-identical across `-p` values and across runs.
* model (integer weights only; float64 is outside the model): `argminFirst` over the per-algorithm
  `(doubles, adds)` pairs must give the index of the algorithm reported as `best:`, `minCost` the
  reported cost, and `costPair` of the script's counts the same number.  For every weight kind the
  harness' own "best is the first minimum" flag must be 1 (the model's selection rule). -/
namespace AC.Drv
open P.SearchX

private def bit (b : Bool) : String := if b then "1" else "0"

def handleC14 (f : List String) : Res :=
  match f with
  | [es, ns, As, Ds, exit, _script, evalF, evalD, evalA, rep, recomputed, minOK, firstOK,
     fmtE, fmtbE, genE, identP, identR, pairsS, bestS, kind, psS] =>
    match pPairs pairsS, pNats psS with
    | some pairs, some ps =>
      let r : Res := {}
      let nOK := ns != "err" && !ns.startsWith "-" && ns != "0"
      if !nOK then { r with tag := "outside,n-not-positive,spec-not-applied" } else
      -- model side
      let r := cmp "best-is-first-min" "1" firstOK r
      let r :=
        if kind == "int" then
          match pInt As, pInt Ds, pNat evalD, pNat evalA with
          | some A, some D, some ed, some ea =>
            let costs := pairs.map (costPair A D)
            let mBest := match argminFirst costs with | some i => toString i | none => "none"
            let mMin := match minCost costs with | some m => toString m | none => "none"
            let r := cmp "best-index" mBest bestS r
            let r := cmp "min-cost" mMin rep r
            cmp "script-cost" (toString (costPair A D (ed, ea))) rep r
          | _, _, _, _ => cmp "int-fields" "parsed" "unparsed" r
        else r
      -- spec side
      let r := specIf "search-exit-0" (exit == "0") r
      let r := specIf "eval-ends-in-n" (evalF == ns) r
      -- the target itself, evaluated independently of calc.go (conventional recursive descent over
      -- the property's grammar): the harness' `n` comes from the implementation's own calculator
      let r := match pHexChars es with
        | some cs => match AC.Drv.C13.classify cs with
          | AC.Drv.C13.Cls.wf n0 toks => match AC.Drv.C13.evalE n0 toks with
            | AC.Drv.C13.EV.val v => specIf "chain-ends-in-value-of-expression" (evalF == toString v) r
            | _ => r
          | _ => r
        | none => r
      let r := specIf "cost-is-weighted-count" (rep == recomputed && rep != "-") r
      let r := specIf "cost-is-minimum" (minOK == "1") r
      let r := specIf "fmt-accepts" (fmtE == "0") r
      let r := specIf "fmt-b-accepts" (fmtbE == "0") r
      let r := specIf "gen-accepts" (ns == "1" || genE == "0") r
      let r := specIf "identical-across-p" (identP == "1") r
      let r := specIf "identical-across-runs" (identR == "1") r
      let distinct := pairs.eraseDups.length
      let ties :=
        match pInt As, pInt Ds with
        | some A, some D =>
          let costs := pairs.map (costPair A D)
          match minCost costs with
          | some m => (costs.filter (· == m)).length
          | none => 0
        | _, _ => 0
      let nt := ns != "1" && distinct ≥ 2
      let big := ns.length > 12
      { r with nt := nt,
               tag := s!"kind={kind},n1={bit (ns == "1")},big={bit big},nP={ps.length},gen={genE},distinct={if distinct ≥ 4 then "4+" else toString distinct},ties={if ties ≥ 2 then "2+" else toString ties}" }
    | _, _ => bad "c14-parse"
  | _ => bad "c14-arity"

end AC.Drv
