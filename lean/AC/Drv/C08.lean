import AC.Drv.Proto
import AC.SeqAlg
import AC.ChainX
import AC.Halving
import AC.Gen.ProgramFns
/-! driver handler for C08: `c08 <alg code> <targets> <impl: err|panic|chain> <values-unchanged>` -/
namespace AC.Drv
open P

def pHeurAtom : String → Option Heur
  | "H" => some .halving | "D" => some .deltaLargest | "A" => some .approximation | _ => none

def pStrategy : String → Option Strategy
  | "binary" => some .binary | "co_binary" => some .coBinary | "dichotomic" => some .dichotomic
  | "sqrt" => some .sqrt | "total" => some .total | "dyadic" => some .dyadic | "fermat" => some .fermat
  | _ => none

/-- `hr.H`, `hr.U.H.D`, `cf.dichotomic` -/
def pSeqAlg (s : String) : Option SeqAlg :=
  match s.splitOn "." with
  | ["cf", st] => (pStrategy st).map .contfrac
  | ["hr", a] => (pHeurAtom a).map .heuristic
  | "hr" :: "U" :: rest => (rest.mapM pHeurAtom).map fun hs => .heuristic (.useFirst hs)
  | _ => none

def SeqAlg.isTotalB : SeqAlg → Bool
  | .heuristic h => h.isTotal
  | .contfrac _ => true

def handleC08 (f : List String) : Res :=
  match f with
  | [alg, ts, impl, unch] =>
    match pSeqAlg alg, pInts ts with
    | some a, some T =>
      let r : Res := {}
      let m := match a.find T with | some c => showInts c | none => "err"
      let r := cmp "findsequence" m impl r
      let r := specIf "target-values-unchanged" (unch == "1") r
      let r := match pInts impl with
        | some c =>
          let r := specIf "valid-chain" (isChainO c) r
          specIf "contains-every-target" (T.all (c.contains ·)) r
        | none =>
          if impl == "err" && !SeqAlg.isTotalB a then r   -- a partial heuristic may report failure
          else specIf (if impl == "err" then "no-error" else "no-panic") false r
      let big := (T.filter (· > 2)).eraseDups.length ≥ 2
      { r with nt := big, tag := s!"alg={alg},out={if impl == "err" then "err" else "ok"}" }
    | _, _ => bad "c08-parse"
  | _ => bad "c08-arity"

/-- `c08s <H|D> <f> <target> <impl: nil|panic|list>`: one `Suggest` call; the model and the function
    translated from heuristic.go must both agree with the implementation -/
def handleC08s (f : List String) : Res :=
  match f with
  | [code, fs, ts, impl] =>
    match pInts fs, pInt ts with
    | some fl, some t =>
      let r : Res := {}
      let showO : Option (List Int) → String
        | none => "panic" | some [] => "nil" | some l => showInts l
      let r := if code == "H" then
          let r := cmp "halving-model" (match P.suggestHalving fl t with | none => "nil" | some l => showInts l) impl r
          cmp "translated-halving" (showO (AC.Gen.Program.heuristicHalvingSuggest fl t)) impl r
        else if code == "A" then
          let r := cmp "approximation-model" (match P.suggestApprox fl t with | none => "nil" | some l => showInts l) impl r
          cmp "translated-approximation" (showO (AC.Gen.Program.heuristicApproximationSuggest fl t)) impl r
        else
          let last := fl.getLastD 0
          let r := cmp "deltalargest-model" (if t - last ≤ 0 then "panic" else showInts [t - last]) impl r
          cmp "translated-deltalargest" (showO (AC.Gen.Program.heuristicDeltaLargestSuggest fl t)) impl r
      { r with spec := "na", nt := fl.length ≥ 2, tag := s!"suggest={code},out={if impl == "nil" || impl == "panic" then impl else "list"}" }
    | _, _ => bad "c08s-parse"
  | _ => bad "c08s-arity"

/-- `c08k <strategy> <n> <impl: panic|list>`: one `Strategy.K` call -/
def handleC08k (f : List String) : Res :=
  match f with
  | [st, ns, impl] =>
    match pStrategy st, pInt ns with
    | some s, some n =>
      let r : Res := {}
      let r := cmp "strategy-k-model" (showInts (s.K n)) impl r
      let showO : Option (List Int) → String | none => "panic" | some l => showInts l
      let r := match s with
        | .binary => cmp "translated-binary-k" (showO (AC.Gen.Program.contfracBinaryStrategyK n)) impl r
        | .coBinary => cmp "translated-cobinary-k" (showO (AC.Gen.Program.contfracCoBinaryStrategyK n)) impl r
        | .dichotomic => cmp "translated-dichotomic-k" (showO (AC.Gen.Program.contfracDichotomicStrategyK n)) impl r
        | .dyadic => cmp "translated-dyadic-k" (showO (AC.Gen.Program.contfracDyadicStrategyK n)) impl r
        | .fermat => cmp "translated-fermat-k" (showO (AC.Gen.Program.contfracFermatStrategyK n)) impl r
        | .total => cmp "translated-total-k" (showO (AC.Gen.Program.contfracTotalStrategyK n)) impl r
        | .sqrt => cmp "translated-sqrt-k" (showO (AC.Gen.Program.contfracSqrtStrategyK n)) impl r
      { r with spec := "na", nt := decide (n ≥ 4), tag := s!"strategy-k={st}" }
    | _, _ => bad "c08k-parse"
  | _ => bad "c08k-arity"

end AC.Drv
