import AC.Drv.Proto
import AC.Gen.AccGrammar
import AC.PrinterX
/-! driver handler for C07

    c07 pb <n|s> <prefix letters|-> <d> <accepted|->
    c07 parse <text hex> <err|panic|dump> <printed hex|_> <reparse|_> <printed-again hex|_>
    c07 rt <dump> <printed hex|err|panic> <reparse: err|panic|dump|_>
    c07 print <dump> <printed hex|err|panic>
-/
namespace AC.Drv
open P.PegF

def c07Tokens : Array String :=
  #["1", "[1]", "[2]", "a", "b", "=", "+", "add", "<<", "2*", "dbl", "(", ")", "\n", "2", "08", "return", " "]

def c07Join (spaced : Bool) (idx : List Nat) : String :=
  (if spaced then " " else "").intercalate (idx.map fun i => c07Tokens.getD i "?")

def c07Letters (idx : List Nat) : String :=
  if idx.isEmpty then "." else String.ofList (idx.map fun i => Char.ofNat (97 + i))

/-- all extensions of `pre` by at most `d` tokens, in the harness's (pre-order) enumeration order -/
def c07Exts : Nat → List Nat → List (List Nat)
  | 0, ext => [ext]
  | d+1, ext => ext :: (List.range c07Tokens.size).flatMap fun t => c07Exts d (ext ++ [t])

def nOps : Expr → Nat
  | .operand _ => 0 | .ident _ => 0
  | .add x y => nOps x + nOps y + 1
  | .shift x _ => nOps x + 1
  | .double x => nOps x + 1

def isOp : Expr → Bool | .operand _ => false | .ident _ => false | _ => true

/-- a right-nested addition, or an operator under a shift / double -/
def nested : Expr → Bool
  | .operand _ => false | .ident _ => false
  | .add x y => (match y with | .add .. => true | _ => false) || nested x || nested y
  | .shift x _ => isOp x || nested x
  | .double x => isOp x || nested x

def c07Nt (t : Tree) : Bool :=
  (t.foldl (fun a st => a + nOps st.e) 0) ≥ 2 && t.any fun st => nested st.e

def c07ModelPrint (t : Tree) : String := showHexChars (printChain t)

def c07Class (t : Tree) : String :=
  if wfTreeB t then "wf" else if f8Only t then "f8" else if f10Only t then "f10" else "nonwf"

def handleC07 (f : List String) : Res :=
  match f with
  | ["pb", j, pre, ds, acc] =>
    match (if pre = "-" then some [] else some (pre.toList.map fun c => c.toNat - 97)), ds.toNat? with
    | some prefix_, some d =>
      let spaced := j == "s"
      let model := (c07Exts d []).filterMap fun ext =>
        match parse (c07Join spaced (prefix_ ++ ext)).toList with
        | .ok t => some (c07Letters ext ++ ":" ++ showTree t)
        | .error _ => none
      let ms := if model.isEmpty then "-" else "|".intercalate model
      let r : Res := { tag := s!"pb,d={d}" }
      if ms = acc then r else
        -- locate the first differing extension
        let impl := if acc = "-" then [] else acc.splitOn "|"
        let rec firstDiff : List String → List String → String
          | a :: as, b :: bs => if a = b then firstDiff as bs else s!"model={a}:impl={b}"
          | a :: _, [] => s!"model={a}:impl=rejected-or-missing"
          | [], b :: _ => s!"model=rejected-or-missing:impl={b}"
          | [], [] => "?"
        { r with corr := false, detail := "pb:" ++ firstDiff model impl }
    | _, _ => bad "c07-pb-parse"
  | ["parse", th, res, pr, rp, pr2] =>
    match pHexChars th with
    | none => bad "c07-parse-hex"
    | some text =>
      let r : Res := {}
      let m := parse text
      let r := cmp "parse" (showRes m) res r
      -- the published grammar, executed (generic PEG interpreter on the table regenerated from acc.peg)
      let r := cmp "parse-by-regenerated-grammar" (showRes (AC.PegG.pegParse AC.Gen.accGrammar text)) res r
      -- model of print / reparse / print again, on the model's own tree
      let r := match m with
        | .ok t =>
          let p1 := printChain t
          let r := cmp "printed" (showHexChars p1) pr r
          let m2 := parse p1
          let r := cmp "reparse" (showRes m2) rp r
          match m2 with
          | .ok t2 => cmp "printed-again" (showHexChars (printChain t2)) pr2 r
          | .error _ => cmp "printed-again" "_" pr2 r
        | .error _ => r
      -- spec on the implementation's own output (first sentence of the property)
      let r := specIf "no-panic" (res != "panic" && pr != "panic" && rp != "panic" && pr2 != "panic") r
      if res == "err" || res == "panic" then { r with tag := "parse,rejected" } else
      match pTree res with
      | none => bad "c07-parse-dump"
      | some t =>
        let r := specIf "printed-text-parses" (pr != "err" && pr != "_" && rp != "err" && rp != "_") r
        let r := specIf "reparse-identical" (rp == res) r
        let r := specIf "format-idempotent" (pr2 == pr) r
        { r with nt := c07Nt t, tag := s!"parse,accepted,{c07Class t}" }
  | ["rt", dump, pr, rp] =>
    match pTree dump with
    | none => bad "c07-rt-dump"
    | some t =>
      let r : Res := {}
      let p1 := printChain t
      let r := cmp "printed" (showHexChars p1) pr r
      let r := cmp "reparse" (showRes (parse p1)) rp r
      let cls := c07Class t
      let r := specIf "no-panic" (pr != "panic" && rp != "panic") r
      let r := if cls == "wf" then
          let r := specIf "printed-text-parses" (pr != "err" && rp != "err" && rp != "_") r
          specIf "reparse-identical" (rp == dump) r
        else r
      let same := if rp == dump then "same" else if rp == "err" then "rejected" else "different"
      { r with nt := cls == "wf" && c07Nt t, tag := s!"rt,{cls},{cls}-{same}" }
  | ["print", dump, pr] =>
    match pTree dump with
    | none => bad "c07-print-dump"
    | some t =>
      let r : Res := {}
      let r := cmp "printed" (showHexChars (printChain t)) pr r
      let r := specIf "no-panic" (pr != "panic") r
      { r with tag := s!"print,{c07Class t}" }
  | _ => bad "c07-arity"

end AC.Drv
