import AC.Drv.Proto
import AC.CalcModel
/-! driver handler for C13: `c13 <expr hex-encoded> <impl outcome ok|err|divzero|panic|panic-other|timeout> <impl value or ->`

* correspondence: the model `AC.Calc.eval` (run through the same machine `evalWith`, with a guard
  that refuses exponents the Lean runtime cannot compute) against the outcome/value of `calc.Eval`;
  `divzero` = the error "division by zero", `err` = any other error, `panic…` = a recovered panic,
  `timeout` = `calc.Eval` did not return within the harness's per-case budget (no model comparison;
  spec failure `terminates` for well-formed-without-division-by-zero and for malformed inputs).
* spec on the implementation's own output, independent of the model: `classify` reads the
  expression by the property's grammar (decimal literal without superfluous leading zero, `0x…`,
  `0b…`, optional leading minus, operators `+ - * / ^`, spaces) and `evalE` is a recursive-descent
  evaluator `E = T ((+|-) T)*`, `T = F ((*|/) F)*`, `F = num (^ F)?` with Euclidean division and
  negative exponent ↦ 1.  Well-formed without division by zero ⇒ impl must be `ok` with that value
  (`wellformed-value`); malformed ⇒ impl must return an error (`malformed-error`); a panic is a
  failure on every input (`no-panic`).  Outside both classes (a literal with a superfluous leading
  zero, upper-case hex digits, well-formed with a division by zero) nothing else is demanded. -/
namespace AC.Drv
namespace C13

/-- refuse `x ^ y` when the Lean runtime could not compute it (driver concern only) -/
def tooBig (x y : Int) : Bool :=
  y > 65536 || (y > 0 && (x.natAbs.log2 + 1) * y.toNat > 8000000)

/-! ### the model machine with the runtime guard -/
inductive Halt | divzero | huge deriving DecidableEq

def applyG : P.YP.Bop → Int → Int → Except Halt Int
  | .pow, x, y => if tooBig x y then .error .huge else .ok (P.YP.ipow x y)
  | o, x, y => match AC.Calc.applyE o x y with
    | .ok z => .ok z
    | .error _ => .error .divzero

/-! ### independent reading of the expression by the property's grammar -/
inductive Cls
  | wf (n0 : Int) (rest : List (Char × Int))
  | malformed (why : String)
  | outside (why : String)

def isOpChar (c : Char) : Bool := c == '+' || c == '-' || c == '*' || c == '/' || c == '^'
def lowerHex (c : Char) : Bool := ('0' ≤ c && c ≤ '9') || ('a' ≤ c && c ≤ 'f')
def upperHex (c : Char) : Bool := 'A' ≤ c && c ≤ 'F'
def decDigit (c : Char) : Bool := '0' ≤ c && c ≤ '9'
def binDigit (c : Char) : Bool := c == '0' || c == '1'

/-- value of a digit string in the given base (digits `0-9a-f`) -/
def digitsVal (base : Nat) (ds : List Char) : Nat :=
  ds.foldl (fun a c => base * a + (hexVal c).getD 0) 0

inductive Lit
  | ok (v : Int) (rest : List Char)
  | malformed (why : String)
  | outside (why : String)

/-- one literal at an operand position (first character is not a space) -/
def lexLit (s : List Char) : Lit :=
  let neg := s.head? == some '-'
  let s1 := if neg then s.drop 1 else s
  let mk (v : Nat) (rest : List Char) : Lit := .ok (if neg then -(v : Int) else v) rest
  match s1 with
  | '0' :: 'x' :: r =>
    let ds := r.takeWhile lowerHex
    let rest := r.drop ds.length
    if (rest.head?.map upperHex).getD false then .outside "upper-case-hex"
    else if ds.isEmpty then .malformed "bad-literal"
    else mk (digitsVal 16 ds) rest
  | '0' :: 'b' :: r =>
    let ds := r.takeWhile binDigit
    if ds.isEmpty then .malformed "bad-literal" else mk (digitsVal 2 ds) (r.drop ds.length)
  | _ =>
    let ds := s1.takeWhile decDigit
    if ds.isEmpty then .malformed (if neg then "bad-literal" else "missing-operand-or-stray")
    else if ds.length > 1 && ds.head? == some '0' then .outside "leading-zero"
    else mk (digitsVal 10 ds) (s1.drop ds.length)

/-- `lit (op lit)*` with blanks anywhere between tokens; `toks` is accumulated in reverse -/
def classifyLoop : Nat → Bool → Option Int → List (Char × Int) → Option Char → List Char → Cls
  | 0, _, _, _, _, _ => .outside "fuel"
  | _+1, ex, n0, toks, _, [] =>
    if ex then .malformed (if n0.isNone then "empty" else "trailing-operator")
    else match n0 with
      | some n => .wf n toks.reverse
      | none => .malformed "empty"
  | f+1, ex, n0, toks, pend, c :: r =>
    if c == ' ' then classifyLoop f ex n0 toks pend r
    else if ex then
      match lexLit (c :: r) with
      | .malformed w => .malformed (if isOpChar c && c != '-' then (if n0.isNone then "leading-operator" else "double-operator") else w)
      | .outside w => .outside w
      | .ok v rest =>
        match n0, pend with
        | none, _ => classifyLoop f false (some v) toks none rest
        | some _, some o => classifyLoop f false n0 ((o, v) :: toks) none rest
        | some _, none => .outside "internal"
    else if isOpChar c then classifyLoop f true n0 toks (some c) r
    else .malformed (if decDigit c || lowerHex c then "missing-operator" else "stray-character")

def classify (s : List Char) : Cls := classifyLoop (s.length + 1) true none [] none s

/-! ### independent conventional evaluator (recursive descent over the tokens) -/
inductive EV | val (v : Int) | divzero | huge

def powZ (x y : Int) : EV :=
  if y ≤ 0 then .val 1 else if tooBig x y then .huge else .val (x ^ y.toNat)

/-- `F = num (^ F)?`, the current number already read -/
def evalF : Nat → Int → List (Char × Int) → EV × List (Char × Int)
  | 0, _, r => (.huge, r)
  | f+1, n, (c, m) :: r =>
    if c == '^' then
      match evalF f m r with
      | (.val y, r') => (powZ n y, r')
      | other => other
    else (.val n, (c, m) :: r)
  | _+1, n, [] => (.val n, [])

/-- `T = F ((*|/) F)*`, with the value of the factors read so far -/
def evalTloop : Nat → Int → List (Char × Int) → EV × List (Char × Int)
  | 0, _, r => (.huge, r)
  | f+1, acc, (c, m) :: r =>
    if c == '*' || c == '/' then
      match evalF (r.length + 1) m r with
      | (.val y, r') =>
        if c == '*' then evalTloop f (acc * y) r'
        else if y == 0 then (.divzero, r') else evalTloop f (Int.ediv acc y) r'
      | other => other
    else (.val acc, (c, m) :: r)
  | _+1, acc, [] => (.val acc, [])

/-- `E = T ((+|-) T)*`, with the value of the terms read so far -/
def evalEloop : Nat → Int → List (Char × Int) → EV
  | 0, _, _ => .huge
  | f+1, acc, (c, m) :: r =>
    if c == '+' || c == '-' then
      match evalF (r.length + 1) m r with
      | (.val x, r1) =>
        match evalTloop (r1.length + 1) x r1 with
        | (.val t, r2) => evalEloop f (if c == '+' then acc + t else acc - t) r2
        | (other, _) => other
      | (other, _) => other
    else .huge   -- unreachable: evalTloop stops only at + or -
  | _+1, acc, [] => .val acc

def evalE (n0 : Int) (toks : List (Char × Int)) : EV :=
  match evalF (toks.length + 1) n0 toks with
  | (.val x, r1) =>
    match evalTloop (r1.length + 1) x r1 with
    | (.val t, r2) => evalEloop (r2.length + 1) t r2
    | (other, _) => other
  | (other, _) => other

/-! ### fast decimal parsing (results reach 10^5 bits; `String.toInt?` and `toString` are quadratic) -/

/-- value of the decimal digits `a[lo:hi]`, by halving; `fuel` bounds the depth -/
def decRange (a : Array Nat) : Nat → Nat → Nat → Nat
  | 0, _, _ => 0
  | fuel+1, lo, hi =>
    if hi ≤ lo + 16 then (List.range (hi - lo)).foldl (fun acc i => 10 * acc + a[lo + i]!) 0
    else
      let mid := (lo + hi) / 2
      decRange a fuel lo mid * 10 ^ (hi - mid) + decRange a fuel mid hi

/-- decimal integer with optional minus sign -/
def pBigInt (s : String) : Option Int :=
  let cs := s.toList
  let (neg, ds) := match cs with | '-' :: r => (true, r) | _ => (false, cs)
  if ds.isEmpty || !ds.all decDigit then none
  else
    let a := (ds.map fun c => c.toNat - 48).toArray
    let v : Int := decRange a 64 0 a.size
    some (if neg then -v else v)

def opClass (c : Char) : Nat := if c == '^' then 3 else if c == '*' || c == '/' then 2 else 1

def bucket (n : Nat) : String := if n ≤ 5 then toString n else if n ≤ 8 then "6-8" else "9+"

end C13

open C13 in
def handleC13 (f : List String) : Res :=
  match f with
  | [es, implO, implV] =>
    match pHexChars es with
    | none => bad "c13-parse"
    | some s =>
      let cls := classify s
      let specV : Option EV := match cls with | .wf n0 toks => some (evalE n0 toks) | _ => none
      match specV with
      | some .huge => { tag := "skipped-huge" }
      | _ =>
      if implO == "timeout" then
        let (applies, ctag) : Bool × String := match cls, specV with
          | .wf _ _, some (.val _) => (true, "wf")
          | .wf _ _, _ => (false, "wf-divzero")
          | .malformed w, _ => (true, s!"malformed,why={w}")
          | .outside w, _ => (false, s!"outside,why={w}")
        specIf "terminates" (!applies) { tag := s!"{ctag},impl=timeout" }
      else
      match AC.Calc.evalWith applyG s with
      | .halt .huge => { tag := "skipped-huge" }
      | m =>
        let iv : Option Int := if implV == "-" then none else pBigInt implV
        let (mo, mv) : String × Option Int := match m with
          | .ok v => ("ok", some v)
          | .err => ("err", none)
          | .halt _ => ("divzero", none)
        let r : Res := {}
        let r := cmp "outcome" mo implO r
        let r := if mv == iv then r else cmp "value" (match mv with | some v => toString v | none => "-") implV r
        let (r, ctag, nt) : Res × String × Bool := match cls, specV with
          | .wf _ toks, some (.val v) =>
            let classes := (toks.map fun p => opClass p.1).eraseDups
            (specIf "wellformed-value" (implO == "ok" && iv == some v) r,
             s!"wf,ops={bucket toks.length},classes={classes.length}", classes.length ≥ 2)
          | .wf _ _, _ => (r, "wf-divzero,spec-not-applied", false)
          | .malformed w, _ =>
            (specIf "malformed-error" (implO == "err" || implO == "divzero") r, s!"malformed,why={w}", false)
          | .outside w, _ => (r, s!"outside,why={w},spec-not-applied", false)
        let r := specIf "no-panic" (!implO.startsWith "panic") r
        { r with nt := nt, tag := s!"{ctag},impl={implO}" }
  | _ => bad "c13-arity"

end AC.Drv
