import AC.Drv.Proto
import AC.BuildX
/-! driver handlers for C04 and C16

`c04 <program pairs> <impl Decompile: panic | IR dump> <impl Build: err | script dump> <printed text hex>
     <impl LoadString of the text: err | chain> <reloaded program pairs> <CheckDanglingInputs == nil>`
`c16 <program pairs> <impl Build(Decompile p): err | script dump>`

IR dump: `k:A(i,j);k:D(i);k:S(i,s)` (k = output index), `-` = no instruction.
Script dump: statements separated by `;`, each `name=expr` (empty name for the final statement),
expressions in prefix form `A(x,y)`, `S(x,n)`, `D(x)`, `O(i)`, `I(name)`. -/
namespace AC.Drv
open P P.Sem P.BuildX

/-! ### dump formats -/
def showOp : Sem.Op → String
  | .add x y => s!"A({x},{y})"
  | .dbl x => s!"D({x})"
  | .shl x s => s!"S({x},{s})"

def showIR (ir : IR) : String :=
  if ir.isEmpty then "-" else ";".intercalate (ir.map fun i => s!"{i.out}:{showOp i.op}")

def showExpr : Expr → String
  | .operand i => s!"O({i})"
  | .ident s => s!"I({s})"
  | .add x y => s!"A({showExpr x},{showExpr y})"
  | .shift x s => s!"S({showExpr x},{s})"
  | .double x => s!"D({showExpr x})"

def showScript (s : Script) : String :=
  if s.isEmpty then "-" else ";".intercalate (s.map fun st => s!"{st.name}={showExpr st.e}")

/-! ### readers for the dumps -/
def takeDigits : List Char → List Char × List Char
  | c :: r => if c.isDigit then let (d, r') := takeDigits r; (c :: d, r') else ([], c :: r)
  | [] => ([], [])

def takeNat (l : List Char) : Option (Nat × List Char) :=
  let (d, r) := takeDigits l
  if d.isEmpty then none else (String.ofList d).toNat?.map fun n => (n, r)

def pInstr (s : String) : Option Inst :=
  match s.splitOn ":" with
  | [k, o] => do
    let k ← k.toNat?
    match o.toList with
    | 'A' :: '(' :: r => do
      let (x, r) ← takeNat r
      match r with
      | ',' :: r => do
        let (y, r) ← takeNat r
        if r == [')'] then some ⟨k, .add x y⟩ else none
      | _ => none
    | 'D' :: '(' :: r => do
      let (x, r) ← takeNat r
      if r == [')'] then some ⟨k, .dbl x⟩ else none
    | 'S' :: '(' :: r => do
      let (x, r) ← takeNat r
      match r with
      | ',' :: r => do
        let (y, r) ← takeNat r
        if r == [')'] then some ⟨k, .shl x y⟩ else none
      | _ => none
    | _ => none
  | _ => none

def pIR (s : String) : Option IR := if s = "-" then some [] else (s.splitOn ";").mapM pInstr

def takeName : List Char → List Char × List Char
  | c :: r => if c == ')' || c == ',' || c == '(' then ([], c :: r) else let (d, r') := takeName r; (c :: d, r')
  | [] => ([], [])

/-- prefix-form expression reader (fuel = input length) -/
def pExprF : Nat → List Char → Option (Expr × List Char)
  | 0, _ => none
  | f+1, 'A' :: '(' :: r =>
    match pExprF f r with
    | some (x, ',' :: r) =>
      match pExprF f r with
      | some (y, ')' :: r) => some (.add x y, r)
      | _ => none
    | _ => none
  | f+1, 'S' :: '(' :: r =>
    match pExprF f r with
    | some (x, ',' :: r) =>
      match takeNat r with
      | some (n, ')' :: r) => some (.shift x n, r)
      | _ => none
    | _ => none
  | f+1, 'D' :: '(' :: r =>
    match pExprF f r with
    | some (x, ')' :: r) => some (.double x, r)
    | _ => none
  | _+1, 'O' :: '(' :: r =>
    match takeNat r with
    | some (n, ')' :: r) => some (.operand n, r)
    | _ => none
  | _+1, 'I' :: '(' :: r =>
    match takeName r with
    | (n, ')' :: r) => some (.ident (String.ofList n), r)
    | _ => none
  | _, _ => none

def pStmt (s : String) : Option Stmt :=
  let l := s.toList
  let name := l.takeWhile (· != '=')
  match l.dropWhile (· != '=') with
  | '=' :: e =>
    match pExprF (e.length + 1) e with
    | some (x, []) => some ⟨String.ofList name, x⟩
    | _ => none
  | _ => none

def pScript (s : String) : Option Script := if s = "-" then some [] else (s.splitOn ";").mapM pStmt

/-! ### independent reference computations used by the spec checks (written from the property text,
    not from the model) -/

/-- values of the chain of a program; `none` if an operation reads a position that does not exist yet -/
def refEval (p : List (Nat × Nat)) : Option (List Nat) :=
  p.foldlM (fun (c : List Nat) o =>
    match c[o.1]?, c[o.2]? with
    | some a, some b => some (c ++ [a + b])
    | _, _ => none) [1]

def distinctB (l : List Nat) : Bool := pairwiseB' l
where pairwiseB' : List Nat → Bool
  | [] => true
  | a :: r => !r.contains a && pairwiseB' r

/-- plain expansion of an IR program into operations: an addition is one operation, a doubling one
    operation, a shift by `s` is `s` successive doublings; the declared output index must be the
    position of the last operation produced -/
def refExpand (ir : IR) : Option (List (Nat × Nat)) :=
  ir.foldlM (fun (p : List (Nat × Nat)) inst =>
    let q := match inst.op with
      | .add x y => p ++ [(x, y)]
      | .dbl x => p ++ [(x, x)]
      | .shl x s => p ++ (if s = 0 then [] else (x, x) :: (List.range (s - 1)).map fun t => (p.length + 1 + t, p.length + 1 + t))
    if q.length = inst.out ∧ q.length > p.length then some q else none) []

/-- every input is position 0 or the output of an earlier instruction -/
def refNoDangling (ir : IR) : Bool :=
  (List.range ir.length).all fun n =>
    match ir[n]? with
    | none => true
    | some inst => (inputs inst.op).all fun x => x == 0 || (ir.take n).any fun e => e.out == x

def sameUpToSwap (p q : List (Nat × Nat)) : Bool :=
  p.length == q.length && (p.zip q).all fun (a, b) => a == b || (a.1 == b.2 && a.2 == b.1)

/-- evaluation of a script, statement by statement: (values so far, names bound so far) -/
structure EvSt where
  vals : List Nat
  env : List (String × Nat)

def refExpr (st : EvSt) : Expr → Option (EvSt × Nat)
  | .operand i => if i < st.vals.length then some (st, i) else none
  | .ident s => (st.env.find? (·.1 == s)).map fun b => (st, b.2)
  | .add x y => do
    let (st, a) ← refExpr st x
    let (st, b) ← refExpr st y
    let va ← st.vals[a]?
    let vb ← st.vals[b]?
    some ({ st with vals := st.vals ++ [va + vb] }, st.vals.length)
  | .double x => do
    let (st, a) ← refExpr st x
    let va ← st.vals[a]?
    some ({ st with vals := st.vals ++ [va + va] }, st.vals.length)
  | .shift x s => do
    let (st, a) ← refExpr st x
    let va ← st.vals[a]?
    if s = 0 then none else
    some ({ st with vals := st.vals ++ (List.range s).map fun t => va * 2 ^ (t + 1) }, st.vals.length + s - 1)

/-- per statement: (name, index of the element it denotes, value of that element) -/
def refStmt (acc : EvSt × List (String × Nat × Nat)) (stmt : Stmt) : Option (EvSt × List (String × Nat × Nat)) := do
  let (st, i) ← refExpr acc.1 stmt.e
  let v ← st.vals[i]?
  some ({ st with env := (stmt.name, i) :: st.env }, acc.2 ++ [(stmt.name, i, v)])

def refScript (s : Script) : Option (List (String × Nat × Nat)) :=
  match s.foldlM refStmt (⟨[1], []⟩, []) with
  | some r => some r.2
  | none => none

def isIdentB (s : String) : Bool :=
  match s.toList with
  | [] => false
  | c :: r => (c.isAlpha || c == '_') && r.all fun x => x.isAlphanum || x == '_'

def binVal (l : List Char) : Nat := l.foldl (fun a c => 2 * a + (if c == '1' then 1 else 0)) 0

def exprOps : Expr → Nat
  | .add x y => exprOps x + exprOps y + 1
  | .shift x _ => exprOps x + 1
  | .double x => exprOps x + 1
  | _ => 0

def b01c (b : Bool) : String := if b then "1" else "0"

def showBuild (r : Except Err Script) : String :=
  match r with | .ok s => showScript s | .error _ => "err"

/-! ### C04 -/
def handleC04 (f : List String) : Res :=
  match f with
  | [ps, irs, bld, txt, rl, rlp, dng] =>
    match pPairs ps with
    | none => bad "c04-parse-program"
    | some p =>
      let r : Res := {}
      -- membership in the property's quantifier, decided independently of the model
      let chain := refEval p
      let inQ := match chain with | some c => distinctB c | none => false
      let mdec := match decompileX p with | .ok ir => showIR ir | .error _ => "panic"
      let r := cmp "decompile" mdec irs r
      if irs == "panic" || irs == "err" then
        let r := specIf "decompile-ok" (!inQ) r
        { r with tag := s!"q={b01c inQ},decompile={irs}" }
      else
      match pIR irs, pPairs rlp with
      | some ir, some rp =>
        let r := cmp "dangling" (b01c (danglingOK ir)) dng r
        let mb := buildX ir
        let r := cmp "build" (showBuild mb) bld r
        let script := if bld == "err" || bld == "panic" then none else pScript bld
        if !inQ then { r with tag := s!"q=0,build={if bld == "err" then "err" else "ok"}" } else
        let r := specIf "decompiled-expands-to-original" (refExpand ir == some p) r
        let r := specIf "no-dangling-input" (dng == "1" && refNoDangling ir) r
        let r := specIf "build-ok" (script.isSome) r
        let r := specIf "script-nonempty" (match script with | some s => s.length ≥ 1 | none => true) r
        let r := specIf "printed-text-nonempty" (txt != "-") r
        let r := specIf "reload-ok" (rl != "err" && rl != "panic" && rl != "-") r
        let r := specIf "reload-chain-identical" (some rl == chain.map showNats) r
        let r := specIf "reload-program-identical-up-to-operand-order" (sameUpToSwap p rp) r
        let bigShift := ir.any fun i => match i.op with | .shl _ s => s ≥ 2 | _ => false
        let inl := match script with | some s => s.any (fun st => exprOps st.e ≥ 2) | none => false
        let atLimit := match script with | some s => s.any (fun st => exprOps st.e ≥ complexityLimit) | none => false
        let swapped := p.any fun o => o.1 > o.2
        { r with nt := p.length ≥ 2 && (bigShift || inl || swapped),
                 tag := s!"q=1,shift={b01c bigShift},inlined={b01c inl},limit={b01c atLimit},swapped={b01c swapped},empty={b01c p.isEmpty}" }
      | _, _ => bad "c04-parse-ir"
  | _ => bad "c04-arity"

/-- `c04b <IR dump> <impl Build: err | script dump>`: `Build` on a general unnamed IR program.
    Correspondence only (the property quantifies over chain programs); the tags record which
    builder branches the case exercises. -/
def handleC04b (f : List String) : Res :=
  match f with
  | [irs, bld] =>
    match pIR irs with
    | none => bad "c04b-parse-ir"
    | some ir =>
      let r : Res := {}
      let r := cmp "build" (showBuild (buildX ir)) bld r
      let compiles := (refExpand ir).isSome
      let zero := ir.any fun i => match i.op with | .shl _ s => s == 0 | _ => false
      let dangling := !refNoDangling ir
      let selfAdd := ir.any fun i => match i.op with | .add x y => x == y | _ => false
      { r with tag := s!"ir,err={b01c (bld == "err")},compiles={b01c compiles},shift0={b01c zero},dangling={b01c dangling},selfadd={b01c selfAdd}" }
  | _ => bad "c04b-arity"

/-! ### C16 -/
def handleC16 (f : List String) : Res :=
  match f with
  | [ps, bld] =>
    match pPairs ps with
    | none => bad "c16-parse-program"
    | some p =>
      let r : Res := {}
      let chain := refEval p
      let inQ := match chain with | some c => distinctB c | none => false
      let mb := match decompileX p with
        | .ok ir => showBuild (buildX ir)
        | .error _ => "panic"
      let r := cmp "build" mb bld r
      if !inQ then { r with tag := "q=0" } else
      match (if bld == "err" || bld == "panic" then none else pScript bld), chain with
      | some s, some c =>
        match refScript s with
        | none => { specIf "script-evaluable" false r with tag := "q=1,unevaluable" }
        | some ev =>
          let nonfinal := ev.dropLast
          let names := nonfinal.map (·.1)
          let r := specIf "script-nonempty" (!s.isEmpty) r
          let r := specIf "final-unnamed" (match ev.getLast? with | some (n, _, _) => n == "" | none => false) r
          let r := specIf "non-final-named" (names.all (· != "")) r
          let r := specIf "names-distinct" (distinctS names) r
          let r := specIf "names-legal" (names.all isIdentB) r
          let faithful := nonfinal.all fun (n, i, v) =>
            match n.toList with
            | '_' :: b => if !b.isEmpty && b.all (fun ch => ch == '0' || ch == '1') then v == binVal b else true
            | 'x' :: d => if !d.isEmpty && d.all Char.isDigit then
                (match (String.ofList d).toNat? with | some N => v + 1 == 2 ^ N | none => false) else true
            | 'i' :: d => if !d.isEmpty && d.all Char.isDigit then
                (match (String.ofList d).toNat? with | some N => i == N && c[N]? == some v | none => false) else true
            | _ => true
          let r := specIf "names-faithful" faithful r
          let has (ch : Char) := names.any fun n => n.toList.head? == some ch
          { r with nt := names.length ≥ 2,
                   tag := s!"q=1,bin={b01c (has '_')},xrun={b01c (has 'x')},idx={b01c (has 'i')}" }
      | _, _ => { specIf "build-ok" false r with tag := "q=1,build-failed" }
  | _ => bad "c16-arity"
where distinctS : List String → Bool
  | [] => true
  | a :: r => !r.contains a && distinctS r

end AC.Drv
