import AC.Drv.Proto
import AC.ChainX
import AC.Gen.ProgramFns
/-! driver handler for C02: `c02 <chain> <tgt> <tgts> <V> <A> <P> <O> <E> <PR> <SU>` -/
namespace AC.Drv
open P

def showOpsAll (c : Chain) : String :=
  if c.isEmpty then "_" else ";".intercalate ((List.range c.length).map fun k => showPairs (ops c k))

/-- `Chain.Ops` / `Chain.IsAscending` as TRANSLATED from chain.go, run on the same chain: validates the
    translator and its primitives against the code -/
def showOpsSrc (c : Chain) : String :=
  if c.isEmpty then "_" else ";".intercalate ((List.range c.length).map fun (k : Nat) =>
    match AC.Gen.Program.chainOps c (k : Int) with
    | some g => showList (fun o : AC.GoPrim.GOp => s!"{o.I}:{o.J}") g
    | none => "panic")

def b01 (b : Bool) : String := if b then "1" else "0"

def handleC02 (f : List String) : Res :=
  match f with
  | [cs, ts, tss, V, A, Pr, O, E, PR, SU] =>
    match pInts cs, pInt ts, pInts tss with
    | some c, some t, some tl =>
      let r : Res := {}
      let mprog := program c
      let mP := match mprog with | .ok p => showPairs p | .error _ => "err"
      let mE := match mprog with | .ok p => showInts (evaluate p) | .error _ => "err"
      let r := cmp "validate" (b01 (validate c)) V r
      let r := cmp "ascending" (b01 (isAscending c)) A r
      let r := cmp "program" mP Pr r
      let r := cmp "ops" (showOpsAll c) O r
      let r := cmp "translated-ops" (showOpsSrc c) O r
      let r := cmp "translated-validate"
        (match AC.Gen.Program.chainValidate c with | some none => "1" | some (some _) => "0" | none => "panic") V r
      let r := cmp "translated-program"
        (match AC.Gen.Program.chainProgram c with
         | some (g, none) => showList (fun o : AC.GoPrim.GOp => s!"{o.I}:{o.J}") g
         | some (_, some _) => "err" | none => "panic") Pr r
      let r := cmp "translated-produces"
        (match AC.Gen.Program.chainProduces c t with | some none => "1" | some (some _) => "0" | none => "panic") PR r
      let r := cmp "translated-superset"
        (match AC.Gen.Program.chainSuperset c tl with | some none => "1" | some (some _) => "0" | none => "panic") SU r
      let r := cmp "translated-ascending"
        (match AC.Gen.Program.chainIsAscending c with | some b => b01 b | none => "panic") A r
      let r := cmp "evaluate" mE E r
      let r := cmp "produces" (b01 (produces c t)) PR r
      let r := cmp "superset" (b01 (superset c tl)) SU r
      -- spec on the implementation's own outputs
      let ic := isChainB c
      let r := specIf "validate-iff-chain" (V == b01 ic) r
      let r := specIf "produces" (PR == b01 (ic && c.getLast? == some t)) r
      let r := specIf "superset" (SU == b01 (ic && tl.all (c.contains ·))) r
      let asc := c.head? == some 1 && (c.zip c.tail).all (fun p => p.1 < p.2)
      let r := specIf "ascending" (A == b01 asc) r
      let specOps := if c.isEmpty then "_" else
        ";".intercalate ((List.range c.length).map fun k => showPairs (opsSpec c k))
      let r := specIf "ops-exact" (O == specOps) r
      let r := specIf "program-evaluates-back" (!ic || E == showInts c) r
      let multi := (List.range c.length).any fun k => (opsSpec c k).length ≥ 2
      let quad := (List.range c.length).any fun k => k ≥ 1 && !isAscending (c.take k)
      let nt := c.length ≥ 3 && at' c 0 == 1 && (!ic || multi || (ic && quad))
      { r with nt := nt, tag := s!"valid={b01 ic},quad={b01 quad},multi={b01 multi}" }
    | _, _, _ => bad "c02-parse"
  | _ => bad "c02-arity"

end AC.Drv
