import AC.Drv.Proto
import AC.RunsX
import AC.Gen.ProgramFns
/-! driver handler for C11: `c11 <lengths chain> <impl: err|chain> <unchanged>` -/
namespace AC.Drv
open P

def handleC11 (f : List String) : Res :=
  match f with
  | [cs, impl, unch] =>
    match pInts cs with
    | some lc =>
      let r : Res := {}
      let m := match runsChainX lc with | .ok c => showInts c | .error _ => "err"
      let r := cmp "runschain" m impl r
      -- `RunsChain` as TRANSLATED from runs.go, on chains whose values keep the result small
      let r := if lc.length ≤ 16 && lc.all (fun l => decide (l ≤ 4096)) then
          cmp "translated-runschain" (match AC.Gen.Program.dictRunsChain lc with
            | some (c, none) => showInts c | some (_, some _) => "err" | none => "panic") impl r
        else r
      let valid := isChainB lc
      if !valid then { (specIf "invalid-input-refused" (impl == "err") r) with tag := "invalid-input" } else
      if lc.any (fun l => !isUint64 l) then { (specIf "too-large-refused" (impl == "err") r) with tag := "too-large" } else
      match pInts impl with
      | some o =>
        let r := specIf "input-unmodified" (unch == "1") r
        let r := specIf "result-valid-chain" (isChainO o) r
        let r := specIf "contains-all-runs" (lc.all fun l => o.contains (2 ^ l.toNat - 1)) r
        let dbl := (List.range lc.length).all fun k => k == 0 || at' lc k == 2 * at' lc (k-1)
        { r with nt := lc.length ≥ 3 && (!isAscending lc || !dbl), tag := s!"asc={if isAscending lc then 1 else 0}" }
      | none => specIf "no-error" false r
    | none => bad "c11-parse"
  | _ => bad "c11-arity"

end AC.Drv
