import AC.Drv.Proto
import AC.MetavarsX
/-! driver handler for C20 (internal/metavars):

* `c20 quote <bytes> <printable cps> <impl %q>`
* `c20 file <dom in|ext|out> <pkg> <props> <printable cps> <written|err> <readback pkg|err> <readback props> <fixedpoint>`
* `c20 hist <initial props> <ops> <impl results> <impl final props>`
-/
namespace AC.Drv
open P.MetaX

def c20Triple (s : String) : Option BProp :=
  match s.splitOn "," with
  | [n, d, v] => do
    let n ← pHexBytes n; let d ← pHexBytes d; let v ← pHexBytes v
    pure { name := n, doc := d, value := v }
  | _ => none

def c20Props (s : String) : Option (List BProp) :=
  if s = "-" then some [] else (s.splitOn ";").mapM c20Triple

def c20ShowProps : List BProp → String
  | [] => "-"
  | l => ";".intercalate (l.map fun p => s!"{showHexBytes p.name},{showHexBytes p.doc},{showHexBytes p.value}")

inductive C20Op where
  | get (n : List Nat)
  | add (p : BProp)
  | set (n v : List Nat)

def c20Op (s : String) : Option C20Op :=
  match s.splitOn ":" with
  | ["g", n] => do let n ← pHexBytes n; pure (.get n)
  | ["a", n, d, v] => do
    let n ← pHexBytes n; let d ← pHexBytes d; let v ← pHexBytes v
    pure (.add { name := n, doc := d, value := v })
  | ["s", n, v] => do let n ← pHexBytes n; let v ← pHexBytes v; pure (.set n v)
  | _ => none

def c20Ops (s : String) : Option (List C20Op) :=
  if s = "-" then some [] else (s.splitOn ";").mapM c20Op

/-- model replay with `P.MetaX.get/addS/setS` -/
def c20Model : List BProp → List C20Op → List String × List BProp
  | f, [] => ([], f)
  | f, op :: rest =>
    let (r, f') : String × List BProp := match op with
      | .get n => (match get f n with | some v => s!"1:{showHexBytes v}" | none => "0", f)
      | .add p => let (ok, f') := addS f p; (if ok then "ok" else "err", f')
      | .set n v => let (ok, f') := setS f n v; (if ok then "ok" else "err", f')
    let (rs, ff) := c20Model f' rest
    (r :: rs, ff)

/-- independent replay written from the property text: an ordered map as an association list handled by
    position (first occurrence of the name) -/
def c20Spec : List BProp → List C20Op → List String × List BProp
  | f, [] => ([], f)
  | f, op :: rest =>
    let idx (n : List Nat) : Option Nat := (f.map (·.name)).idxOf? n
    let (r, f') : String × List BProp := match op with
      | .get n => (match idx n with | some i => s!"1:{showHexBytes ((f[i]?.map (·.value)).getD [])}" | none => "0", f)
      | .add p => (match idx p.name with | some _ => ("err", f) | none => ("ok", f ++ [p]))
      | .set n v => (match idx n with
          | some i => ("ok", (f.zipIdx).map fun (q, j) => if j = i then { name := q.name, doc := q.doc, value := v } else q)
          | none => ("err", f))
    let (rs, ff) := c20Spec f' rest
    (r :: rs, ff)

def c20Joined : List String → String
  | [] => "-"
  | l => ";".intercalate l

def c20Escapy (v : List Nat) : Bool := v.any fun b => b < 0x20 || b ≥ 0x7F || b == 0x22 || b == 0x5C

def handleC20 (f : List String) : Res :=
  match f with
  | ["quote", bs, pr, iq] =>
    match pHexBytes bs, pNats pr, pHexBytes iq with
    | some bytes, some pl, some impl =>
      let isPrint := fun r => pl.contains r
      let r : Res := {}
      let r := cmp "quote" (showHexBytes (quote isPrint bytes)) iq r
      let r := specIf "unquote-of-written-literal" (unquote impl == some bytes) r
      let invalid := (quote isPrint bytes).length > bytes.length + 2
      let mb := bytes.any (· ≥ 0x80)
      { r with nt := c20Escapy bytes, tag := s!"quote,esc={b01x invalid},hi={b01x mb}" }
    | _, _, _ => bad "c20-quote-parse"
  | ["file", dom, pkgs, propss, pr, written, rbPkg, rbProps, fixed] =>
    match pHexBytes pkgs, c20Props propss, pNats pr, c20Props rbProps with
    | some pkg, some props, some pl, some rbp =>
      let isPrint := fun r => pl.contains r
      let file : BFile := { pkg := pkg, props := props }
      let model := if namesOK file then showHexBytes (writeModel isPrint file) else "err"
      let wf := wfFile file
      let wmatch := model == written
      -- model of Read on the implementation's written bytes
      let mread : String × String :=
        match pHexBytes written with
        | some w => (match readModel w with
            | some g => (showHexBytes g.pkg, c20ShowProps g.props)
            | none => ("err", "-"))
        | none => ("-", "-")
      let rmatch := written == "err" || (mread.1 == rbPkg && mread.2 == rbProps)
      let lens := props.map (·.name.length)
      let nt := props.length ≥ 2 && lens.any (fun a => lens.any (· != a)) &&
        (props.any (fun p => p.doc != []) || props.any (fun p => c20Escapy p.value))
      let docs := props.any (fun p => p.doc != [])
      let tag := s!"file,dom={dom},n={props.length},docs={b01x docs}"
      if dom == "out" then
        -- outside the property: nothing is claimed; record whether the model happens to agree
        if wf then bad "c20-dom-out-but-wf" else
        { corr := true, spec := "na", nt := false,
          tag := tag ++ s!",modelmatch={b01x wmatch},readmatch={b01x rmatch}" }
      else if dom == "in" && !wf then bad "c20-dom-in-but-not-wf"
      else if dom == "ext" && wf then bad "c20-dom-ext-but-wf"
      else
        let r : Res := {}
        let r := cmp "written" model written r
        let r := cmp "read-pkg" mread.1 rbPkg r
        let r := cmp "read-props" mread.2 rbProps r
        -- spec, on the implementation's outputs only
        let r := specIf "write-succeeds" (written != "err" && written != "panic" && written != "mutated") r
        let r := specIf "read-succeeds" (rbPkg != "err" && rbPkg != "panic") r
        let r := specIf "same-package" (rbPkg == pkgs) r
        let r := specIf "same-properties-same-order" (rbp == props && rbProps == propss) r
        let r := specIf "gofmt-fixed-point" (fixed == "1") r
        { r with nt := nt, tag := tag }
    | _, _, _, _ => bad "c20-file-parse"
  | ["hist", inits, opss, results, finals] =>
    match c20Props inits, c20Ops opss, c20Props finals with
    | some init, some ops, some _ =>
      let (mr, mf) := c20Model init ops
      let (sr, sf) := c20Spec init ops
      let r : Res := {}
      let r := cmp "results" (c20Joined mr) results r
      let r := cmp "final" (c20ShowProps mf) finals r
      let r := specIf "ordered-map-results" (c20Joined sr == results) r
      let r := specIf "ordered-map-final-state" (c20ShowProps sf == finals) r
      let errs := sr.any (· == "err")
      let oks := sr.any (· == "ok")
      { r with nt := ops.length ≥ 3 && errs && oks, tag := s!"hist,err={b01x errs},ok={b01x oks}" }
    | _, _, _ => bad "c20-hist-parse"
  | _ => bad "c20-arity"
where b01x (b : Bool) : String := if b then "1" else "0"

end AC.Drv
