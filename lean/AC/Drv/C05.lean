import AC.Drv.Proto
import AC.AllocX
import AC.PeakLive
/-! driver handlers for C05 and C17.

`c05 <ir> <names before allocation|-> <in> <out> <prefix> <x> <impl named ir|err|panic> <impl temporaries> <interp distinct>
     <interp aliased> <input-written-distinct 0/1> <pointer-canonical 0/1>`
`c17 <ir> <impl number of temporaries|err>` -/
namespace AC.Drv.K05
open P.Alloc AC.AllocX AC.Drv

/-! ### parsing -/
def pArgs (s : String) : Option (Char × List String) :=
  -- "A(0,1)" ↦ ('A', ["0","1"])
  match s.toList with
  | k :: '(' :: rest =>
    match rest.reverse with
    | ')' :: mid => some (k, (String.ofList mid.reverse).splitOn ",")
    | _ => none
  | _ => none

def pInst (s : String) : Option Inst :=
  match s.splitOn ":" with
  | [o, body] => do
    let o ← o.toNat?
    let (k, args) ← pArgs body
    match k, args with
    | 'A', [a, b] => do let a ← a.toNat?; let b ← b.toNat?; pure ⟨o, .add a b⟩
    | 'D', [a] => do let a ← a.toNat?; pure ⟨o, .dbl a⟩
    | 'S', [a, s] => do let a ← a.toNat?; let s ← s.toNat?; pure ⟨o, .shl a s⟩
    | _, _ => none
  | _ => none

def pIR (s : String) : Option (List Inst) :=
  if s = "-" then some [] else (s.splitOn ";").mapM pInst

def pNInst (s : String) : Option (NInst String) :=
  match s.splitOn "=" with
  | [o, body] => do
    let (k, args) ← pArgs body
    match k, args with
    | 'A', [a, b] => pure ⟨o, .add a b⟩
    | 'D', [a] => pure ⟨o, .dbl a⟩
    | 'S', [a, s] => do let s ← s.toNat?; pure ⟨o, .shl a s⟩
    | _, _ => none
  | _ => none

def pNamed (s : String) : Option (List (NInst String)) :=
  if s = "-" then some [] else (s.splitOn ";").mapM pNInst

def showNInst (i : NInst String) : String :=
  match i.op with
  | .add x y => s!"{i.out}=A({x},{y})"
  | .dbl x => s!"{i.out}=D({x})"
  | .shl x s => s!"{i.out}=S({x},{s})"

def showNamed (p : List (NInst String)) : String :=
  if p.isEmpty then "-" else ";".intercalate (p.map showNInst)

def showNames (l : List String) : String := if l.isEmpty then "-" else ",".intercalate l

def c05b (b : Bool) : String := if b then "1" else "0"

def strCfg (i o pre : String) : Cfg String := ⟨i, o, fun k => pre ++ toString k⟩

/-! ### independent spec machinery (written from the property text; does not use the model) -/

/-- chain values by index, from the unnamed program: element 0 has value `x` -/
def specVals (x : Int) (ir : List Inst) : List (Nat × Int) :=
  ir.foldl (fun vals i =>
    let get := fun k => (vals.lookup k).getD 0
    let v := match i.op with
      | .add a b => get a + get b
      | .dbl a => 2 * get a
      | .shl a s => get a * 2 ^ s
    (i.out, v) :: vals) [(0, x)]

def specChainEnd (x : Int) (ir : List Inst) : Int :=
  match ir.getLast? with
  | some i => ((specVals x ir).lookup i.out).getD 0
  | none => x

/-- a register machine over names: association list, unknown register = failure. `alias`: the
    output name denotes the input register. -/
def specRun (inN outN : String) (alias : Bool) (x : Int) (p : List (NInst String)) : Option (List (String × Int)) :=
  let cell := fun (n : String) => if alias && n == outN then inN else n
  p.foldlM (fun (regs : List (String × Int)) i => do
    let rd := fun (n : String) => if n == "?" then none else regs.lookup (cell n)
    let v ← match i.op with
      | .add a b => do let a ← rd a; let b ← rd b; pure (a + b)
      | .dbl a => do let a ← rd a; pure (2 * a)
      | .shl a s => do let a ← rd a; pure (a * 2 ^ s)
    if i.out == "?" then none else
    pure ((cell i.out, v) :: regs)) [(inN, x)]

def specOut (inN outN : String) (alias : Bool) (x : Int) (p : List (NInst String)) : Option Int := do
  let regs ← specRun inN outN alias x p
  regs.lookup (if alias then inN else outN)

def sameShape (ir : List Inst) (p : List (NInst String)) : Bool :=
  ir.length == p.length && (ir.zip p).all fun (a, b) =>
    match a.op, b.op with
    | .add _ _, .add _ _ => true
    | .dbl _, .dbl _ => true
    | .shl _ s, .shl _ s' => s == s'
    | _, _ => false

def subsetS (a b : List String) : Bool := a.all (b.contains ·)
def nodupS : List String → Bool
  | [] => true
  | a :: r => !r.contains a && nodupS r

end AC.Drv.K05

namespace AC.Drv
open P.Alloc AC.AllocX AC.Drv.K05

/-- (index, identifier) of every operand before allocation -/
def occOf (ir : List Inst) (names : List (NInst String)) : List (Nat × String) :=
  let un := fun (s : String) => if s == "?" then "" else s
  (ir.zip names).flatMap fun (i, n) => (i.op.inputs.zip (n.op.inputs.map un)) ++ [(i.out, un n.out)]

def handleC05 (f : List String) : Res :=
  match f with
  | [irS, preS, inN, outN, pre, xS, implS, tmpS, rdS, raS, iwS, pcS] =>
    match pIR irS, pInt xS, pNamed preS with
    | some ir, some x, some preN =>
      let cfg := strCfg inN outN pre
      let r : Res := {}
      -- model
      let occ := occOf ir preN
      let m := allocateN cfg ir occ
      let (mNamed, mTemps) := match m with
        | .ok (p, t) => (showNamed p, showNames t)
        | .error _ => ("err", "-")
      let r := cmp "named" mNamed implS r
      let r := cmp "temporaries" mTemps tmpS r
      let mRun := fun (alias : Bool) => match m with
        | .ok (p, _) => match execX cfg alias p (initX cfg x) with
          | .ok st => match getX st (cellX cfg alias outN) with
            | some v => toString v
            | none => "undef"
          | .error _ => "err"
        | .error _ => "-"
      let r := cmp "interp-distinct" (mRun false) rdS r
      let r := cmp "interp-aliased" (mRun true) raS r
      let r := cmp "pointer-canonical" (match m with | .ok _ => "1" | .error _ => "0") pcS r
      -- spec on the implementation's output (property applies to well-formed non-empty programs)
      let wf := AC.PeakLive.wfB ir && !ir.isEmpty
      let namesOK := inN != outN && !nameConflict occ
      if !(wf && namesOK) then
        { r with tag := s!"wf={c05b wf},empty={c05b ir.isEmpty},conflict={c05b (nameConflict occ)}" }
      else
        match pNamed implS with
        | none => specIf "allocation-succeeds" false r
        | some p =>
          let want := specChainEnd x ir
          let used := usedNames p
          let temps := if tmpS = "-" then [] else tmpS.splitOn ","
          let r := specIf "same-instructions" (sameShape ir p) r
          let r := specIf "every-operand-named" (!used.contains "?") r
          let r := specIf "machine-distinct" (specOut inN outN false x p == some want) r
          let r := specIf "machine-aliased" (specOut inN outN true x p == some want) r
          let r := specIf "real-interp-distinct" (rdS == toString want) r
          let r := specIf "real-interp-aliased" (raS == toString want) r
          let r := specIf "input-never-written" (p.all (fun i => i.out != inN) && iwS == "0") r
          let others := used.filter fun n => n != inN && n != outN
          let r := specIf "temporaries-exact" (subsetS temps others && subsetS others temps && nodupS temps) r
          let reuse := (p.dropLast.any fun i => i.out == outN)
          let dead := !AC.PeakLive.allUsedB ir
          let nt := ir.length ≥ 3 && (temps.length ≥ 2 || reuse)
          { r with nt := nt, tag := s!"wf=1,dead={c05b dead},reuseout={c05b reuse},temps={min temps.length 4}" }
    | _, _, _ => bad "c05-parse"
  | _ => bad "c05-arity"

def handleC17 (f : List String) : Res :=
  match f with
  | [irS, nS] =>
    match pIR irS with
    | some ir =>
      let r : Res := {}
      let m := match allocateX (strCfg "x" "z" "t") ir with
        | .ok (_, t) => toString t.length
        | .error _ => "err"
      let r := cmp "ntemps" m nS r
      let wf := AC.PeakLive.wfB ir && !ir.isEmpty
      let used := AC.PeakLive.allUsedB ir
      if !(wf && used) then { r with tag := s!"wf={c05b wf},allused=0" }
      else
        match nS.toNat? with
        | none => specIf "allocation-succeeds" false r
        | some n =>
          let peak := AC.PeakLive.peakLive ir
          let r := specIf "temporaries-le-peak-live" (n ≤ peak) r
          { r with nt := ir.length ≥ 3 && n ≥ 2, tag := s!"wf=1,allused=1,slack={min (peak - n) 3}" }
    | none => bad "c17-parse"
  | _ => bad "c17-arity"

end AC.Drv
