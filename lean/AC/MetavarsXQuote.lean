import AC.MetavarsX
/-! # C20 proofs, part 1: `strconv.Unquote ∘ strconv.Quote = id` on all byte strings (model `AC.MetavarsX`) -/
namespace P.MetaX

theorem unhex_hexd : ∀ d, d < 16 → unhex (hexd d) = some d := by decide

theorem hexN2 (b : Nat) (t : List Nat) (h : b < 256) : hexN 2 0 (hex2 b ++ t) = some (b, t) := by
  have h1 : b / 16 % 16 < 16 := Nat.mod_lt _ (by decide)
  have h2 : b % 16 < 16 := Nat.mod_lt _ (by decide)
  simp only [hex2, hexN, List.cons_append, List.nil_append, unhex_hexd _ h1, unhex_hexd _ h2]
  congr 2
  omega

theorem hexN4 (r : Nat) (t : List Nat) (h : r < 65536) : hexN 4 0 (hex4 r ++ t) = some (r, t) := by
  have h1 : r / 4096 % 16 < 16 := Nat.mod_lt _ (by decide)
  have h2 : r / 256 % 16 < 16 := Nat.mod_lt _ (by decide)
  have h3 : r / 16 % 16 < 16 := Nat.mod_lt _ (by decide)
  have h4 : r % 16 < 16 := Nat.mod_lt _ (by decide)
  simp only [hex4, hexN, List.cons_append, List.nil_append, unhex_hexd _ h1, unhex_hexd _ h2, unhex_hexd _ h3, unhex_hexd _ h4]
  congr 2
  omega

theorem hexN8 (r : Nat) (t : List Nat) (h : r < 4294967296) : hexN 8 0 (hex8 r ++ t) = some (r, t) := by
  have h1 : r / 4096 % 16 < 16 := Nat.mod_lt _ (by decide)
  have h2 : r / 256 % 16 < 16 := Nat.mod_lt _ (by decide)
  have h3 : r / 16 % 16 < 16 := Nat.mod_lt _ (by decide)
  have h4 : r % 16 < 16 := Nat.mod_lt _ (by decide)
  have h5 : r / 268435456 % 16 < 16 := Nat.mod_lt _ (by decide)
  have h6 : r / 16777216 % 16 < 16 := Nat.mod_lt _ (by decide)
  have h7 : r / 1048576 % 16 < 16 := Nat.mod_lt _ (by decide)
  have h8 : r / 65536 % 16 < 16 := Nat.mod_lt _ (by decide)
  simp only [hex8, hex4, hexN, List.cons_append, List.nil_append, unhex_hexd _ h1, unhex_hexd _ h2, unhex_hexd _ h3,
    unhex_hexd _ h4, unhex_hexd _ h5, unhex_hexd _ h6, unhex_hexd _ h7, unhex_hexd _ h8]
  congr 2
  omega

theorem lo1_le {b0 b1 : Nat} (h : lo1 b0 ≤ b1) : (b0 = 0xE0 → 0xA0 ≤ b1) ∧ (b0 = 0xF0 → 0x90 ≤ b1) ∧ 0x80 ≤ b1 := by
  unfold lo1 at h
  by_cases h1 : b0 = 0xE0
  · rw [if_pos h1] at h; omega
  · rw [if_neg h1] at h
    by_cases h2 : b0 = 0xF0
    · rw [if_pos h2] at h; omega
    · rw [if_neg h2] at h; omega

theorem le_hi1 {b0 b1 : Nat} (h : b1 ≤ hi1 b0) : (b0 = 0xED → b1 ≤ 0x9F) ∧ (b0 = 0xF4 → b1 ≤ 0x8F) ∧ b1 ≤ 0xBF := by
  unfold hi1 at h
  by_cases h1 : b0 = 0xED
  · rw [if_pos h1] at h; omega
  · rw [if_neg h1] at h
    by_cases h2 : b0 = 0xF4
    · rw [if_pos h2] at h; omega
    · rw [if_neg h2] at h; omega

/-- what a successful multi-byte decode means -/
structure Dec (r : Nat) (enc : List Nat) : Prop where
  enc_eq : encode r = enc
  ge : 0x80 ≤ r
  valid : validRune r = true
  redecode : ∀ t, decodeMB (enc ++ t) = some (r, t)
  head : ∃ c p, enc = c :: p ∧ 0x80 ≤ c

theorem decodeMB_spec (l : List Nat) (r : Nat) (t' : List Nat) (h : decodeMB l = some (r, t')) :
    ∃ enc, l = enc ++ t' ∧ Dec r enc := by
  match l, h with
  | [], h => simp [decodeMB] at h
  | [_], h => simp [decodeMB] at h
  | b0 :: b1 :: t, h =>
    simp only [decodeMB] at h
    by_cases h2 : 0xC2 ≤ b0 ∧ b0 ≤ 0xDF
    · rw [if_pos h2] at h
      by_cases h1 : 0x80 ≤ b1 ∧ b1 ≤ 0xBF
      · rw [if_pos h1] at h
        simp only [Option.some.injEq, Prod.mk.injEq] at h
        obtain ⟨hr, ht⟩ := h
        subst ht
        refine ⟨[b0, b1], rfl, ?_⟩
        have e : encode r = [b0, b1] := by
          have a1 : ¬ r < 0x80 := by omega
          have a2 : r < 0x800 := by omega
          simp only [encode, if_neg a1, if_pos a2]
          have : 192 + r / 64 = b0 := by omega
          have : 128 + r % 64 = b1 := by omega
          simp [*]
        refine ⟨e, by omega, by simp [validRune]; omega, ?_, ⟨b0, [b1], rfl, by omega⟩⟩
        intro t2
        simp only [List.cons_append, List.nil_append, decodeMB, if_pos h2, if_pos h1, hr]
      · rw [if_neg h1] at h; simp at h
    · rw [if_neg h2] at h
      by_cases h3 : 0xE0 ≤ b0 ∧ b0 ≤ 0xEF
      · rw [if_pos h3] at h
        match t, h with
        | [], h => simp at h
        | b2 :: t3, h =>
          simp only at h
          by_cases hc : lo1 b0 ≤ b1 ∧ b1 ≤ hi1 b0 ∧ 0x80 ≤ b2 ∧ b2 ≤ 0xBF
          · rw [if_pos hc] at h
            simp only [Option.some.injEq, Prod.mk.injEq] at h
            obtain ⟨hr, ht⟩ := h
            subst ht
            refine ⟨[b0, b1, b2], rfl, ?_⟩
            have hlo := lo1_le hc.1
            have hhi := le_hi1 hc.2.1
            have e : encode r = [b0, b1, b2] := by
              have a1 : ¬ r < 0x80 := by omega
              have a2 : ¬ r < 0x800 := by omega
              have a3 : ¬ ((0xD800 ≤ r ∧ r ≤ 0xDFFF) ∨ 0x10FFFF < r) := by omega
              have a4 : r < 0x10000 := by omega
              simp only [encode, if_neg a1, if_neg a2, if_neg a3, if_pos a4]
              have : 224 + r / 4096 = b0 := by omega
              have : 128 + r / 64 % 64 = b1 := by omega
              have : 128 + r % 64 = b2 := by omega
              simp [*]
            refine ⟨e, by omega, by simp [validRune]; omega, ?_, ⟨b0, [b1, b2], rfl, by omega⟩⟩
            intro t2
            simp only [List.cons_append, List.nil_append, decodeMB, if_neg h2, if_pos h3, if_pos hc, hr]
          · rw [if_neg hc] at h; simp at h
      · rw [if_neg h3] at h
        by_cases h4 : 0xF0 ≤ b0 ∧ b0 ≤ 0xF4
        · rw [if_pos h4] at h
          match t, h with
          | [], h => simp at h
          | [_], h => simp at h
          | b2 :: b3 :: t4, h =>
            simp only at h
            by_cases hc : lo1 b0 ≤ b1 ∧ b1 ≤ hi1 b0 ∧ 0x80 ≤ b2 ∧ b2 ≤ 0xBF ∧ 0x80 ≤ b3 ∧ b3 ≤ 0xBF
            · rw [if_pos hc] at h
              simp only [Option.some.injEq, Prod.mk.injEq] at h
              obtain ⟨hr, ht⟩ := h
              subst ht
              refine ⟨[b0, b1, b2, b3], rfl, ?_⟩
              have hlo := lo1_le hc.1
              have hhi := le_hi1 hc.2.1
              have e : encode r = [b0, b1, b2, b3] := by
                have a1 : ¬ r < 0x80 := by omega
                have a2 : ¬ r < 0x800 := by omega
                have a3 : ¬ ((0xD800 ≤ r ∧ r ≤ 0xDFFF) ∨ 0x10FFFF < r) := by omega
                have a4 : ¬ r < 0x10000 := by omega
                simp only [encode, if_neg a1, if_neg a2, if_neg a3, if_neg a4]
                have : 240 + r / 262144 = b0 := by omega
                have : 128 + r / 4096 % 64 = b1 := by omega
                have : 128 + r / 64 % 64 = b2 := by omega
                have : 128 + r % 64 = b3 := by omega
                simp [*]
              refine ⟨e, by omega, by simp [validRune]; omega, ?_, ⟨b0, [b1, b2, b3], rfl, by omega⟩⟩
              intro t2
              simp only [List.cons_append, List.nil_append, decodeMB, if_neg h2, if_neg h3, if_pos h4, if_pos hc, hr]
            · rw [if_neg hc] at h; simp at h
        · rw [if_neg h4] at h; simp at h


/-! ### one `UnquoteChar` step undoes one `appendEscapedRune` -/

/-- shape of a piece emitted by `quote` for one chunk whose original bytes are `inp` -/
structure Piece (piece inp : List Nat) : Prop where
  head : ∃ c p, piece = c :: p ∧ c ≠ 0x22 ∧ c ≠ 0x0A
  unq : ∀ t, unqChar (piece ++ t) = some (inp, t)

theorem piece_ascii (isPrint : Nat → Bool) (r : Nat) (hr : r < 0x80) : Piece (escRune isPrint r) [r] := by
  unfold escRune
  by_cases h1 : r = 0x22 ∨ r = 0x5C
  · rw [if_pos h1]
    refine ⟨⟨0x5C, [r], rfl, by decide, by decide⟩, ?_⟩
    intro t
    rcases h1 with h | h <;> subst h <;> simp [unqChar, unesc]
  · rw [if_neg h1]
    by_cases h2 : printable isPrint r = true
    · rw [if_pos h2]
      have hp : 0x20 ≤ r ∧ r ≤ 0x7E := by
        unfold printable at h2; rw [if_pos hr] at h2; simpa using h2
      have e : encode r = [r] := by simp only [encode, if_pos hr]
      rw [e]
      refine ⟨⟨r, [], rfl, by omega, by omega⟩, ?_⟩
      intro t
      have : r ≠ 0x5C := by omega
      simp [unqChar, this, hr]
    · rw [if_neg h2]
      have hp : ¬ (0x20 ≤ r ∧ r ≤ 0x7E) := by
        unfold printable at h2; rw [if_pos hr] at h2; simpa using h2
      by_cases c7 : r = 7
      · subst c7; exact ⟨⟨0x5C, [97], rfl, by decide, by decide⟩, fun t => by simp [unqChar, unesc]⟩
      rw [if_neg c7]
      by_cases c8 : r = 8
      · subst c8; exact ⟨⟨0x5C, [98], rfl, by decide, by decide⟩, fun t => by simp [unqChar, unesc]⟩
      rw [if_neg c8]
      by_cases c12 : r = 12
      · subst c12; exact ⟨⟨0x5C, [102], rfl, by decide, by decide⟩, fun t => by simp [unqChar, unesc]⟩
      rw [if_neg c12]
      by_cases c10 : r = 10
      · subst c10; exact ⟨⟨0x5C, [110], rfl, by decide, by decide⟩, fun t => by simp [unqChar, unesc]⟩
      rw [if_neg c10]
      by_cases c13 : r = 13
      · subst c13; exact ⟨⟨0x5C, [114], rfl, by decide, by decide⟩, fun t => by simp [unqChar, unesc]⟩
      rw [if_neg c13]
      by_cases c9 : r = 9
      · subst c9; exact ⟨⟨0x5C, [116], rfl, by decide, by decide⟩, fun t => by simp [unqChar, unesc]⟩
      rw [if_neg c9]
      by_cases c11 : r = 11
      · subst c11; exact ⟨⟨0x5C, [118], rfl, by decide, by decide⟩, fun t => by simp [unqChar, unesc]⟩
      rw [if_neg c11]
      have hx : r < 0x20 ∨ r = 0x7F := by omega
      rw [if_pos hx]
      refine ⟨⟨0x5C, 120 :: hex2 r, rfl, by decide, by decide⟩, ?_⟩
      intro t
      have := hexN2 r t (by omega)
      simp only [List.cons_append, List.nil_append, unqChar, unesc, if_pos, this]
      simp

theorem piece_invalid (b : Nat) (hb : b < 256) : Piece ([0x5C, 120] ++ hex2 b) [b] := by
  refine ⟨⟨0x5C, 120 :: hex2 b, rfl, by decide, by decide⟩, ?_⟩
  intro t
  have := hexN2 b t hb
  simp only [List.cons_append, List.nil_append, unqChar, unesc, this]
  simp

theorem piece_rune (isPrint : Nat → Bool) (r : Nat) (enc : List Nat) (d : Dec r enc) : Piece (escRune isPrint r) enc := by
  obtain ⟨c, p, hcp, hc⟩ := d.head
  have hge := d.ge
  have hv : r < 0xD800 ∨ (0xDFFF < r ∧ r ≤ 0x10FFFF) := by simpa [validRune] using d.valid
  unfold escRune
  rw [if_neg (by omega)]
  by_cases h2 : printable isPrint r = true
  · rw [if_pos h2, d.enc_eq]
    refine ⟨⟨c, p, hcp, by omega, by omega⟩, ?_⟩
    intro t
    have hd := d.redecode t
    rw [hcp] at hd ⊢
    have c1 : c ≠ 0x5C := by omega
    have c2 : ¬ c < 0x80 := by omega
    simp only [List.cons_append] at hd ⊢
    simp only [unqChar, if_neg c1, if_neg c2, hd]
    rw [d.enc_eq, hcp]
  · rw [if_neg h2, if_neg (by omega), if_neg (by omega), if_neg (by omega), if_neg (by omega), if_neg (by omega),
      if_neg (by omega), if_neg (by omega), if_neg (by omega), if_neg (by simp [d.valid])]
    by_cases h3 : r < 0x10000
    · rw [if_pos h3]
      refine ⟨⟨0x5C, 117 :: hex4 r, rfl, by decide, by decide⟩, ?_⟩
      intro t
      have := hexN4 r t h3
      simp only [List.cons_append, List.nil_append, unqChar, unesc, this, d.valid, d.enc_eq]
      simp
    · rw [if_neg h3]
      refine ⟨⟨0x5C, 85 :: hex8 r, rfl, by decide, by decide⟩, ?_⟩
      intro t
      have := hexN8 r t (by omega)
      simp only [List.cons_append, List.nil_append, unqChar, unesc, this, d.valid, d.enc_eq]
      simp

theorem unqR_piece (piece inp : List Nat) (hp : Piece piece inp) (m : Nat) (rest : List Nat) :
    unqR (m + 1) (piece ++ rest) =
      match unqR m rest with
      | some (v, r') => some (inp ++ v, r')
      | none => none := by
  obtain ⟨c, p, hcp, h1, h2⟩ := hp.head
  have hu := hp.unq rest
  rw [hcp] at hu ⊢
  simp only [List.cons_append] at hu ⊢
  simp only [unqR, if_neg h1, if_neg h2, hu]
  rfl

/-- main lemma: the unquoting loop run on the quoted body gives back the bytes and stops after the closing quote -/
theorem unqR_bodyF (isPrint : Nat → Bool) : ∀ (n : Nat) (s : List Nat), s.length ≤ n → (∀ b ∈ s, b < 256) →
    ∀ (m : Nat) (t : List Nat), (bodyF isPrint n s).length < m →
      unqR m (bodyF isPrint n s ++ 0x22 :: t) = some (s, t) := by
  intro n
  induction n with
  | zero =>
    intro s hs _ m t hm
    have : s = [] := List.eq_nil_of_length_eq_zero (by omega)
    subst this
    cases m with
    | zero => omega
    | succ m => simp [bodyF, unqR]
  | succ n ih =>
    intro s hs hb m t hm
    cases s with
    | nil =>
      cases m with
      | zero => omega
      | succ m => simp [bodyF, unqR]
    | cons b rest =>
      have hrest : rest.length ≤ n := by simpa using hs
      have hbrest : ∀ x ∈ rest, x < 256 := fun x hx => hb x (List.mem_cons_of_mem _ hx)
      have key : ∀ (piece inp rest' : List Nat), Piece piece inp → rest'.length ≤ n → (∀ x ∈ rest', x < 256) →
          b :: rest = inp ++ rest' → bodyF isPrint (n+1) (b :: rest) = piece ++ bodyF isPrint n rest' →
          unqR m (bodyF isPrint (n+1) (b :: rest) ++ 0x22 :: t) = some (b :: rest, t) := by
        intro piece inp rest' hp hl hbb hsplit hbody
        rw [hbody] at hm ⊢
        obtain ⟨c, p, hcp, _⟩ := hp.head
        have hlen : (bodyF isPrint n rest').length + 1 ≤ (piece ++ bodyF isPrint n rest').length := by
          rw [hcp]; simp
        cases m with
        | zero => omega
        | succ m =>
          rw [List.append_assoc, unqR_piece piece inp hp, ih rest' hl hbb m t (by omega), hsplit]
      by_cases h1 : b < 0x80
      · exact key (escRune isPrint b) [b] rest (piece_ascii isPrint b h1) hrest hbrest rfl (by simp [bodyF, h1])
      · cases hd : decodeMB (b :: rest) with
        | none =>
          exact key ([0x5C, 120] ++ hex2 b) [b] rest (piece_invalid b (hb b (List.mem_cons_self))) hrest hbrest rfl
            (by simp [bodyF, h1, hd])
        | some rt =>
          obtain ⟨r, rest'⟩ := rt
          obtain ⟨enc, hsplit, hdec⟩ := decodeMB_spec _ _ _ hd
          obtain ⟨c, p, hcp, _⟩ := hdec.head
          have hl : rest'.length ≤ n := by
            have := congrArg List.length hsplit
            rw [hcp] at this
            simp at this
            omega
          have hbb : ∀ x ∈ rest', x < 256 := by
            intro x hx
            apply hb
            rw [hsplit]
            exact List.mem_append_right _ hx
          exact key (escRune isPrint r) enc rest' (piece_rune isPrint r enc hdec) hl hbb hsplit
            (by simp [bodyF, h1, hd])

/-- `strconv.Unquote(strconv.Quote(s)) = s` for every byte string (valid UTF-8 or not), whatever `IsPrint` is -/
theorem unquote_quote (isPrint : Nat → Bool) (s : List Nat) (hs : ∀ b ∈ s, b < 256) :
    unquote (quote isPrint s) = some s := by
  unfold quote unquote
  have := unqR_bodyF isPrint s.length s (Nat.le_refl _) hs (bodyF isPrint s.length s ++ [0x22]).length []
    (by simp)
  simp only [this]

end P.MetaX
