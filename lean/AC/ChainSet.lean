import AC.Chain
/-! Foundation for C01/C08: a sorted, de-duplicated, sum-closed set of positive integers is an
    addition chain. -/
namespace P

/-- `bigints.Unique`: drop consecutive duplicates -/
def uniq : List Int → List Int
  | [] => []
  | [x] => [x]
  | x :: y :: r => if x = y then uniq (y :: r) else x :: uniq (y :: r)

def sortUniq (l : List Int) : List Int := uniq (l.mergeSort (fun a b => a ≤ b))

theorem mem_uniq : ∀ (l : List Int) (a : Int), a ∈ uniq l ↔ a ∈ l := by
  intro l
  induction l with
  | nil => intro a; simp [uniq]
  | cons x r ih =>
    intro a
    cases r with
    | nil => simp [uniq]
    | cons y r' =>
      simp only [uniq]
      split
      · rename_i hxy; subst hxy; rw [ih]; simp
      · simp [ih]

theorem uniq_head : ∀ (l : List Int) (x : Int), (uniq (x :: l)).head? = some x := by
  intro l
  induction l with
  | nil => intro x; rfl
  | cons y r ih =>
    intro x
    simp only [uniq]
    split
    · rename_i h; subst h; exact ih x
    · rfl

theorem pairwise_uniq : ∀ (l : List Int), l.Pairwise (· ≤ ·) → (uniq l).Pairwise (· < ·) := by
  intro l
  induction l with
  | nil => intro _; simp [uniq]
  | cons x r ih =>
    intro h
    cases r with
    | nil => simp [uniq]
    | cons y r' =>
      have hr := (List.pairwise_cons.mp h).2
      have hx := (List.pairwise_cons.mp h).1
      simp only [uniq]
      split
      · exact ih hr
      · rename_i hne
        apply List.pairwise_cons.mpr
        refine ⟨?_, ih hr⟩
        intro a ha
        rw [mem_uniq] at ha
        have hxy : x ≤ y := hx y (by simp)
        have hya : y ≤ a := by
          rcases List.mem_cons.mp ha with rfl | ha'
          · exact Int.le_refl _
          · exact (List.pairwise_cons.mp hr).1 a ha'
        omega

theorem mem_sortUniq (l : List Int) (a : Int) : a ∈ sortUniq l ↔ a ∈ l := by
  unfold sortUniq
  rw [mem_uniq]
  exact (List.mergeSort_perm l _).mem_iff

theorem pairwise_sortUniq (l : List Int) : (sortUniq l).Pairwise (· < ·) := by
  unfold sortUniq
  apply pairwise_uniq
  have := List.pairwise_mergeSort (le := fun (a b : Int) => decide (a ≤ b))
    (by intro a b c h1 h2; simp at *; omega) (by intro a b; simp; omega) l
  simpa using this

/-! ### ascending lists: value order = index order -/
theorem at'_lt_of_pairwise : ∀ (c : List Int), c.Pairwise (· < ·) → ∀ i j, i < j → j < c.length →
    at' c i < at' c j := by
  intro c
  induction c with
  | nil => intro _ i j _ hj; simp at hj
  | cons x r ih =>
    intro h i j hij hj
    have hx := (List.pairwise_cons.mp h).1
    have hr := (List.pairwise_cons.mp h).2
    cases j with
    | zero => omega
    | succ j =>
      cases i with
      | zero =>
        simp only [at', List.getD_cons_zero, List.getD_cons_succ]
        have hjl : j < r.length := by simp at hj; omega
        have : r.getD j 0 ∈ r := by
          simp [List.getD, List.getElem?_eq_getElem hjl]
        exact hx _ this
      | succ i =>
        simp only [at', List.getD_cons_succ]
        exact ih hr i j (by omega) (by simp at hj; omega)

theorem index_of_mem (c : List Int) (a : Int) (h : a ∈ c) : ∃ i, i < c.length ∧ at' c i = a := by
  obtain ⟨i, hi, he⟩ := List.getElem_of_mem h
  exact ⟨i, hi, by simp [at', List.getD, List.getElem?_eq_getElem hi, he]⟩

/-- **ChainSet lemma** -/
theorem chain_of_closed (c : List Int) (hasc : c.Pairwise (· < ·)) (hpos : ∀ x ∈ c, 0 < x)
    (h1 : c.head? = some 1)
    (hcl : ∀ x ∈ c, x = 1 ∨ ∃ a ∈ c, ∃ b ∈ c, a + b = x) : IsChain c := by
  have hne : c ≠ [] := by intro h; simp [h] at h1
  have h0 : at' c 0 = 1 := by
    cases c with
    | nil => exact absurd rfl hne
    | cons x r => simp at h1; simp [at', h1]
  refine ⟨hne, h0, ?_, ?_, ?_⟩
  · intro hz; have := hpos 0 hz; omega
  · exact hasc.imp (fun h => by omega)
  · intro k hk0 hkl
    have hck : at' c k ∈ c := by
      simp [at', List.getD, List.getElem?_eq_getElem hkl]
    have hgt : at' c 0 < at' c k := at'_lt_of_pairwise c hasc 0 k hk0 hkl
    rcases hcl _ hck with h | ⟨a, ha, b, hb, hab⟩
    · omega
    · obtain ⟨i, hi, hia⟩ := index_of_mem c a ha
      obtain ⟨j, hj, hjb⟩ := index_of_mem c b hb
      have hap := hpos a ha
      have hbp := hpos b hb
      refine ⟨i, j, ?_, ?_, by rw [hia, hjb]; exact hab⟩
      · -- a < c[k] ⇒ i < k
        cases Nat.lt_or_ge i k with
        | inl h => exact h
        | inr h =>
          exfalso
          rcases Nat.eq_or_lt_of_le h with e | l
          · rw [← e] at hia; omega
          · have := at'_lt_of_pairwise c hasc k i l hi; omega
      · cases Nat.lt_or_ge j k with
        | inl h => exact h
        | inr h =>
          exfalso
          rcases Nat.eq_or_lt_of_le h with e | l
          · rw [← e] at hjb; omega
          · have := at'_lt_of_pairwise c hasc k j l hj; omega

end P
