import AC.HeurSound
namespace P

/-- big.Int.BitLen -/
def bitLenN (n : Nat) : Nat := if n = 0 then 0 else Nat.log2 n + 1

/-- `Halving.Suggest` (heuristic.go) on positive integers -/
def suggestHalving : Suggest := fun f t =>
  let next := f.getLastD 0
  let r := t / next
  if bitLenN r.toNat < 2 then none
  else
    let u := bitLenN r.toNat - 1
    let k := t / 2 ^ u
    let kshifts := (List.range (u + 1)).map (fun e => k * 2 ^ e)
    let d := t - k * 2 ^ u
    if d = 0 then some (kshifts.take u) else some (insertSortedUnique kshifts d)

theorem two_pow_pos_int (e : Nat) : (0 : Int) < 2 ^ e := Int.pow_pos (by omega)

theorem two_pow_lt_int {a b : Nat} (h : a < b) : (2 : Int) ^ a < 2 ^ b := by
  have := Nat.pow_lt_pow_right (a := 2) (by omega) h
  exact_mod_cast this

theorem two_pow_le_int {a b : Nat} (h : a ≤ b) : (2 : Int) ^ a ≤ 2 ^ b := by
  have := Nat.pow_le_pow_right (n := 2) (by omega) h
  exact_mod_cast this

theorem pairwise_kshifts (k : Int) (hk : 1 ≤ k) (n : Nat) :
    ((List.range n).map (fun e => k * 2 ^ e)).Pairwise (· < ·) := by
  rw [List.pairwise_map]
  have : (List.range n).Pairwise (· < ·) := List.pairwise_lt_range
  exact this.imp (fun h => Int.mul_lt_mul_of_pos_left (two_pow_lt_int h) (by omega))

theorem bitLen_ge_two {n : Nat} (h : ¬ bitLenN n < 2) : n ≠ 0 ∧ 2 ^ (bitLenN n - 1) ≤ n ∧ 1 ≤ bitLenN n - 1 := by
  by_cases hn : n = 0
  · subst hn; simp [bitLenN] at h
  · have e : bitLenN n = Nat.log2 n + 1 := by simp [bitLenN, hn]
    rw [e] at h ⊢
    refine ⟨hn, ?_, by omega⟩
    simp only [Nat.add_sub_cancel]
    exact Nat.log2_self_le hn

theorem sound_halving : Sound suggestHalving := by
  intro f t ins hp h
  have hne := protoOK_ne_nil hp
  have hm := getLastD_mem f hne
  unfold suggestHalving at h
  generalize hnx : f.getLastD 0 = next at *
  have hn1 : 1 ≤ next := hp.pos _ hm
  have hnt : next < t := hp.top _ hm
  simp only [] at h
  split at h
  · cases h
  · rename_i hbl
    obtain ⟨hr0, hpow, hu1⟩ := bitLen_ge_two hbl
    generalize hu : bitLenN (t / next).toNat - 1 = u at *
    have hrnn : 0 ≤ t / next := Int.ediv_nonneg (by omega) (by omega)
    have hP0 : (0 : Int) < 2 ^ u := two_pow_pos_int u
    have hPr : (2 : Int) ^ u ≤ t / next := by
      have : ((2 ^ u : Nat) : Int) ≤ ((t / next).toNat : Int) := by exact_mod_cast hpow
      rw [Int.toNat_of_nonneg hrnn] at this
      exact_mod_cast this
    have hrt : t / next ≤ t := by
      have h1 : t / next * next ≤ t := Int.ediv_mul_le t (by omega)
      have h2 : t / next * 1 ≤ t / next * next := Int.mul_le_mul_of_nonneg_left hn1 hrnn
      omega
    generalize hk : t / 2 ^ u = k at *
    have hk1 : 1 ≤ k := by
      rw [← hk]; exact Int.le_ediv_of_mul_le hP0 (by omega)
    have hkP : k * 2 ^ u ≤ t := by rw [← hk]; exact Int.ediv_mul_le t (by omega)
    have hkP' : t < (k + 1) * 2 ^ u := by rw [← hk]; exact Int.lt_ediv_add_one_mul_self t hP0
    have hg1 : ∀ e, 1 ≤ k * 2 ^ e := by
      intro e
      have := Int.mul_pos (show 0 < k by omega) (two_pow_pos_int e)
      omega
    have hgle : ∀ e, e ≤ u → k * 2 ^ e ≤ k * 2 ^ u := fun e he =>
      Int.mul_le_mul_of_nonneg_left (two_pow_le_int he) (by omega)
    have hglt : ∀ e, e < u → k * 2 ^ e < k * 2 ^ u := fun e he =>
      Int.mul_lt_mul_of_pos_left (two_pow_lt_int he) (by omega)
    split at h
    · -- d = 0
      rename_i hd
      cases h
      have htake : List.take u (List.map (fun e => k * 2 ^ e) (List.range (u + 1)))
          = List.map (fun e => k * 2 ^ e) (List.range u) := by
        rw [← List.map_take, List.take_range]; congr 2; omega
      rw [htake]
      refine ⟨pairwise_kshifts k hk1 u, ?_, ?_⟩
      · intro x hx
        obtain ⟨e, he, rfl⟩ := List.mem_map.mp hx
        simp at he
        exact ⟨hg1 e, by have := hglt e he; omega⟩
      · have hmem : k * 2 ^ (u - 1) ∈ List.map (fun e => k * 2 ^ e) (List.range u) :=
          List.mem_map.mpr ⟨u - 1, by simp; omega, rfl⟩
        refine ⟨_, Or.inr hmem, _, Or.inr hmem, ?_⟩
        have hpow2 : (2 : Int) ^ u = 2 ^ (u - 1) * 2 := by
          have : u = (u - 1) + 1 := by omega
          rw [this, Int.pow_succ]; simp
        have : k * 2 ^ u = k * 2 ^ (u - 1) * 2 := by rw [hpow2, Int.mul_assoc]
        omega
    · -- d ≠ 0
      rename_i hd
      cases h
      have hdpos : 1 ≤ t - k * 2 ^ u := by omega
      have hdlt : t - k * 2 ^ u < 2 ^ u := by
        have : (k + 1) * 2 ^ u = k * 2 ^ u + 2 ^ u := by rw [Int.add_mul]; simp
        omega
      unfold insertSortedUnique
      refine ⟨pairwise_mergeUnique _ _ (by simp) (pairwise_kshifts k hk1 (u + 1)), ?_, ?_⟩
      · intro x hx
        rcases (mem_mergeUnique _ _ _).1 hx with hx | hx
        · simp at hx; subst hx; exact ⟨hdpos, by omega⟩
        · obtain ⟨e, he, rfl⟩ := List.mem_map.mp hx
          simp at he
          exact ⟨hg1 e, by have := hgle e (by omega); omega⟩
      · refine ⟨k * 2 ^ u, Or.inr ((mem_mergeUnique _ _ _).2 (Or.inr (List.mem_map.mpr ⟨u, by simp, rfl⟩))),
          t - k * 2 ^ u, Or.inr ((mem_mergeUnique _ _ _).2 (Or.inl (by simp))), by omega⟩


/-- the two ensemble heuristics are sound -/
theorem sound_ensemble1 : Sound (suggestFirst [suggestHalving, suggestDelta]) :=
  sound_first _ (by intro sg h; simp at h; rcases h with rfl | rfl; exact sound_halving; exact sound_delta)
theorem sound_ensemble2 : Sound (suggestFirst [suggestHalving, suggestApprox]) :=
  sound_first _ (by intro sg h; simp at h; rcases h with rfl | rfl; exact sound_halving; exact sound_approx)

end P
