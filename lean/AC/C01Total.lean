import AC.DictAlgF
import AC.PrimBridge
import AC.DictBounds
import AC.SeqGood
import AC.Assemble
import AC.Props.C09
/-! C01 totality: the dictionary and runs chain algorithms report no error (other than an
    inadmissible sort oracle) and return a chain ending at the target. -/
namespace P.DA
open P P.Bits

/-! ### from Nat lists to the Int-based chain lemmas -/
theorem ofNat_toNats (c : List Int) (h : ∀ x ∈ c, 0 ≤ x) : (toNats c).map Int.ofNat = c := by
  unfold toNats
  rw [List.map_map]
  conv => rhs; rw [← List.map_id c]
  apply List.map_congr_left
  intro x hx
  have := h x hx
  simp [Int.toNat_of_nonneg this]

theorem mem_toNats (c : List Int) (h : ∀ x ∈ c, 0 ≤ x) (k : Nat) : k ∈ toNats c ↔ (k : Int) ∈ c := by
  unfold toNats
  constructor
  · intro hk
    obtain ⟨x, hx, rfl⟩ := List.mem_map.1 hk
    have := h x hx
    rw [Int.toNat_of_nonneg this]; exact hx
  · intro hk
    exact List.mem_map.2 ⟨(k : Int), hk, by simp⟩

/-- an addition chain is closed: every member is 1 or the sum of two members -/
theorem isChain_closed (c : Chain) (hc : IsChain c) : ∀ x ∈ c, x = 1 ∨ ∃ a ∈ c, ∃ b ∈ c, a + b = x := by
  obtain ⟨_, h0, _, _, hops⟩ := hc
  intro x hx
  obtain ⟨k, hk, hke⟩ := index_of_mem c x hx
  by_cases hk0 : k = 0
  · subst hk0; left; rw [← hke, h0]
  · right
    obtain ⟨i, j, hi, hj, hs⟩ := hops k (by omega) hk
    exact ⟨at' c i, P.OptX.at'_mem_of_lt c i (by omega), at' c j, P.OptX.at'_mem_of_lt c j (by omega), by rw [hs, hke]⟩

theorem isChain_one_mem (c : Chain) (hc : IsChain c) : (1 : Int) ∈ c := by
  have := P.OptX.at'_mem_of_lt c 0 (List.length_pos_iff.2 hc.1)
  rw [hc.2.1] at this; exact this

theorem isChain_mem_pos (c : Chain) (hc : IsChain c) : ∀ x ∈ c, 1 ≤ x := by
  intro x hx
  obtain ⟨k, hk, hke⟩ := index_of_mem c x hx
  rw [← hke]; exact isChain_pos c hc k hk

/-- Nat-level form of `dict_assemble` -/
theorem assembleN (pruned dc : List Nat) (n cur0 : Nat)
    (hp1 : 1 ∈ pruned) (hppos : ∀ x ∈ pruned, 1 ≤ x)
    (hpcl : ∀ x ∈ pruned, x = 1 ∨ ∃ a ∈ pruned, ∃ b ∈ pruned, a + b = x)
    (hcur : cur0 ∈ pruned)
    (hdcl : ∀ y ∈ dc, ∃ x, (x = cur0 ∨ x ∈ dc) ∧ (y = x + x ∨ ∃ d ∈ pruned, y = x + d))
    (hdpos : ∀ y ∈ dc, 1 ≤ y) (hle : ∀ x ∈ pruned ++ dc, x ≤ n) (hn : n ∈ pruned ++ dc) :
    IsChain (sortUniq ((pruned ++ dc).map Int.ofNat)) ∧
      (sortUniq ((pruned ++ dc).map Int.ofNat)).getLast? = some (n : Int) := by
  have hmemI : ∀ (l : List Nat) (x : Int), x ∈ l.map Int.ofNat ↔ ∃ k ∈ l, (k : Int) = x := by
    intro l x; simp [List.mem_map]
  rw [List.map_append]
  apply dict_assemble (pruned.map Int.ofNat) (dc.map Int.ofNat) (n : Int) (cur0 : Int)
  · exact (hmemI _ _).2 ⟨1, hp1, rfl⟩
  · intro x hx
    obtain ⟨k, hk, rfl⟩ := (hmemI _ _).1 hx
    have := hppos k hk; omega
  · intro x hx
    obtain ⟨k, hk, rfl⟩ := (hmemI _ _).1 hx
    rcases hpcl k hk with h | ⟨a, ha, b, hb, hab⟩
    · left; omega
    · right
      exact ⟨(a : Int), (hmemI _ _).2 ⟨a, ha, rfl⟩, (b : Int), (hmemI _ _).2 ⟨b, hb, rfl⟩, by omega⟩
  · exact (hmemI _ _).2 ⟨cur0, hcur, rfl⟩
  · intro y hy
    obtain ⟨k, hk, rfl⟩ := (hmemI _ _).1 hy
    obtain ⟨x, hx, hxy⟩ := hdcl k hk
    refine ⟨(x : Int), ?_, ?_⟩
    · rcases hx with h | h
      · left; omega
      · right; exact (hmemI _ _).2 ⟨x, h, rfl⟩
    · rcases hxy with h | ⟨d, hd, hdy⟩
      · left; omega
      · right; exact ⟨(d : Int), (hmemI _ _).2 ⟨d, hd, rfl⟩, by omega⟩
  · intro y hy
    obtain ⟨k, hk, rfl⟩ := (hmemI _ _).1 hy
    have := hdpos k hk; omega
  · intro x hx
    rw [← List.map_append] at hx
    obtain ⟨k, hk, rfl⟩ := (hmemI _ _).1 hx
    have := hle k hk; omega
  · rw [← List.map_append]
    exact (hmemI _ _).2 ⟨n, hn, rfl⟩

/-! ### `valueP` is invariant under permutation and reversal -/
theorem valueP_perm {a b : List TermP} (h : a.Perm b) : valueP a = valueP b := by
  unfold valueP; exact (h.map _).sum_nat

theorem valueP_reverse (a : List TermP) : valueP a.reverse = valueP a :=
  valueP_perm (List.reverse_perm a)

theorem valueP_eq_value (a : List TermP) : valueP a = P.DictSum.value a := rfl

theorem valueP_pos_ne_nil (a : List TermP) (h : 1 ≤ valueP a) : a ≠ [] := by
  intro e; rw [e] at h; simp [valueP] at h

/-- a list sorted by non-decreasing exponent, reversed, is `Desc` from its head exponent -/
theorem desc_of_sorted : ∀ (l : List TermP), (l.zip l.tail).all (fun p => decide (p.1.2 ≤ p.2.2)) = true →
    ∀ (d e : Nat) (r : List TermP), l.reverse = (d, e) :: r → P.DictSum.Desc e r := by
  intro l hs
  -- Pairwise form
  have hp : l.Pairwise (fun a b => a.2 ≤ b.2) := by
    induction l with
    | nil => exact List.Pairwise.nil
    | cons a t ih =>
      cases t with
      | nil => simp
      | cons b t' =>
        simp only [List.tail_cons, List.zip_cons_cons, List.all_cons, Bool.and_eq_true, decide_eq_true_eq] at hs
        have iht := ih (by simpa using hs.2)
        refine List.Pairwise.cons ?_ iht
        intro x hx
        rcases List.mem_cons.1 hx with rfl | hx
        · exact hs.1
        · have := (List.pairwise_cons.1 iht).1 x hx
          omega
  intro d e r hr
  have hrp : ((d, e) :: r).Pairwise (fun a b => b.2 ≤ a.2) := by
    rw [← hr, List.pairwise_reverse]
    exact hp
  clear hr hp hs
  induction r generalizing d e with
  | nil => trivial
  | cons t r' ih =>
    obtain ⟨d', e'⟩ := t
    rw [List.pairwise_cons] at hrp
    exact ⟨hrp.1 (d', e') (by simp), ih d' e' hrp.2⟩

end P.DA

namespace P.DA
open P P.Bits

/-- the common tail of the dictionary and runs algorithms: for every oracle it either succeeds with
    a valid chain ending at `n`, or reports that the oracle is not an admissible sort result -/
theorem finish_ok (sum : List TermP) (c : Chain) (n : Nat) (o : List TermP)
    (hne : sum ≠ []) (hval : valueP sum = n) (hn : 1 ≤ n)
    (hc : IsChain c) (hcle : ∀ x ∈ c, x ≤ (n : Int)) (hmem : ∀ t ∈ sum, ((t.1 : Nat) : Int) ∈ c) :
    (∃ r, finish sum (toNats c) o = .ok r ∧ IsChain r ∧ r.getLast? = some (n : Int)) ∨
      finish sum (toNats c) o = .error .oracle := by
  have hcpos := isChain_mem_pos c hc
  have hc0 : ∀ x ∈ c, 0 ≤ x := fun x hx => by have := hcpos x hx; omega
  have hback := ofNat_toNats c hc0
  have hmemN := mem_toNats c hc0
  -- facts about `toNats c` as a Nat chain
  have hN1 : 1 ∈ toNats c := (hmemN 1).2 (isChain_one_mem c hc)
  have hNpos : ∀ x ∈ toNats c, 1 ≤ x := fun x hx => by have := hcpos _ ((hmemN x).1 hx); omega
  have hNle : ∀ x ∈ toNats c, x ≤ n := fun x hx => by have := hcle _ ((hmemN x).1 hx); omega
  have hNcl : ∀ x ∈ toNats c, x = 1 ∨ ∃ a ∈ toNats c, ∃ b ∈ toNats c, a + b = x := by
    intro x hx
    rcases isChain_closed c hc _ ((hmemN x).1 hx) with h | ⟨a, ha, b, hb, hab⟩
    · left; omega
    · right
      have ha1 := hcpos a ha
      have hb1 := hcpos b hb
      refine ⟨a.toNat, (hmemN _).2 (by rw [Int.toNat_of_nonneg (by omega)]; exact ha),
        b.toNat, (hmemN _).2 (by rw [Int.toNat_of_nonneg (by omega)]; exact hb), by omega⟩
  unfold finish
  by_cases h1 : sum.length = 1
  · -- a single term: no reduction
    left
    simp only [h1, beq_self_eq_true, if_true]
    obtain ⟨d, e, hsum⟩ : ∃ d e, sum = [(d, e)] := by
      match sum, h1 with
      | [(d, e)], _ => exact ⟨d, e, rfl⟩
    subst hsum
    have hde : d * 2 ^ e = n := by simpa [valueP] using hval
    have hdm : d ∈ toNats c := (hmemN d).2 (hmem (d, e) (by simp))
    have hd1 := hNpos d hdm
    have hdc : dictSumChain [(d, e)] = P.DictSum.go d e [] := rfl
    rw [hdc]
    obtain ⟨gcl, glast⟩ := P.DictSum.go_spec [] d e trivial
    have gb := P.DictSum.go_bounds [] d e hd1
    have glast' : P.DictSum.lastOr (P.DictSum.go d e []) d = n := by
      rw [glast]; simp [P.DictSum.value]; exact hde
    refine ⟨_, rfl, ?_⟩
    apply assembleN (toNats c) (P.DictSum.go d e []) n d hN1 hNpos hNcl hdm
    · intro y hy
      obtain ⟨x, hx, hxy⟩ := gcl y hy
      refine ⟨x, hx, ?_⟩
      rcases hxy with h | ⟨t, ht, _⟩
      · left; exact h
      · cases ht
    · intro y hy; have := (gb y hy).1; omega
    · intro x hx
      rcases List.mem_append.1 hx with h | h
      · exact hNle x h
      · have := (gb x h).2; omega
    · rcases P.DictSum.lastOr_mem (P.DictSum.go d e []) d with ⟨_, h⟩ | h
      · rw [h] at glast'; rw [← glast']; exact List.mem_append_left _ hdm
      · rw [glast'] at h; exact List.mem_append_right _ h
  · -- at least two terms: reduce
    have hlen2 : 2 ≤ sum.length := by
      have : sum.length ≠ 0 := by intro h; exact hne (List.length_eq_zero_iff.1 h)
      omega
    have hb : (sum.length == 1) = false := by simp [h1]
    simp only [hb, Bool.false_eq_true, if_false]
    obtain ⟨pre, pruned, hpp, hpv, hpt, hp1, hpsub, hpcl⟩ :=
      primitivePre_ok sum (toNats c) (by rw [hback]; exact hc) hlen2
        (fun t ht => (hmemN t.1).2 (hmem t ht))
    rw [hpp]
    simp only []
    by_cases hadm : admissible pre o = true
    · left
      simp only [hadm, if_true]
      unfold admissible at hadm
      simp only [Bool.and_eq_true] at hadm
      have hperm : o.Perm pre := List.isPerm_iff.1 hadm.1
      have hov : valueP o = n := by rw [valueP_perm hperm, hpv, hval]
      have hone : o.reverse ≠ [] := by
        intro e
        have : o = [] := by simpa using e
        rw [this] at hov; simp [valueP] at hov; omega
      obtain ⟨⟨d, e⟩, r, hrev⟩ := List.exists_cons_of_ne_nil hone
      have hdesc := desc_of_sorted o hadm.2 d e r hrev
      have hdc : dictSumChain o = P.DictSum.go d e r := by
        unfold dictSumChain P.DictSum.dictsumchain; rw [hrev]
      rw [hdc]
      have hmo : ∀ t ∈ o, t.1 ∈ pruned := fun t ht => hpt t (hperm.mem_iff.1 ht)
      have hdm : d ∈ pruned := hmo (d, e) (by
        have : (d, e) ∈ o.reverse := by rw [hrev]; simp
        simpa using this)
      have hprpos : ∀ x ∈ pruned, 1 ≤ x := fun x hx => hNpos x (hpsub x hx)
      have hd1 := hprpos d hdm
      obtain ⟨gcl, glast⟩ := P.DictSum.go_spec r d e hdesc
      have gb := P.DictSum.go_bounds r d e hd1
      have glast' : P.DictSum.lastOr (P.DictSum.go d e r) d = n := by
        rw [glast]
        have : valueP o.reverse = n := by rw [valueP_reverse]; exact hov
        rw [hrev] at this
        simpa [valueP, P.DictSum.value] using this
      refine ⟨_, rfl, ?_⟩
      apply assembleN pruned (P.DictSum.go d e r) n d hp1 hprpos hpcl hdm
      · intro y hy
        obtain ⟨x, hx, hxy⟩ := gcl y hy
        refine ⟨x, hx, ?_⟩
        rcases hxy with h | ⟨t, ht, hty⟩
        · left; exact h
        · right
          refine ⟨t.1, hmo t ?_, hty⟩
          have : t ∈ o.reverse := by rw [hrev]; exact List.mem_cons_of_mem _ ht
          simpa using this
      · intro y hy; have := (gb y hy).1; omega
      · intro x hx
        rcases List.mem_append.1 hx with h | h
        · exact hNle x (hpsub x h)
        · have := (gb x h).2; omega
      · rcases P.DictSum.lastOr_mem (P.DictSum.go d e r) d with ⟨_, h⟩ | h
        · rw [h] at glast'; rw [← glast']; exact List.mem_append_left _ hdm
        · rw [glast'] at h; exact List.mem_append_right _ h
    · right
      simp only [hadm, Bool.false_eq_true, if_false]

end P.DA

namespace P.DA
open P P.Bits

/-! ### facts about decompositions and their dictionaries -/
theorem decomp_facts (d : Decomp) (hd : d.wf = true) (n : Nat) (hn : 1 ≤ n) :
    value (d.run n) = n ∧ (d.run n).Pairwise Below ∧ (∀ t ∈ d.run n, 0 < t.d) ∧ d.run n ≠ [] := by
  cases d with
  | fixed k =>
    have hk : 1 ≤ k := by simpa [Decomp.wf] using hd
    obtain ⟨a, b, c⟩ := AC.Props.C09.C09_fixed n k 0 hk
    exact ⟨a, b, fun t ht => (c t ht).1, nonempty_of_value _ n hn a⟩
  | sliding k =>
    have hk : 1 ≤ k := by simpa [Decomp.wf] using hd
    obtain ⟨a, b, c⟩ := AC.Props.C09.C09_sliding n k 0 hk
    exact ⟨a, b, fun t ht => (c t ht).1, nonempty_of_value _ n hn a⟩
  | runLength t =>
    obtain ⟨a, b, c⟩ := AC.Props.C09.C09_runLength n 0 t
    refine ⟨a, b, ?_, nonempty_of_value _ n hn a⟩
    intro x hx
    obtain ⟨l, hl, hxd, _⟩ := c x hx
    have : 2 ^ 1 ≤ 2 ^ l := Nat.pow_le_pow_right (by omega) hl
    show 0 < x.d
    omega
  | hybrid k t =>
    have hk : 1 ≤ k := by simpa [Decomp.wf] using hd
    obtain ⟨a, b, c⟩ := AC.Props.C09.C09_hybrid n k t hk
    exact ⟨a, b, fun x hx => (c x hx).1, nonempty_of_value _ n hn a⟩

theorem valueP_map (ts : List Term) : valueP (ts.map fun t => (t.d, t.e)) = value ts := by
  unfold valueP value; rw [List.map_map]; rfl

theorem term_le_value : ∀ (ts : List Term) (t : Term), t ∈ ts → t.d ≤ value ts := by
  intro ts
  induction ts with
  | nil => intro t h; cases h
  | cons a r ih =>
    intro t ht
    have hv : value (a :: r) = a.d * 2 ^ a.e + value r := by simp [value]
    rw [hv]
    rcases List.mem_cons.1 ht with rfl | h
    · have : t.d ≤ t.d * 2 ^ t.e := Nat.le_mul_of_pos_right _ (Nat.pow_pos (by omega))
      omega
    · have := ih t h; omega

theorem exists_max : ∀ (T : List Int), T ≠ [] → ∃ M ∈ T, ∀ x ∈ T, x ≤ M := by
  intro T
  induction T with
  | nil => intro h; exact absurd rfl h
  | cons a r ih =>
    intro _
    by_cases hr : r = []
    · subst hr; exact ⟨a, by simp, by intro x hx; simp at hx; omega⟩
    · obtain ⟨M, hM, hle⟩ := ih hr
      by_cases h : a ≤ M
      · exact ⟨M, List.mem_cons_of_mem _ hM, by
          intro x hx; rcases List.mem_cons.1 hx with rfl | hx
          · exact h
          · exact hle x hx⟩
      · exact ⟨a, by simp, by
          intro x hx; rcases List.mem_cons.1 hx with rfl | hx
          · exact Int.le_refl _
          · have := hle x hx; omega⟩

/-- a strictly ascending list of integers all equal to 1 is `[1]` -/
theorem all_one_singleton (T : List Int) (hne : T ≠ []) (hasc : T.Pairwise (· < ·))
    (h1 : ∀ x ∈ T, x = 1) : T = [1] := by
  match T, hne with
  | [a], _ => rw [h1 a (by simp)]
  | a :: b :: r, _ =>
    exfalso
    have := (List.pairwise_cons.1 hasc).1 b (by simp)
    have ha := h1 a (by simp)
    have hb := h1 b (by simp)
    omega

/-- every well-formed sequence algorithm on a non-empty list of positive distinct-sorted targets -/
theorem seq_good (s : SeqAlg) (hs : SeqAlg.wf s = true) (T : List Int) (hne : T ≠ [])
    (hpos : ∀ x ∈ T, 1 ≤ x) (hasc : T.Pairwise (· < ·)) (M : Int) (hM : ∀ x ∈ T, x ≤ M) (hMT : M ∈ T) :
    ∃ F c, (∀ f, F ≤ f → s.findF f T = some c) ∧ IsChain c ∧ c.Pairwise (· < ·) ∧
      (∀ x ∈ T, x ∈ c) ∧ (∀ x ∈ c, x ≤ M) := by
  cases s with
  | heuristic h =>
    have ht : h.isTotal = true := by simpa [SeqAlg.wf] using hs
    have h2 : 2 ≤ M ∨ T = [1] := by
      by_cases hm : 2 ≤ M
      · exact Or.inl hm
      · right
        apply all_one_singleton T hne hasc
        intro x hx
        have := hpos x hx; have := hM x hx; omega
    obtain ⟨c, hc, r⟩ := SeqAlg.good_heuristic h ht T hpos M hM hMT h2
    exact ⟨0, c, fun f _ => hc f, r⟩
  | contfrac st => exact SeqAlg.good_contfrac st T hne hpos M hM hMT

/-- **dictionary algorithms: totality** -/
theorem dict_total (d : Decomp) (s : SeqAlg) (hd : d.wf = true) (hs : SeqAlg.wf s = true) (n : Nat) (hn : 1 ≤ n) :
    ∃ F, ∀ f, F ≤ f → ∀ o,
      (∃ r, (ChainAlg.dict d s).findWith (SeqAlg.findF f) n o = .ok r ∧ IsChain r ∧ r.getLast? = some (n : Int)) ∨
      (ChainAlg.dict d s).findWith (SeqAlg.findF f) n o = .error .oracle := by
  obtain ⟨hv, _, hdpos, hne⟩ := decomp_facts d hd n hn
  obtain ⟨hdasc, hdmem⟩ := AC.Props.C09.C09_dictionary (d.run n)
  have hTne : dictionary (d.run n) ≠ [] := by
    obtain ⟨t, ht⟩ := List.exists_mem_of_ne_nil _ hne
    intro e
    have := (hdmem (t.d : Int)).2 ⟨t, ht, rfl⟩
    rw [e] at this; cases this
  have hTpos : ∀ x ∈ dictionary (d.run n), 1 ≤ x := by
    intro x hx
    obtain ⟨t, ht, rfl⟩ := (hdmem x).1 hx
    have := hdpos t ht; omega
  obtain ⟨M, hMT, hM⟩ := exists_max _ hTne
  have hMn : M ≤ (n : Int) := by
    obtain ⟨t, ht, hte⟩ := (hdmem M).1 hMT
    have := term_le_value _ t ht
    rw [hv] at this; omega
  obtain ⟨F, c, hfind, hc, _, hsup, hcle⟩ := seq_good s hs _ hTne hTpos hdasc M hM hMT
  refine ⟨F, fun f hf o => ?_⟩
  have hfw : (ChainAlg.dict d s).findWith (SeqAlg.findF f) n o
      = finish ((d.run n).map fun t => (t.d, t.e)) (toNats c) o := by
    unfold ChainAlg.findWith
    simp only [hfind f hf]
  rw [hfw]
  apply finish_ok
  · intro e; exact hne (List.map_eq_nil_iff.1 e)
  · rw [valueP_map, hv]
  · exact hn
  · exact hc
  · intro x hx; have := hcle x hx; omega
  · intro t ht
    obtain ⟨t', ht', rfl⟩ := List.mem_map.1 ht
    exact hsup _ ((hdmem _).2 ⟨t', ht', rfl⟩)

end P.DA

namespace P.DA
open P P.Bits

/-! ### the runs algorithm -/
theorem bitLen_ones (l : Nat) (hl : 1 ≤ l) : bitLen (2 ^ l - 1) = l := by
  have hpos : 2 ^ 1 ≤ 2 ^ l := Nat.pow_le_pow_right (by omega) hl
  have hne : 2 ^ l - 1 ≠ 0 := by omega
  unfold bitLen
  simp only [hne, if_false]
  have h1 : Nat.log2 (2 ^ l - 1) < l := (Nat.log2_lt hne).2 (by omega)
  have h2 : l - 1 ≤ Nat.log2 (2 ^ l - 1) := by
    apply (Nat.le_log2 hne).2
    have : 2 ^ l = 2 * 2 ^ (l - 1) := by
      have : l = (l - 1) + 1 := by omega
      conv => lhs; rw [this, Nat.pow_succ, Nat.mul_comm]
    have hp := Nat.pow_pos (n := l - 1) (show 0 < 2 by omega)
    omega
  omega

theorem cast_ones (l : Nat) : ((2 ^ l - 1 : Nat) : Int) = onesI l := by
  unfold onesI
  rw [Int.ofNat_sub (Nat.one_le_two_pow), Int.natCast_pow]
  rfl

/-- **runs algorithm: totality** (targets whose run lengths fit a machine word) -/
theorem runs_total (s : SeqAlg) (hs : SeqAlg.wf s = true) (n : Nat) (hn : 1 ≤ n) (hsize : Nat.log2 n + 1 < 2 ^ 64) :
    ∃ F, ∀ f, F ≤ f → ∀ o,
      (∃ r, (ChainAlg.runs s).findWith (SeqAlg.findF f) n o = .ok r ∧ IsChain r ∧ r.getLast? = some (n : Int)) ∨
      (ChainAlg.runs s).findWith (SeqAlg.findF f) n o = .error .oracle := by
  obtain ⟨hv, _, hshape⟩ := AC.Props.C09.C09_runLength n 0 0
  generalize hts : decompose Method.runLength n 0 0 = ts at hv hshape
  have hne : ts ≠ [] := nonempty_of_value _ n hn hv
  obtain ⟨hdasc, hdmem⟩ := AC.Props.C09.C09_dictionary ts
  -- the lengths
  generalize hL : ((dictionary ts).map fun r => (bitLen r.toNat : Int)) = L
  have hLmem : ∀ x : Int, x ∈ L ↔ ∃ t ∈ ts, ∃ l : Nat, 1 ≤ l ∧ t.d = 2 ^ l - 1 ∧ x = (l : Int) := by
    intro x
    rw [← hL, List.mem_map]
    constructor
    · rintro ⟨r, hr, rfl⟩
      obtain ⟨t, ht, rfl⟩ := (hdmem r).1 hr
      obtain ⟨l, hl, hd, _⟩ := hshape t ht
      refine ⟨t, ht, l, hl, hd, ?_⟩
      simp only [Int.toNat_natCast]
      rw [hd, bitLen_ones l hl]
    · rintro ⟨t, ht, l, hl, hd, rfl⟩
      refine ⟨(t.d : Int), (hdmem _).2 ⟨t, ht, rfl⟩, ?_⟩
      simp only [Int.toNat_natCast]
      rw [hd, bitLen_ones l hl]
  have hLne : L ≠ [] := by
    obtain ⟨t, ht⟩ := List.exists_mem_of_ne_nil _ hne
    obtain ⟨l, hl, hd, _⟩ := hshape t ht
    intro e
    have := (hLmem (l : Int)).2 ⟨t, ht, l, hl, hd, rfl⟩
    rw [e] at this; cases this
  have hLpos : ∀ x ∈ L, 1 ≤ x := by
    intro x hx
    obtain ⟨_, _, l, hl, _, rfl⟩ := (hLmem x).1 hx
    omega
  have hLasc : L.Pairwise (· < ·) := by
    rw [← hL, List.pairwise_map]
    apply hdasc.imp_of_mem
    intro a b ha hb hab
    obtain ⟨ta, hta, rfl⟩ := (hdmem a).1 ha
    obtain ⟨tb, htb, rfl⟩ := (hdmem b).1 hb
    obtain ⟨la, hla, hda, _⟩ := hshape ta hta
    obtain ⟨lb, hlb, hdb, _⟩ := hshape tb htb
    simp only [Int.toNat_natCast]
    rw [hda, hdb, bitLen_ones la hla, bitLen_ones lb hlb]
    have hlt : ta.d < tb.d := by omega
    rw [hda, hdb] at hlt
    have hpa := Nat.pow_pos (n := la) (show 0 < 2 by omega)
    have hpb := Nat.pow_pos (n := lb) (show 0 < 2 by omega)
    have : 2 ^ la < 2 ^ lb := by omega
    have := (Nat.pow_lt_pow_iff_right (by omega : 1 < 2)).1 this
    omega
  obtain ⟨M, hMT, hM⟩ := exists_max L hLne
  obtain ⟨tM, htM, lM, hlM, hdM, hMe⟩ := (hLmem M).1 hMT
  have hdMn : tM.d ≤ n := by have := term_le_value ts tM htM; rw [hv] at this; exact this
  have hlM64 : lM < 2 ^ 64 := by
    have hp := Nat.pow_pos (n := lM - 1) (show 0 < 2 by omega)
    have h2 : 2 ^ lM = 2 * 2 ^ (lM - 1) := by
      have : lM = (lM - 1) + 1 := by omega
      conv => lhs; rw [this, Nat.pow_succ, Nat.mul_comm]
    have h3 : 2 ^ (lM - 1) ≤ n := by omega
    have := (Nat.le_log2 (by omega : n ≠ 0)).2 h3
    omega
  obtain ⟨F, lc, hfind, hlc, _, hsup, hlcle⟩ := seq_good s hs L hLne hLpos hLasc M hM hMT
  have hlcpos := isChain_mem_pos lc hlc
  have hsmall : ∀ l ∈ lc, l < 2 ^ 64 := by
    intro l hl
    have := hlcle l hl
    have h64 : ((2 ^ 64 : Nat) : Int) = 2 ^ 64 := by norm_cast
    omega
  obtain ⟨c, hrc, hc, hones⟩ := runsChainX_ok lc hlc hsmall
  have hbound := runsChainX_bound lc hlc hsmall c hrc lM (by
    intro l hl
    have := hlcle l hl
    have := hlcpos l hl
    omega)
  have honesM : onesI lM ≤ (n : Int) := by
    rw [← cast_ones, ← hdM]; omega
  refine ⟨F, fun f hf o => ?_⟩
  have hfw : (ChainAlg.runs s).findWith (SeqAlg.findF f) n o
      = finish (ts.map fun t => (t.d, t.e)) (toNats c) o := by
    unfold ChainAlg.findWith
    simp only [hts, hL, hfind f hf, hrc]
  rw [hfw]
  apply finish_ok
  · intro e; exact hne (List.map_eq_nil_iff.1 e)
  · rw [valueP_map, hv]
  · exact hn
  · exact hc
  · intro x hx; have := (hbound x hx).2; omega
  · intro t ht
    obtain ⟨t', ht', rfl⟩ := List.mem_map.1 ht
    obtain ⟨l, hl, hd, _⟩ := hshape t' ht'
    have hlL : (l : Int) ∈ L := (hLmem _).2 ⟨t', ht', l, hl, hd, rfl⟩
    have := hones (l : Int) (hsup _ hlL)
    simp only [Int.toNat_natCast] at this
    show ((t'.d : Nat) : Int) ∈ c
    rw [hd, cast_ones]; exact this

end P.DA

namespace P.DA
open P P.Bits

/-- **every well-formed chain algorithm**: for all sufficiently large fuel and every oracle,
    `FindChain` returns a valid chain ending at the target, or reports an inadmissible oracle -/
theorem findWith_total : ∀ (a : ChainAlg), a.wf = true → ∀ (n : Nat), 1 ≤ n → Nat.log2 n + 1 < 2 ^ 64 →
    ∃ F, ∀ f, F ≤ f → ∀ o,
      (∃ r, a.findWith (SeqAlg.findF f) n o = .ok r ∧ IsChain r ∧ r.getLast? = some (n : Int)) ∨
      a.findWith (SeqAlg.findF f) n o = .error .oracle
  | .binaryRTL, _, n, hn, _ => by
    refine ⟨0, fun f _ o => Or.inl ⟨rtl n, ?_, (binary_ok n hn).1, (binary_ok n hn).2⟩⟩
    unfold ChainAlg.findWith; simp; omega
  | .asChain s, hw, n, hn, _ => by
    have hs : SeqAlg.wf s = true := by simpa [ChainAlg.wf] using hw
    obtain ⟨F, c, hfind, hc, hasc, hsup, hle⟩ := seq_good s hs [(n : Int)] (by simp)
      (by intro x hx; simp at hx; omega) (by simp) (n : Int) (by intro x hx; simp at hx; omega) (by simp)
    refine ⟨F, fun f hf o => Or.inl ⟨c, ?_, hc, last_of_bound c n hasc (hsup _ (by simp)) hle⟩⟩
    unfold ChainAlg.findWith; rw [hfind f hf]
  | .dict d s, hw, n, hn, _ => by
    have h2 : d.wf = true ∧ SeqAlg.wf s = true := by simpa [ChainAlg.wf] using hw
    exact dict_total d s h2.1 h2.2 n hn
  | .runs s, hw, n, hn, hsz => by
    have hs : SeqAlg.wf s = true := by simpa [ChainAlg.wf] using hw
    exact runs_total s hs n hn hsz
  | .opt a, hw, n, hn, hsz => by
    have ha : a.wf = true := by simpa [ChainAlg.wf] using hw
    obtain ⟨F, hF⟩ := findWith_total a ha n hn hsz
    refine ⟨F, fun f hf o => ?_⟩
    rcases hF f hf o with ⟨r, hr, hc, hl⟩ | he
    · left
      obtain ⟨h1, _, _, h4⟩ := P.OptX.optimize_ok r hc
      refine ⟨P.OptX.optimize r, ?_, h1, by rw [h4, hl]⟩
      show (match a.findWith (SeqAlg.findF f) n o with
        | Except.error e => (Except.error e : Except Err (List Int))
        | Except.ok c => Except.ok (P.OptX.optimize c)) = _
      rw [hr]
    · right
      show (match a.findWith (SeqAlg.findF f) n o with
        | Except.error e => (Except.error e : Except Err (List Int))
        | Except.ok c => Except.ok (P.OptX.optimize c)) = _
      rw [he]

/-- `Execute` on top of it -/
theorem executeWith_total (a : ChainAlg) (hw : a.wf = true) (n : Nat) (hn : 1 ≤ n) (hsz : Nat.log2 n + 1 < 2 ^ 64) :
    ∃ F, ∀ f, F ≤ f → ∀ o,
      (∃ c p, executeWith (SeqAlg.findF f) a n o = .ok (c, p) ∧ IsChain c ∧ c.getLast? = some (n : Int) ∧
        p.length + 1 = c.length ∧ evaluate p = c) ∨
      executeWith (SeqAlg.findF f) a n o = .error .oracle := by
  obtain ⟨F, hF⟩ := findWith_total a hw n hn hsz
  refine ⟨F, fun f hf o => ?_⟩
  rcases hF f hf o with ⟨r, hr, hc, hl⟩ | he
  · left
    obtain ⟨p, hp⟩ := (validate_iff r).2 hc
    have he := program_evaluate r p hp
    have hlen := (program_get r p hp).1
    refine ⟨r, p, ?_, hc, hl, hlen, he⟩
    unfold executeWith
    rw [hr]; simp only []; rw [hp]; simp [hl]
  · right
    unfold executeWith
    rw [he]

/-- more fuel never changes a successful result -/
theorem executeWith_fuel_mono (a : ChainAlg) (n : Nat) (o : List TermP) (f k : Nat) (x : List Int × List Op)
    (h : executeWith (SeqAlg.findF f) a n o = .ok x) : executeWith (SeqAlg.findF (f + k)) a n o = .ok x := by
  unfold executeWith at h ⊢
  cases hc : a.findWith (SeqAlg.findF f) n o with
  | error e => rw [hc] at h; cases h
  | ok c =>
    rw [hc] at h
    rw [findWith_mono (SeqAlg.findF f) (SeqAlg.findF (f + k))
      (fun s T c' hh => SeqAlg.findF_mono s f k T c' hh) a n o c hc]
    exact h

/-- what the driver's model (fuel search) returns is what the fuel-indexed model returns -/
theorem findWith_of_find : ∀ (a : ChainAlg) (n : Nat) (o : List TermP) (c : List Int),
    a.find n o = .ok c → ∃ f, a.findWith (SeqAlg.findF f) n o = .ok c
  | .binaryRTL, _, _, _, h => ⟨0, h⟩
  | .asChain s, n, _, c, h => by
    unfold ChainAlg.find at h
    cases hs : s.find [(n : Int)] with
    | none => rw [hs] at h; cases h
    | some c' =>
      rw [hs] at h
      obtain ⟨f, hf⟩ := SeqAlg.find_findF s _ c' hs
      refine ⟨f, ?_⟩
      unfold ChainAlg.findWith; rw [hf]; exact h
  | .dict d s, n, o, c, h => by
    unfold ChainAlg.find at h
    simp only [] at h
    cases hs : s.find (dictionary (d.run n)) with
    | none => rw [hs] at h; cases h
    | some c' =>
      rw [hs] at h
      obtain ⟨f, hf⟩ := SeqAlg.find_findF s _ c' hs
      refine ⟨f, ?_⟩
      unfold ChainAlg.findWith; simp only []; rw [hf]; exact h
  | .runs s, n, o, c, h => by
    unfold ChainAlg.find at h
    simp only [] at h
    generalize hL : ((dictionary (decompose Method.runLength n 0 0)).map fun r => (bitLen r.toNat : Int)) = L at h
    cases hs : s.find L with
    | none => rw [hs] at h; cases h
    | some c' =>
      rw [hs] at h
      obtain ⟨f, hf⟩ := SeqAlg.find_findF s _ c' hs
      refine ⟨f, ?_⟩
      unfold ChainAlg.findWith; simp only []; rw [hL, hf]; exact h
  | .opt a, n, o, c, h => by
    have h' : (match a.find n o with
        | Except.error e => (Except.error e : Except Err (List Int))
        | Except.ok c => Except.ok (P.OptX.optimize c)) = .ok c := h
    cases ha : a.find n o with
    | error e => rw [ha] at h'; cases h'
    | ok c' =>
      rw [ha] at h'
      obtain ⟨f, hf⟩ := findWith_of_find a n o c' ha
      refine ⟨f, ?_⟩
      show (match a.findWith (SeqAlg.findF f) n o with
        | Except.error e => (Except.error e : Except Err (List Int))
        | Except.ok c => Except.ok (P.OptX.optimize c)) = _
      rw [hf]; exact h'

theorem executeWith_of_execute (a : ChainAlg) (n : Nat) (o : List TermP) (x : List Int × List Op)
    (h : execute a n o = .ok x) : ∃ f0, ∀ f, f0 ≤ f → executeWith (SeqAlg.findF f) a n o = .ok x := by
  unfold execute at h
  cases hc : a.find n o with
  | error e => rw [hc] at h; cases h
  | ok c =>
    rw [hc] at h
    obtain ⟨f0, hf0⟩ := findWith_of_find a n o c hc
    have h0 : executeWith (SeqAlg.findF f0) a n o = .ok x := by
      unfold executeWith; rw [hf0]; exact h
    refine ⟨f0, fun f hf => ?_⟩
    have := executeWith_fuel_mono a n o f0 (f - f0) x h0
    rw [Nat.add_sub_cancel' hf] at this
    exact this

end P.DA
