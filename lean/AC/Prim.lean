import AC.Sliding
/-! C01 prototype: the reduction `dict.primitive`. Vectors are functions here (the executable
    model uses lists; they agree pointwise). -/
namespace P.Prim
open P.Bits

abbrev Vec := Nat → Nat
def basis (i : Nat) : Vec := fun j => if j = i then 1 else 0
def addV (a b : Vec) : Vec := fun j => a j + b j
def lshV (a : Vec) (e : Nat) : Vec := fun j => a j * 2 ^ e
def zeroV : Vec := fun _ => 0
def dot (n : Nat) (v : Vec) (c : Nat → Nat) : Nat := ((List.range n).map (fun j => v j * c j)).sum

theorem sum_map_add {α} (l : List α) (f g : α → Nat) :
    (l.map (fun x => f x + g x)).sum = (l.map f).sum + (l.map g).sum := by
  induction l with
  | nil => rfl
  | cons a r ih => simp only [List.map_cons, List.sum_cons, ih]; omega

theorem sum_map_mul_right {α} (l : List α) (f : α → Nat) (k : Nat) :
    (l.map (fun x => f x * k)).sum = (l.map f).sum * k := by
  induction l with
  | nil => simp
  | cons a r ih => simp only [List.map_cons, List.sum_cons, ih, Nat.add_mul]

theorem dot_add (n : Nat) (a b : Vec) (c : Nat → Nat) : dot n (addV a b) c = dot n a c + dot n b c := by
  unfold dot addV
  rw [← sum_map_add]
  congr 1
  apply List.map_congr_left
  intro j _
  rw [Nat.add_mul]

theorem dot_lsh (n : Nat) (a : Vec) (e : Nat) (c : Nat → Nat) : dot n (lshV a e) c = dot n a c * 2 ^ e := by
  unfold dot lshV
  rw [← sum_map_mul_right]
  congr 1
  apply List.map_congr_left
  intro j _
  rw [Nat.mul_assoc, Nat.mul_comm (2 ^ e), ← Nat.mul_assoc]

theorem dot_zero (n : Nat) (c : Nat → Nat) : dot n zeroV c = 0 := by
  unfold dot zeroV
  induction n with
  | zero => rfl
  | succ n ih => simp only [List.range_succ, List.map_append, List.sum_append, ih]; simp

theorem dot_basis : ∀ (n i : Nat) (c : Nat → Nat), i < n → dot n (basis i) c = c i := by
  intro n
  induction n with
  | zero => intro i c h; omega
  | succ n ih =>
    intro i c h
    unfold dot at *
    rw [List.range_succ, List.map_append, List.sum_append]
    by_cases hi : i = n
    · subst hi
      have : ((List.range i).map (fun j => basis i j * c j)).sum = 0 := by
        have : ∀ j ∈ List.range i, basis i j * c j = 0 := by
          intro j hj; simp at hj
          have : j ≠ i := by omega
          simp [basis, this]
        rw [List.map_congr_left this]
        clear this
        induction (List.range i) with
        | nil => rfl
        | cons a r ih2 => simp [ih2]
      rw [this]; simp [basis]
    · have := ih i c (by omega)
      rw [this]
      have hne : n ≠ i := fun e => hi e.symm
      simp [basis, hne]

/-- if `v` vanishes wherever `w` does not matter… pointwise equality suffices for `dot` -/
theorem dot_congr (n : Nat) (a b : Vec) (c : Nat → Nat) (h : ∀ j, j < n → a j = b j) : dot n a c = dot n b c := by
  unfold dot
  congr 1
  apply List.map_congr_left
  intro j hj
  simp at hj
  rw [h j hj]

/-! ### binary expansion -/
def bitsSet (m : Nat) : List Nat := (List.range (Nat.log2 m + 1)).filter (fun e => m.testBit e)

theorem sum_bits_below : ∀ (k m : Nat),
    (((List.range k).filter (fun e => m.testBit e)).map (fun e => 2 ^ e)).sum = m % 2 ^ k := by
  intro k
  induction k with
  | zero => intro m; simp [Nat.mod_one]
  | succ k ih =>
    intro m
    rw [List.range_succ, List.filter_append, List.map_append, List.sum_append, ih, mod_succ_of_bit]
    by_cases hb : m.testBit k = true
    · simp [hb]
    · simp [hb]

theorem bits_sum (m : Nat) : ((bitsSet m).map (fun e => 2 ^ e)).sum = m := by
  unfold bitsSet
  rw [sum_bits_below]
  apply Nat.mod_eq_of_lt
  exact Nat.lt_log2_self

/-! ### pigeonhole on lists of small naturals -/
theorem nodup_bounded_length : ∀ (n : Nat) (l : List Nat), l.Nodup → (∀ x ∈ l, x < n) → l.length ≤ n := by
  intro n
  induction n with
  | zero =>
    intro l _ h
    cases l with
    | nil => simp
    | cons a r => have := h a (by simp); omega
  | succ n ih =>
    intro l hnd h
    have h1 : (l.filter (· ≠ n)).length ≤ n := by
      apply ih
      · exact hnd.sublist List.filter_sublist
      · intro x hx
        simp at hx
        have := h x hx.1
        omega
    have h2 : l.length ≤ (l.filter (· ≠ n)).length + 1 := by
      have hc : l.count n ≤ 1 := List.nodup_iff_count.mp hnd n
      have : l.length = (l.filter (· ≠ n)).length + l.count n := by
        clear hc h1 h hnd ih
        induction l with
        | nil => rfl
        | cons a r ih2 =>
          by_cases ha : a = n
          · subst ha; simp [List.filter] at *; omega
          · have : (a == n) = false := by simpa using ha
            simp [List.filter, ha, List.count_cons, this] at *; omega
      omega
    omega


/-! ### dependency bitsets (`Program.Dependencies`) -/
def depsStep (ds : List Nat) (op : Nat × Nat) : List Nat :=
  ds ++ [ds.getD op.1 0 ||| ds.getD op.2 0 ||| 2 ^ ds.length]
def depsL (p : List (Nat × Nat)) : List Nat := p.foldl depsStep [1]

def opAt (q : List (Nat × Nat)) (j : Nat) : Nat × Nat := q.getD (j - 1) (0, 0)

structure DGood (q : List (Nat × Nat)) (ds : List Nat) : Prop where
  len : ds.length = q.length + 1
  self : ∀ k, k ≤ q.length → (ds.getD k 0).testBit k = true
  zero : ∀ k, k ≤ q.length → (ds.getD k 0).testBit 0 = true
  bound : ∀ k, k ≤ q.length → ∀ j, (ds.getD k 0).testBit j = true → j ≤ k
  step : ∀ k, k ≤ q.length → ∀ j, 1 ≤ j → (ds.getD k 0).testBit j = true →
    (ds.getD k 0).testBit (opAt q j).1 = true ∧ (ds.getD k 0).testBit (opAt q j).2 = true

theorem getD_append_left' (l : List Nat) (x : Nat) (k : Nat) (h : k < l.length) : (l ++ [x]).getD k 0 = l.getD k 0 := by
  simp [List.getD, List.getElem?_append_left h]
theorem getD_append_last' (l : List Nat) (x : Nat) : (l ++ [x]).getD l.length 0 = x := by
  simp [List.getD]
theorem opAt_append_left (q : List (Nat × Nat)) (op : Nat × Nat) (j : Nat) (h1 : 1 ≤ j) (h : j ≤ q.length) :
    opAt (q ++ [op]) j = opAt q j := by
  unfold opAt
  simp [List.getD, List.getElem?_append_left (show j - 1 < q.length by omega)]
theorem opAt_append_last (q : List (Nat × Nat)) (op : Nat × Nat) : opAt (q ++ [op]) (q.length + 1) = op := by
  unfold opAt; simp [List.getD]

theorem dgood_nil : DGood [] [1] := by
  refine ⟨rfl, ?_, ?_, ?_, ?_⟩
  · intro k hk; simp at hk; subst hk; decide
  · intro k hk; simp at hk; subst hk; decide
  · intro k hk j hj
    simp at hk; subst hk
    simp [List.getD] at hj
    cases j with
    | zero => omega
    | succ j => simp [Nat.testBit_succ] at hj
  · intro k hk j hj1 hj
    simp at hk; subst hk
    simp [List.getD] at hj
    cases j with
    | zero => omega
    | succ j => simp [Nat.testBit_succ] at hj

theorem dgood_snoc (q : List (Nat × Nat)) (ds : List Nat) (op : Nat × Nat) (h : DGood q ds)
    (h1 : op.1 ≤ q.length) (h2 : op.2 ≤ q.length) : DGood (q ++ [op]) (depsStep ds op) := by
  unfold depsStep
  have hl := h.len
  have new_bit : ∀ j, (ds.getD op.1 0 ||| ds.getD op.2 0 ||| 2 ^ ds.length).testBit j =
      ((ds.getD op.1 0).testBit j || (ds.getD op.2 0).testBit j || decide (ds.length = j)) := by
    intro j; simp [Nat.testBit_or, Nat.testBit_two_pow]
  refine ⟨by simp [hl], ?_, ?_, ?_, ?_⟩
  · intro k hk
    simp at hk
    by_cases hkl : k < ds.length
    · rw [getD_append_left' _ _ _ hkl]; exact h.self k (by omega)
    · have : k = ds.length := by omega
      subst this
      rw [getD_append_last', new_bit]; simp
  · intro k hk
    simp at hk
    by_cases hkl : k < ds.length
    · rw [getD_append_left' _ _ _ hkl]; exact h.zero k (by omega)
    · have : k = ds.length := by omega
      subst this
      rw [getD_append_last', new_bit, h.zero op.1 h1]; simp
  · intro k hk j hj
    simp at hk
    by_cases hkl : k < ds.length
    · rw [getD_append_left' _ _ _ hkl] at hj; exact h.bound k (by omega) j hj
    · have : k = ds.length := by omega
      subst this
      rw [getD_append_last', new_bit] at hj
      simp only [Bool.or_eq_true, decide_eq_true_eq] at hj
      rcases hj with (hj | hj) | hj
      · have := h.bound op.1 h1 j hj; omega
      · have := h.bound op.2 h2 j hj; omega
      · omega
  · intro k hk j hj1 hj
    simp at hk
    by_cases hkl : k < ds.length
    · rw [getD_append_left' _ _ _ hkl] at hj ⊢
      have hjk := h.bound k (by omega) j hj
      rw [opAt_append_left q op j hj1 (by omega)]
      exact h.step k (by omega) j hj1 hj
    · have : k = ds.length := by omega
      subst this
      rw [getD_append_last'] at hj ⊢
      rw [new_bit] at hj
      simp only [Bool.or_eq_true, decide_eq_true_eq] at hj
      rcases hj with (hj | hj) | hj
      · have hjb := h.bound op.1 h1 j hj
        rw [opAt_append_left q op j hj1 (by omega)]
        obtain ⟨s1, s2⟩ := h.step op.1 h1 j hj1 hj
        rw [new_bit, new_bit, s1, s2]; simp
      · have hjb := h.bound op.2 h2 j hj
        rw [opAt_append_left q op j hj1 (by omega)]
        obtain ⟨s1, s2⟩ := h.step op.2 h2 j hj1 hj
        rw [new_bit, new_bit, s1, s2]; simp
      · have hjq : j = q.length + 1 := by omega
        subst hjq
        rw [opAt_append_last, new_bit, new_bit, h.self op.1 h1, h.self op.2 h2]; simp

/-- in-range programs: op `k` (0-based) reads elements `≤ k` -/
def InRangeP : List (Nat × Nat) → Nat → Prop
  | [], _ => True
  | o :: r, k => o.1 ≤ k ∧ o.2 ≤ k ∧ InRangeP r (k + 1)

theorem dgood_foldl : ∀ (r q : List (Nat × Nat)) (ds : List Nat), DGood q ds → InRangeP r q.length →
    DGood (q ++ r) (r.foldl depsStep ds) := by
  intro r
  induction r with
  | nil => intro q ds h _; simpa using h
  | cons op r ih =>
    intro q ds h hr
    have := ih (q ++ [op]) (depsStep ds op) (dgood_snoc q ds op h hr.1 hr.2.1) (by simpa using hr.2.2)
    simpa using this

theorem dgood (p : List (Nat × Nat)) (h : InRangeP p 0) : DGood p (depsL p) := by
  have := dgood_foldl p [] [1] dgood_nil (by simpa using h)
  simpa [depsL] using this


/-! ### read counts, the primitive flags, and the pigeonhole -/
def reads (p terms : List (Nat × Nat)) (i : Nat) : Nat :=
  p.countP (fun o => o.1 == i || o.2 == i) + terms.countP (fun t => t.1 == i)

def flag (p terms : List (Nat × Nat)) (i : Nat) : Bool :=
  (List.range (p.length + 1)).any (fun k => decide (2 ≤ reads p terms k) && ((depsL p).getD k 0).testBit i)

theorem flag_iff (p terms : List (Nat × Nat)) (i : Nat) :
    flag p terms i = true ↔ ∃ k, k ≤ p.length ∧ 2 ≤ reads p terms k ∧ ((depsL p).getD k 0).testBit i = true := by
  unfold flag
  simp only [List.any_eq_true, List.mem_range, Bool.and_eq_true, decide_eq_true_eq]
  constructor
  · rintro ⟨k, hk, h1, h2⟩; exact ⟨k, by omega, h1, h2⟩
  · rintro ⟨k, hk, h1, h2⟩; exact ⟨k, by omega, h1, h2⟩

theorem flag_closed (p terms : List (Nat × Nat)) (hp : InRangeP p 0) (j : Nat) (hj : 1 ≤ j)
    (h : flag p terms j = true) : flag p terms (opAt p j).1 = true ∧ flag p terms (opAt p j).2 = true := by
  obtain ⟨k, hk, hr, hb⟩ := (flag_iff p terms j).1 h
  obtain ⟨s1, s2⟩ := (dgood p hp).step k hk j hj hb
  exact ⟨(flag_iff _ _ _).2 ⟨k, hk, hr, s1⟩, (flag_iff _ _ _).2 ⟨k, hk, hr, s2⟩⟩

theorem flag_bound (p terms : List (Nat × Nat)) (hp : InRangeP p 0) (j : Nat) (h : flag p terms j = true) :
    j ≤ p.length := by
  obtain ⟨k, hk, _, hb⟩ := (flag_iff p terms j).1 h
  have := (dgood p hp).bound k hk j hb
  omega

theorem flag_zero (p terms : List (Nat × Nat)) (hp : InRangeP p 0) (k : Nat) (hk : k ≤ p.length)
    (hr : 2 ≤ reads p terms k) : flag p terms 0 = true :=
  (flag_iff _ _ _).2 ⟨k, hk, hr, (dgood p hp).zero k hk⟩

theorem flag_self (p terms : List (Nat × Nat)) (hp : InRangeP p 0) (k : Nat) (hk : k ≤ p.length)
    (hr : 2 ≤ reads p terms k) : flag p terms k = true :=
  (flag_iff _ _ _).2 ⟨k, hk, hr, (dgood p hp).self k hk⟩

theorem inRangeP_fst : ∀ (p : List (Nat × Nat)) (k : Nat), InRangeP p k → ∀ o ∈ p, o.1 < k + p.length := by
  intro p
  induction p with
  | nil => intro k _ o h; simp at h
  | cons a r ih =>
    intro k h o ho
    rcases List.mem_cons.mp ho with rfl | ho
    · have := h.1; simp; omega
    · have := ih (k+1) h.2.2 o ho; simp; omega

theorem pigeon (p terms : List (Nat × Nat)) (hp : InRangeP p 0) (ht : 2 ≤ terms.length)
    (hti : ∀ t ∈ terms, t.1 ≤ p.length) : ∃ k, k ≤ p.length ∧ 2 ≤ reads p terms k := by
  -- the list of read events
  let E := p.map (·.1) ++ terms.map (·.1)
  have hlen : E.length = p.length + terms.length := by simp [E]
  have hb : ∀ x ∈ E, x < p.length + 1 := by
    intro x hx
    rcases List.mem_append.mp hx with h | h
    · obtain ⟨o, ho, rfl⟩ := List.mem_map.mp h
      have := inRangeP_fst p 0 hp o ho; omega
    · obtain ⟨t, ht', rfl⟩ := List.mem_map.mp h
      have := hti t ht'; omega
  have hnd : ¬ E.Nodup := by
    intro hnd
    have := nodup_bounded_length (p.length + 1) E hnd hb
    omega
  rw [List.nodup_iff_count] at hnd
  have ⟨a, ha⟩ : ∃ a, 2 ≤ E.count a := by
    apply Classical.byContradiction
    intro hne
    apply hnd
    intro a
    have : ¬ 2 ≤ E.count a := fun h => hne ⟨a, h⟩
    omega
  have hamem : a ∈ E := by
    apply List.count_pos_iff.mp; omega
  refine ⟨a, by have := hb a hamem; omega, ?_⟩
  unfold reads
  have h1 : (p.map (·.1)).count a ≤ p.countP (fun o => o.1 == a || o.2 == a) := by
    rw [List.count_eq_countP, List.countP_map]
    apply List.countP_mono_left
    intro o _ h; simp at h ⊢; exact Or.inl h
  have h2 : (terms.map (·.1)).count a = terms.countP (fun t => t.1 == a) := by
    rw [List.count_eq_countP, List.countP_map]; rfl
  have : E.count a = (p.map (·.1)).count a + (terms.map (·.1)).count a := List.count_append
  omega


/-! ### every chain element as a combination of primitive elements -/
def vcStep (fl : Nat → Bool) (vs : List Vec) (op : Nat × Nat) : List Vec :=
  vs ++ [if fl vs.length then basis vs.length else addV (vs.getD op.1 zeroV) (vs.getD op.2 zeroV)]
def vcL (fl : Nat → Bool) (p : List (Nat × Nat)) : List Vec := p.foldl (vcStep fl) [basis 0]

structure VGood (n : Nat) (fl : Nat → Bool) (cv : Nat → Nat) (q : List (Nat × Nat)) (vs : List Vec) : Prop where
  len : vs.length = q.length + 1
  val : ∀ k, k ≤ q.length → dot n (vs.getD k zeroV) cv = cv k
  supp : ∀ k, k ≤ q.length → ∀ j, (vs.getD k zeroV) j ≠ 0 → (fl j = true ∨ j = 0) ∧ j ≤ k

theorem vgetD_append_left (l : List Vec) (x : Vec) (k : Nat) (h : k < l.length) : (l ++ [x]).getD k zeroV = l.getD k zeroV := by
  simp [List.getD, List.getElem?_append_left h]
theorem vgetD_append_last (l : List Vec) (x : Vec) : (l ++ [x]).getD l.length zeroV = x := by
  simp [List.getD]

theorem vgood_nil (n : Nat) (hn : 0 < n) (fl : Nat → Bool) (cv : Nat → Nat) : VGood n fl cv [] [basis 0] := by
  refine ⟨rfl, ?_, ?_⟩
  · intro k hk; simp at hk; subst hk
    exact dot_basis n 0 cv hn
  · intro k hk j hj; simp at hk; subst hk
    simp [List.getD, basis] at hj
    simp [hj]

theorem vgood_snoc (n : Nat) (fl : Nat → Bool) (cv : Nat → Nat) (q : List (Nat × Nat)) (vs : List Vec)
    (op : Nat × Nat) (h : VGood n fl cv q vs) (h1 : op.1 ≤ q.length) (h2 : op.2 ≤ q.length)
    (hn : q.length + 1 < n) (hev : cv op.1 + cv op.2 = cv (q.length + 1)) :
    VGood n fl cv (q ++ [op]) (vcStep fl vs op) := by
  unfold vcStep
  have hl := h.len
  refine ⟨by simp [hl], ?_, ?_⟩
  · intro k hk
    simp at hk
    by_cases hkl : k < vs.length
    · rw [vgetD_append_left _ _ _ hkl]; exact h.val k (by omega)
    · have : k = vs.length := by omega
      subst this
      rw [vgetD_append_last]
      split
      · exact dot_basis n _ cv (by omega)
      · rw [dot_add, h.val op.1 h1, h.val op.2 h2, hev, hl]
  · intro k hk j hj
    simp at hk
    by_cases hkl : k < vs.length
    · rw [vgetD_append_left _ _ _ hkl] at hj; exact h.supp k (by omega) j hj
    · have : k = vs.length := by omega
      subst this
      rw [vgetD_append_last] at hj
      split at hj
      · rename_i hfl
        simp only [basis] at hj
        have : j = vs.length := by
          by_cases e : j = vs.length
          · exact e
          · simp [e] at hj
        subst this
        exact ⟨Or.inl hfl, Nat.le_refl _⟩
      · simp only [addV] at hj
        have : (vs.getD op.1 zeroV) j ≠ 0 ∨ (vs.getD op.2 zeroV) j ≠ 0 := by omega
        rcases this with hne | hne
        · have := h.supp op.1 h1 j hne; exact ⟨this.1, by omega⟩
        · have := h.supp op.2 h2 j hne; exact ⟨this.1, by omega⟩

/-- the program evaluates to the values `cv`: op `k` reads two earlier positions summing to `cv (k+1)` -/
def EvalsTo (cv : Nat → Nat) : List (Nat × Nat) → Nat → Prop
  | [], _ => True
  | o :: r, k => o.1 ≤ k ∧ o.2 ≤ k ∧ cv o.1 + cv o.2 = cv (k + 1) ∧ EvalsTo cv r (k + 1)

theorem vgood_foldl (n : Nat) (fl : Nat → Bool) (cv : Nat → Nat) : ∀ (r q : List (Nat × Nat)) (vs : List Vec),
    VGood n fl cv q vs → EvalsTo cv r q.length → q.length + r.length < n →
    VGood n fl cv (q ++ r) (r.foldl (vcStep fl) vs) := by
  intro r
  induction r with
  | nil => intro q vs h _ _; simpa using h
  | cons op r ih =>
    intro q vs h he hn
    simp at hn
    have := ih (q ++ [op]) (vcStep fl vs op)
      (vgood_snoc n fl cv q vs op h he.1 he.2.1 (by omega) he.2.2.1) (by simpa using he.2.2.2) (by simp; omega)
    simpa using this

theorem vgood (fl : Nat → Bool) (cv : Nat → Nat) (p : List (Nat × Nat)) (he : EvalsTo cv p 0) :
    VGood (p.length + 1) fl cv p (vcL fl p) := by
  have := vgood_foldl (p.length + 1) fl cv p [] [basis 0] (vgood_nil _ (by omega) fl cv) (by simpa using he) (by simp)
  simpa [vcL] using this


/-! ### the target as a combination, the rebuilt sum, the pruned chain -/
def vTot (vs : List Vec) (terms : List (Nat × Nat)) : Vec :=
  terms.foldl (fun acc t => addV acc (lshV (vs.getD t.1 zeroV) t.2)) zeroV

theorem vTot_foldl (n : Nat) (cv : Nat → Nat) (vs : List Vec) : ∀ (terms : List (Nat × Nat)) (acc : Vec),
    (∀ t ∈ terms, dot n (vs.getD t.1 zeroV) cv = cv t.1) →
    dot n (terms.foldl (fun acc t => addV acc (lshV (vs.getD t.1 zeroV) t.2)) acc) cv
      = dot n acc cv + (terms.map (fun t => cv t.1 * 2 ^ t.2)).sum := by
  intro terms
  induction terms with
  | nil => intro acc _; simp
  | cons t r ih =>
    intro acc h
    simp only [List.foldl_cons, List.map_cons, List.sum_cons]
    rw [ih _ (fun t' ht' => h t' (List.mem_cons_of_mem _ ht')), dot_add, dot_lsh, h t (by simp)]
    omega

theorem vTot_supp (vs : List Vec) : ∀ (terms : List (Nat × Nat)) (acc : Vec) (j : Nat),
    (terms.foldl (fun acc t => addV acc (lshV (vs.getD t.1 zeroV) t.2)) acc) j ≠ 0 →
    acc j ≠ 0 ∨ ∃ t ∈ terms, (vs.getD t.1 zeroV) j ≠ 0 := by
  intro terms
  induction terms with
  | nil => intro acc j h; exact Or.inl h
  | cons t r ih =>
    intro acc j h
    simp only [List.foldl_cons] at h
    rcases ih _ j h with h1 | ⟨t', ht', h2⟩
    · simp only [addV, lshV] at h1
      by_cases ha : acc j = 0
      · right
        refine ⟨t, by simp, ?_⟩
        intro hz; rw [ha, hz] at h1; simp at h1
      · exact Or.inl ha
    · exact Or.inr ⟨t', List.mem_cons_of_mem _ ht', h2⟩

def outTerms (n : Nat) (cv : Nat → Nat) (v : Vec) : List (Nat × Nat) :=
  (List.range n).flatMap (fun i => (bitsSet (v i)).map (fun e => (cv i, e)))
def valueT (ts : List (Nat × Nat)) : Nat := (ts.map (fun t => t.1 * 2 ^ t.2)).sum

theorem sum_map_mul_left {α} (l : List α) (f : α → Nat) (k : Nat) :
    (l.map (fun x => k * f x)).sum = k * (l.map f).sum := by
  induction l with
  | nil => simp
  | cons a r ih => simp only [List.map_cons, List.sum_cons, ih, Nat.mul_add]

theorem valueT_out : ∀ (n : Nat) (cv : Nat → Nat) (v : Vec), valueT (outTerms n cv v) = dot n v cv := by
  intro n cv v
  unfold valueT outTerms dot
  induction n with
  | zero => rfl
  | succ n ih =>
    rw [List.range_succ, List.flatMap_append, List.map_append, List.sum_append, List.map_append, List.sum_append, ih]
    congr 1
    simp only [List.flatMap_cons, List.flatMap_nil, List.append_nil, List.map_map, List.map_cons,
      List.map_nil, List.sum_cons, List.sum_nil, Nat.add_zero]
    have : (List.map ((fun t => t.1 * 2 ^ t.2) ∘ fun e => (cv n, e)) (bitsSet (v n))) =
        List.map (fun e => cv n * 2 ^ e) (bitsSet (v n)) := by
      apply List.map_congr_left; intro e _; rfl
    rw [this, sum_map_mul_left, bits_sum, Nat.mul_comm]

theorem mem_out (n : Nat) (cv : Nat → Nat) (v : Vec) (t : Nat × Nat) (h : t ∈ outTerms n cv v) :
    ∃ i, i < n ∧ t.1 = cv i ∧ v i ≠ 0 := by
  unfold outTerms at h
  obtain ⟨i, hi, hm⟩ := List.mem_flatMap.mp h
  obtain ⟨e, he, rfl⟩ := List.mem_map.mp hm
  refine ⟨i, by simpa using hi, rfl, ?_⟩
  intro hz
  rw [hz] at he
  simp [bitsSet] at he

theorem evalsTo_inRange (cv : Nat → Nat) : ∀ (p : List (Nat × Nat)) (k : Nat), EvalsTo cv p k → InRangeP p k := by
  intro p
  induction p with
  | nil => intro k _; trivial
  | cons o r ih => intro k h; exact ⟨h.1, h.2.1, ih (k+1) h.2.2.2⟩

theorem evalsTo_at (cv : Nat → Nat) : ∀ (p : List (Nat × Nat)) (k j : Nat), EvalsTo cv p k → 1 ≤ j → j ≤ p.length →
    (p.getD (j - 1) (0, 0)).1 ≤ k + j - 1 ∧ (p.getD (j - 1) (0, 0)).2 ≤ k + j - 1 ∧
    cv (p.getD (j - 1) (0, 0)).1 + cv (p.getD (j - 1) (0, 0)).2 = cv (k + j) := by
  intro p
  induction p with
  | nil => intro k j _ h1 h2; simp at h2; omega
  | cons o r ih =>
    intro k j h h1 h2
    cases j with
    | zero => omega
    | succ j =>
      cases j with
      | zero => simp; exact ⟨h.1, h.2.1, h.2.2.1⟩
      | succ j =>
        have := ih (k+1) (j+1) h.2.2.2 (by omega) (by simp at h2; omega)
        simp only [Nat.add_sub_cancel, List.getD_cons_succ] at this ⊢
        have e1 : k + 1 + (j + 1) - 1 = k + (j + 1 + 1) - 1 := by omega
        have e2 : k + 1 + (j + 1) = k + (j + 1 + 1) := by omega
        rw [e1, e2] at this
        exact this

/-- **`primitive` is correct**: the rebuilt sum has the same value and uses only elements of the
    pruned chain, which contains 1 and is closed under its own chosen operations. -/
theorem primitive_ok (cv : Nat → Nat) (p terms : List (Nat × Nat)) (he : EvalsTo cv p 0) (h0 : cv 0 = 1)
    (ht : 2 ≤ terms.length) (hti : ∀ t ∈ terms, t.1 ≤ p.length) :
    let n := p.length + 1
    let fl := flag p terms
    let out := outTerms n cv (vTot (vcL fl p) terms)
    let pruned := ((List.range n).filter fl).map cv
    valueT out = (terms.map (fun t => cv t.1 * 2 ^ t.2)).sum ∧
    (∀ t ∈ out, t.1 ∈ pruned) ∧
    (1 ∈ pruned) ∧ (∀ x ∈ pruned, x = 1 ∨ ∃ a ∈ pruned, ∃ b ∈ pruned, a + b = x) := by
  intro n fl out pruned
  have hp := evalsTo_inRange cv p 0 he
  have hv := vgood fl cv p he
  obtain ⟨k0, hk0, hr0⟩ := pigeon p terms hp ht hti
  have hfl0 : fl 0 = true := flag_zero p terms hp k0 hk0 hr0
  have hmemP : ∀ i, i ≤ p.length → fl i = true → cv i ∈ pruned := by
    intro i hi hf
    apply List.mem_map.mpr
    exact ⟨i, List.mem_filter.mpr ⟨by simp [n]; omega, hf⟩, rfl⟩
  refine ⟨?_, ?_, ?_, ?_⟩
  · show valueT (outTerms n cv (vTot (vcL fl p) terms)) = _
    rw [valueT_out]
    unfold vTot
    rw [vTot_foldl n cv (vcL fl p) terms zeroV (fun t ht' => hv.val t.1 (hti t ht')), dot_zero]
    simp
  · intro t htm
    obtain ⟨i, hi, hti', hvi⟩ := mem_out n cv _ t htm
    rcases vTot_supp (vcL fl p) terms zeroV i hvi with h | ⟨t', ht', hne⟩
    · simp [zeroV] at h
    · obtain ⟨hfi, hib⟩ := hv.supp t'.1 (hti t' ht') i hne
      have : fl i = true := by
        rcases hfi with h | h
        · exact h
        · subst h; exact hfl0
      rw [hti']
      exact hmemP i (by have := hti t' ht'; omega) this
  · rw [← h0]; exact hmemP 0 (Nat.zero_le _) hfl0
  · intro x hx
    obtain ⟨j, hj, rfl⟩ := List.mem_map.mp hx
    obtain ⟨hjn, hfj⟩ := List.mem_filter.mp hj
    simp [n] at hjn
    by_cases hj0 : j = 0
    · subst hj0; left; exact h0
    · right
      obtain ⟨f1, f2⟩ := flag_closed p terms hp j (by omega) hfj
      obtain ⟨b1, b2, hsum⟩ := evalsTo_at cv p 0 j he (by omega) (by omega)
      simp only [Nat.zero_add] at b1 b2 hsum
      refine ⟨cv (opAt p j).1, hmemP _ (by unfold opAt; omega) f1, cv (opAt p j).2, hmemP _ (by unfold opAt; omega) f2, ?_⟩
      exact hsum

end P.Prim
