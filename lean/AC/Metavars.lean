/-! C20 prototype: `File.Get/Add/Set` behave like an ordered map. -/
namespace P.Meta

structure Prop' where
  name : String
  doc : String
  value : String
deriving DecidableEq, Repr

abbrev File := List Prop'

def get (f : File) (n : String) : Option String := (f.find? (·.name == n)).map (·.value)

def add (f : File) (p : Prop') : Except String File :=
  match f.find? (·.name == p.name) with
  | some _ => .error "exists"
  | none => .ok (f ++ [p])

def set : File → String → String → Option File
  | [], _, _ => none
  | p :: r, n, v => if p.name = n then some ({ p with value := v } :: r)
    else (set r n v).map (p :: ·)

theorem add_existing (f : File) (p : Prop') (h : get f p.name ≠ none) : ∃ e, add f p = .error e := by
  unfold add get at *
  cases hf : f.find? (·.name == p.name) with
  | none => rw [hf] at h; simp at h
  | some q => exact ⟨_, rfl⟩

theorem add_new (f : File) (p : Prop') (h : get f p.name = none) : add f p = .ok (f ++ [p]) := by
  unfold add get at *
  cases hf : f.find? (·.name == p.name) with
  | none => rfl
  | some q => rw [hf] at h; simp at h

theorem get_add_same (f : File) (p : Prop') (h : get f p.name = none) : get (f ++ [p]) p.name = some p.value := by
  unfold get at *
  rw [List.find?_append]
  cases hf : f.find? (·.name == p.name) with
  | none => simp
  | some q => rw [hf] at h; simp at h

theorem get_add_other (f : File) (p : Prop') (n : String) (hn : n ≠ p.name) : get (f ++ [p]) n = get f n := by
  unfold get
  rw [List.find?_append]
  cases hf : f.find? (·.name == n) with
  | some q => simp
  | none =>
    have : (p.name == n) = false := by simpa using fun e => hn e.symm
    simp [List.find?, this]

theorem set_unknown : ∀ (f : File) (n v : String), get f n = none → set f n v = none := by
  intro f
  induction f with
  | nil => intro n v _; rfl
  | cons p r ih =>
    intro n v h
    unfold get at h
    simp only [List.find?_cons] at h
    by_cases hp : p.name = n
    · simp [hp] at h
    · have : (p.name == n) = false := by simpa using hp
      simp only [this] at h
      simp only [set, hp, if_false]
      rw [ih n v (by unfold get; exact h)]; rfl

theorem set_get : ∀ (f : File) (n v : String) (f' : File), set f n v = some f' →
    get f' n = some v ∧ (∀ m, m ≠ n → get f' m = get f m) ∧ f'.map (·.name) = f.map (·.name) := by
  intro f
  induction f with
  | nil => intro n v f' h; simp [set] at h
  | cons p r ih =>
    intro n v f' h
    simp only [set] at h
    by_cases hp : p.name = n
    · simp only [hp, if_true] at h
      cases h
      refine ⟨by simp [get, hp], ?_, by simp [hp]⟩
      intro m hm
      have : (n == m) = false := by simpa using fun e => hm e.symm
      simp [get, List.find?_cons, hp, this]
    · simp only [hp, if_false] at h
      cases hs : set r n v with
      | none => rw [hs] at h; simp at h
      | some r' =>
        rw [hs] at h; simp at h; subst h
        obtain ⟨i1, i2, i3⟩ := ih n v r' hs
        have hpn : (p.name == n) = false := by simpa using hp
        refine ⟨?_, ?_, by simp [i3]⟩
        · unfold get at i1 ⊢
          simp only [List.find?_cons, hpn]
          exact i1
        · intro m hm
          unfold get at i2 ⊢
          simp only [List.find?_cons]
          cases hpm : (p.name == m) with
          | true => rfl
          | false => exact i2 m hm

end P.Meta
