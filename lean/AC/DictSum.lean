/-! C01 prototype: `dict.dictsumchain` — building the target from a sum sorted by exponent. -/
namespace P.DictSum

/-- `k` successive doublings of `cur` -/
def doubles : Nat → Nat → List Nat
  | 0, _ => []
  | k+1, cur => (2 * cur) :: doubles k (2 * cur)

/-- process the remaining terms (highest exponent first); `cur` currently stands at exponent `E` -/
def go (cur E : Nat) : List (Nat × Nat) → List Nat
  | [] => doubles E cur
  | (d, e) :: r =>
    let ds := doubles (E - e) cur
    let c1 := cur * 2 ^ (E - e)
    ds ++ [c1 + d] ++ go (c1 + d) e r

/-- `dictsumchain(sum)` with `sum` sorted by ascending exponent and non-empty: start from the top
    term's dictionary entry -/
def dictsumchain (sumDesc : List (Nat × Nat)) : List Nat :=
  match sumDesc with
  | [] => []
  | (d, e) :: r => go d e r

def lastOr (l : List Nat) (d : Nat) : Nat := l.getLast?.getD d

theorem lastOr_cons (x : Nat) (l : List Nat) (d : Nat) : lastOr (x :: l) d = lastOr l x := by
  unfold lastOr
  cases l with
  | nil => simp
  | cons a r =>
    simp only [List.getLast?_cons_cons]
    cases h : (a :: r).getLast? with
    | none => simp at h
    | some v => rfl

theorem doubles_last : ∀ (k cur : Nat), lastOr (doubles k cur) cur = cur * 2 ^ k := by
  intro k
  induction k with
  | zero => intro cur; simp [doubles, lastOr]
  | succ k ih =>
    intro cur
    simp only [doubles]
    rw [lastOr_cons, ih (2 * cur), Nat.pow_succ, Nat.mul_comm 2 cur, Nat.mul_assoc, Nat.mul_comm 2]

/-- every doubling is the double of the element before it -/
theorem doubles_closed : ∀ (k cur : Nat) (y : Nat), y ∈ doubles k cur →
    ∃ x, (x = cur ∨ x ∈ doubles k cur) ∧ y = x + x := by
  intro k
  induction k with
  | zero => intro cur y h; simp [doubles] at h
  | succ k ih =>
    intro cur y h
    simp only [doubles, List.mem_cons] at h
    rcases h with rfl | h
    · exact ⟨cur, Or.inl rfl, by omega⟩
    · obtain ⟨x, hx, rfl⟩ := ih (2 * cur) y h
      refine ⟨x, ?_, rfl⟩
      rcases hx with rfl | hx
      · right; simp [doubles]
      · right; simp [doubles, hx]

def Desc : Nat → List (Nat × Nat) → Prop
  | _, [] => True
  | E, (_, e) :: r => e ≤ E ∧ Desc e r

def value (ts : List (Nat × Nat)) : Nat := (ts.map (fun t => t.1 * 2 ^ t.2)).sum

/-- closure and final value of the construction -/
theorem go_spec : ∀ (ts : List (Nat × Nat)) (cur E : Nat), Desc E ts →
    (∀ y ∈ go cur E ts, ∃ x, (x = cur ∨ x ∈ go cur E ts) ∧
        (y = x + x ∨ ∃ t ∈ ts, y = x + t.1)) ∧
    lastOr (go cur E ts) cur = cur * 2 ^ E + value ts := by
  intro ts
  induction ts with
  | nil =>
    intro cur E _
    refine ⟨?_, by simp [go, value, doubles_last]⟩
    intro y hy
    obtain ⟨x, hx, he⟩ := doubles_closed E cur y hy
    exact ⟨x, hx, Or.inl he⟩
  | cons t r ih =>
    intro cur E hd
    obtain ⟨d, e⟩ := t
    obtain ⟨hle, hdr⟩ := hd
    obtain ⟨ihc, ihl⟩ := ih (cur * 2 ^ (E - e) + d) e hdr
    simp only [go]
    constructor
    · intro y hy
      simp only [List.mem_append, List.mem_singleton] at hy
      rcases hy with (hy | hy) | hy
      · obtain ⟨x, hx, he⟩ := doubles_closed (E - e) cur y hy
        refine ⟨x, ?_, Or.inl he⟩
        rcases hx with h | h
        · exact Or.inl h
        · right; simp [h]
      · -- the addition of the dictionary entry
        have hl := doubles_last (E - e) cur
        refine ⟨cur * 2 ^ (E - e), ?_, Or.inr ⟨(d, e), by simp, by simp [hy]⟩⟩
        by_cases hz : E - e = 0
        · left; simp [hz]
        · right
          have : cur * 2 ^ (E - e) ∈ doubles (E - e) cur := by
            unfold lastOr at hl
            cases hds : doubles (E - e) cur with
            | nil =>
              obtain ⟨m, hm⟩ : ∃ m, E - e = m + 1 := ⟨E - e - 1, by omega⟩
              rw [hm] at hds; simp [doubles] at hds
            | cons a r' =>
              rw [hds] at hl
              have hm := List.mem_of_getLast? (show (a :: r').getLast? = some ((a :: r').getLast?.getD cur) by
                cases h : (a :: r').getLast? with
                | none => simp at h
                | some v => simp)
              rw [hl] at hm; exact hm
          simp [this]
      · obtain ⟨x, hx, he⟩ := ihc y hy
        refine ⟨x, ?_, ?_⟩
        · rcases hx with h | h
          · right; simp [h]
          · right; simp [h]
        · rcases he with h | ⟨t, ht, h⟩
          · exact Or.inl h
          · exact Or.inr ⟨t, by simp [ht], h⟩
    · -- final value
      have : lastOr (doubles (E - e) cur ++ [cur * 2 ^ (E - e) + d] ++ go (cur * 2 ^ (E - e) + d) e r) cur
          = lastOr (go (cur * 2 ^ (E - e) + d) e r) (cur * 2 ^ (E - e) + d) := by
        unfold lastOr
        simp only [List.getLast?_append, List.getLast?_singleton]
        cases go (cur * 2 ^ (E - e) + d) e r |>.getLast? <;> simp
      rw [this, ihl]
      simp only [value, List.map_cons, List.sum_cons]
      have hp : 2 ^ E = 2 ^ (E - e) * 2 ^ e := by rw [← Nat.pow_add]; congr 1; omega
      rw [Nat.add_mul, hp, Nat.mul_assoc]
      omega

end P.DictSum
