import AC.SemX
/-! # C03: the IR pipeline (translate → compile → evaluate) refines the direct semantics

`expr_sim`, `stmts_sim`, `load_eq_denote` over the faithful model of `AC/SemX.lean`
(Go-int indices, 64-bit counter, error classes, incremental chain in `denote`). -/
namespace P.SemX

/-- the simulation at expression level -/
theorem expr_sim (env : Env) : ∀ (e : Expr) (n : Int) (p : Prog), n = p.length + 1 →
    n + weight e < B63 →
    (∀ err, tExpr env n e = .error err → dExpr (mk p) env e = none) ∧
    (∀ Δ n' x, tExpr env n e = .ok (Δ, n', x) →
      (∀ err, cAll p Δ = .error err → dExpr (mk p) env e = none) ∧
      (∀ p', cAll p Δ = .ok p' → dExpr (mk p) env e = some (mk p', x) ∧ n' = p'.length + 1)) := by
  intro e
  induction e with
  | operand i =>
    intro n p hn _
    refine ⟨by intro err h; simp [tExpr] at h, ?_⟩
    intro Δ n' x h
    simp [tExpr] at h; obtain ⟨rfl, rfl, rfl⟩ := h
    exact ⟨by intro err h; simp [cAll] at h,
           by intro p' h; simp [cAll] at h; subst h; exact ⟨rfl, hn⟩⟩
  | ident s =>
    intro n p hn _
    constructor
    · intro err h
      simp only [tExpr, dExpr] at *
      cases hl : lookup env s with
      | none => simp
      | some v => rw [hl] at h; cases h
    · intro Δ n' x h
      simp only [tExpr] at h
      cases hl : lookup env s with
      | none => rw [hl] at h; cases h
      | some v =>
        rw [hl] at h; cases h
        refine ⟨by intro err h; simp [cAll] at h, ?_⟩
        intro p' h; simp [cAll] at h; subst h
        simp [dExpr, hl, hn]
  | add x y ihx ihy =>
    intro n p hn hb
    have hn1' : (1 : Int) ≤ n := by omega
    simp only [weight] at hb
    obtain ⟨ax, bx⟩ := ihx n p hn (by omega)
    constructor
    · intro err h
      simp only [tExpr] at h
      simp only [dExpr]
      cases hx : tExpr env n x with
      | error e1 => rw [ax e1 hx]
      | ok r1 =>
        obtain ⟨d1, n1, a⟩ := r1
        rw [hx] at h; simp only [] at h
        have en1 := tExpr_n env x n d1 n1 a hn1' (by omega) hx
        obtain ⟨hf1, hs1⟩ := bx d1 n1 a hx
        cases hc1 : cAll p d1 with
        | error e1 => rw [hf1 e1 hc1]
        | ok p1 =>
          obtain ⟨hd1, hn1⟩ := hs1 p1 hc1
          rw [hd1]; simp only []
          obtain ⟨ay, _⟩ := ihy n1 p1 hn1 (by omega)
          cases hy : tExpr env n1 y with
          | error e2 => rw [ay e2 hy]
          | ok r2 => rw [hy] at h; cases h
    · intro Δ n' o h
      simp only [tExpr] at h
      cases hx : tExpr env n x with
      | error e1 => rw [hx] at h; cases h
      | ok r1 =>
        obtain ⟨d1, n1, a⟩ := r1
        rw [hx] at h; simp only [] at h
        have en1 := tExpr_n env x n d1 n1 a hn1' (by omega) hx
        obtain ⟨hf1, hs1⟩ := bx d1 n1 a hx
        cases hy : tExpr env n1 y with
        | error e2 => rw [hy] at h; cases h
        | ok r2 =>
          obtain ⟨d2, n2, b⟩ := r2
          rw [hy] at h; simp only [] at h
          have en2 := tExpr_n env y n1 d2 n2 b (by omega) (by omega) hy
          simp only [Except.ok.injEq, Prod.mk.injEq] at h
          obtain ⟨h1, h2, h3⟩ := h
          subst h1 h2 h3
          simp only [dExpr]
          rw [List.append_assoc, cAll_append]
          cases hc1 : cAll p d1 with
          | error e1 =>
            simp only []
            exact ⟨fun _ _ => by rw [hf1 e1 hc1], fun p' h => by cases h⟩
          | ok p1 =>
            obtain ⟨hd1, hn1⟩ := hs1 p1 hc1
            rw [hd1]; simp only []
            obtain ⟨_, by2⟩ := ihy n1 p1 hn1 (by omega)
            obtain ⟨hf2, hs2⟩ := by2 d2 n2 b hy
            rw [cAll_append]
            cases hc2 : cAll p1 d2 with
            | error e2 =>
              simp only []
              exact ⟨fun _ _ => by rw [hf2 e2 hc2], fun p' h => by cases h⟩
            | ok p2 =>
              obtain ⟨hd2, hn2⟩ := hs2 p2 hc2
              rw [hd2]; simp only []
              rw [cAll_single, step_sim]
              have hw : wrap64 (n2 + 1) = n2 + 1 := wrap64_id (by unfold B63; omega) (by omega)
              rw [hw]
              by_cases hab : a > b
              · rw [if_pos hab, if_pos hab, cInst_add p2 n2 _ _ hn2]
                cases hadd : pAdd p2 b a with
                | error e3 =>
                  simp only []
                  exact ⟨fun _ _ => (by first | rfl | trivial), fun p' h => by cases h⟩
                | ok r =>
                  obtain ⟨p3, o3⟩ := r
                  obtain ⟨ho3, hl3⟩ := pAdd_out hadd
                  simp only []
                  refine ⟨(by intro err h; cases h), ?_⟩
                  intro p' h
                  cases h
                  exact ⟨by rw [ho3, hn2], by rw [hl3, hn2]; simp⟩
              · rw [if_neg hab, if_neg hab, cInst_add p2 n2 _ _ hn2]
                cases hadd : pAdd p2 a b with
                | error e3 =>
                  simp only []
                  exact ⟨fun _ _ => (by first | rfl | trivial), fun p' h => by cases h⟩
                | ok r =>
                  obtain ⟨p3, o3⟩ := r
                  obtain ⟨ho3, hl3⟩ := pAdd_out hadd
                  simp only []
                  refine ⟨(by intro err h; cases h), ?_⟩
                  intro p' h
                  cases h
                  exact ⟨by rw [ho3, hn2], by rw [hl3, hn2]; simp⟩
  | double x ihx =>
    intro n p hn hb
    have hn1' : (1 : Int) ≤ n := by omega
    simp only [weight] at hb
    obtain ⟨ax, bx⟩ := ihx n p hn (by omega)
    constructor
    · intro err h
      simp only [tExpr] at h
      simp only [dExpr]
      cases hx : tExpr env n x with
      | error e1 => rw [ax e1 hx]
      | ok r1 => rw [hx] at h; cases h
    · intro Δ n' o h
      simp only [tExpr] at h
      cases hx : tExpr env n x with
      | error e1 => rw [hx] at h; cases h
      | ok r1 =>
        obtain ⟨d1, n1, a⟩ := r1
        rw [hx] at h; simp only [] at h
        have en1 := tExpr_n env x n d1 n1 a hn1' (by omega) hx
        simp only [Except.ok.injEq, Prod.mk.injEq] at h
        obtain ⟨h1, h2, h3⟩ := h
        subst h1 h2 h3
        obtain ⟨hf1, hs1⟩ := bx d1 n1 a hx
        simp only [dExpr]
        rw [cAll_append]
        cases hc1 : cAll p d1 with
        | error e1 =>
          simp only []
          exact ⟨fun _ _ => by rw [hf1 e1 hc1], fun p' h => by cases h⟩
        | ok p1 =>
          obtain ⟨hd1, hn1⟩ := hs1 p1 hc1
          rw [hd1]; simp only []
          rw [cAll_single, cInst_dbl p1 n1 _ hn1, step_sim_dbl]
          have hw : wrap64 (n1 + 1) = n1 + 1 := wrap64_id (by unfold B63; omega) (by omega)
          rw [hw]
          cases hadd : pAdd p1 a a with
          | error e3 =>
            simp only []
            exact ⟨fun _ _ => (by first | rfl | trivial), fun p' h => by cases h⟩
          | ok r =>
            obtain ⟨p3, o3⟩ := r
            obtain ⟨ho3, hl3⟩ := pAdd_out hadd
            simp only []
            refine ⟨(by intro err h; cases h), ?_⟩
            intro p' h
            cases h
            exact ⟨by rw [ho3, hn1], by rw [hl3, hn1]; simp⟩
  | shift x s ihx =>
    intro n p hn hb
    have hn1' : (1 : Int) ≤ n := by omega
    simp only [weight] at hb
    obtain ⟨ax, bx⟩ := ihx n p hn (by omega)
    constructor
    · intro err h
      simp only [tExpr] at h
      simp only [dExpr]
      cases hx : tExpr env n x with
      | error e1 => rw [ax e1 hx]
      | ok r1 => rw [hx] at h; cases h
    · intro Δ n' o h
      simp only [tExpr] at h
      cases hx : tExpr env n x with
      | error e1 => rw [hx] at h; cases h
      | ok r1 =>
        obtain ⟨d1, n1, a⟩ := r1
        rw [hx] at h; simp only [] at h
        have en1 := tExpr_n env x n d1 n1 a hn1' (by omega) hx
        have hw1 : wrap64 (s : Int) = s := wrap64_id (by unfold B63; omega) (by omega)
        have hw2 : wrap64 (n1 + (s : Int)) = n1 + s := wrap64_id (by unfold B63; omega) (by omega)
        have hw3 : wrap64 (n1 + (s : Int) - 1) = n1 + s - 1 :=
          wrap64_id (by unfold B63; omega) (by omega)
        rw [hw1, hw2, hw3] at h
        cases h
        obtain ⟨hf1, hs1⟩ := bx d1 n1 a hx
        simp only [dExpr]
        rw [cAll_append]
        cases hc1 : cAll p d1 with
        | error e1 =>
          simp only []
          exact ⟨fun _ _ => by rw [hf1 e1 hc1], fun p' h => by cases h⟩
        | ok p1 =>
          obtain ⟨hd1, hn1⟩ := hs1 p1 hc1
          rw [hd1]; simp only []
          rw [cAll_single]
          unfold cInst
          simp only []
          by_cases hs0 : s = 0
          · subst hs0
            simp only [pShift, if_true]
            have hlen : ((mk p1).chain.length : Int) - 1 = p1.length := by
              simp only [mk, evaluate_length]; omega
            rw [hlen]
            by_cases ha : a = (p1.length : Int)
            · have ha' : a = n1 + ((0 : Nat) : Int) - 1 := by omega
              rw [if_pos ha, if_pos ha']
              refine ⟨(by intro err h; cases h), ?_⟩
              intro p' h
              cases h
              exact ⟨by rw [← ha'], by omega⟩
            · have ha' : ¬ a = n1 + ((0 : Nat) : Int) - 1 := by omega
              rw [if_neg ha, if_neg ha']
              exact ⟨fun _ _ => (by first | rfl | trivial), fun p' h => by cases h⟩
          · rw [if_neg hs0, doubles_sim]
            cases hsh : pShift s p1 a with
            | error e3 =>
              simp only []
              exact ⟨fun _ _ => (by first | rfl | trivial), fun p' h => by cases h⟩
            | ok r =>
              obtain ⟨p3, o3⟩ := r
              obtain ⟨ho3, hl3⟩ := pShift_out s p1 a p3 o3 (by omega) hsh
              have : o3 = n1 + s - 1 := by omega
              simp only [this, if_true]
              refine ⟨(by intro err h; cases h), ?_⟩
              intro p' h
              cases h
              exact ⟨rfl, by omega⟩

/-- erase the error class -/
def erase : Except Err Prog → Option St
  | .error _ => none
  | .ok p => some (mk p)

theorem stmts_sim : ∀ (ss : List Stmt) (env : Env) (n : Int) (p : Prog), n = p.length + 1 →
    n + weightS ss < B63 →
    (match tStmts env n ss with | .error _ => none | .ok ir => erase (cAll p ir))
      = dStmts (mk p) env ss := by
  intro ss
  induction ss with
  | nil => intro env n p _ _; rfl
  | cons st r ih =>
    intro env n p hn hb
    simp only [weightS] at hb
    have hn1' : (1 : Int) ≤ n := by omega
    obtain ⟨ha, hbb⟩ := expr_sim env st.e n p hn (by omega)
    simp only [tStmts, dStmts]
    cases ht : tExpr env n st.e with
    | error e1 => rw [ha e1 ht]
    | ok res =>
      obtain ⟨Δ, n', x⟩ := res
      have en := tExpr_n env st.e n Δ n' x hn1' (by omega) ht
      obtain ⟨hf, hs⟩ := hbb Δ n' x ht
      simp only []
      cases hl : lookup env st.name with
      | some v =>
        simp only []
        cases hd : dExpr (mk p) env st.e with
        | none => rfl
        | some r2 => rfl
      | none =>
        simp only []
        cases hc : cAll p Δ with
        | error e1 =>
          rw [hf e1 hc]
          cases tStmts ((st.name, x) :: env) n' r with
          | error e2 => rfl
          | ok ir => simp only []; rw [cAll_append, hc]; rfl
        | ok p' =>
          obtain ⟨hd, hn'⟩ := hs p' hc
          rw [hd]
          simp only []
          rw [← ih ((st.name, x) :: env) n' p' hn' (by omega)]
          cases tStmts ((st.name, x) :: env) n' r with
          | error e2 => rfl
          | ok ir => simp only []; rw [cAll_append, hc]

/-- **C03 refinement**: translating a tree to IR, compiling it (operand bounds checks, output-index
    cross-check) and evaluating the program yields exactly the chain and op list of the direct
    semantics, and is an error exactly when the direct semantics rejects. The hypothesis says the
    tree describes fewer than 2^63 chain elements (a Go slice cannot be longer). -/
theorem load_eq_denote (t : Tree) (h : (weightS t : Int) + 1 < B63) :
    (load t).toOption = denote t := by
  have := stmts_sim t [] 1 [] rfl (by omega)
  unfold denote
  have e0 : St.init = mk [] := rfl
  rw [e0, ← this]
  unfold load translate compile
  cases tStmts [] 1 t with
  | error e => rfl
  | ok ir =>
    simp only []
    cases cAll [] ir with
    | error e => rfl
    | ok p => rfl

end P.SemX
