import AC.BigintsTie
import AC.Halving
import AC.CF
import AC.ProgramTie
/-! # The translated `Halving.Suggest` / `DeltaLargest.Suggest` equal their models (C08)

Regenerated from alg/heuristic/heuristic.go on every run (`AC/Gen/ProgramFns.lean`). The Go functions
return a nil slice for "no suggestion"; the translation cannot tell nil from empty, and the non-nil
results are never empty, so `[]` stands for the model's `none`. -/
namespace AC.HeurTie
open AC.Gen.Program AC.GoPrim AC.BigPrim P P.HX

theorem isZero_eq (x : Int) : AC.Gen.Bigint.isZero x = decide (x = 0) := by
  have := AC.BigintTie.isZero_iff x
  by_cases h : x = 0
  · subst h; simp [this.2 rfl]
  · cases hz : AC.Gen.Bigint.isZero x
    · simp [h]
    · exact absurd (this.1 hz) h

theorem bBitLen_nonneg (r : Int) (hr : 0 ≤ r) : bBitLen r = ((bitLenN r.toNat : Nat) : Int) := by
  unfold bBitLen bitLenN HX.bitLen
  have : r.natAbs = r.toNat := by omega
  rw [this]

theorem halving_loop_tie (k : Int) (u : Nat) (f : List Int) (target n mx next r : Int) :
    ∀ (m e : Nat) (ks : List Int), e + m = u + 1 → ks = (List.range e).map (fun i => k * 2 ^ i) →
    heuristicHalvingSuggest_loop1 m (e : Int) f target n mx next r (u : Int) k ks =
      heuristicHalvingSuggest_loop1 0 ((u + 1 : Nat) : Int) f target n mx next r (u : Int) k
        ((List.range (u + 1)).map (fun i => k * 2 ^ i)) := by
  intro m
  induction m with
  | zero => intro e ks he hks; have : e = u + 1 := by omega
            subst this; rw [hks]
  | succ m ih =>
    intro e ks he hks
    have hu : ¬ ((e : Int) < 0) := by omega
    have := ih (e + 1) (ks ++ [k * 2 ^ e]) (by omega) (by rw [hks, List.range_succ]; simp)
    push_cast at this
    simp only [heuristicHalvingSuggest_loop1, goUint, hu, if_false, Int.toNat_natCast, bind, Option.bind, bLsh]
    exact this

/-- translated `Halving.Suggest` = the model, for a non-empty `f` whose last element is positive and a
    non-negative target (`[]` = the Go nil slice = the model's `none`) -/
theorem halving_tie (f : List Int) (t : Int) (hf : f ≠ []) (hnext : 0 < f.getLastD 0) (ht : 0 ≤ t) :
    heuristicHalvingSuggest f t = some ((suggestHalving f t).getD []) := by
  obtain ⟨l, hl⟩ := Option.isSome_iff_exists.1 (List.getLast?_isSome.2 hf)
  have hld : f.getLastD 0 = l := by rw [List.getLastD_eq_getLast?, hl]; rfl
  rw [hld] at hnext
  have hidx : idx f (len f - 1) = some l := by
    have h1 : len f - 1 = ((f.length - 1 : Nat) : Int) := by
      have : 0 < f.length := List.length_pos_iff.2 hf
      simp [len]; omega
    have hn : ¬ (((f.length - 1 : Nat) : Int) < 0) := by omega
    rw [h1]
    simp only [idx, hn, if_false, Int.toNat_natCast]
    rw [← hl, List.getLast?_eq_getElem?]
  have hdiv : bDiv t l = some (t / l) := by
    have : l ≠ 0 := by omega
    simp [bDiv, this]
  have hr : 0 ≤ t / l := Int.ediv_nonneg ht (by omega)
  unfold heuristicHalvingSuggest suggestHalving
  simp only [hidx, hdiv, bind, Option.bind, hld, bBitLen_nonneg _ hr]
  by_cases hb : bitLenN (t / l).toNat < 2
  · have : ((bitLenN (t / l).toNat : Nat) : Int) < 2 := by omega
    simp [this, hb]
  · obtain ⟨u, hu⟩ : ∃ u, bitLenN (t / l).toNat = u + 1 := ⟨bitLenN (t / l).toNat - 1, by omega⟩
    rw [hu] at hb
    simp only [hu]
    have hb' : ¬ (((u + 1 : Nat) : Int) < 2) := by omega
    have hu1 : ((u + 1 : Nat) : Int) - 1 = (u : Int) := by omega
    have hun : ¬ ((u : Int) < 0) := by omega
    have hcount : Int.toNat (((u : Int) + 1) - 0) = u + 1 := by omega
    have hk : bRsh t u = t / 2 ^ u := by
      simp [bRsh, Int.shiftRight_eq_div_pow]
    simp only [hb', decide_false, Bool.false_eq_true, if_false, hu1, goUint, hun, Int.toNat_natCast, hcount, hk,
      hb, Nat.add_sub_cancel]
    have hloop := halving_loop_tie (t / 2 ^ u) u f t (len f) t l (t / l) (u + 1) 0 [] (by omega) (by simp)
    rw [show ((0 : Nat) : Int) = 0 from rfl] at hloop
    rw [hloop]
    -- the base case: d = t - kshifts[u]
    have hlen : ((List.range (u + 1)).map (fun i => t / 2 ^ u * 2 ^ i)).length = u + 1 := by simp
    have hget : idx ((List.range (u + 1)).map (fun i => t / 2 ^ u * 2 ^ i)) (u : Int) = some (t / 2 ^ u * 2 ^ u) := by
      simp [idx, hun]
    simp only [heuristicHalvingSuggest_loop1, hget, bind, Option.bind, bSub, isZero_eq]
    by_cases hd : t - t / 2 ^ u * 2 ^ u = 0
    · have hs : sliceTo ((List.range (u + 1)).map (fun i => t / 2 ^ u * 2 ^ i)) (u : Int) =
          some (((List.range (u + 1)).map (fun i => t / 2 ^ u * 2 ^ i)).take u) := by
        simp [sliceTo, hun]
      simp [hd, hs]
    · simp [hd, AC.BigintsTie.insertSortedUnique_tie]

/-- translated `DeltaLargest.Suggest`: panics exactly when the target does not exceed the last element -/
theorem deltaLargest_tie (f : List Int) (t l : Int) (hl : f.getLast? = some l) :
    heuristicDeltaLargestSuggest f t = if t - l ≤ 0 then none else some [t - l] := by
  have hf : f ≠ [] := by intro h; simp [h] at hl
  have hidx : idx f (len f - 1) = some l := by
    have h1 : len f - 1 = ((f.length - 1 : Nat) : Int) := by
      have : 0 < f.length := List.length_pos_iff.2 hf
      simp [len]; omega
    have hn : ¬ (((f.length - 1 : Nat) : Int) < 0) := by omega
    rw [h1]
    simp only [idx, hn, if_false, Int.toNat_natCast]
    rw [← hl, List.getLast?_eq_getElem?]
  unfold heuristicDeltaLargestSuggest
  simp only [hidx, bind, Option.bind, bSub, bSign]
  by_cases h : t - l ≤ 0
  · by_cases h0 : t - l < 0
    · simp [h, h0, goPanic]
    · have : t - l = 0 := by omega
      simp [h, this, goPanic]
  · have h1 : ¬ (t - l < 0) := by omega
    have h2 : ¬ (t - l = 0) := by omega
    simp [h, h1, h2]

end AC.HeurTie

namespace AC.HeurTie
open AC.Gen.Program AC.GoPrim AC.BigPrim P

/-- translated continued-fraction strategies `binary`, `co_binary`, `dichotomic` = `Strategy.K` of the
    model, for every non-negative n -/
theorem binaryK_tie (n : Int) : contfracBinaryStrategyK n = some (Strategy.K .binary n) := by
  simp [contfracBinaryStrategyK, Strategy.K, bRsh, Int.shiftRight_eq_div_pow]

theorem coBinaryK_tie (n : Int) (hn : 0 ≤ n) : contfracCoBinaryStrategyK n = some (Strategy.K .coBinary n) := by
  unfold contfracCoBinaryStrategyK Strategy.K
  have hbit : bBit (AC.Gen.Bigint.clone n) 0 = some (if n % 2 = 1 then 1 else 0) := by
    have h0 : ¬ ((0 : Int) < 0) := by omega
    have htb : n.toNat.testBit 0 = decide (n % 2 = 1) := by
      rw [Nat.testBit_zero]
      have : n.toNat % 2 = 1 ↔ n % 2 = 1 := by omega
      simp [this]
    simp only [bBit, h0, if_false, AC.Gen.Bigint.clone, bSet, Int.toNat_zero, htb]
    by_cases h : n % 2 = 1 <;> simp [h]
  simp only [hbit, bind, Option.bind]
  by_cases h : n % 2 = 1
  · simp [h, bAdd, bRsh, Int.shiftRight_eq_div_pow, AC.Gen.Bigint.clone, bSet, AC.Gen.Bigint.one, bNewInt]
  · simp [h, bRsh, Int.shiftRight_eq_div_pow, AC.Gen.Bigint.clone, bSet]

theorem dichotomicK_tie (n : Int) (hn : 0 ≤ n) :
    contfracDichotomicStrategyK n = some (Strategy.K .dichotomic n) := by
  unfold contfracDichotomicStrategyK Strategy.K
  have hl : bBitLen n = ((bitLenN n.toNat : Nat) : Int) := bBitLen_nonneg n hn
  have hu : goUint ((bitLenN n.toNat : Nat) : Int) = some (bitLenN n.toNat) := by
    have : ¬ (((bitLenN n.toNat : Nat) : Int) < 0) := by omega
    simp [goUint, this]
  have hp : ∀ h : Nat, AC.Gen.Bigint.pow2 h = (2 : Int) ^ h := fun h => by
    simp [AC.Gen.Bigint.pow2, bLsh, AC.Gen.Bigint.one, bNewInt]
  have hne : (2 : Int) ^ (bitLenN n.toNat / 2) ≠ 0 := by
    have := two_pow_pos_int (bitLenN n.toNat / 2); omega
  simp [hl, hu, hp, bDiv, hne]

end AC.HeurTie

namespace AC.HeurTie
open AC.Gen.Program AC.GoPrim AC.BigPrim P

theorem bSign_neg (d : Int) : decide (bSign d < 0) = decide (d < 0) := by
  unfold bSign
  by_cases h : d < 0
  · simp [h]
  · by_cases h0 : d = 0 <;> simp [h, h0]

theorem bCmp_lt (a b : Int) : decide (bCmp a b < 0) = decide (a < b) := by
  unfold bCmp
  by_cases h : a < b
  · simp [h]
  · by_cases h0 : a = b <;> simp [h, h0]

theorem containsSorted_eq (f : List Int) (hs : f.Pairwise (· ≤ ·)) (x : Int) :
    bigintsContainsSorted x f = f.contains x := by
  unfold bigintsContainsSorted
  rw [Bool.eq_iff_iff, P.Helpers.containsSorted_iff x f hs]
  simp

theorem approx_loop_tie (f : List Int) (t : Int) (hs : f.Pairwise (· ≤ ·)) :
    ∀ (fuel l rp : Nat) (st : ApSt) (delta insert : Int), rp ≤ fuel + l → rp ≤ f.length →
    heuristicApproximationSuggest_loop1 fuel f t delta insert st.mindelta st.best st.first (l : Int) ((rp : Int) - 1) =
      some [approxLoop f t l rp st] := by
  intro fuel
  induction fuel with
  | zero =>
    intro l rp st delta insert hf _
    have hc : ¬ ((l : Int) ≤ (rp : Int) - 1) := by omega
    have hb : approxLoop f t l rp st = st.best := by
      cases rp with
      | zero => simp [approxLoop]
      | succ rp => unfold approxLoop; have : ¬ l ≤ rp := by omega
                   simp [this]
    simp [heuristicApproximationSuggest_loop1, hc, hb]
  | succ fuel ih =>
    intro l rp st delta insert hf hrl
    by_cases hc : (l : Int) ≤ (rp : Int) - 1
    · obtain ⟨rp', rfl⟩ : ∃ rp', rp = rp' + 1 := ⟨rp - 1, by omega⟩
      have hl : l ≤ rp' := by omega
      have hr : ((rp' + 1 : Nat) : Int) - 1 = (rp' : Int) := by omega
      have hcI : (l : Int) ≤ (rp' : Int) := by omega
      have e1 : idx f (l : Int) = some (at' f l) := AC.ProgramTie.idx_at' f l (by omega)
      have e2 : idx f (rp' : Int) = some (at' f rp') := AC.ProgramTie.idx_at' f rp' (by omega)
      rw [hr]
      unfold approxLoop
      have hsign : ∀ d : Int, (bSign d < 0) ↔ d < 0 := by
        intro d; unfold bSign
        by_cases h : d < 0
        · simp [h]
        · by_cases h0 : d = 0 <;> simp [h, h0]
      have hcmp : ∀ a b : Int, (bCmp a b < 0) ↔ a < b := by
        intro a b; unfold bCmp
        by_cases h : a < b
        · simp [h]
        · by_cases h0 : a = b <;> simp [h, h0]
      simp only [heuristicApproximationSuggest_loop1, hcI, decide_true, if_true, e1, e2, bind, Option.bind, pure,
        bAdd, bSub, bSet, hsign, hcmp, hl, containsSorted_eq f hs]
      by_cases hd : t - (at' f l + at' f rp') < 0
      · have := ih l rp' st (t - (at' f l + at' f rp')) insert (by omega) (by omega)
        simp only [hd, decide_true, if_true]
        exact this
      · simp only [hd, decide_false, Bool.false_eq_true, if_false]
        by_cases hmem : at' f l + (t - (at' f l + at' f rp')) ∈ f
        · simp [hmem]
        · by_cases hu : st.first = true ∨ t - (at' f l + at' f rp') < st.mindelta
          · have := ih (l + 1) (rp' + 1)
              ⟨false, t - (at' f l + at' f rp'), at' f l + (t - (at' f l + at' f rp'))⟩
              (t - (at' f l + at' f rp')) (at' f l + (t - (at' f l + at' f rp'))) (by omega) hrl
            rw [hr] at this
            push_cast at this
            simp [hmem, hu, this]
          · have := ih (l + 1) (rp' + 1) st (t - (at' f l + at' f rp'))
              (at' f l + (t - (at' f l + at' f rp'))) (by omega) hrl
            rw [hr] at this
            push_cast at this
            simp [hmem, hu, this]
    · have hb : approxLoop f t l rp st = st.best := by
        cases rp with
        | zero => simp [approxLoop]
        | succ rp => unfold approxLoop; have : ¬ l ≤ rp := by omega
                     simp [this]
      simp [heuristicApproximationSuggest_loop1, hc, hb]

/-- translated `Approximation.Suggest` on a sorted protosequence = the model's suggestion -/
theorem approx_tie (f : List Int) (t : Int) (hs : f.Pairwise (· ≤ ·)) :
    heuristicApproximationSuggest f t = suggestApprox f t := by
  unfold heuristicApproximationSuggest suggestApprox
  have hfuel : Int.toNat ((len f - 1 - 0) + 1) = f.length := by simp [len]
  have := approx_loop_tie f t hs f.length 0 f.length ⟨true, 0, 0⟩ 0 0 (by omega) (Nat.le_refl _)
  simp only [hfuel, bNewInt, bind, Option.bind, len]
  simpa [len] using this

end AC.HeurTie

namespace AC.HeurTie
open AC.Gen.Program AC.GoPrim AC.BigPrim P

theorem lt_two_pow_bitLenN (x : Nat) : x < 2 ^ bitLenN x := by
  have h := (P.HX.bitLen_spec x).1
  have : P.HX.bitLen x = bitLenN x := rfl
  rwa [this] at h

theorem bCmp_gt_one (k : Int) : (bCmp k 1 > 0) ↔ k > 1 := by
  unfold bCmp
  by_cases h : k < 1
  · simp [h]; omega
  · by_cases h0 : k = 1 <;> simp [h, h0] <;> omega

theorem dyadicK_fuel : ∀ (f f' : Nat) (k : Int), 0 ≤ k → k < 2 ^ f → k < 2 ^ f' → dyadicK f k = dyadicK f' k := by
  intro f
  induction f with
  | zero =>
    intro f' k h0 h1 _
    have hk : ¬ k > 1 := by simp at h1; omega
    cases f' with
    | zero => rfl
    | succ f' => simp [dyadicK, hk]
  | succ f ih =>
    intro f' k h0 h1 h2
    cases f' with
    | zero =>
      have hk : ¬ k > 1 := by simp at h2; omega
      simp [dyadicK, hk]
    | succ f' =>
      simp only [dyadicK]
      by_cases hk : k > 1
      · simp only [hk, if_true]
        have hh : k / 2 < 2 ^ f := by
          have : k < 2 * 2 ^ f := by rw [Int.pow_succ] at h1; omega
          omega
        have hh' : k / 2 < 2 ^ f' := by
          have : k < 2 * 2 ^ f' := by rw [Int.pow_succ] at h2; omega
          omega
        rw [ih f' (k / 2) (by omega) hh hh']
      · simp [hk]

theorem dyadic_loop_tie (n : Int) : ∀ (m : Nat) (k : Int) (ks : List Int), 0 ≤ k → k < 2 ^ m →
    contfracDyadicStrategyK_loop1 m n ks k 1 = some (ks ++ dyadicK m k) := by
  intro m
  induction m with
  | zero =>
    intro k ks h0 h1
    have hk : ¬ k > 1 := by simp at h1; omega
    simp [contfracDyadicStrategyK_loop1, bCmp_gt_one, hk, dyadicK]
  | succ m ih =>
    intro k ks h0 h1
    simp only [contfracDyadicStrategyK_loop1, bCmp_gt_one, dyadicK]
    by_cases hk : k > 1
    · have hh : k / 2 < 2 ^ m := by
        have : k < 2 * 2 ^ m := by rw [Int.pow_succ] at h1; omega
        omega
      have hr : bRsh k 1 = k / 2 := by simp [bRsh, Int.shiftRight_eq_div_pow]
      have := ih (k / 2) (ks ++ [k]) (by omega) hh
      simp only [hk, decide_true, if_true, AC.Gen.Bigint.clone, bSet, hr]
      simpa using this
    · simp [hk]

theorem dyadicK_tie (n : Int) (hn : 0 ≤ n) : contfracDyadicStrategyK n = some (Strategy.K .dyadic n) := by
  unfold contfracDyadicStrategyK Strategy.K
  have hr : bRsh n 1 = n / 2 := by simp [bRsh, Int.shiftRight_eq_div_pow]
  have hk0 : 0 ≤ n / 2 := by omega
  have hfuel : Int.toNat (bBitLen (n / 2) + 1) = bitLenN (n / 2).toNat + 1 := by
    rw [bBitLen_nonneg _ hk0]; omega
  have h1 : n / 2 < 2 ^ (bitLenN (n / 2).toNat + 1) := by
    have := lt_two_pow_bitLenN (n / 2).toNat
    have h2 : ((n / 2).toNat : Int) < 2 ^ (bitLenN (n / 2).toNat + 1) := by
      have : (n / 2).toNat < 2 ^ (bitLenN (n / 2).toNat + 1) :=
        Nat.lt_of_lt_of_le this (Nat.pow_le_pow_right (by omega) (by omega))
      exact_mod_cast this
    omega
  have h2 : n / 2 < 2 ^ (bitLenN n.toNat) := by
    have := lt_two_pow_bitLenN n.toNat
    have h3 : (n.toNat : Int) < 2 ^ (bitLenN n.toNat) := by exact_mod_cast this
    omega
  have hone : AC.Gen.Bigint.one = 1 := rfl
  simp only [hr, hfuel, hone, bind, Option.bind]
  rw [dyadic_loop_tie n _ (n / 2) [] hk0 h1, dyadicK_fuel _ (bitLenN n.toNat) (n / 2) hk0 h1 h2]
  simp

end AC.HeurTie

namespace AC.HeurTie
open AC.Gen.Program AC.GoPrim AC.BigPrim P

theorem div_pow_lt (k : Int) (s m : Nat) (h0 : 0 ≤ k) (hs : 1 ≤ s) (h : k < 2 ^ (m + 1)) : k / 2 ^ s < 2 ^ m := by
  have hpos : (0 : Int) < 2 ^ s := two_pow_pos_int s
  have hq0 : 0 ≤ k / 2 ^ s := Int.ediv_nonneg h0 (by omega)
  have hp : (2 : Int) ≤ 2 ^ s := by
    obtain ⟨s', rfl⟩ : ∃ s', s = s' + 1 := ⟨s - 1, by omega⟩
    have := two_pow_pos_int s'
    rw [Int.pow_succ]; omega
  have h3 : k / 2 ^ s * 2 ≤ k / 2 ^ s * 2 ^ s := Int.mul_le_mul_of_nonneg_left hp hq0
  have h4 : k / 2 ^ s * 2 ^ s ≤ k := Int.ediv_mul_le k (by omega)
  have h5 : k < 2 * 2 ^ m := by rw [Int.pow_succ] at h; omega
  omega

theorem fermatK_fuel : ∀ (f f' : Nat) (k : Int) (s : Nat), 0 ≤ k → 1 ≤ s → k < 2 ^ f → k < 2 ^ f' →
    fermatK f k s = fermatK f' k s := by
  intro f
  induction f with
  | zero =>
    intro f' k s h0 _ h1 _
    have hk : ¬ k > 1 := by simp at h1; omega
    cases f' with
    | zero => rfl
    | succ f' => simp [fermatK, hk]
  | succ f ih =>
    intro f' k s h0 hs h1 h2
    cases f' with
    | zero =>
      have hk : ¬ k > 1 := by simp at h2; omega
      simp [fermatK, hk]
    | succ f' =>
      simp only [fermatK]
      by_cases hk : k > 1
      · simp only [hk, if_true]
        rw [ih f' (k / 2 ^ s) (2 * s) (Int.ediv_nonneg h0 (by have := two_pow_pos_int s; omega)) (by omega)
          (div_pow_lt k s f h0 hs h1) (div_pow_lt k s f' h0 hs h2)]
      · simp [hk]

theorem fermat_loop_tie (n : Int) : ∀ (m : Nat) (k : Int) (s : Nat) (ks : List Int), 0 ≤ k → 1 ≤ s → k < 2 ^ m →
    contfracFermatStrategyK_loop1 m n ks k 1 s = some (ks ++ fermatK m k s) := by
  intro m
  induction m with
  | zero =>
    intro k s ks h0 _ h1
    have hk : ¬ k > 1 := by simp at h1; omega
    simp [contfracFermatStrategyK_loop1, bCmp_gt_one, hk, fermatK]
  | succ m ih =>
    intro k s ks h0 hs h1
    simp only [contfracFermatStrategyK_loop1, bCmp_gt_one, fermatK]
    by_cases hk : k > 1
    · have hr : bRsh k s = k / 2 ^ s := by simp [bRsh, Int.shiftRight_eq_div_pow]
      have := ih (k / 2 ^ s) (s * 2) (ks ++ [k]) (Int.ediv_nonneg h0 (by have := two_pow_pos_int s; omega))
        (by omega) (div_pow_lt k s m h0 hs h1)
      rw [Nat.mul_comm s 2] at this
      simp only [hk, decide_true, if_true, AC.Gen.Bigint.clone, bSet, hr, Nat.mul_comm s 2]
      simpa using this
    · simp [hk]

theorem fermatK_tie (n : Int) (hn : 0 ≤ n) : contfracFermatStrategyK n = some (Strategy.K .fermat n) := by
  unfold contfracFermatStrategyK Strategy.K
  have hr : bRsh n 1 = n / 2 := by simp [bRsh, Int.shiftRight_eq_div_pow]
  have hk0 : 0 ≤ n / 2 := by omega
  have hfuel : Int.toNat (bBitLen (n / 2) + 1) = bitLenN (n / 2).toNat + 1 := by
    rw [bBitLen_nonneg _ hk0]; omega
  have h1 : n / 2 < 2 ^ (bitLenN (n / 2).toNat + 1) := by
    have := lt_two_pow_bitLenN (n / 2).toNat
    have h2 : ((n / 2).toNat : Int) < 2 ^ (bitLenN (n / 2).toNat + 1) := by
      have : (n / 2).toNat < 2 ^ (bitLenN (n / 2).toNat + 1) :=
        Nat.lt_of_lt_of_le this (Nat.pow_le_pow_right (by omega) (by omega))
      exact_mod_cast this
    omega
  have h2 : n / 2 < 2 ^ (bitLenN n.toNat) := by
    have := lt_two_pow_bitLenN n.toNat
    have h3 : (n.toNat : Int) < 2 ^ (bitLenN n.toNat) := by exact_mod_cast this
    omega
  have hone : AC.Gen.Bigint.one = 1 := rfl
  simp only [hr, hfuel, hone, bind, Option.bind]
  rw [fermat_loop_tie n _ (n / 2) 1 [] hk0 (by omega) h1,
    fermatK_fuel _ (bitLenN n.toNat) (n / 2) 1 hk0 (by omega) h1 h2]
  simp

end AC.HeurTie

namespace AC.HeurTie
open AC.Gen.Program AC.GoPrim AC.BigPrim P

theorem total_loop_tie (n : Int) : ∀ (m : Nat) (k : Int) (ks : List Int), n - k ≤ (m : Int) →
    contfracTotalStrategyK_loop1 m n ks k 1 =
      some (ks ++ (List.range (n - k).toNat).map (fun (i : Nat) => k + (i : Int))) := by
  intro m
  induction m with
  | zero =>
    intro k ks h
    have hk : ¬ k < n := by omega
    have h0 : (n - k).toNat = 0 := by omega
    simp [contfracTotalStrategyK_loop1, bCmp_lt, hk, h0]
  | succ m ih =>
    intro k ks h
    simp only [contfracTotalStrategyK_loop1, bCmp_lt]
    by_cases hk : k < n
    · have := ih (k + 1) (ks ++ [k]) (by omega)
      obtain ⟨d, hd⟩ : ∃ d : Nat, (n - k).toNat = d + 1 := ⟨(n - k).toNat - 1, by omega⟩
      have hd' : (n - (k + 1)).toNat = d := by omega
      rw [hd'] at this
      simp only [hk, decide_true, if_true, AC.Gen.Bigint.clone, bSet, bAdd, hd, List.range_succ_eq_map,
        List.map_cons, List.map_map]
      rw [this]
      have hmap : (List.range d).map ((fun (i : Nat) => k + (i : Int)) ∘ Nat.succ) =
          (List.range d).map (fun (i : Nat) => k + 1 + (i : Int)) := by
        apply List.map_congr_left
        intro i _
        simp only [Function.comp]
        push_cast; omega
      simp [hmap]
    · have h0 : (n - k).toNat = 0 := by omega
      simp [hk, h0]

theorem totalK_tie (n : Int) : contfracTotalStrategyK n = some (Strategy.K .total n) := by
  unfold contfracTotalStrategyK Strategy.K
  have hone : AC.Gen.Bigint.one = 1 := rfl
  simp only [bNewInt, hone, bind, Option.bind]
  rw [total_loop_tie n (n - 2).toNat 2 [] (by omega)]
  have : (n - 2).toNat = n.toNat - 2 := by omega
  rw [this]
  simp only [List.nil_append]
  congr 1
  apply List.map_congr_left
  intro i _
  simp; omega

theorem sqrtK_tie (n : Int) (hn : 0 ≤ n) : contfracSqrtStrategyK n = some (Strategy.K .sqrt n) := by
  have : ¬ n < 0 := by omega
  simp [contfracSqrtStrategyK, Strategy.K, bSqrt, this]

end AC.HeurTie
