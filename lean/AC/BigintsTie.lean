import AC.Gen.ProgramFns
import AC.BigintTie
import AC.Merge
/-! # The translated internal/bigints helpers equal their models

`bigintsIndex`, `bigintsContains`, `bigintsClone`, `bigintsConcat`, `bigintsUnique`, `bigintsMergeUnique`,
`bigintsInsertSortedUnique` of `AC/Gen/ProgramFns.lean` are regenerated from internal/bigints/bigints.go on
every run; each is proved equal to the list function the theorems (C08, C19) are stated over. None of
them ever panics or runs out of loop fuel. -/
namespace AC.BigintsTie
open AC.Gen.Program AC.GoPrim AC.BigPrim P

theorem index_loop_tie (n : Int) : ∀ (xs : List Int) (i : Nat) (xs0 : List Int),
    bigintsIndex_loop1 xs (i : Int) n xs0 =
      some (if n ∈ xs then ((i + xs.idxOf n : Nat) : Int) else -1) := by
  intro xs
  induction xs with
  | nil => intro i xs0; simp [bigintsIndex_loop1]
  | cons x xs ih =>
    intro i xs0
    simp only [bigintsIndex_loop1, AC.BigintTie.equal_eq]
    by_cases h : n = x
    · simp [h]
    · have := ih (i + 1) xs0
      push_cast at this
      have hx : (x == n) = false := by simp; exact fun e => h e.symm
      simp only [h, decide_false, Bool.false_eq_true, if_false, this, List.mem_cons, false_or,
        List.idxOf_cons, hx, cond_false]
      by_cases hm : n ∈ xs
      · simp [hm]; omega
      · simp [hm]

theorem index_tie (n : Int) (xs : List Int) :
    bigintsIndex n xs = some (if n ∈ xs then ((xs.idxOf n : Nat) : Int) else -1) := by
  unfold bigintsIndex
  have := index_loop_tie n xs 0 xs
  simpa using this

theorem contains_tie (n : Int) (xs : List Int) : bigintsContains n xs = some (xs.contains n) := by
  unfold bigintsContains
  rw [index_tie]
  by_cases h : n ∈ xs
  · simp [h]
  · simp [h]

theorem clone_tie (xs : List Int) : bigintsClone xs = some xs := by simp [bigintsClone]

theorem concat_tie (xs ys : List Int) : bigintsConcat xs ys = some (xs ++ ys) := by
  simp [bigintsConcat, clone_tie]

theorem idx_last (pre : List Int) (l : Int) : idx (pre ++ [l]) (len (pre ++ [l]) - 1) = some l := by
  have h : len (pre ++ [l]) - 1 = ((pre.length : Nat) : Int) := by simp [len]
  have hn : ¬ ((pre.length : Int) < 0) := by omega
  rw [h]
  simp [idx, hn]

theorem unique_loop_tie : ∀ (xs xs0 pre : List Int) (l : Int),
    bigintsUnique_loop1 xs xs0 (pre ++ [l]) = some (pre ++ uniq (l :: xs)) := by
  intro xs
  induction xs with
  | nil => intro xs0 pre l; simp [bigintsUnique_loop1, uniq]
  | cons x xs ih =>
    intro xs0 pre l
    simp only [bigintsUnique_loop1, idx_last, bind, Option.bind, AC.BigintTie.equal_eq, uniq]
    by_cases h : x = l
    · subst h
      simp only [decide_true, Bool.not_true, Bool.false_eq_true, if_false, if_true]
      exact ih xs0 pre x
    · have hl : ¬ l = x := fun e => h e.symm
      simp only [h, decide_false, Bool.not_false, if_true, hl, if_false]
      have := ih xs0 (pre ++ [l]) x
      simpa using this

theorem unique_tie (xs : List Int) : bigintsUnique xs = some (uniq xs) := by
  unfold bigintsUnique
  cases xs with
  | nil => simp [len, uniq]
  | cons x xs =>
    have hlen : (len (x :: xs) == 0) = false := by simp [len]; omega
    have := unique_loop_tie xs (x :: xs) [] x
    simp only [hlen, Bool.false_eq_true, if_false, makeBigs, bind, Option.bind]
    simpa [setIdx, idx, sliceFrom] using this

theorem bCmp_val (x y : Int) :
    bCmp x y = if x < y then -1 else if x = y then 0 else 1 := rfl

theorem merge_loop_tie : ∀ (fuel : Nat) (xs ys r : List Int), xs.length + ys.length ≤ fuel →
    bigintsMergeUnique_loop1 fuel xs ys r = some (r ++ mergeUnique xs ys) := by
  intro fuel
  induction fuel with
  | zero =>
    intro xs ys r h
    have hx : xs = [] := List.eq_nil_of_length_eq_zero (by omega)
    have hy : ys = [] := List.eq_nil_of_length_eq_zero (by omega)
    subst hx; subst hy
    simp [bigintsMergeUnique_loop1, len, mergeUnique]
  | succ fuel ih =>
    intro xs ys r h
    cases xs with
    | nil => simp [bigintsMergeUnique_loop1, len, mergeUnique]
    | cons x xs =>
      cases ys with
      | nil => simp [bigintsMergeUnique_loop1, len, mergeUnique]
      | cons y ys =>
        have hc : (decide (len (x :: xs) > 0) && decide (len (y :: ys) > 0)) = true := by
          simp [len]
        have i1 : idx (x :: xs) 0 = some x := by simp [idx]
        have i2 : idx (y :: ys) 0 = some y := by simp [idx]
        have s1 : sliceFrom (x :: xs) 1 = some xs := by simp [sliceFrom]
        have s2 : sliceFrom (y :: ys) 1 = some ys := by simp [sliceFrom]
        simp only [List.length_cons] at h
        rw [mergeUnique]
        simp only [bigintsMergeUnique_loop1, hc, if_true, i1, i2, s1, s2, bind, Option.bind, bCmp_val]
        by_cases h1 : x < y
        · have := ih xs (y :: ys) (r ++ [x]) (by simp; omega)
          simp [h1, this]
        · by_cases h2 : x = y
          · subst h2
            have := ih xs ys (r ++ [x]) (by omega)
            simp [this]
          · have := ih (x :: xs) ys (r ++ [y]) (by simp; omega)
            simp [h1, h2, this]

theorem mergeUnique_tie (xs ys : List Int) : bigintsMergeUnique xs ys = some (mergeUnique xs ys) := by
  unfold bigintsMergeUnique
  have hf : Int.toNat (len xs + len ys) = xs.length + ys.length := by simp [len]; omega
  have := merge_loop_tie (xs.length + ys.length) xs ys [] (Nat.le_refl _)
  simp only [makeBigs, bind, Option.bind, hf]
  simpa using this

theorem insertSortedUnique_tie (xs : List Int) (x : Int) :
    bigintsInsertSortedUnique xs x = some (insertSortedUnique xs x) := by
  simp [bigintsInsertSortedUnique, mergeUnique_tie, insertSortedUnique]

end AC.BigintsTie

namespace AC.BigintsTie
open AC.Gen.Program AC.GoPrim AC.BigPrim P P.HX

theorem bitsSet_loop_tie (x : Nat) : ∀ (n i : Nat) (set : List Nat),
    bigintBitsSet_loop1 n (i : Int) (x : Int) (set.map Int.ofNat) =
      some ((set ++ (List.range' i n).filter (fun j => x.testBit j)).map Int.ofNat) := by
  intro n
  induction n with
  | zero => intro i set; simp [bigintBitsSet_loop1]
  | succ n ih =>
    intro i set
    have hi : ¬ ((i : Int) < 0) := by omega
    simp only [bigintBitsSet_loop1, bBit, hi, if_false, Int.toNat_natCast, bind, Option.bind,
      List.range'_succ, List.filter_cons]
    by_cases hb : x.testBit i = true
    · have := ih (i + 1) (set ++ [i])
      push_cast at this
      simp only [hb, if_true]
      simpa using this
    · have hb' : x.testBit i = false := by simpa using hb
      have := ih (i + 1) set
      push_cast at this
      simp only [hb', Bool.false_eq_true, if_false]
      simpa using this

/-- translated `bigint.BitsSet` on a non-negative integer = the model -/
theorem bitsSet_tie (x : Nat) : bigintBitsSet (x : Int) = some ((bitsSet x).map Int.ofNat) := by
  unfold bigintBitsSet bitsSet
  have hl : Int.toNat (bBitLen (x : Int) - 0) = bitLen x := by simp [bBitLen]
  have := bitsSet_loop_tie x (bitLen x) 0 []
  simp only [hl, bind, Option.bind]
  rw [List.range_eq_range']
  simpa using this

end AC.BigintsTie

namespace AC.BigintsTie
open AC.Gen.Program AC.GoPrim AC.BigPrim P P.HX

theorem bCmp_le_zero' (a b : Int) : (decide (bCmp a b ≤ 0)) = decide (a ≤ b) := by
  unfold bCmp
  by_cases h : a < b
  · have : a ≤ b := by omega
    simp [h, this]
  · by_cases h2 : a = b
    · simp [h2]
    · have : ¬ a ≤ b := by omega
      simp [h, h2, this]

theorem pow2_loop_tie (x : Int) : ∀ (fuel p : Nat) (hp : 0 < p) (ps : List Nat),
    x < (p : Int) * 2 ^ fuel →
    bigintPow2UpTo_loop1 fuel x (p : Int) (ps.map Int.ofNat) =
      some ((ps ++ pow2Loop x p hp).map Int.ofNat) := by
  intro fuel
  induction fuel with
  | zero =>
    intro p hp ps hx
    have hc : ¬ ((p : Int) ≤ x) := by simp at hx; omega
    rw [pow2Loop]
    simp [bigintPow2UpTo_loop1, bCmp_le_zero', hc]
  | succ fuel ih =>
    intro p hp ps hx
    rw [pow2Loop]
    simp only [bigintPow2UpTo_loop1, bCmp_le_zero']
    by_cases hc : (p : Int) ≤ x
    · have hx' : x < ((2 * p : Nat) : Int) * 2 ^ fuel := by
        have : ((2 * p : Nat) : Int) * 2 ^ fuel = (p : Int) * 2 ^ (fuel + 1) := by
          push_cast; rw [Int.pow_succ]; ac_rfl
        rw [this]; exact hx
      have := ih (2 * p) (by omega) (ps ++ [p]) hx'
      have hl : bLsh (p : Int) 1 = ((2 * p : Nat) : Int) := by simp [bLsh]; omega
      simp only [hc, decide_true, if_true, AC.Gen.Bigint.clone, bSet, hl]
      simpa using this
    · simp [hc]

/-- translated `bigint.Pow2UpTo` = the model, for every integer (empty for `x ≤ 0`) -/
theorem pow2UpTo_tie (x : Int) : bigintPow2UpTo x = some ((pow2UpTo x).map Int.ofNat) := by
  unfold bigintPow2UpTo pow2UpTo
  have h1 : AC.Gen.Bigint.one = ((1 : Nat) : Int) := rfl
  have hf : x < ((1 : Nat) : Int) * 2 ^ (Int.toNat (bBitLen x + 1)) := by
    have hb : Int.toNat (bBitLen x + 1) = bitLen x.natAbs + 1 := by simp [bBitLen]
    rw [hb]
    have := (bitLen_spec x.natAbs).1
    have h2 : (x.natAbs : Int) < 2 ^ (bitLen x.natAbs + 1) := by
      have : x.natAbs < 2 ^ (bitLen x.natAbs + 1) :=
        Nat.lt_of_lt_of_le this (Nat.pow_le_pow_right (by omega) (by omega))
      exact_mod_cast this
    have h3 : x ≤ (x.natAbs : Int) := by omega
    simp; omega
  have := pow2_loop_tie x _ 1 (by omega) [] hf
  simp only [h1, bind, Option.bind]
  simpa using this

end AC.BigintsTie
