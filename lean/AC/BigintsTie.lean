import AC.Gen.ProgramFns
import AC.BigintTie
import AC.Merge
/-! # The translated internal/bigints helpers equal their models

`bigintsIndex`, `bigintsContains`, `bigintsClone`, `bigintsConcat`, `bigintsUnique`, `bigintsMergeUnique`,
`bigintsInsertSortedUnique` of `AC/Gen/ProgramFns.lean` are regenerated from internal/bigints/bigints.go on
every run; each is proved equal to the list function the theorems (C08, C19) are stated over. None of
them ever panics or runs out of loop fuel. -/
namespace AC.BigintsTie
open AC.Gen.Program AC.GoPrim AC.BigPrim P

theorem index_loop_tie (n : Int) : ∀ (xs : List Int) (i : Nat) (xs0 : List Int),
    bigintsIndex_loop1 xs (i : Int) n xs0 =
      some (if n ∈ xs then ((i + xs.idxOf n : Nat) : Int) else -1) := by
  intro xs
  induction xs with
  | nil => intro i xs0; simp [bigintsIndex_loop1]
  | cons x xs ih =>
    intro i xs0
    simp only [bigintsIndex_loop1, AC.BigintTie.equal_eq]
    by_cases h : n = x
    · simp [h]
    · have := ih (i + 1) xs0
      push_cast at this
      have hx : (x == n) = false := by simp; exact fun e => h e.symm
      simp only [h, decide_false, Bool.false_eq_true, if_false, this, List.mem_cons, false_or,
        List.idxOf_cons, hx, cond_false]
      by_cases hm : n ∈ xs
      · simp [hm]; omega
      · simp [hm]

theorem index_tie (n : Int) (xs : List Int) :
    bigintsIndex n xs = some (if n ∈ xs then ((xs.idxOf n : Nat) : Int) else -1) := by
  unfold bigintsIndex
  have := index_loop_tie n xs 0 xs
  simpa using this

theorem contains_tie (n : Int) (xs : List Int) : bigintsContains n xs = some (xs.contains n) := by
  unfold bigintsContains
  rw [index_tie]
  by_cases h : n ∈ xs
  · simp [h]
  · simp [h]

theorem clone_tie (xs : List Int) : bigintsClone xs = some xs := by simp [bigintsClone]

theorem concat_tie (xs ys : List Int) : bigintsConcat xs ys = some (xs ++ ys) := by
  simp [bigintsConcat, clone_tie]

theorem idx_last (pre : List Int) (l : Int) : idx (pre ++ [l]) (len (pre ++ [l]) - 1) = some l := by
  have h : len (pre ++ [l]) - 1 = ((pre.length : Nat) : Int) := by simp [len]
  have hn : ¬ ((pre.length : Int) < 0) := by omega
  rw [h]
  simp [idx, hn]

theorem unique_loop_tie : ∀ (xs xs0 pre : List Int) (l : Int),
    bigintsUnique_loop1 xs xs0 (pre ++ [l]) = some (pre ++ uniq (l :: xs)) := by
  intro xs
  induction xs with
  | nil => intro xs0 pre l; simp [bigintsUnique_loop1, uniq]
  | cons x xs ih =>
    intro xs0 pre l
    simp only [bigintsUnique_loop1, idx_last, bind, Option.bind, AC.BigintTie.equal_eq, uniq]
    by_cases h : x = l
    · subst h
      simp only [decide_true, Bool.not_true, Bool.false_eq_true, if_false, if_true]
      exact ih xs0 pre x
    · have hl : ¬ l = x := fun e => h e.symm
      simp only [h, decide_false, Bool.not_false, if_true, hl, if_false]
      have := ih xs0 (pre ++ [l]) x
      simpa using this

theorem unique_tie (xs : List Int) : bigintsUnique xs = some (uniq xs) := by
  unfold bigintsUnique
  cases xs with
  | nil => simp [len, uniq]
  | cons x xs =>
    have hlen : (len (x :: xs) == 0) = false := by simp [len]; omega
    have := unique_loop_tie xs (x :: xs) [] x
    simp only [hlen, Bool.false_eq_true, if_false, makeBigs, bind, Option.bind]
    simpa [setIdx, idx, sliceFrom] using this

theorem bCmp_val (x y : Int) :
    bCmp x y = if x < y then -1 else if x = y then 0 else 1 := rfl

theorem merge_loop_tie : ∀ (fuel : Nat) (xs ys r : List Int), xs.length + ys.length ≤ fuel →
    bigintsMergeUnique_loop1 fuel xs ys r = some (r ++ mergeUnique xs ys) := by
  intro fuel
  induction fuel with
  | zero =>
    intro xs ys r h
    have hx : xs = [] := List.eq_nil_of_length_eq_zero (by omega)
    have hy : ys = [] := List.eq_nil_of_length_eq_zero (by omega)
    subst hx; subst hy
    simp [bigintsMergeUnique_loop1, len, mergeUnique]
  | succ fuel ih =>
    intro xs ys r h
    cases xs with
    | nil => simp [bigintsMergeUnique_loop1, len, mergeUnique]
    | cons x xs =>
      cases ys with
      | nil => simp [bigintsMergeUnique_loop1, len, mergeUnique]
      | cons y ys =>
        have hc : (decide (len (x :: xs) > 0) && decide (len (y :: ys) > 0)) = true := by
          simp [len]
        have i1 : idx (x :: xs) 0 = some x := by simp [idx]
        have i2 : idx (y :: ys) 0 = some y := by simp [idx]
        have s1 : sliceFrom (x :: xs) 1 = some xs := by simp [sliceFrom]
        have s2 : sliceFrom (y :: ys) 1 = some ys := by simp [sliceFrom]
        simp only [List.length_cons] at h
        rw [mergeUnique]
        simp only [bigintsMergeUnique_loop1, hc, if_true, i1, i2, s1, s2, bind, Option.bind, bCmp_val]
        by_cases h1 : x < y
        · have := ih xs (y :: ys) (r ++ [x]) (by simp; omega)
          simp [h1, this]
        · by_cases h2 : x = y
          · subst h2
            have := ih xs ys (r ++ [x]) (by omega)
            simp [this]
          · have := ih (x :: xs) ys (r ++ [y]) (by simp; omega)
            simp [h1, h2, this]

theorem mergeUnique_tie (xs ys : List Int) : bigintsMergeUnique xs ys = some (mergeUnique xs ys) := by
  unfold bigintsMergeUnique
  have hf : Int.toNat (len xs + len ys) = xs.length + ys.length := by simp [len]; omega
  have := merge_loop_tie (xs.length + ys.length) xs ys [] (Nat.le_refl _)
  simp only [makeBigs, bind, Option.bind, hf]
  simpa using this

theorem insertSortedUnique_tie (xs : List Int) (x : Int) :
    bigintsInsertSortedUnique xs x = some (insertSortedUnique xs x) := by
  simp [bigintsInsertSortedUnique, mergeUnique_tie, insertSortedUnique]

end AC.BigintsTie
