import AC.Build
import AC.Naming
import AC.Chain
import AC.Gen.BuildConsts
/-! # Executable models of `acc.Decompile` and `acc.Build` (C04, C16)

`decompileX` mirrors acc/decompile.go, `buildX` mirrors acc/build.go together with the three passes it
runs (`pass.ReadCounts`, `pass.NameByteValues = NameBinaryValues(8, "_%b")`, `pass.NameXRuns =
NameBinaryRuns("x%d")`, both through `NameOperands`, which first compiles and evaluates the program).

Go behaviours mirrored exactly (DESIGN.md Appendix B, "acc language"):
* `Program.ReadCounts` (used by `Decompile`) indexes a slice of length `len(p)+1`: an operand above
  `len(p)` is a runtime panic (`Err.panic`); operands are otherwise not checked by `Decompile`.
* `NameOperands` evaluates the program first: an IR that does not compile makes `Build` fail
  (`Err.compile`).  It skips operands that already have a name, so a value of at most 8 bits is `_b…`
  even if it is also of the form `2^n-1`.
* An operand that no pass named has `Identifier == ""`; `builder.name` then yields `i<index>`.
* An instruction's result is inlined iff it is unnamed, `pass.ReadCounts` (an `Add{X,X}` counts twice)
  says it is read once, the next instruction reads it, and the running operator count is below
  `complexitylimit = 5`; the counter is incremented per instruction and reset by a commit.
* `builder.add` moves the operator sub-expression to the first operand and fails with an assertion
  if both operands are operator expressions (`Err.assert`; unreachable for compiling IR, see
  `loopX_ok`).
* `builder.operand` yields `ast.Operand(index)` for an index that has no entry in `b.expr` — in
  particular index 0 is always printed as the operand `1`, although the passes name it `_1`.
* `CanonicalizeOperands` does not replace instruction *outputs*: an output object that is not the
  first occurrence of its index stays unnamed (`canonOut`); this happens only when two instructions
  have the same output index, which compiles only with a shift by zero.
* After the loop: no statement ⇒ the single statement `return 1` (fix F1); the name of the last statement is
  cleared. -/
namespace P.BuildX
open P.Sem P.Naming

inductive Err | panic | compile | assert
deriving Repr, DecidableEq

abbrev IR := List Inst
abbrev Script := List Stmt

/-- `complexitylimit` of acc/build.go (re-extracted from the source on every check) -/
def complexityLimit : Nat := AC.Gen.complexityLimit

/-! ## Decompile -/

/-- `acc.Decompile`: `p.ReadCounts()` panics on an operand above `len(p)`; otherwise the look-ahead
    folding of `P.Sem.decompile`. -/
def decompileX (p : Prog) : Except Err IR :=
  if p.all (fun o => decide (o.1 ≤ p.length) && decide (o.2 ≤ p.length)) then .ok (decompile p)
  else .error .panic

/-- `pass.CheckDanglingInputs`: every input is 0 or the output of an earlier instruction -/
def danglingFrom : List Nat → IR → Bool
  | _, [] => true
  | outs, inst :: r => (inputs inst.op).all (fun x => outs.contains x) && danglingFrom (inst.out :: outs) r

def danglingOK (ir : IR) : Bool := danglingFrom [0] ir

/-! ## Naming passes -/

/-- the identifier the two naming passes leave on the canonical operand of index `i` (`[]` = none):
    `_%b` when `BitLen ≤ 8` (`AC.Gen.byteBits`, re-extracted), else `x%d` when the value is `2^BitLen - 1`, else nothing -/
def identOf (chain : List Int) (i : Nat) : List Char :=
  if i < chain.length then
    let x := (at' chain i).toNat
    if bitLen x ≤ AC.Gen.byteBits then '_' :: Nat.toDigits 2 x
    else if x = 2 ^ bitLen x - 1 then 'x' :: Nat.toDigits 10 (bitLen x)
    else []
  else []

/-- `out.Identifier == ""` -/
def anon (chain : List Int) (i : Nat) : Bool := (identOf chain i).isEmpty

/-- `builder.name`: the identifier if there is one, otherwise `i<index>` -/
def nameL (chain : List Int) (i : Nat) : List Char :=
  if (identOf chain i).isEmpty then 'i' :: Nat.toDigits 10 i else identOf chain i

def nameS (chain : List Int) (i : Nat) : String := String.ofList (nameL chain i)

/-! ## The builder -/

/-- `builder.operator`, including the assertion of `builder.add` -/
def opExprX (E : Nat → Expr) : Sem.Op → Except Err Expr
  | .add x y => if isOpE (E x) && isOpE (E y) then .error .assert else .ok (opExpr E (.add x y))
  | op => .ok (opExpr E op)

/-- the inlining preference of one loop iteration: unnamed and running complexity below the limit
    (`cx` is the counter *after* the increment at the top of the loop body) -/
def wantX (chain : List Int) (cx : Nat) (out : Nat) : Bool := anon chain out && decide (cx < complexityLimit)

/-- `builder.name` for an output object that is **not** the canonical operand of its index: the
    passes never named it, so it is `i<index>` -/
def fallbackS (i : Nat) : String := String.ofList ('i' :: Nat.toDigits 10 i)

/-- is the output object of `inst` the canonical operand of its index?  `CanonicalizeOperands` makes
    the *first* occurrence of an index (inputs of an instruction before its output, instructions in
    order) canonical and replaces instruction inputs but **not outputs**; the naming passes name
    canonical objects only. `seen` = every operand index of the earlier instructions. (For an IR
    program that compiles and has no shift by zero every output is canonical, `loopX_ok`.) -/
def canonOut (seen : List Nat) (inst : Inst) : Bool :=
  !(seen.contains inst.out || (inputs inst.op).contains inst.out)

/-- one iteration of `builder.process`; state = builder state and complexity counter -/
def stepX (chain : List Int) (full : IR) (seen : List Nat) (st : BS × Nat) (inst : Inst) (next : Option Inst) :
    Except Err (BS × Nat) :=
  let cx := st.2 + 1
  let canon := canonOut seen inst
  let nm : Nat → String := if canon then nameS chain else fallbackS
  let want : Nat → Bool := if canon then wantX chain cx else fun _ => decide (cx < complexityLimit)
  match opExprX st.1.E inst.op with
  | .error e => .error e
  | .ok _ =>
    .ok (bStep nm want full st.1 inst next, if inlineCond want full inst next then cx else 0)

def loopX (chain : List Int) (full : IR) : List Nat → BS × Nat → List Inst → Except Err (BS × Nat)
  | _, st, [] => .ok st
  | seen, st, inst :: r =>
    match stepX chain full seen st inst r.head? with
    | .error e => .error e
    | .ok st' => loopX chain full (inst.out :: (inputs inst.op ++ seen)) st' r

/-- the end of `builder.process`: `return 1` for an empty statement list, then clear the last name -/
def finish : List Stmt → Script
  | [] => [⟨"", .operand 0⟩]
  | st :: r => (st :: r).dropLast ++ [⟨"", ((st :: r).getLast (by simp)).e⟩]

def initBS : BS := ⟨[], fun k => .operand k⟩

/-- `acc.Build` on an unnamed IR program -/
def buildX (ir : IR) : Except Err Script :=
  match cAll [] ir with
  | none => .error .compile
  | some p =>
    match loopX (evaluate p) ir [] (initBS, 0) ir with
    | .error e => .error e
    | .ok st => .ok (finish st.1.stmts)

end P.BuildX
