import AC.Bits
/-! C09 prototype: `SlidingWindow.Decompose`. -/
namespace P.Bits

structure Term where
  d : Nat
  e : Nat
deriving Repr, DecidableEq

def value (s : List Term) : Nat := (s.map fun t => t.d * 2 ^ t.e).sum

/-- `for x.Bit(l) == 0 { l++ }`, bounded by the known set bit at `top` -/
def advance (x : Nat) : Nat → Nat → Nat
  | 0, l => l
  | fuel+1, l => if x.testBit l then l else advance x fuel (l+1)

/-- scan from the top; `hp` = number of low bit positions still to process. Terms are produced
    from the highest exponent down (the Go code sorts them ascending afterwards). -/
def sliding (x K : Nat) : Nat → Nat → List Term
  | 0, _ => []
  | _, 0 => []
  | fuel+1, hp+1 =>
    if x.testBit hp then
      let l0 := hp + 1 - K
      let l := advance x (hp - l0) l0
      ⟨x / 2 ^ l % 2 ^ (hp + 1 - l), l⟩ :: sliding x K fuel l
    else sliding x K fuel hp

def slidingWindow (x K : Nat) : List Term := (sliding x K (Nat.log2 x + 2) (Nat.log2 x + 1)).reverse


theorem advance_spec (x top : Nat) (htop : x.testBit top = true) :
    ∀ (fuel l : Nat), l ≤ top → top - l ≤ fuel →
    l ≤ advance x fuel l ∧ advance x fuel l ≤ top ∧ x.testBit (advance x fuel l) = true := by
  intro fuel
  induction fuel with
  | zero =>
    intro l hl hf
    have : l = top := by omega
    subst this
    simp [advance, htop]
  | succ f ih =>
    intro l hl hf
    unfold advance
    by_cases hb : x.testBit l = true
    · simp [hb, hl]
    · simp only [hb, Bool.false_eq_true, if_false]
      have hne : l ≠ top := by intro e; subst e; exact hb htop
      obtain ⟨a1, a2, a3⟩ := ih (l+1) (by omega) (by omega)
      exact ⟨by omega, a2, a3⟩

theorem mod_succ_of_bit (x n : Nat) : x % 2 ^ (n+1) = x % 2 ^ n + 2 ^ n * (if x.testBit n then 1 else 0) := by
  rw [Nat.pow_succ, Nat.mod_mul]
  congr 2
  rw [Nat.testBit_eq_decide_div_mod_eq]
  have : x / 2 ^ n % 2 = 0 ∨ x / 2 ^ n % 2 = 1 := by omega
  rcases this with h | h <;> simp [h]

/-- **C09 for the sliding window**: exact sum of the processed low part, every term odd, at most
    `K` bits wide, inside the processed range, and exponents strictly decreasing along the scan
    with no overlap. -/
theorem sliding_spec (x K : Nat) (hK : 1 ≤ K) : ∀ (fuel hp : Nat), hp ≤ fuel →
    value (sliding x K fuel hp) = x % 2 ^ hp ∧
    (∀ t ∈ sliding x K fuel hp, t.d % 2 = 1 ∧ t.d < 2 ^ K ∧ t.d * 2 ^ t.e < 2 ^ hp ∧ 0 < t.d) ∧
    (sliding x K fuel hp).Pairwise (fun a b => b.d * 2 ^ b.e < 2 ^ a.e) := by
  intro fuel
  induction fuel with
  | zero =>
    intro hp h
    have : hp = 0 := by omega
    subst this
    simp [sliding, value, Nat.mod_one]
  | succ f ih =>
    intro hp h
    cases hp with
    | zero => simp [sliding, value, Nat.mod_one]
    | succ hp =>
      unfold sliding
      by_cases hb : x.testBit hp = true
      · simp only [hb, if_true]
        obtain ⟨hl0, hltop, hlbit⟩ := advance_spec x hp hb (hp - (hp + 1 - K)) (hp + 1 - K) (by omega) (by omega)
        generalize advance x (hp - (hp + 1 - K)) (hp + 1 - K) = l at *
        obtain ⟨ihv, iht, ihp⟩ := ih l (by omega)
        have hw : hp + 1 - l ≤ K := by omega
        have hsplit : x % 2 ^ (hp + 1) = x % 2 ^ l + 2 ^ l * (x / 2 ^ l % 2 ^ (hp + 1 - l)) := by
          have : 2 ^ (hp + 1) = 2 ^ l * 2 ^ (hp + 1 - l) := by rw [← Nat.pow_add]; congr 1; omega
          rw [this, Nat.mod_mul]
        have hdlt : x / 2 ^ l % 2 ^ (hp + 1 - l) < 2 ^ (hp + 1 - l) := Nat.mod_lt _ (Nat.pow_pos (by omega))
        have hodd : (x / 2 ^ l % 2 ^ (hp + 1 - l)) % 2 = 1 := by
          rw [Nat.mod_two_eq_one_iff_testBit_zero, Nat.testBit_mod_two_pow, Nat.testBit_div_two_pow]
          simp [hlbit]; omega
        refine ⟨?_, ?_, ?_⟩
        · simp only [value, List.map_cons, List.sum_cons] at ihv ⊢
          rw [ihv, hsplit, Nat.mul_comm (2 ^ l), Nat.add_comm]
        · intro t ht
          rcases List.mem_cons.mp ht with rfl | ht
          · refine ⟨hodd, ?_, ?_, by show 0 < x / 2 ^ l % 2 ^ (hp + 1 - l); omega⟩
            · exact Nat.lt_of_lt_of_le hdlt (Nat.pow_le_pow_right (by omega) hw)
            · simp only []
              have : 2 ^ (hp + 1) = 2 ^ (hp + 1 - l) * 2 ^ l := by rw [← Nat.pow_add]; congr 1; omega
              rw [this]
              exact Nat.mul_lt_mul_of_pos_right hdlt (Nat.pow_pos (by omega))
          · obtain ⟨h1, h2, h3, h4⟩ := iht t ht
            refine ⟨h1, h2, ?_, h4⟩
            have : 2 ^ l ≤ 2 ^ (hp + 1) := Nat.pow_le_pow_right (by omega) (by omega)
            omega
        · apply List.pairwise_cons.mpr
          refine ⟨?_, ihp⟩
          intro t ht
          exact (iht t ht).2.2.1
      · simp only [hb, Bool.false_eq_true, if_false]
        obtain ⟨ihv, iht, ihp⟩ := ih hp (by omega)
        have hmod : x % 2 ^ (hp + 1) = x % 2 ^ hp := by
          rw [mod_succ_of_bit]; simp [hb]
        refine ⟨by rw [ihv, hmod], ?_, ihp⟩
        intro t ht
        obtain ⟨h1, h2, h3, h4⟩ := iht t ht
        refine ⟨h1, h2, ?_, h4⟩
        have : 2 ^ hp ≤ 2 ^ (hp + 1) := Nat.pow_le_pow_right (by omega) (by omega)
        omega

end P.Bits
