import AC.HelpersX
/-! # math/big primitives used by the translated helpers (`AC/Gen/BigintFns.lean`)

The translator (`harness/cmd/extract/c19.go`) turns the straight-line functions of
internal/bigint/bigint.go into Lean terms over these primitives.  Their meaning is the documented
behaviour of the `math/big` methods of the same name on unbounded integers (trusted, DESIGN §3):
`Lsh`/`Rsh` are multiplication / floor division by a power of two (`Rsh` is an arithmetic shift),
`And` is the two's-complement conjunction (`P.HX.landI`, by sign cases as math/big implements it),
`Cmp` is the three-way comparison, `BitLen` the bit length of the absolute value, `Sign` the sign. -/
namespace AC.BigPrim

def bNewInt (k : Int) : Int := k
def bSet (x : Int) : Int := x
def bAdd (x y : Int) : Int := x + y
def bSub (x y : Int) : Int := x - y
def bLsh (x : Int) (n : Nat) : Int := x * (2 : Int) ^ n
def bRsh (x : Int) (n : Nat) : Int := x >>> n
def bAnd (x y : Int) : Int := P.HX.landI x y
def bCmp (x y : Int) : Int := if x < y then -1 else if x = y then 0 else 1
def bBitLen (x : Int) : Int := (P.HX.bitLen x.natAbs : Nat)
def bSign (x : Int) : Int := if x < 0 then -1 else if x = 0 then 0 else 1

end AC.BigPrim
