import AC.AllocXProof
/-! C17: the number of declared temporaries is at most the number of variables the allocation
creates, which is at most the peak number of simultaneously live chain values
(`AC.PeakLive.peakLive`, an independent position-based count). -/
namespace AC.AllocX
open P.Alloc AC.PeakLive

/-! ### every variable number is below `n` -/
structure Small (s : St) : Prop where
  avail_lt : ∀ w ∈ s.avail, w < s.n
  var_lt : ∀ i v, s.var i = some v → v < s.n

theorem small_allocate (s : St) (i : Nat) (h : Small s) : Small (s.allocate i) := by
  unfold St.allocate
  cases hv : s.var i with
  | some v => exact h
  | none =>
    cases hg : s.avail.getLast? with
    | some w =>
      refine ⟨?_, ?_⟩
      · intro u hu; exact h.avail_lt u (List.dropLast_subset _ hu)
      · intro j v hj
        simp only at hj
        split at hj
        · cases hj; exact h.avail_lt _ (getLast?_mem hg)
        · exact h.var_lt j v hj
    | none =>
      refine ⟨?_, ?_⟩
      · intro u hu
        have := h.avail_lt u hu
        show u < s.n + 1; omega
      · intro j v hj
        simp only at hj
        show v < s.n + 1
        split at hj
        · cases hj; omega
        · have := h.var_lt j v hj; omega

theorem small_foldl_allocate : ∀ (xs : List Nat) (s : St), Small s → Small (xs.foldl St.allocate s) := by
  intro xs
  induction xs with
  | nil => intro s h; exact h
  | cons x r ih => intro s h; exact ih _ (small_allocate s x h)

theorem small_step (s : St) (inst : Inst) (h : Small s) : Small (step s inst) := by
  unfold step
  apply small_foldl_allocate
  have h1 := small_allocate s inst.out h
  obtain ⟨v, hv⟩ := allocate_self s inst.out
  simp only [hv, Option.getD_some]
  refine ⟨?_, h1.var_lt⟩
  intro w hw
  rcases List.mem_append.mp hw with hw | hw
  · exact h1.avail_lt w hw
  · simp at hw; subst hw; exact h1.var_lt _ _ hv

theorem small_run : ∀ (ir : List Inst), Small (run ir) := by
  intro ir
  induction ir with
  | nil => exact ⟨by intro w hw; simp [run, init] at hw, by intro i v h; simp [run, init] at h⟩
  | cons a r ih => rw [run_cons]; exact small_step _ a ih

theorem regOf_t_var (ir : List Inst) (i v : Nat) (h : regOf ir i = .t v) :
    v = ((run ir).var i).getD 0 := by
  unfold regOf at h
  simp only at h
  split at h
  · cases h
  · split at h
    · cases h
    · injection h with h; exact h.symm

/-- the temporaries are in bijection with variables, hence at most `n` -/
theorem tmap_length_le (ir : List Inst) : (buildA (regOf ir) (indexes ir)).length ≤ (run ir).n := by
  have hnd := buildA_nodup (regOf ir) (indexes ir)
  have hsub : buildA (regOf ir) (indexes ir) ⊆ List.range (run ir).n := by
    intro v hv
    obtain ⟨i, hi, hr⟩ := buildA_origin _ _ v hv
    obtain ⟨w, hw⟩ := run_var_some ir i ((mem_indexes ir i).mp hi)
    have := regOf_t_var ir i v hr
    rw [hw] at this
    simp only [Option.getD_some] at this
    subst this
    exact List.mem_range.mpr ((small_run ir).var_lt i _ hw)
  have := hnd.length_le_of_subset hsub
  simpa using this

/-! ### liveness by position -/
theorem mem_dedup (a : Nat) : ∀ (l : List Nat), a ∈ dedup l ↔ a ∈ l := by
  intro l
  induction l with
  | nil => simp [dedup]
  | cons b r ih =>
    unfold dedup
    split
    · rename_i hc
      have hb : b ∈ r := by simpa using hc
      rw [ih]
      constructor
      · intro h; exact List.mem_cons_of_mem _ h
      · intro h
        rcases List.mem_cons.mp h with rfl | h
        · exact hb
        · exact h
    · simp [ih]

theorem live_not_out : ∀ (suf : List Inst), WFs suf → ∀ j ∈ liveAt suf, j ∉ outs suf := by
  intro suf
  induction suf with
  | nil => intro _ j hj; simp [liveAt] at hj
  | cons a r ih =>
    intro hw j hj
    obtain ⟨_, hin, hr⟩ := hw
    simp only [liveAt, liveBefore', List.mem_append, List.mem_reverse, List.mem_filter] at hj
    simp only [outs, List.map_cons, List.mem_cons]
    rcases hj with hj | ⟨hj, hne⟩
    · obtain ⟨h1, h2⟩ := hin j hj
      intro h
      rcases h with h | h
      · exact h1 h
      · exact h2 (by simpa [outs] using h)
    · intro h
      rcases h with h | h
      · simp [h] at hne
      · exact ih hr j hj (by simpa [outs] using h)

theorem live_prefix : ∀ (pre suf : List Inst) (j : Nat), j ∈ liveAt suf →
    j ∈ liveAt (pre ++ suf) ∨ j ∈ outs pre := by
  intro pre
  induction pre with
  | nil => intro suf j h; exact Or.inl h
  | cons a p ih =>
    intro suf j h
    rcases ih suf j h with h | h
    · by_cases hja : j = a.out
      · right; simp [outs, hja]
      · left
        simp only [List.cons_append, liveAt, liveBefore', List.mem_append, List.mem_filter]
        right; exact ⟨h, by simpa using hja⟩
    · right; simp only [outs, List.map_cons, List.mem_cons]; right; simpa [outs] using h

theorem no_early_reader : ∀ (pre : List Inst) (inst : Inst) (suf : List Inst),
    WFs (pre ++ inst :: suf) → ∀ i' ∈ pre ++ [inst], inst.out ∉ i'.op.inputs := by
  intro pre
  induction pre with
  | nil =>
    intro inst suf hw i' hi' hc
    simp at hi'; subst hi'
    exact (hw.2.1 _ hc).1 rfl
  | cons a p ih =>
    intro inst suf hw i' hi' hc
    simp only [List.cons_append, List.mem_cons] at hi'
    rcases hi' with rfl | hi'
    · have := (hw.2.1 _ hc).2
      apply this
      simp [outs]
    · exact ih inst suf hw.2.2 i' hi' hc

theorem allUsed_spec (ir : List Inst) (h : allUsedB ir = true) :
    ∀ inst ∈ ir, inst.out = lastOutB ir ∨ ∃ j ∈ ir, inst.out ∈ j.op.inputs := by
  intro inst hi
  simp only [allUsedB, List.all_eq_true, Bool.or_eq_true, beq_iff_eq, List.any_eq_true,
    List.contains_iff_mem] at h
  exact h inst hi

/-- distinct members of a list of values that are all live at point `p` are at most `liveCount` -/
theorem distinctLE_liveCount (ir : List Inst) (p : Nat) (L : List Nat)
    (h : ∀ x ∈ L, x ∈ values ir ∧ liveAtPoint ir p x = true) : DistinctLE L (liveCount ir p) := by
  intro D hnd hD
  unfold liveCount
  apply hnd.length_le_of_subset
  intro x hx
  obtain ⟨h1, h2⟩ := h x (hD x hx)
  exact List.mem_filter.mpr ⟨h1, h2⟩

theorem foldl_max_ge (f : Nat → Nat) : ∀ (l : List Nat) (m0 : Nat),
    m0 ≤ l.foldl (fun m p => max m (f p)) m0 ∧ ∀ p ∈ l, f p ≤ l.foldl (fun m p => max m (f p)) m0 := by
  intro l
  induction l with
  | nil => intro m0; exact ⟨Nat.le_refl _, by intro p hp; cases hp⟩
  | cons a r ih =>
    intro m0
    obtain ⟨h1, h2⟩ := ih (max m0 (f a))
    simp only [List.foldl_cons]
    refine ⟨by omega, ?_⟩
    intro p hp
    rcases List.mem_cons.mp hp with rfl | hp
    · omega
    · exact h2 p hp

theorem liveCount_le_peak (ir : List Inst) (p : Nat) (hp : p ≤ ir.length) : liveCount ir p ≤ peakLive ir := by
  unfold peakLive
  exact (foldl_max_ge (liveCount ir) _ 0).2 p (List.mem_range.mpr (by omega))

theorem mem_values (ir : List Inst) (j : Nat) (h : j = 0 ∨ j ∈ outs ir) : j ∈ values ir := by
  unfold values
  rw [mem_dedup]
  rcases h with h | h
  · simp [h]
  · exact List.mem_cons_of_mem _ (by simpa [outs] using h)

/-- the liveness hypothesis of `run_n_le`, with the independent `peakLive` as the bound -/
theorem distinctLE_peak (ir : List Inst) (hWF : WF ir) (hu : allUsedB ir = true)
    (pre : List Inst) (inst : Inst) (suf : List Inst) (e : ir = pre ++ inst :: suf) :
    DistinctLE (inst.out :: liveAt suf) (peakLive ir) ∧ DistinctLE (liveAt (inst :: suf)) (peakLive ir) := by
  have htake1 : ir.take (pre.length + 1) = pre ++ [inst] := by
    rw [e, show pre ++ inst :: suf = (pre ++ [inst]) ++ suf by simp]
    rw [List.take_left' (by simp)]
  have hdrop1 : ir.drop (pre.length + 1) = suf := by
    rw [e, show pre ++ inst :: suf = (pre ++ [inst]) ++ suf by simp]
    rw [List.drop_left' (by simp)]
  have htake0 : ir.take pre.length = pre := by rw [e, List.take_left' rfl]
  have hdrop0 : ir.drop pre.length = inst :: suf := by rw [e, List.drop_left' rfl]
  have hlen : pre.length + 1 ≤ ir.length := by rw [e]; simp
  have hwfs : WFs (pre ++ inst :: suf) := e ▸ hWF.wfs
  -- a value live in `s`, where ir = p ++ s, is element 0 or produced in `p`
  have defd : ∀ (p s : List Inst), ir = p ++ s → ∀ j ∈ liveAt s, j = 0 ∨ j ∈ outs p := by
    intro p s e' j hj
    rcases live_prefix p s j hj with h | h
    · exact Or.inl (hWF.closed j (e' ▸ h))
    · exact Or.inr h
  constructor
  · apply distinctLE_mono (K := peakLive ir) _ (fun x hx => hx)
    intro D hnd hD
    have := distinctLE_liveCount ir (pre.length + 1) (inst.out :: liveAt suf) (by
      intro x hx
      rcases List.mem_cons.mp hx with rfl | hx
      · refine ⟨mem_values ir _ (Or.inr (by rw [e]; simp [outs])), ?_⟩
        simp only [liveAtPoint, definedBefore, neededFrom, htake1, hdrop1, Bool.and_eq_true,
          Bool.or_eq_true, beq_iff_eq, List.any_eq_true, List.contains_iff_mem]
        refine ⟨Or.inr ⟨inst, by simp, rfl⟩, ?_⟩
        rcases allUsed_spec ir hu inst (by rw [e]; simp) with h | ⟨j, hj, hr⟩
        · exact Or.inr h
        · left
          rw [e] at hj
          have : j ∈ (pre ++ [inst]) ∨ j ∈ suf := by
            simp only [List.mem_append, List.mem_cons, List.mem_singleton, List.not_mem_nil, or_false] at hj ⊢
            rcases hj with h | h | h
            · exact Or.inl (Or.inl h)
            · exact Or.inl (Or.inr h)
            · exact Or.inr h
          rcases this with h | h
          · exact absurd hr (no_early_reader pre inst suf hwfs j h)
          · exact ⟨j, h, hr⟩
      · have hd := defd (pre ++ [inst]) suf (by rw [e]; simp) x hx
        refine ⟨mem_values ir _ ?_, ?_⟩
        · rcases hd with h | h
          · exact Or.inl h
          · right; rw [e]
            simp only [outs, List.map_append, List.mem_append, List.map_cons, List.map_nil, List.mem_cons,
              List.not_mem_nil, or_false] at h ⊢
            rcases h with h | h
            · exact Or.inl h
            · exact Or.inr (Or.inl h)
        · simp only [liveAtPoint, definedBefore, neededFrom, htake1, hdrop1, Bool.and_eq_true,
            Bool.or_eq_true, beq_iff_eq, List.any_eq_true, List.contains_iff_mem]
          refine ⟨?_, Or.inl (live_reader suf x hx)⟩
          rcases hd with h | h
          · exact Or.inl h
          · right
            simp only [outs, List.mem_map] at h
            obtain ⟨a, ha, rfl⟩ := h
            exact ⟨a, ha, rfl⟩) D hnd hD
    exact Nat.le_trans this (liveCount_le_peak ir _ hlen)
  · intro D hnd hD
    have := distinctLE_liveCount ir pre.length (liveAt (inst :: suf)) (by
      intro x hx
      have hd := defd pre (inst :: suf) e x hx
      refine ⟨mem_values ir _ ?_, ?_⟩
      · rcases hd with h | h
        · exact Or.inl h
        · right; rw [e]
          simp only [outs, List.map_append, List.mem_append] at h ⊢
          exact Or.inl h
      · simp only [liveAtPoint, definedBefore, neededFrom, htake0, hdrop0, Bool.and_eq_true,
          Bool.or_eq_true, beq_iff_eq, List.any_eq_true, List.contains_iff_mem]
        refine ⟨?_, Or.inl (live_reader (inst :: suf) x hx)⟩
        rcases hd with h | h
        · exact Or.inl h
        · right
          simp only [outs, List.mem_map] at h
          obtain ⟨a, ha, rfl⟩ := h
          exact ⟨a, ha, rfl⟩) D hnd hD
    exact Nat.le_trans this (liveCount_le_peak ir _ (by omega))

end AC.AllocX
