import AC.Alloc
/-! Executable, first-principles notions for C05 / C17, written from the property text only
(independent of the allocator model): well-formedness of an instruction sequence, "every computed
value other than the last is used", and the peak number of simultaneously live chain values. -/
namespace AC.PeakLive
open P.Alloc

/-- every input is element 0 or the output of an earlier instruction; outputs are ≥ 1 and strictly
    increasing (an instruction produces a new chain element) -/
def wfFrom (defined : List Nat) (last : Nat) : List Inst → Bool
  | [] => true
  | i :: r => decide (last < i.out) && i.op.inputs.all (fun x => x == 0 || defined.contains x)
      && wfFrom (i.out :: defined) i.out r

def wfB (ir : List Inst) : Bool := wfFrom [] 0 ir

def lastOutB (ir : List Inst) : Nat := match ir.getLast? with | some i => i.out | none => 0

/-- every computed value other than the last is read by some instruction -/
def allUsedB (ir : List Inst) : Bool :=
  ir.all fun i => i.out == lastOutB ir || ir.any fun j => j.op.inputs.contains i.out

/-- value `i` exists at point `p` (before instruction number `p`): element 0, or produced by one of
    the first `p` instructions -/
def definedBefore (ir : List Inst) (p i : Nat) : Bool := i == 0 || (ir.take p).any (·.out == i)

/-- value `i` is still needed at point `p`: read by instruction number `p` or a later one, or it is
    the final result -/
def neededFrom (ir : List Inst) (p i : Nat) : Bool :=
  (ir.drop p).any (fun j => j.op.inputs.contains i) || i == lastOutB ir

def liveAtPoint (ir : List Inst) (p i : Nat) : Bool := definedBefore ir p i && neededFrom ir p i

def dedup : List Nat → List Nat
  | [] => []
  | a :: r => if r.contains a then dedup r else a :: dedup r

/-- the chain values of the program: element 0 and every instruction output -/
def values (ir : List Inst) : List Nat := dedup (0 :: ir.map (·.out))

def liveCount (ir : List Inst) (p : Nat) : Nat := ((values ir).filter (liveAtPoint ir p)).length

/-- the peak number of chain values live at the same time, over all program points -/
def peakLive (ir : List Inst) : Nat := (List.range (ir.length + 1)).foldl (fun m p => max m (liveCount ir p)) 0

end AC.PeakLive
