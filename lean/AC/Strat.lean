import AC.CFTotal
/-! Every continued-fraction strategy proposes values in [2, n) for n ≥ 5 (not a power of two). -/
namespace P

theorem stratOK_binary : StratOK .binary := by
  intro n h5 _
  refine ⟨by simp [Strategy.K], ?_⟩
  intro k hk; simp [Strategy.K] at hk; subst hk; omega

theorem stratOK_coBinary : StratOK .coBinary := by
  intro n h5 _
  refine ⟨by simp [Strategy.K], ?_⟩
  intro k hk; simp [Strategy.K] at hk; subst hk
  split <;> omega

theorem stratOK_total : StratOK .total := by
  intro n h5 _
  have hn : 5 ≤ n.toNat := by omega
  refine ⟨?_, ?_⟩
  · simp only [Strategy.K]
    intro e
    have := congrArg List.length e
    simp at this; omega
  · intro k hk
    simp only [Strategy.K, List.mem_map, List.mem_range] at hk
    obtain ⟨i, hi, rfl⟩ := hk
    have : (Int.ofNat i : Int) = (i : Int) := rfl
    constructor
    · simp only [Int.ofNat_eq_natCast]; omega
    · simp only [Int.ofNat_eq_natCast]; omega

theorem stratOK_sqrt : StratOK .sqrt := by
  intro n h5 _
  have hn : 5 ≤ n.toNat := by omega
  refine ⟨by simp [Strategy.K], ?_⟩
  intro k hk
  simp only [Strategy.K, List.mem_singleton] at hk
  subst hk
  have h1 := Nat.sqrt_le n.toNat
  have h2 := Nat.lt_succ_sqrt n.toNat
  have hs2 : 2 ≤ Nat.sqrt n.toNat := by
    apply Classical.byContradiction
    intro hc
    have : Nat.sqrt n.toNat ≤ 1 := by omega
    have : Nat.succ (Nat.sqrt n.toNat) * Nat.succ (Nat.sqrt n.toNat) ≤ 2 * 2 :=
      Nat.mul_le_mul (by omega) (by omega)
    omega
  have hlt : Nat.sqrt n.toNat < n.toNat := by
    have : Nat.sqrt n.toNat * 2 ≤ Nat.sqrt n.toNat * Nat.sqrt n.toNat := Nat.mul_le_mul_left _ hs2
    omega
  constructor
  · simp only [Int.ofNat_eq_natCast]; omega
  · simp only [Int.ofNat_eq_natCast]; omega

theorem dyadicK_spec : ∀ (f : Nat) (k n : Int), k < n → ∀ x ∈ dyadicK f k, 2 ≤ x ∧ x < n := by
  intro f
  induction f with
  | zero => intro k n _ x hx; simp [dyadicK] at hx
  | succ f ih =>
    intro k n hk x hx
    simp only [dyadicK] at hx
    split at hx
    · rename_i hk1
      rcases List.mem_cons.mp hx with rfl | hx
      · omega
      · exact ih (k / 2) n (by omega) x hx
    · simp at hx

theorem stratOK_dyadic : StratOK .dyadic := by
  intro n h5 _
  have hb : 1 ≤ bitLenN n.toNat := by
    unfold bitLenN; have : n.toNat ≠ 0 := by omega
    simp [this]
  refine ⟨?_, ?_⟩
  · simp only [Strategy.K]
    obtain ⟨b, hb'⟩ : ∃ b, bitLenN n.toNat = b + 1 := ⟨bitLenN n.toNat - 1, by omega⟩
    rw [hb', dyadicK]
    have : n / 2 > 1 := by omega
    simp [this]
  · intro k hk
    exact dyadicK_spec _ (n / 2) n (by omega) k hk

theorem fermatK_spec : ∀ (f : Nat) (k : Int) (s : Nat) (n : Int), 0 ≤ k → k < n → ∀ x ∈ fermatK f k s, 2 ≤ x ∧ x < n := by
  intro f
  induction f with
  | zero => intro k s n _ _ x hx; simp [fermatK] at hx
  | succ f ih =>
    intro k s n hk0 hk x hx
    simp only [fermatK] at hx
    split at hx
    · rename_i hk1
      rcases List.mem_cons.mp hx with rfl | hx
      · omega
      · have hp : (0 : Int) < 2 ^ s := two_pow_pos_int s
        have h0 : 0 ≤ k / 2 ^ s := Int.ediv_nonneg hk0 (by omega)
        have hle : k / 2 ^ s ≤ k := by
          have h1 : k / 2 ^ s * 2 ^ s ≤ k := Int.ediv_mul_le k (by omega)
          have h2 : k / 2 ^ s * 1 ≤ k / 2 ^ s * 2 ^ s := Int.mul_le_mul_of_nonneg_left (by omega) h0
          omega
        exact ih (k / 2 ^ s) (2 * s) n h0 (by omega) x hx
    · simp at hx

theorem stratOK_fermat : StratOK .fermat := by
  intro n h5 _
  have hb : 1 ≤ bitLenN n.toNat := by
    unfold bitLenN; have : n.toNat ≠ 0 := by omega
    simp [this]
  refine ⟨?_, ?_⟩
  · simp only [Strategy.K]
    obtain ⟨b, hb'⟩ : ∃ b, bitLenN n.toNat = b + 1 := ⟨bitLenN n.toNat - 1, by omega⟩
    rw [hb', fermatK]
    have : n / 2 > 1 := by omega
    simp [this]
  · intro k hk
    exact fermatK_spec _ (n / 2) 1 n (by omega) (by omega) k hk

theorem stratOK_dichotomic : StratOK .dichotomic := by
  intro n h5 _
  refine ⟨by simp [Strategy.K], ?_⟩
  intro k hk
  simp only [Strategy.K, List.mem_singleton] at hk
  subst hk
  have hn : 5 ≤ n.toNat := by omega
  have hne : n.toNat ≠ 0 := by omega
  have hbl : bitLenN n.toNat = Nat.log2 n.toNat + 1 := by simp [bitLenN, hne]
  -- l = bitLen ≥ 3
  have hl3 : 2 ≤ Nat.log2 n.toNat := by
    apply Classical.byContradiction
    intro hc
    have : n.toNat < 2 ^ (Nat.log2 n.toNat + 1) := Nat.lt_log2_self
    have h4 : 2 ^ (Nat.log2 n.toNat + 1) ≤ 2 ^ 2 := Nat.pow_le_pow_right (by omega) (by omega)
    omega
  generalize hh : bitLenN n.toNat / 2 = h at *
  have hh1 : 1 ≤ h := by omega
  have hh2 : h + 1 ≤ Nat.log2 n.toNat := by omega
  have hlow : (2 : Int) ^ (h + 1) ≤ n := by
    have h1 : 2 ^ (h + 1) ≤ 2 ^ Nat.log2 n.toNat := Nat.pow_le_pow_right (by omega) hh2
    have h2 := Nat.log2_self_le hne
    have : ((2 ^ (h + 1) : Nat) : Int) ≤ (n.toNat : Int) := by exact_mod_cast Nat.le_trans h1 h2
    rw [Int.toNat_of_nonneg (by omega)] at this
    exact_mod_cast this
  have hp : (0 : Int) < 2 ^ h := two_pow_pos_int h
  constructor
  · apply Int.le_ediv_of_mul_le hp
    rw [Int.pow_succ] at hlow
    omega
  · have h2 : (2 : Int) ≤ 2 ^ h := by
      have := two_pow_le_int hh1
      simpa using this
    apply Int.ediv_lt_of_lt_mul hp
    have : n * 2 ≤ n * 2 ^ h := Int.mul_le_mul_of_nonneg_left h2 (by omega)
    omega

theorem stratOK_all (s : Strategy) : StratOK s := by
  cases s
  · exact stratOK_binary
  · exact stratOK_coBinary
  · exact stratOK_dichotomic
  · exact stratOK_sqrt
  · exact stratOK_total
  · exact stratOK_dyadic
  · exact stratOK_fermat

/-- **C08 for continued fractions, complete**: every strategy, every non-empty list of positive
    targets (any order, repeats allowed): terminates with a valid chain containing every target. -/
theorem contfrac_complete (s : Strategy) (targets : List Int) (hne : targets ≠ []) (hpos : ∀ x ∈ targets, 1 ≤ x) :
    ∃ f c, chain s f (targets.mergeSort (fun a b => a ≤ b)) = some c ∧ IsChain c ∧ ∀ x ∈ targets, x ∈ c :=
  contfrac_total s (stratOK_all s) targets hne hpos

end P
