/-! C06 prototype: the listing format read back literally. -/
namespace P.Listing

/-- split a character list at every occurrence of `sep` -/
def splitAt (sep : Char) : List Char → List (List Char)
  | [] => [[]]
  | c :: r =>
    if c = sep then [] :: splitAt sep r
    else match splitAt sep r with
      | [] => [[c]]
      | f :: fs => (c :: f) :: fs

def joinWith (sep : Char) : List (List Char) → List Char
  | [] => []
  | [f] => f
  | f :: g :: r => f ++ sep :: joinWith sep (g :: r)

theorem splitAt_nosep (sep : Char) : ∀ (f : List Char), sep ∉ f → splitAt sep f = [f] := by
  intro f
  induction f with
  | nil => intro _; rfl
  | cons c r ih =>
    intro h
    have hc : c ≠ sep := fun e => h (by simp [e])
    have hr : sep ∉ r := fun e => h (by simp [e])
    simp [splitAt, hc, ih hr]

theorem splitAt_append (sep : Char) : ∀ (f rest : List Char), sep ∉ f →
    splitAt sep (f ++ sep :: rest) = f :: splitAt sep rest := by
  intro f
  induction f with
  | nil => intro rest _; simp [splitAt]
  | cons c r ih =>
    intro rest h
    have hc : c ≠ sep := fun e => h (by simp [e])
    have hr : sep ∉ r := fun e => h (by simp [e])
    simp [splitAt, hc, ih rest hr]

/-- **fields survive a join/split round trip** when no field contains the separator -/
theorem split_join (sep : Char) : ∀ (fs : List (List Char)), fs ≠ [] → (∀ f ∈ fs, sep ∉ f) →
    splitAt sep (joinWith sep fs) = fs := by
  intro fs
  induction fs with
  | nil => intro h; exact absurd rfl h
  | cons f r ih =>
    intro _ h
    cases r with
    | nil => simp [joinWith, splitAt_nosep sep f (h f (by simp))]
    | cons g r' =>
      simp only [joinWith]
      rw [splitAt_append sep f _ (h f (by simp)), ih (by simp) (fun x hx => h x (by simp [hx]))]

inductive Op | add (x y : List Char) | dbl (x : List Char) | shl (x : List Char) (s : Nat)
deriving DecidableEq
structure Line where
  out : List Char
  op : Op
deriving DecidableEq

def natStr (n : Nat) : List Char := Nat.toDigits 10 n

def renderLine (l : Line) : List Char :=
  match l.op with
  | .add x y => joinWith '\t' ["add".toList, l.out, x, y]
  | .dbl x => joinWith '\t' ["double".toList, l.out, x]
  | .shl x s => joinWith '\t' ["shift".toList, l.out, x, natStr s]

def readNat (ds : List Char) : Option Nat :=
  if ds ≠ [] ∧ ds.all Char.isDigit then some (Nat.ofDigitChars 10 ds 0) else none

def readLine (fs : List (List Char)) : Option Line :=
  match fs with
  | [k, o, x, y] =>
    if k = "add".toList then some ⟨o, .add x y⟩
    else if k = "shift".toList then (readNat y).map (fun s => ⟨o, .shl x s⟩)
    else none
  | [k, o, x] => if k = "double".toList then some ⟨o, .dbl x⟩ else none
  | _ => none

def NameOK (n : List Char) : Prop := '\t' ∉ n ∧ '\n' ∉ n

theorem readNat_natStr (s : Nat) : readNat (natStr s) = some s := by
  unfold readNat natStr
  have h1 : Nat.toDigits 10 s ≠ [] := Nat.toDigits_ne_nil
  have h2 : (Nat.toDigits 10 s).all Char.isDigit = true := by
    rw [List.all_eq_true]
    intro x hx
    exact Nat.isDigit_of_mem_toDigits (by omega) (by omega) hx
  simp only [h1, h2, ne_eq, not_false_eq_true, and_self, if_true]
  rw [Nat.ofDigitChars_ten_toDigits]

theorem natStr_notab (s : Nat) : '\t' ∉ natStr s := by
  intro h
  have := Nat.isDigit_of_mem_toDigits (b := 10) (n := s) (by omega) (by omega) h
  simp [Char.isDigit] at this

/-- **one instruction line reads back** -/
theorem readLine_render (l : Line) (ho : NameOK l.out)
    (hx : match l.op with | .add x y => NameOK x ∧ NameOK y | .dbl x => NameOK x | .shl x _ => NameOK x) :
    readLine (splitAt '\t' (renderLine l)) = some l := by
  obtain ⟨o, op⟩ := l
  cases op with
  | add x y =>
    simp only [renderLine]
    rw [split_join '\t' _ (by simp) (by
      intro f hf; simp at hf
      rcases hf with rfl | rfl | rfl | rfl
      · decide
      · exact ho.1
      · exact hx.1.1
      · exact hx.2.1)]
    simp [readLine]
  | dbl x =>
    simp only [renderLine]
    rw [split_join '\t' _ (by simp) (by
      intro f hf; simp at hf
      rcases hf with rfl | rfl | rfl
      · decide
      · exact ho.1
      · exact hx.1)]
    simp [readLine]
  | shl x s =>
    simp only [renderLine]
    rw [split_join '\t' _ (by simp) (by
      intro f hf; simp at hf
      rcases hf with rfl | rfl | rfl | rfl
      · decide
      · exact ho.1
      · exact hx.1
      · exact natStr_notab s)]
    have h1 : ¬ "shift".toList = "add".toList := by decide
    simp [readLine, h1, readNat_natStr]

end P.Listing
