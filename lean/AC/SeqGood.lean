import AC.SeqLast
/-! What the sequence algorithms deliver to the chain-algorithm assembly: a valid, strictly
    ascending chain containing every target whose elements do not exceed the largest target. -/
namespace P

/-- `FindSequence` with an explicit fuel for the continued-fraction recursion (heuristics carry their own, provably sufficient fuel) -/
def SeqAlg.findF (fuel : Nat) : SeqAlg → List Int → Option (List Int)
  | .heuristic h, ts => (SeqAlg.heuristic h).find ts
  | .contfrac s, ts => chain s fuel (ts.mergeSort (fun a b => a ≤ b))

theorem SeqAlg.findF_mono (s : SeqAlg) (f k : Nat) (T c : List Int)
    (h : s.findF f T = some c) : s.findF (f + k) T = some c := by
  cases s with
  | heuristic hh => exact h
  | contfrac st => exact chain_mono_add st f k _ c h

/-- what the driver's fuel search returns is what every sufficiently large fuel returns -/
theorem SeqAlg.find_findF (s : SeqAlg) (T c : List Int) (h : s.find T = some c) :
    ∃ f, s.findF f T = some c := by
  cases s with
  | heuristic hh => exact ⟨0, h⟩
  | contfrac st => exact cfSearch_some st _ c 12 64 h

/-- heuristic compositions containing a total heuristic -/
theorem SeqAlg.good_heuristic (h : Heur) (ht : h.isTotal = true) (T : List Int) (hpos : ∀ x ∈ T, 1 ≤ x)
    (M : Int) (hM : ∀ x ∈ T, x ≤ M) (hMT : M ∈ T) (h2 : 2 ≤ M ∨ T = [1]) :
    ∃ c, (∀ f, (SeqAlg.heuristic h).findF f T = some c) ∧ IsChain c ∧ c.Pairwise (· < ·) ∧
      (∀ x ∈ T, x ∈ c) ∧ (∀ x ∈ c, x ≤ M) := by
  have _ := hMT
  obtain ⟨c, h1, hch, hsup⟩ :=
    findSequence_total h.suggest h.sound (h.total ht) T hpos _ (Nat.le_refl _)
  exact ⟨c, fun _ => h1, hch, findSequence_asc h.suggest h.sound _ T c hpos h1, hsup,
    findSequence_bound h.suggest h.sound _ T c M hpos hM h2 h1⟩

/-- continued fractions, every strategy -/
theorem SeqAlg.good_contfrac (s : Strategy) (T : List Int) (hne : T ≠ []) (hpos : ∀ x ∈ T, 1 ≤ x)
    (M : Int) (hM : ∀ x ∈ T, x ≤ M) (hMT : M ∈ T) :
    ∃ F c, (∀ f, F ≤ f → (SeqAlg.contfrac s).findF f T = some c) ∧ IsChain c ∧ c.Pairwise (· < ·) ∧
      (∀ x ∈ T, x ∈ c) ∧ (∀ x ∈ c, x ≤ M) := by
  have _ := hMT
  obtain ⟨F, c, hc, hch, hsup⟩ := contfrac_complete s T hne hpos
  have hperm := List.mergeSort_perm T (fun a b => decide (a ≤ b))
  have hsorted : (T.mergeSort (fun a b => decide (a ≤ b))).Pairwise (· ≤ ·) := by
    have := List.pairwise_mergeSort (le := fun (a b : Int) => decide (a ≤ b))
      (by intro a b c h1 h2; simp at *; omega) (by intro a b; simp; omega) T
    simpa using this
  have hne' : T.mergeSort (fun a b => decide (a ≤ b)) ≠ [] := by
    intro e; rw [e] at hperm; exact hne (List.Perm.eq_nil hperm.symm)
  have hg := (cf_ok s F).2.2 _ c hne' hsorted (fun x hx => hpos x (hperm.mem_iff.1 hx)) hc
  refine ⟨F, c, ?_, hch, hg.good.asc, hsup, ?_⟩
  · intro f hf
    have := chain_mono_add s F (f - F) _ c hc
    rw [Nat.add_sub_cancel' hf] at this
    exact this
  · intro x hx
    have h1 := le_last_of_pairwise c hg.good.asc x hx
    rw [hg.last] at h1
    have h2 := hM _ (hperm.mem_iff.1 (getLastD_mem _ hne'))
    omega

end P
