import AC.Peg
/-! Full expression-level round trip `expr fuel (show t ++ rest) = (t, dropWs rest)` for the
    prototype grammar (decimal literals only). -/
namespace P.Peg

/-! ### printer in "body / wrap" form -/
def body : Expr → List Char
  | .operand 0 => ['1']
  | .operand (i+1) => ['['] ++ natStr (i+1) ++ [']']
  | .ident s => s
  | .add x y => body x ++ " + ".toList ++ (match y with
      | .add .. => ['('] ++ body y ++ [')']
      | _ => body y)
  | .shift x s => (match x with
      | .operand _ => body x | .ident _ => body x
      | _ => ['('] ++ body x ++ [')']) ++ " << ".toList ++ natStr s
  | .double x => "2*".toList ++ (match x with
      | .operand _ => body x | .ident _ => body x
      | _ => ['('] ++ body x ++ [')'])

def isAtom : Expr → Bool | .operand _ => true | .ident _ => true | _ => false
def isAdd : Expr → Bool | .add .. => true | _ => false

def wrapU (x : Expr) : List Char := if isAtom x then body x else ['('] ++ body x ++ [')']
def wrapR (y : Expr) : List Char := if isAdd y then ['('] ++ body y ++ [')'] else body y

theorem body_add (x y) : body (.add x y) = body x ++ (" + ".toList ++ wrapR y) := by
  cases y <;> simp [body, wrapR, isAdd]
theorem body_shift (x s) : body (.shift x s) = wrapU x ++ (" << ".toList ++ natStr s) := by
  cases x <;> simp [body, wrapU, isAtom]
theorem body_double (x) : body (.double x) = '2' :: '*' :: wrapU x := by
  cases x <;> simp [body, wrapU, isAtom]

/-! ### basic lemmas (from the atom prototype) -/
@[simp] theorem bind_def (p : P α) (f : α → P β) (s : List Char) (e : Bool) :
    (p >>= f) s e = match p s e with
      | (none, e') => (none, e')
      | (some (a, s'), e') => f a s' e' := rfl
@[simp] theorem pure_def (a : α) (s : List Char) (e : Bool) : (pure a : P α) s e = (some (a, s), e) := rfl

theorem por_left {p q : P α} {s e r e'} (h : p s e = (some r, e')) : por p q s e = (some r, e') := by
  simp [por, h]
theorem por_right {p q : P α} {s e e'} (h : p s e = (none, e')) : por p q s e = q s e' := by
  simp [por, h]

theorem lit_ok (l r : List Char) (e : Bool) : lit l (l ++ r) e = (some ((), r), e) := by
  simp [lit]
theorem lit_cons_ok (c : Char) (r : List Char) (e : Bool) : lit [c] (c :: r) e = (some ((), r), e) := by
  simp [lit, List.isPrefixOf]
theorem lit_fail_head (c d : Char) (l r : List Char) (e : Bool) (h : c ≠ d) :
    lit (c :: l) (d :: r) e = (none, e) := by
  simp [lit, List.isPrefixOf, h]
theorem lit_fail_nil (c : Char) (l : List Char) (e : Bool) : lit (c :: l) [] e = (none, e) := by
  simp [lit, List.isPrefixOf]

def ValidIdent (s : List Char) : Prop :=
  ∃ c cs, s = c :: cs ∧ isIdStart c = true ∧ ∀ x ∈ cs, isIdChar x = true
def EndTok (r : List Char) : Prop := ∀ c cs, r = c :: cs → isIdChar c = false

theorem takeWhile_append_of_all {p : Char → Bool} (cs r : List Char) (h : ∀ x ∈ cs, p x = true)
    (hr : ∀ c t, r = c :: t → p c = false) : (cs ++ r).takeWhile p = cs ∧ (cs ++ r).dropWhile p = r := by
  induction cs with
  | nil =>
    cases r with
    | nil => simp
    | cons c t => simp [hr c t rfl]
  | cons a cs ih =>
    have ha := h a (by simp)
    have := ih (fun x hx => h x (by simp [hx]))
    simp [ha, this]

theorem ident_ok (s r : List Char) (e : Bool) (hs : ValidIdent s) (hr : EndTok r) :
    ident (s ++ r) e = (some (s, r), e) := by
  obtain ⟨c, cs, rfl, hc, hcs⟩ := hs
  have := takeWhile_append_of_all (p := isIdChar) cs r hcs hr
  simp [ident, hc, this]

def NoWsHead (r : List Char) : Prop := ∀ c t, r = c :: t → isWs c = false
theorem ws_id (r : List Char) (e : Bool) (h : NoWsHead r) : ws r e = (some ((), r), e) := by
  cases r with
  | nil => simp [ws]
  | cons c t => simp [ws, List.dropWhile, h c t rfl]
theorem ws_def (r : List Char) (e : Bool) : ws r e = (some ((), r.dropWhile isWs), e) := rfl

theorem digitsVal_toDigits (n : Nat) : digitsVal (Nat.toDigits 10 n) = n := by
  have := @Nat.ofDigitChars_ten_toDigits n
  unfold digitsVal
  revert this
  generalize Nat.toDigits 10 n = ds
  intro h
  rw [← h]
  unfold Nat.ofDigitChars
  rfl

theorem natStr_eq (n : Nat) : natStr n = Nat.toDigits 10 n := by
  simp [natStr, Nat.toList_repr, Nat.toString_eq_repr]


/-! ### literals -/
theorem isDigit_isIdChar (c : Char) (h : c.isDigit = true) : isIdChar c = true := by
  simp [isIdChar, Char.isAlphanum, h]

theorem digitChar_ne_zero (d : Nat) (h1 : 0 < d) (h2 : d < 10) : Nat.digitChar d ≠ '0' := by
  have : d = 1 ∨ d = 2 ∨ d = 3 ∨ d = 4 ∨ d = 5 ∨ d = 6 ∨ d = 7 ∨ d = 8 ∨ d = 9 := by omega
  rcases this with h|h|h|h|h|h|h|h|h <;> subst h <;> decide

theorem head!_append_of_ne_nil (l r : List Char) (h : l ≠ []) : (l ++ r).head! = l.head! := by
  cases l with
  | nil => exact absurd rfl h
  | cons a t => rfl

theorem toDigits_head_ne_zero' : ∀ (k n : Nat), n ≤ k → 0 < n → (Nat.toDigits 10 n).head! ≠ '0' := by
  intro k
  induction k with
  | zero => intro n h1 h2; omega
  | succ k ih =>
    intro n hk hn
    rw [Nat.toDigits_eq_if (by omega)]
    split
    · simp only [List.head!]
      exact digitChar_ne_zero n hn (by omega)
    · rename_i hge
      rw [head!_append_of_ne_nil _ _ Nat.toDigits_ne_nil]
      apply ih
      · have : n / 10 < n := Nat.div_lt_self hn (by omega)
        omega
      · exact Nat.div_pos (by omega) (by omega)

theorem toDigits_head_ne_zero (n : Nat) (h : 0 < n) : (Nat.toDigits 10 n).head! ≠ '0' ∨ (Nat.toDigits 10 n).length = 1 :=
  Or.inl (toDigits_head_ne_zero' n n (Nat.le_refl _) h)

theorem uintLit_ok (n : Nat) (r : List Char) (e : Bool) (hn : n < 2^64) (hr : EndTok r) :
    uintLit (natStr n ++ r) e = (some (n, r), e) := by
  rw [natStr_eq]
  have hall : ∀ x ∈ Nat.toDigits 10 n, Char.isDigit x = true :=
    fun x hx => Nat.isDigit_of_mem_toDigits (by omega) (by omega) hx
  have hr' : ∀ c t, r = c :: t → Char.isDigit c = false := by
    intro c t h
    have := hr c t h
    cases hd : c.isDigit with
    | false => rfl
    | true => rw [isDigit_isIdChar c hd] at this; exact absurd this (by simp)
  have htd := takeWhile_append_of_all (p := Char.isDigit) (Nat.toDigits 10 n) r hall hr'
  have hne : (Nat.toDigits 10 n) ≠ [] := Nat.toDigits_ne_nil
  unfold uintLit
  simp only [htd.1, htd.2, digitsVal_toDigits]
  have hemp : (Nat.toDigits 10 n).isEmpty = false := by
    cases h : Nat.toDigits 10 n with
    | nil => exact absurd h hne
    | cons a b => rfl
  simp only [hemp]
  have hbad : ((decide ((Nat.toDigits 10 n).length > 1) && decide ((Nat.toDigits 10 n).head! = '0')) || decide (n ≥ 2^64)) = false := by
    have h2 : decide (n ≥ 2^64) = false := by simp; omega
    rw [h2]
    simp only [Bool.or_false, Bool.and_eq_false_iff, decide_eq_false_iff_not]
    by_cases h0 : n = 0
    · subst h0; left; simp [Nat.toDigits_zero]
    · rcases toDigits_head_ne_zero n (by omega) with h | h
      · right; exact h
      · left; omega
  simp [hbad]


/-! ### well-formed trees and follow conditions -/
def SafeIdent (s : List Char) : Prop := ¬ ("dbl".toList.isPrefixOf s = true)

inductive WF : Expr → Prop
  | operand (i) : i < 2^64 → WF (.operand i)
  | ident (s) : ValidIdent s → SafeIdent s → WF (.ident s)
  | add (x y) : WF x → WF y → WF (.add x y)
  | shift (x s) : WF x → s < 2^64 → WF (.shift x s)
  | double (x) : WF x → WF (.double x)

def dropWs (r : List Char) : List Char := r.dropWhile isWs
def NoShiftOp (r : List Char) : Prop :=
  ¬ ("<<".toList.isPrefixOf (dropWs r) = true) ∧ ¬ ("shl".toList.isPrefixOf (dropWs r) = true)
def NoAddOp (r : List Char) : Prop :=
  ¬ (['+'].isPrefixOf (dropWs r) = true) ∧ ¬ ("add".toList.isPrefixOf (dropWs r) = true)

/-- what the recursive call must satisfy on a sub-expression (inside parentheses) -/
def RecOK (rec : P Expr) (x : Expr) : Prop :=
  ∀ r e, rec (body x ++ ')' :: r) e = (some (x, ')' :: r), e)

theorem lit_fail_of_not_prefix (l r : List Char) (e : Bool) (h : ¬ (l.isPrefixOf r = true)) :
    lit l r e = (none, e) := by
  simp [lit, h]

theorem endTok_cons {c : Char} {r : List Char} (h : isIdChar c = false) : EndTok (c :: r) := by
  intro c' cs h'; cases h'; exact h

theorem digit_not_ws (c : Char) (h : c.isDigit = true) : isWs c = false := by
  cases hw : isWs c with
  | false => rfl
  | true =>
    simp [isWs] at hw
    rcases hw with (rfl | rfl) | rfl <;> simp [Char.isDigit] at h

/-! ### operands -/
theorem operand_one (r : List Char) (e : Bool) : operand ('1' :: r) e = (some (Expr.operand 0, r), e) := by
  unfold operand
  apply por_left
  simp [lit, List.isPrefixOf]

theorem operand_index (i : Nat) (r : List Char) (e : Bool) (hi : i + 1 < 2^64) :
    operand ('[' :: (natStr (i+1) ++ ']' :: r)) e = (some (Expr.operand (i+1), r), e) := by
  unfold operand
  rw [por_right (e' := e)]
  · apply por_left
    simp only [bind_def]
    rw [lit_cons_ok]
    simp only []
    have hnw : NoWsHead (natStr (i+1) ++ ']' :: r) := by
      intro c t h
      rw [natStr_eq] at h
      cases hd : Nat.toDigits 10 (i+1) with
      | nil => exact absurd hd Nat.toDigits_ne_nil
      | cons a b =>
        rw [hd] at h
        simp at h
        have : a.isDigit = true := Nat.isDigit_of_mem_toDigits (b := 10) (n := i+1) (by omega) (by omega) (by rw [hd]; simp)
        rw [← h.1]
        exact digit_not_ws a this
    rw [ws_id _ _ hnw]
    simp only []
    rw [uintLit_ok (i+1) (']' :: r) e hi (endTok_cons (by decide))]
    simp only []
    rw [ws_id _ _ (by intro c t h; cases h; decide)]
    simp only []
    rw [lit_cons_ok]
    rfl
  · simp only [bind_def]
    rw [lit_fail_head _ _ _ _ _ (by decide)]

theorem operand_ident (s r : List Char) (e : Bool) (hs : ValidIdent s) (hr : EndTok r) :
    operand (s ++ r) e = (some (Expr.ident s, r), e) := by
  obtain ⟨c, cs, rfl, hc, hcs⟩ := hs
  have h1 : c ≠ '1' := by rintro rfl; simp [isIdStart] at hc
  have hb : c ≠ '[' := by rintro rfl; simp [isIdStart] at hc
  have hid := ident_ok (c :: cs) r e ⟨c, cs, rfl, hc, hcs⟩ hr
  unfold operand
  rw [por_right (e' := e)]
  · rw [por_right (e' := e)]
    · simp only [bind_def, hid, pure_def]
    · simp only [bind_def, List.cons_append]
      rw [lit_fail_head _ _ _ _ _ (Ne.symm hb)]
  · simp only [bind_def, List.cons_append]
    rw [lit_fail_head _ _ _ _ _ (Ne.symm h1)]


/-! ### heads of printed text -/
def GoodHead (c : Char) : Prop := c = '1' ∨ c = '[' ∨ c = '2' ∨ c = '(' ∨ isIdStart c = true

theorem goodHead_not_ws {c : Char} (h : GoodHead c) : isWs c = false := by
  rcases h with rfl | rfl | rfl | rfl | h
  · decide
  · decide
  · decide
  · decide
  · cases hw : isWs c with
    | false => rfl
    | true =>
      simp [isWs] at hw
      rcases hw with (rfl | rfl) | rfl <;> simp [isIdStart] at h

theorem wrapU_atom {x : Expr} (h : isAtom x = true) : wrapU x = body x := by simp [wrapU, h]
theorem wrapU_paren {x : Expr} (h : isAtom x = false) (r : List Char) :
    wrapU x ++ r = '(' :: (body x ++ ')' :: r) := by simp [wrapU, h]
theorem wrapR_nonadd {y : Expr} (h : isAdd y = false) : wrapR y = body y := by simp [wrapR, h]
theorem wrapR_paren {y : Expr} (h : isAdd y = true) (r : List Char) :
    wrapR y ++ r = '(' :: (body y ++ ')' :: r) := by simp [wrapR, h]

theorem body_head : ∀ {t : Expr}, WF t → ∃ c tl, body t = c :: tl ∧ GoodHead c := by
  intro t h
  induction h with
  | operand i hi =>
    cases i with
    | zero => exact ⟨'1', [], rfl, Or.inl rfl⟩
    | succ i => exact ⟨'[', natStr (i+1) ++ [']'], by simp [body], Or.inr (Or.inl rfl)⟩
  | ident s hv hs =>
    obtain ⟨c, cs, rfl, hc, _⟩ := hv
    exact ⟨c, cs, rfl, Or.inr (Or.inr (Or.inr (Or.inr hc)))⟩
  | add x y hx hy ihx ihy =>
    obtain ⟨c, tl, h, hg⟩ := ihx
    exact ⟨c, tl ++ (" + ".toList ++ wrapR y), by rw [body_add, h]; rfl, hg⟩
  | shift x s hx hs ih =>
    obtain ⟨c, tl, h, hg⟩ := ih
    rw [body_shift]
    cases ha : isAtom x with
    | true => exact ⟨c, tl ++ (" << ".toList ++ natStr s), by rw [wrapU_atom ha, h]; rfl, hg⟩
    | false => exact ⟨'(', _, wrapU_paren ha _, Or.inr (Or.inr (Or.inr (Or.inl rfl)))⟩
  | double x hx ih => exact ⟨'2', _, by rw [body_double], Or.inr (Or.inr (Or.inl rfl))⟩

theorem body_noWs {t : Expr} (h : WF t) (r : List Char) : NoWsHead (body t ++ r) := by
  obtain ⟨c, tl, hb, hg⟩ := body_head h
  intro c' t' h'
  rw [hb] at h'
  cases h'
  exact goodHead_not_ws hg

/-! ### paren depth -/
def pdepth : Expr → Nat
  | .operand _ => 0
  | .ident _ => 0
  | .add x y => max (pdepth x) (if isAdd y then pdepth y + 1 else pdepth y)
  | .shift x _ => if isAtom x then 0 else pdepth x + 1
  | .double x => if isAtom x then 0 else pdepth x + 1

/-! ### BaseExpr -/
def parenP (rec : P Expr) : P Expr := do lit ['(']; ws; let x ← rec; ws; lit [')']; pure x

theorem base_def (rec : P Expr) : base rec = por (parenP rec) operand := rfl

theorem paren_ok (rec : P Expr) (x : Expr) (r : List Char) (e : Bool) (hx : WF x) (h : RecOK rec x) :
    parenP rec ('(' :: (body x ++ ')' :: r)) e = (some (x, r), e) := by
  unfold parenP
  simp only [bind_def]
  rw [lit_cons_ok]
  simp only []
  rw [ws_id _ _ (body_noWs hx _)]
  simp only []
  rw [h r e]
  simp only []
  rw [ws_id _ _ (by intro c t h; cases h; decide)]
  simp only []
  rw [lit_cons_ok]
  rfl

theorem paren_fail (rec : P Expr) (c : Char) (rest : List Char) (e : Bool) (h : c ≠ '(') :
    parenP rec (c :: rest) e = (none, e) := by
  unfold parenP
  simp only [bind_def]
  rw [lit_fail_head _ _ _ _ _ (Ne.symm h)]

theorem base_rt (rec : P Expr) (x : Expr) (r : List Char) (e : Bool) (hx : WF x) (hr : EndTok r)
    (hrec : isAtom x = false → RecOK rec x) :
    base rec (wrapU x ++ r) e = (some (x, r), e) := by
  rw [base_def]
  cases ha : isAtom x with
  | false =>
    rw [wrapU_paren ha]
    exact por_left (paren_ok rec x r e hx (hrec ha))
  | true =>
    rw [wrapU_atom ha]
    cases x with
    | operand i =>
      cases i with
      | zero =>
        show por _ _ ('1' :: r) e = _
        rw [por_right (paren_fail rec '1' r e (by decide))]
        exact operand_one r e
      | succ i =>
        cases hx with
        | operand _ hi =>
        have : body (Expr.operand (i+1)) ++ r = '[' :: (natStr (i+1) ++ ']' :: r) := by simp [body]
        rw [this, por_right (paren_fail rec '[' _ e (by decide))]
        exact operand_index i r e hi
    | ident s =>
      cases hx with
      | ident _ hv hs =>
      obtain ⟨c, cs, rfl, hc, hcs⟩ := hv
      have hne : c ≠ '(' := by rintro rfl; simp [isIdStart] at hc
      show por _ _ (c :: (cs ++ r)) e = _
      rw [por_right (paren_fail rec c _ e hne)]
      exact operand_ident (c :: cs) r e ⟨c, cs, rfl, hc, hcs⟩ hr
    | add a b => simp [isAtom] at ha
    | shift a k => simp [isAtom] at ha
    | double a => simp [isAtom] at ha


theorem dropWs_idem (r : List Char) : dropWs (dropWs r) = dropWs r := by
  unfold dropWs
  induction r with
  | nil => rfl
  | cons a t ih =>
    cases h : isWs a with
    | true => simp [List.dropWhile, h, ih]
    | false => simp [List.dropWhile, h]

/-! ### ShiftExpr -/
def shiftAlt1 (rec : P Expr) : P Expr := do
  ws; let x ← base rec; ws; shiftOp; ws; let s ← uintLit; ws; pure (Expr.shift x s)
def shiftAlt2 (rec : P Expr) : P Expr := do
  ws; doubleOp; ws; let x ← base rec; pure (Expr.double x)
theorem shiftE_def (rec : P Expr) : shiftE rec = por (shiftAlt1 rec) (por (shiftAlt2 rec) (base rec)) := rfl

theorem shiftOp_fail (r : List Char) (e : Bool) (h : NoShiftOp r) : shiftOp (dropWs r) e = (none, e) := by
  unfold shiftOp
  rw [por_right (lit_fail_of_not_prefix _ _ e h.1)]
  exact lit_fail_of_not_prefix _ _ e h.2

theorem shiftOp_ok (r : List Char) (e : Bool) : shiftOp ('<' :: '<' :: r) e = (some ((), r), e) := by
  unfold shiftOp
  apply por_left
  exact lit_ok "<<".toList r e

theorem wrap_noWs {x : Expr} (hx : WF x) (r : List Char) : NoWsHead (wrapU x ++ r) := by
  cases ha : isAtom x with
  | true => rw [wrapU_atom ha]; exact body_noWs hx r
  | false => rw [wrapU_paren ha]; intro c t h; cases h; decide

/-- alternative 1 fails after a base expression that is not followed by a shift operator -/
theorem alt1_fail_base (rec : P Expr) (x : Expr) (r : List Char) (e : Bool) (hx : WF x)
    (hr : EndTok r) (hns : NoShiftOp r) (hrec : isAtom x = false → RecOK rec x) :
    shiftAlt1 rec (wrapU x ++ r) e = (none, e) := by
  unfold shiftAlt1
  simp only [bind_def]
  rw [ws_id _ _ (wrap_noWs hx r)]
  simp only []
  rw [base_rt rec x r e hx hr hrec]
  simp only []
  rw [ws_def]
  simp only []
  rw [show List.dropWhile isWs r = dropWs r from rfl, shiftOp_fail r e hns]

theorem doubleOp_fail (c : Char) (rest : List Char) (e : Bool) (h2 : c ≠ '2')
    (hd : ¬ ("dbl".toList.isPrefixOf (c :: rest) = true)) : doubleOp (c :: rest) e = (none, e) := by
  unfold doubleOp
  rw [por_right (e' := e)]
  · exact lit_fail_of_not_prefix _ _ e hd
  · simp only [bind_def]
    rw [lit_fail_head _ _ _ _ _ (Ne.symm h2)]

/-- text of an atom or a parenthesised expression never starts a double -/
theorem prefix_append_endTok (l s r : List Char) (hl : ∀ c ∈ l, isIdChar c = true) (hr : EndTok r)
    (h : l.isPrefixOf (s ++ r) = true) : l.isPrefixOf s = true := by
  induction l generalizing s with
  | nil => simp
  | cons a l ih =>
    cases s with
    | nil =>
      cases r with
      | nil => simp [List.isPrefixOf] at h
      | cons b r' =>
        have h' : (a == b) = true := by
          simp only [List.nil_append, List.isPrefixOf, Bool.and_eq_true] at h; exact h.1
        have hab : a = b := by simpa using h'
        have := hr b r' rfl
        have ha := hl a (by simp)
        rw [hab] at ha
        rw [ha] at this; exact absurd this (by simp)
    | cons b s' =>
      simp only [List.cons_append, List.isPrefixOf, Bool.and_eq_true] at h ⊢
      exact ⟨h.1, ih s' (fun c hc => hl c (by simp [hc])) h.2⟩

theorem alt2_fail_base (rec : P Expr) (x : Expr) (r : List Char) (e : Bool) (hx : WF x) (hr : EndTok r) :
    shiftAlt2 rec (wrapU x ++ r) e = (none, e) := by
  unfold shiftAlt2
  simp only [bind_def]
  rw [ws_id _ _ (wrap_noWs hx r)]
  simp only []
  cases ha : isAtom x with
  | false =>
    rw [wrapU_paren ha, doubleOp_fail '(' _ e (by decide) (by simp [List.isPrefixOf])]
  | true =>
    rw [wrapU_atom ha]
    cases x with
    | operand i =>
      cases i with
      | zero =>
        have : body (Expr.operand 0) ++ r = '1' :: r := rfl
        rw [this, doubleOp_fail '1' _ e (by decide) (by simp [List.isPrefixOf])]
      | succ i =>
        have : body (Expr.operand (i+1)) ++ r = '[' :: (natStr (i+1) ++ ']' :: r) := by simp [body]
        rw [this, doubleOp_fail '[' _ e (by decide) (by simp [List.isPrefixOf])]
    | ident s =>
      cases hx with
      | ident _ hv hs =>
      obtain ⟨c, cs, rfl, hc, hcs⟩ := hv
      have h2 : c ≠ '2' := by rintro rfl; simp [isIdStart] at hc
      have : body (Expr.ident (c :: cs)) ++ r = c :: (cs ++ r) := rfl
      rw [this, doubleOp_fail c _ e h2 ?_]
      intro hp
      apply hs
      exact prefix_append_endTok "dbl".toList (c :: cs) r (by decide) hr hp
    | add a b => simp [isAtom] at ha
    | shift a k => simp [isAtom] at ha
    | double a => simp [isAtom] at ha


theorem base_fail_two (rec : P Expr) (rest : List Char) (e : Bool) : base rec ('2' :: rest) e = (none, e) := by
  rw [base_def, por_right (paren_fail rec '2' rest e (by decide))]
  unfold operand
  rw [por_right (e' := e)]
  · rw [por_right (e' := e)]
    · simp [ident, isIdStart, Char.isAlpha, Char.isUpper, Char.isLower]
    · simp only [bind_def]; rw [lit_fail_head _ _ _ _ _ (by decide)]
  · simp only [bind_def]; rw [lit_fail_head _ _ _ _ _ (by decide)]

theorem alt1_fail_double (rec : P Expr) (rest : List Char) (e : Bool) :
    shiftAlt1 rec ('2' :: rest) e = (none, e) := by
  unfold shiftAlt1
  simp only [bind_def]
  rw [ws_id _ _ (by intro c t h; cases h; decide)]
  simp only []
  rw [base_fail_two]

theorem alt2_ok_double (rec : P Expr) (x : Expr) (r : List Char) (e : Bool) (hx : WF x) (hr : EndTok r)
    (hrec : isAtom x = false → RecOK rec x) :
    shiftAlt2 rec ('2' :: '*' :: (wrapU x ++ r)) e = (some (Expr.double x, r), e) := by
  unfold shiftAlt2
  simp only [bind_def]
  rw [ws_id _ _ (by intro c t h; cases h; decide)]
  simp only []
  have hd : doubleOp ('2' :: '*' :: (wrapU x ++ r)) e = (some ((), wrapU x ++ r), e) := by
    unfold doubleOp
    apply por_left
    simp only [bind_def]
    rw [lit_cons_ok]
    simp only []
    rw [ws_id _ _ (by intro c t h; cases h; decide)]
    simp only []
    rw [lit_cons_ok]
  rw [hd]
  simp only []
  rw [ws_id _ _ (wrap_noWs hx r)]
  simp only []
  rw [base_rt rec x r e hx hr hrec]
  rfl

theorem natStr_noWs (n : Nat) (r : List Char) : NoWsHead (natStr n ++ r) := by
  intro c t h
  rw [natStr_eq] at h
  cases hd : Nat.toDigits 10 n with
  | nil => exact absurd hd Nat.toDigits_ne_nil
  | cons a b =>
    rw [hd] at h
    simp at h
    have : a.isDigit = true := Nat.isDigit_of_mem_toDigits (b := 10) (n := n) (by omega) (by omega) (by rw [hd]; simp)
    rw [← h.1]
    exact digit_not_ws a this

theorem alt1_ok_shift (rec : P Expr) (x : Expr) (k : Nat) (r : List Char) (e : Bool) (hx : WF x)
    (hk : k < 2^64) (hr : EndTok r) (hrec : isAtom x = false → RecOK rec x) :
    shiftAlt1 rec (wrapU x ++ (' ' :: '<' :: '<' :: ' ' :: (natStr k ++ r))) e
      = (some (Expr.shift x k, dropWs r), e) := by
  unfold shiftAlt1
  simp only [bind_def]
  rw [ws_id _ _ (wrap_noWs hx _)]
  simp only []
  rw [base_rt rec x _ e hx (endTok_cons (by decide)) hrec]
  simp only []
  have hws1 : ws (' ' :: '<' :: '<' :: ' ' :: (natStr k ++ r)) e = (some ((), '<' :: '<' :: ' ' :: (natStr k ++ r)), e) := by
    simp [ws, isWs]
  rw [hws1]
  simp only []
  rw [shiftOp_ok]
  simp only []
  have hws2 : ws (' ' :: (natStr k ++ r)) e = (some ((), natStr k ++ r), e) := by
    rw [ws_def]
    have : List.dropWhile isWs (' ' :: (natStr k ++ r)) = List.dropWhile isWs (natStr k ++ r) := by
      simp [List.dropWhile, isWs]
    rw [this]
    exact ws_id _ e (natStr_noWs k r)
  rw [hws2]
  simp only []
  rw [uintLit_ok k r e hk hr]
  rfl

/-- Round trip at ShiftExpr level. The remaining input may lose leading blanks. -/
theorem shiftE_rt (rec : P Expr) (t : Expr) (r : List Char) (e : Bool) (ht : WF t)
    (hr : EndTok r) (hns : NoShiftOp r)
    (hrec : ∀ x, WF x → pdepth x < (if isAdd t then pdepth t + 1 else pdepth t) → RecOK rec x) :
    ∃ r', shiftE rec (wrapR t ++ r) e = (some (t, r'), e) ∧ dropWs r' = dropWs r := by
  rw [shiftE_def]
  cases t with
  | operand i =>
    have hw : wrapR (Expr.operand i) = wrapU (Expr.operand i) := by simp [wrapR, wrapU, isAdd, isAtom]
    refine ⟨r, ?_, rfl⟩
    rw [hw, por_right (alt1_fail_base rec _ r e ht hr hns (by simp [isAtom])),
      por_right (alt2_fail_base rec _ r e ht hr)]
    exact base_rt rec _ r e ht hr (by simp [isAtom])
  | ident s =>
    have hw : wrapR (Expr.ident s) = wrapU (Expr.ident s) := by simp [wrapR, wrapU, isAdd, isAtom]
    refine ⟨r, ?_, rfl⟩
    rw [hw, por_right (alt1_fail_base rec _ r e ht hr hns (by simp [isAtom])),
      por_right (alt2_fail_base rec _ r e ht hr)]
    exact base_rt rec _ r e ht hr (by simp [isAtom])
  | add a b =>
    have hw : wrapR (Expr.add a b) = wrapU (Expr.add a b) := by simp [wrapR, wrapU, isAdd, isAtom]
    have hro : RecOK rec (Expr.add a b) := hrec _ ht (by simp [isAdd])
    refine ⟨r, ?_, rfl⟩
    rw [hw, por_right (alt1_fail_base rec _ r e ht hr hns (fun _ => hro)),
      por_right (alt2_fail_base rec _ r e ht hr)]
    exact base_rt rec _ r e ht hr (fun _ => hro)
  | double x =>
    cases ht with
    | double _ hx =>
    have hsub : isAtom x = false → RecOK rec x := by
      intro ha
      apply hrec x hx
      simp [isAdd, pdepth, ha]
    refine ⟨r, ?_, rfl⟩
    have hw : wrapR (Expr.double x) ++ r = '2' :: '*' :: (wrapU x ++ r) := by
      simp [wrapR, isAdd, body_double]
    rw [hw, por_right (alt1_fail_double rec _ e)]
    exact por_left (alt2_ok_double rec x r e hx hr hsub)
  | shift x k =>
    cases ht with
    | shift _ _ hx hk =>
    have hsub : isAtom x = false → RecOK rec x := by
      intro ha
      apply hrec x hx
      simp [isAdd, pdepth, ha]
    refine ⟨dropWs r, ?_, ?_⟩
    · have hw : wrapR (Expr.shift x k) ++ r = wrapU x ++ (' ' :: '<' :: '<' :: ' ' :: (natStr k ++ r)) := by
        simp [wrapR, isAdd, body_shift]
      rw [hw]
      exact por_left (alt1_ok_shift rec x k r e hx hk hr hsub)
    · exact dropWs_idem r


/-! ### AddExpr -/
def addStep (rec : P Expr) : P Expr := do ws; addOp; ws; shiftE rec

theorem addRest_succ (rec : P Expr) (n : Nat) (acc : Expr) (s : List Char) (e : Bool) :
    addRest rec (n+1) acc s e = match addStep rec s e with
      | (some (y, s'), e') => addRest rec n (Expr.add acc y) s' e'
      | (none, e') => (some (acc, s), e') := rfl

theorem addOp_fail (r : List Char) (e : Bool) (h : NoAddOp r) : addOp (dropWs r) e = (none, e) := by
  unfold addOp
  rw [por_right (lit_fail_of_not_prefix _ _ e h.1)]
  exact lit_fail_of_not_prefix _ _ e h.2

theorem addRest_stop (rec : P Expr) (n : Nat) (acc : Expr) (r : List Char) (e : Bool) (h : NoAddOp r) :
    addRest rec n acc r e = (some (acc, r), e) := by
  cases n with
  | zero => rfl
  | succ n =>
    rw [addRest_succ]
    have : addStep rec r e = (none, e) := by
      unfold addStep
      simp only [bind_def]
      rw [ws_def]
      simp only []
      rw [show List.dropWhile isWs r = dropWs r from rfl, addOp_fail r e h]
    rw [this]

def nadds : Expr → Nat
  | .add x _ => nadds x + 1
  | _ => 0

/-- one turn of the loop on `… + y` (leading blanks of the input are irrelevant) -/
theorem addRest_step (rec : P Expr) (n : Nat) (acc y : Expr) (s r : List Char) (e : Bool)
    (hs : dropWs s = '+' :: ' ' :: (wrapR y ++ r)) (hy : WF y) (hr : EndTok r) (hns : NoShiftOp r)
    (hrec : ∀ x, WF x → pdepth x < (if isAdd y then pdepth y + 1 else pdepth y) → RecOK rec x) :
    ∃ r', addRest rec (n+1) acc s e = addRest rec n (Expr.add acc y) r' e ∧ dropWs r' = dropWs r := by
  obtain ⟨r', h1, h2⟩ := shiftE_rt rec y r e hy hr hns hrec
  refine ⟨r', ?_, h2⟩
  rw [addRest_succ]
  have : addStep rec s e = (some (y, r'), e) := by
    unfold addStep
    simp only [bind_def]
    rw [ws_def]
    simp only []
    rw [show List.dropWhile isWs s = dropWs s from rfl, hs]
    have ha : addOp ('+' :: ' ' :: (wrapR y ++ r)) e = (some ((), ' ' :: (wrapR y ++ r)), e) := by
      unfold addOp
      apply por_left
      exact lit_cons_ok '+' _ e
    rw [ha]
    simp only []
    have hw : ws (' ' :: (wrapR y ++ r)) e = (some ((), wrapR y ++ r), e) := by
      rw [ws_def]
      have : List.dropWhile isWs (' ' :: (wrapR y ++ r)) = List.dropWhile isWs (wrapR y ++ r) := by
        simp [List.dropWhile, isWs]
      rw [this]
      apply ws_id
      cases hay : isAdd y with
      | true => rw [wrapR_paren hay]; intro c t h; cases h; decide
      | false => rw [wrapR_nonadd hay]; exact body_noWs hy r
    rw [hw]
    simp only []
    exact h1
  rw [this]

theorem noShiftOp_plus (rest : List Char) : NoShiftOp (' ' :: '+' :: rest) := by
  constructor <;> simp [dropWs, List.dropWhile, isWs, List.isPrefixOf]

theorem dropWs_plus (rest : List Char) : dropWs (' ' :: '+' :: rest) = '+' :: rest := by
  simp [dropWs, List.dropWhile, isWs]

/-- the left spine: after reading the text of `t`, the loop holds `t` as accumulator -/
theorem spine (rec : P Expr) : ∀ (t : Expr) (k : Nat) (r : List Char) (e : Bool), WF t → nadds t ≤ k →
    EndTok r → NoShiftOp r →
    (∀ x, WF x → pdepth x < pdepth t → RecOK rec x) →
    ∃ r', (do let x ← shiftE rec; addRest rec k x : P Expr) (body t ++ r) e
        = addRest rec (k - nadds t) t r' e ∧ dropWs r' = dropWs r := by
  intro t
  induction t with
  | add x y ihx _ =>
    intro k r e ht hk hr hns hrec
    cases ht with
    | add _ _ hx hy =>
    have hk' : nadds x + 1 ≤ k := hk
    have hbody : body (Expr.add x y) ++ r = body x ++ (' ' :: '+' :: ' ' :: (wrapR y ++ r)) := by
      rw [body_add]; simp
    rw [hbody]
    obtain ⟨r1, h1, h2⟩ := ihx k (' ' :: '+' :: ' ' :: (wrapR y ++ r)) e hx (by omega)
      (endTok_cons (by decide)) (noShiftOp_plus _)
      (fun z hz hd => hrec z hz (by simp only [pdepth]; omega))
    rw [h1]
    have hd : dropWs r1 = '+' :: ' ' :: (wrapR y ++ r) := by rw [h2, dropWs_plus]
    have hkk : k - nadds x = (k - nadds x - 1) + 1 := by omega
    rw [hkk]
    obtain ⟨r2, h3, h4⟩ := addRest_step rec (k - nadds x - 1) x y r1 r e hd hy hr hns
      (fun z hz hdz => hrec z hz (by
        simp only [pdepth]
        split at hdz <;> rename_i hay <;> simp [hay] <;> omega))
    refine ⟨r2, ?_, h4⟩
    rw [h3]
    show _ = addRest rec (k - (nadds x + 1)) _ _ _
    rw [show k - nadds x - 1 = k - (nadds x + 1) by omega]
  | operand i =>
    intro k r e ht hk hr hns hrec
    obtain ⟨r', h1, h2⟩ := shiftE_rt rec (Expr.operand i) r e ht hr hns
      (fun z hz hd => hrec z hz (by simpa [isAdd] using hd))
    refine ⟨r', ?_, h2⟩
    have : wrapR (Expr.operand i) = body (Expr.operand i) := wrapR_nonadd rfl
    rw [this] at h1
    simp only [bind_def, h1, nadds, Nat.sub_zero]
  | ident s =>
    intro k r e ht hk hr hns hrec
    obtain ⟨r', h1, h2⟩ := shiftE_rt rec (Expr.ident s) r e ht hr hns
      (fun z hz hd => hrec z hz (by simpa [isAdd] using hd))
    refine ⟨r', ?_, h2⟩
    have : wrapR (Expr.ident s) = body (Expr.ident s) := wrapR_nonadd rfl
    rw [this] at h1
    simp only [bind_def, h1, nadds, Nat.sub_zero]
  | shift x s _ =>
    intro k r e ht hk hr hns hrec
    obtain ⟨r', h1, h2⟩ := shiftE_rt rec (Expr.shift x s) r e ht hr hns
      (fun z hz hd => hrec z hz (by simpa [isAdd] using hd))
    refine ⟨r', ?_, h2⟩
    have : wrapR (Expr.shift x s) = body (Expr.shift x s) := wrapR_nonadd rfl
    rw [this] at h1
    simp only [bind_def, h1, nadds, Nat.sub_zero]
  | double x _ =>
    intro k r e ht hk hr hns hrec
    obtain ⟨r', h1, h2⟩ := shiftE_rt rec (Expr.double x) r e ht hr hns
      (fun z hz hd => hrec z hz (by simpa [isAdd] using hd))
    refine ⟨r', ?_, h2⟩
    have : wrapR (Expr.double x) = body (Expr.double x) := wrapR_nonadd rfl
    rw [this] at h1
    simp only [bind_def, h1, nadds, Nat.sub_zero]


/-! ### Expr: the round-trip theorem -/
theorem bind_assoc' (p : P α) (f : α → P β) (g : β → P γ) (s : List Char) (e : Bool) :
    (p >>= fun a => f a >>= g) s e = ((p >>= f) >>= g) s e := by
  simp only [bind_def]
  rcases p s e with ⟨_ | ⟨a, s'⟩, e'⟩ <;> rfl

theorem nadds_le_length : ∀ (t : Expr), nadds t ≤ (body t).length := by
  intro t
  induction t with
  | add x y ih _ => rw [body_add]; simp [nadds]; omega
  | _ => simp [nadds]

theorem noAddOp_of_dropWs {r r' : List Char} (h : dropWs r' = dropWs r) (hr : NoAddOp r) : NoAddOp r' := by
  unfold NoAddOp at *; rw [h]; exact hr

theorem addE_eq (rec : P Expr) (s : List Char) (e : Bool) :
    addE rec s e = (ws >>= fun _ => ((shiftE rec >>= fun x => addRest rec s.length x) >>= fun r =>
      (ws >>= fun _ => (pure r : P Expr)))) s e := by
  unfold addE
  simp only [bind_def]
  rcases ws s e with ⟨_ | ⟨a, s'⟩, e'⟩
  · rfl
  · simp only []
    rcases shiftE rec s' e' with ⟨_ | ⟨x, s''⟩, e''⟩ <;> rfl

theorem expr_rt : ∀ (n : Nat) (t : Expr), WF t → pdepth t < n → ∀ (r : List Char) (e : Bool),
    EndTok r → NoShiftOp r → NoAddOp r → expr n (body t ++ r) e = (some (t, dropWs r), e) := by
  intro n
  induction n with
  | zero => intro t _ h; omega
  | succ n ih =>
    intro t ht hd r e hr hns hna
    have hrec : ∀ x, WF x → pdepth x < pdepth t → RecOK (expr n) x := by
      intro x hx hdx r' e'
      have := ih x hx (by omega) (')' :: r') e' (endTok_cons (by decide))
        (by constructor <;> simp [dropWs, List.dropWhile, isWs, List.isPrefixOf])
        (by constructor <;> simp [dropWs, List.dropWhile, isWs, List.isPrefixOf])
      rw [this]
      simp [dropWs, List.dropWhile, isWs]
    show addE (expr n) (body t ++ r) e = _
    rw [addE_eq]
    obtain ⟨r', h1, h2⟩ := spine (expr n) t (body t ++ r).length r e ht
      (by have := nadds_le_length t; simp; omega) hr hns hrec
    rw [addRest_stop _ _ _ _ _ (noAddOp_of_dropWs h2 hna)] at h1
    rw [bind_def, ws_id _ _ (body_noWs ht r)]
    simp only []
    rw [bind_def, h1]
    simp only [bind_def, ws_def, pure_def]
    rw [show List.dropWhile isWs r' = dropWs r' from rfl, h2]

/-- non-vacuity: a nested tree with every operator, and the closed round trip on it -/
example : WF (.add (.ident ['a']) (.add (.shift (.double (.operand 0)) 3) (.operand 7))) := by
  refine .add _ _ (.ident _ ⟨'a', [], rfl, by decide, by simp⟩ (by unfold SafeIdent; decide)) (.add _ _ (.shift _ _ (.double _ (.operand _ (by decide))) (by decide)) (.operand _ (by decide)))

theorem expr_rt_closed (t : Expr) (ht : WF t) :
    expr (pdepth t + 1) (body t) false = (some (t, []), false) := by
  have := expr_rt (pdepth t + 1) t ht (by omega) [] false (by intro c cs h; cases h)
    (by constructor <;> simp [dropWs, List.isPrefixOf]) (by constructor <;> simp [dropWs, List.isPrefixOf])
  simpa [dropWs] using this

end P.Peg

