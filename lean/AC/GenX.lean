import AC.AllocX
import AC.Listing2
import AC.Gen.GenPasses
/-! # Executable model of output generation (`internal/gen`) for the builtin templates

`prepareX` = `gen.PrepareData` after `acc.Translate`: the passes named in the list extracted from
`gen.go` (`AC.Gen.genPasses`) applied in order to the translated program; the renderers are
hand-models of `templates/listing.tmpl`, `chain.tmpl`, `ops.tmpl` (tied to the template files by
source expectations and to `text/template` by exact output comparison). -/
namespace AC.GenX
open P.Alloc AC.AllocX

/-! ### `pass.Validate` = `CheckDanglingInputs`, then `CheckUniqueOutputs` -/
def danglingFrom (defined : List Nat) : List Inst → Bool
  | [] => true
  | i :: r => i.op.inputs.all (fun x => defined.contains x) && danglingFrom (i.out :: defined) r

/-- `pass.CheckUniqueOutputs`: no instruction outputs index 0 or an index already output -/
def uniqueFrom (defined : List Nat) : List Inst → Bool
  | [] => true
  | i :: r => !defined.contains i.out && uniqueFrom (i.out :: defined) r

/-- `pass.Validate`: `true` = every input is index 0 or the output of an earlier instruction, and
    every output index is new (not 0, not the output of an earlier instruction) -/
def validateB (ir : List Inst) : Bool := danglingFrom [0] ir && uniqueFrom [0] ir

/-! ### `pass.Compile` / `pass.Eval` -/

/-- `Program.Add` with its bounds check (the chain is one longer than the program) -/
def progAdd (p : Array (Nat × Nat)) (i j : Nat) : Except String (Array (Nat × Nat) × Nat) :=
  if i > p.size then .error "index out of bounds"
  else if j > p.size then .error "index out of bounds"
  else let p' := p.push (i, j); .ok (p', p'.size)

/-- `Program.Shift`: `s` doublings; returns the operand itself when `s = 0` -/
def progShift (p : Array (Nat × Nat)) (i : Nat) : Nat → Except String (Array (Nat × Nat) × Nat)
  | 0 => .ok (p, i)
  | s + 1 =>
    match progAdd p i i with
    | .ok (p', next) => progShift p' next s
    | .error e => .error e

def compileFrom (p : Array (Nat × Nat)) : List Inst → Except String (Array (Nat × Nat))
  | [] => .ok p
  | i :: r =>
    let res := match i.op with
      | .add x y => progAdd p x y
      | .dbl x => progAdd p x x
      | .shl x s => progShift p x s
    match res with
    | .error e => .error e
    | .ok (p', out) => if out ≠ i.out then .error "incorrect output index" else compileFrom p' r

def compileX (ir : List Inst) : Except String (List (Nat × Nat)) :=
  match compileFrom #[] ir with
  | .ok p => .ok p.toList
  | .error e => .error e

/-- `Program.Evaluate` -/
def evaluateX (ops : List (Nat × Nat)) : List Nat :=
  (ops.foldl (fun (c : Array Nat) o => c.push (c.getD o.1 0 + c.getD o.2 0)) #[1]).toList

/-! ### which output operand objects are canonical

`acc.Translate` creates a fresh operand object for every instruction output.
`CanonicalizeOperands` makes the *first* occurrence of an index (inputs before the output within an
instruction) the canonical object, replaces instruction inputs by canonical objects, and leaves
outputs alone. The allocator names canonical objects only, so an output whose index occurred
earlier keeps the identifier the script gave it (and prints as `[index]` when it has none). -/
def outCanonFrom (seen : List Nat) : List Inst → List Bool
  | [] => []
  | i :: r =>
    let seen' := i.op.inputs ++ seen
    (!seen'.contains i.out) :: outCanonFrom (i.out :: seen') r

def outCanon (ir : List Inst) : List Bool := outCanonFrom [] ir

/-- `Operand.String()` for an operand without identifier -/
def indexName (i : Nat) : String := "[" ++ toString i ++ "]"

def fixOutputs (ir : List Inst) (preOut : List String) (prog : List (NInst String)) : List (NInst String) :=
  (prog.zip ((outCanon ir).zip (ir.zip preOut))).map fun (n, canon, inst, pre) =>
    if canon then n else { n with out := if pre = "" then indexName inst.out else pre }

/-! ### `gen.PrepareData` -/
structure Data where
  chain : List Nat := []
  ops : List (Nat × Nat) := []
  prog : List (NInst String) := []
  temps : List String := []

/-- one pass of the extracted list; an unknown pass expression is an error of the model -/
def applyPass (cfg : Cfg String) (ir : List Inst) (occ : List (Nat × String)) (preOut : List String)
    (d : Data) (pass : String) : Except String Data :=
  if pass = "pass.Validate" then
    if !danglingFrom [0] ir then .error "no output instruction for input index"
    else if !uniqueFrom [0] ir then .error "multiple definitions of index"
    else .ok d
  else if pass = "cfg.Allocator" then
    match allocateN cfg ir occ with
    | .ok (prog, temps) => .ok { d with prog := fixOutputs ir preOut prog, temps := temps }
    | .error e => .error e
  else if pass = "pass.Func(pass.Eval)" then
    match compileX ir with
    | .ok ops => .ok { d with ops := ops, chain := evaluateX ops }
    | .error e => .error e
  else .error ("model: unknown pass " ++ pass)

def runPasses (cfg : Cfg String) (ir : List Inst) (occ : List (Nat × String)) (preOut : List String) :
    List String → Data → Except String Data
  | [], d => .ok d
  | p :: r, d =>
    match applyPass cfg ir occ preOut d p with
    | .ok d' => runPasses cfg ir occ preOut r d'
    | .error e => .error e

def prepareX (cfg : Cfg String) (ir : List Inst) (occ : List (Nat × String)) (preOut : List String) :
    Except String Data :=
  runPasses cfg ir occ preOut AC.Gen.genPasses {}

/-! ### the templates -/

/-- `listing.tmpl`: `tmp\t` followed by the tab-joined temporaries (nothing after the tab when
    there are none), then one line per instruction; every line ends with a newline -/
def tmpLineX (tmps : List (List Char)) : List Char :=
  "tmp\t".toList ++ P.Listing.joinWith '\t' tmps

def renderListingX (tmps : List (List Char)) (ls : List P.Listing.Line) : List Char :=
  P.Listing.joinWith '\n' (tmpLineX tmps :: ls.map P.Listing.renderLine) ++ ['\n']

def toLine (i : NInst String) : P.Listing.Line :=
  match i.op with
  | .add x y => ⟨i.out.toList, .add x.toList y.toList⟩
  | .dbl x => ⟨i.out.toList, .dbl x.toList⟩
  | .shl x s => ⟨i.out.toList, .shl x.toList s⟩

def listingOf (d : Data) : String :=
  String.ofList (renderListingX (d.temps.map String.toList) (d.prog.map toLine))

def padLeft (w : Nat) (s : List Char) : List Char := List.replicate (w - s.length) ' ' ++ s
def padRight (w : Nat) (s : List Char) : List Char := s ++ List.replicate (w - s.length) ' '
def dec (n : Nat) : List Char := Nat.toDigits 10 n
/-- `%#x` of a non-negative big integer -/
def hex0x (n : Nat) : List Char := '0' :: 'x' :: Nat.toDigits 16 n

/-- `chain.tmpl`: `printf "%3d: %#x\n" (inc n) value` per chain element -/
def chainLine (n v : Nat) : List Char := padLeft 3 (dec (n + 1)) ++ ": ".toList ++ hex0x v ++ ['\n']

def renderChainFrom (n : Nat) : List Nat → List Char
  | [] => []
  | v :: r => chainLine n v ++ renderChainFrom (n + 1) r

def renderChain (c : List Nat) : List Char := renderChainFrom 0 c

/-- `ops.tmpl`: `printf "[%3d] %4d+%-4d %#x\n" n op.I op.J chain[n+1]` per operation -/
def opsLine (n i j v : Nat) : List Char :=
  '[' :: padLeft 3 (dec n) ++ "] ".toList ++ padLeft 4 (dec i) ++ ['+'] ++ padRight 4 (dec j) ++ [' '] ++
    hex0x v ++ ['\n']

def renderOpsFrom (n : Nat) : List (Nat × Nat) → List Nat → List Char
  | o :: r, v :: vs => opsLine n o.1 o.2 v ++ renderOpsFrom (n + 1) r vs
  | _, _ => []

/-- operation `n` is printed with chain element `n + 1` -/
def renderOps (ops : List (Nat × Nat)) (c : List Nat) : List Char := renderOpsFrom 0 ops c.tail

/-- what the outputs are expected to list: (position, value) from position `n` on -/
def enumChain (n : Nat) : List Nat → List (Nat × Nat)
  | [] => []
  | v :: r => (n + 1, v) :: enumChain (n + 1) r

def enumOps (n : Nat) : List (Nat × Nat) → List Nat → List (Nat × Nat × Nat × Nat)
  | o :: r, v :: vs => (n, o.1, o.2, v) :: enumOps (n + 1) r vs
  | _, _ => []

/-! ### the documented reading of the `chain` and `ops` outputs -/
def hexv (c : Char) : Nat := if c.isDigit then c.toNat - 48 else c.toNat - 87
def isHexChar (c : Char) : Bool := c.isDigit || ('a' ≤ c && c ≤ 'f')

/-- `0x` followed by at least one lower-case hexadecimal digit -/
def readHex0x : List Char → Option Nat
  | '0' :: 'x' :: ds =>
    if ds ≠ [] ∧ ds.all isHexChar then some (ds.foldl (fun a c => a * 16 + hexv c) 0) else none
  | _ => none

def skipSp (l : List Char) : List Char := l.dropWhile (· == ' ')

def mapOpt {α β} (f : α → Option β) : List α → Option (List β)
  | [] => some []
  | a :: r => match f a, mapOpt f r with
    | some b, some bs => some (b :: bs)
    | _, _ => none

/-- `<spaces>n: 0x…` ↦ (n, value) -/
def readChainLine (l : List Char) : Option (Nat × Nat) :=
  let l1 := skipSp l
  match l1.dropWhile Char.isDigit with
  | ':' :: ' ' :: h =>
    match P.Listing.readNat (l1.takeWhile Char.isDigit), readHex0x h with
    | some n, some v => some (n, v)
    | _, _ => none
  | _ => none

/-- the chain output: one line per element, every line newline-terminated -/
def readChain (s : List Char) : Option (List (Nat × Nat)) :=
  mapOpt readChainLine (P.Listing.splitAt '\n' s).dropLast

/-- `[<spaces>n] <spaces>i+j<spaces> 0x…` ↦ (n, i, j, value) -/
def readOpsLine (l : List Char) : Option (Nat × Nat × Nat × Nat) :=
  match l with
  | '[' :: r =>
    let r1 := skipSp r
    match r1.dropWhile Char.isDigit with
    | ']' :: ' ' :: r2 =>
      let r3 := skipSp r2
      match r3.dropWhile Char.isDigit with
      | '+' :: r4 =>
        match P.Listing.readNat (r1.takeWhile Char.isDigit), P.Listing.readNat (r3.takeWhile Char.isDigit),
          P.Listing.readNat (r4.takeWhile Char.isDigit), readHex0x (skipSp (r4.dropWhile Char.isDigit)) with
        | some n, some i, some j, some v => some (n, i, j, v)
        | _, _, _, _ => none
      | _ => none
    | _ => none
  | _ => none

def readOps (s : List Char) : Option (List (Nat × Nat × Nat × Nat)) :=
  mapOpt readOpsLine (P.Listing.splitAt '\n' s).dropLast

end AC.GenX
