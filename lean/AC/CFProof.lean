import AC.CF
namespace P

structure GoodC (c : List Int) : Prop where
  asc : c.Pairwise (· < ·)
  head : c.head? = some 1
  pos : ∀ x ∈ c, 1 ≤ x
  closed : ∀ x ∈ c, x = 1 ∨ ∃ a ∈ c, ∃ b ∈ c, a + b = x

/-- `c` is a good chain containing `ns` and ending at the last (largest) element of `ns` -/
structure GoodFor (ns c : List Int) : Prop where
  good : GoodC c
  sup : ∀ n ∈ ns, n ∈ c
  last : c.getLastD 0 = ns.getLastD 0

theorem GoodC.isChain {c} (h : GoodC c) : IsChain c :=
  chain_of_closed c h.asc (fun x hx => by have := h.pos x hx; omega) h.head h.closed

theorem GoodC.ne_nil {c} (h : GoodC c) : c ≠ [] := by intro e; have := h.head; simp [e] at this
theorem GoodC.one_mem {c} (h : GoodC c) : (1 : Int) ∈ c := by
  cases c with
  | nil => exact absurd rfl h.ne_nil
  | cons x r => have := h.head; simp at this; simp [this]

theorem getLastD_append_singleton (l : List Int) (x d : Int) : (l ++ [x]).getLastD d = x := by
  simp [List.getLastD_eq_getLast?]

theorem getLastD_append_ne_nil (l r : List Int) (d : Int) (h : r ≠ []) : (l ++ r).getLastD d = r.getLastD d := by
  simp only [List.getLastD_eq_getLast?, List.getLast?_append]
  cases hr : r.getLast? with
  | none => simp at hr; exact absurd hr h
  | some v => simp

theorem getLastD_map_mul (A : Int) (l : List Int) : (l.map (A * ·)).getLastD 0 = A * l.getLastD 0 := by
  simp only [List.getLastD_eq_getLast?, List.getLast?_map]
  cases l.getLast? <;> simp

theorem le_last_of_pairwise (c : List Int) (h : c.Pairwise (· < ·)) : ∀ x ∈ c, x ≤ c.getLastD 0 := by
  intro x hx
  have hne : c ≠ [] := by intro e; simp [e] at hx
  obtain ⟨hd, ht⟩ := pairwise_split_last c h hne
  have hs := dropLast_concat_getLastD c hne
  generalize c.getLastD 0 = L at *
  rw [hs] at hx
  rcases List.mem_append.mp hx with h1 | h1
  · have := ht x h1; omega
  · have : x = L := by simpa using h1
    omega

theorem getLastD_default (a : List Int) (h : a ≠ []) (d1 d2 : Int) : a.getLastD d1 = a.getLastD d2 := by
  cases a with
  | nil => exact absurd rfl h
  | cons x t => rfl

/-- `addchain.Plus` -/
theorem plus_good (a : List Int) (x : Int) (ha : GoodC a) (hx : x ∈ a) :
    GoodC (plus a x) ∧ (plus a x).getLastD 0 = a.getLastD 0 + x ∧ ∀ y ∈ a, y ∈ plus a x := by
  have hne := ha.ne_nil
  have hlm : a.getLastD 0 ∈ a := getLastD_mem a hne
  have hle := le_last_of_pairwise a ha.asc
  have hxp := ha.pos x hx
  unfold plus
  rw [getLastD_default a hne 1 0]
  generalize a.getLastD 0 = A at *
  refine ⟨⟨?_, ?_, ?_, ?_⟩, getLastD_append_singleton _ _ _, fun y hy => List.mem_append_left _ hy⟩
  · apply List.pairwise_append.mpr
    refine ⟨ha.asc, by simp, ?_⟩
    intro y hy z hz
    have : z = A + x := by simpa using hz
    have := hle y hy; omega
  · cases a with
    | nil => exact absurd rfl hne
    | cons h t => simpa using ha.head
  · intro y hy
    rcases List.mem_append.mp hy with h | h
    · exact ha.pos y h
    · have : y = A + x := by simpa using h
      have := ha.pos _ hlm; omega
  · intro y hy
    rcases List.mem_append.mp hy with h | h
    · rcases ha.closed y h with h1 | ⟨p, hp, q, hq, hpq⟩
      · exact Or.inl h1
      · exact Or.inr ⟨p, List.mem_append_left _ hp, q, List.mem_append_left _ hq, hpq⟩
    · have : y = A + x := by simpa using h
      exact Or.inr ⟨A, List.mem_append_left _ hlm, x, List.mem_append_left _ hx, this.symm⟩


theorem goodC_split (b : List Int) (hb : GoodC b) : ∃ b', b = 1 :: b' ∧ (∀ x ∈ b', 2 ≤ x) ∧ b'.Pairwise (· < ·) := by
  cases b with
  | nil => exact absurd rfl hb.ne_nil
  | cons h t =>
    have : h = 1 := by have := hb.head; simpa using this
    subst this
    refine ⟨t, rfl, ?_, (List.pairwise_cons.mp hb.asc).2⟩
    intro x hx
    have := (List.pairwise_cons.mp hb.asc).1 x hx
    omega

/-- `addchain.Product` -/
theorem product_good (a b : List Int) (ha : GoodC a) (hb : GoodC b) :
    GoodC (product a b) ∧ (product a b).getLastD 0 = a.getLastD 0 * b.getLastD 0 ∧
    ∀ y ∈ a, y ∈ product a b := by
  have hne := ha.ne_nil
  have hlm : a.getLastD 0 ∈ a := getLastD_mem a hne
  have hle := le_last_of_pairwise a ha.asc
  obtain ⟨b', rfl, hb2, hb'asc⟩ := goodC_split b hb
  unfold product
  rw [getLastD_default a hne 1 0]
  have hA1 : 1 ≤ a.getLastD 0 := ha.pos _ hlm
  have hlastb : (1 :: b').getLastD 0 = if b' = [] then 1 else b'.getLastD 0 := by
    cases b' with
    | nil => rfl
    | cons x t => simp [List.getLastD_eq_getLast?]
  generalize hA : a.getLastD 0 = A at *
  simp only [List.drop_succ_cons, List.drop_zero]
  have hmulgt : ∀ x ∈ b', A < A * x := by
    intro x hx
    have h2 := hb2 x hx
    have : A * 2 ≤ A * x := Int.mul_le_mul_of_nonneg_left h2 (by omega)
    omega
  refine ⟨⟨?_, ?_, ?_, ?_⟩, ?_, fun y hy => List.mem_append_left _ hy⟩
  · apply List.pairwise_append.mpr
    refine ⟨ha.asc, ?_, ?_⟩
    · rw [List.pairwise_map]
      exact hb'asc.imp (fun h => Int.mul_lt_mul_of_pos_left h (by omega))
    · intro y hy z hz
      obtain ⟨x, hx, rfl⟩ := List.mem_map.mp hz
      have := hle y hy; have := hmulgt x hx; omega
  · cases a with
    | nil => exact absurd rfl hne
    | cons h t => simpa using ha.head
  · intro y hy
    rcases List.mem_append.mp hy with h | h
    · exact ha.pos y h
    · obtain ⟨x, hx, rfl⟩ := List.mem_map.mp h
      have := hmulgt x hx; omega
  · intro y hy
    rcases List.mem_append.mp hy with h | h
    · rcases ha.closed y h with h1 | ⟨p, hp, q, hq, hpq⟩
      · exact Or.inl h1
      · exact Or.inr ⟨p, List.mem_append_left _ hp, q, List.mem_append_left _ hq, hpq⟩
    · obtain ⟨x, hx, rfl⟩ := List.mem_map.mp h
      right
      have hx1 : x ≠ 1 := by have := hb2 x hx; omega
      rcases hb.closed x (by simp [hx]) with h1 | ⟨p, hp, q, hq, hpq⟩
      · exact absurd h1 hx1
      · have lift : ∀ z, z ∈ (1 :: b') → A * z ∈ a ++ List.map (fun x => A * x) b' := by
          intro z hz
          rcases List.mem_cons.mp hz with rfl | hz
          · rw [Int.mul_one]; exact List.mem_append_left _ hlm
          · exact List.mem_append_right _ (List.mem_map.mpr ⟨z, hz, rfl⟩)
        refine ⟨A * p, lift p hp, A * q, lift q hq, ?_⟩
        rw [← Int.mul_add, hpq]
  · rw [hlastb]
    by_cases hb'e : b' = []
    · subst hb'e
      simp only [List.map_nil, List.append_nil, if_true, Int.mul_one]
      exact hA
    · simp only [hb'e, if_false]
      rw [getLastD_append_ne_nil _ _ _ (by simpa using hb'e), getLastD_map_mul]


theorem pow2UpTo_good (n : Int) (h : isPow2 n = true) : GoodFor [n] (pow2UpTo n) := by
  unfold isPow2 at h
  simp only [Bool.and_eq_true, decide_eq_true_eq, beq_iff_eq] at h
  obtain ⟨hpos, hn⟩ := h
  have hb : 1 ≤ bitLenN n.toNat := by
    unfold bitLenN
    have : n.toNat ≠ 0 := by omega
    simp [this]
  generalize hbe : bitLenN n.toNat = b at *
  obtain ⟨b', rfl⟩ : ∃ b', b = b' + 1 := ⟨b - 1, by omega⟩
  simp only [Nat.add_sub_cancel] at hn
  unfold pow2UpTo
  rw [hbe]
  have hmem : ∀ x, x ∈ List.map (fun e => (2 : Int) ^ e) (List.range (b' + 1)) ↔ ∃ e, e ≤ b' ∧ x = 2 ^ e := by
    intro x
    simp only [List.mem_map, List.mem_range]
    constructor
    · rintro ⟨e, he, rfl⟩; exact ⟨e, by omega, rfl⟩
    · rintro ⟨e, he, rfl⟩; exact ⟨e, by omega, rfl⟩
  refine ⟨⟨?_, ?_, ?_, ?_⟩, ?_, ?_⟩
  · rw [List.pairwise_map]
    exact List.pairwise_lt_range.imp (fun h => two_pow_lt_int h)
  · simp [List.range_succ_eq_map]
  · intro x hx
    obtain ⟨e, _, rfl⟩ := (hmem x).1 hx
    have := two_pow_pos_int e; omega
  · intro x hx
    obtain ⟨e, he, rfl⟩ := (hmem x).1 hx
    cases e with
    | zero => left; simp
    | succ e =>
      right
      refine ⟨2 ^ e, (hmem _).2 ⟨e, by omega, rfl⟩, 2 ^ e, (hmem _).2 ⟨e, by omega, rfl⟩, ?_⟩
      rw [Int.pow_succ]; omega
  · intro m hm
    simp at hm; subst hm
    exact (hmem _).2 ⟨b', Nat.le_refl _, hn⟩
  · rw [List.range_succ, List.map_append]
    simp only [List.map_cons, List.map_nil]
    rw [getLastD_append_singleton]
    simp [List.getLastD, hn]

theorem three_good : GoodFor [3] [1, 2, 3] := by
  refine ⟨⟨by decide, rfl, by decide, ?_⟩, by simp, rfl⟩
  intro x hx
  simp at hx
  rcases hx with rfl | rfl | rfl
  · left; rfl
  · right; exact ⟨1, by simp, 1, by simp, rfl⟩
  · right; exact ⟨1, by simp, 2, by simp, rfl⟩


/-! ### inserting the remainder into the (possibly repeating) sorted targets -/
theorem insert_le_spec : ∀ (xs : List Int) (r : Int), xs ≠ [] → xs.Pairwise (· ≤ ·) → r < xs.getLastD 0 →
    (insertSortedUnique xs r).Pairwise (· ≤ ·) ∧ (insertSortedUnique xs r).getLastD 0 = xs.getLastD 0 ∧
    insertSortedUnique xs r ≠ [] := by
  intro xs
  induction xs with
  | nil => intro r h; exact absurd rfl h
  | cons y ys ih =>
    intro r _ hs hr
    unfold insertSortedUnique
    rw [mergeUnique]
    by_cases h1 : r < y
    · simp only [h1, if_true]
      have : mergeUnique [] (y :: ys) = y :: ys := by simp [mergeUnique]
      rw [this]
      refine ⟨?_, ?_, by simp⟩
      · apply List.pairwise_cons.mpr
        refine ⟨?_, hs⟩
        intro a ha
        rcases List.mem_cons.mp ha with rfl | ha
        · omega
        · have := (List.pairwise_cons.mp hs).1 a ha; omega
      · simp [List.getLastD_eq_getLast?]
    · by_cases h2 : r = y
      · subst h2
        simp only [Int.lt_irrefl, if_true, if_false]
        have : mergeUnique [] ys = ys := by cases ys <;> simp [mergeUnique]
        rw [this]
        exact ⟨hs, rfl, by simp⟩
      · simp only [h1, h2, if_false]
        cases ys with
        | nil =>
          simp [List.getLastD_eq_getLast?] at hr
          omega
        | cons z zs =>
          have hr' : r < (z :: zs).getLastD 0 := by
            simpa [List.getLastD_eq_getLast?] using hr
          obtain ⟨i1, i2, i3⟩ := ih r (by simp) (List.pairwise_cons.mp hs).2 hr'
          unfold insertSortedUnique at i1 i2 i3
          refine ⟨?_, ?_, by simp⟩
          · apply List.pairwise_cons.mpr
            refine ⟨?_, i1⟩
            intro a ha
            rcases (mem_mergeUnique _ _ _).1 ha with h | h
            · simp at h; omega
            · exact (List.pairwise_cons.mp hs).1 a h
          · have : (y :: mergeUnique [r] (z :: zs)).getLastD 0 = (mergeUnique [r] (z :: zs)).getLastD 0 := by
              cases hm : mergeUnique [r] (z :: zs) with
              | nil => exact absurd hm i3
              | cons a t => simp [List.getLastD_eq_getLast?]
            rw [this, i2]
            simp [List.getLastD_eq_getLast?]

theorem better_cases (best : Option (List Int)) (c : List Int) : better best c = best ∨ better best c = some c := by
  unfold better
  cases best with
  | none => right; rfl
  | some m => simp only []; split <;> simp

theorem goodFor_weaken_pair {k n : Int} {c : List Int} (h : GoodFor [k, n] c) : GoodFor [n] c :=
  ⟨h.good, fun x hx => h.sup x (by simp at hx; simp [hx]), by rw [h.last]; rfl⟩

theorem le_last_of_pairwise_le (c : List Int) (h : c.Pairwise (· ≤ ·)) (hne : c ≠ []) :
    c.dropLast.Pairwise (· ≤ ·) ∧ ∀ x ∈ c.dropLast, x ≤ c.getLastD 0 := by
  have hs := dropLast_concat_getLastD c hne
  rw [hs] at h
  have := List.pairwise_append.mp h
  exact ⟨this.1, fun x hx => this.2.2 x hx _ (by simp)⟩


/-! ### the continued-fraction recursion is partially correct for every strategy -/
theorem cf_ok (s : Strategy) : ∀ fuel : Nat,
    (∀ n c, 1 ≤ n → minchain s fuel n = some c → GoodFor [n] c) ∧
    (∀ n ks best c, 1 ≤ n → (∀ b, best = some b → GoodFor [n] b) →
        minLoop s fuel n ks best = some c → GoodFor [n] c) ∧
    (∀ ns c, ns ≠ [] → ns.Pairwise (· ≤ ·) → (∀ x ∈ ns, 1 ≤ x) → chain s fuel ns = some c → GoodFor ns c) := by
  intro fuel
  induction fuel with
  | zero =>
    refine ⟨?_, ?_, ?_⟩
    · intro n c _ h; simp [minchain] at h
    · intro n ks best c _ _ h; simp [minLoop] at h
    · intro ns c _ _ _ h; simp [chain] at h
  | succ f ih =>
    obtain ⟨ihMin, ihLoop, ihChain⟩ := ih
    refine ⟨?_, ?_, ?_⟩
    · -- minchain
      intro n c hn h
      rw [minchain] at h
      split at h
      · rename_i hp; cases h; exact pow2UpTo_good n hp
      · split at h
        · rename_i h3; cases h; subst h3; exact three_good
        · exact ihLoop n _ none c hn (by intro b hb; cases hb) h
    · -- minLoop
      intro n ks best c hn hbest h
      cases ks with
      | nil => rw [minLoop] at h; exact hbest c h
      | cons k ks =>
        rw [minLoop] at h
        split at h
        · rename_i hk
          cases hc : chain s f [k, n] with
          | none => rw [hc] at h; cases h
          | some c1 =>
            rw [hc] at h
            simp only [] at h
            have hg1 : GoodFor [n] c1 := goodFor_weaken_pair
              (ihChain [k, n] c1 (by simp) (by simp; omega) (by intro x hx; simp at hx; rcases hx with rfl | rfl <;> omega) hc)
            apply ihLoop n ks (better best c1) c hn _ h
            intro b hb
            rcases better_cases best c1 with e | e
            · rw [e] at hb; exact hbest b hb
            · rw [e] at hb; cases hb; exact hg1
        · cases h
    · -- chain
      intro ns c hne hsorted hpos h
      rw [chain] at h
      simp only [] at h
      have hnmem : ns.getLastD 0 ∈ ns := getLastD_mem ns hne
      have hsplit := dropLast_concat_getLastD ns hne
      obtain ⟨hrsorted, hrle⟩ := le_last_of_pairwise_le ns hsorted hne
      generalize hn : ns.getLastD 0 = n at *
      generalize hrest : ns.dropLast = rest at *
      have hn1 : 1 ≤ n := hpos n hnmem
      have hmemns : ∀ x, x ∈ ns ↔ x ∈ rest ∨ x = n := by intro x; rw [hsplit]; simp
      have hlastns : ns.getLastD 0 = n := by rw [hsplit]; exact getLastD_append_singleton _ _ _
      split at h
      · -- degenerate: all other targets are 1
        rename_i hdeg
        have hg := ihMin n c hn1 h
        refine ⟨hg.good, ?_, by rw [hg.last, hlastns]; rfl⟩
        intro x hx
        rcases (hmemns x).1 hx with hxr | rfl
        · rcases hdeg with he | hle
          · rw [he] at hxr; simp at hxr
          · have hrne : rest ≠ [] := by intro e; rw [e] at hxr; simp at hxr
            have h1 : x ≤ rest.getLastD 0 := by
              have hm := getLastD_mem rest hrne
              have hs2 := dropLast_concat_getLastD rest hrne
              rw [hs2] at hxr
              rcases List.mem_append.mp hxr with h' | h'
              · exact (le_last_of_pairwise_le rest hrsorted hrne).2 x h'
              · have : x = rest.getLastD 0 := by simpa using h'
                omega
            have h2 := hpos x hx
            have : x = 1 := by omega
            subst this; exact hg.good.one_mem
        · exact hg.sup x (by simp)
      · -- proper step
        rename_i hprop
        have hrne : rest ≠ [] := fun e => hprop (Or.inl e)
        have hm2 : ¬ rest.getLastD 0 ≤ 1 := fun e => hprop (Or.inr e)
        have hmmem : rest.getLastD 0 ∈ rest := getLastD_mem rest hrne
        generalize hm : rest.getLastD 0 = m at *
        have hmn : m ≤ n := hrle m hmmem
        have hrpos : ∀ x ∈ rest, 1 ≤ x := fun x hx => hpos x ((hmemns x).2 (Or.inl hx))
        have hq1 : 1 ≤ n / m := Int.le_ediv_of_mul_le (by omega) (by omega)
        have hdm : m * (n / m) + n % m = n := Int.mul_ediv_add_emod n m
        have hr0 : 0 ≤ n % m := Int.emod_nonneg n (by omega)
        have hrm : n % m < m := Int.emod_lt_of_pos n (by omega)
        cases hcq : minchain s f (n / m) with
        | none => rw [hcq] at h; cases h
        | some cq =>
          rw [hcq] at h
          simp only [] at h
          have hgq := ihMin (n / m) cq hq1 hcq
          have hqlast : cq.getLastD 0 = n / m := by rw [hgq.last]; rfl
          split at h
          · -- remainder 0
            rename_i hrz
            cases hc' : chain s f rest with
            | none => rw [hc'] at h; cases h
            | some c' =>
              rw [hc'] at h; simp at h; subst h
              have hg' := ihChain rest c' hrne hrsorted hrpos hc'
              obtain ⟨pg, pl, pm⟩ := product_good c' cq hg'.good hgq.good
              have hlast : (product c' cq).getLastD 0 = n := by
                rw [pl, hg'.last, hm, hqlast]; omega
              refine ⟨pg, ?_, by rw [hlast, hlastns]⟩
              intro x hx
              rcases (hmemns x).1 hx with hxr | rfl
              · exact pm x (hg'.sup x hxr)
              · have hl := getLastD_mem _ pg.ne_nil
                rw [hlast] at hl; exact hl
          · -- remainder r > 0
            rename_i hrnz
            have hr1 : 1 ≤ n % m := by omega
            obtain ⟨is1, is2, is3⟩ := insert_le_spec rest (n % m) hrne hrsorted (by rw [hm]; exact hrm)
            cases hc' : chain s f (insertSortedUnique rest (n % m)) with
            | none => rw [hc'] at h; cases h
            | some c' =>
              rw [hc'] at h; simp at h; subst h
              have hpos' : ∀ x ∈ insertSortedUnique rest (n % m), 1 ≤ x := by
                intro x hx
                rcases (mem_mergeUnique _ _ _).1 hx with h' | h'
                · simp at h'; omega
                · exact hrpos x h'
              have hg' := ihChain _ c' is3 is1 hpos' hc'
              have hrin : n % m ∈ c' := hg'.sup _ ((mem_mergeUnique _ _ _).2 (Or.inl (by simp)))
              obtain ⟨pg, pl, pm⟩ := product_good c' cq hg'.good hgq.good
              obtain ⟨qg, ql, qm⟩ := plus_good (product c' cq) (n % m) pg (pm _ hrin)
              have hlast : (plus (product c' cq) (n % m)).getLastD 0 = n := by
                rw [ql, pl, hg'.last, is2, hm, hqlast]; omega
              refine ⟨qg, ?_, by rw [hlast, hlastns]⟩
              intro x hx
              rcases (hmemns x).1 hx with hxr | rfl
              · exact qm x (pm x (hg'.sup x ((mem_mergeUnique _ _ _).2 (Or.inr hxr))))
              · have hl := getLastD_mem _ qg.ne_nil
                rw [hlast] at hl; exact hl

/-- **C08 for continued fractions (partial correctness, every strategy)**: `FindSequence` sorts
    the targets and calls `chain`. -/
theorem contfrac_ok (s : Strategy) (fuel : Nat) (targets c : List Int) (hne : targets ≠ [])
    (hpos : ∀ x ∈ targets, 1 ≤ x)
    (h : chain s fuel (targets.mergeSort (fun a b => a ≤ b)) = some c) :
    IsChain c ∧ ∀ x ∈ targets, x ∈ c := by
  have hperm := List.mergeSort_perm targets (fun a b => decide (a ≤ b))
  have hsorted : (targets.mergeSort (fun a b => decide (a ≤ b))).Pairwise (· ≤ ·) := by
    have := List.pairwise_mergeSort (le := fun (a b : Int) => decide (a ≤ b))
      (by intro a b c h1 h2; simp at *; omega) (by intro a b; simp; omega) targets
    simpa using this
  have hg := (cf_ok s fuel).2.2 _ c (by intro e; rw [e] at hperm; exact hne (List.Perm.eq_nil hperm.symm))
    hsorted (fun x hx => hpos x (hperm.mem_iff.1 hx)) h
  exact ⟨hg.good.isChain, fun x hx => hg.sup x (hperm.mem_iff.2 hx)⟩

end P
