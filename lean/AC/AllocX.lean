import AC.AllocSim
import AC.AllocBound
/-! # Executable top level of the temporary allocator (`acc/pass/alloc.go`) and of the register
machine (`acc/eval/interp.go`), for C05 / C17 / C06.

`allocateX` reproduces `Allocator.Execute`:
* empty program → error;
* the reverse scan `P.Alloc.run` (`Variable(out)` allocating on demand, `Free`, `Allocate` inputs;
  LIFO free list; map entries never deleted);
* `lastinputread`, `outv`;
* the naming loop over `Indexes` (sorted, duplicate-free operand indexes): index 0 → input name;
  `v == outv && index ≥ lastinputread` → output name; first time a variable is seen → a new
  temporary `Format % len(Temporaries)` (so temporaries are numbered in ascending *index* order);
* every operand of every instruction is replaced by the name of its index (one canonical operand
  object per index: well-formed programs, for which the defining output is the first occurrence).

Names are kept abstract (`α`): `String` in the driver, `List Char` for the listing of C06. -/
namespace AC.AllocX
open P.Alloc

/-- `Allocator{Input, Output, Format}`; `temp k` stands for `fmt.Sprintf(Format, k)` -/
structure Cfg (α : Type) where
  input : α
  output : α
  temp : Nat → α

inductive NOp (α : Type) where
  | add (x y : α) | dbl (x : α) | shl (x : α) (s : Nat)
deriving DecidableEq, Repr

/-- an instruction whose operands carry names -/
structure NInst (α : Type) where
  out : α
  op : NOp α
deriving DecidableEq, Repr

def NOp.inputs {α} : NOp α → List α
  | .add x y => [x, y] | .dbl x => [x] | .shl x _ => [x]

/-- all operand names of a named program (inputs, then output, per instruction) -/
def usedNames {α} (p : List (NInst α)) : List α := p.flatMap fun i => i.op.inputs ++ [i.out]

/-! ### `pass.Indexes`: the sorted list of unique operand indexes -/
def insertSorted (x : Nat) : List Nat → List Nat
  | [] => [x]
  | y :: r => if x < y then x :: y :: r else if x = y then y :: r else y :: insertSorted x r

def sortUniq (l : List Nat) : List Nat := l.foldr insertSorted []

/-- operand indexes in `Instruction.Operands()` order: inputs, then the output -/
def operandIdx (ir : List Inst) : List Nat := ir.flatMap fun i => i.op.inputs ++ [i.out]

def indexes (ir : List Inst) : List Nat := sortUniq (operandIdx ir)

/-! ### the naming loop -/

/-- `regOf` with the allocation, the output index and `lastinputread` passed in (computed once) -/
def regOfWith (s : St) (lo lir : Nat) (i : Nat) : Reg :=
  if i = 0 then .x
  else if s.var i = s.var lo ∧ lir ≤ i then .z
  else .t ((s.var i).getD 0)

theorem regOfWith_eq (ir : List Inst) (i : Nat) :
    regOfWith (run ir) (lastOut ir) (lastInputRead ir) i = regOf ir i := rfl

/-- the Go map `name : variable ↦ temporary`, as the list of variables in order of creation: the
    temporary number of a variable is its position (`len(p.Temporaries)` at creation) -/
abbrev TMap := List Nat

/-- position of the first occurrence (the length when absent) -/
def pos : List Nat → Nat → Nat
  | [], _ => 0
  | a :: r, v => if a = v then 0 else pos r v + 1

/-- one iteration of the naming loop: only the `!ok` case changes the map -/
def visit (rg : Nat → Reg) (A : TMap) (i : Nat) : TMap :=
  match rg i with
  | .t v => if A.contains v then A else A ++ [v]
  | _ => A

def buildA (rg : Nat → Reg) (idx : List Nat) : TMap := idx.foldl (visit rg) []

def nameOf {α} (cfg : Cfg α) (A : TMap) : Reg → α
  | .x => cfg.input
  | .z => cfg.output
  | .t v => cfg.temp (pos A v)

def nameOp {α} (nm : Nat → α) : Op → NOp α
  | .add x y => .add (nm x) (nm y)
  | .dbl x => .dbl (nm x)
  | .shl x s => .shl (nm x) s

def nameInst {α} (nm : Nat → α) (i : Inst) : NInst α := ⟨nm i.out, nameOp nm i.op⟩

/-- the name given to operand index `i` -/
def nameX {α} (cfg : Cfg α) (ir : List Inst) (i : Nat) : α :=
  nameOf cfg (buildA (regOf ir) (indexes ir)) (regOf ir i)

def tempsOf {α} (cfg : Cfg α) (A : TMap) : List α := (List.range A.length).map cfg.temp

/-- `Allocator.Execute`: the named program and `p.Temporaries` -/
def allocateX {α} (cfg : Cfg α) (ir : List Inst) : Except String (List (NInst α) × List α) :=
  if ir.isEmpty then .error "allocator: program has no instructions" else
  let rg := regOfWith (run ir) (lastOut ir) (lastInputRead ir)
  let A := buildA rg (indexes ir)
  .ok (ir.map (nameInst fun i => nameOf cfg A (rg i)), tempsOf cfg A)

/-- `CanonicalizeOperands` (run first by the allocator) refuses a program in which two operand
    objects of one index carry different non-empty identifiers. `occ`: the (index, identifier)
    pairs of all operands before allocation, "" = no identifier. -/
def nameConflict (occ : List (Nat × String)) : Bool :=
  occ.any fun p => p.2 != "" && occ.any fun q => q.1 == p.1 && q.2 != "" && q.2 != p.2

/-- `Allocator.Execute` on a program whose operands may already carry identifiers (they are
    cleared by `ClearNames` unless they conflict) -/
def allocateN {α} (cfg : Cfg α) (ir : List Inst) (occ : List (Nat × String)) :
    Except String (List (NInst α) × List α) :=
  if ir.isEmpty then .error "allocator: program has no instructions"
  else if nameConflict occ then .error "identifier conflict"
  else allocateX cfg ir

/-- number of variables the allocation created (`allocation.n`) -/
def nVars (ir : List Inst) : Nat := (run ir).n

/-! ### the register machine of `acc/eval/interp.go`

State: name ↦ value (`none` = not defined). Per instruction: `output()` first (creates the output
register with value 0 when it is not defined), then the operands are loaded (an undefined one is
an error), then the result is written into the output register. With aliasing the output name
and the input name denote the same storage. -/
abbrev RegsX (α : Type) := List (α × Int)

def cellX {α} [DecidableEq α] (cfg : Cfg α) (alias : Bool) (n : α) : α :=
  if alias ∧ n = cfg.output then cfg.input else n

/-- value of register `c` (the most recent binding) -/
def getX {α} [DecidableEq α] : RegsX α → α → Option Int
  | [], _ => none
  | (d, v) :: r, c => if c = d then some v else getX r c

def updX {α} (st : RegsX α) (c : α) (v : Int) : RegsX α := (c, v) :: st

def readX {α} [DecidableEq α] (st : RegsX α) (c : α) : Except String Int :=
  match getX st c with
  | some v => .ok v
  | none => .error "operand is not defined"

/-- `Interpreter.output`: make sure the output register exists -/
def touchX {α} [DecidableEq α] (st : RegsX α) (c : α) : RegsX α :=
  match getX st c with
  | some _ => st
  | none => updX st c 0

/-- load the operands (an undefined one is an error) and compute the result -/
def NOp.evalX {α} (rd : α → Except String Int) : NOp α → Except String Int
  | .add x y =>
    match rd x, rd y with
    | .ok a, .ok b => .ok (a + b)
    | .error e, _ => .error e
    | _, .error e => .error e
  | .dbl x =>
    match rd x with
    | .ok a => .ok (a + a)
    | .error e => .error e
  | .shl x s =>
    match rd x with
    | .ok a => .ok (a * 2 ^ s)
    | .error e => .error e

def execInstX {α} [DecidableEq α] (cfg : Cfg α) (alias : Bool) (st : RegsX α) (i : NInst α) :
    Except String (RegsX α) :=
  let c := cellX cfg alias i.out
  let st1 := touchX st c
  match i.op.evalX (fun n => readX st1 (cellX cfg alias n)) with
  | .ok v => .ok (updX st1 c v)
  | .error e => .error e

def execX {α} [DecidableEq α] (cfg : Cfg α) (alias : Bool) :
    List (NInst α) → RegsX α → Except String (RegsX α)
  | [], st => .ok st
  | i :: r, st =>
    match execInstX cfg alias st i with
    | .ok st' => execX cfg alias r st'
    | .error e => .error e

/-- initial state: only the input register is defined -/
def initX {α} (cfg : Cfg α) (v : Int) : RegsX α := updX [] cfg.input v

/-! ### chain values by index, for an arbitrary input value -/
def envV (v : Int) (pre : List Inst) : Nat → Int := pre.foldl stepVal (upd (fun _ => 0) 0 v)

/-- the value of the last chain element (input value 1) -/
def chainEnd (ir : List Inst) : Int := envV 1 ir (lastOut ir)

end AC.AllocX
