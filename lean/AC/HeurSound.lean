import AC.Heur
namespace P

/-! ### DeltaLargest -/
def suggestDelta : Suggest := fun f t => some [t - f.getLastD 0]

theorem protoOK_ne_nil {f t} (h : ProtoOK f t) : f ≠ [] := by
  intro e; have := h.one; simp [e] at this

theorem sound_delta : Sound suggestDelta := by
  intro f t ins hp h
  have hins : ins = [t - f.getLastD 0] := by
    unfold suggestDelta at h; exact (Option.some.inj h).symm
  subst hins
  have hne := protoOK_ne_nil hp
  have hm := getLastD_mem f hne
  generalize f.getLastD 0 = last at *
  have h1 := hp.pos _ hm
  have h2 := hp.top _ hm
  refine ⟨by simp, ?_, last, Or.inl hm, t - last, Or.inr (by simp), by omega⟩
  intro x hx; simp at hx; subst hx; omega

/-! ### UseFirst -/
def suggestFirst : List Suggest → Suggest
  | [], _, _ => none
  | sg :: rest, f, t => match sg f t with
    | some ins => some ins
    | none => suggestFirst rest f t

theorem sound_first : ∀ (sgs : List Suggest), (∀ sg ∈ sgs, Sound sg) → Sound (suggestFirst sgs) := by
  intro sgs
  induction sgs with
  | nil => intro _ f t ins _ h; simp [suggestFirst] at h
  | cons sg rest ih =>
    intro hall f t ins hp h
    simp only [suggestFirst] at h
    cases hsg : sg f t with
    | some i =>
      rw [hsg] at h; cases h
      exact hall sg (by simp) f t _ hp hsg
    | none =>
      rw [hsg] at h
      exact ih (fun s hs => hall s (by simp [hs])) f t ins hp h

/-! ### Approximation: the two-pointer scan of heuristic.go -/
structure ApSt where
  first : Bool
  mindelta : Int
  best : Int

/-- `l`, `rp = r+1`; returns the suggested insertion -/
def approxLoop (f : List Int) (t : Int) : Nat → Nat → ApSt → Int
  | l, 0, st => st.best
  | l, rp+1, st =>
    if l ≤ rp then
      let a := at' f l
      let b := at' f rp
      let delta := t - (a + b)
      if delta < 0 then approxLoop f t l rp st
      else
        let ins := a + delta
        if f.contains ins then ins
        else
          let st' := if st.first || delta < st.mindelta then ⟨false, delta, ins⟩ else st
          approxLoop f t (l+1) (rp+1) st'
    else st.best
termination_by l rp _ => (rp + 1 - l) + rp
decreasing_by all_goals simp_wf <;> omega

def suggestApprox : Suggest := fun f t => some [approxLoop f t 0 f.length ⟨true, 0, 0⟩]

/-- invariant: once `first` is cleared, `best = t - b` for some member b of f -/
def ApOK (f : List Int) (t : Int) (st : ApSt) : Prop := st.first = false → ∃ b ∈ f, st.best = t - b

theorem at'_mem (f : List Int) (i : Nat) (h : i < f.length) : at' f i ∈ f := by
  simp [at', List.getD, List.getElem?_eq_getElem h]

theorem approxLoop_spec (f : List Int) (t : Int) : ∀ (n l rp : Nat) (st : ApSt), (rp + 1 - l) + rp ≤ n →
    rp ≤ f.length → ApOK f t st →
    (st.first = false ∨ (l = 0 ∧ 0 < rp ∧ at' f 0 + at' f (rp - 1) ≤ t ∧ rp = f.length)) →
    ∃ b ∈ f, approxLoop f t l rp st = t - b := by
  intro n
  induction n with
  | zero =>
    intro l rp st hn hrp hok hfirst
    have : rp = 0 := by omega
    subst this
    rcases hfirst with h | h
    · unfold approxLoop; exact hok h
    · omega
  | succ n ih =>
    intro l rp st hn hrp hok hfirst
    cases rp with
    | zero =>
      rcases hfirst with h | h
      · unfold approxLoop; exact hok h
      · omega
    | succ rp =>
      unfold approxLoop
      by_cases hl : l ≤ rp
      · simp only [hl, if_true]
        by_cases hd : t - (at' f l + at' f rp) < 0
        · simp only [hd, if_true]
          apply ih l rp st (by omega) (by omega) hok
          rcases hfirst with h | h
          · exact Or.inl h
          · exfalso
            obtain ⟨hl0, _, hsum, _⟩ := h
            subst hl0
            simp at hsum
            omega
        · simp only [hd, if_false]
          have hb : at' f rp ∈ f := at'_mem f rp (by omega)
          have hins : at' f l + (t - (at' f l + at' f rp)) = t - at' f rp := by omega
          by_cases hc : f.contains (at' f l + (t - (at' f l + at' f rp))) = true
          · simp only [hc, if_true]
            exact ⟨at' f rp, hb, hins⟩
          · simp only [hc, Bool.false_eq_true, if_false]
            by_cases hcond : (st.first || decide (t - (at' f l + at' f rp) < st.mindelta)) = true
            · simp only [hcond, if_true]
              apply ih (l+1) (rp+1) _ (by omega) hrp
              · intro _; exact ⟨at' f rp, hb, hins⟩
              · left; rfl
            · simp only [hcond, Bool.false_eq_true, if_false]
              have hfst : st.first = false := by
                cases hf : st.first with
                | false => rfl
                | true => simp [hf] at hcond
              apply ih (l+1) (rp+1) _ (by omega) hrp hok (Or.inl hfst)
      · simp only [hl, if_false]
        rcases hfirst with h | h
        · exact hok h
        · omega

theorem sound_approx : Sound suggestApprox := by
  intro f t ins hp h
  simp [suggestApprox] at h; subst h
  have hne := protoOK_ne_nil hp
  have hlen : 0 < f.length := List.length_pos_iff.mpr hne
  have h0 : at' f 0 ∈ f := at'_mem f 0 hlen
  have hl : at' f (f.length - 1) ∈ f := at'_mem f _ (by omega)
  -- f[0] = 1 because 1 ∈ f, everything is ≥ 1 and f is ascending
  have hf0 : at' f 0 = 1 := by
    obtain ⟨i, hi, hie⟩ := index_of_mem f 1 hp.one
    have hge := hp.pos _ h0
    cases i with
    | zero => exact hie
    | succ i =>
      have := at'_lt_of_pairwise f hp.asc 0 (i+1) (by omega) hi
      omega
  obtain ⟨b, hb, hres⟩ := approxLoop_spec f t _ 0 f.length ⟨true, 0, 0⟩ (Nat.le_refl _) (Nat.le_refl _)
    (by intro h; simp at h)
    (Or.inr ⟨rfl, hlen, by have := hp.top _ hl; omega, rfl⟩)
  rw [hres]
  have hb1 := hp.pos b hb
  have hbt := hp.top b hb
  refine ⟨by simp, ?_, t - b, Or.inr (by simp), b, Or.inl hb, by omega⟩
  intro x hx; simp at hx; subst hx; omega

end P
