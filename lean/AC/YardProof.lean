namespace P.YP

inductive Bop | pow | mul | div | add | sub deriving Repr, DecidableEq

def prec : Bop → Nat | .pow => 3 | .mul => 3 | .div => 3 | .add => 2 | .sub => 2
def rightAssoc : Bop → Bool | .pow => true | _ => false
/-- `yard.operator` stops popping at `t` for incoming `o` -/
def stop (t o : Bop) : Bool := prec t < prec o || (prec t == prec o && rightAssoc o)

def ipow (x y : Int) : Int := if y ≤ 0 then 1 else x ^ y.toNat
def apply : Bop → Int → Int → Int
  | .pow, x, y => ipow x y | .mul, x, y => x * y | .div, x, y => x / y
  | .add, x, y => x + y | .sub, x, y => x - y

/-! ## the yard (stacks: top first) -/
def popFor (o : Bop) : List Int → List Bop → Option (List Int × List Bop)
  | vs, [] => some (vs, [])
  | vs, t :: ts =>
    if stop t o then some (vs, t :: ts)
    else match vs with
      | b :: a :: rest => popFor o (apply t a b :: rest) ts
      | _ => none

def finish : List Int → List Bop → Option Int
  | [v], [] => some v
  | _, [] => none
  | b :: a :: rest, t :: ts => finish (apply t a b :: rest) ts
  | _, _ :: _ => none

def run : List Int → List Bop → List (Bop × Int) → Option Int
  | vs, os, [] => finish vs os
  | vs, os, (o, n) :: r =>
    match popFor o vs os with
    | none => none
    | some (vs', os') => run (n :: vs') (o :: os') r

def yard (n0 : Int) (toks : List (Bop × Int)) : Option Int := run [n0] [] toks

/-! ## conventional semantics: split at the loosest operators -/
def isMul : Bop → Bool | .mul | .div => true | _ => false
def isAdd : Bop → Bool | .add | .sub => true | _ => false

/-- exponents of the current factor, then the remaining (non-`^` operator, factor) pairs -/
def group : List (Bop × Int) → List Int × List (Bop × List Int)
  | [] => ([], [])
  | (o, n) :: r =>
    let (ps, gs) := group r
    if o = .pow then (n :: ps, gs) else ([], (o, n :: ps) :: gs)

/-- right-associative tower `n ^ (e1 ^ (e2 ^ …))` -/
def towerVal : List Int → Int
  | [] => 1
  | [n] => n
  | n :: es => ipow n (towerVal es)

def grp2 : List (Bop × Int) → List (Bop × Int) × List (Bop × (Int × List (Bop × Int)))
  | [] => ([], [])
  | (o, v) :: r =>
    let (ms, gs) := grp2 r
    if isMul o then ((o, v) :: ms, gs) else ([], (o, (v, ms)) :: gs)

def termVal (v : Int) (ms : List (Bop × Int)) : Int := ms.foldl (fun acc p => apply p.1 acc p.2) v

def conv (n0 : Int) (toks : List (Bop × Int)) : Int :=
  let (ps, gs) := group toks
  let (ms, gs2) := grp2 (gs.map fun p => (p.1, towerVal p.2))
  gs2.foldl (fun acc p => apply p.1 acc (termVal p.2.1 p.2.2)) (termVal (towerVal (n0 :: ps)) ms)



/-! ## refinement proof -/
structure A where
  a : Option (Int × Bop)
  m : Option (Int × Bop)
  tw : List Int      -- pending bases of `^`, innermost first
  cur : Int

def A.WF (st : A) : Prop :=
  (∀ p, st.a = some p → isAdd p.2 = true) ∧ (∀ p, st.m = some p → isMul p.2 = true)

def ovals (x : Option (Int × Bop)) : List Int := match x with | none => [] | some p => [p.1]
def oops (x : Option (Int × Bop)) : List Bop := match x with | none => [] | some p => [p.2]
def oapply (x : Option (Int × Bop)) (v : Int) : Int := match x with | none => v | some p => apply p.2 p.1 v

def A.vs (st : A) : List Int := st.cur :: (st.tw ++ (ovals st.m ++ ovals st.a))
def A.os (st : A) : List Bop := List.replicate st.tw.length Bop.pow ++ (oops st.m ++ oops st.a)

def collapse (tw : List Int) (cur : Int) : Int := tw.foldl (fun acc p => ipow p acc) cur

def convFrom (st : A) (rest : List (Bop × Int)) : Int :=
  let g := group rest
  let f := collapse st.tw (towerVal (st.cur :: g.1))
  let g2 := grp2 (g.2.map fun p => (p.1, towerVal p.2))
  g2.2.foldl (fun acc p => apply p.1 acc (termVal p.2.1 p.2.2)) (oapply st.a (termVal (oapply st.m f) g2.1))

theorem conv_eq (n0 : Int) (toks) : conv n0 toks = convFrom ⟨none, none, [], n0⟩ toks := by
  simp [conv, convFrom, collapse, oapply]

theorem popFor_stop {o t : Bop} (h : stop t o = true) (vs : List Int) (ts : List Bop) :
    popFor o vs (t :: ts) = some (vs, t :: ts) := by
  unfold popFor; simp [h]

theorem popFor_pop {o t : Bop} (h : stop t o = false) (b a : Int) (rest : List Int) (ts : List Bop) :
    popFor o (b :: a :: rest) (t :: ts) = popFor o (apply t a b :: rest) ts := by
  rw [popFor]; simp [h]

theorem popFor_nil (o : Bop) (vs : List Int) : popFor o vs [] = some (vs, []) := by
  unfold popFor; rfl

/-- popping the pending `^`s -/
theorem popFor_pows (o : Bop) (ho : stop .pow o = false) :
    ∀ (tw : List Int) (cur : Int) (vs' : List Int) (os' : List Bop),
    popFor o (cur :: (tw ++ vs')) (List.replicate tw.length Bop.pow ++ os') =
      popFor o (collapse tw cur :: vs') os' := by
  intro tw
  induction tw with
  | nil => intro cur vs' os'; rfl
  | cons p tw ih =>
    intro cur vs' os'
    show popFor o (cur :: p :: (tw ++ vs')) (Bop.pow :: (List.replicate tw.length Bop.pow ++ os')) = _
    rw [popFor_pop ho, ih]
    rfl

theorem finish_pows : ∀ (tw : List Int) (cur : Int) (vs' : List Int) (os' : List Bop),
    finish (cur :: (tw ++ vs')) (List.replicate tw.length Bop.pow ++ os') =
      finish (collapse tw cur :: vs') os' := by
  intro tw
  induction tw with
  | nil => intro cur vs' os'; rfl
  | cons p tw ih =>
    intro cur vs' os'
    show finish (cur :: p :: (tw ++ vs')) (Bop.pow :: (List.replicate tw.length Bop.pow ++ os')) = _
    rw [finish]
    rw [ih]
    rfl

theorem finish_conc (st : A) : finish st.vs st.os = some (oapply st.a (oapply st.m (collapse st.tw st.cur))) := by
  unfold A.vs A.os
  rw [finish_pows]
  rcases st with ⟨a, m, tw, cur⟩
  cases m with
  | none => cases a with
    | none => rfl
    | some p => rfl
  | some q => cases a with
    | none => rfl
    | some p => rfl

theorem towerVal_cons (n : Int) (e : Int) (es : List Int) : towerVal (n :: e :: es) = ipow n (towerVal (e :: es)) := rfl

theorem group_cons (o : Bop) (n : Int) (r) :
    group ((o, n) :: r) = if o = .pow then (n :: (group r).1, (group r).2) else ([], (o, n :: (group r).1) :: (group r).2) := by
  simp only [group]

theorem grp2_cons (o : Bop) (v : Int) (r) :
    grp2 ((o, v) :: r) = if isMul o then ((o, v) :: (grp2 r).1, (grp2 r).2) else ([], (o, (v, (grp2 r).1)) :: (grp2 r).2) := by
  simp only [grp2]

theorem popFor_mul (o : Bop) (ho : isMul o = true) (st : A) (hwf : st.WF) :
    popFor o st.vs st.os = some (oapply st.m (collapse st.tw st.cur) :: ovals st.a, oops st.a) := by
  have hpow : stop .pow o = false := by cases o <;> simp_all [isMul, stop, prec, rightAssoc]
  unfold A.vs A.os
  rw [popFor_pows o hpow]
  rcases st with ⟨a, m, tw, cur⟩
  obtain ⟨ha, hm⟩ := hwf
  cases m with
  | none =>
    cases a with
    | none => exact popFor_nil _ _
    | some p =>
      have : isAdd p.2 = true := ha p rfl
      have hs : stop p.2 o = true := by
        rcases p with ⟨pv, po⟩; cases po <;> cases o <;> simp_all [isAdd, isMul, stop, prec, rightAssoc]
      exact popFor_stop hs _ _
  | some q =>
    have hq : isMul q.2 = true := hm q rfl
    have hs : stop q.2 o = false := by
      rcases q with ⟨qv, qo⟩; cases qo <;> cases o <;> simp_all [isMul, stop, prec, rightAssoc]
    cases a with
    | none =>
      show popFor o (collapse tw cur :: q.1 :: []) (q.2 :: []) = _
      rw [popFor_pop hs]
      exact popFor_nil _ _
    | some p =>
      have : isAdd p.2 = true := ha p rfl
      have hs2 : stop p.2 o = true := by
        rcases p with ⟨pv, po⟩; cases po <;> cases o <;> simp_all [isAdd, isMul, stop, prec, rightAssoc]
      show popFor o (collapse tw cur :: q.1 :: [p.1]) (q.2 :: [p.2]) = _
      rw [popFor_pop hs]
      exact popFor_stop hs2 _ _

theorem popFor_add (o : Bop) (ho : isAdd o = true) (st : A) (hwf : st.WF) :
    popFor o st.vs st.os = some ([oapply st.a (oapply st.m (collapse st.tw st.cur))], []) := by
  have hpow : stop .pow o = false := by cases o <;> simp_all [isAdd, stop, prec, rightAssoc]
  unfold A.vs A.os
  rw [popFor_pows o hpow]
  rcases st with ⟨a, m, tw, cur⟩
  obtain ⟨ha, hm⟩ := hwf
  cases m with
  | none =>
    cases a with
    | none => exact popFor_nil _ _
    | some p =>
      have : isAdd p.2 = true := ha p rfl
      have hs : stop p.2 o = false := by
        rcases p with ⟨pv, po⟩; cases po <;> cases o <;> simp_all [isAdd, stop, prec, rightAssoc]
      show popFor o (collapse tw cur :: [p.1]) [p.2] = _
      rw [popFor_pop hs]
      exact popFor_nil _ _
  | some q =>
    have hq : isMul q.2 = true := hm q rfl
    have hs : stop q.2 o = false := by
      rcases q with ⟨qv, qo⟩; cases qo <;> cases o <;> simp_all [isMul, isAdd, stop, prec, rightAssoc]
    cases a with
    | none =>
      show popFor o (collapse tw cur :: q.1 :: []) (q.2 :: []) = _
      rw [popFor_pop hs]
      exact popFor_nil _ _
    | some p =>
      have : isAdd p.2 = true := ha p rfl
      have hs2 : stop p.2 o = false := by
        rcases p with ⟨pv, po⟩; cases po <;> cases o <;> simp_all [isAdd, stop, prec, rightAssoc]
      show popFor o (collapse tw cur :: q.1 :: [p.1]) (q.2 :: [p.2]) = _
      rw [popFor_pop hs, popFor_pop hs2]
      exact popFor_nil _ _

theorem run_conc : ∀ (rest : List (Bop × Int)) (st : A), st.WF →
    run st.vs st.os rest = some (convFrom st rest) := by
  intro rest
  induction rest with
  | nil =>
    intro st _
    show finish st.vs st.os = _
    rw [finish_conc]
    simp [convFrom, group, grp2, termVal, towerVal]
  | cons tok r ih =>
    intro st hwf
    obtain ⟨o, n⟩ := tok
    rcases st with ⟨a, m, tw, cur⟩
    rw [run]
    cases o with
    | pow =>
      -- nothing is popped
      have hpop : popFor Bop.pow (A.vs ⟨a, m, tw, cur⟩) (A.os ⟨a, m, tw, cur⟩)
          = some (A.vs ⟨a, m, tw, cur⟩, A.os ⟨a, m, tw, cur⟩) := by
        cases h : A.os ⟨a, m, tw, cur⟩ with
        | nil => rfl
        | cons t ts =>
          have : stop t Bop.pow = true := by cases t <;> rfl
          exact popFor_stop this _ _
      rw [hpop]
      simp only []
      have := ih ⟨a, m, cur :: tw, n⟩ hwf
      have hv : A.vs ⟨a, m, cur :: tw, n⟩ = n :: A.vs ⟨a, m, tw, cur⟩ := rfl
      have ho : A.os ⟨a, m, cur :: tw, n⟩ = Bop.pow :: A.os ⟨a, m, tw, cur⟩ := rfl
      rw [hv, ho] at this
      rw [this]
      congr 1
    | mul =>
      rw [popFor_mul Bop.mul rfl ⟨a, m, tw, cur⟩ hwf]
      simp only []
      have hwf' : A.WF ⟨a, some (oapply m (collapse tw cur), Bop.mul), [], n⟩ := by
        refine ⟨hwf.1, ?_⟩
        intro p hp; cases hp; rfl
      have := ih ⟨a, some (oapply m (collapse tw cur), Bop.mul), [], n⟩ hwf'
      have hv : A.vs ⟨a, some (oapply m (collapse tw cur), Bop.mul), [], n⟩
          = n :: oapply m (collapse tw cur) :: ovals a := rfl
      have ho : A.os ⟨a, some (oapply m (collapse tw cur), Bop.mul), [], n⟩ = Bop.mul :: oops a := rfl
      rw [hv, ho] at this
      rw [this]
      congr 1
    | div =>
      rw [popFor_mul Bop.div rfl ⟨a, m, tw, cur⟩ hwf]
      simp only []
      have hwf' : A.WF ⟨a, some (oapply m (collapse tw cur), Bop.div), [], n⟩ := by
        refine ⟨hwf.1, ?_⟩
        intro p hp; cases hp; rfl
      have := ih ⟨a, some (oapply m (collapse tw cur), Bop.div), [], n⟩ hwf'
      have hv : A.vs ⟨a, some (oapply m (collapse tw cur), Bop.div), [], n⟩
          = n :: oapply m (collapse tw cur) :: ovals a := rfl
      have ho : A.os ⟨a, some (oapply m (collapse tw cur), Bop.div), [], n⟩ = Bop.div :: oops a := rfl
      rw [hv, ho] at this
      rw [this]
      congr 1
    | add =>
      rw [popFor_add Bop.add rfl ⟨a, m, tw, cur⟩ hwf]
      simp only []
      have hwf' : A.WF ⟨some (oapply a (oapply m (collapse tw cur)), Bop.add), none, [], n⟩ := by
        refine ⟨?_, ?_⟩
        · intro p hp; cases hp; rfl
        · intro p hp; cases hp
      have := ih ⟨some (oapply a (oapply m (collapse tw cur)), Bop.add), none, [], n⟩ hwf'
      have hv : A.vs ⟨some (oapply a (oapply m (collapse tw cur)), Bop.add), none, [], n⟩
          = [n, oapply a (oapply m (collapse tw cur))] := rfl
      have ho : A.os ⟨some (oapply a (oapply m (collapse tw cur)), Bop.add), none, [], n⟩ = [Bop.add] := rfl
      rw [hv, ho] at this
      rw [this]
      congr 1
    | sub =>
      rw [popFor_add Bop.sub rfl ⟨a, m, tw, cur⟩ hwf]
      simp only []
      have hwf' : A.WF ⟨some (oapply a (oapply m (collapse tw cur)), Bop.sub), none, [], n⟩ := by
        refine ⟨?_, ?_⟩
        · intro p hp; cases hp; rfl
        · intro p hp; cases hp
      have := ih ⟨some (oapply a (oapply m (collapse tw cur)), Bop.sub), none, [], n⟩ hwf'
      have hv : A.vs ⟨some (oapply a (oapply m (collapse tw cur)), Bop.sub), none, [], n⟩
          = [n, oapply a (oapply m (collapse tw cur))] := rfl
      have ho : A.os ⟨some (oapply a (oapply m (collapse tw cur)), Bop.sub), none, [], n⟩ = [Bop.sub] := rfl
      rw [hv, ho] at this
      rw [this]
      congr 1


/-- C13 core: the shunting yard computes the conventional value (division by zero aside,
    which the full model treats as an explicit outcome before `apply`). -/
theorem yard_eq_conv (n0 : Int) (toks : List (Bop × Int)) : yard n0 toks = some (conv n0 toks) := by
  rw [conv_eq]
  exact run_conc toks ⟨none, none, [], n0⟩ ⟨(fun p h => nomatch h), (fun p h => nomatch h)⟩

end P.YP
