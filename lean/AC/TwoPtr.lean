namespace P

abbrev Chain := List Int

/-- c[i] with default 0 (only used under bounds). -/
def at' (c : Chain) (i : Nat) : Int := c.getD i 0

/-- Two pointer scan as in Chain.Ops; state (l, r) with r encoded as r+1 = `rp` to stay in Nat. -/
def twoPtr (c : Chain) (t : Int) : (l rp : Nat) → List (Nat × Nat)
  | l, 0 => []
  | l, rp+1 =>
    if h : l ≤ rp then
      let s := at' c l + at' c rp
      if s = t then (l, rp) :: twoPtr c t (l+1) (rp+1)
      else if s < t then twoPtr c t (l+1) (rp+1)
      else twoPtr c t l rp
    else []
termination_by l rp => (rp + 1 - l) + rp
decreasing_by all_goals simp_wf <;> omega

def quad (c : Chain) (t : Int) (k : Nat) : List (Nat × Nat) :=
  (List.range k).flatMap fun i => ((List.range k).filter fun j => i ≤ j ∧ at' c i + at' c j = t).map fun j => (i, j)


def StrictAsc (c : Chain) (k : Nat) : Prop := ∀ i j, i < j → j < k → at' c i < at' c j

theorem twoPtr_mem (c : Chain) (t : Int) (k : Nat) (hasc : StrictAsc c k) :
    ∀ (n l rp : Nat), (rp + 1 - l) + rp ≤ n → rp ≤ k →
    ∀ i j, (i, j) ∈ twoPtr c t l rp ↔ (l ≤ i ∧ i ≤ j ∧ j < rp ∧ at' c i + at' c j = t) := by
  intro n
  induction n with
  | zero =>
    intro l rp hn hk i j
    have : rp = 0 := by omega
    subst this
    simp [twoPtr]
  | succ n ih =>
    intro l rp hn hk i j
    cases rp with
    | zero => simp [twoPtr]
    | succ rp =>
      unfold twoPtr
      by_cases h : l ≤ rp
      · simp only [h, dite_true]
        by_cases hs : at' c l + at' c rp = t
        · simp only [hs, if_true, List.mem_cons, Prod.mk.injEq]
          rw [ih (l+1) (rp+1) (by omega) hk]
          constructor
          · rintro (⟨rfl, rfl⟩ | ⟨h1, h2, h3, h4⟩)
            · exact ⟨Nat.le_refl _, h, by omega, hs⟩
            · exact ⟨by omega, h2, h3, h4⟩
          · rintro ⟨h1, h2, h3, h4⟩
            by_cases hil : i = l
            · subst hil
              left
              refine ⟨rfl, ?_⟩
              -- c i + c j = t = c i + c rp → j = rp
              by_cases hj : j = rp
              · exact hj
              · exfalso
                have : j < rp := by omega
                have := hasc j rp this (by omega)
                omega
            · right; exact ⟨by omega, h2, h3, h4⟩
        · simp only [hs, if_false]
          by_cases hlt : at' c l + at' c rp < t
          · simp only [hlt, if_true]
            rw [ih (l+1) (rp+1) (by omega) hk]
            constructor
            · rintro ⟨h1, h2, h3, h4⟩; exact ⟨by omega, h2, h3, h4⟩
            · rintro ⟨h1, h2, h3, h4⟩
              refine ⟨?_, h2, h3, h4⟩
              by_cases hil : i = l
              · subst hil
                exfalso
                by_cases hj : j = rp
                · subst hj; exact hs h4
                · have : j < rp := by omega
                  have := hasc j rp this (by omega)
                  omega
              · omega
          · simp only [hlt, if_false]
            rw [ih l rp (by omega) (by omega)]
            constructor
            · rintro ⟨h1, h2, h3, h4⟩; exact ⟨h1, h2, by omega, h4⟩
            · rintro ⟨h1, h2, h3, h4⟩
              refine ⟨h1, h2, ?_, h4⟩
              by_cases hj : j = rp
              · subst hj
                exfalso
                by_cases hil : i = l
                · subst hil; exact hs h4
                · have : l < i := by omega
                  have := hasc l i this (by omega)
                  omega
              · omega
      · simp only [h, dite_false]
        simp
        intro h1 h2 h3
        omega
end P
