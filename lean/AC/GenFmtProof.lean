import AC.GenX
/-! C06: the `chain` and `ops` template outputs, read in the documented formats, list exactly the
chain elements / operations that were rendered. -/
namespace AC.GenX
open P.Listing

/-! ### hexadecimal round trip -/
theorem hexv_digitChar : ∀ d, d < 16 → hexv (Nat.digitChar d) = d ∧ isHexChar (Nat.digitChar d) = true := by
  decide

def hexFold (ds : List Char) : Nat := ds.foldl (fun a c => a * 16 + hexv c) 0

theorem hexFold_snoc (ds : List Char) (c : Char) : hexFold (ds ++ [c]) = hexFold ds * 16 + hexv c := by
  simp [hexFold, List.foldl_append]

theorem hex_roundtrip : ∀ (n : Nat), hexFold (Nat.toDigits 16 n) = n ∧ (Nat.toDigits 16 n).all isHexChar = true := by
  intro n
  induction n using Nat.strongRecOn with
  | _ n ih =>
    rw [Nat.toDigits_eq_if (by omega : 1 < 16)]
    split
    · rename_i h
      obtain ⟨h1, h2⟩ := hexv_digitChar n h
      simp [hexFold, h1, h2]
    · rename_i h
      obtain ⟨i1, i2⟩ := ih (n / 16) (Nat.div_lt_self (by omega) (by omega))
      obtain ⟨h1, h2⟩ := hexv_digitChar (n % 16) (Nat.mod_lt _ (by omega))
      refine ⟨?_, ?_⟩
      · rw [hexFold_snoc, i1, h1]; omega
      · rw [List.all_append, i2]; simp [h2]

theorem readHex0x_hex0x (v : Nat) : readHex0x (hex0x v) = some v := by
  obtain ⟨h1, h2⟩ := hex_roundtrip v
  have hne : Nat.toDigits 16 v ≠ [] := Nat.toDigits_ne_nil
  simp only [hex0x, readHex0x, hne, h2, ne_eq, not_false_eq_true, and_self, if_true]
  exact congrArg some h1

/-! ### decimal fields with padding -/
theorem dec_digits (m : Nat) : ∀ c ∈ dec m, c.isDigit = true := fun c hc =>
  Nat.isDigit_of_mem_toDigits (by omega) (by omega) hc

theorem dec_ne_nil (m : Nat) : dec m ≠ [] := Nat.toDigits_ne_nil

theorem space_not_digit : ∀ c : Char, c.isDigit = true → (c == ' ') = false := by
  intro c h
  cases hc : c == ' ' with
  | false => rfl
  | true =>
    have : c = ' ' := by simpa using hc
    subst this
    exact absurd h (by decide)

theorem skipSp_pad (k m : Nat) (rest : List Char) :
    skipSp (List.replicate k ' ' ++ (dec m ++ rest)) = dec m ++ rest := by
  unfold skipSp
  rw [List.dropWhile_append_of_pos (by intro a ha; simp [List.mem_replicate] at ha; simp [ha.2])]
  cases h : dec m with
  | nil => exact absurd h (dec_ne_nil m)
  | cons d ds =>
    have hd : d.isDigit = true := dec_digits m d (by rw [h]; simp)
    rw [List.cons_append, List.dropWhile_cons_of_neg (by simp [space_not_digit d hd])]

theorem skipSp_padLeft (w m : Nat) (rest : List Char) :
    skipSp (padLeft w (dec m) ++ rest) = dec m ++ rest := by
  unfold padLeft
  rw [List.append_assoc]
  exact skipSp_pad _ m rest

theorem take_digits (m : Nat) (c : Char) (rest : List Char) (hc : c.isDigit = false) :
    (dec m ++ c :: rest).takeWhile Char.isDigit = dec m := by
  rw [List.takeWhile_append_of_pos (dec_digits m), List.takeWhile_cons_of_neg (by simp [hc])]
  simp

theorem drop_digits (m : Nat) (c : Char) (rest : List Char) (hc : c.isDigit = false) :
    (dec m ++ c :: rest).dropWhile Char.isDigit = c :: rest := by
  rw [List.dropWhile_append_of_pos (dec_digits m), List.dropWhile_cons_of_neg (by simp [hc])]

theorem readNat_dec (m : Nat) : readNat (dec m) = some m := readNat_natStr m

/-! ### lines -/
def chainBody (n v : Nat) : List Char := padLeft 3 (dec (n + 1)) ++ (':' :: ' ' :: hex0x v)

theorem chainLine_eq (n v : Nat) : chainLine n v = chainBody n v ++ ['\n'] := by
  simp [chainLine, chainBody, hex0x]

theorem readChainLine_body (n v : Nat) : readChainLine (chainBody n v) = some (n + 1, v) := by
  unfold readChainLine chainBody
  simp only [skipSp_padLeft]
  rw [drop_digits _ ':' _ (by decide), take_digits _ ':' _ (by decide)]
  simp only [readNat_dec, readHex0x_hex0x]

def opsBody (n i j v : Nat) : List Char :=
  '[' :: (padLeft 3 (dec n) ++ (']' :: ' ' :: (padLeft 4 (dec i) ++ ('+' :: (padRight 4 (dec j) ++ (' ' :: hex0x v))))))

theorem opsLine_eq (n i j v : Nat) : opsLine n i j v = opsBody n i j v ++ ['\n'] := by
  simp [opsLine, opsBody, hex0x]

theorem skipSp_spaces_hex (k v : Nat) : skipSp (List.replicate k ' ' ++ (' ' :: hex0x v)) = hex0x v := by
  unfold skipSp
  rw [List.dropWhile_append_of_pos (by intro a ha; simp [List.mem_replicate] at ha; simp [ha.2])]
  simp [hex0x]

theorem readOpsLine_body (n i j v : Nat) : readOpsLine (opsBody n i j v) = some (n, i, j, v) := by
  unfold readOpsLine opsBody
  simp only [skipSp_padLeft]
  rw [drop_digits _ ']' _ (by decide), take_digits _ ']' _ (by decide)]
  simp only [skipSp_padLeft]
  rw [drop_digits _ '+' _ (by decide), take_digits _ '+' _ (by decide)]
  simp only [padRight, List.append_assoc]
  have hj1 : (dec j ++ (List.replicate (4 - (dec j).length) ' ' ++ ' ' :: hex0x v)).takeWhile Char.isDigit = dec j := by
    cases hk : List.replicate (4 - (dec j).length) ' ' with
    | nil => simpa using take_digits j ' ' (hex0x v) (by decide)
    | cons s ss =>
      have : s = ' ' := by
        have : s ∈ List.replicate (4 - (dec j).length) ' ' := by rw [hk]; simp
        exact (List.mem_replicate.mp this).2
      subst this
      simpa using take_digits j ' ' (ss ++ ' ' :: hex0x v) (by decide)
  have hj2 : (dec j ++ (List.replicate (4 - (dec j).length) ' ' ++ ' ' :: hex0x v)).dropWhile Char.isDigit
      = List.replicate (4 - (dec j).length) ' ' ++ ' ' :: hex0x v := by
    cases hk : List.replicate (4 - (dec j).length) ' ' with
    | nil => simpa using drop_digits j ' ' (hex0x v) (by decide)
    | cons s ss =>
      have : s = ' ' := by
        have : s ∈ List.replicate (4 - (dec j).length) ' ' := by rw [hk]; simp
        exact (List.mem_replicate.mp this).2
      subst this
      simpa using drop_digits j ' ' (ss ++ ' ' :: hex0x v) (by decide)
  rw [hj1, hj2, skipSp_spaces_hex]
  simp only [readNat_dec, readHex0x_hex0x]

/-! ### no newline inside a line -/
theorem hex_nonl (v : Nat) : '\n' ∉ hex0x v := by
  intro h
  simp only [hex0x, List.mem_cons] at h
  rcases h with h | h | h
  · exact absurd h (by decide)
  · exact absurd h (by decide)
  · have := (hex_roundtrip v).2
    rw [List.all_eq_true] at this
    exact absurd (this _ h) (by decide)

theorem dec_nonl (m : Nat) : '\n' ∉ dec m := natStr_nonl m

theorem pad_nonl (w : Nat) (s : List Char) (h : '\n' ∉ s) : '\n' ∉ padLeft w s ∧ '\n' ∉ padRight w s := by
  constructor <;>
  · intro hm
    simp only [padLeft, padRight, List.mem_append, List.mem_replicate] at hm
    rcases hm with hm | hm
    · first | exact h hm | exact absurd hm.2 (by decide)
    · first | exact h hm | exact absurd hm.2 (by decide)

theorem chainBody_nonl (n v : Nat) : '\n' ∉ chainBody n v := by
  intro h
  simp only [chainBody, List.mem_append, List.mem_cons] at h
  rcases h with h | h | h | h
  · exact (pad_nonl 3 _ (dec_nonl _)).1 h
  · exact absurd h (by decide)
  · exact absurd h (by decide)
  · exact hex_nonl v h

theorem opsBody_nonl (n i j v : Nat) : '\n' ∉ opsBody n i j v := by
  intro h
  simp only [opsBody, List.mem_append, List.mem_cons] at h
  rcases h with h | h | h | h | h | h | h | h | h
  · exact absurd h (by decide)
  · exact (pad_nonl 3 _ (dec_nonl _)).1 h
  · exact absurd h (by decide)
  · exact absurd h (by decide)
  · exact (pad_nonl 4 _ (dec_nonl _)).1 h
  · exact absurd h (by decide)
  · exact (pad_nonl 4 _ (dec_nonl _)).2 h
  · exact absurd h (by decide)
  · exact hex_nonl v h

theorem splitAt_ne_nil (sep : Char) : ∀ (l : List Char), splitAt sep l ≠ [] := by
  intro l
  induction l with
  | nil => simp [splitAt]
  | cons c r ih =>
    unfold splitAt
    split
    · simp
    · cases h : splitAt sep r with
      | nil => exact absurd h ih
      | cons f fs => simp

theorem dropLast_cons_of_ne_nil {α} (a : α) (l : List α) (h : l ≠ []) : (a :: l).dropLast = a :: l.dropLast := by
  cases l with
  | nil => exact absurd rfl h
  | cons b r => rfl

/-- **the `chain` output reads back** to positions 1, 2, … with the chain values -/
theorem readChain_render : ∀ (c : List Nat) (n : Nat), readChain (renderChainFrom n c) = some (enumChain n c) := by
  intro c
  induction c with
  | nil => intro n; rfl
  | cons v r ih =>
    intro n
    have := ih (n + 1)
    unfold readChain at this ⊢
    simp only [renderChainFrom, chainLine_eq, List.append_assoc, List.singleton_append]
    rw [splitAt_append '\n' _ _ (chainBody_nonl n v), dropLast_cons_of_ne_nil _ _ (splitAt_ne_nil _ _)]
    simp only [mapOpt, readChainLine_body, this, enumChain]

/-- **the `ops` output reads back** to (position, I, J, value) -/
theorem readOps_render : ∀ (ops : List (Nat × Nat)) (vs : List Nat) (n : Nat),
    readOps (renderOpsFrom n ops vs) = some (enumOps n ops vs) := by
  intro ops
  induction ops with
  | nil => intro vs n; cases vs <;> rfl
  | cons o r ih =>
    intro vs n
    cases vs with
    | nil => rfl
    | cons v vs =>
      have := ih vs (n + 1)
      unfold readOps at this ⊢
      simp only [renderOpsFrom, opsLine_eq, List.append_assoc, List.singleton_append]
      rw [splitAt_append '\n' _ _ (opsBody_nonl n o.1 o.2 v), dropLast_cons_of_ne_nil _ _ (splitAt_ne_nil _ _)]
      simp only [mapOpt, readOpsLine_body, this, enumOps]

end AC.GenX
