import AC.ChainSet
/-! C11 prototype: `dict.RunsChain`. -/
namespace P

def onesI (n : Nat) : Int := 2 ^ n - 1

/-- append-only construction: the chain so far and the largest shift present for each length -/
structure RS where
  c : List Int
  s : Nat → Nat

/-- the inner `for ; s[lb] < la; s[lb]++` loop, `k` iterations starting at shift `from` -/
def extend (rb : Int) : Nat → Nat → List Int → List Int
  | 0, _, c => c
  | k+1, sh, c => extend rb k (sh + 1) (c ++ [rb * 2 ^ (sh + 1)])

def runsStep (lc : List Int) (st : RS) (op : Nat × Nat) : RS :=
  let x := at' lc op.1
  let y := at' lc op.2
  let la := (min x y).toNat
  let lb := (max x y).toNat
  let c1 := extend (onesI lb) (la - st.s lb) (st.s lb) st.c
  { c := c1 ++ [onesI (la + lb)],
    s := fun l => if l = lb then max (st.s lb) la else st.s l }

def runsChain (lc : List Int) (p : List (Nat × Nat)) : List Int :=
  (p.foldl (runsStep lc) ⟨[1], fun _ => 0⟩).c


/-! ### appending a sum of two members keeps a chain a chain -/
theorem at'_append_left (c : List Int) (x : Int) (i : Nat) (h : i < c.length) : at' (c ++ [x]) i = at' c i := by
  simp [at', List.getD, List.getElem?_append_left h]

theorem at'_append_last (c : List Int) (x : Int) : at' (c ++ [x]) c.length = x := by
  simp [at', List.getD]

theorem isChain_snoc (c : List Int) (a b : Int) (hc : IsChain c) (ha : a ∈ c) (hb : b ∈ c)
    (hnew : a + b ∉ c) (hnz : a + b ≠ 0) : IsChain (c ++ [a + b]) := by
  obtain ⟨hne, h0, hz, hnd, hops⟩ := hc
  have hlen : 0 < c.length := List.length_pos_iff.mpr hne
  refine ⟨by simp, ?_, ?_, ?_, ?_⟩
  · rw [at'_append_left c _ 0 hlen]; exact h0
  · intro h; rcases List.mem_append.mp h with h | h
    · exact hz h
    · simp at h; exact hnz h.symm
  · apply List.nodup_append.mpr
    refine ⟨hnd, by simp, ?_⟩
    intro x hx y hy hxy
    simp at hy; subst hy; subst hxy; exact hnew hx
  · intro k hk0 hkl
    simp at hkl
    by_cases hk : k < c.length
    · obtain ⟨i, j, hi, hj, hsum⟩ := hops k hk0 hk
      refine ⟨i, j, hi, hj, ?_⟩
      rw [at'_append_left c _ i (by omega), at'_append_left c _ j (by omega), at'_append_left c _ k hk]
      exact hsum
    · have hke : k = c.length := by omega
      subst hke
      obtain ⟨i, hi, hia⟩ := index_of_mem c a ha
      obtain ⟨j, hj, hjb⟩ := index_of_mem c b hb
      refine ⟨i, j, hi, hj, ?_⟩
      rw [at'_append_left c _ i hi, at'_append_left c _ j hj, at'_append_last, hia, hjb]


/-! ### `(2^b − 1)·2^j` determines `b ≥ 1` and `j` -/
theorem two_pow_pos_int' (e : Nat) : (0 : Int) < 2 ^ e := Int.pow_pos (by omega)

theorem onesI_odd (b : Nat) (hb : 1 ≤ b) : onesI b % 2 = 1 := by
  obtain ⟨b', rfl⟩ : ∃ b', b = b' + 1 := ⟨b - 1, by omega⟩
  unfold onesI
  rw [Int.pow_succ]
  have := two_pow_pos_int' b'
  omega

theorem onesI_pos (b : Nat) (hb : 1 ≤ b) : 1 ≤ onesI b := by
  obtain ⟨b', rfl⟩ : ∃ b', b = b' + 1 := ⟨b - 1, by omega⟩
  unfold onesI
  rw [Int.pow_succ]
  have := two_pow_pos_int' b'
  omega

theorem odd_mul_pow_inj : ∀ (j j' : Nat) (a a' : Int), a % 2 = 1 → a' % 2 = 1 →
    a * 2 ^ j = a' * 2 ^ j' → j = j' ∧ a = a' := by
  intro j
  induction j with
  | zero =>
    intro j' a a' ha ha' h
    cases j' with
    | zero => simpa using h
    | succ k =>
      exfalso
      rw [Int.pow_succ, ← Int.mul_assoc] at h
      simp at h
      omega
  | succ j ih =>
    intro j' a a' ha ha' h
    cases j' with
    | zero =>
      exfalso
      rw [Int.pow_succ, ← Int.mul_assoc] at h
      simp at h
      omega
    | succ k =>
      rw [Int.pow_succ, Int.pow_succ, ← Int.mul_assoc, ← Int.mul_assoc] at h
      have h' : a * 2 ^ j = a' * 2 ^ k := by omega
      obtain ⟨e1, e2⟩ := ih k a a' ha ha' h'
      exact ⟨by omega, e2⟩

theorem onesI_inj (b b' : Nat) (h : onesI b = onesI b') : b = b' := by
  unfold onesI at h
  have h2 : (2 : Int) ^ b = 2 ^ b' := by omega
  have h3 : (2 : Nat) ^ b = 2 ^ b' := by exact_mod_cast h2
  exact (Nat.pow_right_inj (by omega)).1 h3

theorem run_shift_inj (b b' j j' : Nat) (hb : 1 ≤ b) (hb' : 1 ≤ b')
    (h : onesI b * 2 ^ j = onesI b' * 2 ^ j') : b = b' ∧ j = j' := by
  obtain ⟨e1, e2⟩ := odd_mul_pow_inj j j' _ _ (onesI_odd b hb) (onesI_odd b' hb') h
  exact ⟨onesI_inj b b' e2, e1⟩

/-- `2^(a+b) − 1 = (2^b − 1)·2^a + (2^a − 1)` -/
theorem onesI_add (a b : Nat) : onesI (a + b) = onesI b * 2 ^ a + onesI a := by
  unfold onesI
  rw [Int.pow_add, Int.sub_mul, Int.mul_comm ((2 : Int) ^ a) (2 ^ b)]
  omega


/-! ### the shift-extension loop -/
theorem extend_spec (lb : Nat) (hlb : 1 ≤ lb) : ∀ (k sh : Nat) (c : List Int), IsChain c →
    onesI lb * 2 ^ sh ∈ c → (∀ t, sh < t → onesI lb * 2 ^ t ∉ c) →
    IsChain (extend (onesI lb) k sh c) ∧
    (∀ x, x ∈ extend (onesI lb) k sh c ↔ x ∈ c ∨ ∃ t, sh < t ∧ t ≤ sh + k ∧ x = onesI lb * 2 ^ t) := by
  intro k
  induction k with
  | zero =>
    intro sh c hc _ _
    refine ⟨hc, fun x => ?_⟩
    simp only [extend]
    constructor
    · intro h; exact Or.inl h
    · rintro (h | ⟨t, h1, h2, _⟩)
      · exact h
      · omega
  | succ k ih =>
    intro sh c hc hmem hnot
    simp only [extend]
    have hpos : 0 < onesI lb * 2 ^ sh := Int.mul_pos (by have := onesI_pos lb hlb; omega) (two_pow_pos_int' sh)
    have hdbl : onesI lb * 2 ^ (sh + 1) = onesI lb * 2 ^ sh + onesI lb * 2 ^ sh := by
      rw [Int.pow_succ, ← Int.mul_assoc]; omega
    have hc' : IsChain (c ++ [onesI lb * 2 ^ (sh + 1)]) := by
      rw [hdbl]
      apply isChain_snoc c _ _ hc hmem hmem
      · rw [← hdbl]; exact hnot (sh + 1) (by omega)
      · omega
    obtain ⟨ih1, ih2⟩ := ih (sh + 1) (c ++ [onesI lb * 2 ^ (sh + 1)]) hc' (by simp) (by
      intro t ht hin
      rcases List.mem_append.mp hin with h | h
      · exact hnot t (by omega) h
      · simp at h
        have := (run_shift_inj lb lb t (sh + 1) hlb hlb h).2
        omega)
    refine ⟨ih1, fun x => ?_⟩
    rw [ih2 x]
    constructor
    · rintro (h | ⟨t, h1, h2, h3⟩)
      · rcases List.mem_append.mp h with h | h
        · exact Or.inl h
        · simp at h; exact Or.inr ⟨sh + 1, by omega, by omega, h⟩
      · exact Or.inr ⟨t, by omega, by omega, h3⟩
    · rintro (h | ⟨t, h1, h2, h3⟩)
      · exact Or.inl (List.mem_append_left _ h)
      · by_cases ht : t = sh + 1
        · subst ht; left; simp [h3]
        · exact Or.inr ⟨t, by omega, by omega, h3⟩

/-! ### one step of RunsChain -/
structure RInv (L : List Nat) (st : RS) : Prop where
  chain : IsChain st.c
  mem : ∀ x, x ∈ st.c ↔ ∃ b j, b ∈ L ∧ j ≤ st.s b ∧ x = onesI b * 2 ^ j
  pos : ∀ b ∈ L, 1 ≤ b
  fresh : ∀ b, b ∉ L → st.s b = 0

def runsStepN (st : RS) (la lb : Nat) : RS :=
  let c1 := extend (onesI lb) (la - st.s lb) (st.s lb) st.c
  { c := c1 ++ [onesI (la + lb)],
    s := fun l => if l = lb then max (st.s lb) la else st.s l }

theorem runsStepN_inv (L : List Nat) (st : RS) (la lb : Nat) (hI : RInv L st)
    (hla : la ∈ L) (hlb : lb ∈ L) (hnew : la + lb ∉ L) :
    RInv (L ++ [la + lb]) (runsStepN st la lb) := by
  have hla1 := hI.pos la hla
  have hlb1 := hI.pos lb hlb
  have hbase : onesI lb * 2 ^ (st.s lb) ∈ st.c := (hI.mem _).2 ⟨lb, st.s lb, hlb, Nat.le_refl _, rfl⟩
  have hnot : ∀ t, st.s lb < t → onesI lb * 2 ^ t ∉ st.c := by
    intro t ht hin
    obtain ⟨b, j, hb, hj, he⟩ := (hI.mem _).1 hin
    obtain ⟨e1, e2⟩ := run_shift_inj lb b t j hlb1 (hI.pos b hb) he
    subst e1; omega
  obtain ⟨hc1, hm1⟩ := extend_spec lb hlb1 (la - st.s lb) (st.s lb) st.c hI.chain hbase hnot
  -- membership facts for the two summands of the new run
  have hA : onesI lb * 2 ^ la ∈ extend (onesI lb) (la - st.s lb) (st.s lb) st.c := by
    rw [hm1]
    by_cases h : la ≤ st.s lb
    · exact Or.inl ((hI.mem _).2 ⟨lb, la, hlb, h, rfl⟩)
    · exact Or.inr ⟨la, by omega, by omega, rfl⟩
  have hB : onesI la ∈ extend (onesI lb) (la - st.s lb) (st.s lb) st.c := by
    rw [hm1]
    exact Or.inl ((hI.mem _).2 ⟨la, 0, hla, Nat.zero_le _, by simp⟩)
  have hN : onesI (la + lb) ∉ extend (onesI lb) (la - st.s lb) (st.s lb) st.c := by
    rw [hm1]
    rintro (h | ⟨t, h1, _, h3⟩)
    · obtain ⟨b, j, hb, _, he⟩ := (hI.mem _).1 h
      have : onesI (la + lb) * 2 ^ 0 = onesI b * 2 ^ j := by simpa using he
      obtain ⟨e1, _⟩ := run_shift_inj (la + lb) b 0 j (by omega) (hI.pos b hb) this
      subst e1; exact hnew hb
    · have : onesI (la + lb) * 2 ^ 0 = onesI lb * 2 ^ t := by simpa using h3
      obtain ⟨e1, _⟩ := run_shift_inj (la + lb) lb 0 t (by omega) hlb1 this
      omega
  have hpos : onesI (la + lb) ≠ 0 := by have := onesI_pos (la + lb) (by omega); omega
  unfold runsStepN
  refine ⟨?_, ?_, ?_, ?_⟩
  · simp only []
    rw [onesI_add la lb]
    apply isChain_snoc _ _ _ hc1 hA hB
    · rw [← onesI_add]; exact hN
    · rw [← onesI_add]; exact hpos
  · intro x
    simp only [List.mem_append, List.mem_singleton, hm1]
    constructor
    · rintro ((h | ⟨t, h1, h2, h3⟩) | h)
      · obtain ⟨b, j, hb, hj, he⟩ := (hI.mem _).1 h
        refine ⟨b, j, Or.inl hb, ?_, he⟩
        by_cases hbl : b = lb
        · subst hbl; simp only [if_true]; exact Nat.le_trans hj (Nat.le_max_left _ _)
        · simp only [hbl, if_false]; exact hj
      · refine ⟨lb, t, Or.inl hlb, ?_, h3⟩
        simp only [if_true]
        have : t ≤ la := by omega
        exact Nat.le_trans this (Nat.le_max_right _ _)
      · refine ⟨la + lb, 0, Or.inr rfl, Nat.zero_le _, by simp [h]⟩
    · rintro ⟨b, j, hb, hj, he⟩
      rcases hb with hb | hb
      · by_cases hbl : b = lb
        · subst hbl
          simp only [if_true] at hj
          by_cases hjs : j ≤ st.s b
          · exact Or.inl (Or.inl ((hI.mem _).2 ⟨b, j, hb, hjs, he⟩))
          · have : j ≤ la := by
              rcases Nat.le_total (st.s b) la with h | h
              · rw [Nat.max_eq_right h] at hj; exact hj
              · rw [Nat.max_eq_left h] at hj; omega
            exact Or.inl (Or.inr ⟨j, by omega, by omega, he⟩)
        · simp only [hbl, if_false] at hj
          exact Or.inl (Or.inl ((hI.mem _).2 ⟨b, j, hb, hj, he⟩))
      · subst hb
        have hne : la + lb ≠ lb := by omega
        simp only [hne, if_false] at hj
        have := hI.fresh (la + lb) hnew
        have hj0 : j = 0 := by omega
        subst hj0
        right; simpa using he
  · intro b hb
    rcases List.mem_append.mp hb with h | h
    · exact hI.pos b h
    · simp at h; omega
  · intro b hb
    have hbL : b ∉ L := fun h => hb (List.mem_append_left _ h)
    have hne : b ≠ lb := fun e => hbL (e ▸ hlb)
    simp only [hne, if_false]
    exact hI.fresh b hbL


/-- the (min,max) length pairs read off a valid lengths chain, each over the lengths so far -/
def ValidSteps : List Nat → List (Nat × Nat) → Prop
  | _, [] => True
  | L, (la, lb) :: r => la ∈ L ∧ lb ∈ L ∧ la + lb ∉ L ∧ ValidSteps (L ++ [la + lb]) r

def runSteps (st : RS) (steps : List (Nat × Nat)) : RS := steps.foldl (fun s p => runsStepN s p.1 p.2) st
def lensAfter (L : List Nat) (steps : List (Nat × Nat)) : List Nat := L ++ steps.map (fun p => p.1 + p.2)

theorem runSteps_inv : ∀ (steps : List (Nat × Nat)) (L : List Nat) (st : RS), RInv L st → ValidSteps L steps →
    RInv (lensAfter L steps) (runSteps st steps) := by
  intro steps
  induction steps with
  | nil => intro L st h _; simpa [lensAfter, runSteps] using h
  | cons p r ih =>
    intro L st h hv
    obtain ⟨la, lb⟩ := p
    obtain ⟨h1, h2, h3, h4⟩ := hv
    have := ih (L ++ [la + lb]) (runsStepN st la lb) (runsStepN_inv L st la lb h h1 h2 h3) h4
    simpa [lensAfter, runSteps] using this

/-- **C11 core**: starting from `{1}`, after any valid sequence of length additions the result is
    an addition chain containing `2^l − 1` for every length reached. -/
theorem runs_ok (steps : List (Nat × Nat)) (hv : ValidSteps [1] steps) :
    let st := runSteps ⟨[1], fun _ => 0⟩ steps
    IsChain st.c ∧ ∀ l ∈ lensAfter [1] steps, onesI l ∈ st.c := by
  have h0 : RInv [1] ⟨[1], fun _ => 0⟩ := by
    refine ⟨⟨by simp, rfl, by simp, by simp, ?_⟩, ?_, by simp, by intro b _; rfl⟩
    · intro k hk0 hkl; simp at hkl; omega
    · intro x
      simp only [List.mem_singleton]
      constructor
      · intro h; exact ⟨1, 0, rfl, Nat.le_refl _, by simp [h, onesI]⟩
      · rintro ⟨b, j, hb, hj, he⟩
        subst hb
        have : j = 0 := by omega
        subst this; simp [he, onesI]
  have h := runSteps_inv steps [1] _ h0 hv
  refine ⟨h.chain, ?_⟩
  intro l hl
  exact (h.mem _).2 ⟨l, 0, hl, Nat.zero_le _, by simp⟩

end P
