import AC.TextCompose
import AC.Props.C01
import AC.Props.C14
/-! # C14 — the search command over the CONCRETE parts

`P.SearchX.search` is the model of `search.Execute` over abstract `Parts`.  Here the parts are the
models of the other properties:

* `algs`  — `exec.Execute` (`P.DA.executeWith`, C01) on every configuration of a list `cfgs`
  (instantiated with the regenerated `AC.Gen.ensembleConfigs`), for an arbitrary sequence-algorithm
  runner (fuel) and an arbitrary family of sort oracles;
* `emit`  — `printer.String ∘ acc.Build ∘ acc.Decompile` (`decompileX`, `buildX`, `printScript`; C04, C07);
* `load`  — `acc.LoadString` (`P.SemX.loadText` = parse, translate, compile, evaluate; C03).

Proved: the report of a successful search is self-consistent and minimal (`search_concrete`), and the
search is total for every expression denoting `n ≥ 1` in the input-size range (`search_total`). -/
namespace P.SearchCompose
open P P.DA P.SearchX P.BuildX P.TextCompose

/-- `exec.Execute(n, a).Program`, `none` on error -/
def algOf (sf : SeqRun) (orc : ChainAlg → Nat → List TermP) (a : ChainAlg) : Int → Option (List Op) :=
  fun n => match executeWith sf a n.toNat (orc a n.toNat) with
    | .ok x => some x.2
    | .error _ => none

/-- `printer.String(acc.Build(acc.Decompile(p)))`, `none` on error -/
def emitC (p : List Op) : Option (List Char) :=
  match decompileX p with
  | .error _ => none
  | .ok ir => match buildX ir with
    | .error _ => none
    | .ok s => some (printScript s)

/-- `acc.LoadString(txt)`: chain and program, `none` on error -/
def loadC (t : List Char) : Option (Chain × List Op) :=
  match P.SemX.loadText t with
  | .ok st => some (st.chain.map (fun k : Nat => (k : Int)), st.ops)
  | .error _ => none

def parts (sf : SeqRun) (orc : ChainAlg → Nat → List TermP) (cfgs : List ChainAlg) : Parts where
  algs := cfgs.map (algOf sf orc)
  emit := emitC
  load := loadC

/-! ## what `Execute` guarantees about a returned program, for every runner and oracle -/

theorem inRange_of_program (c : Chain) (p : List Op) (h : program c = .ok p) : P.Sem.InRange p 0 := by
  have hchain : IsChain c := (validate_iff c).1 ⟨p, h⟩
  have hlen := (program_get c p h).1
  unfold program at h
  split at h; · cases h
  split at h; · cases h
  split at h; · cases h
  split at h; · cases h
  have hget := collect_get _ _ _ h
  have hpk : ∀ k', (hk : k' < p.length) → p[k'] ∈ ops c (k'+1) := by
    intro k' hk'
    have := congrArg (fun l => l[k']?) hget
    simp only [firstOps, List.getElem?_map, List.getElem?_range (show k' < c.length - 1 by omega),
      Option.map_some] at this
    rw [List.getElem?_eq_getElem hk'] at this
    exact List.mem_of_mem_head? (by simpa using this)
  have key : ∀ (r : List Op) (k : Nat), (∀ j (hj : j < r.length), r[j].1 ≤ k + j ∧ r[j].2 ≤ k + j) →
      P.Sem.InRange r k := by
    intro r
    induction r with
    | nil => intro k _; simp [P.Sem.InRange]
    | cons o r ih =>
      intro k hr
      have h0 := hr 0 (by simp)
      simp only [List.getElem_cons_zero] at h0
      refine ⟨by omega, by omega, ih (k+1) ?_⟩
      intro j hj
      have := hr (j+1) (by simp; omega)
      simp only [List.getElem_cons_succ] at this
      omega
  apply key
  intro j hj
  have hm := hpk j hj
  generalize p[j] = o at hm
  obtain ⟨a, b⟩ := o
  have := (mem_ops c (j+1) a b (by omega)).1 hm
  simp only []
  omega

/-- a program returned by `Execute` (any runner, any oracle): operands in range, its chain is a valid
    addition chain ending at the target -/
theorem executeWith_facts (sf : SeqRun) (a : ChainAlg) (n : Nat) (o : List TermP) (c : Chain) (p : List Op)
    (h : executeWith sf a n o = .ok (c, p)) :
    P.Sem.InRange p 0 ∧ evaluate p = c ∧ IsChain c ∧ c.getLast? = some (n : Int) := by
  unfold executeWith at h
  split at h
  · cases h
  · rename_i c' hc
    split at h
    · cases h
    · rename_i p' hp
      split at h
      · rename_i hl
        cases h
        exact ⟨inRange_of_program c p hp, program_evaluate c p hp, (validate_iff c).1 ⟨p, hp⟩, by simpa using hl⟩
      · cases h

theorem count_map_norm (p : List Op) : PX.count (p.map P.Sem.norm) = PX.count p := by
  rw [PX.count_eq, PX.count_eq]
  have h : ∀ o : Op, ((P.Sem.norm o).1 == (P.Sem.norm o).2) = (o.1 == o.2) := by
    intro o
    obtain ⟨a, b⟩ := o
    simp only [P.Sem.norm]
    by_cases hab : a = b
    · subst hab; simp
    · have h1 : (a == b) = false := by simpa using hab
      rw [h1]
      have : ¬ (min a b = max a b) := by omega
      simpa using this
  simp only [List.countP_map]
  congr 1
  · congr 1; funext o; simp [Function.comp, h o]
  · congr 1; funext o; simp [Function.comp, h o]

/-- **emit then load** on the program of any valid chain with fewer than `2^63 - 1` operations:
    the text is produced, and loading it gives the chain of `p` and `p` with sorted addition operands -/
theorem emit_load (p : List Op) (hr : P.Sem.InRange p 0) (hc : IsChain (evaluate p))
    (hsz : p.length + 1 < 2 ^ 63) :
    ∃ txt, emitC p = some txt ∧ loadC txt = some (evaluate p, p.map P.Sem.norm) := by
  obtain ⟨ir, s, h1, h2, _, _, h5, h6⟩ := C04_text p hr hc.2.2.2.1 hsz
  refine ⟨printScript s, ?_, ?_⟩
  · unfold emitC; rw [h1]; simp only []; rw [h2]
  · unfold loadC; rw [h5]; simp only []; rw [h6]

/-- `emit` alone needs no size bound -/
theorem emit_total (p : List Op) (hr : P.Sem.InRange p 0) (hc : IsChain (evaluate p)) :
    ∃ txt, emitC p = some txt := by
  obtain ⟨ir, s, h1, h2, _, _⟩ := AC.Props.C04.C04_roundtrip_core p hr hc.2.2.2.1
  exact ⟨printScript s, by unfold emitC; rw [h1]; simp only []; rw [h2]⟩

/-! ## the report of a successful search -/

/-- **C14 over the concrete parts**: for every list of configurations, every runner and every oracle
    family, if `search` prints `(txt, cost)` for the expression `e` with add/double weights `A`/`D`, then
    `e` denotes some `n ≥ 1`; every algorithm returned a program; no algorithm result is cheaper than
    `cost`; and — provided the selected program has fewer than `2^63 - 1` operations (no Go slice holds
    more) — loading `txt` (`acc.LoadString`) succeeds with a valid addition chain ending in `n` whose
    program has weighted operation count exactly `cost`. -/
theorem search_concrete (sf : SeqRun) (orc : ChainAlg → Nat → List TermP) (cfgs : List ChainAlg)
    (A D : Int) (e txt : List Char) (cost : Int)
    (h : search (parts sf orc cfgs) A D e = .ok (txt, cost)) :
    ∃ n, AC.Calc.eval e = .ok n ∧ 1 ≤ n ∧
    ∃ rs, (parts sf orc cfgs).algs.mapM (fun a => a n) = some rs ∧ (∀ r ∈ rs, cost ≤ costOf A D r) ∧
    ∃ best, best ∈ rs ∧ cost = costOf A D best ∧ emitC best = some txt ∧
      (best.length + 1 < 2 ^ 63 →
        ∃ c q, loadC txt = some (c, q) ∧ IsChain c ∧ c.getLast? = some n ∧ cost = costOf A D q) := by
  unfold search at h
  cases hc : AC.Calc.eval e with
  | err => rw [hc] at h; cases h
  | halt x => rw [hc] at h; cases h
  | ok n =>
    rw [hc] at h
    simp only [] at h
    by_cases hn : n ≤ 0
    · simp [hn] at h
    · simp only [hn, if_false] at h
      cases hrs : (parts sf orc cfgs).algs.mapM (fun a => a n) with
      | none => rw [hrs] at h; cases h
      | some rs =>
        rw [hrs] at h
        simp only [] at h
        by_cases hrne : rs.map (costOf A D) = []
        · simp [argminFirst, hrne] at h
        · obtain ⟨i, h1, hi, h2, h3, _⟩ := argminFirst_spec _ hrne
          rw [h1, h2] at h
          simp only [] at h
          cases hem : (parts sf orc cfgs).emit (rs.getD i []) with
          | none => rw [hem] at h; cases h
          | some t =>
            rw [hem] at h
            have htxt : t = txt := by injection h with h; injection h
            have hcost : (rs.map (costOf A D))[i] = cost := by injection h with h; injection h
            subst htxt
            have hi' : i < rs.length := by simpa using hi
            have hget : rs.getD i [] = rs[i] := by simp [List.getD, hi']
            rw [hget] at hem
            have hmem : rs[i] ∈ rs := List.getElem_mem hi'
            obtain ⟨a, ha, hap⟩ := mapM_mem _ _ _ hrs rs[i] hmem
            -- a = algOf … cfg
            obtain ⟨cfg, _, rfl⟩ := List.mem_map.mp ha
            have hcostI : cost = costOf A D rs[i] := by rw [← hcost]; simp
            refine ⟨n, rfl, by omega, rs, hrs, ?_, rs[i], hmem, hcostI, hem, ?_⟩
            · intro r hr
              rw [← hcost]
              exact h3 _ (List.mem_map_of_mem hr)
            · intro hsz
              unfold algOf at hap
              split at hap
              · rename_i x hx
                injection hap with hap
                obtain ⟨c, p⟩ := x
                simp only [] at hap
                subst hap
                obtain ⟨f1, f2, f3, f4⟩ := executeWith_facts sf cfg _ _ c _ hx
                have hnn : ((n.toNat : Nat) : Int) = n := by omega
                rw [hnn] at f4
                obtain ⟨t', ht', hl'⟩ := emit_load _ f1 (by rw [f2]; exact f3) hsz
                have : t' = t := by
                  have := ht'.symm.trans hem
                  injection this
                subst this
                refine ⟨_, _, hl', by rw [f2]; exact f3, by rw [f2]; exact f4, ?_⟩
                rw [hcostI]
                unfold costOf
                rw [count_map_norm]
              · cases hap

/-! ## totality of the search -/

theorem mapM_some_of_forall {α β} (f : α → Option β) : ∀ (l : List α), (∀ a ∈ l, ∃ b, f a = some b) →
    ∃ bs, l.mapM f = some bs := by
  intro l
  induction l with
  | nil => intro _; exact ⟨[], by simp⟩
  | cons a l ih =>
    intro h
    obtain ⟨b, hb⟩ := h a List.mem_cons_self
    obtain ⟨bs, hbs⟩ := ih (fun a' ha' => h a' (List.mem_cons_of_mem _ ha'))
    exact ⟨b :: bs, by rw [List.mapM_cons, hb, hbs]; rfl⟩

theorem mapM_length {α β} (f : α → Option β) : ∀ (l : List α) (bs : List β), l.mapM f = some bs →
    l.length = bs.length := by
  intro l
  induction l with
  | nil => intro bs h; simp at h; subst h; rfl
  | cons a l ih =>
    intro bs h
    rw [List.mapM_cons] at h
    cases ha : f a with
    | none => simp [ha] at h
    | some b =>
      cases hl : l.mapM f with
      | none => simp [ha, hl] at h
      | some bs' =>
        simp [ha, hl] at h
        subst h
        simp [ih bs' hl]

/-- one fuel bound for a whole list of well-formed configurations -/
theorem uniform_fuel (cfgs : List ChainAlg) (hw : ∀ a ∈ cfgs, a.wf = true) (n : Nat) (hn : 1 ≤ n)
    (hsz : Nat.log2 n + 1 < 2 ^ 64) :
    ∃ F, ∀ f, F ≤ f → ∀ a ∈ cfgs, ∀ o,
      (∃ c p, executeWith (SeqAlg.findF f) a n o = .ok (c, p)) ∨
      executeWith (SeqAlg.findF f) a n o = .error .oracle := by
  induction cfgs with
  | nil => exact ⟨0, fun _ _ a ha => by cases ha⟩
  | cons a l ih =>
    obtain ⟨F1, h1⟩ := executeWith_total a (hw a List.mem_cons_self) n hn hsz
    obtain ⟨F2, h2⟩ := ih (fun a' ha' => hw a' (List.mem_cons_of_mem _ ha'))
    refine ⟨F1 + F2, fun f hf a' ha' o => ?_⟩
    rcases List.mem_cons.mp ha' with rfl | hm
    · rcases h1 f (by omega) o with ⟨c, p, hh, _⟩ | hh
      · exact Or.inl ⟨c, p, hh⟩
      · exact Or.inr hh
    · exact h2 f (by omega) a' hm o

/-- **the search never fails on a target in range**: for every non-empty list of well-formed
    configurations, every expression that evaluates to `n ≥ 1` whose bit length fits a machine word, all
    sufficiently large fuel and every oracle family: either `search` prints a script and a cost, or one
    of the oracles was not an admissible result of the unstable sort (the driver checks the real order
    admissible on every run).  In particular no algorithm error, no `rs[best]` index panic and no
    `Decompile`/`Build` error is reachable. -/
theorem search_total (cfgs : List ChainAlg) (hne : cfgs ≠ []) (hw : ∀ a ∈ cfgs, a.wf = true)
    (A D : Int) (e : List Char) (n : Int) (he : AC.Calc.eval e = .ok n) (hn : 1 ≤ n)
    (hsz : Nat.log2 n.toNat + 1 < 2 ^ 64) :
    ∃ F, ∀ f, F ≤ f → ∀ orc,
      (∃ txt cost, search (parts (SeqAlg.findF f) orc cfgs) A D e = .ok (txt, cost)) ∨
      (∃ a ∈ cfgs, executeWith (SeqAlg.findF f) a n.toNat (orc a n.toNat) = .error .oracle) := by
  obtain ⟨F, hF⟩ := uniform_fuel cfgs hw n.toNat (by omega) hsz
  refine ⟨F, fun f hf orc => ?_⟩
  by_cases hor : ∃ a ∈ cfgs, executeWith (SeqAlg.findF f) a n.toNat (orc a n.toNat) = .error .oracle
  · exact Or.inr hor
  · left
    have hall : ∀ a ∈ cfgs, ∃ c p, executeWith (SeqAlg.findF f) a n.toNat (orc a n.toNat) = .ok (c, p) := by
      intro a ha
      rcases hF f hf a ha (orc a n.toNat) with h | h
      · exact h
      · exact absurd ⟨a, ha, h⟩ hor
    have hsome : ∀ g ∈ (parts (SeqAlg.findF f) orc cfgs).algs, ∃ b, g n = some b := by
      intro g hg
      obtain ⟨a, ha, rfl⟩ := List.mem_map.mp hg
      obtain ⟨c, p, hcp⟩ := hall a ha
      exact ⟨p, by unfold algOf; rw [hcp]⟩
    obtain ⟨rs, hrs⟩ := mapM_some_of_forall (fun (g : Int → Option (List Op)) => g n) _ hsome
    have hlen : rs.length = cfgs.length := by
      have := mapM_length _ _ _ hrs
      simpa [parts] using this.symm
    have hrne : rs.map (costOf A D) ≠ [] := by
      intro h0
      have : rs = [] := by simpa using h0
      rw [this] at hlen
      exact hne (List.length_eq_zero_iff.mp hlen.symm)
    obtain ⟨i, h1, hi, h2, _, _⟩ := argminFirst_spec _ hrne
    have hi' : i < rs.length := by simpa using hi
    have hget : rs.getD i [] = rs[i] := by simp [List.getD, hi']
    obtain ⟨g, hg, hgp⟩ := mapM_mem _ _ _ hrs rs[i] (List.getElem_mem hi')
    obtain ⟨a, ha, rfl⟩ := List.mem_map.mp hg
    have hemit : ∃ t, emitC rs[i] = some t := by
      unfold algOf at hgp
      split at hgp
      · rename_i x hx
        injection hgp with hgp
        obtain ⟨c, p⟩ := x
        simp only [] at hgp
        subst hgp
        obtain ⟨f1, f2, f3, _⟩ := executeWith_facts _ a _ _ c _ hx
        exact emit_total _ f1 (by rw [f2]; exact f3)
      · cases hgp
    obtain ⟨t, ht⟩ := hemit
    refine ⟨t, (rs.map (costOf A D))[i], ?_⟩
    unfold search
    rw [he]
    simp only []
    have hn0 : ¬ n ≤ 0 := by omega
    simp only [hn0, if_false]
    rw [hrs]
    simp only []
    rw [h1, h2]
    simp only []
    rw [hget]
    show (match emitC rs[i] with | some txt => _ | none => _) = _
    rw [ht]

end P.SearchCompose

namespace AC.Props.C14
open P P.DA P.SearchX P.SearchCompose

/-- **C14, self-consistency and minimality, for the concrete models and the regenerated ensemble**
    (`AC.Gen.ensembleConfigs` is rewritten from `ensemble.Ensemble()` of the working tree on every run):
    whatever `search` prints loads to a valid chain ending in the value of the expression, the reported
    cost is the weighted operation count of the loaded program, and no algorithm result is cheaper. -/
theorem C14_search_concrete (sf : SeqRun) (orc : ChainAlg → Nat → List TermP)
    (A D : Int) (e txt : List Char) (cost : Int)
    (h : search (parts sf orc AC.Gen.ensembleConfigs) A D e = .ok (txt, cost)) :
    ∃ n, AC.Calc.eval e = .ok n ∧ 1 ≤ n ∧
    ∃ rs, (parts sf orc AC.Gen.ensembleConfigs).algs.mapM (fun a => a n) = some rs ∧
      (∀ r ∈ rs, cost ≤ costOf A D r) ∧
    ∃ best, best ∈ rs ∧ cost = costOf A D best ∧ emitC best = some txt ∧
      (best.length + 1 < 2 ^ 63 →
        ∃ c q, loadC txt = some (c, q) ∧ IsChain c ∧ c.getLast? = some n ∧ cost = costOf A D q) :=
  search_concrete sf orc _ A D e txt cost h

/-- **C14/C15, totality of the search over the regenerated ensemble**: every expression denoting
    `n ≥ 1` in the input-size range yields a script and a cost (for all large fuel, every admissible
    oracle family) -/
theorem C14_search_ensemble_total (A D : Int) (e : List Char) (n : Int) (he : AC.Calc.eval e = .ok n)
    (hn : 1 ≤ n) (hsz : Nat.log2 n.toNat + 1 < 2 ^ 64) :
    ∃ F, ∀ f, F ≤ f → ∀ orc,
      (∃ txt cost, search (parts (SeqAlg.findF f) orc AC.Gen.ensembleConfigs) A D e = .ok (txt, cost)) ∨
      (∃ a ∈ AC.Gen.ensembleConfigs,
        executeWith (SeqAlg.findF f) a n.toNat (orc a n.toNat) = .error .oracle) :=
  search_total _ (by unfold AC.Gen.ensembleConfigs; exact List.cons_ne_nil _ _)
    AC.Props.C01.C01_ensemble_wf A D e n he hn hsz

end AC.Props.C14
