import AC.OptX
import AC.Opt
import AC.Runs
/-! Proof of C10 over the executable, index-based model `P.OptX.optimize`. -/
namespace P.OptX
open P

/-! ### list plumbing -/
theorem incr_length : ∀ (cs : List Nat) (i : Nat), (incr cs i).length = cs.length
  | [], _ => rfl
  | _ :: _, 0 => rfl
  | _ :: r, i+1 => by simp [incr, incr_length r i]

theorem incr_mono : ∀ (cs : List Nat) (i j : Nat), cs.getD j 0 ≤ (incr cs i).getD j 0
  | [], _, _ => by simp [incr]
  | c :: r, 0, j => by cases j <;> simp [incr]
  | c :: r, i+1, j => by
    cases j with
    | zero => simp [incr]
    | succ j => simpa [incr] using incr_mono r i j

theorem incr_pos : ∀ (cs : List Nat) (i : Nat), i < cs.length → 0 < (incr cs i).getD i 0
  | [], _, h => by simp at h
  | c :: r, 0, _ => by simp [incr]
  | c :: r, i+1, h => by simpa [incr] using incr_pos r i (by simpa using h)

theorem foldl_incr_length (is : List Nat) : ∀ cs : List Nat, (is.foldl incr cs).length = cs.length := by
  induction is with
  | nil => intro cs; rfl
  | cons i r ih => intro cs; simp only [List.foldl_cons]; rw [ih, incr_length]

theorem foldl_incr_mono (is : List Nat) : ∀ (cs : List Nat) (j : Nat), cs.getD j 0 ≤ (is.foldl incr cs).getD j 0 := by
  induction is with
  | nil => intro cs j; exact Nat.le_refl _
  | cons i r ih => intro cs j; simp only [List.foldl_cons]; exact Nat.le_trans (incr_mono cs i j) (ih _ j)

theorem foldl_incr_pos (is : List Nat) : ∀ (cs : List Nat) (i : Nat), i ∈ is → i < cs.length →
    0 < (is.foldl incr cs).getD i 0 := by
  induction is with
  | nil => intro cs i h; cases h
  | cons a r ih =>
    intro cs i hm hl
    simp only [List.foldl_cons]
    rcases List.mem_cons.1 hm with rfl | hm
    · exact Nat.lt_of_lt_of_le (incr_pos cs i hl) (foldl_incr_mono r _ i)
    · exact ih _ i hm (by rw [incr_length]; exact hl)

theorem bumpSingle_length (cs : List Nat) (l : List Op) : (bumpSingle cs l).length = cs.length := by
  unfold bumpSingle
  split
  · exact foldl_incr_length _ _
  · rfl

theorem bumpSingle_mono (cs : List Nat) (l : List Op) (j : Nat) : cs.getD j 0 ≤ (bumpSingle cs l).getD j 0 := by
  unfold bumpSingle
  split
  · exact foldl_incr_mono _ _ j
  · exact Nat.le_refl _

theorem bumpSingle_pos (cs : List Nat) (o : Op) (i : Nat) (hi : i ∈ operands o) (hl : i < cs.length) :
    0 < (bumpSingle cs [o]).getD i 0 := by
  unfold bumpSingle
  exact foldl_incr_pos _ cs i hi hl

/-- folding `bumpSingle` over positions `ls` with lists `g l` -/
def bumpAll (g : Nat → List Op) (ls : List Nat) (cs : List Nat) : List Nat :=
  ls.foldl (fun cs l => bumpSingle cs (g l)) cs

theorem bumpAll_length (g : Nat → List Op) (ls : List Nat) : ∀ cs, (bumpAll g ls cs).length = cs.length := by
  induction ls with
  | nil => intro cs; rfl
  | cons a r ih => intro cs; simp only [bumpAll, List.foldl_cons] at *; rw [ih, bumpSingle_length]

theorem bumpAll_mono (g : Nat → List Op) (ls : List Nat) : ∀ cs j, cs.getD j 0 ≤ (bumpAll g ls cs).getD j 0 := by
  induction ls with
  | nil => intro cs j; exact Nat.le_refl _
  | cons a r ih =>
    intro cs j
    simp only [bumpAll, List.foldl_cons] at *
    exact Nat.le_trans (bumpSingle_mono cs (g a) j) (ih _ j)

theorem bumpAll_pos (g : Nat → List Op) (ls : List Nat) : ∀ cs l o i, l ∈ ls → g l = [o] → i ∈ operands o →
    i < cs.length → 0 < (bumpAll g ls cs).getD i 0 := by
  induction ls with
  | nil => intro cs l o i h; cases h
  | cons a r ih =>
    intro cs l o i hm hg hi hl
    simp only [bumpAll, List.foldl_cons] at *
    rcases List.mem_cons.1 hm with rfl | hm
    · rw [hg]
      exact Nat.lt_of_lt_of_le (bumpSingle_pos cs o i hi hl) (bumpAll_mono g r _ i)
    · exact ih _ l o i hm hg hi (by rw [bumpSingle_length]; exact hl)

theorem getD_mapIdx {α β} (l : List α) (f : Nat → α → β) (i : Nat) (d : α) (d' : β) (h : i < l.length) :
    (l.mapIdx f).getD i d' = f i (l.getD i d) := by
  rw [List.getD_eq_getElem?_getD, List.getD_eq_getElem?_getD, List.getElem?_mapIdx]
  rw [List.getElem?_eq_getElem h]; rfl

theorem getD_map_range {β} (n : Nat) (f : Nat → β) (i : Nat) (d : β) (h : i < n) :
    ((List.range n).map f).getD i d = f i := by
  rw [List.getD_eq_getElem?_getD, List.getElem?_map, List.getElem?_range h]; rfl

/-! ### chains without duplicates: values determine indices -/
theorem at'_inj : ∀ (c : Chain), c.Nodup → ∀ i j, i < c.length → j < c.length → at' c i = at' c j → i = j := by
  intro c
  induction c with
  | nil => intro _ i j hi; simp at hi
  | cons x r ih =>
    intro hnd i j hi hj h
    rw [List.nodup_cons] at hnd
    have hmem : ∀ k, k < r.length → at' r k ∈ r := by
      intro k hk; unfold at'; rw [List.getD_eq_getElem?_getD, List.getElem?_eq_getElem hk]; exact List.getElem_mem hk
    cases i with
    | zero =>
      cases j with
      | zero => rfl
      | succ j =>
        exfalso
        have : at' (x :: r) (j+1) = at' r j := by simp [at']
        rw [this] at h
        have hx : at' (x :: r) 0 = x := by simp [at']
        rw [hx] at h
        exact hnd.1 (h ▸ hmem j (by simpa using hj))
    | succ i =>
      cases j with
      | zero =>
        exfalso
        have : at' (x :: r) (i+1) = at' r i := by simp [at']
        rw [this] at h
        have hx : at' (x :: r) 0 = x := by simp [at']
        rw [hx] at h
        exact hnd.1 (h ▸ hmem i (by simpa using hi))
      | succ j =>
        have e1 : at' (x :: r) (i+1) = at' r i := by simp [at']
        have e2 : at' (x :: r) (j+1) = at' r j := by simp [at']
        rw [e1, e2] at h
        have := ih hnd.2 i j (by simpa using hi) (by simpa using hj) h
        omega

/-- at most one op of position `l` uses a given index -/
theorem ops_uses_unique (c : Chain) (hnd : c.Nodup) (l : Nat) (hl : l < c.length) (k : Nat) (o o' : Op)
    (ho : o ∈ P.ops c l) (ho' : o' ∈ P.ops c l) (hu : uses o k = true) (hu' : uses o' k = true) : o = o' := by
  obtain ⟨i, j⟩ := o
  obtain ⟨i', j'⟩ := o'
  rw [mem_ops c l i j hl] at ho
  rw [mem_ops c l i' j' hl] at ho'
  obtain ⟨h1, h2, h3⟩ := ho
  obtain ⟨h1', h2', h3'⟩ := ho'
  simp only [uses, Bool.or_eq_true, beq_iff_eq] at hu hu'
  have inj := at'_inj c hnd
  have key : i = i' ∧ j = j' := by
    rcases hu with hu | hu <;> rcases hu' with hu' | hu'
    · have hii : i = i' := by omega
      have : at' c j = at' c j' := by rw [hii] at h3; omega
      exact ⟨hii, inj j j' (by omega) (by omega) this⟩
    · have hij : i = j' := by omega
      have e : at' c j = at' c i' := by rw [hij] at h3; omega
      have := inj j i' (by omega) (by omega) e
      omega
    · have hji : j = i' := by omega
      have e : at' c i = at' c j' := by rw [hji] at h3; omega
      have := inj i j' (by omega) (by omega) e
      omega
    · have hjj : j = j' := by omega
      have : at' c i = at' c i' := by rw [hjj] at h3; omega
      exact ⟨inj i i' (by omega) (by omega) this, hjj⟩
  rw [key.1, key.2]

theorem ops_nodup (c : Chain) (l : Nat) (hl : l < c.length) : (P.ops c l).Nodup := by
  rw [ops_eq_spec c l hl]
  have := quadOps_sorted c l
  exact this.imp (fun {a b} h e => by subst e; exact lexLt_irrefl _ h)

end P.OptX

namespace P.OptX
open P

def opsAt (st : St) (l : Nat) : List Op := st.ops.getD l []

structure Inv (c : Chain) (st : St) : Prop where
  lenO : st.ops.length = c.length
  lenC : st.counts.length = c.length
  sub : ∀ l o, o ∈ opsAt st l → 1 ≤ l ∧ l < c.length ∧ o ∈ P.ops c l
  nonempty : ∀ l, 1 ≤ l → l < c.length → l ∉ st.remove → opsAt st l ≠ []
  avoid : ∀ l o, o ∈ opsAt st l → ∀ r ∈ st.remove, uses o r = false
  counts : ∀ l o, opsAt st l = [o] → ∀ i ∈ operands o, 0 < st.counts.getD i 0
  rem : ∀ r ∈ st.remove, 1 ≤ r ∧ r + 1 < c.length
  nodup : ∀ l, (opsAt st l).Nodup

theorem mem_operands (o : Op) (i : Nat) : i ∈ operands o ↔ uses o i = true := by
  unfold operands uses
  by_cases h : o.1 = o.2
  · simp [h]; constructor
    · intro h; exact h.symm
    · intro h; exact h.symm
  · simp [h]; constructor
    · rintro (h | h) <;> simp [h]
    · rintro (h | h)
      · left; exact h.symm
      · right; exact h.symm

theorem op_lt (c : Chain) (l : Nat) (hl : l < c.length) (o : Op) (ho : o ∈ P.ops c l) : o.1 ≤ o.2 ∧ o.2 < l := by
  obtain ⟨i, j⟩ := o
  rw [mem_ops c l i j hl] at ho
  exact ⟨ho.1, ho.2.1⟩

theorem ops_ne_nil (c : Chain) (hc : IsChain c) (l : Nat) (h1 : 1 ≤ l) (hl : l < c.length) : P.ops c l ≠ [] := by
  obtain ⟨_, _, _, _, hops⟩ := hc
  obtain ⟨i, j, hi, hj, hs⟩ := hops l (by omega) hl
  intro he
  by_cases hij : i ≤ j
  · have : (i, j) ∈ P.ops c l := (mem_ops c l i j hl).2 ⟨hij, hj, hs⟩
    rw [he] at this; cases this
  · have : (j, i) ∈ P.ops c l := (mem_ops c l j i hl).2 ⟨by omega, hi, by omega⟩
    rw [he] at this; cases this

theorem opsAt_init (c : Chain) (l : Nat) :
    opsAt (initSt c) l = if 1 ≤ l ∧ l < c.length then P.ops c l else [] := by
  unfold opsAt initSt
  simp only []
  by_cases hl : l < c.length
  · rw [getD_map_range _ _ _ _ hl]
    by_cases h0 : l = 0
    · subst h0; simp
    · have : (l == 0) = false := by simp [h0]
      rw [this]; simp [hl]; omega
  · rw [List.getD_eq_getElem?_getD, List.getElem?_eq_none (by simp; omega)]
    simp [hl]

theorem init_inv (c : Chain) (hc : IsChain c) : Inv c (initSt c) := by
  have hlenO : (initSt c).ops.length = c.length := by simp [initSt]
  have hcounts : (initSt c).counts = bumpAll (fun k => opsAt (initSt c) k)
      ((List.range c.length).filter (0 < ·)) (List.replicate c.length 0) := rfl
  refine ⟨hlenO, ?_, ?_, ?_, ?_, ?_, ?_, ?_⟩
  · rw [hcounts, bumpAll_length]; simp
  · intro l o ho
    rw [opsAt_init] at ho
    split at ho
    · rename_i h; exact ⟨h.1, h.2, ho⟩
    · cases ho
  · intro l h1 hl _
    rw [opsAt_init, if_pos ⟨h1, hl⟩]
    exact ops_ne_nil c hc l h1 hl
  · intro l o _ r hr; simp [initSt] at hr
  · intro l o hlo i hi
    have hmem : o ∈ opsAt (initSt c) l := by rw [hlo]; simp
    rw [opsAt_init] at hmem
    split at hmem
    · rename_i h
      rw [hcounts]
      apply bumpAll_pos _ _ _ l o i _ hlo hi
      · simp
        have := op_lt c l h.2 o hmem
        have hu := (mem_operands o i).1 hi
        simp only [uses, Bool.or_eq_true, beq_iff_eq] at hu
        omega
      · simp; omega
    · cases hmem
  · intro r hr; simp [initSt] at hr
  · intro l
    rw [opsAt_init]
    split
    · rename_i h; exact ops_nodup c l h.2
    · exact List.nodup_nil

theorem opsAt_step (n : Nat) (st : St) (k : Nat) (h0 : st.counts.getD k 0 = 0) (l : Nat) :
    opsAt (step n st k) l = if k < l then pruneUses (opsAt st l) k else opsAt st l := by
  unfold step
  have : ¬ (st.counts.getD k 0 > 0) := by omega
  simp only [this, if_false]
  unfold opsAt
  simp only []
  by_cases hl : l < st.ops.length
  · rw [getD_mapIdx _ _ _ [] _ hl]
  · rw [List.getD_eq_getElem?_getD, List.getElem?_eq_none (by simp; omega)]
    rw [List.getD_eq_getElem?_getD, List.getElem?_eq_none (by omega)]
    simp [pruneUses]

theorem step_inv (c : Chain) (hnd : c.Nodup) (st : St) (k : Nat) (h : Inv c st) (hk1 : 1 ≤ k) (hk2 : k + 1 < c.length) :
    Inv c (step c.length st k) := by
  by_cases h0 : st.counts.getD k 0 > 0
  · unfold step; simp only [h0, if_true]; exact h
  · have h0' : st.counts.getD k 0 = 0 := by omega
    have hops := opsAt_step c.length st k h0'
    have hrem : (step c.length st k).remove = st.remove ++ [k] := by
      unfold step; simp only [h0, if_false]
    have hcnt : (step c.length st k).counts = bumpAll (fun l => opsAt (step c.length st k) l)
        ((List.range c.length).filter (k < ·)) st.counts := by
      unfold step bumpAll opsAt; simp only [h0, if_false]
    have hlenO : (step c.length st k).ops.length = c.length := by
      unfold step; simp only [h0, if_false]; simp [h.lenO]
    have hsubset : ∀ l o, o ∈ opsAt (step c.length st k) l → o ∈ opsAt st l := by
      intro l o ho
      rw [hops] at ho
      split at ho
      · exact (List.mem_filter.1 ho).1
      · exact ho
    refine ⟨hlenO, ?_, ?_, ?_, ?_, ?_, ?_, ?_⟩
    · rw [hcnt, bumpAll_length]; exact h.lenC
    · intro l o ho; exact h.sub l o (hsubset l o ho)
    · intro l h1 hl hnr
      rw [hrem] at hnr
      have hlr : l ∉ st.remove := fun hh => hnr (List.mem_append_left _ hh)
      have hlk : l ≠ k := fun hh => hnr (by rw [hh]; simp)
      have hold := h.nonempty l h1 hl hlr
      rw [hops]
      split
      · rename_i hkl
        -- pruning keeps at least one op
        match hl' : opsAt st l with
        | [] => exact absurd hl' hold
        | [o] =>
          have hu : uses o k = false := by
            cases hu : uses o k with
            | false => rfl
            | true =>
              have := h.counts l o hl' k ((mem_operands o k).2 hu)
              omega
          simp [pruneUses, hu]
        | a :: b :: r =>
          have hnd' := h.nodup l
          rw [hl'] at hnd'
          apply P.Opt.filter_ne_nil_of_two (a :: b :: r) (fun o => !uses o k) _ (by simp) hnd'
          intro x y hx hy hpx hpy
          have hx' := (h.sub l x (by rw [hl']; exact hx)).2.2
          have hy' := (h.sub l y (by rw [hl']; exact hy)).2.2
          exact ops_uses_unique c hnd l hl k x y hx' hy' (by simpa using hpx) (by simpa using hpy)
      · exact hold
    · intro l o ho r hr
      rw [hrem] at hr
      rcases List.mem_append.1 hr with hr | hr
      · exact h.avoid l o (hsubset l o ho) r hr
      · simp at hr; subst hr
        rw [hops] at ho
        split at ho
        · have := (List.mem_filter.1 ho).2
          simpa using this
        · rename_i hkl
          obtain ⟨_, hl, hmem⟩ := h.sub l o ho
          have := op_lt c l hl o hmem
          simp only [uses, Bool.or_eq_false_iff, beq_eq_false_iff_ne]
          omega
    · intro l o hlo i hi
      rw [hcnt]
      have hmem : o ∈ opsAt (step c.length st k) l := by rw [hlo]; simp
      obtain ⟨h1, hl, hmo⟩ := h.sub l o (hsubset l o hmem)
      have hi_lt : i < st.counts.length := by
        rw [h.lenC]
        have := op_lt c l hl o hmo
        have hu := (mem_operands o i).1 hi
        simp only [uses, Bool.or_eq_true, beq_iff_eq] at hu
        omega
      by_cases hkl : k < l
      · exact bumpAll_pos _ _ _ l o i (by simp; omega) hlo hi hi_lt
      · have : opsAt st l = [o] := by rw [hops, if_neg hkl] at hlo; exact hlo
        exact Nat.lt_of_lt_of_le (h.counts l o this i hi) (bumpAll_mono _ _ _ i)
    · intro r hr
      rw [hrem] at hr
      rcases List.mem_append.1 hr with hr | hr
      · exact h.rem r hr
      · simp at hr; subst hr; exact ⟨hk1, hk2⟩
    · intro l
      rw [hops]
      split
      · exact (h.nodup l).sublist List.filter_sublist
      · exact h.nodup l

theorem fold_inv (c : Chain) (hnd : c.Nodup) : ∀ (ks : List Nat) (st : St), Inv c st →
    (∀ k ∈ ks, 1 ≤ k ∧ k + 1 < c.length) → Inv c (ks.foldl (step c.length) st) := by
  intro ks
  induction ks with
  | nil => intro st h _; exact h
  | cons k r ih =>
    intro st h hk
    simp only [List.foldl_cons]
    exact ih _ (step_inv c hnd st k h (hk k (by simp)).1 (hk k (by simp)).2)
      (fun k' hk' => hk k' (List.mem_cons_of_mem _ hk'))

end P.OptX

namespace P.OptX
open P

/-- kept elements among the first `m` positions -/
def keptPrefix (c : Chain) (remove : List Nat) (m : Nat) : Chain :=
  (List.range m).filterMap fun i => if remove.contains i then none else some (at' c i)

theorem optimize_eq (c : Chain) :
    optimize c = keptPrefix c (((List.range (c.length - 1)).filter (0 < ·)).foldl (step c.length) (initSt c)).remove c.length := rfl

theorem at'_mem_of_lt (c : Chain) (i : Nat) (h : i < c.length) : at' c i ∈ c := by
  unfold at'; rw [List.getD_eq_getElem?_getD, List.getElem?_eq_getElem h]; exact List.getElem_mem h

theorem mem_keptPrefix (c : Chain) (remove : List Nat) (m : Nat) (x : Int) :
    x ∈ keptPrefix c remove m ↔ ∃ i, i < m ∧ i ∉ remove ∧ x = at' c i := by
  unfold keptPrefix
  simp only [List.mem_filterMap, List.mem_range]
  constructor
  · rintro ⟨i, hi, h⟩
    split at h
    · cases h
    · rename_i hc
      refine ⟨i, hi, ?_, by cases h; rfl⟩
      intro hm; exact hc (List.contains_iff_mem.2 hm)
  · rintro ⟨i, hi, hn, rfl⟩
    refine ⟨i, hi, ?_⟩
    simp [hn]

theorem keptPrefix_succ (c : Chain) (remove : List Nat) (m : Nat) :
    keptPrefix c remove (m + 1) = keptPrefix c remove m ++ (if remove.contains m then [] else [at' c m]) := by
  unfold keptPrefix
  rw [List.range_succ, List.filterMap_append]
  congr 1
  by_cases h : m ∈ remove <;> simp [h]

/-- the pruned chain is an addition chain -/
theorem kept_isChain (c : Chain) (hc : IsChain c) (st : St) (h : Inv c st) :
    ∀ m, m + 1 ≤ c.length → IsChain (keptPrefix c st.remove (m + 1)) := by
  obtain ⟨hne, h0, hz, hnd, _⟩ := hc
  intro m
  induction m with
  | zero =>
    intro _
    have h0r : (0 : Nat) ∉ st.remove := fun hh => by have := (h.rem 0 hh).1; omega
    have : keptPrefix c st.remove 1 = [1] := by
      unfold keptPrefix
      have : st.remove.contains 0 = false := by
        cases hcc : st.remove.contains 0 with
        | false => rfl
        | true => exact absurd (List.contains_iff_mem.1 hcc) h0r
      simp [List.range_succ, h0r, h0]
    rw [this]
    refine ⟨by simp, rfl, by simp, by simp, ?_⟩
    intro k hk0 hkl; simp at hkl; omega
  | succ m' ih =>
    intro hle
    have ihm := ih (by omega)
    generalize hmm : m' + 1 = m at *
    rw [keptPrefix_succ]
    by_cases hr : st.remove.contains m
    · simp only [hr, if_true, List.append_nil]; exact ihm
    · simp only [hr, Bool.false_eq_true, if_false]
      have hmr : m ∉ st.remove := fun hh => hr (List.contains_iff_mem.2 hh)
      have hml : m < c.length := by omega
      have hne' := h.nonempty m (by omega) hml hmr
      obtain ⟨o, ho⟩ := List.exists_mem_of_ne_nil _ hne'
      obtain ⟨_, _, hmo⟩ := h.sub m o ho
      have hav := h.avoid m o ho
      obtain ⟨i, j⟩ := o
      rw [mem_ops c m i j hml] at hmo
      obtain ⟨hij, hjm, hsum⟩ := hmo
      have hir : i ∉ st.remove := fun hh => by
        have := hav i hh; simp [uses] at this
      have hjr : j ∉ st.remove := fun hh => by
        have := hav j hh; simp [uses] at this
      have hi' : at' c i ∈ keptPrefix c st.remove m := (mem_keptPrefix _ _ _ _).2 ⟨i, by omega, hir, rfl⟩
      have hj' : at' c j ∈ keptPrefix c st.remove m := (mem_keptPrefix _ _ _ _).2 ⟨j, hjm, hjr, rfl⟩
      rw [← hsum]
      apply isChain_snoc _ _ _ ihm hi' hj'
      · rw [hsum]
        intro hmem
        obtain ⟨i', hi'm, _, he⟩ := (mem_keptPrefix _ _ _ _).1 hmem
        have := at'_inj c hnd m i' hml (by omega) he
        omega
      · rw [hsum]
        intro he
        exact hz (he ▸ at'_mem_of_lt c m hml)

theorem filterMap_sublist_map {α β} (p : α → Bool) (g : α → β) : ∀ l : List α,
    (l.filterMap fun i => if p i then none else some (g i)).Sublist (l.map g)
  | [] => List.Sublist.slnil
  | a :: r => by
    simp only [List.filterMap_cons, List.map_cons]
    by_cases h : p a
    · simp only [h, if_true]; exact (filterMap_sublist_map p g r).cons _
    · simp only [h, Bool.false_eq_true, if_false]; exact (filterMap_sublist_map p g r).cons_cons _

theorem map_at'_range (c : Chain) : (List.range c.length).map (at' c ·) = c := by
  apply List.ext_getElem?
  intro i
  by_cases h : i < c.length
  · rw [List.getElem?_map, List.getElem?_range h]
    simp [at', List.getD_eq_getElem?_getD, List.getElem?_eq_getElem h]
  · rw [List.getElem?_eq_none (by simp; omega), List.getElem?_eq_none (by omega)]

/-- **C10 over the executable model** -/
theorem optimize_ok (c : Chain) (hc : IsChain c) :
    IsChain (optimize c) ∧ (optimize c).Sublist c ∧ (optimize c).head? = some 1 ∧
    (optimize c).getLast? = c.getLast? := by
  have hnd := hc.2.2.2.1
  have hlen : 1 ≤ c.length := List.length_pos_iff.2 hc.1
  have hinv : Inv c (((List.range (c.length - 1)).filter (0 < ·)).foldl (step c.length) (initSt c)) := by
    apply fold_inv c hnd _ _ (init_inv c hc)
    intro k hk
    simp at hk
    omega
  rw [optimize_eq]
  generalize ((List.range (c.length - 1)).filter (0 < ·)).foldl (step c.length) (initSt c) = fin at hinv
  obtain ⟨n0, hn0⟩ : ∃ n0, c.length = n0 + 1 := ⟨c.length - 1, by omega⟩
  have hchain : IsChain (keptPrefix c fin.remove c.length) := by
    rw [hn0]; exact kept_isChain c hc fin hinv n0 (by omega)
  refine ⟨hchain, ?_, ?_, ?_⟩
  · have := filterMap_sublist_map (fun i => fin.remove.contains i) (at' c ·) (List.range c.length)
    rw [map_at'_range] at this
    exact this
  · obtain ⟨hne, h0, _⟩ := hchain
    cases hk : keptPrefix c fin.remove c.length with
    | nil => exact absurd hk hne
    | cons x r => rw [hk] at h0; simp [at'] at h0; simp [h0]
  · -- last position is never removed
    obtain ⟨n', hn'⟩ : ∃ n', c.length = n' + 1 := ⟨c.length - 1, by omega⟩
    rw [hn', keptPrefix_succ]
    have hlr : n' ∉ fin.remove := fun hh => by have := (hinv.rem n' hh).2; omega
    have : fin.remove.contains n' = false := by
      cases hcc : fin.remove.contains n' with
      | false => rfl
      | true => exact absurd (List.contains_iff_mem.1 hcc) hlr
    simp only [this, Bool.false_eq_true, if_false]
    rw [List.getLast?_append]
    simp only [List.getLast?_singleton, Option.some_or]
    rw [List.getLast?_eq_getElem?]
    simp [at', List.getD_eq_getElem?_getD, hn']

end P.OptX
