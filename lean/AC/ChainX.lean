import AC.Chain
import AC.OpsEq
/-! Model additions for chain.go: `Validate`, `Produces`, `Superset`, and a decidable
    (boolean) rendering of the specification `IsChain`, used by the driver as the oracle on
    the implementation's own output. -/
namespace P

/-- `Chain.Validate` -/
def validate (c : Chain) : Bool := match program c with | .ok _ => true | .error _ => false

/-- `Chain.Produces` -/
def produces (c : Chain) (t : Int) : Bool := validate c && c.getLast? == some t

/-- `Chain.Superset` -/
def superset (c : Chain) (ts : List Int) : Bool := validate c && ts.all (fun t => c.contains t)

/-- boolean specification of an addition chain, written directly from the property text -/
def isChainB (c : Chain) : Bool :=
  !c.isEmpty && at' c 0 == 1 && !c.contains 0 && !hasDup c &&
  (List.range c.length).all fun k => k == 0 ||
    (List.range k).any fun i => (List.range k).any fun j => at' c i + at' c j == at' c k

theorem isChainB_iff (c : Chain) : isChainB c = true ↔ IsChain c := by
  unfold isChainB IsChain
  simp only [Bool.and_eq_true, Bool.not_eq_true', List.all_eq_true, List.mem_range,
    Bool.or_eq_true, beq_iff_eq, List.any_eq_true, List.isEmpty_eq_false_iff, List.contains_iff_mem]
  constructor
  · rintro ⟨⟨⟨⟨h1, h2⟩, h3⟩, h4⟩, h5⟩
    refine ⟨h1, h2, ?_, (hasDup_false_iff c).1 h4, ?_⟩
    · intro h; simp [h] at h3
    · intro k hk0 hk
      rcases h5 k hk with h | ⟨i, hi, j, hj, hs⟩
      · omega
      · exact ⟨i, j, hi, hj, hs⟩
  · rintro ⟨h1, h2, h3, h4, h5⟩
    refine ⟨⟨⟨⟨h1, h2⟩, ?_⟩, (hasDup_false_iff c).2 h4⟩, ?_⟩
    · cases hc : c.contains 0 with
      | false => rfl
      | true => exact absurd (List.contains_iff_mem.1 hc) h3
    · intro k hk
      by_cases hk0 : k = 0
      · exact Or.inl hk0
      · obtain ⟨i, j, hi, hj, hs⟩ := h5 k (by omega) hk
        exact Or.inr ⟨i, hi, j, hj, hs⟩

theorem validate_eq_true_iff (c : Chain) : validate c = true ↔ IsChain c := by
  rw [← validate_iff]
  unfold validate
  cases program c with
  | ok p => simp
  | error e => simp

end P

namespace P
/-- oracle used by the driver: the direct boolean specification on short sequences, the
    (proved equivalent) validation model on long ones, where the cubic specification is too slow -/
def isChainO (c : Chain) : Bool := if c.length ≤ 40 then isChainB c else validate c

theorem isChainO_iff (c : Chain) : isChainO c = true ↔ IsChain c := by
  unfold isChainO
  split
  · exact isChainB_iff c
  · exact validate_eq_true_iff c
end P
