import AC.PegFull
import AC.SemXSim
/-! # C03 at text level: the parser model of `AC/PegFull.lean` composed with the load model of `AC/SemX.lean` -/
namespace P.SemX

def ofPegExpr : P.PegF.Expr → Expr
  | .operand i => .operand i
  | .ident s => .ident (String.ofList s)
  | .add x y => .add (ofPegExpr x) (ofPegExpr y)
  | .shift x s => .shift (ofPegExpr x) s
  | .double x => .double (ofPegExpr x)

def ofPegTree (t : P.PegF.Tree) : Tree := t.map fun s => ⟨String.ofList s.name, ofPegExpr s.e⟩

inductive TextErr | parse | sem (e : Err)
deriving Repr, BEq

/-- `acc.LoadString`: parse, translate, compile, evaluate -/
def loadText (s : List Char) : Except TextErr St :=
  match P.PegF.parse s with
  | .error _ => .error .parse
  | .ok t =>
    match load (ofPegTree t) with
    | .error e => .error (.sem e)
    | .ok st => .ok st

/-- the direct semantics of a text: the grammar's tree, then `denote` -/
def denoteText (s : List Char) : Option St :=
  match P.PegF.parse s with
  | .error _ => none
  | .ok t => denote (ofPegTree t)

end P.SemX
