import AC.BuildX
/-! # Proofs about the executable builder model `P.BuildX.buildX` (C04, C16)

* the concrete names are injective on duplicate-free chains (`nameS_inj`), legal (`nameL_legal`)
  and faithful (`nameL_faithful`) — from `P.Naming.nameOf_*`;
* the builder with the concrete inlining rule and complexity counter never hits the assertion of
  `builder.add`, and its statement list denotes the compiled program (`loopX_ok`, from `P.Sem.bStep_inv`);
* clearing the last name does not change the denotation (`finish_run`). -/
namespace P.BuildX
open P.Sem P.Naming

/-! ## chain values -/
def cvOf (chain : List Int) : Nat → Nat := fun i => (at' chain i).toNat

theorem evaluate_length (p : List P.Op) : (evaluate p).length = p.length + 1 := by
  have key : ∀ (q : List P.Op) (c0 : Chain),
      (q.foldl (fun c o => c ++ [at' c o.1 + at' c o.2]) c0).length = c0.length + q.length := by
    intro q
    induction q with
    | nil => intro c0; simp
    | cons o r ih => intro c0; simp only [List.foldl_cons, List.length_cons]; rw [ih]; simp; omega
  unfold evaluate; rw [key]; simp; omega

theorem at'_nonneg_of (c : Chain) (h : ∀ x ∈ c, (0 : Int) ≤ x) (i : Nat) : 0 ≤ at' c i := by
  unfold at'
  rw [List.getD_eq_getElem?_getD]
  cases hi : c[i]? with
  | none => simp
  | some v => simp; exact h v (List.mem_of_getElem? hi)

theorem evaluate_nonneg (p : List P.Op) : ∀ x ∈ evaluate p, (0 : Int) ≤ x := by
  have key : ∀ (q : List P.Op) (c0 : Chain), (∀ x ∈ c0, (0 : Int) ≤ x) →
      ∀ x ∈ q.foldl (fun c o => c ++ [at' c o.1 + at' c o.2]) c0, (0 : Int) ≤ x := by
    intro q
    induction q with
    | nil => intro c0 h; simpa using h
    | cons o r ih =>
      intro c0 h
      simp only [List.foldl_cons]
      apply ih
      intro x hx
      rcases List.mem_append.mp hx with hx | hx
      · exact h x hx
      · simp at hx; subst hx
        have := at'_nonneg_of c0 h o.1
        have := at'_nonneg_of c0 h o.2
        omega
  unfold evaluate
  exact key p [1] (by simp)

theorem at'_eq_getElem (c : Chain) (i : Nat) (h : i < c.length) : at' c i = c[i] := by
  unfold at'; simp [List.getD_eq_getElem?_getD, h]

/-- on a duplicate-free chain of non-negative values, equal `cvOf` means equal index -/
theorem cvOf_inj (c : Chain) (hnd : c.Nodup) (hnn : ∀ x ∈ c, (0 : Int) ≤ x) (i j : Nat)
    (hi : i < c.length) (hj : j < c.length) (h : cvOf c i = cvOf c j) : i = j := by
  unfold cvOf at h
  have h1 := at'_nonneg_of c hnn i
  have h2 := at'_nonneg_of c hnn j
  have : at' c i = at' c j := by omega
  rw [at'_eq_getElem c i hi, at'_eq_getElem c j hj] at this
  exact (List.getElem_inj hnd).mp this

/-! ## names -/
theorem nameL_in (c : Chain) (i : Nat) (h : i < c.length) : nameL c i = nameOf (cvOf c) i := by
  unfold nameL identOf nameOf cvOf
  simp only [h, if_true]
  by_cases a : bitLen (at' c i).toNat ≤ 8
  · simp [a]
  · simp only [a, if_false]
    by_cases b : (at' c i).toNat = 2 ^ bitLen (at' c i).toNat - 1
    · rw [if_pos b, if_pos b]; simp
    · rw [if_neg b, if_neg b]; simp

theorem nameL_out (c : Chain) (i : Nat) (h : ¬ i < c.length) : nameL c i = 'i' :: Nat.toDigits 10 i := by
  unfold nameL identOf
  simp [h]

theorem nameL_inj (c : Chain) (hnd : c.Nodup) (hnn : ∀ x ∈ c, (0 : Int) ≤ x) (a b : Nat)
    (h : nameL c a = nameL c b) : a = b := by
  by_cases ha : a < c.length <;> by_cases hb : b < c.length
  · rw [nameL_in c a ha, nameL_in c b hb] at h
    by_cases hv : cvOf c a = cvOf c b
    · exact cvOf_inj c hnd hnn a b ha hb hv
    · exact nameOf_inj (cvOf c) a b (fun e => absurd e hv) h
  · rw [nameL_in c a ha, nameL_out c b hb] at h
    have := (nameOf_faithful (cvOf c) a).2.2 _ h
    rw [Nat.ofDigitChars_toDigits (by omega) (by omega)] at this
    exact this.symm
  · rw [nameL_out c a ha, nameL_in c b hb] at h
    have := (nameOf_faithful (cvOf c) b).2.2 _ h.symm
    rw [Nat.ofDigitChars_toDigits (by omega) (by omega)] at this
    exact this
  · rw [nameL_out c a ha, nameL_out c b hb] at h
    simp only [List.cons.injEq, true_and] at h
    exact toDigits_inj 10 (by omega) (by omega) _ _ h

theorem nameS_inj (c : Chain) (hnd : c.Nodup) (hnn : ∀ x ∈ c, (0 : Int) ≤ x) (a b : Nat)
    (h : nameS c a = nameS c b) : a = b :=
  nameL_inj c hnd hnn a b (String.ofList_injective h)

theorem nameL_legal (c : Chain) (i : Nat) :
    ∃ ch cs, nameL c i = ch :: cs ∧ isIdStart ch = true ∧ ∀ x ∈ cs, isIdChar x = true := by
  by_cases h : i < c.length
  · rw [nameL_in c i h]; exact nameOf_legal (cvOf c) i
  · rw [nameL_out c i h]
    refine ⟨'i', _, rfl, by decide, ?_⟩
    intro x hx
    have := Nat.isDigit_of_mem_toDigits (by omega) (by omega) hx
    simp [isIdChar, Char.isAlphanum, this]

theorem nameS_ne_empty (c : Chain) (i : Nat) : nameS c i ≠ "" := by
  obtain ⟨ch, cs, h, _, _⟩ := nameL_legal c i
  intro e
  have := congrArg String.toList e
  simp [nameS, h] at this

theorem nameL_faithful (c : Chain) (hnn : ∀ x ∈ c, (0 : Int) ≤ x) (i : Nat) (h : i < c.length) :
    (∀ ds, nameL c i = '_' :: ds → ((Nat.ofDigitChars 2 ds 0 : Nat) : Int) = at' c i) ∧
    (∀ ds, nameL c i = 'x' :: ds → at' c i = ((2 ^ Nat.ofDigitChars 10 ds 0 - 1 : Nat) : Int)) ∧
    (∀ ds, nameL c i = 'i' :: ds → Nat.ofDigitChars 10 ds 0 = i) := by
  rw [nameL_in c i h]
  obtain ⟨f1, f2, f3⟩ := nameOf_faithful (cvOf c) i
  have hv : ((cvOf c i : Nat) : Int) = at' c i := Int.toNat_of_nonneg (at'_nonneg_of c hnn i)
  refine ⟨?_, ?_, f3⟩
  · intro ds hd; rw [f1 ds hd]; exact hv
  · intro ds hd; rw [← hv, f2 ds hd]

/-! ## the loop -/

/-- the assertion of `builder.add` ("only one of x and y should be an operator expression") is
    unreachable under the builder invariant -/
theorem noAssert (name : Nat → String) (full pre : List Inst) (inst : Inst) (r : List Inst) (C : Prog)
    (bs : BS) (pend : Option Nat) (D : Prog) (env : Env) (hfull : full = pre ++ inst :: r)
    (hI : BInv name full pre (inst :: r) C bs pend D env) :
    opExprX bs.E inst.op = .ok (opExpr bs.E inst.op) := by
  cases hop : inst.op with
  | dbl x => rfl
  | shl x s => rfl
  | add x y =>
    by_cases hb : (isOpE (bs.E x) && isOpE (bs.E y)) = true
    · exfalso
      simp only [Bool.and_eq_true] at hb
      have hin : ∀ z ∈ inputs inst.op, isOpE (bs.E z) = true → pend = some z := by
        intro z hz hzop
        rcases hI.atoms z with h | h | h
        · exact h
        · rw [atom_notOp h] at hzop; cases hzop
        · exact absurd hz (h inst (by simp))
      have hx := hin x (by simp [hop, inputs]) hb.1
      have hy := hin y (by simp [hop, inputs]) hb.2
      have hxy : x = y := by rw [hx] at hy; cases hy; rfl
      subst hxy
      obtain ⟨_, _, hr1, hr0, _⟩ := hI.pendSome x hx
      have hsplit : irReads full x = irReads pre x + ((inputs inst.op).count x + irReads r x) := by
        rw [hfull, irReads_append, irReads_cons]
      rw [hop] at hsplit
      simp [inputs] at hsplit
      omega
    · simp [opExprX, hb]

theorem bStep_names (name : Nat → String) (want : Nat → Bool) (full : List Inst) (bs : BS) (inst : Inst)
    (next : Option Inst) :
    ∀ s ∈ (bStep name want full bs inst next).stmts, s ∈ bs.stmts ∨ s.name = name inst.out := by
  intro s hs
  unfold bStep at hs
  split at hs
  · exact Or.inl hs
  · simp only [List.mem_append, List.mem_singleton] at hs
    rcases hs with h | h
    · exact Or.inl h
    · right; rw [h]

/-- the loop of `builder.process` with the concrete naming, inlining rule and complexity counter:
    no assertion failure, and the invariant of `P.Sem.BInv` holds at the end -/
theorem loopX_ok (chain : List Int) (hinj : ∀ a b, nameS chain a = nameS chain b → a = b)
    (full : List Inst) (Cfin : Prog) :
    ∀ (rest pre : List Inst) (C : Prog) (st : BS × Nat) (pend : Option Nat) (D : Prog) (env : Env),
    full = pre ++ rest → (∀ inst ∈ rest, ∀ x s, inst.op = .shl x s → 1 ≤ s) → cAll C rest = some Cfin →
    BInv (nameS chain) full pre rest C st.1 pend D env →
    (∀ s ∈ st.1.stmts, ∃ k, s.name = nameS chain k) →
    ∃ st' pend' D' env', loopX chain full st rest = .ok st' ∧
      BInv (nameS chain) full full [] Cfin st'.1 pend' D' env' ∧
      (∀ s ∈ st'.1.stmts, ∃ k, s.name = nameS chain k) := by
  intro rest
  induction rest with
  | nil =>
    intro pre C st pend D env hf _ hc hI hn
    simp only [cAll] at hc
    cases hc
    have : pre = full := by simp [hf]
    subst this
    exact ⟨st, pend, D, env, rfl, hI, hn⟩
  | cons inst r ih =>
    intro pre C st pend D env hf hs hc hI hn
    simp only [cAll] at hc
    cases hci : cInst C inst with
    | none => rw [hci] at hc; cases hc
    | some C' =>
      rw [hci] at hc
      simp only [] at hc
      have hna := noAssert (nameS chain) full pre inst r C st.1 pend D env hf hI
      obtain ⟨pend1, D1, env1, hI1⟩ := bStep_inv (nameS chain) hinj (wantX chain (st.2 + 1)) full pre inst r
        C C' st.1 pend D env hf (hs inst (by simp)) hci hI
      have hstep : stepX chain full st inst r.head? = .ok
          (bStep (nameS chain) (wantX chain (st.2 + 1)) full st.1 inst r.head?,
           if inlineCond (wantX chain (st.2 + 1)) full inst r.head? then st.2 + 1 else 0) := by
        unfold stepX
        simp only [hna]
      simp only [loopX, hstep]
      exact ih (pre ++ [inst]) C' _ pend1 D1 env1 (by simp [hf])
        (fun i' hi' => hs i' (List.mem_cons_of_mem _ hi')) hc hI1
        (by
          intro s hs'
          rcases bStep_names _ _ _ _ _ _ s hs' with h | h
          · exact hn s h
          · exact ⟨inst.out, h⟩)

/-! ## statement lists in the direct semantics -/

theorem dRun_cons_some {p : Prog} {env : Env} {st : Stmt} {r : List Stmt} {res : Prog × Env}
    (h : dRun p env (st :: r) = some res) :
    ∃ p1 x, dExpr p env st.e = some (p1, x) ∧ lookup env st.name = none ∧
      dRun p1 ((st.name, x) :: env) r = some res := by
  simp only [dRun] at h
  cases hd : dExpr p env st.e with
  | none => rw [hd] at h; cases h
  | some r1 =>
    obtain ⟨p1, x⟩ := r1
    rw [hd] at h
    simp only [] at h
    cases hl : lookup env st.name with
    | some v => rw [hl] at h; cases h
    | none => rw [hl] at h; exact ⟨p1, x, rfl, rfl, h⟩

/-- a name bound after running a statement list was bound before or is the name of a statement -/
theorem dRun_keys : ∀ (ss : List Stmt) (p : Prog) (env : Env) (res : Prog × Env),
    dRun p env ss = some res → ∀ key v, lookup res.2 key = some v →
    lookup env key = some v ∨ ∃ s ∈ ss, s.name = key := by
  intro ss
  induction ss with
  | nil => intro p env res h key v hl; simp only [dRun] at h; cases h; exact Or.inl hl
  | cons st r ih =>
    intro p env res h key v hl
    obtain ⟨p1, x, _, _, hr⟩ := dRun_cons_some h
    rcases ih p1 _ res hr key v hl with h1 | ⟨s, hs, hk⟩
    · rw [lookup_cons] at h1
      split at h1
      · rename_i hn; exact Or.inr ⟨st, by simp, hn⟩
      · exact Or.inl h1
    · exact Or.inr ⟨s, List.mem_cons_of_mem _ hs, hk⟩

/-- statement names are fresh when they are bound, hence pairwise distinct -/
theorem dRun_fresh : ∀ (ss : List Stmt) (p : Prog) (env : Env) (res : Prog × Env),
    dRun p env ss = some res → (ss.map (·.name)).Nodup ∧ ∀ s ∈ ss, lookup env s.name = none := by
  intro ss
  induction ss with
  | nil => intro p env res _; simp
  | cons st r ih =>
    intro p env res h
    obtain ⟨p1, x, _, hfresh, hr⟩ := dRun_cons_some h
    obtain ⟨hnd, hall⟩ := ih p1 _ res hr
    have hne : ∀ s ∈ r, st.name ≠ s.name ∧ lookup env s.name = none := by
      intro s hs
      have := hall s hs
      rw [lookup_cons] at this
      split at this
      · cases this
      · rename_i hn; exact ⟨hn, this⟩
    refine ⟨?_, ?_⟩
    · simp only [List.map_cons, List.nodup_cons, List.mem_map, not_exists, not_and]
      exact ⟨fun s hs e => (hne s hs).1 e.symm, hnd⟩
    · intro s hs
      rcases List.mem_cons.mp hs with rfl | hs
      · exact hfresh
      · exact (hne s hs).2

/-- bindings persist -/
theorem dRun_mono : ∀ (ss : List Stmt) (p : Prog) (env : Env) (res : Prog × Env),
    dRun p env ss = some res → ∀ key v, lookup env key = some v → lookup res.2 key = some v := by
  intro ss
  induction ss with
  | nil => intro p env res h key v hl; simp only [dRun] at h; cases h; exact hl
  | cons st r ih =>
    intro p env res h key v hl
    obtain ⟨p1, x, _, hfresh, hr⟩ := dRun_cons_some h
    apply ih p1 _ res hr key v
    rw [lookup_cons]
    split
    · rename_i hn; rw [hn, hl] at hfresh; cases hfresh
    · exact hl

/-- every statement's name is bound at the end -/
theorem dRun_binds : ∀ (ss : List Stmt) (p : Prog) (env : Env) (res : Prog × Env),
    dRun p env ss = some res → ∀ s ∈ ss, ∃ v, lookup res.2 s.name = some v := by
  intro ss
  induction ss with
  | nil => intro p env res _ s hs; cases hs
  | cons st r ih =>
    intro p env res h s hs
    obtain ⟨p1, x, _, _, hr⟩ := dRun_cons_some h
    rcases List.mem_cons.mp hs with rfl | hs
    · exact ⟨x, dRun_mono r p1 _ res hr _ x (by rw [lookup_cons]; simp)⟩
    · exact ih p1 _ res hr s hs

/-! ## clearing the last name -/
theorem finish_concat (ss : List Stmt) (l : Stmt) : finish (ss ++ [l]) = ss ++ [⟨"", l.e⟩] := by
  cases ss with
  | nil => simp [finish]
  | cons a t =>
    have h1 : (a :: (t ++ [l])).dropLast = a :: t := by
      rw [← List.cons_append, List.dropLast_concat]
    have h2 : ∀ h, (a :: (t ++ [l])).getLast h = l := by
      intro h
      have : (a :: (t ++ [l])).getLast? = some l := by
        rw [← List.cons_append, List.getLast?_concat]
      rw [List.getLast?_eq_some_getLast h] at this
      exact Option.some.inj this
    show (a :: (t ++ [l])).dropLast ++ [⟨"", ((a :: (t ++ [l])).getLast (by simp)).e⟩] = _
    rw [h1, h2]

theorem finish_ne_nil (ss : List Stmt) : finish ss ≠ [] := by
  cases ss with
  | nil => simp [finish]
  | cons a t => simp [finish]

theorem finish_dropLast (ss : List Stmt) : (finish ss).dropLast = ss.dropLast := by
  rcases List.eq_nil_or_concat ss with rfl | ⟨l', b, rfl⟩
  · simp [finish]
  · rw [List.concat_eq_append, finish_concat, List.dropLast_concat, List.dropLast_concat]

theorem finish_last (ss : List Stmt) : ∃ e, (finish ss).getLast? = some ⟨"", e⟩ := by
  rcases List.eq_nil_or_concat ss with rfl | ⟨l', b, rfl⟩
  · exact ⟨.operand 0, by simp [finish]⟩
  · rw [List.concat_eq_append, finish_concat]; exact ⟨b.e, by simp⟩

/-- clearing the last name changes neither the denoted program nor the bindings of the other
    statements, provided no statement is unnamed -/
theorem finish_run (ss : List Stmt) (D : Prog) (env : Env) (h : dRun [] [] ss = some (D, env))
    (hne : ∀ s ∈ ss, s.name ≠ "") :
    ∃ env', dRun [] [] (finish ss) = some (D, env') ∧
      ∀ s ∈ ss.dropLast, lookup env' s.name = lookup env s.name := by
  rcases List.eq_nil_or_concat ss with rfl | ⟨l', b, rfl⟩
  · simp only [dRun] at h
    cases h
    exact ⟨[("", 0)], by simp [finish, dRun, dExpr, lookup], by simp⟩
  · rw [List.concat_eq_append] at h hne ⊢
    rw [dRun_append] at h
    cases h1 : dRun [] [] l' with
    | none => rw [h1] at h; cases h
    | some r1 =>
      obtain ⟨D1, env1⟩ := r1
      rw [h1] at h
      simp only [] at h
      obtain ⟨p1, x, hd, hfresh, hr⟩ := dRun_cons_some h
      simp only [dRun] at hr
      cases hr
      have hempty : lookup env1 "" = none := by
        cases hl : lookup env1 "" with
        | none => rfl
        | some v =>
          rcases dRun_keys l' [] [] _ h1 "" v hl with h2 | ⟨s, hs, hk⟩
          · simp [lookup] at h2
          · exact absurd hk (hne s (by simp [hs]))
      refine ⟨("", x) :: env1, ?_, ?_⟩
      · rw [finish_concat, dRun_append, h1]
        simp only [dRun, hd, hempty]
      · intro s hs
        rw [List.dropLast_concat] at hs
        have hsn : s.name ≠ "" := hne s (by simp [hs])
        obtain ⟨v, hv⟩ := dRun_binds l' [] [] _ h1 s hs
        have hbn : b.name ≠ s.name := by
          intro e; rw [e] at hfresh; simp only [] at hv; rw [hv] at hfresh; cases hfresh
        rw [lookup_cons, lookup_cons]
        simp [hbn, Ne.symm hsn]

/-! ## the whole of `Build` -/

/-- **`buildX` on a compiling IR program with duplicate-free chain values succeeds**, its statement
    list before the final clearing denotes the compiled program with sorted addition operands, and
    every statement is named by the concrete scheme after the chain index it is bound to. -/
theorem buildX_spec (ir : IR) (p : Prog) (hs : ∀ inst ∈ ir, ∀ x s, inst.op = .shl x s → 1 ≤ s)
    (hc : cAll [] ir = some p) (hnd : (evaluate p).Nodup) :
    ∃ stmts env, buildX ir = .ok (finish stmts) ∧ dRun [] [] stmts = some (p.map norm, env) ∧
      ∀ s ∈ stmts, ∃ k, s.name = nameS (evaluate p) k ∧ lookup env s.name = some k ∧ k ≤ p.length := by
  have hinj := nameS_inj (evaluate p) hnd (evaluate_nonneg p)
  have h0 : BInv (nameS (evaluate p)) ir [] ir [] initBS none [] [] := by
    refine ⟨rfl, ?_, ?_, ?_, ?_, fun _ => rfl, by intro o h; cases h⟩
    · intro k v h; simp [lookup] at h
    · intro k v h; simp [lookup] at h
    · intro k; right; left; left; rfl
    · intro inst h; simp at h
  obtain ⟨st, pend, D, env, hloop, hI, hnames⟩ := loopX_ok (evaluate p) hinj ir p ir [] [] (initBS, 0)
    none [] [] rfl hs hc h0 (by intro s h; simp [initBS] at h)
  have hpn : pend = none := by
    cases hp : pend with
    | none => rfl
    | some o =>
      obtain ⟨_, _, _, _, nx, r', hr, _⟩ := hI.pendSome o hp
      cases hr
  have hD := hI.pendNone hpn
  refine ⟨st.1.stmts, env, ?_, ?_, ?_⟩
  · unfold buildX
    simp only [hc, hloop]
  · rw [hI.run, hD]
  · intro s hs'
    obtain ⟨k, hk⟩ := hnames s hs'
    obtain ⟨v, hv⟩ := dRun_binds _ _ _ _ hI.run s hs'
    simp only [] at hv
    rw [hk] at hv
    have := hI.envSelf k v hv
    subst this
    exact ⟨v, hk, by rw [hk]; exact hv, hI.envOld v v hv⟩

/-! ## `Decompile` never produces a dangling input -/

theorem uses_fst (o : Nat × Nat) : uses o o.1 = true := by simp [uses]
theorem uses_snd (o : Nat × Nat) : uses o o.2 = true := by simp [uses]

/-- the folded intermediates are read exactly once -/
theorem runLen_reads (full : Prog) : ∀ (r : List (Nat × Nat)) (j t : Nat), t < runLen full r j →
    readCount full (j + t) = 1 := by
  intro r
  induction r with
  | nil => intro j t h; simp [runLen] at h
  | cons o r ih =>
    intro j t h
    simp only [runLen] at h
    split at h
    · rename_i hc
      simp only [Bool.and_eq_true, beq_iff_eq] at hc
      cases t with
      | zero => simpa using hc.1
      | succ t =>
        have := ih (j + 1) t (by omega)
        have e : j + 1 + t = j + (t + 1) := by omega
        rw [e] at this; exact this
    · omega

theorem danglingFrom_cons (outs : List Nat) (inst : Inst) (r : IR) :
    danglingFrom outs (inst :: r) =
      ((inputs inst.op).all (fun x => outs.contains x) && danglingFrom (inst.out :: outs) r) := rfl

theorem decompileFrom_noDangling (full : Prog) : ∀ (fuel : Nat) (pre rest : Prog) (outs : List Nat),
    full = pre ++ rest → rest.length ≤ fuel → InRange rest pre.length →
    (∀ x, x ≤ pre.length → x ∈ outs ∨ ∀ o ∈ rest, uses o x = false) →
    danglingFrom outs (decompileFrom full fuel rest pre.length) = true := by
  intro fuel
  induction fuel with
  | zero => intro pre rest outs _ _ _ _; simp [decompileFrom, danglingFrom]
  | succ fuel ih =>
    intro pre rest outs hf hl hr hinv
    cases rest with
    | nil => simp [decompileFrom, danglingFrom]
    | cons o r =>
      obtain ⟨x, y⟩ := o
      obtain ⟨hx, hy, hrr⟩ := hr
      simp only [] at hx hy
      have hin : ∀ z, z ≤ pre.length → uses (x, y) z = true → z ∈ outs := by
        intro z hz hu
        rcases hinv z hz with h | h
        · exact h
        · have := h (x, y) (by simp); rw [this] at hu; cases hu
      have hxo : x ∈ outs := hin x hx (uses_fst (x, y))
      have hyo : y ∈ outs := hin y hy (uses_snd (x, y))
      -- the invariant after a single-operation instruction
      have hinv1 : ∀ z, z ≤ (pre ++ [(x, y)]).length →
          z ∈ (pre.length + 1) :: outs ∨ ∀ o ∈ r, uses o z = false := by
        intro z hz
        simp only [List.length_append, List.length_cons, List.length_nil] at hz
        by_cases e : z = pre.length + 1
        · left; simp [e]
        · rcases hinv z (by omega) with h | h
          · left; exact List.mem_cons_of_mem _ h
          · right; intro o ho; exact h o (List.mem_cons_of_mem _ ho)
      have hlen1 : (pre ++ [(x, y)]).length = pre.length + 1 := by simp
      simp only [decompileFrom]
      by_cases hd : isDouble (x, y) = true
      · have hxy : x = y := by simpa [isDouble] using hd
        subst hxy
        simp only [hd, Bool.not_true, Bool.false_eq_true, if_false]
        by_cases he : runLen full r (pre.length + 1) = 0
        · simp only [he, if_true, danglingFrom_cons, inputs, List.all_cons, List.all_nil, Bool.and_true,
            Bool.and_eq_true, List.contains_iff_mem]
          refine ⟨hxo, ?_⟩
          have := ih (pre ++ [(x, x)]) r ((pre.length + 1) :: outs) (by simp [hf]) (by simp at hl; omega)
            (by rw [hlen1]; exact hrr) hinv1
          rw [hlen1] at this; exact this
        · simp only [he, if_false, danglingFrom_cons, inputs, List.all_cons, List.all_nil, Bool.and_true,
            Bool.and_eq_true, List.contains_iff_mem]
          refine ⟨hxo, ?_⟩
          generalize hext : runLen full r (pre.length + 1) = extra at *
          have hle : extra ≤ r.length := hext ▸ runLen_le full r (pre.length + 1)
          have hspec := runLen_spec full r (pre.length + 1)
          rw [hext] at hspec
          have hpl : (pre ++ (x, x) :: r.take extra).length = pre.length + 1 + extra := by
            simp [List.length_take, Nat.min_eq_left hle]; omega
          have := ih (pre ++ (x, x) :: r.take extra) (r.drop extra) ((pre.length + 1 + extra) :: outs)
            (by rw [hf]; simp [List.take_append_drop])
            (by simp at hl ⊢; omega)
            (by rw [hpl]; exact inRange_drop r (pre.length + 1) extra hrr)
            (by
              intro z hz
              rw [hpl] at hz
              by_cases e : z = pre.length + 1 + extra
              · left; simp [e]
              · by_cases hz0 : z ≤ pre.length
                · rcases hinv z hz0 with h | h
                  · left; exact List.mem_cons_of_mem _ h
                  · right; intro o ho
                    exact h o (List.mem_cons_of_mem _ (List.mem_of_mem_drop ho))
                · -- a folded intermediate: read once, by the doubling that was folded
                  right
                  obtain ⟨t, rfl⟩ : ∃ t, z = pre.length + 1 + t := ⟨z - (pre.length + 1), by omega⟩
                  have ht : t < extra := by omega
                  have hrc := runLen_reads full r (pre.length + 1) t (by rw [hext]; exact ht)
                  have hmem : (pre.length + 1 + t, pre.length + 1 + t) ∈ r.take extra := by
                    rw [hspec]; exact List.mem_map.mpr ⟨t, by simp [ht], rfl⟩
                  have hsplit : full = pre ++ ((x, x) :: (r.take extra ++ r.drop extra)) := by
                    rw [hf, List.take_append_drop]
                  unfold readCount at hrc
                  rw [hsplit, List.countP_append, List.countP_cons, List.countP_append] at hrc
                  have hpos : 0 < List.countP (fun o => uses o (pre.length + 1 + t)) (r.take extra) :=
                    List.countP_pos_iff.mpr ⟨_, hmem, by simp [uses]⟩
                  have hz' : List.countP (fun o => uses o (pre.length + 1 + t)) (r.drop extra) = 0 := by omega
                  intro o ho
                  have := List.countP_eq_zero.mp hz' o ho
                  simpa using this)
          rw [hpl] at this
          exact this
      · simp only [hd, Bool.not_false, if_true, danglingFrom_cons, inputs, List.all_cons, List.all_nil,
          Bool.and_true, Bool.and_eq_true, List.contains_iff_mem]
        refine ⟨⟨hxo, hyo⟩, ?_⟩
        have := ih (pre ++ [(x, y)]) r ((pre.length + 1) :: outs) (by simp [hf]) (by simp at hl; omega)
          (by rw [hlen1]; exact hrr) hinv1
        rw [hlen1] at this; exact this

/-- **`CheckDanglingInputs (Decompile p) == nil`** for every in-range program -/
theorem decompile_noDangling (p : Prog) (h : InRange p 0) : danglingOK (decompile p) = true :=
  decompileFrom_noDangling p p.length [] p [0] rfl (Nat.le_refl _) h
    (by intro x hx; left; simp at hx; simp [hx])

/-- the meaning of `danglingOK`, as a proposition -/
theorem danglingFrom_iff : ∀ (ir : IR) (outs : List Nat), danglingFrom outs ir = true ↔
    ∀ (n : Nat) (inst : Inst), ir[n]? = some inst → ∀ x ∈ inputs inst.op,
      x ∈ outs ∨ ∃ (m : Nat) (e : Inst), m < n ∧ ir[m]? = some e ∧ e.out = x := by
  intro ir
  induction ir with
  | nil => intro outs; simp [danglingFrom]
  | cons i0 r ih =>
    intro outs
    rw [danglingFrom_cons, Bool.and_eq_true, ih]
    simp only [List.all_eq_true, List.contains_iff_mem]
    constructor
    · rintro ⟨h1, h2⟩ n inst hn x hx
      cases n with
      | zero => simp at hn; subst hn; exact Or.inl (h1 x hx)
      | succ n =>
        rcases h2 n inst (by simpa using hn) x hx with h | ⟨m, e, hm, he, hx'⟩
        · rcases List.mem_cons.mp h with rfl | h
          · exact Or.inr ⟨0, i0, by omega, by simp, rfl⟩
          · exact Or.inl h
        · exact Or.inr ⟨m + 1, e, by omega, by simpa using he, hx'⟩
    · intro h
      refine ⟨fun x hx => ?_, fun n inst hn x hx => ?_⟩
      · rcases h 0 i0 (by simp) x hx with h | ⟨m, e, hm, _, _⟩
        · exact h
        · omega
      · rcases h (n + 1) inst (by simpa using hn) x hx with h | ⟨m, e, hm, he, hx'⟩
        · exact Or.inl (List.mem_cons_of_mem _ h)
        · cases m with
          | zero => left; simp at he; subst he; simp [hx']
          | succ m => right; exact ⟨m, e, by omega, by simpa using he, hx'⟩

/-! ## facts used by the property theorems -/

theorem inRange_bound : ∀ (r : Prog) (k : Nat), InRange r k → ∀ o ∈ r, o.1 ≤ k + r.length ∧ o.2 ≤ k + r.length := by
  intro r
  induction r with
  | nil => intro k _ o ho; cases ho
  | cons a t ih =>
    intro k h o ho
    obtain ⟨h1, h2, h3⟩ := h
    simp only [List.length_cons]
    rcases List.mem_cons.mp ho with rfl | ho
    · omega
    · have := ih (k + 1) h3 o ho; omega

/-- `Decompile` does not panic on an in-range program -/
theorem decompileX_ok (p : Prog) (h : InRange p 0) : decompileX p = .ok (decompile p) := by
  unfold decompileX
  have : (p.all fun o => decide (o.1 ≤ p.length) && decide (o.2 ≤ p.length)) = true := by
    rw [List.all_eq_true]
    intro o ho
    have := inRange_bound p 0 h o ho
    simp only [Bool.and_eq_true, decide_eq_true_eq]
    omega
  simp [this]

/-- swapping the operands of additions does not change the chain -/
theorem evaluate_map_norm (p : Prog) : evaluate (p.map norm) = evaluate p := by
  have key : ∀ (q : Prog) (c0 : Chain),
      (q.map norm).foldl (fun c o => c ++ [at' c o.1 + at' c o.2]) c0 =
      q.foldl (fun c o => c ++ [at' c o.1 + at' c o.2]) c0 := by
    intro q
    induction q with
    | nil => intro c0; rfl
    | cons o r ih =>
      intro c0
      simp only [List.map_cons, List.foldl_cons]
      have : at' c0 (norm o).1 + at' c0 (norm o).2 = at' c0 o.1 + at' c0 o.2 := by
        unfold norm
        simp only []
        by_cases hle : o.1 ≤ o.2
        · rw [Nat.min_eq_left hle, Nat.max_eq_right hle]
        · have hle' : o.2 ≤ o.1 := by omega
          rw [Nat.min_eq_right hle', Nat.max_eq_left hle', Int.add_comm]
      rw [this]
      exact ih _
  unfold evaluate
  exact key p [1]

/-- everything the property theorems need about a successful `buildX` -/
theorem buildX_facts (ir : IR) (p : Prog) (hs : ∀ inst ∈ ir, ∀ x s, inst.op = .shl x s → 1 ≤ s)
    (hc : cAll [] ir = some p) (hnd : (evaluate p).Nodup) :
    ∃ s env', buildX ir = .ok s ∧ dRun [] [] s = some (p.map norm, env') ∧ s ≠ [] ∧
      (∃ e, s.getLast? = some ⟨"", e⟩) ∧
      ∀ st ∈ s.dropLast, ∃ k, st.name = nameS (evaluate p) k ∧ lookup env' st.name = some k ∧ k ≤ p.length := by
  obtain ⟨stmts, env, hb, hrun, hn⟩ := buildX_spec ir p hs hc hnd
  have hne : ∀ st ∈ stmts, st.name ≠ "" := by
    intro st hst
    obtain ⟨k, hk, _, _⟩ := hn st hst
    rw [hk]; exact nameS_ne_empty _ _
  obtain ⟨env', hrun', henv⟩ := finish_run stmts _ env hrun hne
  refine ⟨finish stmts, env', hb, hrun', finish_ne_nil _, finish_last _, ?_⟩
  intro st hst
  rw [finish_dropLast] at hst
  obtain ⟨k, hk, hl, hle⟩ := hn st ((List.dropLast_sublist _).subset hst)
  exact ⟨k, hk, by rw [henv st hst]; exact hl, hle⟩

end P.BuildX
