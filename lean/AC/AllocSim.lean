import AC.AllocInv
/-! C05 prototype: naming and the register-machine simulation. -/
namespace P.Alloc

inductive Reg | x | z | t (v : Nat) deriving DecidableEq, Repr

/-- output index of the last instruction that reads index 0 (0 if none) -/
def lastInputRead (ir : List Inst) : Nat :=
  ir.foldl (fun acc inst => if 0 ∈ inst.op.inputs then inst.out else acc) 0

def lastOut (ir : List Inst) : Nat := (ir.getLast?.map (·.out)).getD 0

/-- the name given to index i (temporaries named by their variable; the real numbering is an
    injective relabelling of these) -/
def regOf (ir : List Inst) (i : Nat) : Reg :=
  let s := run ir
  if i = 0 then .x
  else if s.var i = s.var (lastOut ir) ∧ lastInputRead ir ≤ i then .z
  else .t ((s.var i).getD 0)

/-- with aliasing the output register *is* the input register -/
def cellOf (alias : Bool) (r : Reg) : Reg := if alias && r == .z then .x else r

def opVal (env : Nat → Int) : Op → Int
  | .add x y => env x + env y
  | .dbl x => 2 * env x
  | .shl x s => env x * 2 ^ s

def upd {α} [DecidableEq α] (f : α → Int) (k : α) (v : Int) : α → Int := fun j => if j = k then v else f j

/-- chain semantics by index -/
def stepVal (env : Nat → Int) (inst : Inst) : Nat → Int := upd env inst.out (opVal env inst.op)
def envAfter (pre : List Inst) : Nat → Int := pre.foldl stepVal (upd (fun _ => 0) 0 1)

/-- register machine, as acc/eval/interp.go: read the operands, then write the output -/
def execInst (alias : Bool) (ir : List Inst) (regs : Reg → Int) (inst : Inst) : Reg → Int :=
  upd regs (cellOf alias (regOf ir inst.out))
    (opVal (fun i => regs (cellOf alias (regOf ir i))) inst.op)
def execAll (alias : Bool) (ir : List Inst) (regs : Reg → Int) (prog : List Inst) : Reg → Int :=
  prog.foldl (execInst alias ir) regs

def StrictOuts : List Inst → Prop
  | [] => True
  | [a] => 1 ≤ a.out
  | a :: b :: r => 1 ≤ a.out ∧ a.out < b.out ∧ StrictOuts (b :: r)

/-- full well-formedness used by the property: outputs ≥ 1 strictly increasing, every input is
    index 0 or an earlier output, at least one instruction -/
structure WF (ir : List Inst) : Prop where
  wfs : WFs ir
  outs : StrictOuts ir
  closed : ∀ i ∈ liveAt ir, i = 0
  nonempty : ir ≠ []


theorem out_fresh (inst : Inst) (suf : List Inst) (hwf : WFs (inst :: suf)) :
    inst.out ∈ liveAt suf ∨ (run suf).var inst.out = none := by
  obtain ⟨hout, _, hsuf⟩ := hwf
  obtain ⟨_, hsupp⟩ := run_inv suf hsuf
  cases hv : (run suf).var inst.out with
  | none => exact Or.inr rfl
  | some v =>
    rcases hsupp inst.out (by rw [hv]; simp) with h | h
    · exact Or.inl h
    · exact absurd h hout

/-- the variable of an instruction's output differs from the variable of every other value
    that is still needed after the instruction — also when the output itself is dead -/
theorem out_distinct (pre : List Inst) (inst : Inst) (suf : List Inst)
    (hwf : WFs (pre ++ inst :: suf)) (j : Nat) (hj : j ∈ liveAt suf) (hne : j ≠ inst.out) :
    ∃ vj vo, (run (pre ++ inst :: suf)).var j = some vj ∧
      (run (pre ++ inst :: suf)).var inst.out = some vo ∧ vj ≠ vo := by
  have hwf' := WFs_suffix pre _ hwf
  obtain ⟨hinv, _⟩ := run_inv suf hwf'.2.2
  have h1 := allocate_inv hinv inst.out (out_fresh inst suf hwf')
  obtain ⟨vo, hvo, _, _⟩ := h1.live_has inst.out (by simp)
  obtain ⟨vj, hvj, _, _⟩ := h1.live_has j (by simp [hj])
  have hdist : vj ≠ vo := by
    intro e
    apply hne
    apply h1.live_inj j (by simp [hj]) inst.out (by simp)
    rw [hvj, hvo, e]
  -- persistence to the final allocation
  have pers : ∀ i v, ((run suf).allocate inst.out).var i = some v →
      (run (pre ++ inst :: suf)).var i = some v := by
    intro i v h
    apply run_var_mono pre (inst :: suf)
    rw [run_cons]
    unfold step
    apply foldl_allocate_mono
    rw [free_var]
    exact h
  exact ⟨vj, vo, pers j vj hvj, pers inst.out vo hvo, hdist⟩


/-! ### facts about output order and the last read of the input -/
theorem strictOuts_tail : ∀ (a : Inst) (r : List Inst), StrictOuts (a :: r) → StrictOuts r := by
  intro a r h
  cases r with
  | nil => trivial
  | cons b r' => exact h.2.2

theorem strictOuts_suffix : ∀ (pre suf : List Inst), StrictOuts (pre ++ suf) → StrictOuts suf := by
  intro pre
  induction pre with
  | nil => intro suf h; exact h
  | cons a pre ih => intro suf h; exact ih suf (strictOuts_tail a _ h)

theorem strictOuts_head_pos (a : Inst) (r : List Inst) (h : StrictOuts (a :: r)) : 1 ≤ a.out := by
  cases r with
  | nil => exact h
  | cons b r' => exact h.1

theorem strictOuts_gt : ∀ (r : List Inst) (a : Inst), StrictOuts (a :: r) → ∀ o ∈ outs r, a.out < o := by
  intro r
  induction r with
  | nil => intro a _ o ho; simp [outs] at ho
  | cons b r ih =>
    intro a h o ho
    simp [outs] at ho
    rcases ho with rfl | ho
    · exact h.2.1
    · have := ih b h.2.2 o (by simp [outs]; exact ho)
      have := h.2.1
      omega

theorem strictOuts_pos : ∀ (r : List Inst), StrictOuts r → ∀ o ∈ outs r, 1 ≤ o := by
  intro r
  induction r with
  | nil => intro _ o ho; simp [outs] at ho
  | cons a r ih =>
    intro h o ho
    simp [outs] at ho
    rcases ho with rfl | ho
    · exact strictOuts_head_pos a r h
    · exact ih (strictOuts_tail a r h) o (by simp [outs]; exact ho)

theorem zero_live_reader : ∀ (suf : List Inst), 0 ∈ liveAt suf → ∃ i' ∈ suf, 0 ∈ i'.op.inputs := by
  intro suf
  induction suf with
  | nil => intro h; simp [liveAt] at h
  | cons a r ih =>
    intro h
    simp only [liveAt, liveBefore', List.mem_append, List.mem_reverse, List.mem_filter] at h
    rcases h with h | h
    · exact ⟨a, by simp, h⟩
    · obtain ⟨i', hi', hr⟩ := ih h.1
      exact ⟨i', by simp [hi'], hr⟩

def lirFold (acc : Nat) (l : List Inst) : Nat :=
  l.foldl (fun acc inst => if 0 ∈ inst.op.inputs then inst.out else acc) acc

theorem lirFold_noreader : ∀ (l : List Inst) (acc : Nat), (∀ i' ∈ l, 0 ∉ i'.op.inputs) → lirFold acc l = acc := by
  intro l
  induction l with
  | nil => intro acc _; rfl
  | cons a r ih =>
    intro acc h
    simp only [lirFold, List.foldl_cons]
    have : 0 ∉ a.op.inputs := h a (by simp)
    simp only [this, if_false]
    exact ih acc (fun i' hi' => h i' (by simp [hi']))

theorem lirFold_mem : ∀ (l : List Inst) (acc : Nat), (∃ i' ∈ l, 0 ∈ i'.op.inputs) → lirFold acc l ∈ outs l := by
  intro l
  induction l with
  | nil => intro acc h; obtain ⟨_, h, _⟩ := h; simp at h
  | cons a r ih =>
    intro acc h
    simp only [lirFold, List.foldl_cons]
    by_cases hr : ∃ i' ∈ r, 0 ∈ i'.op.inputs
    · have := ih (if 0 ∈ a.op.inputs then a.out else acc) hr
      simp [outs] at this ⊢
      exact Or.inr this
    · have hno : ∀ i' ∈ r, 0 ∉ i'.op.inputs := fun i' hi' hc => hr ⟨i', hi', hc⟩
      have := lirFold_noreader r (if 0 ∈ a.op.inputs then a.out else acc) hno
      unfold lirFold at this
      rw [this]
      obtain ⟨i', hi', hz⟩ := h
      rcases List.mem_cons.mp hi' with rfl | hi'
      · simp [hz, outs]
      · exact absurd hz (hno i' hi')

theorem lastInputRead_append (A B : List Inst) : lastInputRead (A ++ B) = lirFold (lastInputRead A) B := by
  simp [lastInputRead, lirFold, List.foldl_append]

/-- if the input is still needed after `inst`, the last read of the input is later than `inst` -/
theorem lir_gt (pre : List Inst) (inst : Inst) (suf : List Inst)
    (hs : StrictOuts (pre ++ inst :: suf)) (h0 : 0 ∈ liveAt suf) :
    inst.out < lastInputRead (pre ++ inst :: suf) := by
  have hrd := zero_live_reader suf h0
  have : pre ++ inst :: suf = (pre ++ [inst]) ++ suf := by simp
  rw [this, lastInputRead_append]
  have hm := lirFold_mem suf (lastInputRead (pre ++ [inst])) hrd
  exact strictOuts_gt suf inst (strictOuts_suffix pre _ hs) _ hm


/-! ### names of simultaneously needed values live in different cells -/
theorem cell_distinct (alias : Bool) (pre : List Inst) (inst : Inst) (suf : List Inst)
    (hwf : WFs (pre ++ inst :: suf)) (hs : StrictOuts (pre ++ inst :: suf))
    (j : Nat) (hj : j ∈ liveAt suf) (hne : j ≠ inst.out) :
    cellOf alias (regOf (pre ++ inst :: suf) j) ≠ cellOf alias (regOf (pre ++ inst :: suf) inst.out) := by
  have hpos : 1 ≤ inst.out := strictOuts_head_pos inst suf (strictOuts_suffix pre _ hs)
  have ho0 : inst.out ≠ 0 := by omega
  obtain ⟨vj, vo, hvj, hvo, hd⟩ := out_distinct pre inst suf hwf j hj hne
  by_cases hj0 : j = 0
  · subst hj0
    have hlir := lir_gt pre inst suf hs hj
    have hro : regOf (pre ++ inst :: suf) inst.out = .t vo := by
      unfold regOf
      simp only [ho0, if_false, hvo]
      rw [if_neg (by intro h; omega)]
      rfl
    have hrj : regOf (pre ++ inst :: suf) 0 = .x := by simp [regOf]
    rw [hro, hrj]
    cases alias <;> simp [cellOf]
  · unfold regOf
    simp only [hj0, ho0, if_false, hvj, hvo]
    by_cases c1 : some vj = (run (pre ++ inst :: suf)).var (lastOut (pre ++ inst :: suf)) ∧
        lastInputRead (pre ++ inst :: suf) ≤ j
    · by_cases c2 : some vo = (run (pre ++ inst :: suf)).var (lastOut (pre ++ inst :: suf)) ∧
          lastInputRead (pre ++ inst :: suf) ≤ inst.out
      · exfalso
        have := c1.1.trans c2.1.symm
        exact hd (Option.some.inj this)
      · rw [if_pos c1, if_neg c2]
        cases alias <;> simp [cellOf]
    · by_cases c2 : some vo = (run (pre ++ inst :: suf)).var (lastOut (pre ++ inst :: suf)) ∧
          lastInputRead (pre ++ inst :: suf) ≤ inst.out
      · rw [if_neg c1, if_pos c2]
        cases alias <;> simp [cellOf]
      · rw [if_neg c1, if_neg c2]
        cases alias <;> simp [cellOf, hd]

theorem out_not_input (alias : Bool) (ir : List Inst) (o : Nat) (ho : o ≠ 0) :
    regOf ir o ≠ .x := by
  unfold regOf
  simp only [ho, if_false]
  split <;> simp


/-! ### simulation -/
def SimInv (alias : Bool) (ir pre suf : List Inst) (regs : Reg → Int) : Prop :=
  ∀ i ∈ liveAt suf, regs (cellOf alias (regOf ir i)) = envAfter pre i

theorem opVal_congr (e1 e2 : Nat → Int) (op : Op) (h : ∀ x ∈ op.inputs, e1 x = e2 x) :
    opVal e1 op = opVal e2 op := by
  cases op with
  | add x y => simp [opVal, h x (by simp [Op.inputs]), h y (by simp [Op.inputs])]
  | dbl x => simp [opVal, h x (by simp [Op.inputs])]
  | shl x k => simp [opVal, h x (by simp [Op.inputs])]

theorem envAfter_snoc (pre : List Inst) (inst : Inst) :
    envAfter (pre ++ [inst]) = stepVal (envAfter pre) inst := by
  simp [envAfter, List.foldl_append]

theorem inputs_live (inst : Inst) (suf : List Inst) : ∀ x ∈ inst.op.inputs, x ∈ liveAt (inst :: suf) := by
  intro x hx; simp [liveAt, liveBefore', hx]

theorem live_of_later (inst : Inst) (suf : List Inst) (i : Nat) (hi : i ∈ liveAt suf) (hne : i ≠ inst.out) :
    i ∈ liveAt (inst :: suf) := by
  simp [liveAt, liveBefore', hi, hne]

theorem sim_step (alias : Bool) (pre : List Inst) (inst : Inst) (suf : List Inst) (regs : Reg → Int)
    (hwf : WFs (pre ++ inst :: suf)) (hs : StrictOuts (pre ++ inst :: suf))
    (h : SimInv alias (pre ++ inst :: suf) pre (inst :: suf) regs) :
    SimInv alias (pre ++ inst :: suf) (pre ++ [inst]) suf (execInst alias (pre ++ inst :: suf) regs inst) ∧
    execInst alias (pre ++ inst :: suf) regs inst (cellOf alias (regOf (pre ++ inst :: suf) inst.out))
      = envAfter (pre ++ [inst]) inst.out := by
  have hval : opVal (fun i => regs (cellOf alias (regOf (pre ++ inst :: suf) i))) inst.op
      = opVal (envAfter pre) inst.op :=
    opVal_congr _ _ _ (fun x hx => h x (inputs_live inst suf x hx))
  have hout : execInst alias (pre ++ inst :: suf) regs inst (cellOf alias (regOf (pre ++ inst :: suf) inst.out))
      = envAfter (pre ++ [inst]) inst.out := by
    rw [envAfter_snoc]
    simp [execInst, upd, stepVal, hval]
  refine ⟨?_, hout⟩
  intro i hi
  by_cases hio : i = inst.out
  · subst hio; exact hout
  · have hc := cell_distinct alias pre inst suf hwf hs i hi hio
    rw [envAfter_snoc]
    simp only [execInst, upd, stepVal, hc, hio, if_false]
    exact h i (live_of_later inst suf i hi hio)

/-- running a middle segment preserves the simulation invariant -/
theorem sim_run (alias : Bool) (ir : List Inst) (hwf : WFs ir) (hs : StrictOuts ir) :
    ∀ (mid pre rest : List Inst) (regs : Reg → Int), ir = pre ++ mid ++ rest →
    SimInv alias ir pre (mid ++ rest) regs →
    SimInv alias ir (pre ++ mid) rest (execAll alias ir regs mid) := by
  intro mid
  induction mid with
  | nil => intro pre rest regs _ h; simpa [execAll] using h
  | cons inst mid ih =>
    intro pre rest regs hir h
    have hir' : ir = pre ++ inst :: (mid ++ rest) := by simp [hir]
    have hstep := sim_step alias pre inst (mid ++ rest) regs (hir' ▸ hwf) (hir' ▸ hs) (by rw [← hir']; exact h)
    rw [← hir'] at hstep
    have := ih (pre ++ [inst]) rest (execInst alias ir regs inst) (by simp [hir]) hstep.1
    simpa [execAll] using this

theorem lastOut_snoc (init : List Inst) (last : Inst) : lastOut (init ++ [last]) = last.out := by
  simp [lastOut]

theorem strictOuts_last_ge : ∀ (init : List Inst) (last : Inst), StrictOuts (init ++ [last]) →
    ∀ o ∈ outs (init ++ [last]), o ≤ last.out := by
  intro init
  induction init with
  | nil => intro last _ o ho; simp [outs] at ho; omega
  | cons a r ih =>
    intro last h o ho
    simp [outs] at ho
    rcases ho with rfl | ho | rfl
    · have := strictOuts_gt (r ++ [last]) a h last.out (by simp [outs]); omega
    · exact ih last (strictOuts_tail a _ h) o (by simp [outs]; exact Or.inl ho)
    · omega

theorem lirFold_le (l : List Inst) (acc b : Nat) (hacc : acc ≤ b) (h : ∀ o ∈ outs l, o ≤ b) : lirFold acc l ≤ b := by
  induction l generalizing acc with
  | nil => exact hacc
  | cons a r ih =>
    simp only [lirFold, List.foldl_cons]
    apply ih
    · split
      · exact h a.out (by simp [outs])
      · exact hacc
    · intro o ho; exact h o (by simp [outs] at ho ⊢; exact Or.inr ho)

/-- **C05 (abstract-name level)**: after running the allocated program on the register machine,
    in either alias mode, the output register holds the value of the last chain element. -/
theorem alloc_correct (alias : Bool) (init : List Inst) (last : Inst)
    (hwf : WF (init ++ [last])) :
    let ir := init ++ [last]
    let regs0 : Reg → Int := upd (fun _ => 0) Reg.x 1
    execAll alias ir regs0 ir (cellOf alias .z) = envAfter ir last.out ∧
    (∀ inst ∈ ir, regOf ir inst.out ≠ .x) := by
  intro ir regs0
  have hir : ir = [] ++ init ++ [last] := by simp [ir]
  have h0 : SimInv alias ir [] (init ++ [last]) regs0 := by
    intro i hi
    have : i = 0 := hwf.closed i hi
    subst this
    simp [regOf, cellOf, regs0, upd, envAfter]
  have h1 := sim_run alias ir hwf.wfs hwf.outs init [] [last] regs0 hir h0
  have hstep := sim_step alias ([] ++ init) last [] (execAll alias ir regs0 init)
    (by simpa [ir] using hwf.wfs) (by simpa [ir] using hwf.outs) (by simpa [ir] using h1)
  have hz : regOf ir last.out = .z := by
    have hpos : 1 ≤ last.out := strictOuts_pos ir hwf.outs last.out (by simp [ir, outs])
    unfold regOf
    have hlo : lastOut ir = last.out := lastOut_snoc init last
    have hlir : lastInputRead ir ≤ last.out := by
      have : lastInputRead ir = lirFold 0 ir := rfl
      rw [this]
      exact lirFold_le ir 0 last.out (by omega) (strictOuts_last_ge init last hwf.outs)
    simp only [show last.out ≠ 0 by omega, if_false, hlo]
    rw [if_pos ⟨trivial, hlir⟩]
  constructor
  · have e : execAll alias ir regs0 ir = execInst alias ir (execAll alias ir regs0 init) last := by
      simp [execAll, ir, List.foldl_append]
    rw [e, ← hz]
    simpa [ir] using hstep.2
  · intro inst hinst
    have hpos : 1 ≤ inst.out := strictOuts_pos ir hwf.outs inst.out (by simp [outs]; exact ⟨inst, hinst, rfl⟩)
    exact out_not_input alias ir inst.out (by omega)

end P.Alloc
