import AC.Argmin
import AC.ProgramX
import AC.CalcModel
/-! # C14: model of the selection and cost report of `cmd/addchain/search.go`

* `costOf A D p` — `cmd.double*float64(doubles) + cmd.add*float64(adds)` with `Program.Count`, over
  `Int` weights (the float64 arithmetic is outside the model, DESIGN §8; the harness recomputes the
  float expression on the Go side).
* `argminFirst costs` — the loop `best := 0; mincost := +Inf; for i, r := range rs { if cost < mincost
  { best, mincost = i, cost } }`: `P.Argmin.scan` (minimum so far `none` = +∞, strict `<`, so the
  first index attaining the minimum wins).  `none` for an empty result list stands for the
  `rs[best]` index panic of the Go code (the ensemble is never empty).
* `search` — the whole command over abstract parts (`Parts`): the algorithms of the ensemble, the
  emitter `print ∘ build ∘ decompile` and the loader `eval ∘ translate ∘ parse`; `calc.Eval` is the
  concrete model `AC.Calc.eval`.  The composition theorem is proved over any parts satisfying
  `PartsOK` (the conclusions of C01, C04/C07, C03). -/
namespace P.SearchX
open P

/-- `cost := double*doubles + add*adds` of search.go for integer weights -/
def costOf (A D : Int) (p : List Op) : Int :=
  D * ((PX.count p).1 : Int) + A * ((PX.count p).2 : Int)

/-- cost from a `(doubles, adds)` pair as printed in the `-v` log -/
def costPair (A D : Int) (da : Nat × Nat) : Int := D * (da.1 : Int) + A * (da.2 : Int)

/-- index kept by the selection loop of search.go; `none` = empty result list (Go: index panic) -/
def argminFirst (costs : List Int) : Option Nat :=
  if costs.isEmpty then none else some (Argmin.scan costs).1

/-- the reported `mincost` -/
def minCost (costs : List Int) : Option Int := (Argmin.scan costs).2

/-! ## the scan returns the first index of the minimum -/

theorem zip_range_getElem (costs : List Int) (k : Nat) (h : k < ((List.range costs.length).zip costs).length) :
    ((List.range costs.length).zip costs)[k] = (k, costs[k]'(by simpa using h)) := by
  simp [List.getElem_zip]

/-- a decomposition of the enumerated list pins the index of its middle element -/
theorem zip_range_split (costs : List Int) (pre post : List (Nat × Int)) (ic : Nat × Int)
    (h : (List.range costs.length).zip costs = pre ++ ic :: post) :
    ic.1 = pre.length ∧ ∃ hk : pre.length < costs.length, costs[pre.length] = ic.2 ∧
      ∀ j (hj : j < pre.length), (j, costs[j]'(by omega)) ∈ pre := by
  have hlen : ((List.range costs.length).zip costs).length = pre.length + (post.length + 1) := by
    rw [h]; simp
  have hcl : ((List.range costs.length).zip costs).length = costs.length := by simp
  have hk : pre.length < costs.length := by omega
  have e1 : ((List.range costs.length).zip costs)[pre.length]'(by omega) = ic := by
    simp only [h]; simp
  rw [zip_range_getElem] at e1
  refine ⟨by rw [← e1], hk, by rw [← e1], ?_⟩
  intro j hj
  have e2 : ((List.range costs.length).zip costs)[j]'(by omega) = pre[j] := by
    simp only [h]; rw [List.getElem_append_left hj]
  rw [zip_range_getElem] at e2
  rw [e2]; exact List.getElem_mem hj

/-- **selection**: on a non-empty cost list the loop returns an index `i` in range whose cost is
    the minimum of all costs, every earlier cost is strictly larger, and the reported minimum is
    that cost -/
theorem argminFirst_spec (costs : List Int) (hne : costs ≠ []) :
    ∃ i, argminFirst costs = some i ∧ ∃ hi : i < costs.length,
      minCost costs = some costs[i] ∧ (∀ c ∈ costs, costs[i] ≤ c) ∧
      ∀ j (hj : j < i), costs[i] < costs[j] := by
  cases costs with
  | nil => exact absurd rfl hne
  | cons c0 rest =>
    have hscan : Argmin.scan (c0 :: rest) =
        (((List.range (c0 :: rest).length).zip (c0 :: rest)).drop 1).foldl Argmin.step (0, some c0) := by
      unfold Argmin.scan
      simp only [List.length_cons, List.range_succ_eq_map, List.zip_cons_cons, List.foldl_cons, Argmin.step,
        List.drop_succ_cons, List.drop_zero]
    have hsplit : (List.range (c0 :: rest).length).zip (c0 :: rest) =
        (0, c0) :: (((List.range (c0 :: rest).length).zip (c0 :: rest)).drop 1) := by
      simp only [List.length_cons, List.range_succ_eq_map, List.zip_cons_cons, List.drop_succ_cons, List.drop_zero]
    generalize htl : ((List.range (c0 :: rest).length).zip (c0 :: rest)).drop 1 = tl at hscan hsplit
    obtain ⟨m', h1, h2, h3, h4⟩ := Argmin.foldl_spec tl 0 c0
    have hall : ∀ c ∈ c0 :: rest, m' ≤ c := by
      intro c hc
      obtain ⟨k, hk, he⟩ := List.getElem_of_mem hc
      have hk' : k < ((List.range (c0 :: rest).length).zip (c0 :: rest)).length := by simpa using hk
      have hm : (k, c) ∈ (List.range (c0 :: rest).length).zip (c0 :: rest) := by
        have := zip_range_getElem (c0 :: rest) k hk'
        rw [he] at this
        rw [← this]; exact List.getElem_mem hk'
      rw [hsplit] at hm
      rcases List.mem_cons.mp hm with e | hm
      · have : c = c0 := by injection e
        omega
      · exact h3 (k, c) hm
    unfold argminFirst minCost
    simp only [List.isEmpty_cons, Bool.false_eq_true, if_false]
    rw [hscan]
    rcases h4 with ⟨e1, e2, _⟩ | ⟨pre, ic, post, e1, e2, e3, e4, e5⟩
    · refine ⟨0, by rw [e1], by simp, ?_, ?_, ?_⟩
      · rw [h1, e2]; rfl
      · intro c hc; have := hall c hc; simp only [List.getElem_cons_zero]; omega
      · intro j hj; omega
    · have hs2 : (List.range (c0 :: rest).length).zip (c0 :: rest) = ((0, c0) :: pre) ++ ic :: post := by
        rw [hsplit, e1]; rfl
      obtain ⟨g1, gk, g2, g3⟩ := zip_range_split (c0 :: rest) ((0, c0) :: pre) post ic hs2
      refine ⟨((0, c0) :: pre).length, by rw [e2, g1], gk, ?_, ?_, ?_⟩
      · rw [h1, g2, e3]
      · intro c hc; rw [g2, ← e3]; exact hall c hc
      · intro j hj
        have hm := g3 j hj
        rw [g2, ← e3]
        rcases List.mem_cons.mp hm with e | hm
        · have : (c0 :: rest)[j]'(by omega) = c0 := by injection e
          omega
        · exact e4 _ hm

/-! ## the command over abstract parts -/

inductive Fail | calc | nonpositive | algorithm | noalgorithms | emit
deriving Repr, DecidableEq

/-- the components of `search` that are other properties' models -/
structure Parts where
  /-- `Execute(n, aᵢ)` for every algorithm of the ensemble: the program of the chain found, or an error -/
  algs : List (Int → Option (List Op))
  /-- `printer.Print ∘ acc.Build ∘ acc.Decompile` -/
  emit : List Op → Option (List Char)
  /-- `pass.Eval ∘ acc.Translate ∘ parse` (what the `eval` command runs): chain and program -/
  load : List Char → Option (Chain × List Op)

/-- `search.Execute` for integer weights: script text and reported cost -/
def search (Q : Parts) (A D : Int) (e : List Char) : Except Fail (List Char × Int) :=
  match AC.Calc.eval e with
  | .ok n =>
    if n ≤ 0 then .error .nonpositive else
    match Q.algs.mapM (fun a => a n) with
    | none => .error .algorithm
    | some rs =>
      let costs := rs.map (costOf A D)
      match argminFirst costs, minCost costs with
      | some best, some c =>
        match Q.emit (rs.getD best []) with
        | some txt => .ok (txt, c)
        | none => .error .emit
      | _, _ => .error .noalgorithms
  | _ => .error .calc

/-- what the other properties give about the parts: every algorithm result is the program of a chain
    ending in the target (C01, via `exec.Execute`'s own check), and loading an emitted script gives
    back a chain with the same last element and a program with the same operation counts (C04, C07, C03) -/
structure PartsOK (Q : Parts) : Prop where
  alg_ends : ∀ a ∈ Q.algs, ∀ n p, a n = some p → (evaluate p).getLast? = some n
  roundtrip : ∀ p txt, Q.emit p = some txt →
    ∃ c q, Q.load txt = some (c, q) ∧ c.getLast? = (evaluate p).getLast? ∧ PX.count q = PX.count p

/-- the conclusion of C14 for one run of the model -/
def SearchSpec (Q : Parts) : Prop :=
  ∀ (A D : Int) (e : List Char) (txt : List Char) (cost : Int), search Q A D e = .ok (txt, cost) →
    ∃ n, AC.Calc.eval e = .ok n ∧ 1 ≤ n ∧
    ∃ c q, Q.load txt = some (c, q) ∧ c.getLast? = some n ∧ cost = costOf A D q ∧
    ∃ rs, Q.algs.mapM (fun a => a n) = some rs ∧ ∀ r ∈ rs, cost ≤ costOf A D r

theorem mapM_mem {α β} (f : α → Option β) : ∀ (l : List α) (rs : List β), l.mapM f = some rs →
    ∀ r ∈ rs, ∃ a ∈ l, f a = some r := by
  intro l
  induction l with
  | nil => intro rs h r hr; simp at h; subst h; simp at hr
  | cons a l ih =>
    intro rs h r hr
    rw [List.mapM_cons] at h
    cases ha : f a with
    | none => simp [ha] at h
    | some b =>
      cases hl : l.mapM f with
      | none => simp [ha, hl] at h
      | some bs =>
        simp [ha, hl] at h
        subst h
        rcases List.mem_cons.mp hr with rfl | hr
        · exact ⟨a, List.mem_cons_self, ha⟩
        · obtain ⟨a', h1, h2⟩ := ih bs hl r hr
          exact ⟨a', List.mem_cons_of_mem _ h1, h2⟩

theorem costOf_congr (A D : Int) (p q : List Op) (h : PX.count q = PX.count p) : costOf A D q = costOf A D p := by
  unfold costOf; rw [h]

/-- **composition**: for parts satisfying `PartsOK`, a successful search prints a script that loads
    to a chain ending in the value of the expression, reports exactly the weighted operation count
    of that script, and that cost is minimal among all algorithm results -/
theorem search_spec (Q : Parts) (ok : PartsOK Q) : SearchSpec Q := by
  intro A D e txt cost h
  unfold search at h
  cases hc : AC.Calc.eval e with
  | err => rw [hc] at h; cases h
  | halt x => rw [hc] at h; cases h
  | ok n =>
    rw [hc] at h
    simp only [] at h
    by_cases hn : n ≤ 0
    · simp [hn] at h
    · simp only [hn, if_false] at h
      cases hrs : Q.algs.mapM (fun a => a n) with
      | none => rw [hrs] at h; cases h
      | some rs =>
        rw [hrs] at h
        simp only [] at h
        by_cases hrne : rs.map (costOf A D) = []
        · simp [argminFirst, hrne] at h
        · obtain ⟨i, h1, hi, h2, h3, _⟩ := argminFirst_spec _ hrne
          rw [h1, h2] at h
          simp only [] at h
          cases hem : Q.emit (rs.getD i []) with
          | none => rw [hem] at h; cases h
          | some t =>
            rw [hem] at h
            have htxt : t = txt := by injection h with h; injection h
            have hcost : (rs.map (costOf A D))[i] = cost := by injection h with h; injection h
            subst htxt
            have hi' : i < rs.length := by simpa using hi
            have hget : rs.getD i [] = rs[i] := by simp [List.getD, hi']
            rw [hget] at hem
            obtain ⟨c, q, hl, hlast, hcnt⟩ := ok.roundtrip _ _ hem
            obtain ⟨a, ha, hap⟩ := mapM_mem _ _ _ hrs rs[i] (List.getElem_mem hi')
            have hend := ok.alg_ends a ha n rs[i] hap
            refine ⟨n, rfl, by omega, c, q, hl, by rw [hlast, hend], ?_, rs, hrs, ?_⟩
            · rw [costOf_congr A D _ _ hcnt, ← hcost]; simp
            · intro r hr
              rw [← hcost]
              exact h3 _ (List.mem_map_of_mem hr)

end P.SearchX
