import AC.ChainSet
/-! `bigints.MergeUnique` / `InsertSortedUnique` and their specifications (part of C19). -/
namespace P

/-- `bigints.MergeUnique` -/
def mergeUnique : List Int → List Int → List Int
  | [], ys => ys
  | xs, [] => xs
  | x :: xs, y :: ys =>
    if x < y then x :: mergeUnique xs (y :: ys)
    else if x = y then x :: mergeUnique xs ys
    else y :: mergeUnique (x :: xs) ys
termination_by xs ys => xs.length + ys.length

def insertSortedUnique (xs : List Int) (x : Int) : List Int := mergeUnique [x] xs

theorem mem_mergeUnique : ∀ (xs ys : List Int) (a : Int), a ∈ mergeUnique xs ys ↔ a ∈ xs ∨ a ∈ ys := by
  intro xs ys
  induction xs, ys using mergeUnique.induct with
  | case1 ys => intro a; simp [mergeUnique]
  | case2 xs h => intro a; cases xs <;> simp [mergeUnique] at *
  | case3 x xs y ys hlt ih =>
    intro a; rw [mergeUnique]; simp only [hlt, if_true, List.mem_cons, ih]
    constructor
    · rintro (h | h | h | h) <;> simp [h]
    · rintro ((h | h) | (h | h)) <;> simp [h]
  | case4 x xs ys hlt ih =>
    intro a; rw [mergeUnique]; simp only [hlt, if_true, if_false, List.mem_cons, ih]
    constructor
    · rintro (h | h | h) <;> simp [h]
    · rintro ((h | h) | (h | h)) <;> simp [h]
  | case5 x xs y ys hlt hne ih =>
    intro a; rw [mergeUnique]; simp only [hlt, hne, if_false, List.mem_cons, ih]
    constructor
    · rintro (h | (h | h) | h) <;> simp [h]
    · rintro ((h | h) | (h | h)) <;> simp [h]

theorem pairwise_mergeUnique : ∀ (xs ys : List Int), xs.Pairwise (· < ·) → ys.Pairwise (· < ·) →
    (mergeUnique xs ys).Pairwise (· < ·) := by
  intro xs ys
  induction xs, ys using mergeUnique.induct with
  | case1 ys => intro _ h; simpa [mergeUnique] using h
  | case2 xs h => intro hx _; cases xs <;> simp [mergeUnique] at * ; exact hx
  | case3 x xs y ys hlt ih =>
    intro hx hy
    rw [mergeUnique]; simp only [hlt, if_true]
    apply List.pairwise_cons.mpr
    refine ⟨?_, ih (List.pairwise_cons.mp hx).2 hy⟩
    intro a ha
    rw [mem_mergeUnique] at ha
    rcases ha with ha | ha
    · exact (List.pairwise_cons.mp hx).1 a ha
    · rcases List.mem_cons.mp ha with rfl | ha
      · exact hlt
      · have := (List.pairwise_cons.mp hy).1 a ha; omega
  | case4 x xs ys hlt ih =>
    intro hx hy
    rw [mergeUnique]; simp only [hlt, if_true, if_false]
    apply List.pairwise_cons.mpr
    refine ⟨?_, ih (List.pairwise_cons.mp hx).2 (List.pairwise_cons.mp hy).2⟩
    intro a ha
    rw [mem_mergeUnique] at ha
    rcases ha with ha | ha
    · exact (List.pairwise_cons.mp hx).1 a ha
    · exact (List.pairwise_cons.mp hy).1 a ha
  | case5 x xs y ys hlt hne ih =>
    intro hx hy
    rw [mergeUnique]; simp only [hlt, hne, if_false]
    apply List.pairwise_cons.mpr
    refine ⟨?_, ih hx (List.pairwise_cons.mp hy).2⟩
    intro a ha
    rw [mem_mergeUnique] at ha
    have hyx : y < x := by omega
    rcases ha with ha | ha
    · rcases List.mem_cons.mp ha with rfl | ha
      · exact hyx
      · have := (List.pairwise_cons.mp hx).1 a ha; omega
    · exact (List.pairwise_cons.mp hy).1 a ha

end P
