import AC.DictAlg
import AC.RunsProof
/-! Bridge for C01: the executable, list-based `primitivePre` (model of `dict.primitive`) is an
    instance of the abstract construction proved correct in `P.Prim.primitive_ok`. -/
namespace P.DA
open P

/-! ### `idxOf` -/
theorem idxOf_spec (c : List Nat) (d : Nat) (h : d ∈ c) :
    idxOf c d < c.length ∧ c.getD (idxOf c d) 0 = d := by
  unfold idxOf
  obtain ⟨i, hi, hci⟩ := List.getElem_of_mem h
  have hmem : i ∈ (List.range c.length).filter fun i => c.getD i 0 == d := by
    apply List.mem_filter.mpr
    refine ⟨by simpa using hi, ?_⟩
    simp [List.getD, List.getElem?_eq_getElem hi, hci]
  cases hl : ((List.range c.length).filter fun i => c.getD i 0 == d).getLast? with
  | none =>
    rw [List.getLast?_eq_none_iff] at hl
    rw [hl] at hmem; cases hmem
  | some k =>
    have hk := List.mem_of_getLast? hl
    obtain ⟨hk1, hk2⟩ := List.mem_filter.mp hk
    simp only [Option.getD_some]
    exact ⟨by simpa using hk1, by simpa using hk2⟩

/-! ### `incrL` and the read counts -/
theorem incrL_length : ∀ (l : List Nat) (k : Nat), (incrL l k).length = l.length := by
  intro l
  induction l with
  | nil => intro k; rfl
  | cons a r ih =>
    intro k
    cases k with
    | zero => rfl
    | succ k => simp [incrL, ih]

theorem incrL_getD : ∀ (l : List Nat) (k i : Nat), i < l.length →
    (incrL l k).getD i 0 = l.getD i 0 + if k = i then 1 else 0 := by
  intro l
  induction l with
  | nil => intro k i h; simp at h
  | cons a r ih =>
    intro k i h
    cases k with
    | zero =>
      cases i with
      | zero => simp [incrL]
      | succ i => simp [incrL]
    | succ k =>
      cases i with
      | zero => simp [incrL]
      | succ i =>
        simp only [incrL, List.getD_cons_succ]
        rw [ih k i (by simpa using h)]
        simp

def rdStep (rs : List Nat) (o : Op) : List Nat :=
  if o.1 == o.2 then incrL rs o.1 else incrL (incrL rs o.1) o.2

theorem rdStep_length (rs : List Nat) (o : Op) : (rdStep rs o).length = rs.length := by
  unfold rdStep; split <;> simp [incrL_length]

theorem rdStep_getD (rs : List Nat) (o : Op) (i : Nat) (h : i < rs.length) :
    (rdStep rs o).getD i 0 = rs.getD i 0 + if (o.1 == i || o.2 == i) then 1 else 0 := by
  unfold rdStep
  split
  · rename_i heq
    have heq : o.1 = o.2 := by simpa using heq
    rw [incrL_getD _ _ _ h, ← heq]
    by_cases e : o.1 = i <;> simp [e]
  · rename_i hne
    have hne : o.1 ≠ o.2 := by simpa using hne
    rw [incrL_getD _ _ _ (by rw [incrL_length]; exact h), incrL_getD _ _ _ h]
    by_cases e1 : o.1 = i
    · have e2 : o.2 ≠ i := fun e => hne (e1.trans e.symm)
      simp [e1, e2]
    · by_cases e2 : o.2 = i <;> simp [e1, e2]

theorem rdFold : ∀ (p : List Op) (rs : List Nat),
    (p.foldl rdStep rs).length = rs.length ∧
    ∀ i, i < rs.length →
      (p.foldl rdStep rs).getD i 0 = rs.getD i 0 + p.countP (fun o => o.1 == i || o.2 == i) := by
  intro p
  induction p with
  | nil => intro rs; simp
  | cons o r ih =>
    intro rs
    obtain ⟨h1, h2⟩ := ih (rdStep rs o)
    rw [rdStep_length] at h1 h2
    refine ⟨h1, ?_⟩
    intro i hi
    simp only [List.foldl_cons]
    rw [h2 i hi, rdStep_getD rs o i hi, List.countP_cons]
    omega

theorem incrFold : ∀ (t : List Nat) (rs : List Nat),
    (t.foldl incrL rs).length = rs.length ∧
    ∀ i, i < rs.length →
      (t.foldl incrL rs).getD i 0 = rs.getD i 0 + t.countP (fun k => k == i) := by
  intro t
  induction t with
  | nil => intro rs; simp
  | cons k r ih =>
    intro rs
    obtain ⟨h1, h2⟩ := ih (incrL rs k)
    rw [incrL_length] at h1 h2
    refine ⟨h1, ?_⟩
    intro i hi
    simp only [List.foldl_cons]
    rw [h2 i hi, incrL_getD rs k i hi, List.countP_cons]
    by_cases e : k = i <;> simp [e] <;> omega

theorem readsL_spec (p : List Op) (terms : List (Nat × Nat)) :
    (readsL p (terms.map (·.1))).length = p.length + 1 ∧
    ∀ i, i ≤ p.length → (readsL p (terms.map (·.1))).getD i 0 = P.Prim.reads p terms i := by
  unfold readsL
  have hstep : (fun (rs : List Nat) (o : Op) =>
      if o.1 == o.2 then incrL rs o.1 else incrL (incrL rs o.1) o.2) = rdStep := rfl
  simp only [hstep]
  obtain ⟨a1, a2⟩ := rdFold p (List.replicate (p.length + 1) 0)
  obtain ⟨b1, b2⟩ := incrFold (terms.map (·.1)) (p.foldl rdStep (List.replicate (p.length + 1) 0))
  rw [a1] at b1 b2
  simp only [List.length_replicate] at a1 a2 b1 b2
  refine ⟨b1, ?_⟩
  intro i hi
  rw [b2 i (by omega), a2 i (by omega)]
  unfold P.Prim.reads
  rw [List.countP_map]
  have : (List.replicate (p.length + 1) 0).getD i 0 = 0 := by
    simp [List.getD, show i < p.length + 1 by omega]
  rw [this]
  simp only [Nat.zero_add]
  rfl

/-! ### the primitive mask -/
theorem maskFold (reads deps : List Nat) (i : Nat) : ∀ m,
    ((List.range m).foldl
      (fun acc k => if reads.getD k 0 ≥ 2 then acc ||| 2 ^ k ||| deps.getD k 0 else acc) 0).testBit i =
    (List.range m).any
      (fun k => decide (2 ≤ reads.getD k 0) && (decide (k = i) || (deps.getD k 0).testBit i)) := by
  intro m
  induction m with
  | zero => simp
  | succ m ih =>
    rw [List.range_succ, List.foldl_append, List.any_append, ← ih]
    simp only [List.foldl_cons, List.foldl_nil, List.any_cons, List.any_nil, Bool.or_false]
    split
    · rename_i h
      simp only [Nat.testBit_or, Nat.testBit_two_pow]
      have : decide (2 ≤ reads.getD m 0) = true := by simpa using h
      rw [this]
      simp [Bool.or_assoc]
    · rename_i h
      have : decide (2 ≤ reads.getD m 0) = false := by simpa using h
      rw [this]
      simp

theorem primMask_spec (p : List Op) (terms : List (Nat × Nat)) (reads : List Nat)
    (hp : P.Prim.InRangeP p 0) (hlen : reads.length = p.length + 1)
    (hreads : ∀ k, k ≤ p.length → reads.getD k 0 = P.Prim.reads p terms k) (i : Nat) :
    (primMask reads (P.Prim.depsL p)).testBit i = P.Prim.flag p terms i := by
  unfold primMask
  rw [maskFold, hlen, Bool.eq_iff_iff, P.Prim.flag_iff]
  simp only [List.any_eq_true, List.mem_range, Bool.and_eq_true, decide_eq_true_eq, Bool.or_eq_true]
  have hd := P.Prim.dgood p hp
  constructor
  · rintro ⟨k, hk, h1, h2⟩
    refine ⟨k, by omega, by rw [← hreads k (by omega)]; exact h1, ?_⟩
    rcases h2 with h2 | h2
    · subst h2; exact hd.self k (by omega)
    · exact h2
  · rintro ⟨k, hk, h1, h2⟩
    exact ⟨k, by omega, by rw [hreads k hk]; exact h1, Or.inr h2⟩

/-! ### list vectors and function vectors -/
def VAgree (n : Nat) (a : List Nat) (f : P.Prim.Vec) : Prop :=
  a.length = n ∧ ∀ j, j < n → a.getD j 0 = f j

theorem basisL_agree (n i : Nat) : VAgree n (basisL n i) (P.Prim.basis i) := by
  unfold basisL
  refine ⟨by simp, ?_⟩
  intro j hj
  simp [List.getD, hj, P.Prim.basis]

theorem addL_agree (n : Nat) (a b : List Nat) (f g : P.Prim.Vec) (ha : VAgree n a f) (hb : VAgree n b g) :
    VAgree n (addL a b) (P.Prim.addV f g) := by
  obtain ⟨la, ha⟩ := ha
  obtain ⟨lb, hb⟩ := hb
  unfold addL
  refine ⟨by simp [la, lb], ?_⟩
  intro j hj
  have h1 := ha j hj
  have h2 := hb j hj
  rw [List.getD_eq_getElem?_getD, List.getElem?_eq_getElem (by omega)] at h1 h2
  rw [List.getD_eq_getElem?_getD, List.getElem?_eq_getElem (by simp [la, lb]; exact hj)]
  simp only [Option.getD_some] at h1 h2 ⊢
  rw [List.getElem_zipWith, h1, h2]
  rfl

theorem lshL_agree (n : Nat) (a : List Nat) (f : P.Prim.Vec) (e : Nat) (ha : VAgree n a f) :
    VAgree n (lshL a e) (P.Prim.lshV f e) := by
  obtain ⟨la, ha⟩ := ha
  unfold lshL
  refine ⟨by simp [la], ?_⟩
  intro j hj
  have h1 := ha j hj
  rw [List.getD_eq_getElem?_getD, List.getElem?_eq_getElem (by omega)] at h1
  rw [List.getD_eq_getElem?_getD, List.getElem?_eq_getElem (by simp [la]; exact hj)]
  simp only [Option.getD_some] at h1 ⊢
  rw [List.getElem_map, h1]
  rfl

theorem zero_agree (n : Nat) : VAgree n (List.replicate n 0) P.Prim.zeroV := by
  refine ⟨by simp, ?_⟩
  intro j hj
  simp [List.getD, hj, P.Prim.zeroV]

def VsAgree (n : Nat) (vsL : List (List Nat)) (vsF : List P.Prim.Vec) : Prop :=
  vsL.length = vsF.length ∧
  ∀ k, k < vsL.length → VAgree n (vsL.getD k []) (vsF.getD k P.Prim.zeroV)

def vcStepL (n mask : Nat) (vs : List (List Nat)) (o : Op) : List (List Nat) :=
  vs ++ [if mask.testBit vs.length then basisL n vs.length
         else addL (vs.getD o.1 []) (vs.getD o.2 [])]

theorem vcStep_agree (n mask : Nat) (fl : Nat → Bool) (hm : ∀ i, mask.testBit i = fl i)
    (vsL : List (List Nat)) (vsF : List P.Prim.Vec) (o : Op) (h : VsAgree n vsL vsF)
    (h1 : o.1 < vsL.length) (h2 : o.2 < vsL.length) :
    VsAgree n (vcStepL n mask vsL o) (P.Prim.vcStep fl vsF o) := by
  obtain ⟨hl, hv⟩ := h
  unfold vcStepL P.Prim.vcStep
  refine ⟨by simp [hl], ?_⟩
  intro k hk
  simp only [List.length_append, List.length_cons, List.length_nil] at hk
  by_cases hkl : k < vsL.length
  · have e1 : (vsL ++ [if mask.testBit vsL.length then basisL n vsL.length
         else addL (vsL.getD o.1 []) (vsL.getD o.2 [])]).getD k [] = vsL.getD k [] := by
      simp [List.getD, List.getElem?_append_left hkl]
    rw [e1, P.Prim.vgetD_append_left _ _ _ (by omega)]
    exact hv k hkl
  · have hke : k = vsL.length := by omega
    subst hke
    have e1 : (vsL ++ [if mask.testBit vsL.length then basisL n vsL.length
         else addL (vsL.getD o.1 []) (vsL.getD o.2 [])]).getD vsL.length [] =
         (if mask.testBit vsL.length then basisL n vsL.length
         else addL (vsL.getD o.1 []) (vsL.getD o.2 [])) := by
      simp [List.getD]
    rw [e1, hl, P.Prim.vgetD_append_last, ← hl, hm]
    split
    · exact basisL_agree n _
    · exact addL_agree n _ _ _ _ (hv _ h1) (hv _ h2)

theorem vcFold_agree (n mask : Nat) (fl : Nat → Bool) (hm : ∀ i, mask.testBit i = fl i) :
    ∀ (r : List Op) (vsL : List (List Nat)) (vsF : List P.Prim.Vec) (m : Nat),
    VsAgree n vsL vsF → vsL.length = m + 1 → P.Prim.InRangeP r m →
    VsAgree n (r.foldl (vcStepL n mask) vsL) (r.foldl (P.Prim.vcStep fl) vsF) := by
  intro r
  induction r with
  | nil => intro vsL vsF m h _ _; exact h
  | cons o r ih =>
    intro vsL vsF m h hl hr
    simp only [List.foldl_cons]
    apply ih _ _ (m + 1) (vcStep_agree n mask fl hm vsL vsF o h (by have := hr.1; omega) (by have := hr.2.1; omega))
    · simp [vcStepL, hl]
    · exact hr.2.2

theorem vcList_agree (n mask : Nat) (fl : Nat → Bool) (hm : ∀ i, mask.testBit i = fl i)
    (p : List Op) (hp : P.Prim.InRangeP p 0) :
    VsAgree n (vcList n mask p) (P.Prim.vcL fl p) := by
  unfold vcList P.Prim.vcL
  apply vcFold_agree n mask fl hm p [basisL n 0] [P.Prim.basis 0] 0 ?_ rfl hp
  refine ⟨rfl, ?_⟩
  intro k hk
  simp at hk; subst hk
  exact basisL_agree n 0

theorem vcList_length (n mask : Nat) (p : List Op) : (vcList n mask p).length = p.length + 1 := by
  unfold vcList
  have : ∀ (r : List Op) (vs : List (List Nat)), (r.foldl (vcStepL n mask) vs).length = vs.length + r.length := by
    intro r
    induction r with
    | nil => intro vs; rfl
    | cons o r ih => intro vs; simp only [List.foldl_cons, ih, vcStepL]; simp; omega
  have := this p [basisL n 0]
  simp only [List.length_cons, List.length_nil] at this
  show (p.foldl (vcStepL n mask) [basisL n 0]).length = p.length + 1
  omega

/-! ### the accumulated combination, the rebuilt sum, the pruned chain -/
theorem zip_map_self {α β} (f : α → β) : ∀ (l : List α), l.zip (l.map f) = l.map fun t => (t, f t) := by
  intro l
  induction l with
  | nil => rfl
  | cons a r ih => simp [ih]

theorem vTot_agree (n : Nat) (vc : List (List Nat)) (vcF : List P.Prim.Vec) (hvs : VsAgree n vc vcF)
    (f : TermP → Nat) : ∀ (sum : List TermP) (accL : List Nat) (accF : P.Prim.Vec),
    VAgree n accL accF → (∀ t ∈ sum, f t < vc.length) →
    VAgree n
      ((sum.map fun t => (t, f t)).foldl (fun acc ti => addL acc (lshL (vc.getD ti.2 []) ti.1.2)) accL)
      ((sum.map fun t => (f t, t.2)).foldl
        (fun acc t => P.Prim.addV acc (P.Prim.lshV (vcF.getD t.1 P.Prim.zeroV) t.2)) accF) := by
  intro sum
  induction sum with
  | nil => intro accL accF h _; exact h
  | cons t r ih =>
    intro accL accF h hb
    simp only [List.map_cons, List.foldl_cons]
    apply ih
    · exact addL_agree n _ _ _ _ h (lshL_agree n _ _ _ (hvs.2 _ (hb t (by simp))))
    · intro t' ht'; exact hb t' (List.mem_cons_of_mem _ ht')

theorem flatMap_congr' {α β} (f g : α → List β) : ∀ (l : List α), (∀ x ∈ l, f x = g x) →
    l.flatMap f = l.flatMap g := by
  intro l
  induction l with
  | nil => intro _; rfl
  | cons a r ih =>
    intro h
    simp only [List.flatMap_cons]
    rw [h a (by simp), ih (fun x hx => h x (List.mem_cons_of_mem _ hx))]

theorem filterMap_ite {α β} (g : α → Bool) (f : α → β) : ∀ (l : List α),
    (l.filterMap fun i => if g i then some (f i) else none) = (l.filter g).map f := by
  intro l
  induction l with
  | nil => rfl
  | cons a r ih =>
    by_cases h : g a = true
    · simp [h, ih]
    · simp [h, ih]

/-! ### the program of a chain evaluates to the chain -/
theorem evalsTo_of_get (cv : Nat → Nat) : ∀ (r : List Op) (k : Nat),
    (∀ j, j < r.length → ∃ o, r[j]? = some o ∧ o.1 ≤ k + j ∧ o.2 ≤ k + j ∧
      cv o.1 + cv o.2 = cv (k + j + 1)) → P.Prim.EvalsTo cv r k := by
  intro r
  induction r with
  | nil => intro k _; trivial
  | cons o r ih =>
    intro k h
    obtain ⟨o', ho', a1, a2, a3⟩ := h 0 (by simp)
    simp only [List.getElem?_cons_zero, Option.some.injEq] at ho'
    subst ho'
    refine ⟨by omega, by omega, a3, ?_⟩
    apply ih
    intro j hj
    obtain ⟨o', ho', b1, b2, b3⟩ := h (j + 1) (by simp; omega)
    simp only [List.getElem?_cons_succ] at ho'
    have e : k + (j + 1) + 1 = k + 1 + j + 1 := by omega
    rw [e] at b3
    exact ⟨o', ho', by omega, by omega, b3⟩

theorem at'_map_ofNat (c : List Nat) (i : Nat) : at' (c.map Int.ofNat) i = ((c.getD i 0 : Nat) : Int) := by
  unfold at'
  simp only [List.getD, List.getElem?_map]
  cases c[i]? <;> simp

def vAccL (n : Nat) (vc : List (List Nat)) (sum : List TermP) (tidx : List Nat) : List Nat :=
  (sum.zip tidx).foldl (fun acc ti => addL acc (lshL (vc.getD ti.2 []) ti.1.2)) (List.replicate n 0)
def outL (n : Nat) (c : List Nat) (v : List Nat) : List TermP :=
  (List.range n).flatMap fun i => (P.Prim.bitsSet (v.getD i 0)).map fun e => (c.getD i 0, e)
def prunedL (n : Nat) (c : List Nat) (mask : Nat) : List Nat :=
  (List.range n).filterMap fun i => if mask.testBit i then some (c.getD i 0) else none

theorem vAccL_agree (n : Nat) (vc : List (List Nat)) (vcF : List P.Prim.Vec) (hvs : VsAgree n vc vcF)
    (f : TermP → Nat) (sum : List TermP) (hb : ∀ t ∈ sum, f t < vc.length) :
    VAgree n (vAccL n vc sum (sum.map f)) (P.Prim.vTot vcF (sum.map fun t => (f t, t.2))) := by
  unfold vAccL P.Prim.vTot
  rw [zip_map_self]
  exact vTot_agree n vc vcF hvs f sum _ _ (zero_agree n) hb

theorem outL_eq (n : Nat) (c : List Nat) (v : List Nat) (vF : P.Prim.Vec) (h : VAgree n v vF) :
    outL n c v = P.Prim.outTerms n (fun i => c.getD i 0) vF := by
  unfold outL P.Prim.outTerms
  apply flatMap_congr'
  intro i hi
  rw [h.2 i (by simpa using hi)]

theorem prunedL_eq (n : Nat) (c : List Nat) (mask : Nat) (fl : Nat → Bool) (hm : ∀ i, mask.testBit i = fl i) :
    prunedL n c mask = ((List.range n).filter fl).map (fun i => c.getD i 0) := by
  unfold prunedL
  rw [← filterMap_ite]
  simp only [hm]

theorem primitivePre_eq (sum : List TermP) (c : List Nat) (p : List Op)
    (hp : program (c.map Int.ofNat) = .ok p) :
    primitivePre sum c =
      (let tidx := sum.map fun t => idxOf c t.1
       let mask := primMask (readsL p tidx) (P.Prim.depsL p)
       let out := outL c.length c (vAccL c.length (vcList c.length mask p) sum tidx)
       if valueP out == valueP sum then some (out, prunedL c.length c mask) else none) := by
  unfold primitivePre
  rw [hp]
  rfl

theorem primitivePre_ok (sum : List TermP) (c : List Nat)
    (hc : IsChain (c.map Int.ofNat))
    (hlen : 2 ≤ sum.length)
    (hmem : ∀ t ∈ sum, t.1 ∈ c) :
    ∃ pre pruned, primitivePre sum c = some (pre, pruned) ∧
      valueP pre = valueP sum ∧
      (∀ t ∈ pre, t.1 ∈ pruned) ∧
      1 ∈ pruned ∧
      (∀ x ∈ pruned, x ∈ c) ∧
      (∀ x ∈ pruned, x = 1 ∨ ∃ a ∈ pruned, ∃ b ∈ pruned, a + b = x) := by
  obtain ⟨p, hp⟩ := (validate_iff _).2 hc
  obtain ⟨hlenp, hget⟩ := program_get _ p hp
  simp only [List.length_map] at hlenp
  let cv : Nat → Nat := fun i => c.getD i 0
  have hat : ∀ i, at' (c.map Int.ofNat) i = ((cv i : Nat) : Int) := at'_map_ofNat c
  have he : P.Prim.EvalsTo cv p 0 := by
    apply evalsTo_of_get
    intro j hj
    obtain ⟨o, ho, hmo⟩ := hget j hj
    obtain ⟨i1, i2⟩ := o
    have := (mem_ops _ (j + 1) i1 i2 (by simp; omega)).1 hmo
    rw [hat, hat, hat] at this
    refine ⟨_, ho, by simp only []; omega, by simp only []; omega, ?_⟩
    simp only [Nat.zero_add]
    have h3 := this.2.2
    omega
  have h0 : cv 0 = 1 := by
    have := hc.2.1
    rw [hat] at this
    omega
  let terms : List (Nat × Nat) := sum.map fun t => (idxOf c t.1, t.2)
  have hidx : ∀ t ∈ sum, idxOf c t.1 < c.length ∧ cv (idxOf c t.1) = t.1 :=
    fun t ht => idxOf_spec c t.1 (hmem t ht)
  have ht : 2 ≤ terms.length := by simp [terms]; exact hlen
  have hti : ∀ t ∈ terms, t.1 ≤ p.length := by
    intro t htm
    obtain ⟨s, hs, rfl⟩ := List.mem_map.mp htm
    have := (hidx s hs).1
    simp only []; omega
  obtain ⟨m1, m2, m3, m4⟩ := P.Prim.primitive_ok cv p terms he h0 ht hti
  have hpr := P.Prim.evalsTo_inRange cv p 0 he
  -- the list computation agrees with the abstract one
  have htidx : (sum.map fun t => idxOf c t.1) = terms.map (·.1) := by
    simp [terms, List.map_map, Function.comp_def]
  obtain ⟨rl, rg⟩ := readsL_spec p terms
  rw [← htidx] at rl rg
  have hm : ∀ i, (primMask (readsL p (sum.map fun t => idxOf c t.1)) (P.Prim.depsL p)).testBit i
      = P.Prim.flag p terms i :=
    primMask_spec p terms _ hpr rl rg
  have hvs := vcList_agree (p.length + 1) _ _ hm p hpr
  have hvl := vcList_length (p.length + 1)
    (primMask (readsL p (sum.map fun t => idxOf c t.1)) (P.Prim.depsL p)) p
  have hv := vAccL_agree (p.length + 1) _ _ hvs (fun t => idxOf c t.1) sum
    (by intro t ht'; rw [hvl]; have := (hidx t ht').1; omega)
  have hout := outL_eq (p.length + 1) c _ _ hv
  have hprn := prunedL_eq (p.length + 1) c _ _ hm
  have hval : (terms.map fun t => cv t.1 * 2 ^ t.2).sum = valueP sum := by
    unfold valueP
    simp only [terms, List.map_map]
    congr 1
    apply List.map_congr_left
    intro t ht'
    simp only [Function.comp_def, (hidx t ht').2]
  rw [primitivePre_eq sum c p hp]
  simp only [← hlenp]
  rw [hout, hprn]
  have hveq : valueP (P.Prim.outTerms (p.length + 1) cv
      (P.Prim.vTot (P.Prim.vcL (P.Prim.flag p terms) p) terms)) = valueP sum := by
    rw [← hval]; exact m1
  refine ⟨_, _, ?_, hveq, m2, m3, ?_, m4⟩
  · rw [if_pos (by rw [hveq]; simp)]
  · intro x hx
    obtain ⟨i, hi, rfl⟩ := List.mem_map.mp hx
    have hi := (List.mem_filter.mp hi).1
    simp only [List.mem_range] at hi
    have hic : i < c.length := by omega
    show c.getD i 0 ∈ c
    rw [List.getD_eq_getElem?_getD, List.getElem?_eq_getElem hic]
    exact List.getElem_mem hic

end P.DA
