import AC.Hybrid
/-! C15 prototype: guard lemmas — the partial operations of the Go code are never reached with
    bad arguments. Example: `dictsumchain` indexes `sum[len(sum)-1]`, so every decomposition of
    x ≥ 1 must be non-empty. -/
namespace P.Bits

theorem testBit_log2 (x : Nat) (hx : 1 ≤ x) : x.testBit (Nat.log2 x) = true := by
  have hne : x ≠ 0 := by omega
  rw [Nat.testBit_eq_decide_div_mod_eq]
  have h1 := Nat.log2_self_le hne
  have h2 : x < 2 ^ (Nat.log2 x + 1) := Nat.lt_log2_self
  have hpos : 0 < 2 ^ Nat.log2 x := Nat.pow_pos (by omega)
  have hq : x / 2 ^ Nat.log2 x = 1 := by
    apply Nat.div_eq_of_lt_le
    · simpa using h1
    · rw [Nat.pow_succ] at h2; omega
  simp [hq]

theorem sliding_nonempty (x K : Nat) (hx : 1 ≤ x) : sliding x K (Nat.log2 x + 2) (Nat.log2 x + 1) ≠ [] := by
  unfold sliding
  simp [testBit_log2 x hx]

theorem runLen_nonempty (x T : Nat) (hx : 1 ≤ x) : runLen x T (Nat.log2 x + 2) (Nat.log2 x + 1) ≠ [] := by
  unfold runLen
  simp [testBit_log2 x hx]

/-- a decomposition whose terms sum to x ≥ 1 cannot be empty — the generic form of the guard -/
theorem nonempty_of_value (s : List Term) (x : Nat) (hx : 1 ≤ x) (h : value s = x) : s ≠ [] := by
  intro e; subst e; simp [value] at h; omega

theorem hybrid_nonempty (x K T : Nat) (hK : 1 ≤ K) (hx : 1 ≤ x) : hybrid x K T ≠ [] :=
  nonempty_of_value _ x hx (hybrid_spec x K T hK).1

end P.Bits
