import AC.TwoPtr
/-! C02 prototype: model of chain.go validation and its specification. -/
namespace P

abbrev Op := Nat × Nat

/-- `Chain.IsAscending` -/
def isAscending : Chain → Bool
  | [] => false
  | x :: xs => x == 1 && go x xs
where go : Int → List Int → Bool
  | _, [] => true
  | p, y :: ys => p < y && go y ys

/-- quadratic fallback of `Chain.Ops` -/
def quadOps (c : Chain) (k : Nat) : List Op :=
  (List.range k).flatMap fun i =>
    ((List.range k).filter fun j => i ≤ j && at' c i + at' c j == at' c k).map fun j => (i, j)

/-- `Chain.Ops(k)` -/
def ops (c : Chain) (k : Nat) : List Op :=
  if isAscending (c.take k) then twoPtr c (at' c k) 0 k else quadOps c k

/-- the specification: all pairs in lexicographic order -/
def opsSpec (c : Chain) (k : Nat) : List Op := quadOps c k

inductive VErr | empty | notOne | zero | dup | noOp (k : Nat) deriving Repr, DecidableEq

def hasDup : List Int → Bool
  | [] => false
  | x :: xs => xs.contains x || hasDup xs

def collect : List (Option Op) → Nat → Except VErr (List Op)
  | [], _ => .ok []
  | none :: _, k => .error (.noOp k)
  | some o :: r, k => match collect r (k+1) with
    | .ok p => .ok (o :: p)
    | .error e => .error e

def firstOps (c : Chain) : List (Option Op) :=
  (List.range (c.length - 1)).map fun k' => (ops c (k'+1)).head?

/-- `Chain.Program()` -/
def program (c : Chain) : Except VErr (List Op) :=
  if c.isEmpty then .error .empty
  else if at' c 0 != 1 then .error .notOne
  else if c.contains 0 then .error .zero
  else if hasDup c then .error .dup
  else collect (firstOps c) 1

def evaluate (p : List Op) : Chain :=
  p.foldl (fun c o => c ++ [at' c o.1 + at' c o.2]) [1]

/-- the property's definition of an addition chain -/
def IsChain (c : Chain) : Prop :=
  c ≠ [] ∧ at' c 0 = 1 ∧ (0 : Int) ∉ c ∧ c.Nodup ∧
  ∀ k, 0 < k → k < c.length → ∃ i j, i < k ∧ j < k ∧ at' c i + at' c j = at' c k


/-! ### ops: membership characterisation -/
theorem mem_quadOps (c : Chain) (k i j : Nat) :
    (i, j) ∈ quadOps c k ↔ i ≤ j ∧ j < k ∧ at' c i + at' c j = at' c k := by
  unfold quadOps
  simp only [List.mem_flatMap, List.mem_range, List.mem_map, List.mem_filter, Bool.and_eq_true,
    decide_eq_true_eq, beq_iff_eq, Prod.mk.injEq]
  constructor
  · rintro ⟨a, ha, b, ⟨hb, hab, hsum⟩, rfl, rfl⟩
    exact ⟨hab, hb, hsum⟩
  · rintro ⟨h1, h2, h3⟩
    exact ⟨i, by omega, j, ⟨h2, h1, h3⟩, rfl, rfl⟩

theorem isAscending_go_spec : ∀ (xs : List Int) (p : Int), isAscending.go p xs = true →
    ∀ i j, i < j → j < (p :: xs).length → (p :: xs).getD i 0 < (p :: xs).getD j 0 := by
  intro xs
  induction xs with
  | nil => intro p _ i j hij hj; simp at hj; omega
  | cons y ys ih =>
    intro p h i j hij hj
    simp only [isAscending.go, Bool.and_eq_true, decide_eq_true_eq] at h
    have ih' := ih y h.2
    cases i with
    | zero =>
      cases j with
      | zero => omega
      | succ j =>
        simp only [List.getD_cons_zero, List.getD_cons_succ]
        cases j with
        | zero => simpa using h.1
        | succ j =>
          have := ih' 0 (j+1) (by omega) (by simp at hj ⊢; omega)
          simp only [List.getD_cons_zero, List.getD_cons_succ] at this
          have h1 := h.1
          simp only [List.getD_cons_succ]
          omega
    | succ i =>
      cases j with
      | zero => omega
      | succ j =>
        simp only [List.getD_cons_succ]
        exact ih' i j (by omega) (by simp at hj ⊢; omega)

theorem strictAsc_of_isAscending (c : Chain) (k : Nat) (hk : k ≤ c.length)
    (h : isAscending (c.take k) = true) : StrictAsc c k := by
  intro i j hij hjk
  cases hc : c.take k with
  | nil => simp [hc, isAscending] at h
  | cons x xs =>
    rw [hc] at h
    simp only [isAscending, Bool.and_eq_true] at h
    have := isAscending_go_spec xs x h.2 i j hij (by rw [← hc]; simp; omega)
    rw [← hc] at this
    have e1 : (c.take k).getD i 0 = at' c i := by
      simp [at', List.getD, List.getElem?_take, show i < k by omega]
    have e2 : (c.take k).getD j 0 = at' c j := by
      simp [at', List.getD, List.getElem?_take, hjk]
    rw [e1, e2] at this
    exact this

theorem mem_ops (c : Chain) (k i j : Nat) (hk : k < c.length) :
    (i, j) ∈ ops c k ↔ i ≤ j ∧ j < k ∧ at' c i + at' c j = at' c k := by
  unfold ops
  split
  · rename_i hasc
    have hs := strictAsc_of_isAscending c k (by omega) hasc
    rw [twoPtr_mem c (at' c k) k hs ((k + 1 - 0) + k) 0 k (Nat.le_refl _) (Nat.le_refl _)]
    constructor
    · rintro ⟨_, h2, h3, h4⟩; exact ⟨h2, h3, h4⟩
    · rintro ⟨h2, h3, h4⟩; exact ⟨Nat.zero_le _, h2, h3, h4⟩
  · exact mem_quadOps c k i j


/-! ### validation -/
theorem hasDup_false_iff : ∀ (l : List Int), hasDup l = false ↔ l.Nodup := by
  intro l
  induction l with
  | nil => simp [hasDup]
  | cons x xs ih =>
    simp only [hasDup, Bool.or_eq_false_iff, List.nodup_cons, ih]
    constructor
    · rintro ⟨h1, h2⟩; exact ⟨by simpa using h1, h2⟩
    · rintro ⟨h1, h2⟩; exact ⟨by simpa using h1, h2⟩

theorem collect_ok_iff : ∀ (l : List (Option Op)) (k : Nat),
    (∃ p, collect l k = .ok p) ↔ ∀ o ∈ l, o ≠ none := by
  intro l
  induction l with
  | nil => intro k; simp [collect]
  | cons a r ih =>
    intro k
    cases a with
    | none => simp [collect]
    | some o =>
      simp only [collect]
      constructor
      · rintro ⟨p, hp⟩
        intro x hx
        rcases List.mem_cons.mp hx with rfl | hx
        · simp
        · cases hc : collect r (k+1) with
          | ok q => exact (ih (k+1)).1 ⟨q, hc⟩ x hx
          | error e => rw [hc] at hp; cases hp
      · intro h
        obtain ⟨q, hq⟩ := (ih (k+1)).2 (fun x hx => h x (List.mem_cons_of_mem _ hx))
        exact ⟨o :: q, by rw [hq]⟩

theorem collect_get : ∀ (l : List (Option Op)) (k : Nat) (p : List Op), collect l k = .ok p →
    l = p.map some := by
  intro l
  induction l with
  | nil => intro k p h; simp [collect] at h; cases h; rfl
  | cons a r ih =>
    intro k p h
    cases a with
    | none => simp [collect] at h
    | some o =>
      simp only [collect] at h
      cases hc : collect r (k+1) with
      | ok q => rw [hc] at h; cases h; simp [ih (k+1) q hc]
      | error e => rw [hc] at h; cases h

theorem validate_iff (c : Chain) : (∃ p, program c = .ok p) ↔ IsChain c := by
  unfold program IsChain
  constructor
  · rintro ⟨p, hp⟩
    split at hp; · cases hp
    rename_i hne
    split at hp; · cases hp
    rename_i hone
    split at hp; · cases hp
    rename_i hzero
    split at hp; · cases hp
    rename_i hdup
    refine ⟨by intro h; simp [h] at hne, by simpa using hone, by simpa using hzero,
      (hasDup_false_iff c).1 (by simpa using hdup), ?_⟩
    intro k hk0 hkl
    have hall := (collect_ok_iff (firstOps c) 1).1 ⟨p, hp⟩
    have hmem : (ops c k).head? ∈ firstOps c := by
      unfold firstOps
      apply List.mem_map.mpr
      exact ⟨k - 1, by simp; omega, by rw [show k - 1 + 1 = k by omega]⟩
    have hsome := hall _ hmem
    cases hh : (ops c k).head? with
    | none => exact absurd hh hsome
    | some o =>
      obtain ⟨i, j⟩ := o
      have : (i, j) ∈ ops c k := List.mem_of_mem_head? hh
      have := (mem_ops c k i j hkl).1 this
      exact ⟨i, j, by omega, this.2.1, this.2.2⟩
  · rintro ⟨hne, hone, hzero, hnd, hops⟩
    have h1 : c.isEmpty = false := by cases c <;> simp_all
    have h2 : (at' c 0 != 1) = false := by simp [hone]
    have h3 : c.contains 0 = false := by simpa using hzero
    have h4 : hasDup c = false := (hasDup_false_iff c).2 hnd
    simp only [h1, h2, h3, h4, Bool.false_eq_true, if_false]
    apply (collect_ok_iff _ 1).2
    intro o ho
    unfold firstOps at ho
    obtain ⟨k', hk', rfl⟩ := List.mem_map.mp ho
    simp at hk'
    obtain ⟨i, j, hi, hj, hsum⟩ := hops (k'+1) (by omega) (by omega)
    have : (min i j, max i j) ∈ ops c (k'+1) := by
      apply (mem_ops c (k'+1) _ _ (by omega)).2
      refine ⟨by omega, by omega, ?_⟩
      rcases Nat.le_total i j with h | h
      · rw [Nat.min_eq_left h, Nat.max_eq_right h]; exact hsum
      · rw [Nat.min_eq_right h, Nat.max_eq_left h]; omega
    intro hnone
    rw [List.head?_eq_none_iff] at hnone
    rw [hnone] at this
    cases this


/-! ### evaluate ∘ program = id -/
theorem evaluate_append (p : List Op) (o : Op) :
    evaluate (p ++ [o]) = evaluate p ++ [at' (evaluate p) o.1 + at' (evaluate p) o.2] := by
  simp [evaluate, List.foldl_append]

theorem at'_take (c : Chain) (n i : Nat) (h : i < n) : at' (c.take n) i = at' c i := by
  simp [at', List.getD, List.getElem?_take, h]

theorem take_succ_eq (c : Chain) (n : Nat) (h : n < c.length) : c.take (n+1) = c.take n ++ [at' c n] := by
  rw [List.take_succ]
  simp [at', List.getD, List.getElem?_eq_getElem h]

theorem program_evaluate (c : Chain) (p : List Op) (h : program c = .ok p) : evaluate p = c := by
  have hchain : IsChain c := (validate_iff c).1 ⟨p, h⟩
  unfold program at h
  split at h; · cases h
  split at h; · cases h
  split at h; · cases h
  split at h; · cases h
  have hget := collect_get _ _ _ h
  have hlen : p.length = c.length - 1 := by
    have := congrArg List.length hget
    simp [firstOps] at this; omega
  have hpk : ∀ k', k' < p.length → p[k']? = (ops c (k'+1)).head? := by
    intro k' hk'
    have := congrArg (fun l => l[k']?) hget
    simp only [firstOps, List.getElem?_map, List.getElem?_range (show k' < c.length - 1 by omega),
      Option.map_some] at this
    rw [List.getElem?_eq_getElem hk'] at this ⊢
    simpa using this.symm
  have hcne : c ≠ [] := hchain.1
  have hclen : 0 < c.length := List.length_pos_iff.mpr hcne
  -- main induction
  have key : ∀ m, m ≤ p.length → evaluate (p.take m) = c.take (m+1) := by
    intro m
    induction m with
    | zero =>
      intro _
      have h0 : at' c 0 = 1 := hchain.2.1
      cases c with
      | nil => exact absurd rfl hcne
      | cons x xs => simp [evaluate, at', List.getD] at h0 ⊢; exact h0.symm
    | succ m ih =>
      intro hm
      have hml : m < p.length := by omega
      rw [List.take_succ, List.getElem?_eq_getElem hml]
      simp only [Option.toList_some]
      rw [evaluate_append, ih (by omega)]
      have hop := hpk m hml
      rw [List.getElem?_eq_getElem hml] at hop
      have hmem : p[m] ∈ ops c (m+1) := List.mem_of_mem_head? hop.symm
      generalize p[m] = o at hmem ⊢
      obtain ⟨i, j⟩ := o
      have := (mem_ops c (m+1) i j (by omega)).1 hmem
      simp only []
      rw [at'_take c (m+1) i (by omega), at'_take c (m+1) j (by omega), this.2.2]
      exact (take_succ_eq c (m+1) (by omega)).symm
  have := key p.length (Nat.le_refl _)
  rw [List.take_length] at this
  rw [this, hlen, List.take_of_length_le (by omega)]

end P
