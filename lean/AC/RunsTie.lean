import AC.ChainTie
import AC.RunsX
/-! # The translated `dict.RunsChain` equals the model `P.runsChainX` (C11 translator tie)

`dictRunsChain` of `AC/Gen/ProgramFns.lean` is regenerated from alg/dict/runs.go on every run. The Go
function calls `Chain.Program` (tied by `program_tie`), keeps the largest shift per run length in a
`map[uint]uint` (a function `Nat → Nat` in the translation) and extends the chain in a loop
`for ; s[lb] < la; s[lb]++`. -/
namespace AC.RunsTie
open AC.Gen.Program AC.GoPrim AC.BigPrim AC.ProgramTie AC.ChainTie P

theorem program_ops_lt (c : Chain) (p : List Op) (h : program c = .ok p) :
    ∀ o ∈ p, o.1 < c.length ∧ o.2 < c.length := by
  unfold program at h
  split at h; · cases h
  split at h; · cases h
  split at h; · cases h
  split at h; · cases h
  have hg := collect_get _ _ _ h
  intro o ho
  have : some o ∈ firstOps c := by rw [hg]; exact List.mem_map_of_mem ho
  unfold firstOps at this
  simp only [List.mem_map, List.mem_range] at this
  obtain ⟨k', hk', hhead⟩ := this
  have hmem : o ∈ ops c (k' + 1) := List.mem_of_mem_head? hhead
  have := (mem_ops c (k' + 1) o.1 o.2 (by omega)).1 hmem
  omega

theorem ones_eq (n : Nat) : AC.Gen.Bigint.ones n = onesI n := by
  rw [AC.BigintTie.ones_eq]; unfold onesI P.HX.maskI
  simp

/-- the inner loop `for ; s[lb] < la; s[lb]++` -/
theorem extend_loop_tie (rb : Int) (lb : Nat) : ∀ (m : Nat) (c : List Int) (s : Nat → Nat)
    (lc : List Int) (p : List GOp) (err : Option GoErr) (op : GOp) (a b : Int) (la : Nat),
    dictRunsChain_loop2 m lc p err c s op a b la lb rb =
      some (extend rb m (s lb) c, fun x => if x == lb then s lb + m else s x) := by
  intro m
  induction m with
  | zero =>
    intro c s lc p err op a b la
    have : s = fun x => if x == lb then s lb + 0 else s x := by
      funext x; by_cases hx : x = lb
      · subst hx; simp
      · have : (x == lb) = false := by simp [hx]
        simp [this]
    simp only [dictRunsChain_loop2, extend]
    rw [← this]; rfl
  | succ m ih =>
    intro c s lc p err op a b la
    simp only [dictRunsChain_loop2, extend, bLsh]
    rw [ih]
    congr 2
    · simp
    · funext x
      by_cases hx : x = lb
      · subst hx; simp; omega
      · have : (x == lb) = false := by simp [hx]
        simp [this]

def okb (lc : Chain) (o : Op) : Bool := isUint64 (at' lc o.1) && isUint64 (at' lc o.2)

def tooLarge : Option GoErr := some ("values in lengths chain are far too large", [])

theorem minMax_pair (x y : Int) : AC.Gen.Bigint.minMax x y = (min x y, max x y) := by
  have h := AC.BigintTie.minMax_eq x y
  have h2 := P.HX.minMax_spec x y
  rw [h]
  exact Prod.ext h2.1 h2.2

theorem isU_eq (x : Int) : bIsUint64 x = isUint64 x := by
  unfold bIsUint64 isUint64; rfl

theorem isU_minmax (x y : Int) : (isUint64 (min x y) && isUint64 (max x y)) = (isUint64 x && isUint64 y) := by
  by_cases h : x ≤ y
  · rw [Int.min_eq_left h, Int.max_eq_right h]
  · have h' : y ≤ x := by omega
    rw [Int.min_eq_right h', Int.max_eq_left h', Bool.and_comm]

theorem goUint64_ok (x : Int) (h : isUint64 x = true) : goUint64 x = some x.toNat := by
  unfold isUint64 at h
  simp only [Bool.and_eq_true, decide_eq_true_eq] at h
  unfold goUint64
  rw [if_pos h]

theorem outer_loop_tie (lc : Chain) (P0 : List GOp) (err : Option GoErr) : ∀ (q : List Op) (c : List Int) (s : Nat → Nat),
    (∀ o ∈ q, o.1 < lc.length ∧ o.2 < lc.length) →
    dictRunsChain_loop1 (toGs q) lc P0 err c s =
      some (if q.all (okb lc) then ((q.foldl (runsStep lc) ⟨c, s⟩).c, none) else ([], tooLarge)) := by
  intro q
  induction q with
  | nil => intro c s _; simp [dictRunsChain_loop1, goNil]
  | cons o q ih =>
    intro c s hr
    have ho := hr o (by simp)
    have e1 : idx lc ((toG o).I) = some (at' lc o.1) := by simpa [toG] using idx_at' lc o.1 ho.1
    have e2 : idx lc ((toG o).J) = some (at' lc o.2) := by simpa [toG] using idx_at' lc o.2 ho.2
    simp only [toGs_cons, dictRunsChain_loop1, e1, e2, bind, Option.bind, minMax_pair, isU_eq, List.all_cons,
      List.foldl_cons]
    by_cases hok : okb lc o = true
    · have hmm : (isUint64 (min (at' lc o.1) (at' lc o.2)) && isUint64 (max (at' lc o.1) (at' lc o.2))) = true := by
        rw [isU_minmax]; exact hok
      simp only [Bool.and_eq_true] at hmm
      have hcond : ((!isUint64 (min (at' lc o.1) (at' lc o.2))) || (!isUint64 (max (at' lc o.1) (at' lc o.2)))) = false := by
        simp [hmm.1, hmm.2]
      simp only [hcond, Bool.false_eq_true, if_false, goUint64_ok _ hmm.1, goUint64_ok _ hmm.2,
        extend_loop_tie, hok, Bool.true_and, ones_eq]
      have hs : (fun x => if x == (max (at' lc o.1) (at' lc o.2)).toNat then
            s (max (at' lc o.1) (at' lc o.2)).toNat +
              ((min (at' lc o.1) (at' lc o.2)).toNat - s (max (at' lc o.1) (at' lc o.2)).toNat) else s x) =
          (fun l => if l = (max (at' lc o.1) (at' lc o.2)).toNat then
            max (s (max (at' lc o.1) (at' lc o.2)).toNat) (min (at' lc o.1) (at' lc o.2)).toNat else s l) := by
        funext x
        by_cases hx : x = (max (at' lc o.1) (at' lc o.2)).toNat
        · simp [hx]; omega
        · have : (x == (max (at' lc o.1) (at' lc o.2)).toNat) = false := by simp [hx]
          simp [this, hx]
      rw [hs]
      exact ih _ _ (fun o' ho' => hr o' (by simp [ho']))
    · have hokf : okb lc o = false := by simpa using hok
      have hmm : (isUint64 (min (at' lc o.1) (at' lc o.2)) && isUint64 (max (at' lc o.1) (at' lc o.2))) = false := by
        rw [isU_minmax]; exact hokf
      have hcond : ((!isUint64 (min (at' lc o.1) (at' lc o.2))) || (!isUint64 (max (at' lc o.1) (at' lc o.2)))) = true := by
        cases h1 : isUint64 (min (at' lc o.1) (at' lc o.2)) <;> cases h2 : isUint64 (max (at' lc o.1) (at' lc o.2)) <;>
          simp [h1, h2] at hmm ⊢
      simp [hcond, hokf, goErr, tooLarge]

/-- **`dict.RunsChain` as translated from runs.go equals the model**: it never panics; for a lengths chain
    that is not an addition chain it returns the validation error and a nil chain, for one with a value
    outside a machine word the "far too large" error, and otherwise the model's chain of runs -/
theorem runsChain_tie (lc : Chain) : ∃ r, dictRunsChain lc = some r ∧
    (match runsChainX lc with
     | .ok c => r = (c, none)
     | .error .invalid => r.1 = [] ∧ r.2.isSome = true
     | .error .tooLarge => r = ([], tooLarge)) := by
  obtain ⟨r0, hr0, hm⟩ := program_tie lc
  unfold dictRunsChain runsChainX
  simp only [hr0, bind, Option.bind]
  cases hp : program lc with
  | error e =>
    rw [hp] at hm
    obtain ⟨h1, args, h2⟩ := hm
    refine ⟨([], r0.2), ?_, ?_⟩
    · simp [h2]
    · simp [h2]
  | ok p =>
    rw [hp] at hm
    have hr := program_ops_lt lc p hp
    have hloop := outer_loop_tie lc (toGs p) none p [1] (fun _ => 0) hr
    have hnew : fnNew = some [1] := by simp [fnNew, bNewInt]
    subst hm
    simp only [Option.isSome_none, Bool.false_eq_true, if_false, hnew, hloop]
    by_cases hall : p.all (okb lc) = true
    · have hall' : p.all (fun o => isUint64 (at' lc o.1) && isUint64 (at' lc o.2)) = true := hall
      refine ⟨((p.foldl (runsStep lc) ⟨[1], fun _ => 0⟩).c, none), by simp [hall], ?_⟩
      simp only [hall', if_true]
      rfl
    · have hall' : p.all (fun o => isUint64 (at' lc o.1) && isUint64 (at' lc o.2)) = false := by
        simpa [okb] using hall
      refine ⟨([], tooLarge), by simp [hall], ?_⟩
      simp only [hall', Bool.false_eq_true, if_false]

end AC.RunsTie
