import AC.SeqAlg
/-! The chain returned by a sequence algorithm is ascending and ends at its largest target
    (needed by the chain algorithms: `Execute` compares the end with the target). -/
namespace P

theorem mem_dropLast_of (l : List Int) (x : Int) (h : x ∈ l.dropLast) : x ∈ l :=
  List.dropLast_subset l h

/-- everything the Bos–Coster loop ever holds stays below the initial bound -/
theorem loop_bound (sg : Suggest) (hs : Sound sg) (T : List Int) (M : Int) :
    ∀ (fuel : Nat) (proto c r : List Int), LoopInv T proto c → (∀ x ∈ proto, x ≤ M) → (∀ x ∈ c, x ≤ M) →
      loop sg fuel proto c = some r → ∀ x ∈ r, x ≤ M := by
  intro fuel
  induction fuel with
  | zero => intro proto c r _ _ _ h; simp [loop] at h
  | succ fuel ih =>
    intro proto c r hI hp hc h
    rw [loop] at h
    split at h
    · cases h; exact hc
    · rename_i hlen
      simp only [] at h
      split at h
      · cases h
      · rename_i ins hsg
        have hne : proto ≠ [] := by intro e; simp [e] at hlen
        have hpo := protoOK_of_inv T proto c hI (by omega)
        obtain ⟨_, hins, _⟩ := hs _ _ ins hpo hsg
        have htM : proto.getLastD 0 ≤ M := hp _ (getLastD_mem proto hne)
        apply ih _ _ r (loop_step_inv sg hs T proto c ins hI (by omega) hsg) _ _ h
        · intro x hx
          rcases (mem_mergeUnique _ _ _).1 hx with hx | hx
          · exact hp x (mem_dropLast_of _ _ hx)
          · have := (hins x hx).2; omega
        · intro x hx
          unfold insertSortedUnique at hx
          rcases (mem_mergeUnique _ _ _).1 hx with hx | hx
          · have := List.mem_singleton.1 hx; omega
          · exact hc x hx

/-- heuristics: every element of the result is at most the largest of `1, 2` and the targets -/
theorem findSequence_bound (sg : Suggest) (hs : Sound sg) (fuel : Nat) (T c : List Int) (M : Int)
    (hT : ∀ x ∈ T, 1 ≤ x) (hM : ∀ x ∈ T, x ≤ M) (hM2 : 2 ≤ M ∨ T = [1])
    (h : findSequence sg fuel T = some c) : ∀ x ∈ c, x ≤ M := by
  unfold findSequence at h
  split at h
  · rename_i hT1
    cases h
    intro x hx
    simp at hx; subst hx
    exact hM 1 (by rw [hT1]; simp)
  · rename_i hT1
    have hM2' : 2 ≤ M := by
      rcases hM2 with h2 | h2
      · exact h2
      · exact absurd h2 hT1
    cases hl : loop sg fuel (sortUniq ([1, 2] ++ T)) [] with
    | none => rw [hl] at h; cases h
    | some r =>
      rw [hl] at h; simp at h; subst h
      have hI0 : LoopInv T (sortUniq ([1, 2] ++ T)) [] := by
        refine ⟨pairwise_sortUniq _, ?_, ?_, ?_, by simp, by simp, by simp, ?_⟩
        · intro x hx
          rw [mem_sortUniq] at hx
          simp at hx
          rcases hx with rfl | rfl | hx
          · omega
          · omega
          · exact hT x hx
        · rw [mem_sortUniq]; simp
        · rw [mem_sortUniq]; simp
        · intro x hx; left; rw [mem_sortUniq]; simp [hx]
      have hb := loop_bound sg hs T M fuel _ [] r hI0 (by
        intro x hx
        rw [mem_sortUniq] at hx
        simp at hx
        rcases hx with rfl | rfl | hx
        · omega
        · omega
        · exact hM x hx) (by simp) hl
      intro x hx
      rcases (mem_mergeUnique _ _ _).1 hx with hx | hx
      · simp at hx; omega
      · exact hb x hx

/-- an addition chain all of whose elements are `≤ n` and which contains `n` — once sorted ascending
    it ends at `n`; chains returned by the sequence algorithms are ascending already -/
theorem last_of_bound (c : List Int) (n : Int) (hasc : c.Pairwise (· < ·)) (hn : n ∈ c) (hle : ∀ x ∈ c, x ≤ n) :
    c.getLast? = some n := by
  induction c with
  | nil => cases hn
  | cons a r ih =>
    rw [List.pairwise_cons] at hasc
    cases r with
    | nil => simp at hn; subst hn; rfl
    | cons b r' =>
      rw [List.getLast?_cons_cons]
      apply ih hasc.2
      · rcases List.mem_cons.1 hn with rfl | h
        · have := hasc.1 b (by simp)
          have := hle b (by simp)
          omega
        · exact h
      · intro x hx; exact hle x (List.mem_cons_of_mem _ hx)

end P

namespace P

/-- heuristics: the result is strictly ascending -/
theorem findSequence_asc (sg : Suggest) (hs : Sound sg) (fuel : Nat) (T c : List Int)
    (hT : ∀ x ∈ T, 1 ≤ x) (h : findSequence sg fuel T = some c) : c.Pairwise (· < ·) := by
  unfold findSequence at h
  split at h
  · cases h; simp
  · cases hl : loop sg fuel (sortUniq ([1, 2] ++ T)) [] with
    | none => rw [hl] at h; cases h
    | some r =>
      rw [hl] at h; simp at h; subst h
      have hI0 : LoopInv T (sortUniq ([1, 2] ++ T)) [] := by
        refine ⟨pairwise_sortUniq _, ?_, ?_, ?_, by simp, by simp, by simp, ?_⟩
        · intro x hx
          rw [mem_sortUniq] at hx
          simp at hx
          rcases hx with rfl | rfl | hx
          · omega
          · omega
          · exact hT x hx
        · rw [mem_sortUniq]; simp
        · rw [mem_sortUniq]; simp
        · intro x hx; left; rw [mem_sortUniq]; simp [hx]
      obtain ⟨p', hI, _⟩ := loop_inv sg hs T fuel _ _ r hI0 hl
      exact pairwise_mergeUnique _ _ (by simp) hI.casc

/-- a total heuristic composition used as a chain algorithm: succeeds with an ascending valid
    chain ending at the target -/
theorem heuristic_asChain (h : Heur) (ht : h.isTotal = true) (n : Nat) (hn : 1 ≤ n) :
    ∃ c, (SeqAlg.heuristic h).find [(n : Int)] = some c ∧ IsChain c ∧ c.getLast? = some (n : Int) := by
  have hT : ∀ x ∈ [(n : Int)], 1 ≤ x := by intro x hx; simp at hx; omega
  obtain ⟨c, h1, h2, h3⟩ := findSequence_total h.suggest h.sound (h.total ht) [(n : Int)] hT _ (Nat.le_refl _)
  refine ⟨c, h1, h2, ?_⟩
  have hasc := findSequence_asc h.suggest h.sound _ _ c hT h1
  have hb := findSequence_bound h.suggest h.sound _ [(n : Int)] c (n : Int) hT
    (by intro x hx; simp at hx; omega)
    (by
      by_cases h1 : n = 1
      · right; subst h1; rfl
      · left; omega) h1
  exact last_of_bound c n hasc (h3 _ (by simp)) hb

end P
