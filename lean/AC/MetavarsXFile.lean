import AC.MetavarsXQuote
/-! # C20 proofs, part 2: `readModel (writeModel f) = f`, and the ordered-map laws -/
namespace P.MetaX

theorem stripPrefix_append (p l : List Nat) : stripPrefix p (p ++ l) = some l := by
  induction p with
  | nil => cases l <;> rfl
  | cons a p ih => simp [stripPrefix, ih]

theorem takeWhile_append_stop (p : Nat → Bool) (a : List Nat) (c : Nat) (b : List Nat)
    (ha : ∀ x ∈ a, p x = true) (hc : p c = false) : (a ++ c :: b).takeWhile p = a := by
  induction a with
  | nil => simp [hc]
  | cons x a ih =>
    have hx := ha x (List.mem_cons_self)
    simp only [List.cons_append, List.takeWhile, hx]
    rw [ih (fun y hy => ha y (List.mem_cons_of_mem _ hy))]

theorem dropWhile_append_stop (p : Nat → Bool) (a : List Nat) (c : Nat) (b : List Nat)
    (ha : ∀ x ∈ a, p x = true) (hc : p c = false) : (a ++ c :: b).dropWhile p = c :: b := by
  induction a with
  | nil => simp [hc]
  | cons x a ih =>
    have hx := ha x (List.mem_cons_self)
    simp only [List.cons_append, List.dropWhile, hx]
    exact ih (fun y hy => ha y (List.mem_cons_of_mem _ hy))

/-- shape conditions under which the model reads back what it wrote (weaker than `wfProp`) -/
structure ShapeProp (p : BProp) : Prop where
  name_ne : p.name ≠ []
  name_chars : ∀ x ∈ p.name, isIdChar x = true
  doc_nl : ∀ x ∈ p.doc, x ≠ 10
  value_bytes : ∀ b ∈ p.value, b < 256

theorem writeSpec_head (isPrint : Nat → Bool) (w : Nat) (p : BProp) : ∃ r, writeSpec isPrint w p = 9 :: r := by
  unfold writeSpec
  by_cases h : p.doc = []
  · rw [if_pos h]; exact ⟨_, rfl⟩
  · rw [if_neg h]; exact ⟨_, rfl⟩

theorem isIdChar_ne_slash (x : Nat) (h : isIdChar x = true) : x ≠ 47 := by
  intro e; subst e; revert h; decide

theorem readDoc_write (p : BProp) (hp : ShapeProp p) (rest : List Nat) :
    readDoc ((if p.doc = [] then [] else [9, 47, 47, 32] ++ p.doc ++ [10]) ++ (9 :: (p.name ++ rest)))
      = some (p.doc, 9 :: (p.name ++ rest)) := by
  by_cases h : p.doc = []
  · rw [if_pos h, h]
    cases hn : p.name with
    | nil => exact absurd hn hp.name_ne
    | cons c nt =>
      have hc : c ≠ 47 := isIdChar_ne_slash c (hp.name_chars c (by rw [hn]; exact List.mem_cons_self))
      have : ¬ (47 = c) := fun e => hc e.symm
      simp [readDoc, stripPrefix, this]
  · rw [if_neg h]
    have e : [9, 47, 47, 32] ++ p.doc ++ [10] ++ 9 :: (p.name ++ rest)
        = [9, 47, 47, 32] ++ (p.doc ++ 10 :: 9 :: (p.name ++ rest)) := by simp
    have hall : ∀ x ∈ p.doc, (x != 10) = true := fun x hx => by simpa using hp.doc_nl x hx
    rw [e]
    unfold readDoc
    rw [stripPrefix_append]
    simp only
    rw [dropWhile_append_stop (· != 10) p.doc 10 _ hall (by decide),
        takeWhile_append_stop (· != 10) p.doc 10 _ hall (by decide)]

theorem dropWhile_replicate (k : Nat) (c : Nat) (b : List Nat) (hc : c ≠ 32) :
    (List.replicate k 32 ++ c :: b).dropWhile (· == 32) = c :: b := by
  apply dropWhile_append_stop
  · intro x hx; simp [List.eq_of_mem_replicate hx]
  · simpa using hc

theorem readSpec_writeSpec (isPrint : Nat → Bool) (w : Nat) (p : BProp) (hp : ShapeProp p) (t : List Nat) :
    readSpec (writeSpec isPrint w p ++ t) = some (p, t) := by
  unfold writeSpec
  generalize hk : w + 1 - runeCount p.name = k
  -- the text after the name
  have tail_eq : ∀ k, ∃ c b, c ≠ 47 ∧ isIdChar c = false ∧
      List.replicate k 32 ++ ([61, 32] ++ (quote isPrint p.value ++ [10])) ++ t = c :: b := by
    intro k
    cases k with
    | zero => exact ⟨61, _, by decide, by decide, rfl⟩
    | succ k => exact ⟨32, List.replicate k 32 ++ ([61, 32] ++ (quote isPrint p.value ++ [10])) ++ t, by decide, by decide,
        by simp [List.replicate_succ]⟩
  obtain ⟨c, b, _, hc, htail⟩ := tail_eq k
  have e1 : (if p.doc = [] then [] else [9, 47, 47, 32] ++ p.doc ++ [10]) ++
      9 :: (p.name ++ (List.replicate k 32 ++ ([61, 32] ++ (quote isPrint p.value ++ [10])))) ++ t
      = (if p.doc = [] then [] else [9, 47, 47, 32] ++ p.doc ++ [10]) ++
        (9 :: (p.name ++ (List.replicate k 32 ++ ([61, 32] ++ (quote isPrint p.value ++ [10])) ++ t))) := by
    simp
  rw [e1]
  unfold readSpec
  rw [readDoc_write p hp]
  simp only [if_true]
  rw [htail, takeWhile_append_stop isIdChar p.name c b hp.name_chars hc,
    dropWhile_append_stop isIdChar p.name c b hp.name_chars hc, ← htail]
  rw [if_neg hp.name_ne]
  have e2 : List.replicate k 32 ++ ([61, 32] ++ (quote isPrint p.value ++ [10])) ++ t
      = List.replicate k 32 ++ 61 :: ([32, 34] ++ (bodyF isPrint p.value.length p.value ++ 0x22 :: 10 :: t)) := by
    simp [quote]
  rw [e2, dropWhile_replicate k 61 _ (by decide)]
  have e3 : (61 :: ([32, 34] ++ (bodyF isPrint p.value.length p.value ++ 0x22 :: 10 :: t)))
      = [61, 32, 34] ++ (bodyF isPrint p.value.length p.value ++ 0x22 :: 10 :: t) := rfl
  rw [e3, stripPrefix_append]
  simp only
  rw [unqR_bodyF isPrint p.value.length p.value (Nat.le_refl _) hp.value_bytes _ (10 :: t) (by simp)]
  cases p; simp

theorem writeSpecs_cons (isPrint : Nat → Bool) (wp : Nat × BProp) (l : List (Nat × BProp)) :
    writeSpecs isPrint (wp :: l) = writeSpec isPrint wp.1 wp.2 ++ writeSpecs isPrint l := by
  simp [writeSpecs]

theorem writeSpecs_length (isPrint : Nat → Bool) (l : List (Nat × BProp)) : l.length ≤ (writeSpecs isPrint l).length := by
  induction l with
  | nil => simp
  | cons wp l ih =>
    rw [writeSpecs_cons]
    obtain ⟨r, hr⟩ := writeSpec_head isPrint wp.1 wp.2
    rw [hr]; simp; omega

theorem readSpecs_writeSpecs (isPrint : Nat → Bool) : ∀ (l : List (Nat × BProp)), (∀ wp ∈ l, ShapeProp wp.2) →
    ∀ m, l.length < m → readSpecs m (writeSpecs isPrint l ++ [41, 10]) = some (l.map (·.2)) := by
  intro l
  induction l with
  | nil =>
    intro _ m hm
    cases m with
    | zero => omega
    | succ m => simp [writeSpecs, readSpecs]
  | cons wp l ih =>
    intro h m hm
    cases m with
    | zero => omega
    | succ m =>
      rw [writeSpecs_cons, List.append_assoc]
      obtain ⟨r, hr⟩ := writeSpec_head isPrint wp.1 wp.2
      have hne : writeSpec isPrint wp.1 wp.2 ++ (writeSpecs isPrint l ++ [41, 10]) ≠ [41, 10] := by
        rw [hr]; simp
      unfold readSpecs
      rw [if_neg hne, readSpec_writeSpec isPrint wp.1 wp.2 (h wp List.mem_cons_self)]
      simp only
      rw [ih (fun x hx => h x (List.mem_cons_of_mem _ hx)) m (by simpa using hm)]
      simp

theorem sections_flatten : ∀ l : List BProp, (sections l).flatten = l := by
  intro l
  induction l with
  | nil => rfl
  | cons p rest ih =>
    unfold sections
    cases hs : sections rest with
    | nil => rw [hs] at ih; simp at ih; simp [ih]
    | cons s ss =>
      rw [hs] at ih
      cases s with
      | nil => simp at ih ⊢; exact ih
      | cons q s' =>
        simp only
        by_cases hq : q.doc = []
        · rw [if_pos hq]; simp at ih ⊢; exact ih
        · rw [if_neg hq]; simp at ih ⊢; exact ih

theorem annot_snd (l : List BProp) : (annot l).map (·.2) = l := by
  have : ∀ ss : List (List BProp),
      (ss.flatMap fun s => s.map fun p => (secWidth s, p)).map (·.2) = ss.flatten := by
    intro ss
    induction ss with
    | nil => rfl
    | cons s ss ih =>
      simp only [List.flatMap_cons, List.map_append, ih, List.flatten_cons, List.map_map]
      congr 1
      induction s with
      | nil => rfl
      | cons a s _ => simp [Function.comp_def]
  unfold annot
  rw [this, sections_flatten]

structure ShapeFile (f : BFile) : Prop where
  pkg_ne : f.pkg ≠ []
  pkg_chars : ∀ x ∈ f.pkg, isIdChar x = true
  props : ∀ p ∈ f.props, ShapeProp p

theorem readModel_writeModel (isPrint : Nat → Bool) (f : BFile) (hf : ShapeFile f) :
    readModel (writeModel isPrint f) = some f := by
  obtain ⟨pkg, props⟩ := f
  have h1 := hf.pkg_ne
  have h2 := hf.pkg_chars
  have h3 := hf.props
  simp only at h1 h2 h3
  unfold writeModel readModel
  rw [stripPrefix_append]
  simp only
  have hk : ∀ X : List Nat, kwVar ++ X = 10 :: ([10, 118, 97, 114, 32, 40] ++ X) := fun X => rfl
  rw [hk, takeWhile_append_stop isIdChar pkg 10 _ h2 (by decide),
    dropWhile_append_stop isIdChar pkg 10 _ h2 (by decide), if_neg h1, ← hk, stripPrefix_append]
  simp only
  by_cases hp : props = []
  · subst hp; simp
  · rw [if_neg hp]
    have hne : (10 :: (writeSpecs isPrint (annot props) ++ [41, 10])) ≠ [41, 10] := by simp
    rw [if_neg hne]
    simp only [if_true]
    have hshape : ∀ wp ∈ annot props, ShapeProp wp.2 := by
      intro wp hwp
      apply h3
      have : wp.2 ∈ (annot props).map (·.2) := List.mem_map_of_mem hwp
      rwa [annot_snd] at this
    rw [readSpecs_writeSpecs isPrint (annot props) hshape _
      (by have := writeSpecs_length isPrint (annot props); simp; omega), annot_snd]


/-! ### the property's domain implies the shape conditions -/

theorem isIdChar_of_A (x : Nat) (h : isIdCharA x = true) : isIdChar x = true := by
  simp only [isIdCharA, isIdStartA, isIdChar, isIdStart, Bool.or_eq_true, Bool.and_eq_true, decide_eq_true_eq,
    beq_iff_eq] at h ⊢
  omega

theorem isIdChar_of_startA (x : Nat) (h : isIdStartA x = true) : isIdChar x = true :=
  isIdChar_of_A x (by simp only [isIdCharA, h, Bool.true_or])

theorem isName_shape (l : List Nat) (h : isName l = true) : l ≠ [] ∧ ∀ x ∈ l, isIdChar x = true := by
  unfold isName at h
  simp only [Bool.and_eq_true] at h
  cases l with
  | nil => simp [isIdent] at h
  | cons c t =>
    refine ⟨by simp, ?_⟩
    have hi := h.1
    simp only [isIdent, Bool.and_eq_true, List.all_eq_true] at hi
    intro x hx
    rcases List.mem_cons.1 hx with rfl | hx
    · exact isIdChar_of_startA _ hi.1
    · exact isIdChar_of_A _ (hi.2 x hx)

theorem wfProp_shape (p : BProp) (h : wfProp p = true) : ShapeProp p := by
  unfold wfProp at h
  simp only [Bool.and_eq_true] at h
  obtain ⟨⟨hn, hd⟩, hv⟩ := h
  have hn' := isName_shape _ hn
  refine ⟨hn'.1, hn'.2, ?_, ?_⟩
  · intro x hx
    unfold isDoc at hd
    simp only [Bool.and_eq_true, List.all_eq_true, decide_eq_true_eq] at hd
    have := hd.1.1 x hx
    omega
  · intro b hb
    simpa using (List.all_eq_true.1 hv) b hb

theorem wfFile_shape (f : BFile) (h : WFFile f) : ShapeFile f := by
  unfold WFFile wfFile at h
  simp only [Bool.and_eq_true, List.all_eq_true] at h
  have hn := isName_shape _ h.1
  exact ⟨hn.1, hn.2, fun p hp => wfProp_shape p (h.2 p hp)⟩

/-! ### ordered-map laws of Get / Add / Set -/

theorem add_existing (f : List BProp) (p : BProp) (h : get f p.name ≠ none) : ∃ e, add f p = .error e := by
  unfold add get at *
  cases hf : f.find? (·.name == p.name) with
  | none => rw [hf] at h; simp at h
  | some q => exact ⟨_, rfl⟩

theorem add_new (f : List BProp) (p : BProp) (h : get f p.name = none) : add f p = .ok (f ++ [p]) := by
  unfold add get at *
  cases hf : f.find? (·.name == p.name) with
  | none => rfl
  | some q => rw [hf] at h; simp at h

theorem get_add_same (f : List BProp) (p : BProp) (h : get f p.name = none) :
    get (f ++ [p]) p.name = some p.value := by
  unfold get at *
  rw [List.find?_append]
  cases hf : f.find? (·.name == p.name) with
  | none => simp
  | some q => rw [hf] at h; simp at h

theorem get_add_other (f : List BProp) (p : BProp) (n : List Nat) (hn : n ≠ p.name) :
    get (f ++ [p]) n = get f n := by
  unfold get
  rw [List.find?_append]
  cases hf : f.find? (·.name == n) with
  | some q => simp
  | none =>
    have : (p.name == n) = false := by simpa using fun e => hn e.symm
    simp [List.find?, this]

theorem set_unknown : ∀ (f : List BProp) (n v : List Nat), get f n = none → set f n v = none := by
  intro f
  induction f with
  | nil => intro n v _; rfl
  | cons p r ih =>
    intro n v h
    unfold get at h
    simp only [List.find?_cons] at h
    by_cases hp : p.name = n
    · simp [hp] at h
    · have : (p.name == n) = false := by simpa using hp
      simp only [this] at h
      simp only [set, hp, if_false]
      rw [ih n v (by unfold get; exact h)]; rfl

theorem set_known : ∀ (f : List BProp) (n v : List Nat), get f n ≠ none → ∃ f', set f n v = some f' := by
  intro f
  induction f with
  | nil => intro n v h; simp [get] at h
  | cons p r ih =>
    intro n v h
    by_cases hp : p.name = n
    · exact ⟨{ p with value := v } :: r, by simp [set, hp]⟩
    · have hpn : (p.name == n) = false := by simpa using hp
      have : get r n ≠ none := by
        unfold get at h ⊢
        simpa only [List.find?_cons, hpn] using h
      obtain ⟨r', hr⟩ := ih n v this
      exact ⟨p :: r', by simp [set, hp, hr]⟩

theorem set_get : ∀ (f : List BProp) (n v : List Nat) (f' : List BProp), set f n v = some f' →
    get f' n = some v ∧ (∀ m, m ≠ n → get f' m = get f m) ∧ f'.map (·.name) = f.map (·.name)
      ∧ f'.map (·.doc) = f.map (·.doc) := by
  intro f
  induction f with
  | nil => intro n v f' h; simp [set] at h
  | cons p r ih =>
    intro n v f' h
    simp only [set] at h
    by_cases hp : p.name = n
    · simp only [hp, if_true] at h
      cases h
      refine ⟨by simp [get], ?_, by simp [hp], by simp⟩
      intro m hm
      have : (n == m) = false := by simpa using fun e => hm e.symm
      simp [get, hp, this]
    · simp only [hp, if_false] at h
      cases hs : set r n v with
      | none => rw [hs] at h; simp at h
      | some r' =>
        rw [hs] at h; simp at h; subst h
        obtain ⟨i1, i2, i3, i4⟩ := ih n v r' hs
        have hpn : (p.name == n) = false := by simpa using hp
        refine ⟨?_, ?_, by simp [i3], by simp [i4]⟩
        · unfold get at i1 ⊢
          simp only [List.find?_cons, hpn]
          exact i1
        · intro m hm
          unfold get at i2 ⊢
          simp only [List.find?_cons]
          cases hpm : (p.name == m) with
          | true => rfl
          | false => exact i2 m hm

/-! ### alignment: the `=` column of a section is one past its longest name -/

theorem le_foldl_max (g : BProp → Nat) : ∀ (s : List BProp) (w0 : Nat),
    w0 ≤ s.foldl (fun w p => max w (g p)) w0 ∧ ∀ p ∈ s, g p ≤ s.foldl (fun w p => max w (g p)) w0 := by
  intro s
  induction s with
  | nil => intro w0; simp
  | cons a s ih =>
    intro w0
    simp only [List.foldl_cons]
    obtain ⟨h1, h2⟩ := ih (max w0 (g a))
    refine ⟨by omega, ?_⟩
    intro p hp
    rcases List.mem_cons.1 hp with rfl | hp
    · omega
    · exact h2 p hp

theorem annot_width (l : List BProp) : ∀ wp ∈ annot l, runeCount wp.2.name ≤ wp.1 := by
  intro wp hwp
  unfold annot at hwp
  simp only [List.mem_flatMap, List.mem_map] at hwp
  obtain ⟨s, _, p, hp, rfl⟩ := hwp
  exact (le_foldl_max (fun p => runeCount p.name) s 0).2 p hp

end P.MetaX
