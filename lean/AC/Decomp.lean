import AC.Hybrid
import AC.ChainSet
/-! Top-level models of the four `Decompose` methods of alg/dict/dict.go, `Sum.SortByExponent`
    (insertion sort by exponent) and `Sum.Dictionary`. Executable; used by the driver. -/
namespace P.Bits

/-- `big.Int.BitLen` -/
def bitLen (x : Nat) : Nat := if x = 0 then 0 else Nat.log2 x + 1

def insertByE (t : Term) : List Term → List Term
  | [] => [t]
  | u :: r => if t.e < u.e then t :: u :: r else u :: insertByE t r

/-- model of `Sum.SortByExponent` (any correct sort agrees when exponents are distinct) -/
def sortByE (l : List Term) : List Term := l.foldr insertByE []

inductive Method | fixed | sliding | runLength | hybrid deriving Repr, DecidableEq

/-- the terms in the order the scan produces them (before the final sort) -/
def rawTerms (m : Method) (x K T : Nat) : List Term :=
  let L := Nat.log2 x + 1
  match m with
  | .fixed => fixedW x K L L
  | .sliding => sliding x K L L
  | .runLength => runLen x T L L
  | .hybrid => hybrid x K T

/-- `Decomposer.Decompose` for `x ≥ 1` -/
def decompose (m : Method) (x K T : Nat) : List Term := sortByE (rawTerms m x K T)

/-- `Sum.Dictionary` -/
def dictionary (s : List Term) : List Int := P.sortUniq (s.map fun t => (t.d : Int))

end P.Bits
