import AC.Sem
/-! C04 prototype (first half): `acc.Decompile` expands back to exactly the original program. -/
namespace P.Sem

def isDouble (o : Nat × Nat) : Bool := o.1 == o.2
def uses (o : Nat × Nat) (i : Nat) : Bool := o.1 == i || o.2 == i

/-- `Program.ReadCounts`: a doubling counts once -/
def readCount (p : Prog) (i : Nat) : Nat := p.countP (fun o => uses o i)

/-- number of further ops, starting at position `j` of the full program, that are doublings of
    the previous element which nothing else reads: the `for` look-ahead of Decompile -/
def runLen (full : Prog) : List (Nat × Nat) → Nat → Nat
  | [], _ => 0
  | o :: r, j => if readCount full j == 1 && o == (j, j) then 1 + runLen full r (j + 1) else 0

/-- Decompile from position `i` (the remaining ops are `rest`), with fuel = remaining length -/
def decompileFrom (full : Prog) : Nat → List (Nat × Nat) → Nat → List Inst
  | 0, _, _ => []
  | _, [], _ => []
  | fuel+1, o :: r, i =>
    if !isDouble o then ⟨i + 1, .add o.1 o.2⟩ :: decompileFrom full fuel r (i + 1)
    else
      let extra := runLen full r (i + 1)
      if extra = 0 then ⟨i + 1, .dbl o.1⟩ :: decompileFrom full fuel r (i + 1)
      else ⟨i + 1 + extra, .shl o.1 (extra + 1)⟩ :: decompileFrom full fuel (r.drop extra) (i + 1 + extra)

def decompile (p : Prog) : List Inst := decompileFrom p p.length p 0


/-- every operand refers to an existing element -/
def InRange : Prog → Nat → Prop
  | [], _ => True
  | o :: r, k => o.1 ≤ k ∧ o.2 ≤ k ∧ InRange r (k + 1)

theorem runLen_le (full : Prog) : ∀ (r : List (Nat × Nat)) (j : Nat), runLen full r j ≤ r.length := by
  intro r
  induction r with
  | nil => intro j; simp [runLen]
  | cons o r ih =>
    intro j
    simp only [runLen]
    split
    · have := ih (j+1); simp; omega
    · simp

/-- the look-ahead found exactly `runLen` further doublings `(j,j), (j+1,j+1), …` -/
theorem runLen_spec (full : Prog) : ∀ (r : List (Nat × Nat)) (j : Nat),
    r.take (runLen full r j) = (List.range (runLen full r j)).map (fun t => (j + t, j + t)) := by
  intro r
  induction r with
  | nil => intro j; simp [runLen]
  | cons o r ih =>
    intro j
    simp only [runLen]
    split
    · rename_i h
      simp only [Bool.and_eq_true, beq_iff_eq] at h
      rw [Nat.add_comm 1, List.take_succ_cons, List.range_succ_eq_map, List.map_cons, List.map_map, ih (j+1), h.2]
      simp only [Nat.add_zero, List.cons.injEq, true_and]
      apply List.map_congr_left
      intro t _
      simp only [Function.comp]
      have : j + 1 + t = j + (t + 1) := by omega
      rw [this]
    · simp

theorem pShift_doubles : ∀ (s : Nat) (p : Prog) (x : Nat), x ≤ p.length →
    pShift (s + 1) p x = some (p ++ (x, x) :: (List.range s).map (fun t => (p.length + 1 + t, p.length + 1 + t)),
      p.length + s + 1) := by
  intro s
  induction s with
  | zero =>
    intro p x hx
    simp [pShift, pAdd, hx]
  | succ s ih =>
    intro p x hx
    have h1 : pAdd p x x = some (p ++ [(x, x)], p.length + 1) := by simp [pAdd, hx]
    rw [pShift, h1]
    simp only []
    rw [ih (p ++ [(x, x)]) (p.length + 1) (by simp)]
    simp only [List.length_append, List.length_cons, List.length_nil]
    congr 1
    rw [List.range_succ_eq_map, List.map_cons, List.map_map]
    simp only [List.append_assoc, List.cons_append, List.nil_append, Prod.mk.injEq]
    refine ⟨?_, by omega⟩
    congr 2
    simp only [Nat.add_zero, List.cons.injEq, true_and]
    apply List.map_congr_left
    intro t _
    simp only [Function.comp, Nat.succ_eq_add_one, Prod.mk.injEq]
    omega


theorem inRange_drop : ∀ (r : List (Nat × Nat)) (k n : Nat), InRange r k → InRange (r.drop n) (k + n) := by
  intro r
  induction r with
  | nil => intro k n _; simp [InRange]
  | cons o r ih =>
    intro k n h
    cases n with
    | zero => simpa using h
    | succ n =>
      simp only [List.drop_succ_cons]
      have := ih (k+1) n h.2.2
      have e : k + 1 + n = k + (n + 1) := by omega
      rw [e] at this; exact this

theorem cInst_shl (p : Prog) (o x s : Nat) (p' : Prog) (h : pShift s p x = some (p', o)) :
    cInst p ⟨o, .shl x s⟩ = some p' := by
  unfold cInst; simp [h]

/-- **`compile ∘ decompile = id`** on in-range programs -/
theorem decompile_ok (full : Prog) : ∀ (fuel : Nat) (pre rest : Prog), full = pre ++ rest →
    rest.length ≤ fuel → InRange rest pre.length →
    cAll pre (decompileFrom full fuel rest pre.length) = some full := by
  intro fuel
  induction fuel with
  | zero =>
    intro pre rest hf hl _
    have : rest = [] := List.eq_nil_of_length_eq_zero (by omega)
    subst this
    simp [decompileFrom, cAll, hf]
  | succ fuel ih =>
    intro pre rest hf hl hr
    cases rest with
    | nil => simp [decompileFrom, cAll, hf]
    | cons o r =>
      obtain ⟨x, y⟩ := o
      obtain ⟨hx, hy, hrr⟩ := hr
      simp only [] at hx hy
      simp only [decompileFrom]
      by_cases hd : isDouble (x, y) = true
      · have hxy : x = y := by simpa [isDouble] using hd
        subst hxy
        simp only [hd, Bool.not_true, Bool.false_eq_true, if_false]
        by_cases he : runLen full r (pre.length + 1) = 0
        · simp only [he, if_true, cAll]
          have : cInst pre ⟨pre.length + 1, .dbl x⟩ = some (pre ++ [(x, x)]) := by
            rw [cInst_dbl pre _ _ rfl]; simp [pAdd, hx]
          rw [this]
          simp only []
          have := ih (pre ++ [(x, x)]) r (by simp [hf]) (by simp at hl; omega) (by simpa using hrr)
          simpa using this
        · simp only [he, if_false, cAll]
          generalize hext : runLen full r (pre.length + 1) = extra at *
          have hle : extra ≤ r.length := hext ▸ runLen_le full r (pre.length + 1)
          have hspec := runLen_spec full r (pre.length + 1)
          rw [hext] at hspec
          have hsh := pShift_doubles extra pre x hx
          have hcomp : cInst pre ⟨pre.length + 1 + extra, .shl x (extra + 1)⟩
              = some (pre ++ (x, x) :: r.take extra) := by
            rw [hspec]
            apply cInst_shl
            rw [hsh]
            congr 2
            omega
          rw [hcomp]
          simp only []
          have hpl : (pre ++ (x, x) :: r.take extra).length = pre.length + 1 + extra := by
            simp [List.length_take, Nat.min_eq_left hle]; omega
          have := ih (pre ++ (x, x) :: r.take extra) (r.drop extra)
            (by rw [hf]; simp [List.take_append_drop])
            (by simp at hl ⊢; omega)
            (by rw [hpl]; exact inRange_drop r (pre.length + 1) extra hrr)
          rw [hpl] at this
          exact this
      · simp only [hd, Bool.not_false, if_true, cAll]
        have : cInst pre ⟨pre.length + 1, .add x y⟩ = some (pre ++ [(x, y)]) := by
          rw [cInst_add pre _ _ _ rfl]; simp [pAdd, hx, hy]
        rw [this]
        simp only []
        have := ih (pre ++ [(x, y)]) r (by simp [hf]) (by simp at hl; omega) (by simpa using hrr)
        simpa using this

theorem compile_decompile (p : Prog) (h : InRange p 0) : cAll [] (decompile p) = some p :=
  decompile_ok p p.length [] p rfl (Nat.le_refl _) h

end P.Sem
