/-! LTS model of exec.Parallel.Execute and its invariants (C12 prototype). -/
namespace P.Exec

inductive Phase | idle | running | stored | released deriving DecidableEq, Repr
inductive Main | spawning (j : Nat) | waiting (w : Nat) | returned deriving DecidableEq, Repr

structure St where
  main : Main
  tokens : Nat
  ph : List Phase           -- one per algorithm
  rs : List (Option Nat)    -- slot i holds `some i` (standing for `execute n aᵢ`) once stored

def init (k : Nat) : St := ⟨.spawning 0, 0, List.replicate k .idle, List.replicate k none⟩

/-- transitions for `k` algorithms and limit `L` -/
inductive Step (k L : Nat) : St → St → Prop
  | spawn (s : St) (j : Nat) : s.main = .spawning j → j < k → s.tokens < L →
      Step k L s { s with main := .spawning (j + 1), tokens := s.tokens + 1, ph := s.ph.set j .running }
  | toWait (s : St) : s.main = .spawning k → Step k L s { s with main := .waiting 0 }
  | waitSend (s : St) (w : Nat) : s.main = .waiting w → w < L → s.tokens < L →
      Step k L s { s with main := .waiting (w + 1), tokens := s.tokens + 1 }
  | ret (s : St) : s.main = .waiting L → Step k L s { s with main := .returned }
  | store (s : St) (i : Nat) : i < k → s.ph[i]? = some .running →
      Step k L s { s with ph := s.ph.set i .stored, rs := s.rs.set i (some i) }
  | release (s : St) (i : Nat) : i < k → s.ph[i]? = some .stored → 0 < s.tokens →
      Step k L s { s with ph := s.ph.set i .released, tokens := s.tokens - 1 }

inductive Reach (k L : Nat) : St → Prop
  | init : Reach k L (init k)
  | step {s t} : Reach k L s → Step k L s t → Reach k L t

def isActive : Phase → Bool | .running => true | .stored => true | _ => false
def nActive (s : St) : Nat := s.ph.countP isActive
def mainW : Main → Nat | .waiting w => w | _ => 0
def spawned : Main → Nat → Nat | .spawning j, _ => j | _, k => k

/-- The invariant. -/
structure Inv (k L : Nat) (s : St) : Prop where
  len_ph : s.ph.length = k
  len_rs : s.rs.length = k
  /-- channel occupancy = tokens held by workers + tokens re-acquired by main -/
  tok : s.tokens = nActive s + (match s.main with | .waiting w => w | .returned => L | .spawning _ => 0)
  tok_le : s.tokens ≤ L
  /-- workers at or beyond the spawn pointer are idle, those before it are not -/
  idle_iff : ∀ i, i < k → (s.ph[i]? = some .idle ↔ spawned s.main k ≤ i)
  spawn_le : spawned s.main k ≤ k
  /-- a slot is filled exactly when its worker has stored, and with its own result -/
  slot : ∀ i, i < k → (s.rs[i]? = some (some i) ↔ (s.ph[i]? = some .stored ∨ s.ph[i]? = some .released))
  slot_none : ∀ i, i < k → (s.rs[i]? = some none ∨ s.rs[i]? = some (some i))
  wait_le : ∀ w, s.main = .waiting w → w ≤ L

theorem inv_init (k L : Nat) : Inv k L (init k) := by
  refine ⟨by simp [init], by simp [init], ?_, by simp [init], ?_, by simp [init, spawned], ?_, ?_, ?_⟩
  · simp [init, nActive, List.countP_replicate, isActive]
  · intro i hi; simp [init, spawned, hi]
  · intro i hi; simp [init, hi]
  · intro i hi; left; simp [init, hi]
  · intro w h; simp [init] at h


theorem getElem?_set_ne' {α} (l : List α) (i j : Nat) (a : α) (h : i ≠ j) : (l.set i a)[j]? = l[j]? := by
  simp [List.getElem?_set, h]
theorem getElem?_set_eq' {α} (l : List α) (i : Nat) (a : α) (h : i < l.length) : (l.set i a)[i]? = some a := by
  simp [List.getElem?_set, h]

theorem nActive_set (s : St) (i : Nat) (p : Phase) (h : i < s.ph.length) :
    ({ s with ph := s.ph.set i p } : St).ph.countP isActive
      = s.ph.countP isActive - (if isActive s.ph[i] then 1 else 0) + (if isActive p then 1 else 0) := by
  simp only []
  exact List.countP_set h

theorem getElem_of_getElem? {α} {l : List α} {i : Nat} {a : α} (h : l[i]? = some a) :
    ∃ hi : i < l.length, l[i] = a := by
  have hi : i < l.length := by
    cases hlt : decide (i < l.length) with
    | true => exact of_decide_eq_true hlt
    | false =>
      have : ¬ i < l.length := of_decide_eq_false hlt
      rw [List.getElem?_eq_none (by omega)] at h; cases h
  exact ⟨hi, by rw [List.getElem?_eq_getElem hi] at h; exact Option.some.inj h⟩

theorem inv_step {k L : Nat} {s t : St} (hi : Inv k L s) (hs : Step k L s t) : Inv k L t := by
  cases hs with
  | spawn j hm hj hl =>
    have hidle : s.ph[j]? = some .idle := (hi.idle_iff j hj).2 (by simp [hm, spawned])
    obtain ⟨hjl, hje⟩ := getElem_of_getElem? hidle
    refine ⟨by simp [hi.len_ph], hi.len_rs, ?_, by show s.tokens + 1 ≤ L; omega, ?_, by simp [spawned]; omega, ?_, hi.slot_none, by intro w h; simp at h⟩
    · show s.tokens + 1 = (s.ph.set j Phase.running).countP isActive + 0
      rw [List.countP_set hjl, hje]
      have := hi.tok; rw [hm] at this
      simp [isActive, nActive] at this ⊢; omega
    · intro i hik
      by_cases hij : j = i
      · subst hij; simp [spawned, getElem?_set_eq' _ _ _ hjl]
      · rw [show (({ s with main := Main.spawning (j + 1), tokens := s.tokens + 1, ph := s.ph.set j Phase.running } : St).ph)[i]? = s.ph[i]? from getElem?_set_ne' _ _ _ _ hij]
        rw [hi.idle_iff i hik, hm]; simp [spawned]; omega
    · intro i hik
      by_cases hij : j = i
      · subst hij
        have := (hi.slot j hik).1
        simp only [getElem?_set_eq' _ _ _ hjl]
        constructor
        · intro h; have := this h; rw [hidle] at this; simp at this
        · intro h; simp at h
      · rw [show (({ s with main := Main.spawning (j + 1), tokens := s.tokens + 1, ph := s.ph.set j Phase.running } : St).ph)[i]? = s.ph[i]? from getElem?_set_ne' _ _ _ _ hij]
        exact hi.slot i hik
  | toWait hm =>
    refine ⟨hi.len_ph, hi.len_rs, ?_, hi.tok_le, ?_, by simp [spawned], hi.slot, hi.slot_none, by intro w h; simp at h; omega⟩
    · have := hi.tok; rw [hm] at this
      show s.tokens = nActive s + 0
      simpa using this
    · intro i hik; rw [hi.idle_iff i hik, hm]; simp [spawned]
  | waitSend w hm hw hl =>
    refine ⟨hi.len_ph, hi.len_rs, ?_, by show s.tokens + 1 ≤ L; omega, ?_, by simp [spawned], hi.slot, hi.slot_none, by intro w' h; simp at h; omega⟩
    · have := hi.tok; rw [hm] at this
      show s.tokens + 1 = nActive s + (w + 1); simp at this; omega
    · intro i hik; rw [hi.idle_iff i hik, hm]; simp [spawned]
  | ret hm =>
    refine ⟨hi.len_ph, hi.len_rs, ?_, hi.tok_le, ?_, by simp [spawned], hi.slot, hi.slot_none, by intro w h; simp at h⟩
    · have := hi.tok; rw [hm] at this
      show s.tokens = nActive s + L
      simpa using this
    · intro i hik; rw [hi.idle_iff i hik, hm]; simp [spawned]
  | store i hik hr =>
    obtain ⟨hil, hie⟩ := getElem_of_getElem? hr
    have hilr : i < s.rs.length := by rw [hi.len_rs]; exact hik
    refine ⟨by simp [hi.len_ph], by simp [hi.len_rs], ?_, hi.tok_le, ?_, hi.spawn_le, ?_, ?_, hi.wait_le⟩
    · show s.tokens = (s.ph.set i Phase.stored).countP isActive + _
      rw [List.countP_set hil, hie]
      have := hi.tok
      have hpos : 0 < s.ph.countP isActive := by
        apply List.countP_pos_iff.mpr
        exact ⟨s.ph[i], List.getElem_mem hil, by rw [hie]; rfl⟩
      simp [isActive, nActive] at this ⊢; omega
    · intro j hjk
      by_cases hij : i = j
      · subst hij
        have := hi.idle_iff i hik
        rw [hr] at this
        simp only [getElem?_set_eq' _ _ _ hil]
        constructor
        · intro h; simp at h
        · intro h; have := this.2 h; simp at this
      · rw [show (({ s with ph := s.ph.set i Phase.stored, rs := s.rs.set i (some i) } : St).ph)[j]? = s.ph[j]? from getElem?_set_ne' _ _ _ _ hij]
        exact hi.idle_iff j hjk
    · intro j hjk
      by_cases hij : i = j
      · subst hij
        simp [getElem?_set_eq' _ _ _ hil, getElem?_set_eq' _ _ _ hilr]
      · rw [show (({ s with ph := s.ph.set i Phase.stored, rs := s.rs.set i (some i) } : St).ph)[j]? = s.ph[j]? from getElem?_set_ne' _ _ _ _ hij,
          show (({ s with ph := s.ph.set i Phase.stored, rs := s.rs.set i (some i) } : St).rs)[j]? = s.rs[j]? from getElem?_set_ne' _ _ _ _ hij]
        exact hi.slot j hjk
    · intro j hjk
      by_cases hij : i = j
      · subst hij; right; exact getElem?_set_eq' _ _ _ hilr
      · rw [show (({ s with ph := s.ph.set i Phase.stored, rs := s.rs.set i (some i) } : St).rs)[j]? = s.rs[j]? from getElem?_set_ne' _ _ _ _ hij]
        exact hi.slot_none j hjk
  | release i hik hr hpos =>
    obtain ⟨hil, hie⟩ := getElem_of_getElem? hr
    refine ⟨by simp [hi.len_ph], hi.len_rs, ?_, by show s.tokens - 1 ≤ L; have := hi.tok_le; omega, ?_, hi.spawn_le, ?_, hi.slot_none, hi.wait_le⟩
    · show s.tokens - 1 = (s.ph.set i Phase.released).countP isActive + _
      rw [List.countP_set hil, hie]
      have := hi.tok
      have hpos' : 0 < s.ph.countP isActive := by
        apply List.countP_pos_iff.mpr
        exact ⟨s.ph[i], List.getElem_mem hil, by rw [hie]; rfl⟩
      simp [isActive, nActive] at this ⊢; omega
    · intro j hjk
      by_cases hij : i = j
      · subst hij
        have := hi.idle_iff i hik
        rw [hr] at this
        simp only [getElem?_set_eq' _ _ _ hil]
        constructor
        · intro h; simp at h
        · intro h; have := this.2 h; simp at this
      · rw [show (({ s with ph := s.ph.set i Phase.released, tokens := s.tokens - 1 } : St).ph)[j]? = s.ph[j]? from getElem?_set_ne' _ _ _ _ hij]
        exact hi.idle_iff j hjk
    · intro j hjk
      by_cases hij : i = j
      · subst hij
        have := (hi.slot i hik).2 (Or.inl hr)
        simp [getElem?_set_eq' _ _ _ hil, this]
      · rw [show (({ s with ph := s.ph.set i Phase.released, tokens := s.tokens - 1 } : St).ph)[j]? = s.ph[j]? from getElem?_set_ne' _ _ _ _ hij]
        exact hi.slot j hjk

theorem inv_reach {k L : Nat} {s : St} (h : Reach k L s) : Inv k L s := by
  induction h with
  | init => exact inv_init k L
  | step _ hs ih => exact inv_step ih hs


/-! ### the property-level consequences -/
/-- never more than `L` algorithms run at once -/
theorem limit_respected {k L : Nat} {s : St} (h : Reach k L s) : nActive s ≤ L := by
  have hi := inv_reach h
  have := hi.tok; have := hi.tok_le
  omega

/-- when `Execute` returns, every slot i holds the result of algorithm i -/
theorem return_complete {k L : Nat} {s : St} (h : Reach k L s) (hr : s.main = .returned) :
    ∀ i, i < k → s.rs[i]? = some (some i) := by
  have hi := inv_reach h
  intro i hik
  have htok := hi.tok; rw [hr] at htok
  have hle := hi.tok_le
  have hz : nActive s = 0 := by simp at htok; omega
  have hil : i < s.ph.length := by rw [hi.len_ph]; exact hik
  have hnotidle : ¬ s.ph[i]? = some .idle := by
    intro hc
    have := (hi.idle_iff i hik).1 hc
    rw [hr] at this; simp [spawned] at this; omega
  have hna : isActive s.ph[i] = false := by
    cases hact : isActive s.ph[i] with
    | false => rfl
    | true =>
      have : 0 < s.ph.countP isActive := List.countP_pos_iff.mpr ⟨s.ph[i], List.getElem_mem hil, hact⟩
      unfold nActive at hz; omega
  apply (hi.slot i hik).2
  rw [List.getElem?_eq_getElem hil] at hnotidle ⊢
  cases hp : s.ph[i] with
  | idle => rw [hp] at hnotidle; exact absurd rfl hnotidle
  | running => rw [hp] at hna; simp [isActive] at hna
  | stored => left; rfl
  | released => right; rfl

/-- deadlock freedom: for L ≥ 1 every reachable non-final state has an enabled step -/
theorem progress {k L : Nat} (hL : 1 ≤ L) {s : St} (h : Reach k L s) (hn : s.main ≠ .returned) :
    ∃ t, Step k L s t := by
  have hi := inv_reach h
  -- if some worker is active it can move
  by_cases hact : 0 < nActive s
  · obtain ⟨p, hp, hpa⟩ := List.countP_pos_iff.mp hact
    obtain ⟨i, hil, hie⟩ := List.getElem_of_mem hp
    have hik : i < k := by rw [← hi.len_ph]; exact hil
    cases hph : p with
    | idle => rw [hph] at hpa; simp [isActive] at hpa
    | released => rw [hph] at hpa; simp [isActive] at hpa
    | running =>
      exact ⟨_, Step.store s i hik (by rw [List.getElem?_eq_getElem hil, hie, hph])⟩
    | stored =>
      have : 0 < s.tokens := by have := hi.tok; omega
      exact ⟨_, Step.release s i hik (by rw [List.getElem?_eq_getElem hil, hie, hph]) this⟩
  · have hz : nActive s = 0 := by omega
    have htok := hi.tok
    cases hm : s.main with
    | returned => exact absurd hm hn
    | spawning j =>
      rw [hm] at htok
      have hjle := hi.spawn_le; rw [hm] at hjle; simp [spawned] at hjle
      by_cases hjk : j = k
      · subst hjk; exact ⟨_, Step.toWait s hm⟩
      · exact ⟨_, Step.spawn s j hm (by omega) (by simp at htok; omega)⟩
    | waiting w =>
      rw [hm] at htok
      have hw := hi.wait_le w hm
      by_cases hwl : w = L
      · subst hwl; exact ⟨_, Step.ret s hm⟩
      · exact ⟨_, Step.waitSend s w hm (by omega) (by simp at htok; omega)⟩

/-- non-vacuity: with one algorithm and limit 1 the final state is reachable -/
example : ∃ s, Reach 1 1 s ∧ s.main = .returned := by
  refine ⟨⟨.returned, 1, [.released], [some 0]⟩, ?_, rfl⟩
  refine .step (.step (.step (.step (.step (.step .init (Step.spawn _ 0 rfl (by decide) (by decide)))
    (Step.toWait _ rfl)) (Step.store _ 0 (by decide) rfl)) (Step.release _ 0 (by decide) rfl (by decide)))
    (Step.waitSend _ 0 rfl (by decide) (by decide))) (Step.ret _ rfl)

end P.Exec
