import AC.Prim
/-! C18 prototype: `Program.Dependencies` is the reflexive-transitive closure of the operand
    relation, stated as its defining recursion. -/
namespace P.Prim

/-- the bitset of position `k ≥ 1` is exactly `{k}` ∪ the bitsets of its two operands; position 0
    is `{0}`; operands are earlier positions -/
structure DExact (q : List (Nat × Nat)) (ds : List Nat) : Prop where
  len : ds.length = q.length + 1
  zero : ∀ j, (ds.getD 0 0).testBit j = true ↔ j = 0
  inr : ∀ k, 1 ≤ k → k ≤ q.length → (opAt q k).1 < k ∧ (opAt q k).2 < k
  unfold : ∀ k, 1 ≤ k → k ≤ q.length → ∀ j,
    (ds.getD k 0).testBit j = true ↔
      (j = k ∨ (ds.getD (opAt q k).1 0).testBit j = true ∨ (ds.getD (opAt q k).2 0).testBit j = true)

theorem dexact_nil : DExact [] [1] := by
  refine ⟨rfl, ?_, ?_, ?_⟩
  · intro j
    simp only [List.getD_cons_zero]
    cases j with
    | zero => simp
    | succ j => simp [Nat.testBit_succ]
  · intro k h1 h2; simp at h2; omega
  · intro k h1 h2; simp at h2; omega

theorem dexact_snoc (q : List (Nat × Nat)) (ds : List Nat) (op : Nat × Nat) (h : DExact q ds)
    (h1 : op.1 ≤ q.length) (h2 : op.2 ≤ q.length) : DExact (q ++ [op]) (depsStep ds op) := by
  unfold depsStep
  have hl := h.len
  have hpos : 0 < ds.length := by omega
  refine ⟨by simp [hl], ?_, ?_, ?_⟩
  · intro j
    rw [getD_append_left' _ _ _ hpos]
    exact h.zero j
  · intro k hk1 hk
    simp at hk
    by_cases hkl : k ≤ q.length
    · rw [opAt_append_left q op k hk1 hkl]; exact h.inr k hk1 hkl
    · have : k = q.length + 1 := by omega
      subst this
      rw [opAt_append_last]; omega
  · intro k hk1 hk j
    simp at hk
    by_cases hkl : k ≤ q.length
    · obtain ⟨b1, b2⟩ := h.inr k hk1 hkl
      rw [getD_append_left' _ _ _ (by omega), opAt_append_left q op k hk1 hkl,
        getD_append_left' _ _ _ (by omega), getD_append_left' _ _ _ (by omega)]
      exact h.unfold k hk1 hkl j
    · have : k = ds.length := by omega
      subst this
      rw [getD_append_last']
      have e : ds.length = q.length + 1 := hl
      rw [show opAt (q ++ [op]) ds.length = op by rw [e]; exact opAt_append_last q op]
      rw [getD_append_left' _ _ _ (by omega), getD_append_left' _ _ _ (by omega)]
      simp only [Nat.testBit_or, Nat.testBit_two_pow, Bool.or_eq_true, decide_eq_true_eq]
      constructor
      · rintro ((h' | h') | h')
        · exact Or.inr (Or.inl h')
        · exact Or.inr (Or.inr h')
        · exact Or.inl h'.symm
      · rintro (h' | h' | h')
        · exact Or.inr h'.symm
        · exact Or.inl (Or.inl h')
        · exact Or.inl (Or.inr h')

theorem dexact_foldl : ∀ (r q : List (Nat × Nat)) (ds : List Nat), DExact q ds → InRangeP r q.length →
    DExact (q ++ r) (r.foldl depsStep ds) := by
  intro r
  induction r with
  | nil => intro q ds h _; simpa using h
  | cons op r ih =>
    intro q ds h hr
    have := ih (q ++ [op]) (depsStep ds op) (dexact_snoc q ds op h hr.1 hr.2.1) (by simpa using hr.2.2)
    simpa using this

/-- **`Dependencies` satisfies the defining recursion of the reflexive-transitive closure** -/
theorem deps_exact (p : List (Nat × Nat)) (h : InRangeP p 0) : DExact p (depsL p) := by
  have := dexact_foldl p [] [1] dexact_nil (by simpa using h)
  simpa [depsL] using this

end P.Prim
