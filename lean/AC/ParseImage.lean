import AC.ScriptFull
/-! # Every tree the parser returns is well-formed (C07, `parse_image_wf`)

Inversion of the parser model: whatever `parse` returns has ≥ 1 statement, a final unnamed
statement, identifier names, identifiers in expressions, shift counts `< 2^64`, operand
indices `< 2^63`, and — the F10 condition — every identifier in `ShiftExpr` position is *not*
`dbl` followed by `1`, a letter or `_` (because the doubling alternative is tried first and
would have succeeded).  The only `WFTree` condition the parser does **not** establish is
`0 ≤ index` (F8: `[18446744073709551615]` is `Operand(-1)`), which is therefore a hypothesis. -/
namespace P.PegF
open AC.Gen
open P.Peg (P por ws lit ident pfail ppure uintLitFull uintLit hexLit octLit isWs isIdStart isIdChar shiftOp doubleOp addOp
  bind_def pure_def por_left por_right lit_ok lit_cons_ok lit_fail_head lit_fail_nil ValidIdent EndTok
  NoWsHead ws_id ws_def dropWs)

/-! ### inversion lemmas for the combinators -/
theorem bind_some {α β : Type} {p : P α} {f : α → P β} {s : List Char} {e : Bool} {r : β × List Char} {e' : Bool}
    (h : (p >>= f) s e = (some r, e')) :
    ∃ a s1 e1, p s e = (some (a, s1), e1) ∧ f a s1 e1 = (some r, e') := by
  rw [bind_def] at h
  rcases hp : p s e with ⟨_ | ⟨a, s1⟩, e1⟩
  · rw [hp] at h; simp at h
  · rw [hp] at h; exact ⟨a, s1, e1, rfl, h⟩

theorem por_some {α : Type} {p q : P α} {s : List Char} {e : Bool} {r : α × List Char} {e' : Bool}
    (h : por p q s e = (some r, e')) :
    p s e = (some r, e') ∨ ∃ e1, p s e = (none, e1) ∧ q s e1 = (some r, e') := by
  unfold por at h
  rcases hp : p s e with ⟨_ | r1, e1⟩
  · rw [hp] at h; exact Or.inr ⟨e1, rfl, h⟩
  · rw [hp] at h; exact Or.inl h

theorem pure_some {α : Type} {a : α} {s : List Char} {e : Bool} {r : α × List Char} {e' : Bool}
    (h : (pure a : P α) s e = (some r, e')) : r = (a, s) := by
  rw [pure_def] at h
  injection h with h1 _
  injection h1 with h1
  exact h1.symm

theorem all_takeWhile (p : Char → Bool) : ∀ (l : List Char) (x : Char), x ∈ l.takeWhile p → p x = true := by
  intro l
  induction l with
  | nil => intro x hx; simp at hx
  | cons a t ih =>
    intro x hx
    by_cases ha : p a = true
    · simp only [List.takeWhile, ha] at hx
      rcases List.mem_cons.1 hx with rfl | hx
      · exact ha
      · exact ih x hx
    · simp [List.takeWhile, ha] at hx

theorem ident_some {s : List Char} {e : Bool} {n s' : List Char} {e' : Bool}
    (h : ident s e = (some (n, s'), e')) : ValidIdent n ∧ s = n ++ s' := by
  unfold ident at h
  cases s with
  | nil => simp at h
  | cons c cs =>
    simp only [] at h
    by_cases hc : isIdStart c = true
    · simp only [hc, if_true] at h
      injection h with h1 _
      injection h1 with h1
      injection h1 with h2 h3
      subst h2; subst h3
      refine ⟨⟨c, cs.takeWhile isIdChar, rfl, hc, ?_⟩, ?_⟩
      · intro x hx; exact all_takeWhile isIdChar cs x hx
      · simp [List.takeWhile_append_dropWhile]
    · simp [hc] at h

/-! ### literals are below 2^64 -/
theorem hexLit_lt {s : List Char} {e : Bool} {v : Nat} {s' : List Char} {e' : Bool}
    (h : hexLit s e = (some (v, s'), e')) : v < 2 ^ 64 := by
  unfold hexLit at h
  split at h
  · simp only [] at h
    split at h
    · simp at h
    · injection h with h1 _
      injection h1 with h1
      injection h1 with h1 _
      rw [← h1]
      split <;> omega
  · simp at h

theorem octLit_lt {s : List Char} {e : Bool} {v : Nat} {s' : List Char} {e' : Bool}
    (h : octLit s e = (some (v, s'), e')) : v < 2 ^ 64 := by
  unfold octLit at h
  split at h
  · simp only [] at h
    split at h
    · simp at h
    · injection h with h1 _
      injection h1 with h1
      injection h1 with h1 _
      rw [← h1]
      split <;> omega
  · simp at h

theorem uintLit_lt {s : List Char} {e : Bool} {v : Nat} {s' : List Char} {e' : Bool}
    (h : uintLit s e = (some (v, s'), e')) : v < 2 ^ 64 := by
  unfold uintLit at h
  simp only [] at h
  split at h
  · simp at h
  · injection h with h1 _
    injection h1 with h1
    injection h1 with h1 _
    rw [← h1]
    split
    · omega
    · rename_i hb
      simp only [Bool.or_eq_true, decide_eq_true_eq, not_or] at hb
      omega

theorem uintLitFull_lt {s : List Char} {e : Bool} {v : Nat} {s' : List Char} {e' : Bool}
    (h : uintLitFull s e = (some (v, s'), e')) : v < 2 ^ 64 := by
  unfold uintLitFull at h
  rcases por_some h with h | ⟨_, _, h⟩
  · exact hexLit_lt h
  · rcases por_some h with h | ⟨_, _, h⟩
    · exact octLit_lt h
    · exact uintLit_lt h

theorem wrapInt_lt (u : Nat) (h : u < 2 ^ 64) : wrapInt u < 2 ^ 63 := by
  unfold wrapInt
  split <;> omega

/-! ### the invariant -/
def NonNeg : Expr → Prop
  | .operand i => 0 ≤ i
  | .ident _ => True
  | .add x y => NonNeg x ∧ NonNeg y
  | .shift x _ => NonNeg x
  | .double x => NonNeg x

/-- well-formed as soon as no operand index is negative -/
def Img (b : Bool) (v : Expr) : Prop := NonNeg v → WF b v

def Sound (p : P Expr) : Prop :=
  ∀ s e v s' e', p s e = (some (v, s'), e') → Img true v

theorem Img.weaken {b : Bool} {v : Expr} (h : Img b v) : Img false v := fun hn => (h hn).weaken

theorem one_some {s : List Char} {e : Bool} {v : Expr} {s' : List Char} {e' : Bool}
    (h : one s e = (some (v, s'), e')) : v = .operand 0 := by
  unfold one at h
  obtain ⟨_, _, _, _, h⟩ := bind_some h
  exact (Prod.mk.inj (pure_some h)).1

theorem index_some {s : List Char} {e : Bool} {v : Expr} {s' : List Char} {e' : Bool}
    (h : index s e = (some (v, s'), e')) : ∃ u, u < 2 ^ 64 ∧ v = .operand (wrapInt u) := by
  unfold index at h
  obtain ⟨_, _, _, _, h⟩ := bind_some h
  obtain ⟨_, _, _, _, h⟩ := bind_some h
  obtain ⟨u, _, _, hu, h⟩ := bind_some h
  obtain ⟨_, _, _, _, h⟩ := bind_some h
  obtain ⟨_, _, _, _, h⟩ := bind_some h
  exact ⟨u, uintLitFull_lt hu, (Prod.mk.inj (pure_some h)).1⟩

theorem identE_some {s : List Char} {e : Bool} {v : Expr} {s' : List Char} {e' : Bool}
    (h : identE s e = (some (v, s'), e')) : ∃ n, v = .ident n ∧ ValidIdent n ∧ s = n ++ s' := by
  unfold identE at h
  obtain ⟨n, s1, _, hn, h⟩ := bind_some h
  obtain ⟨h1, h2⟩ := Prod.mk.inj (pure_some h)
  subst h2
  exact ⟨n, h1, (ident_some hn).1, (ident_some hn).2⟩

theorem img_operand (b : Bool) (u : Nat) (h : u < 2 ^ 64) : Img b (.operand (wrapInt u)) :=
  fun hn => .operand _ _ hn (wrapInt_lt u h)

/-- a base expression is either well-formed in any position or a bare identifier read from the
    front of the input -/
theorem base_sound (rec : P Expr) (hrec : Sound rec) {s : List Char} {e : Bool} {v : Expr} {s' : List Char}
    {e' : Bool} (h : base rec s e = (some (v, s'), e')) :
    Img true v ∨ ∃ n, v = .ident n ∧ ValidIdent n ∧ s = n ++ s' := by
  rw [base_def] at h
  rcases por_some h with h | ⟨_, _, h⟩
  · left
    unfold parenP at h
    obtain ⟨_, _, _, _, h⟩ := bind_some h
    obtain ⟨_, _, _, _, h⟩ := bind_some h
    obtain ⟨x, _, _, hx, h⟩ := bind_some h
    obtain ⟨_, _, _, _, h⟩ := bind_some h
    obtain ⟨_, _, _, _, h⟩ := bind_some h
    have h1 := (Prod.mk.inj (pure_some h)).1
    subst h1
    exact hrec _ _ _ _ _ hx
  · unfold operand at h
    rcases por_some h with h | ⟨_, _, h⟩
    · left
      rw [one_some h]
      exact fun _ => .operand _ _ (by decide) (by decide)
    · rcases por_some h with h | ⟨_, _, h⟩
      · left
        obtain ⟨u, hu, rfl⟩ := index_some h
        exact img_operand true u hu
      · exact Or.inr (identE_some h)

theorem base_sound_false (rec : P Expr) (hrec : Sound rec) {s : List Char} {e : Bool} {v : Expr} {s' : List Char}
    {e' : Bool} (h : base rec s e = (some (v, s'), e')) : Img false v := by
  rcases base_sound rec hrec h with h | ⟨n, rfl, hv, _⟩
  · exact h.weaken
  · exact fun _ => .ident _ _ hv (fun hb => by cases hb)

/-- on `dbl` followed by `1`, a letter or `_` the doubling alternative succeeds -/
theorem alt2_some_of_dbl (rec : P Expr) (c : Char) (rest : List Char) (e : Bool)
    (hc : c = '1' ∨ isIdStart c = true) :
    ∃ r e', shiftAlt2 rec ('d' :: 'b' :: 'l' :: c :: rest) e = (some r, e') := by
  unfold shiftAlt2
  simp only [bind_def]
  rw [ws_id _ _ (by intro c' t h; cases h; decide)]
  simp only []
  rw [doubleOp_dbl]
  simp only []
  have hnw : isWs c = false := by
    rcases hc with rfl | hc
    · decide
    · cases hw : isWs c with
      | false => rfl
      | true =>
        simp [isWs] at hw
        rcases hw with (rfl | rfl) | rfl <;> simp [isIdStart] at hc
  rw [ws_id _ _ (by intro c' t h; cases h; exact hnw)]
  simp only []
  rcases hc with rfl | hc
  · rw [base_def, por_right (paren_fail rec '1' rest e (by decide)), operand_one]
    exact ⟨_, _, rfl⟩
  · have h1 : c ≠ '1' := by rintro rfl; simp [isIdStart] at hc
    have hb : c ≠ '[' := by rintro rfl; simp [isIdStart] at hc
    have hp : c ≠ '(' := by rintro rfl; simp [isIdStart] at hc
    rw [base_def, por_right (paren_fail rec c rest e hp)]
    unfold operand
    rw [por_right (one_fail c _ e h1), por_right (index_fail c _ e hb)]
    simp only [identE, bind_def, ident, hc, if_true, pure_def]
    exact ⟨_, _, rfl⟩

theorem shiftE_sound (rec : P Expr) (hrec : Sound rec) : Sound (shiftE rec) := by
  intro s e v s' e' h
  rw [shiftE_def] at h
  rcases por_some h with h | ⟨e1, _, h⟩
  · -- x << k
    unfold shiftAlt1 at h
    obtain ⟨_, _, _, _, h⟩ := bind_some h
    obtain ⟨x, _, _, hx, h⟩ := bind_some h
    obtain ⟨_, _, _, _, h⟩ := bind_some h
    obtain ⟨_, _, _, _, h⟩ := bind_some h
    obtain ⟨_, _, _, _, h⟩ := bind_some h
    obtain ⟨k, _, _, hk, h⟩ := bind_some h
    obtain ⟨_, _, _, _, h⟩ := bind_some h
    have h1 := (Prod.mk.inj (pure_some h)).1
    subst h1
    exact fun hn => .shift _ _ _ (base_sound_false rec hrec hx hn) (uintLitFull_lt hk)
  · rcases por_some h with h | ⟨e2, hf2, h⟩
    · -- 2*x
      unfold shiftAlt2 at h
      obtain ⟨_, _, _, _, h⟩ := bind_some h
      obtain ⟨_, _, _, _, h⟩ := bind_some h
      obtain ⟨_, _, _, _, h⟩ := bind_some h
      obtain ⟨x, _, _, hx, h⟩ := bind_some h
      have h1 := (Prod.mk.inj (pure_some h)).1
      subst h1
      exact fun hn => .double _ _ (base_sound_false rec hrec hx hn)
    · -- a bare base expression: the doubling alternative has failed on this input
      rcases base_sound rec hrec h with h | ⟨n, rfl, hv, hs⟩
      · exact h
      · intro _
        refine .ident _ _ hv (fun _ => ?_)
        intro c t hn
        subst hn
        have hs' : s = 'd' :: 'b' :: 'l' :: c :: (t ++ s') := by rw [hs]; rfl
        rw [hs'] at hf2
        by_cases h1 : c = '1'
        · obtain ⟨r, e'', hr⟩ := alt2_some_of_dbl rec c (t ++ s') e1 (Or.inl h1)
          rw [hr] at hf2; simp at hf2
        · cases hid : isIdStart c with
          | false => exact ⟨h1, rfl⟩
          | true =>
            obtain ⟨r, e'', hr⟩ := alt2_some_of_dbl rec c (t ++ s') e1 (Or.inr hid)
            rw [hr] at hf2; simp at hf2

theorem addStep_sound (rec : P Expr) (hrec : Sound rec) : Sound (addStep rec) := by
  intro s e v s' e' h
  unfold addStep at h
  obtain ⟨_, _, _, _, h⟩ := bind_some h
  obtain ⟨_, _, _, _, h⟩ := bind_some h
  obtain ⟨_, _, _, _, h⟩ := bind_some h
  exact shiftE_sound rec hrec _ _ _ _ _ h

theorem addRest_sound (rec : P Expr) (hrec : Sound rec) :
    ∀ (n : Nat) (acc : Expr) (s : List Char) (e : Bool) (v : Expr) (s' : List Char) (e' : Bool),
    Img true acc → addRest rec n acc s e = (some (v, s'), e') → Img true v := by
  intro n
  induction n with
  | zero =>
    intro acc s e v s' e' hacc h
    have h' : (pure acc : P Expr) s e = (some (v, s'), e') := h
    have h1 := (Prod.mk.inj (pure_some h')).1
    rw [h1]; exact hacc
  | succ n ih =>
    intro acc s e v s' e' hacc h
    rw [addRest_succ] at h
    rcases hstep : addStep rec s e with ⟨_ | ⟨y, s1⟩, e1⟩
    · rw [hstep] at h
      injection h with h1 _
      injection h1 with h1
      injection h1 with h1 _
      rw [← h1]; exact hacc
    · rw [hstep] at h
      have hy := addStep_sound rec hrec _ _ _ _ _ hstep
      exact ih _ _ _ _ _ _ (fun hn => .add _ _ _ (hacc hn.1) (hy hn.2)) h

theorem addE_sound (rec : P Expr) (hrec : Sound rec) : Sound (addE rec) := by
  intro s e v s' e' h
  unfold addE at h
  obtain ⟨_, _, _, _, h⟩ := bind_some h
  obtain ⟨x, _, _, hx, h⟩ := bind_some h
  obtain ⟨r, _, _, hr, h⟩ := bind_some h
  obtain ⟨_, _, _, _, h⟩ := bind_some h
  have h1 := (Prod.mk.inj (pure_some h)).1
  subst h1
  exact addRest_sound rec hrec _ _ _ _ _ _ _ (shiftE_sound rec hrec _ _ _ _ _ hx) hr

theorem expr_sound : ∀ (n : Nat), Sound (expr n) := by
  intro n
  induction n with
  | zero => intro s e v s' e' h; simp [expr, pfail] at h
  | succ n ih => exact addE_sound (expr n) ih

/-! ### statements -/
def GoodStmt (st : Stmt) : Prop := ValidIdent st.name ∧ Img true st.e

theorem assignment_sound (fuel : Nat) {s : List Char} {e : Bool} {st : Stmt} {s' : List Char} {e' : Bool}
    (h : assignment fuel s e = (some (st, s'), e')) : GoodStmt st := by
  unfold assignment at h
  obtain ⟨_, _, _, _, h⟩ := bind_some h
  obtain ⟨n, _, _, hn, h⟩ := bind_some h
  obtain ⟨_, _, _, _, h⟩ := bind_some h
  obtain ⟨_, _, _, _, h⟩ := bind_some h
  obtain ⟨_, _, _, _, h⟩ := bind_some h
  obtain ⟨x, _, _, hx, h⟩ := bind_some h
  obtain ⟨_, _, _, _, h⟩ := bind_some h
  obtain ⟨_, _, _, _, h⟩ := bind_some h
  have h1 := (Prod.mk.inj (pure_some h)).1
  subst h1
  exact ⟨(ident_some hn).1, expr_sound fuel _ _ _ _ _ hx⟩

theorem ret_sound (fuel : Nat) {s : List Char} {e : Bool} {st : Stmt} {s' : List Char} {e' : Bool}
    (h : ret fuel s e = (some (st, s'), e')) : ∃ x, st = ⟨[], x⟩ ∧ Img true x := by
  unfold ret at h
  obtain ⟨_, _, _, _, h⟩ := bind_some h
  obtain ⟨_, _, _, _, h⟩ := bind_some h
  obtain ⟨x, _, _, hx, h⟩ := bind_some h
  obtain ⟨_, _, _, _, h⟩ := bind_some h
  obtain ⟨_, _, _, _, h⟩ := bind_some h
  exact ⟨x, (Prod.mk.inj (pure_some h)).1, expr_sound fuel _ _ _ _ _ hx⟩

theorem starA_sound (fuel : Nat) :
    ∀ (k : Nat) (acc : List Stmt) (s : List Char) (e : Bool) (as : List Stmt) (s' : List Char) (e' : Bool),
    (∀ st ∈ acc, GoodStmt st) → starA fuel k acc s e = (some (as, s'), e') → ∀ st ∈ as, GoodStmt st := by
  intro k
  induction k with
  | zero =>
    intro acc s e as s' e' hacc h
    have h' : (pure acc : P (List Stmt)) s e = (some (as, s'), e') := h
    have h1 := (Prod.mk.inj (pure_some h')).1
    rw [h1]; exact hacc
  | succ k ih =>
    intro acc s e as s' e' hacc h
    simp only [starA] at h
    rcases hstep : assignment fuel s e with ⟨_ | ⟨st, s1⟩, e1⟩
    · rw [hstep] at h
      injection h with h1 _
      injection h1 with h1
      injection h1 with h1 _
      rw [← h1]; exact hacc
    · rw [hstep] at h
      refine ih _ _ _ _ _ _ ?_ h
      intro st' hst'
      rcases List.mem_append.1 hst' with h1 | h1
      · exact hacc st' h1
      · rw [List.mem_singleton.1 h1]; exact assignment_sound fuel hstep

theorem chainP_sound (fuel : Nat) {s : List Char} {e : Bool} {t : Tree} {s' : List Char} {e' : Bool}
    (h : chainP fuel s e = (some (t, s'), e')) :
    ∃ as x, t = as ++ [⟨[], x⟩] ∧ (∀ st ∈ as, GoodStmt st) ∧ Img true x := by
  unfold chainP at h
  obtain ⟨as, _, _, has, h⟩ := bind_some h
  obtain ⟨r, _, _, hr, h⟩ := bind_some h
  obtain ⟨_, _, _, _, h⟩ := bind_some h
  obtain ⟨_, _, _, _, h⟩ := bind_some h
  have h1 := (Prod.mk.inj (pure_some h)).1
  obtain ⟨x, rfl, hx⟩ := ret_sound fuel hr
  exact ⟨as, x, h1, starA_sound fuel _ _ _ _ _ _ _ (fun st hst => by cases hst) has, hx⟩

/-- no operand index of the tree is negative (what F8 violates) -/
def NonNegTree (t : Tree) : Prop := ∀ st ∈ t, NonNeg st.e

theorem parse_ok {s : List Char} {t : Tree} (h : parse s = .ok t) :
    ∃ r, chainP (s.length + 1) s false = (some (t, r), false) := by
  unfold parse at h
  split at h
  · rename_i t' r heq
    injection h with h1
    subst h1
    exact ⟨r, heq⟩
  · cases h

/-- **every tree the parser returns is well-formed**, provided no index wrapped to a negative
    number -/
theorem parse_image_wf {s : List Char} {t : Tree} (h : parse s = .ok t) (hn : NonNegTree t) : WFTree t := by
  obtain ⟨r, hc⟩ := parse_ok h
  obtain ⟨as, x, rfl, has, hx⟩ := chainP_sound _ hc
  refine ⟨as, x, rfl, ?_, ?_⟩
  · intro st hst
    exact ⟨(has st hst).1, (has st hst).2 (hn st (by simp [hst]))⟩
  · exact hx (hn ⟨[], x⟩ (by simp))

/-! ### the decidable form of `WFTree` -/
theorem validIdentB_iff (s : List Char) : validIdentB s = true ↔ ValidIdent s := by
  cases s with
  | nil => simp [validIdentB, ValidIdent]
  | cons c cs =>
    simp only [validIdentB, Bool.and_eq_true, List.all_eq_true]
    constructor
    · rintro ⟨h1, h2⟩; exact ⟨c, cs, rfl, h1, h2⟩
    · rintro ⟨c', cs', heq, h1, h2⟩
      injection heq with ha hb
      subst ha; subst hb
      exact ⟨h1, h2⟩

theorem safeIdentB_iff (s : List Char) : safeIdentB s = true ↔ SafeIdent s := by
  unfold SafeIdent
  constructor
  · intro h c t hs
    subst hs
    simp only [safeIdentB, Bool.not_eq_true', Bool.or_eq_false_iff, beq_eq_false_iff_ne, ne_eq] at h
    exact h
  · intro h
    unfold safeIdentB
    split
    · rename_i c t
      obtain ⟨h1, h2⟩ := h c t rfl
      simp [h1, h2]
    · rfl

theorem wfExprB_iff : ∀ (v : Expr) (b : Bool), wfExprG idxB safeIdentB b v = true ↔ WF b v := by
  intro v
  induction v with
  | operand i =>
    intro b
    simp only [wfExprG, idxB, Bool.and_eq_true, decide_eq_true_eq]
    constructor
    · rintro ⟨h1, h2⟩; exact .operand _ _ h1 h2
    · intro h; cases h with | operand _ _ h1 h2 => exact ⟨h1, h2⟩
  | ident s =>
    intro b
    simp only [wfExprG, Bool.and_eq_true, Bool.or_eq_true, Bool.not_eq_true', validIdentB_iff, safeIdentB_iff]
    constructor
    · rintro ⟨h1, h2⟩
      refine .ident _ _ h1 (fun hb => ?_)
      rcases h2 with h2 | h2
      · rw [hb] at h2; cases h2
      · exact h2
    · intro h
      cases h with
      | ident _ _ h1 h2 =>
        refine ⟨h1, ?_⟩
        cases b with
        | false => exact Or.inl rfl
        | true => exact Or.inr (h2 rfl)
  | add x y ihx ihy =>
    intro b
    simp only [wfExprG, Bool.and_eq_true, ihx, ihy]
    constructor
    · rintro ⟨h1, h2⟩; exact .add _ _ _ h1 h2
    · intro h; cases h with | add _ _ _ h1 h2 => exact ⟨h1, h2⟩
  | shift x k ih =>
    intro b
    simp only [wfExprG, Bool.and_eq_true, ih, decide_eq_true_eq]
    constructor
    · rintro ⟨h1, h2⟩; exact .shift _ _ _ h1 h2
    · intro h; cases h with | shift _ _ _ h1 h2 => exact ⟨h1, h2⟩
  | double x ih =>
    intro b
    simp only [wfExprG, ih]
    constructor
    · intro h1; exact .double _ _ h1
    · intro h; cases h with | double _ _ h1 => exact h1

theorem wfTreeB_iff (t : Tree) : wfTreeB t = true ↔ WFTree t := by
  unfold wfTreeB WFTree
  induction t with
  | nil =>
    simp only [wfTreeG]
    constructor
    · intro h; cases h
    · rintro ⟨as, x, h, _⟩
      cases as <;> simp at h
  | cons st r ih =>
    cases r with
    | nil =>
      simp only [wfTreeG, Bool.and_eq_true, wfExprB_iff]
      constructor
      · rintro ⟨h1, h2⟩
        refine ⟨[], st.e, ?_, (fun _ h => by cases h), h2⟩
        have : st.name = [] := by
          cases hn : st.name with
          | nil => rfl
          | cons a b => rw [hn] at h1; cases h1
        cases st
        simp only at this
        subst this
        rfl
      · rintro ⟨as, x, h, _, hx⟩
        cases as with
        | nil =>
          simp only [List.nil_append, List.cons.injEq, and_true] at h
          subst h
          exact ⟨rfl, hx⟩
        | cons a as' =>
          simp only [List.cons_append, List.cons.injEq] at h
          cases as' <;> simp at h
    | cons st2 r2 =>
      simp only [wfTreeG, Bool.and_eq_true, wfExprB_iff, validIdentB_iff]
      constructor
      · rintro ⟨⟨h1, h2⟩, h3⟩
        obtain ⟨as, x, heq, hall, hx⟩ := ih.1 h3
        refine ⟨st :: as, x, by rw [heq]; rfl, ?_, hx⟩
        intro s hs
        rcases List.mem_cons.1 hs with rfl | hs
        · exact ⟨h1, h2⟩
        · exact hall s hs
      · rintro ⟨as, x, heq, hall, hx⟩
        cases as with
        | nil => simp at heq
        | cons a as' =>
          simp only [List.cons_append, List.cons.injEq] at heq
          obtain ⟨rfl, heq⟩ := heq
          exact ⟨hall _ (by simp), ih.2 ⟨as', x, heq, fun s hs => hall s (by simp [hs]), hx⟩⟩

end P.PegF
