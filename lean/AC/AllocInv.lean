import AC.Alloc
namespace P.Alloc

theorem allocate_of_some {s : St} {i v : Nat} (h : s.var i = some v) : s.allocate i = s := by
  unfold St.allocate; simp [h]

theorem allocate_var_ne (s : St) (i j : Nat) (h : j ≠ i) : (s.allocate i).var j = s.var j := by
  unfold St.allocate
  cases hv : s.var i with
  | some v => rfl
  | none =>
    cases hg : s.avail.getLast? with
    | some w => simp [h]
    | none => simp [h]

theorem allocate_var_mono (s : St) (i j v : Nat) (h : s.var j = some v) : (s.allocate i).var j = some v := by
  by_cases hji : j = i
  · subst hji; rw [allocate_of_some h]; exact h
  · rw [allocate_var_ne s i j hji]; exact h

theorem inv_congr {s : St} {l1 l2 : List Nat} (h : ∀ i, i ∈ l1 ↔ i ∈ l2) (hi : Inv s l1) : Inv s l2 :=
  ⟨hi.avail_lt, hi.avail_nodup,
   fun i hi2 => hi.live_has i ((h i).2 hi2),
   fun i hi2 j hj2 => hi.live_inj i ((h i).2 hi2) j ((h j).2 hj2),
   fun v hv => (hi.cover v hv).imp id (fun ⟨i, hil, hiv⟩ => ⟨i, (h i).1 hil, hiv⟩),
   fun _ _ => Or.inr trivial⟩

/-- allocating an index that is live already, or has no entry yet -/
theorem allocate_inv {s : St} {live : List Nat} (h : Inv s live) (i : Nat)
    (hi : i ∈ live ∨ s.var i = none) : Inv (s.allocate i) (i :: live) := by
  by_cases hl : i ∈ live
  · obtain ⟨v, hv, _, _⟩ := h.live_has i hl
    rw [allocate_of_some hv]
    exact inv_congr (fun j => by simp; intro e; subst e; exact hl) h
  · have hn : s.var i = none := hi.resolve_left hl
    exact allocate_fresh h hn hl

/-- freeing the variable of a live index removes it from the live set -/
theorem free_inv {s : St} {live : List Nat} (h : Inv s live) (o v : Nat) (ho : o ∈ live)
    (hv : s.var o = some v) : Inv (s.free v) (live.filter (· ≠ o)) := by
  obtain ⟨v', hv', hvn, hva⟩ := h.live_has o ho
  have : v' = v := by rw [hv] at hv'; exact (Option.some.inj hv').symm
  subst this
  unfold St.free
  refine ⟨?_, ?_, ?_, ?_, ?_, fun _ _ => Or.inr trivial⟩
  · intro w hw
    rcases List.mem_append.mp hw with hw | hw
    · exact h.avail_lt w hw
    · simp at hw; subst hw; exact hvn
  · apply List.nodup_append.mpr
    refine ⟨h.avail_nodup, by simp, ?_⟩
    intro a ha b hb hab
    simp at hb; subst hb; subst hab; exact hva ha
  · intro j hj
    simp at hj
    obtain ⟨w, hw1, hw2, hw3⟩ := h.live_has j hj.1
    refine ⟨w, hw1, hw2, ?_⟩
    intro hm
    rcases List.mem_append.mp hm with hm | hm
    · exact hw3 hm
    · simp at hm; subst hm
      exact hj.2 (h.live_inj j hj.1 o ho (by rw [hw1, hv]))
  · intro j hj k hk hjk
    simp at hj hk
    exact h.live_inj j hj.1 k hk.1 hjk
  · intro w hw
    rcases h.cover w hw with hm | ⟨j, hj, hjv⟩
    · exact Or.inl (List.mem_append_left _ hm)
    · by_cases hjo : j = o
      · subst hjo
        have : w = v' := by rw [hv] at hjv; exact (Option.some.inj hjv).symm
        subst this
        exact Or.inl (List.mem_append_right _ (by simp))
      · exact Or.inr ⟨j, by simp [hj, hjo], hjv⟩

def liveBefore' (live : List Nat) (inst : Inst) : List Nat :=
  inst.op.inputs.reverse ++ live.filter (· ≠ inst.out)

/-- the inputs are allocated one after another -/
theorem foldl_allocate_inv : ∀ (xs : List Nat) {s : St} {live : List Nat}, Inv s live →
    (∀ x ∈ xs, x ∈ live ∨ s.var x = none) →
    Inv (xs.foldl St.allocate s) (xs.reverse ++ live) := by
  intro xs
  induction xs with
  | nil => intro s live h _; simpa using h
  | cons x xs ih =>
    intro s live h hx
    have h1 := allocate_inv h x (hx x (by simp))
    have h2 := ih (s := s.allocate x) (live := x :: live) h1 (by
      intro y hy
      by_cases hyx : y = x
      · left; simp [hyx]
      · rcases hx y (by simp [hy]) with hl | hn
        · left; simp [hl]
        · right; rw [allocate_var_ne s x y hyx]; exact hn)
    simp only [List.foldl_cons, List.reverse_cons, List.append_assoc, List.singleton_append]
    exact h2

theorem free_var (s : St) (v i : Nat) : (s.free v).var i = s.var i := rfl

/-- one reverse step preserves the invariant -/
theorem step_inv {s : St} {live : List Nat} (h : Inv s live) (inst : Inst)
    (ho : inst.out ∈ live ∨ s.var inst.out = none)
    (hin : ∀ x ∈ inst.op.inputs, x ≠ inst.out ∧ (x ∈ live ∨ s.var x = none)) :
    Inv (step s inst) (liveBefore' live inst) := by
  unfold step liveBefore'
  have h1 := allocate_inv h inst.out ho
  obtain ⟨v, hv, _, _⟩ := h1.live_has inst.out (by simp)
  simp only [hv, Option.getD_some]
  have h2 := free_inv h1 inst.out v (by simp) hv
  have hfilter : ∀ i, i ∈ (inst.out :: live).filter (· ≠ inst.out) ↔ i ∈ live.filter (· ≠ inst.out) := by
    intro i; simp
  have h3 := inv_congr hfilter h2
  apply foldl_allocate_inv _ h3
  intro x hx
  obtain ⟨hne, hx'⟩ := hin x hx
  rcases hx' with hl | hn
  · left; simp [hl, hne]
  · right
    rw [free_var, allocate_var_ne s inst.out x hne]; exact hn


/-! ### whole-program invariant -/
def outs (ir : List Inst) : List Nat := ir.map (·.out)

def liveAt : List Inst → List Nat
  | [] => []
  | inst :: suf => liveBefore' (liveAt suf) inst

/-- well-formedness, suffix-closed: outputs are pairwise distinct and no instruction reads its
    own output or the output of a later instruction -/
def WFs : List Inst → Prop
  | [] => True
  | inst :: suf => inst.out ∉ outs suf ∧ (∀ x ∈ inst.op.inputs, x ≠ inst.out ∧ x ∉ outs suf) ∧ WFs suf

def Supp (s : St) (live D : List Nat) : Prop := ∀ i, s.var i ≠ none → i ∈ live ∨ i ∈ D

theorem run_cons (inst : Inst) (suf : List Inst) : run (inst :: suf) = step (run suf) inst := by
  simp [run, List.foldl_append]

theorem foldl_allocate_var (xs : List Nat) : ∀ (s : St) (i : Nat), i ∉ xs → (xs.foldl St.allocate s).var i = s.var i := by
  induction xs with
  | nil => intro s i _; rfl
  | cons x xs ih =>
    intro s i hi
    simp only [List.foldl_cons]
    rw [ih _ _ (fun h => hi (List.mem_cons_of_mem _ h)), allocate_var_ne s x i (fun e => hi (e ▸ List.mem_cons_self))]

theorem foldl_allocate_mono (xs : List Nat) : ∀ (s : St) (i v : Nat), s.var i = some v →
    (xs.foldl St.allocate s).var i = some v := by
  induction xs with
  | nil => intro s i v h; exact h
  | cons x xs ih => intro s i v h; exact ih _ _ _ (allocate_var_mono s x i v h)

theorem step_var_mono (s : St) (inst : Inst) (i v : Nat) (h : s.var i = some v) :
    (step s inst).var i = some v := by
  unfold step
  apply foldl_allocate_mono
  rw [free_var]
  exact allocate_var_mono s inst.out i v h

theorem step_var_support (s : St) (inst : Inst) (i : Nat) (h : (step s inst).var i ≠ none) :
    s.var i ≠ none ∨ i = inst.out ∨ i ∈ inst.op.inputs := by
  by_cases h1 : i ∈ inst.op.inputs
  · exact Or.inr (Or.inr h1)
  · by_cases h2 : i = inst.out
    · exact Or.inr (Or.inl h2)
    · left
      unfold step at h
      rw [foldl_allocate_var _ _ _ h1, free_var, allocate_var_ne s inst.out i h2] at h
      exact h

theorem run_inv : ∀ (ir : List Inst), WFs ir → Inv (run ir) (liveAt ir) ∧ Supp (run ir) (liveAt ir) (outs ir) := by
  intro ir
  induction ir with
  | nil =>
    intro _
    refine ⟨⟨?_, ?_, ?_, ?_, ?_, fun _ _ => Or.inr trivial⟩, ?_⟩
    · intro v hv; simp [run, init] at hv
    · simp [run, init]
    · intro i hi; simp [liveAt] at hi
    · intro i hi; simp [liveAt] at hi
    · intro v hv; simp [run, init] at hv
    · intro i hi; simp [run, init] at hi
  | cons inst suf ih =>
    intro hwf
    obtain ⟨hout, hin, hsuf⟩ := hwf
    obtain ⟨hinv, hsupp⟩ := ih hsuf
    rw [run_cons]
    have ho : inst.out ∈ liveAt suf ∨ (run suf).var inst.out = none := by
      cases hv : (run suf).var inst.out with
      | none => exact Or.inr rfl
      | some v =>
        rcases hsupp inst.out (by rw [hv]; simp) with h | h
        · exact Or.inl h
        · exact absurd h hout
    have hin' : ∀ x ∈ inst.op.inputs, x ≠ inst.out ∧ (x ∈ liveAt suf ∨ (run suf).var x = none) := by
      intro x hx
      refine ⟨(hin x hx).1, ?_⟩
      cases hv : (run suf).var x with
      | none => exact Or.inr rfl
      | some v =>
        rcases hsupp x (by rw [hv]; simp) with h | h
        · exact Or.inl h
        · exact absurd h (hin x hx).2
    refine ⟨step_inv hinv inst ho hin', ?_⟩
    intro i hi
    rcases step_var_support _ _ _ hi with h | h | h
    · rcases hsupp i h with hl | hd
      · by_cases hio : i = inst.out
        · right; simp [outs, hio]
        · left; simp [liveAt, liveBefore', hl, hio]
      · right; simp [outs] at hd ⊢; exact Or.inr hd
    · right; simp [outs, h]
    · left; simp [liveAt, liveBefore', h]

theorem run_var_mono : ∀ (pre suf : List Inst) (i v : Nat), (run suf).var i = some v →
    (run (pre ++ suf)).var i = some v := by
  intro pre
  induction pre with
  | nil => intro suf i v h; exact h
  | cons inst pre ih =>
    intro suf i v h
    show (run (inst :: (pre ++ suf))).var i = some v
    rw [run_cons]
    exact step_var_mono _ _ _ _ (ih suf i v h)

theorem WFs_suffix : ∀ (pre suf : List Inst), WFs (pre ++ suf) → WFs suf := by
  intro pre
  induction pre with
  | nil => intro suf h; exact h
  | cons a pre ih => intro suf h; exact ih suf h.2.2

/-- **Interference freedom**: at every program point, two different values that are both still
    needed are kept in different variables of the final allocation. -/
theorem interference (pre suf : List Inst) (hwf : WFs (pre ++ suf)) (i j : Nat)
    (hi : i ∈ liveAt suf) (hj : j ∈ liveAt suf) (hij : i ≠ j) :
    (run (pre ++ suf)).var i ≠ (run (pre ++ suf)).var j := by
  obtain ⟨hinv, _⟩ := run_inv suf (WFs_suffix pre suf hwf)
  obtain ⟨vi, hvi, _, _⟩ := hinv.live_has i hi
  obtain ⟨vj, hvj, _, _⟩ := hinv.live_has j hj
  rw [run_var_mono pre suf i vi hvi, run_var_mono pre suf j vj hvj]
  intro h
  apply hij
  apply hinv.live_inj i hi j hj
  rw [hvi, hvj]; exact h

end P.Alloc
