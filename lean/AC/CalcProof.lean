import AC.CalcYard
import AC.CalcModel
/-! # C13 proofs about the executable model `AC.Calc` (CalcModel.lean)

1. the eager machine (division by zero halts at once) against the generic yard instantiated with
   `V = Option Int` (division by zero is `none`, absorbing) — hence `yardE = conv`;
2. the literal scanner on canonical decimal / `0x` / `0b` literals;
3. the character loop on rendered token lists;
4. inputs on which a value is returned have the shape `lit (op lit)*`. -/
namespace AC.Calc
open P.YP (Bop stop ipow opOfChar charOfOp sp)

/-! ## 1. eager machine = conventional semantics with absorbing division by zero -/

/-- operators on `Option Int`: `none` is "a division by zero happened" and is absorbing -/
def applyL (o : Bop) : Option Int → Option Int → Option Int
  | some a, some b => match applyE o a b with | .ok z => some z | .error _ => none
  | _, _ => none

def liftToks (toks : List (Bop × Int)) : List (Bop × Option Int) := toks.map fun p => (p.1, some p.2)

/-- **conventional value** of `n0 o1 n1 o2 n2 …` (`^` tightest and right-associative, then `* /`, then
    `+ -`, left-associative; `/` Euclidean; non-positive exponent ↦ 1); `none` iff some division
    performed by these rules has a zero divisor -/
def convO (n0 : Int) (toks : List (Bop × Int)) : Option Int := conv applyL (some n0) (liftToks toks)

def toOutcome : Option Int → Outcome
  | some v => .ok v
  | none => Outcome.divzero

theorem applyL_none_right (o : Bop) (a : Option Int) : applyL o a none = none := by
  cases a <;> rfl
theorem applyL_none_left (o : Bop) (b : Option Int) : applyL o none b = none := rfl

theorem popFor_keeps_none (o : Bop) : ∀ (os : List Bop) (ws : List (Option Int)) ws' os',
    none ∈ ws → popFor applyL o ws os = some (ws', os') → none ∈ ws' := by
  intro os
  induction os with
  | nil => intro ws ws' os' hn h; rw [popFor_nil] at h; cases h; exact hn
  | cons t ts ih =>
    intro ws ws' os' hn h
    by_cases hs : stop t o = true
    · rw [popFor_stop applyL hs] at h; cases h; exact hn
    · have hs' : stop t o = false := by simpa using hs
      match ws, hn, h with
      | [], hn, _ => cases hn
      | [_], _, h => unfold popFor at h; simp [hs'] at h
      | b :: a :: rest, hn, h =>
        rw [popFor_pop applyL hs'] at h
        refine ih _ _ _ ?_ h
        simp only [List.mem_cons] at hn ⊢
        rcases hn with hb | ha | hr
        · left; rw [← hb, applyL_none_right]
        · left; rw [← ha, applyL_none_left]
        · right; exact hr

theorem finish_none : ∀ (os : List Bop) (ws : List (Option Int)) w,
    none ∈ ws → finish applyL ws os = some w → w = none := by
  intro os
  induction os with
  | nil =>
    intro ws w hn h
    match ws, hn, h with
    | [], hn, _ => cases hn
    | [v], hn, h =>
      simp only [finish, Option.some.injEq] at h
      simp only [List.mem_singleton] at hn
      rw [← h, ← hn]
    | _ :: _ :: _, _, h => simp [finish] at h
  | cons t ts ih =>
    intro ws w hn h
    match ws, hn, h with
    | [], hn, _ => cases hn
    | [_], _, h => simp [finish] at h
    | b :: a :: rest, hn, h =>
      rw [finish] at h
      refine ih _ _ ?_ h
      simp only [List.mem_cons] at hn ⊢
      rcases hn with hb | ha | hr
      · left; rw [← hb, applyL_none_right]
      · left; rw [← ha, applyL_none_left]
      · right; exact hr

theorem run_none : ∀ (toks : List (Bop × Option Int)) (ws : List (Option Int)) (os : List Bop) w,
    none ∈ ws → run applyL ws os toks = some w → w = none := by
  intro toks
  induction toks with
  | nil => intro ws os w hn h; exact finish_none os ws w hn h
  | cons tk r ih =>
    intro ws os w hn h
    obtain ⟨o, n⟩ := tk
    rw [run] at h
    cases hp : popFor applyL o ws os with
    | none => rw [hp] at h; cases h
    | some res =>
      obtain ⟨ws', os'⟩ := res
      rw [hp] at h
      exact ih _ _ _ (List.mem_cons_of_mem _ (popFor_keeps_none o os ws ws' os' hn hp)) h

/-- one `yard.operator` call: eager against lazy -/
theorem popForE_sim (o : Bop) : ∀ (os : List Bop) (vs : List Int),
    match popForE applyE o vs os with
    | .ok (vs', os') => popFor applyL o (vs.map some) os = some (vs'.map some, os')
    | .err => popFor applyL o (vs.map some) os = none
    | .halt _ => ∀ ws' os', popFor applyL o (vs.map some) os = some (ws', os') → none ∈ ws' := by
  intro os
  induction os with
  | nil => intro vs; simp [popForE, popFor_nil]
  | cons t ts ih =>
    intro vs
    by_cases hs : stop t o = true
    · simp [popForE, hs, popFor_stop applyL hs]
    · have hs' : stop t o = false := by simpa using hs
      match vs with
      | [] => simp [popForE, popFor, hs']
      | [_] => simp [popForE, popFor, hs']
      | b :: a :: rest =>
        simp only [popForE, hs', Bool.false_eq_true, if_false, List.map_cons]
        rw [popFor_pop applyL hs']
        cases hap : applyE t a b with
        | ok z =>
          have : applyL t (some a) (some b) = some z := by simp [applyL, hap]
          rw [this]
          exact ih (z :: rest)
        | error e =>
          have : applyL t (some a) (some b) = none := by simp [applyL, hap]
          rw [this]
          intro ws' os' h
          exact popFor_keeps_none o ts _ ws' os' (List.mem_cons_self ..) h

/-- `yard.result`: eager against lazy -/
theorem finishE_sim : ∀ (os : List Bop) (vs : List Int),
    match finishE applyE vs os with
    | .ok v => finish applyL (vs.map some) os = some (some v)
    | .err => finish applyL (vs.map some) os = none
    | .halt _ => ∀ w, finish applyL (vs.map some) os = some w → w = none := by
  intro os
  induction os with
  | nil =>
    intro vs
    match vs with
    | [] => simp [finishE, finish]
    | [v] => simp [finishE, finish]
    | _ :: _ :: _ => simp [finishE, finish]
  | cons t ts ih =>
    intro vs
    match vs with
    | [] => simp [finishE, finish]
    | [_] => simp [finishE, finish]
    | b :: a :: rest =>
      simp only [finishE, List.map_cons]
      rw [finish]
      cases hap : applyE t a b with
      | ok z =>
        have : applyL t (some a) (some b) = some z := by simp [applyL, hap]
        rw [this]
        exact ih (z :: rest)
      | error e =>
        have : applyL t (some a) (some b) = none := by simp [applyL, hap]
        rw [this]
        intro w h
        exact finish_none ts _ w (List.mem_cons_self ..) h

/-- whenever the lazy machine ends without a stack error, the eager machine ends with the same value,
    or with `divzero` where the lazy value is `none` -/
theorem runE_sim : ∀ (toks : List (Bop × Int)) (vs : List Int) (os : List Bop) (w : Option Int),
    run applyL (vs.map some) os (liftToks toks) = some w → runE applyE vs os toks = toOutcome w := by
  intro toks
  induction toks with
  | nil =>
    intro vs os w h
    simp only [liftToks, List.map_nil, run] at h
    simp only [runE]
    have := finishE_sim os vs
    cases hf : finishE applyE vs os with
    | ok v => rw [hf] at this; simp only [] at this; rw [this] at h; cases h; rfl
    | err => rw [hf] at this; simp only [] at this; rw [this] at h; cases h
    | halt e => rw [hf] at this; simp only [] at this; rw [this w h]; cases e; rfl
  | cons tk r ih =>
    intro vs os w h
    obtain ⟨o, n⟩ := tk
    simp only [liftToks, List.map_cons, run] at h
    simp only [runE]
    have := popForE_sim o os vs
    cases hp : popForE applyE o vs os with
    | ok res =>
      obtain ⟨vs', os'⟩ := res
      rw [hp] at this; simp only [] at this
      rw [this] at h; simp only [] at h
      exact ih (n :: vs') (o :: os') w h
    | err => rw [hp] at this; simp only [] at this; rw [this] at h; cases h
    | halt e =>
      rw [hp] at this; simp only [] at this
      cases hq : popFor applyL o (vs.map some) os with
      | none => rw [hq] at h; cases h
      | some res =>
        obtain ⟨ws', os'⟩ := res
        rw [hq] at h; simp only [] at h
        have hn := this ws' os' hq
        have := run_none _ _ _ w (List.mem_cons_of_mem (some n) hn) h
        rw [this]; cases e; rfl

/-- the yard of `calc.go` on a token list returns the conventional value, and reports a division
    by zero exactly when the conventional evaluation divides by zero -/
theorem yardE_eq_conv (n0 : Int) (toks : List (Bop × Int)) :
    yardE n0 toks = toOutcome (convO n0 toks) :=
  runE_sim toks [n0] [] _ (yard_eq_conv applyL (some n0) (liftToks toks))

/-- more generally from any stacks the lazy machine accepts -/
theorem runE_of_run (toks : List (Bop × Int)) (vs : List Int) (os : List Bop) (w : Option Int)
    (h : run applyL (vs.map some) os (liftToks toks) = some w) :
    runE applyE vs os toks = toOutcome w := runE_sim toks vs os w h

/-! ## 2. the literal scanner on canonical literals -/

inductive Base | dec | hex | bin deriving DecidableEq, Repr

/-- a literal of the property's grammar: optional minus, magnitude, base (`-0` is allowed) -/
structure Lit where
  neg : Bool
  mag : Nat
  base : Base

def Lit.val (l : Lit) : Int := sgn l.neg l.mag

/-- decimal without superfluous leading zero, `0x` + lower-case hex digits, `0b` + binary digits -/
def Lit.body (l : Lit) : List Char :=
  match l.base with
  | .dec => Nat.toDigits 10 l.mag
  | .hex => '0' :: 'x' :: Nat.toDigits 16 l.mag
  | .bin => '0' :: 'b' :: Nat.toDigits 2 l.mag

def Lit.text (l : Lit) : List Char := if l.neg then '-' :: l.body else l.body

/-- what may follow a literal for the scanner to stop there: anything that is not a lower-case hex
    digit and not `x` (in a rendered expression: the end, a blank or an operator) -/
def Sep (r : List Char) : Prop := ∀ c t, r = c :: t → isHex c = false ∧ c ≠ 'x'

theorem sep_facts {c : Char} (h : isHex c = false ∧ c ≠ 'x') :
    isHex c = false ∧ c.isDigit = false ∧ isBin c = false ∧ c ≠ 'x' ∧ c ≠ 'b' := by
  obtain ⟨h1, h2⟩ := h
  refine ⟨h1, ?_, ?_, h2, ?_⟩
  · unfold isHex at h1; simp only [Bool.or_eq_false_iff] at h1; exact h1.1
  · unfold isBin
    by_cases h0 : c = '0'
    · subst h0; exact absurd h1 (by decide)
    · by_cases h1' : c = '1'
      · subst h1'; exact absurd h1 (by decide)
      · simp [h0, h1']
  · intro hb; subst hb; exact absurd h1 (by decide)

theorem sep_char_blank_or_op {c : Char} (h : c = ' ' ∨ ∃ o, c = charOfOp o) : isHex c = false ∧ c ≠ 'x' := by
  rcases h with h | ⟨o, h⟩
  · subst h; decide
  · subst h; cases o <;> decide

theorem digVal_digitChar {d : Nat} (h : d < 16) : digVal (Nat.digitChar d) = d := by
  have : d = 0 ∨ d = 1 ∨ d = 2 ∨ d = 3 ∨ d = 4 ∨ d = 5 ∨ d = 6 ∨ d = 7 ∨ d = 8 ∨ d = 9 ∨ d = 10 ∨
      d = 11 ∨ d = 12 ∨ d = 13 ∨ d = 14 ∨ d = 15 := by omega
  rcases this with h|h|h|h|h|h|h|h|h|h|h|h|h|h|h|h <;> subst h <;> decide

theorem isHex_digitChar {d : Nat} (h : d < 16) : isHex (Nat.digitChar d) = true := by
  have : d = 0 ∨ d = 1 ∨ d = 2 ∨ d = 3 ∨ d = 4 ∨ d = 5 ∨ d = 6 ∨ d = 7 ∨ d = 8 ∨ d = 9 ∨ d = 10 ∨
      d = 11 ∨ d = 12 ∨ d = 13 ∨ d = 14 ∨ d = 15 := by omega
  rcases this with h|h|h|h|h|h|h|h|h|h|h|h|h|h|h|h <;> subst h <;> decide

theorem isBin_digitChar {d : Nat} (h : d < 2) : isBin (Nat.digitChar d) = true := by
  have : d = 0 ∨ d = 1 := by omega
  rcases this with h|h <;> subst h <;> decide

theorem mem_toDigits {b : Nat} (hb : 1 < b) (n : Nat) :
    ∀ c, c ∈ Nat.toDigits b n → ∃ d, d < b ∧ c = Nat.digitChar d := by
  induction n using Nat.base_induction b hb with
  | single m hm =>
    intro c h
    rw [Nat.toDigits_of_lt_base hm, List.mem_singleton] at h
    exact ⟨m, hm, h⟩
  | digit m k hk hm ih =>
    intro c h
    rw [← Nat.toDigits_append_toDigits hb hm hk, List.mem_append] at h
    rcases h with h | h
    · exact ih c h
    · rw [Nat.toDigits_of_lt_base hk, List.mem_singleton] at h
      exact ⟨k, hk, h⟩

theorem valOf_append_single (b : Nat) (ds : List Char) (c : Char) :
    valOf b (ds ++ [c]) = b * valOf b ds + digVal c := by
  simp [valOf, List.foldl_append]

theorem valOf_toDigits {b : Nat} (hb : 1 < b) (hb16 : b ≤ 16) (n : Nat) :
    valOf b (Nat.toDigits b n) = n := by
  induction n using Nat.base_induction b hb with
  | single m hm =>
    rw [Nat.toDigits_of_lt_base hm]
    simp [valOf, digVal_digitChar (by omega : m < 16)]
  | digit m k hk hm ih =>
    rw [← Nat.toDigits_append_toDigits hb hm hk, Nat.toDigits_of_lt_base hk, valOf_append_single, ih,
      digVal_digitChar (by omega : k < 16)]

theorem takeWhile_append_stop (p : Char → Bool) (ds r : List Char) (hd : ∀ x ∈ ds, p x = true)
    (hr : ∀ c t, r = c :: t → p c = false) :
    (ds ++ r).takeWhile p = ds ∧ (ds ++ r).dropWhile p = r := by
  induction ds with
  | nil =>
    cases r with
    | nil => simp
    | cons c t => simp [hr c t rfl]
  | cons a ds ih =>
    have ha := hd a (by simp)
    have := ih (fun x hx => hd x (by simp [hx]))
    simp [ha, this]

theorem prefixed_ok (neg : Bool) (b : Nat) (hb : 1 < b) (hb16 : b ≤ 16) (p : Char → Bool)
    (hp : ∀ d, d < b → p (Nat.digitChar d) = true) (n : Nat) (r : List Char)
    (hr : ∀ c t, r = c :: t → p c = false) :
    prefixed neg b p (Nat.toDigits b n ++ r) = some (sgn neg n, r) := by
  have hd : ∀ x ∈ Nat.toDigits b n, p x = true := by
    intro x hx
    obtain ⟨d, hdb, rfl⟩ := mem_toDigits hb n x hx
    exact hp d hdb
  obtain ⟨t1, t2⟩ := takeWhile_append_stop p _ r hd hr
  unfold prefixed
  simp only [t1, t2, valOf_toDigits hb hb16]
  have : (Nat.toDigits b n).isEmpty = false := by
    cases h : Nat.toDigits b n with
    | nil => exact absurd h Nat.toDigits_ne_nil
    | cons _ _ => rfl
  simp [this]

/-- a canonical decimal digit string does not look like a `0b` / `0x` prefix, whatever follows -/
theorem dec_no_prefix (n : Nat) (r : List Char) (hr : Sep r) (e : Char) (he : e = 'b' ∨ e = 'x') :
    ['0', e].isPrefixOf (Nat.toDigits 10 n ++ r) = false := by
  have hcan := P.YP.toDigits_canonical n
  cases hD : Nat.toDigits 10 n with
  | nil => exact absurd hD Nat.toDigits_ne_nil
  | cons h t =>
    rw [hD] at hcan
    cases t with
    | nil =>
      cases r with
      | nil => simp [List.isPrefixOf]
      | cons c t' =>
        obtain ⟨_, _, _, hx, hb⟩ := sep_facts (hr c t' rfl)
        have : (e == c) = false := by
          rcases he with he | he <;> subst he <;> simp
          · exact fun h => hb h.symm
          · exact fun h => hx h.symm
        simp [List.isPrefixOf, this]
    | cons c2 t2 =>
      have : h ≠ '0' := by
        intro h0; subst h0; simp at hcan
      have : ('0' == h) = false := by simp; exact fun e => this e.symm
      simp [List.isPrefixOf, this]

theorem numberBody_ok (neg : Bool) (l : Lit) (r : List Char) (hr : Sep r) :
    numberBody neg (l.body ++ r) = some (sgn neg l.mag, r) := by
  have hsep : ∀ c t, r = c :: t → isHex c = false ∧ c.isDigit = false ∧ isBin c = false :=
    fun c t h => let f := sep_facts (hr c t h); ⟨f.1, f.2.1, f.2.2.1⟩
  unfold Lit.body numberBody
  cases hb : l.base with
  | hex =>
    simp only [List.cons_append]
    have h1 : ['0', 'b'].isPrefixOf ('0' :: 'x' :: (Nat.toDigits 16 l.mag ++ r)) = false := by
      simp [List.isPrefixOf]
    have h2 : ['0', 'x'].isPrefixOf ('0' :: 'x' :: (Nat.toDigits 16 l.mag ++ r)) = true := by
      simp [List.isPrefixOf]
    rw [h1, h2]
    simp only [Bool.false_eq_true, if_false, if_true, List.drop_succ_cons, List.drop_zero]
    exact prefixed_ok neg 16 (by omega) (by omega) isHex (fun d hd => isHex_digitChar hd) _ r
      (fun c t h => (hsep c t h).1)
  | bin =>
    simp only [List.cons_append]
    have h1 : ['0', 'b'].isPrefixOf ('0' :: 'b' :: (Nat.toDigits 2 l.mag ++ r)) = true := by
      simp [List.isPrefixOf]
    rw [h1]
    simp only [if_true, List.drop_succ_cons, List.drop_zero]
    exact prefixed_ok neg 2 (by omega) (by omega) isBin (fun d hd => isBin_digitChar hd) _ r
      (fun c t h => (hsep c t h).2.2)
  | dec =>
    simp only []
    rw [dec_no_prefix l.mag r hr 'b' (Or.inl rfl), dec_no_prefix l.mag r hr 'x' (Or.inr rfl)]
    simp only [Bool.false_eq_true, if_false]
    have hdig : ∀ x ∈ Nat.toDigits 10 l.mag, x.isDigit = true :=
      fun x hx => Nat.isDigit_of_mem_toDigits (by omega) (by omega) hx
    obtain ⟨t1, t2⟩ := takeWhile_append_stop Char.isDigit _ r hdig (fun c t h => (hsep c t h).2.1)
    have hval := valOf_toDigits (b := 10) (by omega) (by omega) l.mag
    have hcan := P.YP.toDigits_canonical l.mag
    unfold unprefixed
    rw [t1, t2]
    simp only []
    split
    · rename_i h; exact absurd h Nat.toDigits_ne_nil
    · rename_i h
      rw [h] at hval
      have : l.mag = 0 := by rw [← hval]; decide
      rw [this]; cases neg <;> rfl
    · rename_i ds hne h
      rw [h] at hcan
      cases ds with
      | nil => exact absurd rfl hne
      | cons a b => simp at hcan
    · rw [hval]

theorem Lit.body_head (l : Lit) : ∃ h t, l.body = h :: t ∧ h.isDigit = true := by
  unfold Lit.body
  cases l.base with
  | hex => exact ⟨'0', _, rfl, by decide⟩
  | bin => exact ⟨'0', _, rfl, by decide⟩
  | dec =>
    cases hd : Nat.toDigits 10 l.mag with
    | nil => exact absurd hd Nat.toDigits_ne_nil
    | cons a b =>
      exact ⟨a, b, rfl, Nat.isDigit_of_mem_toDigits (b := 10) (n := l.mag) (by omega) (by omega)
        (by rw [hd]; simp)⟩

theorem number_of_not_minus (b : List Char) (h : ∀ t, b ≠ '-' :: t) : number b = numberBody false b := by
  unfold number
  split
  · rename_i r; exact absurd rfl (h r)
  · rfl

/-- **the scanner reads back every literal of the property's grammar** -/
theorem number_ok (l : Lit) (r : List Char) (hr : Sep r) : number (l.text ++ r) = some (l.val, r) := by
  unfold Lit.text Lit.val
  cases hn : l.neg with
  | true =>
    simp only [if_true, List.cons_append]
    show numberBody true (l.body ++ r) = _
    exact numberBody_ok true l r hr
  | false =>
    simp only [Bool.false_eq_true, if_false]
    obtain ⟨h, t, hb, hd⟩ := l.body_head
    rw [number_of_not_minus]
    · exact numberBody_ok false l r hr
    · intro t' he
      rw [hb] at he
      simp only [List.cons_append, List.cons.injEq] at he
      rw [he.1] at hd
      exact absurd hd (by decide)

/-! ## 3. the character loop on rendered token lists -/

/-- `(blanks op blanks literal)*`, then trailing blanks; `pad` supplies the blank counts -/
def renderRest (pad : Nat → Nat) : Nat → List (Bop × Lit) → List Char
  | i, [] => sp (pad i)
  | i, (o, l) :: r => sp (pad i) ++ charOfOp o :: (sp (pad (i + 1)) ++ (l.text ++ renderRest pad (i + 2) r))

/-- a rendering of the token list `n0 (o1, l1) (o2, l2) …`: every literal in its own base and sign
    form, any number of blanks (given by `pad`) before every token and at the end -/
def render (pad : Nat → Nat) (n0 : Lit) (toks : List (Bop × Lit)) : List Char :=
  sp (pad 0) ++ (n0.text ++ renderRest pad 1 toks)

def tokVals (toks : List (Bop × Lit)) : List (Bop × Int) := toks.map fun p => (p.1, p.2.val)

section loop
variable {ε : Type} (ap : Bop → Int → Int → Except ε Int)

theorem evalLoop_skip : ∀ (k f : Nat) (ex : Bool) (vs : List Int) (os : List Bop) (r : List Char),
    evalLoop ap (f + k) ex vs os (sp k ++ r) = evalLoop ap f ex vs os r := by
  intro k
  induction k with
  | zero => intro f ex vs os r; simp [sp]
  | succ k ih =>
    intro f ex vs os r
    have : f + (k + 1) = (f + k) + 1 := by omega
    rw [this]
    simp only [sp, List.replicate_succ, List.cons_append, evalLoop, if_true]
    exact ih f ex vs os r

theorem Lit.text_head (l : Lit) : ∃ c t, l.text = c :: t ∧ c ≠ ' ' := by
  unfold Lit.text
  split
  · exact ⟨'-', _, rfl, by decide⟩
  · obtain ⟨h, t, hb, hd⟩ := l.body_head
    refine ⟨h, t, hb, ?_⟩
    intro e; rw [e] at hd; exact absurd hd (by decide)

theorem renderRest_sep (pad : Nat → Nat) (i : Nat) (toks : List (Bop × Lit)) : Sep (renderRest pad i toks) := by
  intro c t h
  cases toks with
  | nil =>
    simp only [renderRest, sp] at h
    cases hp : pad i with
    | zero => rw [hp] at h; simp at h
    | succ k => rw [hp] at h; simp [List.replicate_succ] at h; exact sep_char_blank_or_op (Or.inl h.1.symm)
  | cons tk r =>
    obtain ⟨o, n⟩ := tk
    simp only [renderRest, sp] at h
    cases hp : pad i with
    | zero => rw [hp] at h; simp at h; exact sep_char_blank_or_op (Or.inr ⟨o, h.1.symm⟩)
    | succ k => rw [hp] at h; simp [List.replicate_succ] at h; exact sep_char_blank_or_op (Or.inl h.1.symm)

/-- reading one literal at an operand position (after its blanks) -/
theorem evalLoop_operand (f : Nat) (vs : List Int) (os : List Bop) (l : Lit) (r : List Char) (hr : Sep r) :
    evalLoop ap (f + 1) true vs os (l.text ++ r) = evalLoop ap f false (l.val :: vs) os r := by
  obtain ⟨c, t, hl, hc⟩ := l.text_head
  have hnum := number_ok l r hr
  rw [hl] at hnum ⊢
  simp only [List.cons_append] at hnum ⊢
  simp only [evalLoop, hc, if_false, if_true, hnum]

theorem opOfChar_charOfOp (o : Bop) : opOfChar (charOfOp o) = some o := by cases o <;> rfl
theorem charOfOp_ne_space (o : Bop) : charOfOp o ≠ ' ' := by cases o <;> decide

/-- the loop on rendered text follows the token-level machine `runE` -/
theorem evalLoop_render (pad : Nat → Nat) : ∀ (toks : List (Bop × Lit)) (i f : Nat) (vs : List Int) (os : List Bop),
    (renderRest pad i toks).length < f →
    evalLoop ap f false vs os (renderRest pad i toks) = runE ap vs os (tokVals toks) := by
  intro toks
  induction toks with
  | nil =>
    intro i f vs os hf
    simp only [renderRest] at hf ⊢
    have hlen : (sp (pad i)).length = pad i := by simp [sp]
    obtain ⟨f', rfl⟩ : ∃ f', f = f' + pad i := ⟨f - pad i, by omega⟩
    have := evalLoop_skip ap (pad i) f' false vs os []
    simp only [List.append_nil] at this
    rw [this]
    obtain ⟨f'', rfl⟩ : ∃ f'', f' = f'' + 1 := ⟨f' - 1, by omega⟩
    simp [evalLoop, runE, tokVals]
  | cons tk r ih =>
    intro i f vs os hf
    obtain ⟨o, n⟩ := tk
    simp only [renderRest] at hf ⊢
    simp only [List.length_append, List.length_cons, sp, List.length_replicate] at hf
    obtain ⟨f1, rfl⟩ : ∃ f1, f = f1 + pad i := ⟨f - pad i, by omega⟩
    rw [evalLoop_skip ap (pad i) f1 false vs os]
    obtain ⟨f2, rfl⟩ : ∃ f2, f1 = f2 + 1 := ⟨f1 - 1, by omega⟩
    simp only [evalLoop, charOfOp_ne_space, if_false, Bool.false_eq_true, opOfChar_charOfOp, runE, tokVals,
      List.map_cons]
    cases hp : popForE ap o vs os with
    | err => rfl
    | halt e => rfl
    | ok res =>
      obtain ⟨vs', os'⟩ := res
      simp only []
      obtain ⟨f3, rfl⟩ : ∃ f3, f2 = f3 + pad (i + 1) := ⟨f2 - pad (i + 1), by omega⟩
      rw [evalLoop_skip ap (pad (i + 1)) f3 true vs' (o :: os')]
      obtain ⟨f4, rfl⟩ : ∃ f4, f3 = f4 + 1 := ⟨f3 - 1, by omega⟩
      rw [evalLoop_operand ap f4 vs' (o :: os') n _ (renderRest_sep pad (i + 2) r)]
      apply ih (i + 2) f4 (n.val :: vs') (o :: os')
      have hlt : 0 < n.text.length := by
        obtain ⟨c, t, hl, _⟩ := n.text_head; rw [hl]; simp
      omega

/-- the character loop on a rendering is the token-level machine on the literal values -/
theorem evalWith_render (pad : Nat → Nat) (n0 : Lit) (toks : List (Bop × Lit)) :
    evalWith ap (render pad n0 toks) = runE ap [n0.val] [] (tokVals toks) := by
  unfold evalWith render
  have hlen : (sp (pad 0) ++ (n0.text ++ renderRest pad 1 toks)).length
      = pad 0 + (n0.text.length + (renderRest pad 1 toks).length) := by simp [sp]
  have hlt : 0 < n0.text.length := by
    obtain ⟨c, t, hl, _⟩ := n0.text_head; rw [hl]; simp
  rw [hlen]
  have e1 : pad 0 + (n0.text.length + (renderRest pad 1 toks).length) + 1
      = (n0.text.length + (renderRest pad 1 toks).length + 1) + pad 0 := by omega
  rw [e1, evalLoop_skip]
  have e2 : n0.text.length + (renderRest pad 1 toks).length + 1
      = (n0.text.length + (renderRest pad 1 toks).length) + 1 := rfl
  rw [e2, evalLoop_operand ap _ [] [] n0 _ (renderRest_sep pad 1 toks)]
  exact evalLoop_render ap pad toks 1 _ [n0.val] [] (by omega)
end loop

/-- **C13 end to end on rendered expressions**: `Eval` of any rendering of a token list is the
    conventional value, or the division-by-zero error when the conventional evaluation divides by zero -/
theorem eval_render (pad : Nat → Nat) (n0 : Lit) (toks : List (Bop × Lit)) :
    eval (render pad n0 toks) = toOutcome (convO n0.val (tokVals toks)) := by
  unfold eval
  rw [evalWith_render]
  exact yardE_eq_conv n0.val (tokVals toks)

/-! ## 4. a value is returned only on inputs of the shape `lit (op lit)*` -/

/-- `Shape true s`: `s` is blanks, a literal accepted by `number`, then `Shape false`;
    `Shape false s`: `s` is blanks and then either the end or an operator followed by `Shape true` -/
inductive Shape : Bool → List Char → Prop
  | done : Shape false []
  | blank {ex : Bool} {s : List Char} : Shape ex s → Shape ex (' ' :: s)
  | lit {c : Char} {r : List Char} {x : Int} {rest : List Char} :
      c ≠ ' ' → number (c :: r) = some (x, rest) → Shape false rest → Shape true (c :: r)
  | op {c : Char} {o : Bop} {r : List Char} : opOfChar c = some o → Shape true r → Shape false (c :: r)

section shape
variable {ε : Type} (ap : Bop → Int → Int → Except ε Int)

theorem popForE_len (o : Bop) : ∀ (os : List Bop) (vs vs' : List Int) (os' : List Bop),
    popForE ap o vs os = .ok (vs', os') → vs'.length + os.length = vs.length + os'.length := by
  intro os
  induction os with
  | nil => intro vs vs' os' h; simp [popForE] at h; obtain ⟨rfl, rfl⟩ := h; rfl
  | cons t ts ih =>
    intro vs vs' os' h
    unfold popForE at h
    split at h
    · simp at h; obtain ⟨rfl, rfl⟩ := h; rfl
    · split at h
      · rename_i b a rest
        split at h
        · rename_i z hz
          have := ih _ _ _ h
          simp only [List.length_cons] at this ⊢
          omega
        · cases h
      · cases h

theorem finishE_len : ∀ (os : List Bop) (vs : List Int) (v : Int),
    finishE ap vs os = .ok v → vs.length = os.length + 1 := by
  intro os
  induction os with
  | nil =>
    intro vs v h
    match vs, h with
    | [], h => simp [finishE] at h
    | [_], _ => rfl
    | _ :: _ :: _, h => simp [finishE] at h
  | cons t ts ih =>
    intro vs v h
    match vs, h with
    | [], h => simp [finishE] at h
    | [_], h => simp [finishE] at h
    | b :: a :: rest, h =>
      simp only [finishE] at h
      split at h
      · have := ih _ _ h
        simp only [List.length_cons] at this ⊢
        omega
      · cases h

/-- if the loop returns a value, the remaining input has the expected shape -/
theorem evalLoop_shape : ∀ (f : Nat) (ex : Bool) (vs : List Int) (os : List Bop) (s : List Char) (v : Int),
    vs.length + (if ex then 1 else 0) = os.length + 1 →
    evalLoop ap f ex vs os s = .ok v → Shape ex s := by
  intro f
  induction f with
  | zero => intro ex vs os s v _ h; simp [evalLoop] at h
  | succ f ih =>
    intro ex vs os s v hlen h
    cases s with
    | nil =>
      simp only [evalLoop] at h
      have := finishE_len ap os vs v h
      cases ex with
      | true => simp at hlen; omega
      | false => exact Shape.done
    | cons c r =>
      simp only [evalLoop] at h
      by_cases hc : c = ' '
      · subst hc
        simp only [if_true] at h
        exact Shape.blank (ih ex vs os r v hlen h)
      · simp only [hc, if_false] at h
        cases ex with
        | true =>
          simp only [if_true] at h
          cases hn : number (c :: r) with
          | none => rw [hn] at h; cases h
          | some res =>
            obtain ⟨x, rest⟩ := res
            rw [hn] at h
            simp only [] at h
            refine Shape.lit hc hn (ih false (x :: vs) os rest v ?_ h)
            simp at hlen ⊢; omega
        | false =>
          simp only [Bool.false_eq_true, if_false] at h
          cases ho : opOfChar c with
          | none => rw [ho] at h; cases h
          | some o =>
            rw [ho] at h
            simp only [] at h
            cases hp : popForE ap o vs os with
            | err => rw [hp] at h; cases h
            | halt e => rw [hp] at h; cases h
            | ok res =>
              obtain ⟨vs', os'⟩ := res
              rw [hp] at h
              simp only [] at h
              have := popForE_len ap o os vs vs' os' hp
              refine Shape.op ho (ih true vs' (o :: os') r v ?_ h)
              simp at hlen ⊢; omega
end shape

/-- `Eval` returns a value only on `blanks lit (blanks op blanks lit)* blanks` -/
theorem eval_ok_shape (s : List Char) (v : Int) (h : eval s = .ok v) : Shape true s :=
  evalLoop_shape applyE (s.length + 1) true [] [] s v rfl h

/-! ### inversion of `Shape` -/
theorem Shape.unblank {ex : Bool} {s : List Char} (h : Shape ex (' ' :: s)) : Shape ex s := by
  cases h with
  | blank h => exact h
  | lit hc _ _ => exact absurd rfl hc
  | op ho _ => have : opOfChar ' ' = none := rfl; rw [this] at ho; cases ho

theorem Shape.inv_op {c : Char} {r : List Char} (h : Shape false (c :: r)) (hc : c ≠ ' ') :
    ∃ o, opOfChar c = some o ∧ Shape true r := by
  cases h with
  | blank _ => exact absurd rfl hc
  | op ho h2 => exact ⟨_, ho, h2⟩

theorem Shape.inv_lit {c : Char} {r : List Char} (h : Shape true (c :: r)) (hc : c ≠ ' ') :
    ∃ x rest, number (c :: r) = some (x, rest) ∧ Shape false rest := by
  cases h with
  | blank _ => exact absurd rfl hc
  | lit _ hn h2 => exact ⟨_, _, hn, h2⟩

theorem Shape.unblanks {ex : Bool} : ∀ (k : Nat) {s : List Char}, Shape ex (sp k ++ s) → Shape ex s := by
  intro k
  induction k with
  | zero => intro s h; simpa [sp] using h
  | succ k ih =>
    intro s h
    simp only [sp, List.replicate_succ, List.cons_append] at h
    exact ih h.unblank

theorem not_shape_true_nil : ¬ Shape true [] := by intro h; cases h

theorem not_shape_true_blanks (k : Nat) : ¬ Shape true (sp k) := by
  intro h
  have : Shape true (sp k ++ []) := by simpa using h
  exact not_shape_true_nil (Shape.unblanks k this)

/-- operand position: a non-blank character at which `number` fails -/
theorem not_shape_operand {c : Char} {r : List Char} (hc : c ≠ ' ') (hn : number (c :: r) = none) (k : Nat) :
    ¬ Shape true (sp k ++ c :: r) := by
  intro h
  obtain ⟨x, rest, hn', _⟩ := (Shape.unblanks k h).inv_lit hc
  rw [hn] at hn'; cases hn'

/-- operator position: a non-blank character that is not an operator -/
theorem not_shape_operator {c : Char} {r : List Char} (hc : c ≠ ' ') (ho : opOfChar c = none) (k : Nat) :
    ¬ Shape false (sp k ++ c :: r) := by
  intro h
  obtain ⟨o, ho', _⟩ := (Shape.unblanks k h).inv_op hc
  rw [ho] at ho'; cases ho'

theorem sep_append (a tail : List Char) (ha : Sep a) (ht : Sep tail) : Sep (a ++ tail) := by
  intro c t h
  cases a with
  | nil => exact ht c t h
  | cons x xs => simp only [List.cons_append, List.cons.injEq] at h; exact h.1 ▸ ha x xs rfl

/-- after the rendered tokens, the shape continues at an operator position -/
theorem shape_renderRest (pad : Nat → Nat) (tail : List Char) (ht : Sep tail) :
    ∀ (toks : List (Bop × Lit)) (i : Nat), Shape false (renderRest pad i toks ++ tail) → Shape false tail := by
  intro toks
  induction toks with
  | nil =>
    intro i h
    simp only [renderRest] at h
    exact Shape.unblanks _ h
  | cons tk r ih =>
    intro i h
    obtain ⟨o, l⟩ := tk
    simp only [renderRest, List.append_assoc, List.cons_append] at h
    obtain ⟨_, _, h2⟩ := (Shape.unblanks _ h).inv_op (charOfOp_ne_space o)
    have h3 := Shape.unblanks _ h2
    obtain ⟨c, t, hl, hc⟩ := l.text_head
    have hnum := number_ok l (renderRest pad (i + 2) r ++ tail)
      (sep_append _ _ (renderRest_sep pad (i + 2) r) ht)
    rw [hl] at h3 hnum
    simp only [List.cons_append] at h3 hnum
    obtain ⟨x, rest, hn', h4⟩ := h3.inv_lit hc
    rw [hnum] at hn'
    cases hn'
    exact ih (i + 2) h4

theorem shape_render (pad : Nat → Nat) (n0 : Lit) (toks : List (Bop × Lit)) (tail : List Char) (ht : Sep tail)
    (h : Shape true (render pad n0 toks ++ tail)) : Shape false tail := by
  simp only [render, List.append_assoc] at h
  have h3 := Shape.unblanks _ h
  obtain ⟨c, t, hl, hc⟩ := n0.text_head
  have hnum := number_ok n0 (renderRest pad 1 toks ++ tail) (sep_append _ _ (renderRest_sep pad 1 toks) ht)
  rw [hl] at h3 hnum
  simp only [List.cons_append] at h3 hnum
  obtain ⟨x, rest, hn', h4⟩ := h3.inv_lit hc
  rw [hnum] at hn'
  cases hn'
  exact shape_renderRest pad tail ht toks 1 h4

theorem sep_op_cons (o : Bop) (t : List Char) : Sep (charOfOp o :: t) := by
  intro c t' h
  simp only [List.cons.injEq] at h
  exact sep_char_blank_or_op (Or.inr ⟨o, h.1.symm⟩)

/-- after a well-formed prefix and one more operator the shape continues at an operand position -/
theorem shape_render_op (pad : Nat → Nat) (n0 : Lit) (toks : List (Bop × Lit)) (o : Bop) (tail : List Char)
    (h : Shape true (render pad n0 toks ++ charOfOp o :: tail)) : Shape true tail := by
  obtain ⟨_, _, h2⟩ := (shape_render pad n0 toks _ (sep_op_cons o tail) h).inv_op (charOfOp_ne_space o)
  exact h2

end AC.Calc
