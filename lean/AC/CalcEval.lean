import AC.YardProof
/-! C13 prototype: the character-level loop of `calc.Eval` on rendered token lists
    (decimal literals with optional minus; arbitrary blanks). -/
namespace P.YP

def opOfChar : Char → Option Bop
  | '^' => some .pow | '*' => some .mul | '/' => some .div | '+' => some .add | '-' => some .sub
  | _ => none
def charOfOp : Bop → Char
  | .pow => '^' | .mul => '*' | .div => '/' | .add => '+' | .sub => '-'

def digitsValN (ds : List Char) : Nat := ds.foldl (fun a c => 10 * a + (c.toNat - '0'.toNat)) 0

/-- `number`: optional '-', decimal digits (canonical form only: no superfluous leading zero) -/
def number (b : List Char) : Option (Int × List Char) :=
  let (neg, b1) := match b with | '-' :: r => (true, r) | _ => (false, b)
  let ds := b1.takeWhile Char.isDigit
  if ds.isEmpty || (ds.length > 1 && ds.head? == some '0') then none
  else
    let v : Int := digitsValN ds
    some (if neg then -v else v, b1.dropWhile Char.isDigit)

/-- the loop of `Eval`: `expectOperand`, stacks, remaining input -/
def evalLoop : Nat → Bool → List Int → List Bop → List Char → Option Int
  | 0, _, _, _, _ => none
  | _+1, _, vs, os, [] => finish vs os
  | f+1, ex, vs, os, c :: r =>
    if c = ' ' then evalLoop f ex vs os r
    else if ex then
      match number (c :: r) with
      | none => none
      | some (x, rest) => if rest.length ≤ r.length then evalLoop f false (x :: vs) os rest else none
    else
      match opOfChar c with
      | none => none
      | some o => match popFor o vs os with
        | none => none
        | some (vs', os') => evalLoop f true vs' (o :: os') r

def eval (s : List Char) : Option Int := evalLoop (s.length + 1) true [] [] s



/-! ### rendering of token lists and the loop on rendered text -/
def litText (n : Int) : List Char :=
  if n < 0 then '-' :: Nat.toDigits 10 n.natAbs else Nat.toDigits 10 n.toNat

def sp (k : Nat) : List Char := List.replicate k ' '

/-- `(blanks op blanks literal)*`, then trailing blanks; `pad` supplies the blank counts -/
def renderRest (pad : Nat → Nat) : Nat → List (Bop × Int) → List Char
  | i, [] => sp (pad i)
  | i, (o, n) :: r => sp (pad i) ++ charOfOp o :: (sp (pad (i + 1)) ++ (litText n ++ renderRest pad (i + 2) r))

def render (pad : Nat → Nat) (n0 : Int) (toks : List (Bop × Int)) : List Char :=
  sp (pad 0) ++ (litText n0 ++ renderRest pad 1 toks)

/-- what may follow a literal: end, a blank or an operator — never a digit -/
def NoDigitHead (r : List Char) : Prop := ∀ c t, r = c :: t → c.isDigit = false

theorem takeWhile_digits (ds r : List Char) (hd : ∀ x ∈ ds, x.isDigit = true) (hr : NoDigitHead r) :
    (ds ++ r).takeWhile Char.isDigit = ds ∧ (ds ++ r).dropWhile Char.isDigit = r := by
  induction ds with
  | nil =>
    cases r with
    | nil => simp
    | cons c t => simp [hr c t rfl]
  | cons a ds ih =>
    have ha := hd a (by simp)
    have := ih (fun x hx => hd x (by simp [hx]))
    simp [ha, this]

theorem digitsValN_toDigits (n : Nat) : digitsValN (Nat.toDigits 10 n) = n := by
  have := @Nat.ofDigitChars_ten_toDigits n
  unfold digitsValN
  revert this
  generalize Nat.toDigits 10 n = ds
  intro h
  rw [← h]
  unfold Nat.ofDigitChars
  rfl

theorem toDigits_canonical (n : Nat) :
    ((Nat.toDigits 10 n).isEmpty || (decide ((Nat.toDigits 10 n).length > 1) && ((Nat.toDigits 10 n).head? == some '0'))) = false := by
  have hne : Nat.toDigits 10 n ≠ [] := Nat.toDigits_ne_nil
  have h1 : (Nat.toDigits 10 n).isEmpty = false := by
    cases h : Nat.toDigits 10 n with
    | nil => exact absurd h hne
    | cons a b => rfl
  rw [h1, Bool.false_or]
  by_cases h0 : n < 10
  · rw [Nat.toDigits_of_lt_base h0]; simp
  · have hge : 10 ≤ n := by omega
    -- head digit is the head of toDigits (n / 10 ^ …) ≠ '0': by strong induction
    have key : ∀ k m, m ≤ k → 0 < m → (Nat.toDigits 10 m).head? ≠ some '0' := by
      intro k
      induction k with
      | zero => intro m h1 h2; omega
      | succ k ih =>
        intro m hk hm
        rw [Nat.toDigits_eq_if (by omega)]
        split
        · rename_i hlt
          simp only [List.head?_cons]
          have : m = 1 ∨ m = 2 ∨ m = 3 ∨ m = 4 ∨ m = 5 ∨ m = 6 ∨ m = 7 ∨ m = 8 ∨ m = 9 := by omega
          rcases this with h|h|h|h|h|h|h|h|h <;> subst h <;> decide
        · rename_i hge'
          have hne' : Nat.toDigits 10 (m / 10) ≠ [] := Nat.toDigits_ne_nil
          have happ : (Nat.toDigits 10 (m / 10) ++ [Nat.digitChar (m % 10)]).head? = (Nat.toDigits 10 (m / 10)).head? := by
            cases hh : Nat.toDigits 10 (m / 10) with
            | nil => exact absurd hh hne'
            | cons a b => rfl
          rw [happ]
          apply ih
          · have : m / 10 < m := Nat.div_lt_self hm (by omega)
            omega
          · exact Nat.div_pos (by omega) (by omega)
    have := key n n (Nat.le_refl _) (by omega)
    cases hh : (Nat.toDigits 10 n).head? with
    | none => simp
    | some c =>
      rw [hh] at this
      have : c ≠ '0' := fun e => this (by rw [e])
      simp [this]

theorem number_ok (n : Int) (r : List Char) (hr : NoDigitHead r) : number (litText n ++ r) = some (n, r) := by
  have hdig : ∀ m, ∀ x ∈ Nat.toDigits 10 m, x.isDigit = true :=
    fun m x hx => Nat.isDigit_of_mem_toDigits (by omega) (by omega) hx
  unfold litText number
  by_cases hneg : n < 0
  · simp only [hneg, if_true, List.cons_append]
    obtain ⟨t1, t2⟩ := takeWhile_digits (Nat.toDigits 10 n.natAbs) r (hdig _) hr
    simp only [t1, t2, toDigits_canonical, Bool.false_eq_true, if_false, digitsValN_toDigits, if_true]
    congr 2
    omega
  · simp only [hneg, if_false]
    have hne : Nat.toDigits 10 n.toNat ≠ [] := Nat.toDigits_ne_nil
    have hhead : ∀ c t, Nat.toDigits 10 n.toNat ++ r = c :: t → c ≠ '-' := by
      intro c t h
      cases hd : Nat.toDigits 10 n.toNat with
      | nil => exact absurd hd hne
      | cons a b =>
        rw [hd] at h
        simp at h
        have := hdig n.toNat a (by rw [hd]; simp)
        rw [← h.1]
        intro e; rw [e] at this; simp [Char.isDigit] at this
    have hmatch : (match Nat.toDigits 10 n.toNat ++ r with | '-' :: r' => (true, r') | _ => (false, Nat.toDigits 10 n.toNat ++ r))
        = (false, Nat.toDigits 10 n.toNat ++ r) := by
      cases hh : Nat.toDigits 10 n.toNat ++ r with
      | nil => rfl
      | cons c t =>
        have := hhead c t hh
        split
        · rename_i r' heq; cases heq; exact absurd rfl this
        · rfl
    rw [hmatch]
    obtain ⟨t1, t2⟩ := takeWhile_digits (Nat.toDigits 10 n.toNat) r (hdig _) hr
    simp only [t1, t2, toDigits_canonical, Bool.false_eq_true, if_false, digitsValN_toDigits]
    congr 2
    omega


theorem evalLoop_skip : ∀ (k f : Nat) (ex : Bool) (vs : List Int) (os : List Bop) (r : List Char),
    evalLoop (f + k) ex vs os (sp k ++ r) = evalLoop f ex vs os r := by
  intro k
  induction k with
  | zero => intro f ex vs os r; simp [sp]
  | succ k ih =>
    intro f ex vs os r
    have : f + (k + 1) = (f + k) + 1 := by omega
    rw [this]
    simp only [sp, List.replicate_succ, List.cons_append, evalLoop, if_true]
    exact ih f ex vs os r

theorem opOfChar_charOfOp (o : Bop) : opOfChar (charOfOp o) = some o := by cases o <;> rfl
theorem charOfOp_ne_space (o : Bop) : charOfOp o ≠ ' ' := by cases o <;> decide
theorem charOfOp_not_digit (o : Bop) : (charOfOp o).isDigit = false := by cases o <;> decide

theorem litText_head (n : Int) : ∃ c t, litText n = c :: t ∧ c ≠ ' ' := by
  unfold litText
  split
  · exact ⟨'-', _, rfl, by decide⟩
  · have hne : Nat.toDigits 10 n.toNat ≠ [] := Nat.toDigits_ne_nil
    cases hd : Nat.toDigits 10 n.toNat with
    | nil => exact absurd hd hne
    | cons a b =>
      refine ⟨a, b, rfl, ?_⟩
      have : a.isDigit = true := Nat.isDigit_of_mem_toDigits (b := 10) (n := n.toNat) (by omega) (by omega) (by rw [hd]; simp)
      intro e; rw [e] at this; simp [Char.isDigit] at this

theorem renderRest_noDigit (pad : Nat → Nat) (i : Nat) (toks : List (Bop × Int)) : NoDigitHead (renderRest pad i toks) := by
  intro c t h
  cases toks with
  | nil =>
    simp only [renderRest, sp] at h
    cases hp : pad i with
    | zero => rw [hp] at h; simp at h
    | succ k => rw [hp] at h; simp [List.replicate_succ] at h; rw [← h.1]; decide
  | cons tk r =>
    obtain ⟨o, n⟩ := tk
    simp only [renderRest, sp] at h
    cases hp : pad i with
    | zero => rw [hp] at h; simp at h; rw [← h.1]; exact charOfOp_not_digit o
    | succ k => rw [hp] at h; simp [List.replicate_succ] at h; rw [← h.1]; decide

/-- reading one literal at an operand position (after its blanks) -/
theorem evalLoop_operand (f : Nat) (vs : List Int) (os : List Bop) (n : Int) (r : List Char) (hr : NoDigitHead r) :
    evalLoop (f + 1) true vs os (litText n ++ r) = evalLoop f false (n :: vs) os r := by
  obtain ⟨c, t, hl, hc⟩ := litText_head n
  have hnum := number_ok n r hr
  rw [hl] at hnum ⊢
  simp only [List.cons_append] at hnum ⊢
  simp only [evalLoop, hc, if_false, if_true, hnum]
  have : r.length ≤ (t ++ r).length := by simp
  simp [this]

/-- the loop on rendered text follows the token-level machine `run` -/
theorem evalLoop_render (pad : Nat → Nat) : ∀ (toks : List (Bop × Int)) (i f : Nat) (vs : List Int) (os : List Bop),
    (renderRest pad i toks).length < f →
    evalLoop f false vs os (renderRest pad i toks) = run vs os toks := by
  intro toks
  induction toks with
  | nil =>
    intro i f vs os hf
    simp only [renderRest] at hf ⊢
    have hlen : (sp (pad i)).length = pad i := by simp [sp]
    obtain ⟨f', rfl⟩ : ∃ f', f = f' + pad i := ⟨f - pad i, by omega⟩
    have := evalLoop_skip (pad i) f' false vs os []
    simp only [List.append_nil] at this
    rw [this]
    obtain ⟨f'', rfl⟩ : ∃ f'', f' = f'' + 1 := ⟨f' - 1, by omega⟩
    simp [evalLoop, run]
  | cons tk r ih =>
    intro i f vs os hf
    obtain ⟨o, n⟩ := tk
    simp only [renderRest] at hf ⊢
    simp only [List.length_append, List.length_cons, sp, List.length_replicate] at hf
    obtain ⟨f1, rfl⟩ : ∃ f1, f = f1 + pad i := ⟨f - pad i, by omega⟩
    rw [evalLoop_skip (pad i) f1 false vs os]
    obtain ⟨f2, rfl⟩ : ∃ f2, f1 = f2 + 1 := ⟨f1 - 1, by omega⟩
    simp only [evalLoop, charOfOp_ne_space, if_false, Bool.false_eq_true, opOfChar_charOfOp, run]
    cases hp : popFor o vs os with
    | none => rfl
    | some res =>
      obtain ⟨vs', os'⟩ := res
      simp only []
      obtain ⟨f3, rfl⟩ : ∃ f3, f2 = f3 + pad (i + 1) := ⟨f2 - pad (i + 1), by omega⟩
      rw [evalLoop_skip (pad (i + 1)) f3 true vs' (o :: os')]
      obtain ⟨f4, rfl⟩ : ∃ f4, f3 = f4 + 1 := ⟨f3 - 1, by omega⟩
      rw [evalLoop_operand f4 vs' (o :: os') n _ (renderRest_noDigit pad (i + 2) r)]
      apply ih (i + 2) f4 (n :: vs') (o :: os')
      have hlt : 0 < (litText n).length := by
        obtain ⟨c, t, hl, _⟩ := litText_head n; rw [hl]; simp
      omega

/-- **C13, end to end on rendered expressions**: `Eval` of any rendering of a token list — decimal
    literals with optional minus, any amount of blanks anywhere — is the conventional value. -/
theorem eval_render (pad : Nat → Nat) (n0 : Int) (toks : List (Bop × Int)) :
    eval (render pad n0 toks) = some (conv n0 toks) := by
  unfold eval render
  have hlen : (sp (pad 0) ++ (litText n0 ++ renderRest pad 1 toks)).length
      = pad 0 + ((litText n0).length + (renderRest pad 1 toks).length) := by simp [sp]
  have hlt : 0 < (litText n0).length := by
    obtain ⟨c, t, hl, _⟩ := litText_head n0; rw [hl]; simp
  rw [hlen]
  have e1 : pad 0 + ((litText n0).length + (renderRest pad 1 toks).length) + 1
      = ((litText n0).length + (renderRest pad 1 toks).length + 1) + pad 0 := by omega
  rw [e1, evalLoop_skip]
  have e2 : (litText n0).length + (renderRest pad 1 toks).length + 1
      = ((litText n0).length + (renderRest pad 1 toks).length) + 1 := rfl
  rw [e2, evalLoop_operand _ [] [] n0 _ (renderRest_noDigit pad 1 toks)]
  rw [evalLoop_render pad toks 1 _ [n0] [] (by omega)]
  exact yard_eq_conv n0 toks

end P.YP
