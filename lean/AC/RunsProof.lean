import AC.RunsX
import AC.OptProof
/-! Bridge for C11: the executable `runsChainX` (fold of `runsStep` over `Chain.Program`) is an
    instance of the construction proved correct in `runs_ok`. -/
namespace P

/-- every element of an addition chain is positive -/
theorem isChain_pos (c : Chain) (hc : IsChain c) : ∀ k, k < c.length → 1 ≤ at' c k := by
  obtain ⟨_, h0, _, _, hops⟩ := hc
  intro k
  induction k using Nat.strongRecOn with
  | _ k ih =>
    intro hk
    by_cases hk0 : k = 0
    · subst hk0; omega
    · obtain ⟨i, j, hi, hj, hs⟩ := hops k (by omega) hk
      have := ih i hi (by omega)
      have := ih j hj (by omega)
      omega

def toStep (lc : Chain) (op : Op) : Nat × Nat :=
  ((min (at' lc op.1) (at' lc op.2)).toNat, (max (at' lc op.1) (at' lc op.2)).toNat)

theorem runsStep_eq (lc : Chain) (st : RS) (op : Op) :
    runsStep lc st op = runsStepN st (toStep lc op).1 (toStep lc op).2 := rfl

theorem runsChain_eq (lc : Chain) (p : List Op) :
    runsChain lc p = (runSteps ⟨[1], fun _ => 0⟩ (p.map (toStep lc))).c := by
  unfold runsChain runSteps
  rw [List.foldl_map]
  rfl

theorem validSteps_append : ∀ (a b : List (Nat × Nat)) (L : List Nat),
    ValidSteps L (a ++ b) ↔ ValidSteps L a ∧ ValidSteps (lensAfter L a) b := by
  intro a
  induction a with
  | nil => intro b L; simp [ValidSteps, lensAfter]
  | cons s r ih =>
    intro b L
    obtain ⟨la, lb⟩ := s
    simp only [List.cons_append, ValidSteps, ih]
    have : lensAfter (L ++ [la + lb]) r = lensAfter L ((la, lb) :: r) := by
      simp [lensAfter]
    rw [this]
    constructor
    · rintro ⟨h1, h2, h3, h4, h5⟩; exact ⟨⟨h1, h2, h3, h4⟩, h5⟩
    · rintro ⟨⟨h1, h2, h3, h4⟩, h5⟩; exact ⟨h1, h2, h3, h4, h5⟩

theorem lensAfter_append (L : List Nat) (a b : List (Nat × Nat)) :
    lensAfter L (a ++ b) = lensAfter (lensAfter L a) b := by
  simp [lensAfter]

/-- the ops of a program derived from a valid chain -/
theorem program_get (c : Chain) (p : List Op) (h : program c = .ok p) :
    p.length + 1 = c.length ∧ ∀ k, k < p.length → ∃ o, p[k]? = some o ∧ o ∈ ops c (k + 1) := by
  unfold program at h
  split at h; · cases h
  split at h; · cases h
  split at h; · cases h
  split at h; · cases h
  rename_i hne _ _ _
  have hget := collect_get _ _ _ h
  have hlen : p.length = c.length - 1 := by
    have := congrArg List.length hget
    simp [firstOps] at this; omega
  have hcl : 1 ≤ c.length := by
    cases c with
    | nil => simp at hne
    | cons _ _ => simp
  refine ⟨by omega, ?_⟩
  intro k hk
  have := congrArg (fun l => l[k]?) hget
  simp only [firstOps, List.getElem?_map, List.getElem?_range (show k < c.length - 1 by omega),
    Option.map_some] at this
  rw [List.getElem?_eq_getElem hk] at this ⊢
  simp only [Option.map_some, Option.some.injEq] at this
  refine ⟨p[k], rfl, ?_⟩
  exact List.mem_of_mem_head? (by rw [this]; rfl)

theorem toNat_inj_pos {a b : Int} (ha : 1 ≤ a) (hb : 1 ≤ b) (h : a.toNat = b.toNat) : a = b := by omega

theorem take_succ_map (c : Chain) (k : Nat) (hk : k < c.length) :
    (c.take (k + 1)).map Int.toNat = (c.take k).map Int.toNat ++ [(at' c k).toNat] := by
  rw [take_succ_eq c k hk]; simp

/-- the steps read off `Chain.Program` are valid length additions, and reach exactly the lengths of the chain -/
theorem steps_valid (lc : Chain) (hc : IsChain lc) (p : List Op) (hp : program lc = .ok p) :
    ∀ k, k ≤ p.length →
      ValidSteps [1] ((p.take k).map (toStep lc)) ∧
      lensAfter [1] ((p.take k).map (toStep lc)) = (lc.take (k + 1)).map Int.toNat := by
  obtain ⟨hlen, hget⟩ := program_get lc p hp
  have hpos := isChain_pos lc hc
  have hnd := hc.2.2.2.1
  intro k
  induction k with
  | zero =>
    intro _
    refine ⟨by simp [ValidSteps], ?_⟩
    have h0 : at' lc 0 = 1 := hc.2.1
    have : lc.take 1 = [at' lc 0] := by
      have := take_succ_eq lc 0 (by omega); simpa using this
    simp [lensAfter, this, h0]
  | succ k ih =>
    intro hk
    obtain ⟨iv, il⟩ := ih (by omega)
    obtain ⟨o, ho, hmem⟩ := hget k (by omega)
    have htk : p.take (k + 1) = p.take k ++ [o] := by
      rw [List.take_add_one, ho]; rfl
    obtain ⟨i, j⟩ := o
    rw [mem_ops lc (k + 1) i j (by omega)] at hmem
    obtain ⟨hij, hjk, hsum⟩ := hmem
    have hi1 := hpos i (by omega)
    have hj1 := hpos j (by omega)
    have hk1 := hpos (k + 1) (by omega)
    rw [htk, List.map_append, validSteps_append, lensAfter_append, il]
    have hmemL : ∀ t, t < k + 1 → (at' lc t).toNat ∈ (lc.take (k + 1)).map Int.toNat := by
      intro t ht
      apply List.mem_map.2
      refine ⟨at' lc t, ?_, rfl⟩
      have := P.OptX.at'_mem_of_lt (lc.take (k + 1)) t (by simp; omega)
      rw [at'_take lc (k + 1) t ht] at this
      exact this
    have hstep : toStep lc (i, j) = ((min (at' lc i) (at' lc j)).toNat, (max (at' lc i) (at' lc j)).toNat) := rfl
    have hminmax : (min (at' lc i) (at' lc j) = at' lc i ∧ max (at' lc i) (at' lc j) = at' lc j) ∨
        (min (at' lc i) (at' lc j) = at' lc j ∧ max (at' lc i) (at' lc j) = at' lc i) := by
      by_cases hle : at' lc i ≤ at' lc j
      · left; exact ⟨Int.min_eq_left hle, Int.max_eq_right hle⟩
      · right; exact ⟨Int.min_eq_right (by omega), Int.max_eq_left (by omega)⟩
    have hsumN : (min (at' lc i) (at' lc j)).toNat + (max (at' lc i) (at' lc j)).toNat = (at' lc (k + 1)).toNat := by
      rcases hminmax with ⟨e1, e2⟩ | ⟨e1, e2⟩ <;> rw [e1, e2] <;> omega
    refine ⟨⟨iv, ?_⟩, ?_⟩
    · simp only [List.map_cons, List.map_nil, hstep, ValidSteps, and_true]
      refine ⟨?_, ?_, ?_⟩
      · rcases hminmax with ⟨e1, _⟩ | ⟨e1, _⟩ <;> rw [e1]
        · exact hmemL i (by omega)
        · exact hmemL j (by omega)
      · rcases hminmax with ⟨_, e2⟩ | ⟨_, e2⟩ <;> rw [e2]
        · exact hmemL j (by omega)
        · exact hmemL i (by omega)
      · rw [hsumN]
        intro hin
        obtain ⟨x, hx, hxe⟩ := List.mem_map.1 hin
        obtain ⟨t, ht, hte⟩ := index_of_mem _ x hx
        simp at ht
        rw [at'_take lc (k + 1) t (by omega)] at hte
        have hxpos : 1 ≤ x := by rw [← hte]; exact hpos t (by omega)
        have : x = at' lc (k + 1) := toNat_inj_pos hxpos hk1 hxe
        rw [← hte] at this
        have := P.OptX.at'_inj lc hnd t (k + 1) (by omega) (by omega) this
        omega
    · rw [take_succ_map lc (k + 1) (by omega)]
      simp only [lensAfter, List.map_cons, List.map_nil, hstep]
      rw [hsumN]

/-- **C11 over the executable model** -/
theorem runsChainX_ok (lc : Chain) (hc : IsChain lc) (hsmall : ∀ l ∈ lc, l < 2 ^ 64) :
    ∃ c, runsChainX lc = .ok c ∧ IsChain c ∧ ∀ l ∈ lc, onesI l.toNat ∈ c := by
  obtain ⟨p, hp⟩ := (validate_iff lc).2 hc
  obtain ⟨hlen, hget⟩ := program_get lc p hp
  have hpos := isChain_pos lc hc
  have hall : (p.all fun o => isUint64 (at' lc o.1) && isUint64 (at' lc o.2)) = true := by
    rw [List.all_eq_true]
    intro o ho
    obtain ⟨k, hk, hke⟩ := List.getElem_of_mem ho
    obtain ⟨o', ho', hmem⟩ := hget k hk
    rw [List.getElem?_eq_getElem hk] at ho'
    cases ho'
    obtain ⟨i, j⟩ := o
    have hpk : p[k] = (i, j) := hke
    rw [hpk] at hmem
    rw [mem_ops lc (k + 1) i j (by omega)] at hmem
    have hi := hpos i (by omega)
    have hj := hpos j (by omega)
    have hi' := hsmall _ (P.OptX.at'_mem_of_lt lc i (by omega))
    have hj' := hsmall _ (P.OptX.at'_mem_of_lt lc j (by omega))
    simp only [isUint64, Bool.and_eq_true, decide_eq_true_eq]
    omega
  refine ⟨runsChain lc p, ?_, ?_⟩
  · unfold runsChainX; rw [hp]; simp only [hall, if_true]
  · obtain ⟨hv, hl⟩ := steps_valid lc hc p hp p.length (Nat.le_refl _)
    rw [List.take_length] at hv hl
    have hok := runs_ok (p.map (toStep lc)) hv
    simp only [] at hok
    rw [runsChain_eq]
    refine ⟨hok.1, ?_⟩
    intro l hlm
    apply hok.2
    rw [hl, List.take_of_length_le (by omega)]
    exact List.mem_map.2 ⟨l, hlm, rfl⟩

end P
