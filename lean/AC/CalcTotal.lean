import AC.CalcModel
/-! # C15: the calc machine halts only inside an operator application

`AC.Calc.evalWith ap` is a total function into `ok | err | halt e`.  A `halt e` outcome can only
come from an application `ap t a b = .error e` performed by `yard.apply`; for the model proper
(`applyE`) the only such application is a division whose second operand is zero. -/
namespace AC.Calc
open P.YP (Bop stop ipow opOfChar)

section machine
variable {ε : Type} (ap : Bop → Int → Int → Except ε Int)

theorem popForE_halt (o : Bop) : ∀ (os : List Bop) (vs : List Int) (e : ε),
    popForE ap o vs os = .halt e → ∃ t a b, ap t a b = .error e := by
  intro os
  induction os with
  | nil => intro vs e h; simp [popForE] at h
  | cons t ts ih =>
    intro vs e h
    unfold popForE at h
    by_cases hs : stop t o = true
    · simp [hs] at h
    · simp only [hs] at h
      match vs, h with
      | [], h => simp at h
      | [_], h => simp at h
      | b :: a :: rest, h =>
        simp only [Bool.false_eq_true, if_false] at h
        cases hap : ap t a b with
        | error e' =>
          rw [hap] at h
          simp only [] at h
          injection h with h
          exact ⟨t, a, b, by rw [hap, h]⟩
        | ok z =>
          rw [hap] at h
          exact ih _ _ h

theorem finishE_halt : ∀ (os : List Bop) (vs : List Int) (e : ε),
    finishE ap vs os = .halt e → ∃ t a b, ap t a b = .error e := by
  intro os
  induction os with
  | nil =>
    intro vs e h
    match vs, h with
    | [], h => simp [finishE] at h
    | [_], h => simp [finishE] at h
    | _ :: _ :: _, h => simp [finishE] at h
  | cons t ts ih =>
    intro vs e h
    match vs, h with
    | [], h => simp [finishE] at h
    | [_], h => simp [finishE] at h
    | b :: a :: rest, h =>
      unfold finishE at h
      cases hap : ap t a b with
      | error e' =>
        rw [hap] at h
        simp only [] at h
        injection h with h
        exact ⟨t, a, b, by rw [hap, h]⟩
      | ok z =>
        rw [hap] at h
        exact ih _ _ h

theorem evalLoop_halt : ∀ (f : Nat) (ex : Bool) (vs : List Int) (os : List Bop) (s : List Char) (e : ε),
    evalLoop ap f ex vs os s = .halt e → ∃ t a b, ap t a b = .error e := by
  intro f
  induction f with
  | zero => intro ex vs os s e h; simp [evalLoop] at h
  | succ f ih =>
    intro ex vs os s e h
    cases s with
    | nil => simp only [evalLoop] at h; exact finishE_halt ap _ _ _ h
    | cons c r =>
      simp only [evalLoop] at h
      by_cases hc : c = ' '
      · simp only [hc, if_true] at h; exact ih _ _ _ _ _ h
      · simp only [hc, if_false] at h
        cases ex with
        | true =>
          simp only [if_true] at h
          cases hn : number (c :: r) with
          | none => rw [hn] at h; simp at h
          | some xr => rw [hn] at h; exact ih _ _ _ _ _ h
        | false =>
          simp only [Bool.false_eq_true, if_false] at h
          cases ho : opOfChar c with
          | none => rw [ho] at h; simp at h
          | some o =>
            rw [ho] at h
            simp only [] at h
            cases hp : popForE ap o vs os with
            | ok p => rw [hp] at h; exact ih _ _ _ _ _ h
            | err => rw [hp] at h; simp at h
            | halt e' =>
              rw [hp] at h
              simp only [] at h
              injection h with h
              subst h
              exact popForE_halt ap o _ _ _ hp

theorem evalWith_halt (s : List Char) (e : ε) (h : evalWith ap s = .halt e) : ∃ t a b, ap t a b = .error e :=
  evalLoop_halt ap _ _ _ _ _ _ h
end machine

/-- `yard.apply` refuses exactly a division by zero -/
theorem applyE_error_iff (o : Bop) (x y : Int) (e : DivZero) :
    applyE o x y = .error e ↔ (o = .div ∧ y = 0) := by
  unfold applyE
  cases o <;> simp [isDivisor] <;> cases e <;> simp

/-- the outcome of `calc.Eval` is a value or an error for every string, and the error is "division
    by zero" only if the machine applied a division to a zero divisor -/
theorem eval_total (s : List Char) :
    ((∃ v, eval s = .ok v) ∨ eval s = .err ∨ eval s = Outcome.divzero) ∧
    (eval s = Outcome.divzero → ∃ x y : Int, y = 0 ∧ applyE .div x y = .error .divzero) := by
  constructor
  · cases h : eval s with
    | ok v => exact Or.inl ⟨v, rfl⟩
    | err => exact Or.inr (Or.inl rfl)
    | halt e => cases e; exact Or.inr (Or.inr rfl)
  · intro h
    obtain ⟨t, a, b, hap⟩ := evalWith_halt applyE s _ h
    obtain ⟨rfl, rfl⟩ := (applyE_error_iff t a b _).1 hap
    exact ⟨a, 0, rfl, hap⟩

end AC.Calc
