import AC.ExecTrace
/-! # Completeness of the trace acceptor of C12

`accepts k L tr = none` was proved sound in `AC/ExecTrace.lean` (an accepted trace is the observable
part of an execution of the LTS that ends with main returned).  Here the converse: the observable
trace of EVERY execution of the LTS from `init` that ends with main returned is accepted.  So the
acceptor decides exactly "is this the trace of a complete execution of the model of
`exec.Parallel.Execute`", and a trace recorded from a correct implementation is never rejected.

The proof is a simulation: `Rel s c` relates the state `s` of an arbitrary execution with the state
`c` of the acceptor's canonical schedule on the same observable trace (main spawns as late as
possible, a worker stores right before its `done` line and releases right after it).  Core Lean only. -/
namespace P.ExecT

/-- phase of a worker in an arbitrary execution vs. in the canonical run on the same trace -/
def phRel : Phase → Phase → Bool
  | .idle, .idle => true
  | .spawned, .idle => true
  | .spawned, .spawned => true
  | .started, .started => true
  | .running, .running => true
  | .finished, .finished => true
  | .stored, .finished => true
  | .doneLogged, .released => true
  | .released, .released => true
  | _, _ => false

/-- run the acceptor's step function over a trace -/
def runEv (k L : Nat) : St → List Event → Option St
  | s, [] => some s
  | s, e :: es => match stepEv k L s e with
    | none => none
    | some t => runEv k L t es

theorem runEv_append (k L : Nat) : ∀ (es fs : List Event) (s : St),
    runEv k L s (es ++ fs) = (runEv k L s es).bind fun t => runEv k L t fs := by
  intro es
  induction es with
  | nil => intro fs s; rfl
  | cons e es ih =>
    intro fs s
    simp only [List.cons_append, runEv]
    cases stepEv k L s e with
    | none => rfl
    | some t => exact ih fs t

theorem acceptsFrom_of_runEv (k L : Nat) : ∀ (es : List Event) (s c : St) (n : Nat),
    runEv k L s es = some c → isFinal k c = true → acceptsFrom k L s es n = none := by
  intro es
  induction es with
  | nil =>
    intro s c n h hf
    simp only [runEv] at h
    cases h
    simp [acceptsFrom, hf]
  | cons e es ih =>
    intro s c n h hf
    simp only [runEv] at h
    unfold acceptsFrom
    cases hs : stepEv k L s e with
    | none => rw [hs] at h; cases h
    | some t =>
      rw [hs] at h
      exact ih t c (n + 1) h hf

/-! ### counting -/

/-- pointwise `holds a → holds b`: no more holders -/
theorem countP_holds_le : ∀ (m1 m2 : List Phase), m1.length = m2.length →
    (∀ (x : Nat) p q, m1[x]? = some p → m2[x]? = some q → holds p = true → holds q = true) →
    m1.countP holds ≤ m2.countP holds := by
  intro m1
  induction m1 with
  | nil => intro m2 _ _; simp
  | cons a' m1 ih' =>
    intro m2 hl hp
    cases m2 with
    | nil => simp at hl
    | cons b' m2 =>
      have h1 := ih' m2 (by simpa using hl)
        (fun x p q h1 h2 => hp (x + 1) p q (by simpa using h1) (by simpa using h2))
      have h2 : holds a' = true → holds b' = true := hp 0 a' b' (by simp) (by simp)
      simp only [List.countP_cons]
      cases ha : holds a' <;> cases hb : holds b' <;> simp_all <;> omega

theorem countP_holds_zero (l : List Phase) (h : ∀ (x : Nat) p, l[x]? = some p → holds p = false) :
    l.countP holds = 0 := by
  rw [List.countP_eq_zero]
  intro a ha
  obtain ⟨x, hx, he⟩ := List.getElem_of_mem ha
  have := h x a (by rw [List.getElem?_eq_getElem hx, he])
  simp [this]

theorem countP_holds_pos (l : List Phase) (x : Nat) (p : Phase) (h : l[x]? = some p) (hp : holds p = true) :
    0 < l.countP holds := by
  obtain ⟨hx, he⟩ := getElem_of_getElem? h
  exact List.countP_pos_iff.mpr ⟨l[x], List.getElem_mem hx, by rw [he]; exact hp⟩

/-! ### the canonical run catches up with the spawns -/

/-- cells `jc, jc+1, …, jc+n-1` set to `spawned` -/
def fillSp : List Phase → Nat → Nat → List Phase
  | ph, _, 0 => ph
  | ph, jc, n + 1 => fillSp (ph.set jc .spawned) (jc + 1) n

theorem fillSp_length : ∀ (n : Nat) (ph : List Phase) (jc : Nat), (fillSp ph jc n).length = ph.length := by
  intro n
  induction n with
  | zero => intro ph jc; rfl
  | succ n ih => intro ph jc; simp [fillSp, ih]

theorem fillSp_get : ∀ (n : Nat) (ph : List Phase) (jc x : Nat), jc + n ≤ ph.length →
    (fillSp ph jc n)[x]? = if jc ≤ x ∧ x < jc + n then some Phase.spawned else ph[x]? := by
  intro n
  induction n with
  | zero =>
    intro ph jc x _
    simp only [fillSp]
    have : ¬ (jc ≤ x ∧ x < jc + 0) := by omega
    rw [if_neg this]
  | succ n ih =>
    intro ph jc x h
    simp only [fillSp]
    rw [ih (ph.set jc .spawned) (jc + 1) x (by simp; omega)]
    by_cases hx : x = jc
    · subst hx
      have : ¬ (x + 1 ≤ x ∧ x < x + 1 + n) := by omega
      simp only [this, if_false]
      rw [get_set_eq _ _ _ (by omega)]
      simp
    · rw [get_set_ne _ _ _ _ (fun h => hx h.symm)]
      by_cases h1 : jc + 1 ≤ x ∧ x < jc + 1 + n
      · have : jc ≤ x ∧ x < jc + (n + 1) := by omega
        simp [h1, this]
      · have : ¬ (jc ≤ x ∧ x < jc + (n + 1)) := by omega
        simp [h1, this]

theorem fillSp_count : ∀ (n : Nat) (ph : List Phase) (jc : Nat), jc + n ≤ ph.length →
    (∀ x, jc ≤ x → x < jc + n → ph[x]? = some Phase.idle) →
    (fillSp ph jc n).countP holds = ph.countP holds + n := by
  intro n
  induction n with
  | zero => intro ph jc _ _; rfl
  | succ n ih =>
    intro ph jc h hid
    simp only [fillSp]
    rw [ih (ph.set jc .spawned) (jc + 1) (by simp; omega)
      (fun x h1 h2 => by rw [get_set_ne _ _ _ _ (by omega)]; exact hid x (by omega) (by omega))]
    have hc := countP_set_cell holds ph jc .idle .spawned (hid jc (by omega) (by omega))
    simp [holds] at hc
    omega

/-- the acceptor's lazy catch-up succeeds whenever the channel has room for the `n` spawns -/
theorem spawnN_ok (k L : Nat) : ∀ (n : Nat) (c : St) (jc : Nat), c.main = .spawning jc → jc + n ≤ k →
    c.ph.length = k → c.tokens = nHolding c →
    (∀ x, jc ≤ x → x < jc + n → c.ph[x]? = some Phase.idle) → nHolding c + n ≤ L →
    spawnN k L n c = some { c with main := .spawning (jc + n), tokens := c.tokens + n, ph := fillSp c.ph jc n } := by
  intro n
  induction n with
  | zero =>
    intro c jc hm _ _ _ _ _
    obtain ⟨m, t, ph, rs⟩ := c
    simp only [] at hm
    subst hm
    rfl
  | succ n ih =>
    intro c jc hm hk hlen htok hid hL
    simp only [spawnN, hm]
    have htok' : c.tokens = c.ph.countP holds := htok
    have hL' : c.ph.countP holds + (n + 1) ≤ L := hL
    have hcond : jc < k ∧ c.tokens < L := ⟨by omega, by omega⟩
    simp only [hcond, and_self, if_true]
    have hc : (c.ph.set jc .spawned).countP holds = c.ph.countP holds + 1 := by
      have := countP_set_cell holds c.ph jc .idle .spawned (hid jc (by omega) (by omega))
      simp only [holds] at this
      simpa using this
    rw [ih { c with main := .spawning (jc + 1), tokens := c.tokens + 1, ph := c.ph.set jc .spawned } (jc + 1)
      rfl (by omega) (by simp [hlen]) (by show c.tokens + 1 = (c.ph.set jc .spawned).countP holds; omega)
      (fun x h1 h2 => by
        show (c.ph.set jc .spawned)[x]? = _
        rw [get_set_ne _ _ _ _ (by omega)]; exact hid x (by omega) (by omega))
      (by show (c.ph.set jc .spawned).countP holds + n ≤ L; omega)]
    have e1 : jc + 1 + n = jc + (n + 1) := by omega
    have e2 : c.tokens + 1 + n = c.tokens + (n + 1) := by omega
    simp only [fillSp, e1, e2]

/-! ### the simulation relation -/

structure Rel (k L : Nat) (s c : St) : Prop where
  inv : Inv k L s
  clen : c.ph.length = k
  crlen : c.rs.length = k
  ph : ∀ (i : Nat) p q, s.ph[i]? = some p → c.ph[i]? = some q → phRel p q = true
  main : (s.main = .returned ∧ c.main = .returned) ∨
    (s.main ≠ .returned ∧ ∃ jc, c.main = .spawning jc ∧ jc ≤ spawnedCnt s.main k ∧
      ∀ i, i < k → (c.ph[i]? = some Phase.idle ↔ jc ≤ i))
  tok : c.main ≠ .returned → c.tokens = nHolding c
  crs : ∀ (i : Nat) q, i < k → c.ph[i]? = some q →
    c.rs[i]? = some (if q = Phase.released then some i else none)

theorem rel_init (k L : Nat) : Rel k L (init k) (init k) := by
  refine ⟨inv_init k L, by simp [init], by simp [init], ?_, ?_, ?_, ?_⟩
  · intro i p q hp hq
    by_cases hi : i < k
    · simp [init, hi] at hp hq; subst hp; subst hq; rfl
    · simp [init, hi] at hp
  · right
    refine ⟨by simp [init], 0, rfl, by simp [init, spawnedCnt], ?_⟩
    intro i hi; simp [init, hi]
  · intro _; simp [init, nHolding, List.countP_replicate, holds]
  · intro i q hi hq
    simp [init, hi] at hq; subst hq
    simp [init, hi]

theorem phRel_holds {p q : Phase} (h : phRel p q = true) : holds q = true → holds p = true := by
  cases p <;> cases q <;> simp [phRel, holds] at h ⊢

theorem ph_set_left {sp cp : List Phase}
    (h : ∀ (i : Nat) p q, sp[i]? = some p → cp[i]? = some q → phRel p q = true) (j : Nat) (p' : Phase)
    (hj : ∀ q, cp[j]? = some q → phRel p' q = true) :
    ∀ (i : Nat) p q, (sp.set j p')[i]? = some p → cp[i]? = some q → phRel p q = true := by
  intro i p q hp hq
  by_cases hij : j = i
  · subst hij
    by_cases hl : j < sp.length
    · rw [get_set_eq _ _ _ hl] at hp
      cases hp; exact hj q hq
    · rw [List.getElem?_eq_none (by simp; omega)] at hp; cases hp
  · rw [get_set_ne _ _ _ _ hij] at hp; exact h i p q hp hq

theorem ph_set_both {sp cp : List Phase}
    (h : ∀ (i : Nat) p q, sp[i]? = some p → cp[i]? = some q → phRel p q = true) (j : Nat) (p' q' : Phase)
    (hpq : phRel p' q' = true) :
    ∀ (i : Nat) p q, (sp.set j p')[i]? = some p → (cp.set j q')[i]? = some q → phRel p q = true := by
  intro i p q hp hq
  by_cases hij : j = i
  · subst hij
    by_cases hl : j < sp.length
    · by_cases hl2 : j < cp.length
      · rw [get_set_eq _ _ _ hl] at hp
        rw [get_set_eq _ _ _ hl2] at hq
        cases hp; cases hq; exact hpq
      · rw [List.getElem?_eq_none (by simp; omega)] at hq; cases hq
    · rw [List.getElem?_eq_none (by simp; omega)] at hp; cases hp
  · rw [get_set_ne _ _ _ _ hij] at hp hq; exact h i p q hp hq

/-- silent steps of the arbitrary execution leave the canonical state where it is -/
theorem sim_silent {k L : Nat} {s t c : St} {a : Act} (hr : Rel k L s c) (hs : Step k L s a t)
    (ho : obs a = none) : Rel k L t c := by
  have hinv := inv_step hr.inv hs
  cases hs with
  | spawn j hm hj hl =>
    have hidle : s.ph[j]? = some .idle := (hr.inv.idle_iff j hj).2 (by simp [hm, spawnedCnt])
    refine ⟨hinv, hr.clen, hr.crlen, ?_, ?_, hr.tok, hr.crs⟩
    · apply ph_set_left hr.ph
      intro q hq
      have := hr.ph j _ q hidle hq
      cases q <;> simp [phRel] at this ⊢
    · rcases hr.main with ⟨h1, _⟩ | ⟨_, jc, h2, h3, h4⟩
      · rw [hm] at h1; cases h1
      · right
        refine ⟨by simp, jc, h2, ?_, h4⟩
        rw [hm] at h3
        simp [spawnedCnt] at h3 ⊢
        omega
  | toWait hm =>
    refine ⟨hinv, hr.clen, hr.crlen, hr.ph, ?_, hr.tok, hr.crs⟩
    rcases hr.main with ⟨h1, _⟩ | ⟨_, jc, h2, h3, h4⟩
    · rw [hm] at h1; cases h1
    · right
      refine ⟨by simp, jc, h2, ?_, h4⟩
      rw [hm] at h3
      simpa [spawnedCnt] using h3
  | waitSend w hm hw hl =>
    refine ⟨hinv, hr.clen, hr.crlen, hr.ph, ?_, hr.tok, hr.crs⟩
    rcases hr.main with ⟨h1, _⟩ | ⟨_, jc, h2, h3, h4⟩
    · rw [hm] at h1; cases h1
    · right
      refine ⟨by simp, jc, h2, ?_, h4⟩
      rw [hm] at h3
      simpa [spawnedCnt] using h3
  | ret hm => simp [obs] at ho
  | loc i p q e hi hloc hp => simp [obs] at ho
  | store i hi hp =>
    refine ⟨hinv, hr.clen, hr.crlen, ?_, hr.main, hr.tok, hr.crs⟩
    apply ph_set_left hr.ph
    intro q hq
    have := hr.ph i _ q hp hq
    cases q <;> simp [phRel] at this ⊢
  | release i hi hp hpos =>
    refine ⟨hinv, hr.clen, hr.crlen, ?_, hr.main, hr.tok, hr.crs⟩
    apply ph_set_left hr.ph
    intro q hq
    have := hr.ph i _ q hp hq
    cases q <;> simp [phRel] at this ⊢

/-- a worker that holds a token keeps main from having returned -/
theorem not_returned_of_holds {k L : Nat} {s : St} (hi : Inv k L s) (i : Nat) (p : Phase)
    (hp : s.ph[i]? = some p) (hh : holds p = true) : s.main ≠ .returned := by
  intro hm
  have h1 := hi.tok
  have h2 := hi.tok_le
  rw [hm] at h1
  have h3 := countP_holds_pos s.ph i p hp hh
  simp only [mainHeld, nHolding] at h1
  omega

theorem nHolding_le {k L : Nat} {s : St} (hi : Inv k L s) : s.ph.countP holds ≤ L := by
  have h1 := hi.tok
  have h2 := hi.tok_le
  simp only [nHolding] at h1
  omega

/-- both runs move worker `i` between two token-holding, non-idle phases -/
theorem rel_set_hold {k L : Nat} {s t c : St} (hr : Rel k L s c) (hinv : Inv k L t) (i : Nat) (p2 q1 q2 : Phase)
    (hi : i < k) (hq1 : c.ph[i]? = some q1) (hh1 : holds q1 = true) (hh2 : holds q2 = true)
    (hn1 : q1 ≠ .idle) (hn2 : q2 ≠ .idle) (hr1 : q1 ≠ .released) (hr2 : q2 ≠ .released)
    (hrel : phRel p2 q2 = true) (htm : t.main = s.main) (htp : t.ph = s.ph.set i p2) :
    Rel k L t (setPh c i q2) := by
  refine ⟨hinv, by simp [setPh, hr.clen], hr.crlen, ?_, ?_, ?_, ?_⟩
  · rw [htp]; exact ph_set_both hr.ph i p2 q2 hrel
  · rw [htm]
    rcases hr.main with h | ⟨h1, jc, h2, h3, h4⟩
    · exact Or.inl h
    · exact Or.inr ⟨h1, jc, h2, h3, idle_iff_set h4 i q1 q2 hi hq1 hn1 hn2⟩
  · intro hm
    have := hr.tok hm
    have hc := countP_set_cell holds c.ph i q1 q2 hq1
    simp only [hh1, hh2, if_true] at hc
    show c.tokens = (c.ph.set i q2).countP holds
    simp only [nHolding] at this
    omega
  · intro x q hx hq
    show c.rs[x]? = _
    by_cases hxi : i = x
    · subst hxi
      simp only [setPh] at hq
      rw [get_set_eq _ _ _ (lt_of_getElem? hq1)] at hq
      cases hq
      have := hr.crs i q1 hi hq1
      simp only [hr1, if_false] at this
      simp only [hr2, if_false]
      exact this
    · simp only [setPh] at hq
      rw [get_set_ne _ _ _ _ hxi] at hq
      exact hr.crs x q hx hq

/-- observable steps of the arbitrary execution are matched by the acceptor's step function -/
theorem sim_event {k L : Nat} {s t c : St} {e : Event} (hr : Rel k L s c) (hs : Step k L s (.ev e) t) :
    ∃ c', stepEv k L c e = some c' ∧ Rel k L t c' := by
  have hinv := inv_step hr.inv hs
  cases hs with
  | ret hm =>
    -- every worker of the arbitrary run has released
    have hzero : s.ph.countP holds = 0 := by
      have h1 := hr.inv.tok
      have h2 := hr.inv.tok_le
      rw [hm] at h1
      simp only [mainHeld, nHolding] at h1
      omega
    have hsrel : ∀ i, i < k → s.ph[i]? = some Phase.released := by
      intro i hi
      have hl : i < s.ph.length := by rw [hr.inv.len_ph]; exact hi
      have hnh : holds s.ph[i] = false := by
        have := List.countP_eq_zero.mp hzero s.ph[i] (List.getElem_mem hl)
        simpa using this
      have hni : ¬ s.ph[i]? = some Phase.idle := by
        intro h
        have := (hr.inv.idle_iff i hi).1 h
        rw [hm] at this
        simp [spawnedCnt] at this
        omega
      rw [List.getElem?_eq_getElem hl] at hni ⊢
      generalize s.ph[i] = p at hnh hni
      cases p <;> simp [holds] at hnh hni ⊢
    have hcrel : ∀ i, i < k → c.ph[i]? = some Phase.released := by
      intro i hi
      have hl : i < c.ph.length := by rw [hr.clen]; exact hi
      have := hr.ph i _ c.ph[i] (hsrel i hi) (List.getElem?_eq_getElem hl)
      rw [List.getElem?_eq_getElem hl]
      generalize c.ph[i] = q at this
      cases q <;> simp [phRel] at this ⊢
    rcases hr.main with ⟨h1, _⟩ | ⟨_, jc, h2, h3, h4⟩
    · rw [hm] at h1; cases h1
    · have hjc : jc = k := by
        rw [hm] at h3
        simp only [spawnedCnt] at h3
        cases k with
        | zero => omega
        | succ k' =>
          have h5 := (h4 k' (by omega)).2
          have h6 := hcrel k' (by omega)
          by_cases hle : jc ≤ k'
          · have := h5 hle; rw [h6] at this; cases this
          · omega
      subst hjc
      have hczero : c.ph.countP holds = 0 := by
        apply countP_holds_zero
        intro x p hp
        have hx : x < jc := by have := lt_of_getElem? hp; rw [hr.clen] at this; exact this
        rw [hcrel x hx] at hp
        cases hp; rfl
      have hct : c.tokens = 0 := by
        have := hr.tok (by rw [h2]; simp)
        simp only [nHolding] at this
        omega
      refine ⟨{ c with main := .returned, tokens := L }, by simp [stepEv, h2, hct], ?_⟩
      exact ⟨hinv, hr.clen, hr.crlen, hr.ph, Or.inl ⟨rfl, rfl⟩, by intro h; exact absurd rfl h, hr.crs⟩
  | loc i p q e' hi hloc hp =>
    have hnr : s.main ≠ .returned := not_returned_of_holds hr.inv i p hp (local_facts hloc).1
    have hcl : i < c.ph.length := by rw [hr.clen]; exact hi
    have hcq : c.ph[i]? = some c.ph[i] := List.getElem?_eq_getElem hcl
    have hpq := hr.ph i p c.ph[i] hp hcq
    rcases hr.main with ⟨h1, _⟩ | ⟨_, jc, h2, h3, h4⟩
    · exact absurd h1 hnr
    cases hloc with
    | run =>
      have hq1 : c.ph[i]? = some Phase.started := by
        rw [hcq]; generalize c.ph[i] = q1 at hpq; cases q1 <;> simp [phRel] at hpq ⊢
      exact ⟨setPh c i .running, by simp [stepEv, hi, hq1],
        rel_set_hold hr hinv i .running .started .running hi hq1 rfl rfl (by simp) (by simp) (by simp) (by simp) rfl rfl rfl⟩
    | fin =>
      have hq1 : c.ph[i]? = some Phase.running := by
        rw [hcq]; generalize c.ph[i] = q1 at hpq; cases q1 <;> simp [phRel] at hpq ⊢
      exact ⟨setPh c i .finished, by simp [stepEv, hi, hq1],
        rel_set_hold hr hinv i .finished .running .finished hi hq1 rfl rfl (by simp) (by simp) (by simp) (by simp) rfl rfl rfl⟩
    | done =>
      have hq1 : c.ph[i]? = some Phase.finished := by
        rw [hcq]; generalize c.ph[i] = q1 at hpq; cases q1 <;> simp [phRel] at hpq ⊢
      have hcm : c.main ≠ .returned := by rw [h2]; simp
      have htok := hr.tok hcm
      have hpos := countP_holds_pos c.ph i .finished hq1 rfl
      simp only [nHolding] at htok
      have hset : ((c.ph.set i .stored).set i .doneLogged).set i .released = c.ph.set i .released := by
        simp [List.set_set]
      refine ⟨{ c with ph := c.ph.set i .released, rs := c.rs.set i (some i), tokens := c.tokens - 1 },
        by simp [stepEv, hi, hq1]; omega, ?_⟩
      refine ⟨hinv, by simp [hr.clen], by simp [hr.crlen], ?_, ?_, ?_, ?_⟩
      · exact ph_set_both hr.ph i .doneLogged .released rfl
      · exact Or.inr ⟨hnr, jc, h2, h3, idle_iff_set h4 i .finished .released hi hq1 (by simp) (by simp)⟩
      · intro _
        have hc := countP_set_cell holds c.ph i .finished .released hq1
        simp only [holds, if_true] at hc
        show c.tokens - 1 = (c.ph.set i .released).countP holds
        simp at hc
        omega
      · intro x q hx hq
        show (c.rs.set i (some i))[x]? = _
        by_cases hxi : i = x
        · subst hxi
          simp only [] at hq
          rw [get_set_eq _ _ _ hcl] at hq
          cases hq
          rw [get_set_eq _ _ _ (by rw [hr.crlen]; exact hi)]
          simp
        · simp only [] at hq
          rw [get_set_ne _ _ _ _ hxi] at hq ⊢
          exact hr.crs x q hx hq
    | start =>
      have hcases : c.ph[i] = Phase.idle ∨ c.ph[i] = Phase.spawned := by
        generalize c.ph[i] = q1 at hpq; cases q1 <;> simp [phRel] at hpq ⊢
      rcases hcases with hidl | hsp
      · -- the canonical run has not spawned worker i yet: it catches up
        rw [hidl] at hcq
        have hjci : jc ≤ i := (h4 i hi).1 hcq
        have hilt : i < spawnedCnt s.main k := by
          have := hr.inv.idle_iff i hi
          rw [hp] at this
          by_cases hle : spawnedCnt s.main k ≤ i
          · have := this.2 hle; cases this
          · omega
        have hn : jc + (i + 1 - jc) = i + 1 := by omega
        have hcidle : ∀ x, jc ≤ x → x < jc + (i + 1 - jc) → c.ph[x]? = some Phase.idle :=
          fun x h1 h2 => (h4 x (by omega)).2 h1
        have hssp : ∀ x, jc ≤ x → x ≤ i → s.ph[x]? = some Phase.spawned := by
          intro x h1 h2
          have hxl : x < s.ph.length := by rw [hr.inv.len_ph]; omega
          have hni : ¬ s.ph[x]? = some Phase.idle := by
            intro h
            have := (hr.inv.idle_iff x (by omega)).1 h
            omega
          have hrel := hr.ph x s.ph[x] .idle (List.getElem?_eq_getElem hxl) (hcidle x h1 (by omega))
          rw [List.getElem?_eq_getElem hxl] at hni ⊢
          generalize s.ph[x] = px at hrel hni
          cases px <;> simp [phRel] at hrel hni ⊢
        have hfl : jc + (i + 1 - jc) ≤ c.ph.length := by rw [hr.clen]; omega
        have hbase : ∀ (x : Nat) p' q', s.ph[x]? = some p' → (fillSp c.ph jc (i + 1 - jc))[x]? = some q' →
            phRel p' q' = true := by
          intro x p' q' h1 h2
          rw [fillSp_get _ _ _ _ hfl] at h2
          by_cases hin : jc ≤ x ∧ x < jc + (i + 1 - jc)
          · rw [if_pos hin] at h2
            cases h2
            rw [hssp x hin.1 (by omega)] at h1
            cases h1; rfl
          · rw [if_neg hin] at h2
            exact hr.ph x p' q' h1 h2
        have hcm : c.main ≠ .returned := by rw [h2]; simp
        have htok := hr.tok hcm
        have hcnt := fillSp_count (i + 1 - jc) c.ph jc hfl hcidle
        have hle : (fillSp c.ph jc (i + 1 - jc)).countP holds ≤ s.ph.countP holds := by
          apply countP_holds_le
          · rw [fillSp_length, hr.clen, hr.inv.len_ph]
          · intro x p' q' h1 h2
            exact phRel_holds (hbase x q' p' h2 h1)
        have hL := nHolding_le hr.inv
        have hspawn := spawnN_ok k L (i + 1 - jc) c jc h2 (by omega) hr.clen htok hcidle
          (by simp only [nHolding]; omega)
        have hget : (fillSp c.ph jc (i + 1 - jc))[i]? = some Phase.spawned := by
          rw [fillSp_get _ _ _ _ hfl, if_pos ⟨hjci, by omega⟩]
        refine ⟨setPh ⟨.spawning (jc + (i + 1 - jc)), c.tokens + (i + 1 - jc), fillSp c.ph jc (i + 1 - jc), c.rs⟩
            i .started, ?_, ?_⟩
        · simp only [stepEv, hi, if_true, catchUp, h2, hspawn, hget]
        · refine ⟨hinv, by simp [setPh, fillSp_length, hr.clen], hr.crlen, ?_, ?_, ?_, ?_⟩
          · exact ph_set_both hbase i .started .started rfl
          · refine Or.inr ⟨hnr, jc + (i + 1 - jc), rfl, by show jc + (i + 1 - jc) ≤ spawnedCnt s.main k; omega, ?_⟩
            intro x hx
            show ((fillSp c.ph jc (i + 1 - jc)).set i .started)[x]? = some Phase.idle ↔ _
            by_cases hxi : i = x
            · subst hxi
              rw [get_set_eq _ _ _ (by rw [fillSp_length]; exact hcl)]
              constructor
              · intro h; cases h
              · intro h; omega
            · rw [get_set_ne _ _ _ _ hxi, fillSp_get _ _ _ _ hfl]
              by_cases hin : jc ≤ x ∧ x < jc + (i + 1 - jc)
              · rw [if_pos hin]
                constructor
                · intro h; cases h
                · intro h; omega
              · rw [if_neg hin]
                constructor
                · intro h; have := (h4 x hx).1 h; omega
                · intro h; exact (h4 x hx).2 (by omega)
          · intro _
            have hc := countP_set_cell holds (fillSp c.ph jc (i + 1 - jc)) i .spawned .started hget
            simp only [holds, if_true] at hc
            show c.tokens + (i + 1 - jc) = ((fillSp c.ph jc (i + 1 - jc)).set i .started).countP holds
            simp only [nHolding] at htok
            omega
          · intro x q hx hq
            show c.rs[x]? = _
            simp only [setPh] at hq
            by_cases hxi : i = x
            · subst hxi
              rw [get_set_eq _ _ _ (by rw [fillSp_length]; exact hcl)] at hq
              cases hq
              have := hr.crs i .idle hi hcq
              simpa using this
            · rw [get_set_ne _ _ _ _ hxi, fillSp_get _ _ _ _ hfl] at hq
              by_cases hin : jc ≤ x ∧ x < jc + (i + 1 - jc)
              · rw [if_pos hin] at hq
                cases hq
                have := hr.crs x .idle hx (hcidle x hin.1 hin.2)
                simpa using this
              · rw [if_neg hin] at hq
                exact hr.crs x q hx hq
      · -- already spawned in the canonical run
        rw [hsp] at hcq
        have hjci : ¬ jc ≤ i := by
          intro h
          have := (h4 i hi).2 h
          rw [hcq] at this; cases this
        have hz : i + 1 - jc = 0 := by omega
        refine ⟨setPh c i .started, ?_,
          rel_set_hold hr hinv i .started .spawned .started hi hcq rfl rfl (by simp) (by simp) (by simp) (by simp) rfl rfl rfl⟩
        simp only [stepEv, hi, if_true, catchUp, h2, hz, spawnN, hcq]

/-- the acceptor follows every execution: the canonical run on the observable trace of an arbitrary
    execution succeeds and stays related to it -/
theorem exec_runEv {k L : Nat} {as : List Act} {s : St} (h : Exec k L (init k) as s) :
    ∃ c, runEv k L (init k) (as.filterMap obs) = some c ∧ Rel k L s c := by
  generalize hs0 : init k = s0 at h
  induction h with
  | nil => subst hs0; exact ⟨init k, rfl, rel_init k L⟩
  | snoc h1 hs ih =>
    obtain ⟨c, hc, hr⟩ := ih
    rename_i a
    rw [List.filterMap_append]
    cases ho : obs a with
    | none =>
      refine ⟨c, ?_, sim_silent hr hs ho⟩
      simp [List.filterMap, ho, hc]
    | some e =>
      have ha : a = .ev e := by
        cases a <;> simp [obs] at ho
        subst ho; rfl
      subst ha
      obtain ⟨c', hst, hr'⟩ := sim_event hr hs
      refine ⟨c', ?_, hr'⟩
      rw [runEv_append, hc]
      simp [List.filterMap, obs, runEv, hst]

/-- **completeness of the acceptor**: the observable trace of every execution of the LTS from `init`
    that ends with main returned is accepted -/
theorem accepts_complete {k L : Nat} {as : List Act} {s : St} (h : Exec k L (init k) as s)
    (hret : s.main = .returned) : accepts k L (as.filterMap obs) = none := by
  obtain ⟨c, hc, hr⟩ := exec_runEv h
  apply acceptsFrom_of_runEv k L _ (init k) c 0 hc
  have hcm : c.main = .returned := by
    rcases hr.main with ⟨_, h2⟩ | ⟨h1, _⟩
    · exact h2
    · exact absurd hret h1
  have hall := return_complete ⟨as, h⟩ hret
  simp only [isFinal, hcm, beq_self_eq_true, Bool.true_and, allFilled, List.all_eq_true, List.mem_range]
  intro i hi
  have hcl : i < c.ph.length := by rw [hr.clen]; exact hi
  have hrel := hr.ph i .released c.ph[i] (hall i hi).2 (List.getElem?_eq_getElem hcl)
  have hq : c.ph[i] = Phase.released := by
    generalize c.ph[i] = q at hrel; cases q <;> simp [phRel] at hrel ⊢
  have := hr.crs i .released hi (by rw [List.getElem?_eq_getElem hcl, hq])
  simp [this]

/-- the acceptor is exact: a trace is accepted iff it is the observable trace of a complete
    execution of the LTS -/
theorem accepts_iff {k L : Nat} (tr : List Event) :
    accepts k L tr = none ↔ ∃ as s, Exec k L (init k) as s ∧ as.filterMap obs = tr ∧ s.main = .returned := by
  constructor
  · exact accepts_sound
  · rintro ⟨as, s, h, rfl, hr⟩
    exact accepts_complete h hr

end P.ExecT
