/-! C03 prototype: the IR pipeline (translate → compile) refines the direct semantics. -/
namespace P.Sem

inductive Expr
  | operand (i : Nat)
  | ident (s : String)
  | add (x y : Expr)
  | shift (x : Expr) (s : Nat)
  | double (x : Expr)
deriving Repr

structure Stmt where
  name : String
  e : Expr

inductive Op | add (x y : Nat) | dbl (x : Nat) | shl (x s : Nat) deriving Repr
structure Inst where
  out : Nat
  op : Op
deriving Repr

abbrev Env := List (String × Nat)
def lookup (env : Env) (s : String) : Option Nat := (env.find? (·.1 == s)).map (·.2)

/-! ## translate (acc/translate.go): emitted instructions, new counter, result index -/
def tExpr (env : Env) : Nat → Expr → Option (List Inst × Nat × Nat)
  | n, .operand i => some ([], n, i)
  | n, .ident s => (lookup env s).map (fun i => ([], n, i))
  | n, .add x y =>
    match tExpr env n x with
    | none => none
    | some (d1, n1, a) =>
      match tExpr env n1 y with
      | none => none
      | some (d2, n2, b) => some (d1 ++ d2 ++ [⟨n2, .add (min a b) (max a b)⟩], n2 + 1, n2)
  | n, .double x =>
    match tExpr env n x with
    | none => none
    | some (d1, n1, a) => some (d1 ++ [⟨n1, .dbl a⟩], n1 + 1, n1)
  | n, .shift x s =>
    match tExpr env n x with
    | none => none
    | some (d1, n1, a) => some (d1 ++ [⟨n1 + s - 1, .shl a s⟩], n1 + s, n1 + s - 1)

/-! ## compile (pass.Compile over addchain.Program) -/
abbrev Prog := List (Nat × Nat)

def pAdd (p : Prog) (i j : Nat) : Option (Prog × Nat) :=
  if i ≤ p.length ∧ j ≤ p.length then some (p ++ [(i, j)], p.length + 1) else none

def pShift : Nat → Prog → Nat → Option (Prog × Nat)
  | 0, p, i => some (p, i)
  | s+1, p, i => match pAdd p i i with
    | none => none
    | some (p', i') => pShift s p' i'

def cInst (p : Prog) (inst : Inst) : Option Prog :=
  let r := match inst.op with
    | .add x y => pAdd p x y
    | .dbl x => pAdd p x x
    | .shl x s => pShift s p x
  match r with
  | none => none
  | some (p', out) => if out = inst.out then some p' else none

def cAll : Prog → List Inst → Option Prog
  | p, [] => some p
  | p, i :: r => match cInst p i with
    | none => none
    | some p' => cAll p' r

/-! ## the direct semantics -/
def dExpr (p : Prog) (env : Env) : Expr → Option (Prog × Nat)
  | .operand i => some (p, i)
  | .ident s => (lookup env s).map (fun i => (p, i))
  | .add x y =>
    match dExpr p env x with
    | none => none
    | some (p1, a) =>
      match dExpr p1 env y with
      | none => none
      | some (p2, b) => pAdd p2 (min a b) (max a b)
  | .double x =>
    match dExpr p env x with
    | none => none
    | some (p1, a) => pAdd p1 a a
  | .shift x s =>
    match dExpr p env x with
    | none => none
    | some (p1, a) =>
      if s = 0 then (if a = p1.length then some (p1, a) else none)
      else pShift s p1 a


theorem cAll_append : ∀ (a b : List Inst) (p : Prog),
    cAll p (a ++ b) = match cAll p a with | none => none | some p' => cAll p' b := by
  intro a
  induction a with
  | nil => intro b p; rfl
  | cons i r ih =>
    intro b p
    simp only [List.cons_append, cAll]
    cases cInst p i with
    | none => rfl
    | some p' => exact ih b p'

theorem cAll_single (p : Prog) (i : Inst) : cAll p [i] = cInst p i := by
  simp only [cAll]; cases cInst p i <;> rfl

theorem pAdd_out {p : Prog} {i j : Nat} {p' : Prog} {o : Nat} (h : pAdd p i j = some (p', o)) :
    o = p.length + 1 ∧ p'.length = p.length + 1 := by
  unfold pAdd at h
  split at h
  · cases h; simp
  · cases h

theorem pShift_out : ∀ (s : Nat) (p : Prog) (i : Nat) (p' : Prog) (o : Nat), 1 ≤ s →
    pShift s p i = some (p', o) → o = p.length + s ∧ p'.length = p.length + s := by
  intro s
  induction s with
  | zero => intro p i p' o h; omega
  | succ s ih =>
    intro p i p' o _ h
    simp only [pShift] at h
    cases h1 : pAdd p i i with
    | none => rw [h1] at h; cases h
    | some r =>
      obtain ⟨p1, i1⟩ := r
      rw [h1] at h
      simp only [] at h
      obtain ⟨ho, hl⟩ := pAdd_out h1
      cases s with
      | zero => simp [pShift] at h; obtain ⟨rfl, rfl⟩ := h; omega
      | succ s =>
        have := ih p1 i1 p' o (by omega) h
        omega

theorem cInst_add (p : Prog) (o x y : Nat) (ho : o = p.length + 1) :
    cInst p ⟨o, .add x y⟩ = (pAdd p x y).map (·.1) := by
  unfold cInst
  simp only []
  cases h : pAdd p x y with
  | none => rfl
  | some r =>
    obtain ⟨p', o'⟩ := r
    have := (pAdd_out h).1
    simp [ho, this]

theorem cInst_dbl (p : Prog) (o x : Nat) (ho : o = p.length + 1) :
    cInst p ⟨o, .dbl x⟩ = (pAdd p x x).map (·.1) := by
  unfold cInst
  simp only []
  cases h : pAdd p x x with
  | none => rfl
  | some r =>
    obtain ⟨p', o'⟩ := r
    have := (pAdd_out h).1
    simp [ho, this]

/-- the simulation at expression level -/
theorem expr_sim (env : Env) : ∀ (e : Expr) (n : Nat) (p : Prog), n = p.length + 1 →
    (tExpr env n e = none → dExpr p env e = none) ∧
    (∀ Δ n' x, tExpr env n e = some (Δ, n', x) →
      (cAll p Δ = none → dExpr p env e = none) ∧
      (∀ p', cAll p Δ = some p' → dExpr p env e = some (p', x) ∧ n' = p'.length + 1)) := by
  intro e
  induction e with
  | operand i =>
    intro n p hn
    refine ⟨by intro h; simp [tExpr] at h, ?_⟩
    intro Δ n' x h
    simp [tExpr] at h; obtain ⟨rfl, rfl, rfl⟩ := h
    exact ⟨by intro h; simp [cAll] at h, by intro p' h; simp [cAll] at h; subst h; exact ⟨rfl, hn⟩⟩
  | ident s =>
    intro n p hn
    constructor
    · intro h
      simp only [tExpr, dExpr] at *
      cases hl : lookup env s with
      | none => simp
      | some v => rw [hl] at h; simp at h
    · intro Δ n' x h
      simp only [tExpr] at h
      cases hl : lookup env s with
      | none => rw [hl] at h; simp at h
      | some v =>
        rw [hl] at h; simp at h; obtain ⟨rfl, rfl, rfl⟩ := h
        refine ⟨by intro h; simp [cAll] at h, ?_⟩
        intro p' h; simp [cAll] at h; subst h
        simp [dExpr, hl, hn]
  | add x y ihx ihy =>
    intro n p hn
    obtain ⟨ax, bx⟩ := ihx n p hn
    constructor
    · intro h
      simp only [tExpr] at h
      simp only [dExpr]
      cases hx : tExpr env n x with
      | none => rw [ax hx]
      | some r1 =>
        obtain ⟨d1, n1, a⟩ := r1
        rw [hx] at h; simp only [] at h
        obtain ⟨hf1, hs1⟩ := bx d1 n1 a hx
        cases hc1 : cAll p d1 with
        | none => rw [hf1 hc1]
        | some p1 =>
          obtain ⟨hd1, hn1⟩ := hs1 p1 hc1
          rw [hd1]; simp only []
          obtain ⟨ay, _⟩ := ihy n1 p1 hn1
          cases hy : tExpr env n1 y with
          | none => rw [ay hy]
          | some r2 => rw [hy] at h; simp at h
    · intro Δ n' o h
      simp only [tExpr] at h
      cases hx : tExpr env n x with
      | none => rw [hx] at h; simp at h
      | some r1 =>
        obtain ⟨d1, n1, a⟩ := r1
        rw [hx] at h; simp only [] at h
        obtain ⟨hf1, hs1⟩ := bx d1 n1 a hx
        cases hy : tExpr env n1 y with
        | none => rw [hy] at h; simp at h
        | some r2 =>
          obtain ⟨d2, n2, b⟩ := r2
          rw [hy] at h; simp at h
          obtain ⟨rfl, rfl, rfl⟩ := h
          simp only [dExpr]
          rw [cAll_append]
          cases hc1 : cAll p d1 with
          | none => simp only []; exact ⟨fun _ => by rw [hf1 hc1], fun p' h => by cases h⟩
          | some p1 =>
            obtain ⟨hd1, hn1⟩ := hs1 p1 hc1
            rw [hd1]; simp only []
            obtain ⟨_, by2⟩ := ihy n1 p1 hn1
            obtain ⟨hf2, hs2⟩ := by2 d2 n2 b hy
            rw [cAll_append]
            cases hc2 : cAll p1 d2 with
            | none => simp only []; exact ⟨fun _ => by rw [hf2 hc2], fun p' h => by cases h⟩
            | some p2 =>
              obtain ⟨hd2, hn2⟩ := hs2 p2 hc2
              rw [hd2]; simp only []
              rw [cAll_single, cInst_add p2 n2 _ _ hn2]
              cases hadd : pAdd p2 (min a b) (max a b) with
              | none => simp
              | some r =>
                obtain ⟨p3, o3⟩ := r
                obtain ⟨ho3, hl3⟩ := pAdd_out hadd
                simp only [Option.map_some]
                refine ⟨(by intro h; cases h), ?_⟩
                intro p' h
                cases h
                exact ⟨by rw [ho3, hn2], by omega⟩
  | double x ihx =>
    intro n p hn
    obtain ⟨ax, bx⟩ := ihx n p hn
    constructor
    · intro h
      simp only [tExpr] at h
      simp only [dExpr]
      cases hx : tExpr env n x with
      | none => rw [ax hx]
      | some r1 => rw [hx] at h; simp at h
    · intro Δ n' o h
      simp only [tExpr] at h
      cases hx : tExpr env n x with
      | none => rw [hx] at h; simp at h
      | some r1 =>
        obtain ⟨d1, n1, a⟩ := r1
        rw [hx] at h; simp at h
        obtain ⟨rfl, rfl, rfl⟩ := h
        obtain ⟨hf1, hs1⟩ := bx d1 n1 a hx
        simp only [dExpr]
        rw [cAll_append]
        cases hc1 : cAll p d1 with
        | none => simp only []; exact ⟨fun _ => by rw [hf1 hc1], fun p' h => by cases h⟩
        | some p1 =>
          obtain ⟨hd1, hn1⟩ := hs1 p1 hc1
          rw [hd1]; simp only []
          rw [cAll_single, cInst_dbl p1 n1 _ hn1]
          cases hadd : pAdd p1 a a with
          | none => simp
          | some r =>
            obtain ⟨p3, o3⟩ := r
            obtain ⟨ho3, hl3⟩ := pAdd_out hadd
            simp only [Option.map_some]
            refine ⟨(by intro h; cases h), ?_⟩
            intro p' h
            cases h
            exact ⟨by rw [ho3, hn1], by omega⟩
  | shift x s ihx =>
    intro n p hn
    obtain ⟨ax, bx⟩ := ihx n p hn
    constructor
    · intro h
      simp only [tExpr] at h
      simp only [dExpr]
      cases hx : tExpr env n x with
      | none => rw [ax hx]
      | some r1 => rw [hx] at h; simp at h
    · intro Δ n' o h
      simp only [tExpr] at h
      cases hx : tExpr env n x with
      | none => rw [hx] at h; simp at h
      | some r1 =>
        obtain ⟨d1, n1, a⟩ := r1
        rw [hx] at h; simp at h
        obtain ⟨rfl, rfl, rfl⟩ := h
        obtain ⟨hf1, hs1⟩ := bx d1 n1 a hx
        simp only [dExpr]
        rw [cAll_append]
        cases hc1 : cAll p d1 with
        | none => simp only []; exact ⟨fun _ => by rw [hf1 hc1], fun p' h => by cases h⟩
        | some p1 =>
          obtain ⟨hd1, hn1⟩ := hs1 p1 hc1
          rw [hd1]; simp only []
          rw [cAll_single]
          unfold cInst
          simp only []
          by_cases hs0 : s = 0
          · subst hs0
            simp only [pShift, Nat.add_zero, if_true]
            by_cases ha : a = n1 - 1
            · have : a = p1.length := by omega
              simp [ha, this]
              omega
            · have : ¬ a = p1.length := by omega
              simp [ha, this]
          · simp only [hs0, if_false]
            cases hsh : pShift s p1 a with
            | none => simp
            | some r =>
              obtain ⟨p3, o3⟩ := r
              obtain ⟨ho3, hl3⟩ := pShift_out s p1 a p3 o3 (by omega) hsh
              have : o3 = n1 + s - 1 := by omega
              simp only [this, if_true]
              refine ⟨(by intro h; cases h), ?_⟩
              intro p' h
              cases h
              exact ⟨rfl, by omega⟩


/-! ## statements -/
/-- translate a statement list from counter `n` and name table `env`: all emitted instructions -/
def tStmts (env : Env) (n : Nat) : List Stmt → Option (List Inst)
  | [] => some []
  | st :: r =>
    match tExpr env n st.e with
    | none => none
    | some (Δ, n', x) =>
      match lookup env st.name with
      | some _ => none                       -- "cannot redefine"
      | none => (tStmts ((st.name, x) :: env) n' r).map (Δ ++ ·)

/-- the direct semantics of a statement list -/
def dStmts (p : Prog) (env : Env) : List Stmt → Option Prog
  | [] => some p
  | st :: r =>
    match dExpr p env st.e with
    | none => none
    | some (p', x) =>
      match lookup env st.name with
      | some _ => none
      | none => dStmts p' ((st.name, x) :: env) r

theorem stmts_sim : ∀ (ss : List Stmt) (env : Env) (n : Nat) (p : Prog), n = p.length + 1 →
    (match tStmts env n ss with | none => none | some ir => cAll p ir) = dStmts p env ss := by
  intro ss
  induction ss with
  | nil => intro env n p _; rfl
  | cons st r ih =>
    intro env n p hn
    obtain ⟨ha, hb⟩ := expr_sim env st.e n p hn
    simp only [tStmts, dStmts]
    cases ht : tExpr env n st.e with
    | none => rw [ha ht]
    | some res =>
      obtain ⟨Δ, n', x⟩ := res
      obtain ⟨hf, hs⟩ := hb Δ n' x ht
      simp only []
      cases hl : lookup env st.name with
      | some v =>
        simp only []
        cases hd : dExpr p env st.e with
        | none => rfl
        | some r2 => rfl
      | none =>
        simp only []
        cases hc : cAll p Δ with
        | none =>
          rw [hf hc]
          cases tStmts ((st.name, x) :: env) n' r with
          | none => rfl
          | some ir => simp only [Option.map_some]; rw [cAll_append, hc]
        | some p' =>
          obtain ⟨hd, hn'⟩ := hs p' hc
          rw [hd]
          simp only []
          rw [← ih ((st.name, x) :: env) n' p' hn']
          cases tStmts ((st.name, x) :: env) n' r with
          | none => rfl
          | some ir => simp only [Option.map_some]; rw [cAll_append, hc]

/-- **C03 refinement**: translating a script to IR and compiling it (with the operand bounds
    checks and the output-index cross-check) yields exactly the operation list of the direct
    semantics, and fails exactly when the direct semantics fails. -/
theorem load_eq_denote (ss : List Stmt) :
    (match tStmts [] 1 ss with | none => none | some ir => cAll [] ir) = dStmts [] [] ss :=
  stmts_sim ss [] 1 [] rfl

end P.Sem
