import AC.Listing
/-! C06 prototype: the whole listing (tmp line + instruction lines) reads back. -/
namespace P.Listing

def tmpLine (tmps : List (List Char)) : List Char := joinWith '\t' ("tmp".toList :: tmps)

/-- listing.tmpl: the `tmp` line, then one line per instruction, each terminated by a newline -/
def renderListing (tmps : List (List Char)) (ls : List Line) : List Char :=
  joinWith '\n' (tmpLine tmps :: ls.map renderLine) ++ ['\n']

def readTmp (fs : List (List Char)) : Option (List (List Char)) :=
  match fs with
  | k :: r => if k = "tmp".toList then some (r.filter (· ≠ [])) else none
  | [] => none

def readAll : List (List Char) → Option (List Line)
  | [] => some []
  | l :: r => match readLine (splitAt '\t' l), readAll r with
    | some x, some xs => some (x :: xs)
    | _, _ => none

/-- the documented reading: split into lines (the text ends with a newline), first line declares
    the temporaries, the others are instructions -/
def readListing (s : List Char) : Option (List (List Char) × List Line) :=
  match (splitAt '\n' s).dropLast with
  | [] => none
  | t :: r => match readTmp (splitAt '\t' t), readAll r with
    | some tm, some ls => some (tm, ls)
    | _, _ => none

def LineOK (l : Line) : Prop :=
  NameOK l.out ∧ match l.op with | .add x y => NameOK x ∧ NameOK y | .dbl x => NameOK x | .shl x _ => NameOK x

theorem mem_joinWith (sep c : Char) : ∀ (fs : List (List Char)), c ∈ joinWith sep fs → c = sep ∨ ∃ f ∈ fs, c ∈ f := by
  intro fs
  induction fs with
  | nil => intro h; simp [joinWith] at h
  | cons f r ih =>
    intro h
    cases r with
    | nil => simp only [joinWith] at h; exact Or.inr ⟨f, by simp, h⟩
    | cons g r' =>
      simp only [joinWith, List.mem_append, List.mem_cons] at h
      rcases h with h | h | h
      · exact Or.inr ⟨f, by simp, h⟩
      · exact Or.inl h
      · rcases ih h with h' | ⟨f', hf', hc⟩
        · exact Or.inl h'
        · exact Or.inr ⟨f', List.mem_cons_of_mem _ hf', hc⟩

theorem natStr_nonl (s : Nat) : '\n' ∉ natStr s := by
  intro h
  have := Nat.isDigit_of_mem_toDigits (b := 10) (n := s) (by omega) (by omega) h
  simp [Char.isDigit] at this

theorem renderLine_nonl (l : Line) (h : LineOK l) : '\n' ∉ renderLine l := by
  intro hm
  obtain ⟨o, op⟩ := l
  obtain ⟨ho, hx⟩ := h
  cases op with
  | add x y =>
    rcases mem_joinWith '\t' '\n' _ hm with h' | ⟨f, hf, hc⟩
    · cases h'
    · simp at hf
      rcases hf with rfl | rfl | rfl | rfl
      · revert hc; decide
      · exact ho.2 hc
      · exact hx.1.2 hc
      · exact hx.2.2 hc
  | dbl x =>
    rcases mem_joinWith '\t' '\n' _ hm with h' | ⟨f, hf, hc⟩
    · cases h'
    · simp at hf
      rcases hf with rfl | rfl | rfl
      · revert hc; decide
      · exact ho.2 hc
      · exact hx.2 hc
  | shl x s =>
    rcases mem_joinWith '\t' '\n' _ hm with h' | ⟨f, hf, hc⟩
    · cases h'
    · simp at hf
      rcases hf with rfl | rfl | rfl | rfl
      · revert hc; decide
      · exact ho.2 hc
      · exact hx.2 hc
      · exact natStr_nonl s hc

theorem tmpLine_nonl (tmps : List (List Char)) (h : ∀ t ∈ tmps, NameOK t) : '\n' ∉ tmpLine tmps := by
  intro hm
  rcases mem_joinWith '\t' '\n' _ hm with h' | ⟨f, hf, hc⟩
  · cases h'
  · rcases List.mem_cons.mp hf with rfl | hf
    · revert hc; decide
    · exact (h f hf).2 hc

theorem splitAt_trailing (sep : Char) : ∀ (fs : List (List Char)), fs ≠ [] → (∀ f ∈ fs, sep ∉ f) →
    (splitAt sep (joinWith sep fs ++ [sep])).dropLast = fs := by
  intro fs hne h
  have : joinWith sep fs ++ [sep] = joinWith sep (fs ++ [[]]) := by
    clear h
    induction fs with
    | nil => exact absurd rfl hne
    | cons f r ih =>
      cases r with
      | nil => simp [joinWith]
      | cons g r' =>
        have := ih (by simp)
        simp only [joinWith, List.cons_append, List.append_assoc] at this ⊢
        rw [this]
  rw [this, split_join sep (fs ++ [[]]) (by simp) (by
    intro f hf
    rcases List.mem_append.mp hf with h' | h'
    · exact h f h'
    · simp at h'; subst h'; simp)]
  simp

theorem readAll_render : ∀ (ls : List Line), (∀ l ∈ ls, LineOK l) → readAll (ls.map renderLine) = some ls := by
  intro ls
  induction ls with
  | nil => intro _; rfl
  | cons l r ih =>
    intro h
    obtain ⟨ho, hx⟩ := h l (by simp)
    simp only [List.map_cons, readAll, readLine_render l ho hx, ih (fun x hx' => h x (List.mem_cons_of_mem _ hx'))]

/-- **the listing, read literally, gives back the temporaries and the instructions** -/
theorem readListing_render (tmps : List (List Char)) (ls : List Line)
    (ht : ∀ t ∈ tmps, NameOK t ∧ t ≠ []) (hl : ∀ l ∈ ls, LineOK l) :
    readListing (renderListing tmps ls) = some (tmps, ls) := by
  unfold readListing renderListing
  rw [splitAt_trailing '\n' _ (by simp) (by
    intro f hf
    rcases List.mem_cons.mp hf with rfl | hf
    · exact tmpLine_nonl tmps (fun t h => (ht t h).1)
    · obtain ⟨l, hlm, rfl⟩ := List.mem_map.mp hf
      exact renderLine_nonl l (hl l hlm))]
  simp only []
  have htmp : readTmp (splitAt '\t' (tmpLine tmps)) = some tmps := by
    unfold tmpLine
    rw [split_join '\t' _ (by simp) (by
      intro f hf
      rcases List.mem_cons.mp hf with rfl | hf
      · decide
      · exact (ht f hf).1.1)]
    simp only [readTmp, if_true]
    congr 1
    apply List.filter_eq_self.mpr
    intro t h; simpa using (ht t h).2
  rw [htmp, readAll_render ls hl]

end P.Listing
