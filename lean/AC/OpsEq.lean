import AC.Chain
/-! C02 prototype: the two code paths of `Chain.Ops` return the same *list*. -/
namespace P

def lexLt (a b : Nat × Nat) : Prop := a.1 < b.1 ∨ (a.1 = b.1 ∧ a.2 < b.2)

theorem lexLt_irrefl (a : Nat × Nat) : ¬ lexLt a a := by unfold lexLt; omega
theorem lexLt_trans {a b c : Nat × Nat} (h1 : lexLt a b) (h2 : lexLt b c) : lexLt a c := by
  unfold lexLt at *; omega
theorem lexLt_asymm {a b : Nat × Nat} (h1 : lexLt a b) (h2 : lexLt b a) : False := by
  unfold lexLt at *; omega

/-- two lists sorted by a strict order with the same members are equal -/
theorem eq_of_sorted_of_mem_iff : ∀ (l1 l2 : List (Nat × Nat)), l1.Pairwise lexLt → l2.Pairwise lexLt →
    (∀ x, x ∈ l1 ↔ x ∈ l2) → l1 = l2 := by
  intro l1
  induction l1 with
  | nil =>
    intro l2 _ _ h
    cases l2 with
    | nil => rfl
    | cons b r => have := (h b).2 (by simp); simp at this
  | cons a r ih =>
    intro l2 h1 h2 h
    cases l2 with
    | nil => have := (h a).1 (by simp); simp at this
    | cons b r2 =>
      have ha := List.pairwise_cons.mp h1
      have hb := List.pairwise_cons.mp h2
      have hab : a = b := by
        have h1' : a ∈ b :: r2 := (h a).1 (by simp)
        have h2' : b ∈ a :: r := (h b).2 (by simp)
        rcases List.mem_cons.mp h1' with e | h1''
        · exact e
        · rcases List.mem_cons.mp h2' with e | h2''
          · exact e.symm
          · exact absurd (lexLt_asymm (ha.1 b h2'') (hb.1 a h1'')) id
      subst hab
      congr 1
      apply ih r2 ha.2 hb.2
      intro x
      constructor
      · intro hx
        have := (h x).1 (List.mem_cons_of_mem _ hx)
        rcases List.mem_cons.mp this with e | h'
        · subst e; exact absurd (ha.1 x hx) (lexLt_irrefl x)
        · exact h'
      · intro hx
        have := (h x).2 (List.mem_cons_of_mem _ hx)
        rcases List.mem_cons.mp this with e | h'
        · subst e; exact absurd (hb.1 x hx) (lexLt_irrefl x)
        · exact h'

/-- the quadratic listing is in lexicographic order -/
theorem quadOps_sorted (c : Chain) (k : Nat) : (quadOps c k).Pairwise lexLt := by
  unfold quadOps
  rw [List.pairwise_flatMap]
  constructor
  · intro i _
    rw [List.pairwise_map]
    have : ((List.range k).filter fun j => decide (i ≤ j) && (at' c i + at' c j == at' c k)).Pairwise (· < ·) :=
      List.Pairwise.sublist List.filter_sublist List.pairwise_lt_range
    exact this.imp (fun h => Or.inr ⟨rfl, h⟩)
  · have : (List.range k).Pairwise (· < ·) := List.pairwise_lt_range
    apply this.imp
    intro i i' hii a ha b hb
    obtain ⟨j, _, rfl⟩ := List.mem_map.mp ha
    obtain ⟨j', _, rfl⟩ := List.mem_map.mp hb
    exact Or.inl hii

/-- the two-pointer listing is in lexicographic order (first components strictly increase) -/
theorem twoPtr_sorted (c : Chain) (t : Int) : ∀ (n l rp : Nat), (rp + 1 - l) + rp ≤ n →
    (twoPtr c t l rp).Pairwise lexLt ∧ ∀ x ∈ twoPtr c t l rp, l ≤ x.1 := by
  intro n
  induction n with
  | zero =>
    intro l rp hn
    have : rp = 0 := by omega
    subst this
    simp [twoPtr]
  | succ n ih =>
    intro l rp hn
    cases rp with
    | zero => simp [twoPtr]
    | succ rp =>
      unfold twoPtr
      by_cases h : l ≤ rp
      · simp only [h, dite_true]
        by_cases hs : at' c l + at' c rp = t
        · simp only [hs, if_true]
          obtain ⟨i1, i2⟩ := ih (l+1) (rp+1) (by omega)
          refine ⟨List.pairwise_cons.mpr ⟨?_, i1⟩, ?_⟩
          · intro x hx; have := i2 x hx; exact Or.inl (by simp; omega)
          · intro x hx
            rcases List.mem_cons.mp hx with rfl | hx
            · simp
            · have := i2 x hx; omega
        · simp only [hs, if_false]
          by_cases hlt : at' c l + at' c rp < t
          · simp only [hlt, if_true]
            obtain ⟨i1, i2⟩ := ih (l+1) (rp+1) (by omega)
            exact ⟨i1, fun x hx => by have := i2 x hx; omega⟩
          · simp only [hlt, if_false]
            exact ih l rp (by omega)
      · simp only [h, dite_false]
        simp

/-- **`Chain.Ops` lists exactly the lexicographically ordered index pairs, on both paths** -/
theorem ops_eq_spec (c : Chain) (k : Nat) (hk : k < c.length) : ops c k = opsSpec c k := by
  apply eq_of_sorted_of_mem_iff
  · unfold ops
    split
    · exact (twoPtr_sorted c (at' c k) _ 0 k (Nat.le_refl _)).1
    · exact quadOps_sorted c k
  · exact quadOps_sorted c k
  · intro x
    obtain ⟨i, j⟩ := x
    rw [mem_ops c k i j hk]
    exact (mem_quadOps c k i j).symm

end P
