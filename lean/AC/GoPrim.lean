import AC.BigPrim
/-! # Go runtime primitives used by the translated program functions (`AC/Gen/ProgramFns.lean`)

The translator (`harness/cmd/extract/gotr.go`) turns the functions of program.go into Lean `do` blocks
in the `Option` monad over these primitives; `none` stands for a run-time panic of the Go code.
Go `int` is modelled as `Int` (no wrap-around: the values are lengths, indices and counts), slices as
lists (the translated functions never share a backing array between two live slices: every `append`
result replaces the variable it was appended to), `*big.Int` as `Int`, `error` as `Option GoErr` with the
format string and its arguments as the error's identity. -/
namespace AC.GoPrim
open AC.BigPrim

/-- `addchain.Op` -/
structure GOp where
  I : Int
  J : Int
deriving Repr, DecidableEq, BEq

/-- an `error` made by `fmt.Errorf(format, args...)` -/
abbrev GoErr := String × List Int

def goErr (f : String) (args : List Int) : Option GoErr := some (f, args)
def goNil : Option GoErr := none

/-- `len(s)` -/
def len {α} (l : List α) : Int := (l.length : Nat)

/-- `s[i]`: panics when `i` is out of range -/
def idx {α} (l : List α) (i : Int) : Option α := if i < 0 then none else l[i.toNat]?

/-- `s[i] = v`: panics when `i` is out of range -/
def setIdx {α} (l : List α) (i : Int) (v : α) : Option (List α) :=
  if i < 0 then none else if i.toNat < l.length then some (l.set i.toNat v) else none

/-- `make([]int, n)`: panics when `n` is negative -/
def makeInts (n : Int) : Option (List Int) := if n < 0 then none else some (List.replicate n.toNat 0)

/-- `s[:k]`: panics when `k` is negative or larger than the length (the translated functions never
    reslice beyond the length into spare capacity) -/
def sliceTo {α} (l : List α) (k : Int) : Option (List α) :=
  if k < 0 then none else if k.toNat ≤ l.length then some (l.take k.toNat) else none

/-- `s[k:]`: panics when `k` is negative or larger than the length -/
def sliceFrom {α} (l : List α) (k : Int) : Option (List α) :=
  if k < 0 then none else if k.toNat ≤ l.length then some (l.drop k.toNat) else none

/-- a loop that would run longer than the fuel the translator computed for it (never reached: the tie
    theorems prove the translated functions equal to total model functions) -/
def goDiverge {α} : Option α := none

/-- `make([]*big.Int, n)`: `n` nil pointers, modelled as placeholders (the translated functions
    overwrite them before reading; capacity is not modelled); panics when `n` is negative -/
def makeBigs (n : Int) : Option (List Int) := if n < 0 then none else some (List.replicate n.toNat 0)

/-- `x.Bit(i)` on a non-negative `x`: panics when `i` is negative -/
def bBit (x : Int) (i : Int) : Option Int :=
  if i < 0 then none else some (if x.toNat.testBit i.toNat then 1 else 0)

/-- `make([][]Op, n)`: `n` nil slices; panics when `n` is negative -/
def makeOpLists (n : Int) : Option (List (List GOp)) := if n < 0 then none else some (List.replicate n.toNat [])

/-- `new(big.Int).Div(x, y)`: Euclidean division; panics when `y` is zero -/
def bDiv (x y : Int) : Option Int := if y = 0 then none else some (x / y)

/-- `uint(i)` of a Go `int`: the translated functions only convert values they have established to be
    non-negative; a negative value (which Go would wrap) is treated as a panic, so no tie theorem can be
    proved about a wrapped value -/
def goUint (i : Int) : Option Nat := if i < 0 then none else some i.toNat

/-- `panic(...)` -/
def goPanic {α} : Option α := none

/-- `bigints.ContainsSorted(n, xs)`: `sort.Search` with a closure is outside the translated fragment; the
    primitive is the binary-search model of `AC/Helpers.lean` (compared with the code on every C19 run and
    proved to decide membership on sorted lists, `containsSorted_iff`) -/
def bigintsContainsSorted (n : Int) (xs : List Int) : Bool := P.Helpers.containsSorted n xs

/-- `new(big.Int).Sqrt(x)`: floor of the square root; panics when `x` is negative -/
def bSqrt (x : Int) : Option Int := if x < 0 then none else some (Int.ofNat (Nat.sqrt x.toNat))

/-- `x.IsUint64()` -/
def bIsUint64 (x : Int) : Bool := decide (0 ≤ x) && decide (x < 2 ^ 64)

/-- `uint(x.Uint64())`: `Uint64` of a value outside `[0, 2^64)` is undefined in math/big; the translated code
    checks `IsUint64` first, and a value outside the range is refused here instead of being truncated -/
def goUint64 (x : Int) : Option Nat := if 0 ≤ x ∧ x < 2 ^ 64 then some x.toNat else none

/-- `dict.Term` -/
structure GTerm where
  D : Int
  E : Nat
deriving Repr, DecidableEq, BEq

/-- `Sum.SortByExponent` (`sort.Slice` keyed by `E`): a primitive, the insertion sort of the model
    (`P.sortByE`); any correct sort agrees with it when the exponents are distinct, which the
    decomposition theorems establish -/
def insertGTerm (t : GTerm) : List GTerm → List GTerm
  | [] => [t]
  | u :: r => if t.E < u.E then t :: u :: r else u :: insertGTerm t r
def sumSortByExponent (l : List GTerm) : List GTerm := l.foldr insertGTerm []

/-- `bigints.Sort` (`sort.Slice` by `Cmp`, in place): a primitive; every correct sort of a list of
    integers returns the same list, so the particular algorithm is immaterial -/
def bigintsSort (l : List Int) : List Int := l.mergeSort (fun a b => decide (a ≤ b))

/-- `new(big.Int).Mul(x, y)` -/
def bMul (x y : Int) : Int := x * y

/-- `new(big.Int).Or(x, y)` on non-negative values (bitsets) -/
def bOr (x y : Int) : Int := ((x.toNat ||| y.toNat : Nat) : Int)

/-- `z.SetBit(x, i, b)` on a non-negative `x`: panics when `i` is negative -/
def bSetBit (x : Int) (i : Int) (b : Int) : Option Int :=
  if i < 0 then none
  else if b = 0 then some ((x.toNat - (if x.toNat.testBit i.toNat then 2 ^ i.toNat else 0) : Nat) : Int)
  else some ((x.toNat ||| 2 ^ i.toNat : Nat) : Int)

end AC.GoPrim
