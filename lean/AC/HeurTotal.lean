import AC.Halving
/-! C08/C15 prototype: the Bos–Coster loop terminates and a total heuristic never fails. -/
namespace P

theorem protoOK_of_inv (T proto c : List Int) (hI : LoopInv T proto c) (hlen : 2 < proto.length) :
    ProtoOK proto.dropLast (proto.getLastD 0) := by
  have hne : proto ≠ [] := by intro h; simp [h] at hlen
  obtain ⟨hdasc, hdtop⟩ := pairwise_split_last proto hI.pasc hne
  have hsplit := dropLast_concat_getLastD proto hne
  generalize ht : proto.getLastD 0 = t at *
  generalize hp' : proto.dropLast = p' at *
  have hmem : ∀ x, x ∈ proto ↔ x ∈ p' ∨ x = t := by
    intro x; rw [hsplit]; simp
  have h1p : (1 : Int) ∈ p' := by
    rcases (hmem 1).1 hI.one with h | h
    · exact h
    · exfalso
      rcases (hmem 2).1 hI.two with h2 | h2
      · have := hdtop 2 h2; omega
      · omega
  have h2p : (2 : Int) ∈ p' := by
    rcases (hmem 2).1 hI.two with h | h
    · exact h
    · exfalso
      have hall : ∀ x ∈ p', x = 1 := by
        intro x hx
        have := hdtop x hx
        have := hI.ppos x ((hmem x).2 (Or.inl hx))
        omega
      have hlen' : p'.length ≤ 1 := by
        cases hp : p' with
        | nil => simp
        | cons a r =>
          cases r with
          | nil => simp
          | cons b r' =>
            rw [hp] at hall hdasc
            have ha := hall a (by simp)
            have hb := hall b (by simp)
            have := (List.pairwise_cons.mp hdasc).1 b (by simp)
            omega
      have : proto.length = p'.length + 1 := by rw [hsplit]; simp
      omega
  exact ⟨hdasc, fun x hx => hI.ppos x ((hmem x).2 (Or.inl hx)), h1p, h2p, hdtop⟩

/-- a heuristic that always has a suggestion on well-formed protosequences -/
def Total (sg : Suggest) : Prop := ∀ f t, ProtoOK f t → sg f t ≠ none

theorem loop_total (sg : Suggest) (hs : Sound sg) (htot : Total sg) (T : List Int) :
    ∀ (fuel : Nat) (proto c : List Int), LoopInv T proto c → (proto.getLastD 0).toNat ≤ fuel →
    ∃ r, loop sg (fuel + 1) proto c = some r := by
  intro fuel
  induction fuel with
  | zero =>
    intro proto c hI hf
    -- the largest element is ≤ 0, impossible unless … 2 ∈ proto
    have h2 := hI.two
    have hne : proto ≠ [] := by intro e; rw [e] at h2; simp at h2
    obtain ⟨_, ht⟩ := pairwise_split_last proto hI.pasc hne
    have hs' := dropLast_concat_getLastD proto hne
    generalize proto.getLastD 0 = L at *
    rw [hs'] at h2
    rcases List.mem_append.mp h2 with h | h
    · have := ht 2 h; omega
    · have : (2 : Int) = L := by simpa using h
      omega
  | succ fuel ih =>
    intro proto c hI hf
    rw [loop]
    by_cases hlen : proto.length ≤ 2
    · simp [hlen]
    · simp only [hlen, if_false]
      have hpok := protoOK_of_inv T proto c hI (by omega)
      cases hsg : sg proto.dropLast (proto.getLastD 0) with
      | none => exact absurd hsg (htot _ _ hpok)
      | some ins =>
        simp only []
        have hI' := loop_step_inv sg hs T proto c ins hI (by omega) hsg
        apply ih _ _ hI'
        -- the new maximum is below the old one
        have hne' : mergeUnique proto.dropLast ins ≠ [] := by
          intro e; have := hI'.one; rw [e] at this; simp at this
        have hm := getLastD_mem _ hne'
        obtain ⟨_, hib, _⟩ := hs _ _ ins hpok hsg
        have hlt : (mergeUnique proto.dropLast ins).getLastD 0 < proto.getLastD 0 := by
          rcases (mem_mergeUnique _ _ _).1 hm with h | h
          · exact hpok.top _ h
          · exact (hib _ h).2
        have hpos : 1 ≤ (mergeUnique proto.dropLast ins).getLastD 0 := hI'.ppos _ hm
        omega

theorem total_delta : Total suggestDelta := by intro f t _; simp [suggestDelta]
theorem total_approx : Total suggestApprox := by intro f t _; simp [suggestApprox]
theorem total_first_of_mem (sgs : List Suggest) (sg : Suggest) (hm : sg ∈ sgs) (ht : Total sg) :
    Total (suggestFirst sgs) := by
  induction sgs with
  | nil => simp at hm
  | cons s r ih =>
    intro f t hp
    simp only [suggestFirst]
    cases hs : s f t with
    | some i => simp
    | none =>
      simp only []
      rcases List.mem_cons.mp hm with rfl | hm'
      · exact absurd hs (ht f t hp)
      · exact ih hm' f t hp

/-- **C08, heuristic half, with totality**: both ensemble compositions always return a valid
    chain containing the targets (fuel = largest target suffices). -/
theorem findSequence_total (sg : Suggest) (hs : Sound sg) (htot : Total sg) (T : List Int)
    (hT : ∀ x ∈ T, 1 ≤ x) (fuel : Nat)
    (hf : ((sortUniq ([1, 2] ++ T)).getLastD 0).toNat ≤ fuel) :
    ∃ c, findSequence sg (fuel + 1) T = some c ∧ IsChain c ∧ ∀ x ∈ T, x ∈ c := by
  by_cases h1 : T = [1]
  · refine ⟨[1], by simp [findSequence, h1], ?_⟩
    exact findSequence_ok sg hs (fuel + 1) T [1] hT (by simp [findSequence, h1])
  · have hI0 : LoopInv T (sortUniq ([1, 2] ++ T)) [] := by
      refine ⟨pairwise_sortUniq _, ?_, ?_, ?_, by simp, by simp, by simp, ?_⟩
      · intro x hx
        rw [mem_sortUniq] at hx
        simp at hx
        rcases hx with rfl | rfl | hx
        · omega
        · omega
        · exact hT x hx
      · rw [mem_sortUniq]; simp
      · rw [mem_sortUniq]; simp
      · intro x hx; left; rw [mem_sortUniq]; simp [hx]
    obtain ⟨r, hr⟩ := loop_total sg hs htot T fuel _ [] hI0 hf
    have hfs : findSequence sg (fuel + 1) T = some (mergeUnique [1, 2] r) := by
      unfold findSequence
      simp only [h1, if_false]
      rw [hr]; rfl
    exact ⟨_, hfs, findSequence_ok sg hs (fuel + 1) T _ hT hfs⟩

end P
