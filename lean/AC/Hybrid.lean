import AC.Windows
/-! C09 prototype: the `Hybrid` decomposition = long runs first, sliding windows on the rest. -/
namespace P.Bits

/-- phase 1 of `Hybrid.Decompose`: runs (cut at `T`) longer than `K` become terms; shorter
    ones are skipped and left for the sliding window -/
def hyRuns (x K T : Nat) : Nat → Nat → List Term
  | 0, _ => []
  | _, 0 => []
  | fuel+1, ip+1 =>
    if x.testBit ip then
      let n := runDown x T (ip + 1) 0
      if n ≤ K then hyRuns x K T fuel (ip + 1 - n)
      else ⟨2 ^ n - 1, ip + 1 - n⟩ :: hyRuns x K T fuel (ip + 1 - n)
    else hyRuns x K T fuel ip

/-- the runs are made of set bits of `x` (their total is at most the scanned low part), every
    run is all-ones, longer than `K`, at most `T` when `T > 0`, and they do not overlap -/
theorem hyRuns_spec (x K T : Nat) : ∀ (fuel ip : Nat), ip ≤ fuel →
    value (hyRuns x K T fuel ip) ≤ x % 2 ^ ip ∧
    (∀ t ∈ hyRuns x K T fuel ip, ∃ n, K < n ∧ t.d = 2 ^ n - 1 ∧ (0 < T → n ≤ T) ∧ t.d * 2 ^ t.e < 2 ^ ip) ∧
    (hyRuns x K T fuel ip).Pairwise (fun a b => b.d * 2 ^ b.e < 2 ^ a.e) := by
  intro fuel
  induction fuel with
  | zero =>
    intro ip h
    have : ip = 0 := by omega
    subst this
    simp [hyRuns, value]
  | succ f ih =>
    intro ip h
    cases ip with
    | zero => simp [hyRuns, value]
    | succ ip =>
      unfold hyRuns
      by_cases hb : x.testBit ip = true
      · simp only [hb, if_true]
        obtain ⟨r1, r2, r3⟩ := runDown_spec x T (ip + 1) 0
        have hn1 : 1 ≤ runDown x T (ip + 1) 0 := by
          unfold runDown
          have : (x.testBit ip && (T == 0 || decide (0 < T))) = true := by
            simp [hb]; omega
          simp [this]
        generalize hnn : runDown x T (ip + 1) 0 = n at *
        generalize hl : ip + 1 - n = l at *
        obtain ⟨ihv, iht, ihp⟩ := ih l (by omega)
        have hsplit : x % 2 ^ (ip + 1) = x % 2 ^ l + 2 ^ l * (x / 2 ^ l % 2 ^ n) := by
          have : 2 ^ (ip + 1) = 2 ^ l * 2 ^ n := by rw [← Nat.pow_add]; congr 1; omega
          rw [this, Nat.mod_mul]
        have hones : x / 2 ^ l % 2 ^ n = 2 ^ n - 1 := by
          apply mod_all_ones
          intro j hj
          rw [Nat.testBit_div_two_pow]
          have := r2 (n - 1 - j) (by omega)
          have e : ip + 1 - 1 - (n - 1 - j) = j + l := by omega
          rw [e] at this; exact this
        have hmono : ∀ t ∈ hyRuns x K T f l, t.d * 2 ^ t.e < 2 ^ (ip + 1) := by
          intro t ht
          obtain ⟨m, _, _, _, h4⟩ := iht t ht
          have : 2 ^ l ≤ 2 ^ (ip + 1) := Nat.pow_le_pow_right (by omega) (by omega)
          omega
        by_cases hshort : n ≤ K
        · simp only [hshort, if_true]
          refine ⟨?_, ?_, ihp⟩
          · rw [hsplit]; omega
          · intro t ht
            obtain ⟨m, h1, h2, h3, _⟩ := iht t ht
            exact ⟨m, h1, h2, h3, hmono t ht⟩
        · simp only [hshort, if_false]
          have hpos : 0 < 2 ^ n := Nat.pow_pos (by omega)
          have hlt : (2 ^ n - 1) * 2 ^ l < 2 ^ (ip + 1) := by
            have : 2 ^ (ip + 1) = 2 ^ n * 2 ^ l := by rw [← Nat.pow_add]; congr 1; omega
            rw [this]
            exact Nat.mul_lt_mul_of_pos_right (by omega) (Nat.pow_pos (by omega))
          refine ⟨?_, ?_, ?_⟩
          · simp only [value, List.map_cons, List.sum_cons] at ihv ⊢
            rw [hsplit, hones, Nat.mul_comm (2 ^ l)]
            omega
          · intro t ht
            rcases List.mem_cons.mp ht with rfl | ht
            · exact ⟨n, by omega, rfl, by intro hT; have := r3 hT; omega, hlt⟩
            · obtain ⟨m, h1, h2, h3, _⟩ := iht t ht
              exact ⟨m, h1, h2, h3, hmono t ht⟩
          · apply List.pairwise_cons.mpr
            refine ⟨?_, ihp⟩
            intro t ht
            obtain ⟨m, _, _, _, h4⟩ := iht t ht
            exact h4
      · simp only [hb, Bool.false_eq_true, if_false]
        obtain ⟨ihv, iht, ihp⟩ := ih ip (by omega)
        have hmod : x % 2 ^ (ip + 1) = x % 2 ^ ip := by
          rw [mod_succ_of_bit]; simp [hb]
        refine ⟨by rw [hmod]; exact ihv, ?_, ihp⟩
        intro t ht
        obtain ⟨m, h1, h2, h3, h4⟩ := iht t ht
        refine ⟨m, h1, h2, h3, ?_⟩
        have : 2 ^ ip ≤ 2 ^ (ip + 1) := Nat.pow_le_pow_right (by omega) (by omega)
        omega

/-- `Hybrid.Decompose`, before the final sort -/
def hybrid (x K T : Nat) : List Term :=
  let L := Nat.log2 x + 1
  let runs := hyRuns x K T L L
  let y := x - value runs
  runs ++ sliding y K L L

/-- **C09 for the hybrid method (sum and shapes)** -/
theorem hybrid_spec (x K T : Nat) (hK : 1 ≤ K) :
    value (hybrid x K T) = x ∧
    ∀ t ∈ hybrid x K T, t.d % 2 = 1 ∧ (t.d < 2 ^ K ∨ ∃ n, K < n ∧ t.d = 2 ^ n - 1 ∧ (0 < T → n ≤ T)) := by
  unfold hybrid
  simp only []
  generalize hL : Nat.log2 x + 1 = L
  have hxL : x < 2 ^ L := by rw [← hL]; exact Nat.lt_log2_self
  obtain ⟨r1, r2, _⟩ := hyRuns_spec x K T L L (Nat.le_refl _)
  have hxm : x % 2 ^ L = x := Nat.mod_eq_of_lt hxL
  rw [hxm] at r1
  obtain ⟨s1, s2, _⟩ := sliding_spec (x - value (hyRuns x K T L L)) K hK L L (Nat.le_refl _)
  have hym : (x - value (hyRuns x K T L L)) % 2 ^ L = x - value (hyRuns x K T L L) :=
    Nat.mod_eq_of_lt (by omega)
  refine ⟨?_, ?_⟩
  · have : value (hyRuns x K T L L ++ sliding (x - value (hyRuns x K T L L)) K L L)
        = value (hyRuns x K T L L) + value (sliding (x - value (hyRuns x K T L L)) K L L) := by
      simp [value, List.map_append, List.sum_append]
    rw [this, s1, hym]; omega
  · intro t ht
    rcases List.mem_append.mp ht with h | h
    · obtain ⟨n, h1, h2, h3, _⟩ := r2 t h
      refine ⟨?_, Or.inr ⟨n, h1, h2, h3⟩⟩
      rw [h2]
      obtain ⟨n', rfl⟩ : ∃ n', n = n' + 1 := ⟨n - 1, by omega⟩
      rw [Nat.pow_succ]
      have := Nat.pow_pos (n := n') (show 0 < 2 by omega)
      omega
    · obtain ⟨h1, h2, _, _⟩ := s2 t h
      exact ⟨h1, Or.inl h2⟩

end P.Bits
