import AC.Bits
import AC.Helpers
import AC.Merge
/-! C19: remaining models of internal/bigint, internal/bigints, internal/bigvector (core Lean only)
    and their lemmas. New names only; namespace `P.HX`. -/
namespace P.HX
open P.Bits P.Helpers

/-! ## bit length, Mask / Extract on `Int` (what Go does out of range too) -/

/-- `big.Int.BitLen` of a natural -/
def bitLen (x : Nat) : Nat := if x = 0 then 0 else Nat.log2 x + 1

/-- `bigint.Mask`: `Pow2(h) - Pow2(l)`, negative when `l > h` -/
def maskI (l h : Nat) : Int := (2 : Int) ^ h - (2 : Int) ^ l

/-- `big.Int.And`: two's-complement semantics by sign cases, as math/big implements it -/
def landI : Int → Int → Int
  | Int.ofNat a, Int.ofNat b => Int.ofNat (a &&& b)
  | Int.ofNat a, Int.negSucc b => Int.ofNat (a ^^^ (a &&& b))
  | Int.negSucc a, Int.ofNat b => Int.ofNat (b ^^^ (b &&& a))
  | Int.negSucc a, Int.negSucc b => Int.negSucc (a ||| b)

/-- `bigint.Extract`: `(Mask(l,h) And x) Rsh l` with math/big's two's-complement `And` and arithmetic `Rsh` -/
def extractI (x : Int) (l h : Nat) : Int := (landI (maskI l h) x) >>> l

theorem bitLen_spec (x : Nat) : x < 2 ^ bitLen x ∧ (x ≠ 0 → 2 ^ (bitLen x - 1) ≤ x) := by
  unfold bitLen
  by_cases h : x = 0
  · simp [h]
  · simp only [h, if_false]
    exact ⟨Nat.lt_log2_self, fun _ => by simpa using Nat.log2_self_le h⟩

theorem bitLen_two_pow (k : Nat) : bitLen (2 ^ k) = k + 1 := by
  unfold bitLen
  simp [Nat.log2_two_pow]

theorem maskI_eq (l h : Nat) (hlh : l ≤ h) : maskI l h = ((mask l h : Nat) : Int) := by
  unfold maskI mask
  have := Nat.pow_le_pow_right (n := 2) (by omega) hlh
  rw [Int.ofNat_sub this]
  simp

theorem extractI_eq (x l h : Nat) (hlh : l ≤ h) : extractI (x : Int) l h = ((extract x l h : Nat) : Int) := by
  unfold extractI extract
  rw [maskI_eq l h hlh]
  rfl

/-! ## IsPow2 -/

/-- `bigint.IsPow2` -/
def isPow2 (x : Int) : Bool :=
  let e := bitLen x.natAbs
  if e = 0 then false else x == ((2 ^ (e - 1) : Nat) : Int)

theorem isPow2_iff (x : Int) : isPow2 x = true ↔ ∃ k : Nat, x = (2 : Int) ^ k := by
  unfold isPow2
  simp only []
  constructor
  · intro h
    by_cases he : bitLen x.natAbs = 0
    · simp [he] at h
    · simp only [he, if_false, beq_iff_eq] at h
      exact ⟨bitLen x.natAbs - 1, h.trans (Int.natCast_pow 2 _)⟩
  · rintro ⟨k, rfl⟩
    have hn : ((2 : Int) ^ k).natAbs = 2 ^ k := by
      rw [Int.natAbs_pow]; rfl
    rw [hn, bitLen_two_pow]
    simp

/-! ## Pow2UpTo -/

/-- the loop of `bigint.Pow2UpTo`: `for p <= x { append p; p <<= 1 }` -/
def pow2Loop (x : Int) (p : Nat) (hp : 0 < p) : List Nat :=
  if (p : Int) ≤ x then p :: pow2Loop x (2 * p) (by omega) else []
termination_by (x + 1 - p).toNat
decreasing_by omega

/-- `bigint.Pow2UpTo` -/
def pow2UpTo (x : Int) : List Nat := pow2Loop x 1 (by omega)

theorem pow2Loop_spec (x : Nat) : ∀ (n j : Nat), x + 1 - 2 ^ j ≤ n → 2 ^ j ≤ x →
    ∃ k, j ≤ k ∧ pow2Loop x (2 ^ j) (Nat.pow_pos (by omega)) = (List.range' j (k + 1 - j)).map (2 ^ ·) ∧
      2 ^ k ≤ x ∧ x < 2 ^ (k + 1) := by
  intro n
  induction n with
  | zero => intro j h1 h2; omega
  | succ n ih =>
    intro j h1 h2
    rw [pow2Loop]
    have hc : ((2 ^ j : Nat) : Int) ≤ (x : Int) := by exact_mod_cast h2
    simp only [hc, if_true]
    by_cases hn : 2 ^ (j + 1) ≤ x
    · have hpos : 0 < 2 ^ j := Nat.pow_pos (by omega)
      have e : 2 * 2 ^ j = 2 ^ (j + 1) := by rw [Nat.pow_succ]; omega
      obtain ⟨k, hk, hl, hb⟩ := ih (j + 1) (by omega) hn
      refine ⟨k, by omega, ?_, hb⟩
      simp only [e]
      rw [hl]
      have : k + 1 - j = (k + 1 - (j + 1)) + 1 := by omega
      rw [this, List.range'_succ]
      simp
    · refine ⟨j, Nat.le_refl _, ?_, h2, by omega⟩
      rw [pow2Loop]
      have e : 2 * 2 ^ j = 2 ^ (j + 1) := by rw [Nat.pow_succ]; omega
      have hc' : ¬ (((2 * 2 ^ j : Nat)) : Int) ≤ (x : Int) := by
        rw [e]; intro h; exact hn (by exact_mod_cast h)
      simp only [hc', if_false]
      have : j + 1 - j = 1 := by omega
      rw [this]; rfl

theorem pow2UpTo_nonpos (x : Int) (h : x ≤ 0) : pow2UpTo x = [] := by
  unfold pow2UpTo
  rw [pow2Loop]
  have : ¬ ((1 : Nat) : Int) ≤ x := by omega
  rw [if_neg this]

theorem pow2UpTo_spec (x : Nat) (hx : 1 ≤ x) :
    ∃ k, pow2UpTo x = (List.range (k + 1)).map (2 ^ ·) ∧ 2 ^ k ≤ x ∧ x < 2 ^ (k + 1) := by
  obtain ⟨k, _, hl, hb⟩ := pow2Loop_spec x (x + 1) 0 (by omega) (by simpa using hx)
  refine ⟨k, ?_, hb⟩
  unfold pow2UpTo
  have : pow2Loop (x : Int) 1 (by omega) = pow2Loop (x : Int) (2 ^ 0) (Nat.pow_pos (by omega)) := rfl
  rw [this, hl, List.range_eq_range']
  rfl

/-! ## BitsSet -/

/-- `bigint.BitsSet` -/
def bitsSet (x : Nat) : List Nat := (List.range (bitLen x)).filter (fun i => x.testBit i)

theorem mem_bitsSet (x i : Nat) : i ∈ bitsSet x ↔ x.testBit i = true := by
  unfold bitsSet
  simp only [List.mem_filter, List.mem_range, and_iff_right_iff_imp]
  intro h
  apply Classical.byContradiction
  intro hc
  have h1 := (bitLen_spec x).1
  have : x < 2 ^ i := Nat.lt_of_lt_of_le h1 (Nat.pow_le_pow_right (by omega) (by omega))
  rw [Nat.testBit_lt_two_pow this] at h
  exact Bool.noConfusion h

theorem pairwise_bitsSet (x : Nat) : (bitsSet x).Pairwise (· < ·) := by
  unfold bitsSet
  exact List.Pairwise.filter _ List.pairwise_lt_range

/-! ## MinMax -/

/-- `bigint.MinMax` -/
def minMax (x y : Int) : Int × Int := if x < y then (x, y) else (y, x)

theorem minMax_spec (x y : Int) : (minMax x y).1 = min x y ∧ (minMax x y).2 = max x y := by
  unfold minMax
  by_cases h : x < y
  · simp only [h, if_true]; omega
  · simp only [h, if_false]; omega

/-! ## Uint64s / BytesLittleEndian -/

/-- `bigint.Uint64s`; `none` = the Go loop never terminates (`Rsh` of a negative number never reaches 0) -/
def uint64s (x : Int) : Option (List Nat) :=
  if x < 0 then none else some (digitsLE (2 ^ 64) (by decide) x.toNat)

/-- `bigint.BytesLittleEndian`: bytes of the absolute value -/
def bytesLE (x : Int) : List Nat := digitsLE 256 (by decide) x.natAbs

/-! ## Hex / Binary -/

/-- digit value as in math/big's scanner for bases ≤ 36 -/
def digitVal (c : Char) : Option Nat :=
  if '0' ≤ c ∧ c ≤ '9' then some (c.toNat - 48)
  else if 'a' ≤ c ∧ c ≤ 'z' then some (c.toNat - 97 + 10)
  else if 'A' ≤ c ∧ c ≤ 'Z' then some (c.toNat - 65 + 10)
  else none

/-- scan digits of base `b` to the end of input (anything else: failure) -/
def scanDigits (b : Nat) : List Char → Nat → Option Nat
  | [], acc => some acc
  | c :: r, acc =>
    match digitVal c with
    | some d => if d < b then scanDigits b r (acc * b + d) else none
    | none => none

/-- `big.Int.SetString(s, b)` for an explicit base `2 ≤ b ≤ 36`: optional single sign, at least one digit,
    nothing else; `none` = `(nil, false)` -/
def setString (b : Nat) (s : List Char) : Option Int :=
  match s with
  | '+' :: r => if r.isEmpty then none else (scanDigits b r 0).map (fun v => Int.ofNat v)
  | '-' :: r => if r.isEmpty then none else (scanDigits b r 0).map (fun v => -Int.ofNat v)
  | r => if r.isEmpty then none else (scanDigits b r 0).map (fun v => Int.ofNat v)

/-- `stripliteral`: remove every underscore -/
def stripLit (s : List Char) : List Char := s.filter (· != '_')

def hex (s : List Char) : Option Int := setString 16 (stripLit s)
def binary (s : List Char) : Option Int := setString 2 (stripLit s)

/-- big-endian positional value -/
def valBE (b : Nat) : List Nat → Nat
  | [] => 0
  | d :: r => d * b ^ r.length + valBE b r

theorem scanDigits_spec (b : Nat) : ∀ (cs : List Char) (ds : List Nat) (acc : Nat),
    cs.map digitVal = ds.map some → (∀ d ∈ ds, d < b) →
    scanDigits b cs acc = some (acc * b ^ ds.length + valBE b ds) := by
  intro cs
  induction cs with
  | nil =>
    intro ds acc h _
    cases ds with
    | nil => simp [scanDigits, valBE]
    | cons d r => simp at h
  | cons c r ih =>
    intro ds acc h hb
    cases ds with
    | nil => simp at h
    | cons d ds' =>
      simp only [List.map_cons, List.cons.injEq] at h
      have hd : d < b := hb d (by simp)
      simp only [scanDigits, h.1, hd, if_true]
      rw [ih ds' _ h.2 (fun e he => hb e (by simp [he]))]
      simp only [valBE, List.length_cons, Nat.pow_succ]
      congr 1
      rw [Nat.add_mul, Nat.mul_assoc, Nat.mul_comm b, Nat.add_assoc]

/-- converse: a successful scan means every character was a digit below the base -/
theorem scanDigits_some (b : Nat) : ∀ (cs : List Char) (acc v : Nat), scanDigits b cs acc = some v →
    ∃ ds : List Nat, cs.map digitVal = ds.map some ∧ (∀ d ∈ ds, d < b) := by
  intro cs
  induction cs with
  | nil => intro _ _ _; exact ⟨[], rfl, by simp⟩
  | cons c r ih =>
    intro acc v h
    simp only [scanDigits] at h
    cases hc : digitVal c with
    | none => simp [hc] at h
    | some d =>
      simp only [hc] at h
      by_cases hd : d < b
      · simp only [hd, if_true] at h
        obtain ⟨ds, h1, h2⟩ := ih _ _ h
        refine ⟨d :: ds, by simp [hc, h1], ?_⟩
        intro e he
        rcases List.mem_cons.mp he with rfl | he
        · exact hd
        · exact h2 e he
      · simp [hd] at h

theorem digitVal_plus : digitVal '+' = none := by decide
theorem digitVal_minus : digitVal '-' = none := by decide
theorem digitVal_underscore : digitVal '_' = none := by decide

/-- unsigned well-formed digit string: value is the positional sum -/
theorem setString_digits (b : Nat) (s : List Char) (ds : List Nat) (hne : ds ≠ [])
    (h : s.map digitVal = ds.map some) (hb : ∀ d ∈ ds, d < b) :
    setString b s = some ((valBE b ds : Nat) : Int) := by
  have hsc := scanDigits_spec b s ds 0 h hb
  cases s with
  | nil => cases ds with
    | nil => exact absurd rfl hne
    | cons d r => simp at h
  | cons c r =>
    cases ds with
    | nil => simp at h
    | cons d ds' =>
      simp only [List.map_cons, List.cons.injEq] at h
      have hp : c ≠ '+' := by intro e; rw [e, digitVal_plus] at h; exact absurd h.1 (by simp)
      have hm : c ≠ '-' := by intro e; rw [e, digitVal_minus] at h; exact absurd h.1 (by simp)
      unfold setString
      split
      · rename_i e; exact absurd (List.cons.inj e).1 hp
      · rename_i e; exact absurd (List.cons.inj e).1 hm
      · rw [hsc]; simp

theorem setString_plus (b : Nat) (s : List Char) (ds : List Nat) (hne : ds ≠ [])
    (h : s.map digitVal = ds.map some) (hb : ∀ d ∈ ds, d < b) :
    setString b ('+' :: s) = some ((valBE b ds : Nat) : Int) := by
  have hsc := scanDigits_spec b s ds 0 h hb
  have hs : s.isEmpty = false := by
    cases s with
    | nil => cases ds with
      | nil => exact absurd rfl hne
      | cons d r => simp at h
    | cons c r => rfl
  simp only [setString, hs, hsc]
  simp

theorem setString_minus (b : Nat) (s : List Char) (ds : List Nat) (hne : ds ≠ [])
    (h : s.map digitVal = ds.map some) (hb : ∀ d ∈ ds, d < b) :
    setString b ('-' :: s) = some (-((valBE b ds : Nat) : Int)) := by
  have hsc := scanDigits_spec b s ds 0 h hb
  have hs : s.isEmpty = false := by
    cases s with
    | nil => cases ds with
      | nil => exact absurd rfl hne
      | cons d r => simp at h
    | cons c r => rfl
  simp only [setString, hs, hsc]
  simp

/-- whenever parsing succeeds the input was an optional sign followed by at least one digit, all below the base -/
theorem setString_some (b : Nat) (s : List Char) (v : Int) (h : setString b s = some v) :
    ∃ (body : List Char) (ds : List Nat), (s = body ∨ s = '+' :: body ∨ s = '-' :: body) ∧ ds ≠ [] ∧
      body.map digitVal = ds.map some ∧ (∀ d ∈ ds, d < b) := by
  have key : ∀ (r : List Char) (f : Nat → Int), (if r.isEmpty then none else (scanDigits b r 0).map f) = some v →
      ∃ ds : List Nat, ds ≠ [] ∧ r.map digitVal = ds.map some ∧ (∀ d ∈ ds, d < b) := by
    intro r f hr
    cases r with
    | nil => simp at hr
    | cons c r' =>
      simp only [List.isEmpty_cons] at hr
      cases hs : scanDigits b (c :: r') 0 with
      | none => simp [hs] at hr
      | some w =>
        obtain ⟨ds, h1, h2⟩ := scanDigits_some b _ _ _ hs
        refine ⟨ds, ?_, h1, h2⟩
        intro e; subst e; simp at h1
  unfold setString at h
  split at h
  · rename_i r
    obtain ⟨ds, a, b', c⟩ := key r _ h
    exact ⟨r, ds, Or.inr (Or.inl rfl), a, b', c⟩
  · rename_i r
    obtain ⟨ds, a, b', c⟩ := key r _ h
    exact ⟨r, ds, Or.inr (Or.inr rfl), a, b', c⟩
  · obtain ⟨ds, a, b', c⟩ := key s _ h
    exact ⟨s, ds, Or.inl rfl, a, b', c⟩

/-! ## bigints: Index / Contains / Sort / Unique -/

/-- `bigints.Index` (loop from position `i`) -/
def indexFrom (n : Int) : List Int → Nat → Int
  | [], _ => -1
  | x :: r, i => if n = x then (i : Int) else indexFrom n r (i + 1)

def index (n : Int) (xs : List Int) : Int := indexFrom n xs 0
def contains (n : Int) (xs : List Int) : Bool := decide (index n xs ≥ 0)

theorem indexFrom_spec (n : Int) : ∀ (xs : List Int) (i : Nat),
    (n ∉ xs → indexFrom n xs i = -1) ∧
    (n ∈ xs → ∃ k, k < xs.length ∧ indexFrom n xs i = ((i + k : Nat) : Int) ∧ xs[k]? = some n ∧
      ∀ j, j < k → xs[j]? ≠ some n) := by
  intro xs
  induction xs with
  | nil => intro i; simp [indexFrom]
  | cons x r ih =>
    intro i
    by_cases h : n = x
    · subst h
      simp only [indexFrom, if_true, List.mem_cons, true_or, not_true, false_implies, true_implies, true_and]
      exact ⟨0, by simp, by simp, by simp, by intro j hj; omega⟩
    · simp only [indexFrom, h, if_false, List.mem_cons, false_or]
      obtain ⟨i1, i2⟩ := ih (i + 1)
      refine ⟨i1, fun hm => ?_⟩
      obtain ⟨k, hk, he, hg, hf⟩ := i2 hm
      refine ⟨k + 1, by simp; omega, ?_, by simpa using hg, ?_⟩
      · rw [he]; congr 1; omega
      · intro j hj
        cases j with
        | zero => simp; exact fun e => h e.symm
        | succ j => simpa using hf j (by omega)

theorem contains_iff (n : Int) (xs : List Int) : contains n xs = true ↔ n ∈ xs := by
  unfold contains index
  obtain ⟨h1, h2⟩ := indexFrom_spec n xs 0
  by_cases hm : n ∈ xs
  · obtain ⟨k, _, he, _⟩ := h2 hm
    simp only [hm, iff_true, decide_eq_true_eq, he]
    omega
  · simp [hm, h1 hm]

/-- `bigints.Sort` (result of sorting integers is unique, so any sort is a model) -/
def sort (xs : List Int) : List Int := xs.mergeSort (fun a b => decide (a ≤ b))

theorem sort_spec (xs : List Int) : (sort xs).Perm xs ∧ (sort xs).Pairwise (· ≤ ·) := by
  unfold sort
  refine ⟨List.mergeSort_perm xs _, ?_⟩
  have := List.pairwise_mergeSort (le := fun (a b : Int) => decide (a ≤ b))
    (by intro a b c h1 h2; simp at *; omega) (by intro a b; simp; omega) xs
  simpa using this

/-- no two neighbours equal -/
def NoAdj : List Int → Prop
  | [] => True
  | [_] => True
  | x :: y :: r => x ≠ y ∧ NoAdj (y :: r)

/-- expand each `u[i]` into `cs[i]` copies -/
def expand : List Nat → List Int → List Int
  | c :: cs, x :: u => List.replicate c x ++ expand cs u
  | _, _ => []

theorem uniq_noAdj : ∀ (l : List Int), NoAdj (uniq l) := by
  intro l
  induction l with
  | nil => simp [uniq, NoAdj]
  | cons x r ih =>
    cases r with
    | nil => simp [uniq, NoAdj]
    | cons y r' =>
      simp only [uniq]
      split
      · exact ih
      · rename_i hne
        have hh := uniq_head r' y
        cases hu : uniq (y :: r') with
        | nil => simp [hu] at hh
        | cons z t =>
          rw [hu] at hh ih
          simp only [List.head?_cons, Option.some.injEq] at hh
          subst hh
          exact ⟨hne, ih⟩

/-- the input is the output with every element repeated at least once -/
theorem uniq_expand : ∀ (l : List Int), ∃ cs : List Nat, cs.length = (uniq l).length ∧ (∀ c ∈ cs, 1 ≤ c) ∧
    l = expand cs (uniq l) := by
  intro l
  induction l with
  | nil => exact ⟨[], by simp [uniq], by simp, by simp [expand]⟩
  | cons x r ih =>
    cases r with
    | nil => exact ⟨[1], by simp [uniq], by simp, by simp [uniq, expand]⟩
    | cons y r' =>
      obtain ⟨cs, h1, h2, h3⟩ := ih
      simp only [uniq]
      split
      · rename_i hxy
        subst hxy
        have hh := uniq_head r' x
        cases hu : uniq (x :: r') with
        | nil => simp [hu] at hh
        | cons z t =>
          rw [hu] at hh h1 h3
          simp only [List.head?_cons, Option.some.injEq] at hh
          subst hh
          cases cs with
          | nil => simp at h1
          | cons c cs' =>
            refine ⟨(c + 1) :: cs', by simpa using h1, ?_, ?_⟩
            · intro d hd
              rcases List.mem_cons.mp hd with rfl | hd
              · omega
              · exact h2 d (by simp [hd])
            · rw [h3]
              simp [expand, List.replicate_succ]
      · refine ⟨1 :: cs, by simp [h1], ?_, ?_⟩
        · intro d hd
          rcases List.mem_cons.mp hd with rfl | hd
          · omega
          · exact h2 d hd
        · simp only [expand, List.replicate_one, List.singleton_append, List.cons.injEq, true_and]
          exact h3

/-! ## bigvector: Add / Lsh on lists -/

/-- `bigvector.Add`; `none` = panic "length mismatch" -/
def vadd (u v : List Int) : Option (List Int) :=
  if u.length = v.length then some (List.zipWith (· + ·) u v) else none

/-- `bigvector.Lsh` -/
def vlsh (v : List Int) (s : Nat) : List Int := v.map (· * (2 : Int) ^ s)

end P.HX
