import AC.Literal
/-! # Char-level executable model of the whole `acc.peg` grammar (C03 / C07)

One function per grammar rule, with pigeon's semantics:

* ordered choice `por` (the input is backtracked, the sticky action-error flag is **not**);
* `* + ?` are greedy and never re-entered;
* keyword operators have no word boundary (`dblx` in base-expression position is `2*x`,
  `x addy` is `x + y`, `returnx` is an identifier);
* an action error (only `strconv.ParseUint(text, 0, 64)` here: `08`, `09…`, values `≥ 2^64`) is
  *recorded and parsing continues*; the final result is an error even if that branch is abandoned;
* `UintLiteral` is the ordered choice Hex / Octal / Decimal (`P.Peg.uintLitFull`);
* `ast.Operand(idx.(uint))` is a `uint → int` conversion: it wraps (`wrapInt`), so
  `[18446744073709551615]` is `Operand(-1)` (finding F8);
* the recursion through parentheses uses fuel = input length + 1 (every level consumes a `(`);
* `parse.Reader` runs the generated parser with `Memoize(true)`: a rule result is cached per
  (rule, offset) together with the end position; an action error of the first evaluation is
  already in the error list, so accept/reject and the tree are the same as without the cache
  (the model, like the un-memoized parser, re-evaluates; it is exponential in the parenthesis
  depth, which only matters for running time).

Input that is not valid UTF-8, and any non-ASCII character, is rejected by the real parser
(no character class of the grammar contains a non-ASCII rune and `Chain` must reach EOF; an
invalid byte additionally records `invalid encoding`).  The model needs no special case: the
driver maps every byte `≥ 0x80` to a `Char` that no class accepts.

API used by other properties: `P.PegF.Expr`, `P.PegF.Stmt`, `P.PegF.Tree`, `P.PegF.parse`,
`P.PegF.showTree`, `P.PegF.pTree`. -/
namespace P.PegF
open P.Peg (P por ws lit ident pfail ppure uintLitFull isWs isIdStart isIdChar shiftOp doubleOp addOp)

inductive Expr where
  | operand (i : Int)
  | ident (s : List Char)
  | add (x y : Expr)
  | shift (x : Expr) (s : Nat)
  | double (x : Expr)
deriving Repr, DecidableEq, Inhabited

structure Stmt where
  name : List Char      -- [] for the return statement
  e : Expr
deriving Repr, DecidableEq, Inhabited

abbrev Tree := List Stmt

/-- Go's `int(u)` for a 64-bit `uint` -/
def wrapInt (u : Nat) : Int := if u < 2 ^ 63 then (u : Int) else (u : Int) - 2 ^ 64

/-! ### expressions -/

def one : P Expr := do lit ['1']; pure (Expr.operand 0)
def index : P Expr := do
  lit ['[']; ws; let i ← uintLitFull; ws; lit [']']; pure (Expr.operand (wrapInt i))
def identE : P Expr := do let n ← ident; pure (Expr.ident n)

/-- `Operand <- One / Index / Identifier` -/
def operand : P Expr := por one (por index identE)

/-- `ParenExpr <- '(' _ e:Expr _ ')'` -/
def parenP (rec : P Expr) : P Expr := do lit ['(']; ws; let x ← rec; ws; lit [')']; pure x

/-- `BaseExpr <- ParenExpr / Operand` -/
def base (rec : P Expr) : P Expr := por (parenP rec) operand

/-! `AddOperator <- '+' / "add"`, `ShiftOperator <- "<<" / "shl"`,
    `DoubleOperator <- '2' _ '*' / "dbl"`: `P.Peg.addOp`, `P.Peg.shiftOp`, `P.Peg.doubleOp`. -/

def shiftAlt1 (rec : P Expr) : P Expr := do
  ws; let x ← base rec; ws; shiftOp; ws; let s ← uintLitFull; ws; pure (Expr.shift x s)
def shiftAlt2 (rec : P Expr) : P Expr := do
  ws; doubleOp; ws; let x ← base rec; pure (Expr.double x)

/-- `ShiftExpr <- _ BaseExpr _ ShiftOperator _ UintLiteral _ / _ DoubleOperator _ BaseExpr / BaseExpr` -/
def shiftE (rec : P Expr) : P Expr := por (shiftAlt1 rec) (por (shiftAlt2 rec) (base rec))

def addStep (rec : P Expr) : P Expr := do ws; addOp; ws; shiftE rec

/-- `(_ AddOperator _ ShiftExpr)*` folding to the left; fuel = remaining input length -/
def addRest (rec : P Expr) : Nat → Expr → P Expr
  | 0, acc => ppure acc
  | n+1, acc => fun s e =>
    match addStep rec s e with
    | (some (y, s'), e') => addRest rec n (Expr.add acc y) s' e'
    | (none, e') => (some (acc, s), e')

/-- `AddExpr <- _ x:ShiftExpr rest:(_ AddOperator _ ShiftExpr)* _` -/
def addE (rec : P Expr) : P Expr := fun s e =>
  (do ws; let x ← shiftE rec; let r ← addRest rec s.length x; ws; pure r : P Expr) s e

/-- `Expr <- AddExpr`, with fuel for the recursion through parentheses -/
def expr : Nat → P Expr
  | 0 => pfail
  | n+1 => addE (expr n)

/-! ### statements -/

def eol : P Unit := lit ['\n']
/-- `EOF <- !.` -/
def eof : P Unit := fun s e => if s = [] then (some ((), []), e) else (none, e)
/-- `__ <- Whitespace+` -/
def ws1 : P Unit := fun s e => match s with
  | c :: r => if isWs c then (some ((), r.dropWhile isWs), e) else (none, e)
  | [] => (none, e)
/-- `p?` for a unit parser: never fails -/
def optU (p : P Unit) : P Unit := fun s e => match p s e with
  | (some r, e') => (some r, e')
  | (none, e') => (some ((), s), e')

/-- `Assignment <- _ n:Identifier _ '=' _ e:Expr _ EOL` -/
def assignment (fuel : Nat) : P Stmt := do
  ws; let n ← ident; ws; lit ['=']; ws; let x ← expr fuel; ws; eol; pure ⟨n, x⟩
def retKw : P Unit := do lit "return".toList; ws1
/-- `Return <- _ ("return" __)? e:Expr _ EOL?` -/
def ret (fuel : Nat) : P Stmt := do
  ws; optU retKw; let x ← expr fuel; ws; optU eol; pure ⟨[], x⟩

/-- `Assignment*` -/
def starA (fuel : Nat) : Nat → List Stmt → P (List Stmt)
  | 0, acc => ppure acc
  | k+1, acc => fun s e => match assignment fuel s e with
    | (some (st, s'), e') => starA fuel k (acc ++ [st]) s' e'
    | (none, e') => (some (acc, s), e')

/-- `Chain <- as:Assignment* r:Return _ EOF` -/
def chainP (fuel : Nat) : P Tree := fun s e =>
  (do let as ← starA fuel s.length []; let r ← ret fuel; ws; eof; pure (as ++ [r]) : P Tree) s e

/-- `parse.String`: error if there is no parse or an action error was recorded anywhere -/
def parse (s : List Char) : Except Unit Tree :=
  match chainP (s.length + 1) s false with
  | (some (t, _), false) => .ok t
  | _ => .error ()

/-! ### canonical tree dump
statements joined by `;`, each `name=expr` (empty name for the return statement), expressions
in prefix form `A(x,y)`, `S(x,n)`, `D(x)`, `O(i)`, `I(name)`; no spaces. The empty tree is `-`. -/

def showExpr : Expr → String
  | .operand i => s!"O({i})"
  | .ident s => "I(" ++ String.ofList s ++ ")"
  | .add x y => "A(" ++ showExpr x ++ "," ++ showExpr y ++ ")"
  | .shift x s => "S(" ++ showExpr x ++ "," ++ toString s ++ ")"
  | .double x => "D(" ++ showExpr x ++ ")"

def showStmt (st : Stmt) : String := String.ofList st.name ++ "=" ++ showExpr st.e

def showTree : Tree → String
  | [] => "-"
  | t => ";".intercalate (t.map showStmt)

def showRes : Except Unit Tree → String
  | .ok t => showTree t
  | .error _ => "err"

/-! dump reader (for trees built directly by the harness) -/

def pNatChars (ds : List Char) : Option Nat :=
  if ds.isEmpty || !ds.all Char.isDigit then none
  else some (ds.foldl (fun a c => 10 * a + (c.toNat - '0'.toNat)) 0)

def pIntChars : List Char → Option Int
  | '-' :: ds => (pNatChars ds).map fun n => - (n : Int)
  | ds => (pNatChars ds).map fun n => (n : Int)

/-- reads one expression from the front of the input; fuel = input length -/
def pExprD : Nat → List Char → Option (Expr × List Char)
  | 0, _ => none
  | n+1, s =>
    match s with
    | 'O' :: '(' :: r =>
      let ds := r.takeWhile (· ≠ ')')
      match pIntChars ds, r.dropWhile (· ≠ ')') with
      | some i, ')' :: r' => some (.operand i, r')
      | _, _ => none
    | 'I' :: '(' :: r =>
      match r.dropWhile (· ≠ ')') with
      | ')' :: r' => some (.ident (r.takeWhile (· ≠ ')')), r')
      | _ => none
    | 'D' :: '(' :: r =>
      match pExprD n r with
      | some (x, ')' :: r') => some (.double x, r')
      | _ => none
    | 'S' :: '(' :: r =>
      match pExprD n r with
      | some (x, ',' :: r') =>
        let ds := r'.takeWhile (· ≠ ')')
        match pNatChars ds, r'.dropWhile (· ≠ ')') with
        | some k, ')' :: r'' => some (.shift x k, r'')
        | _, _ => none
      | _ => none
    | 'A' :: '(' :: r =>
      match pExprD n r with
      | some (x, ',' :: r') =>
        match pExprD n r' with
        | some (y, ')' :: r'') => some (.add x y, r'')
        | _ => none
      | _ => none
    | _ => none

def pStmtD (s : List Char) : Option Stmt :=
  let name := s.takeWhile (· ≠ '=')
  match s.dropWhile (· ≠ '=') with
  | '=' :: r =>
    match pExprD (r.length + 1) r with
    | some (x, []) => some ⟨name, x⟩
    | _ => none
  | _ => none

def pTree (s : String) : Option Tree :=
  if s = "-" then some [] else (s.splitOn ";").mapM fun p => pStmtD p.toList

def run (s : String) : String := showRes (parse s.toList)

end P.PegF
