import AC.RT
/-! C07 prototype, statement level: whole scripts print and parse back. -/
namespace P.Peg

structure Stmt where
  name : List Char      -- [] for the return statement
  e : Expr
deriving DecidableEq

def eol : P Unit := lit ['\n']
def eof : P Unit := fun s e => if s = [] then (some ((), []), e) else (none, e)
/-- `__` : one or more blanks -/
def ws1 : P Unit := fun s e => match s with
  | c :: r => if isWs c then (some ((), r.dropWhile isWs), e) else (none, e)
  | [] => (none, e)
/-- `p?` for a unit parser: PEG optional never fails -/
def optU (p : P Unit) : P Unit := fun s e => match p s e with
  | (some r, e') => (some r, e')
  | (none, e') => (some ((), s), e')

def assignment (fuel : Nat) : P Stmt := do
  ws; let n ← ident; ws; lit ['=']; ws; let x ← expr fuel; ws; eol; pure ⟨n, x⟩
def retKw : P Unit := do lit "return".toList; ws1
def ret (fuel : Nat) : P Stmt := do
  ws; optU retKw; let x ← expr fuel; ws; optU eol; pure ⟨[], x⟩

def starA (fuel : Nat) : Nat → List Stmt → P (List Stmt)
  | 0, acc => ppure acc
  | k+1, acc => fun s e => match assignment fuel s e with
    | (some (st, s'), e') => starA fuel k (acc ++ [st]) s' e'
    | (none, e') => (some (acc, s), e')

def chainP (fuel : Nat) : P (List Stmt) := fun s e =>
  (do let as ← starA fuel s.length []; let r ← ret fuel; ws; eof; pure (as ++ [r]) : P (List Stmt)) s e

/-! ### printer: `name <pad> = expr \n` and `return <pad> expr \n`, any padding ≥ 1 -/
def spaces (k : Nat) : List Char := List.replicate k ' '
def printAssign (pad : Nat) (st : Stmt) : List Char :=
  st.name ++ spaces (pad + 1) ++ '=' :: ' ' :: body st.e ++ ['\n']
def printRet (pad : Nat) (x : Expr) : List Char :=
  "return".toList ++ spaces (pad + 1) ++ body x ++ ['\n']

theorem dropWhile_spaces (k : Nat) (r : List Char) (h : NoWsHead r) : (spaces k ++ r).dropWhile isWs = r := by
  induction k with
  | zero =>
    simp [spaces]
    cases r with
    | nil => rfl
    | cons c t => simp [List.dropWhile, h c t rfl]
  | succ k ih =>
    simp only [spaces, List.replicate_succ, List.cons_append, List.dropWhile]
    have : isWs ' ' = true := by decide
    simp only [this]
    exact ih

theorem ws_spaces (k : Nat) (r : List Char) (e : Bool) (h : NoWsHead r) : ws (spaces k ++ r) e = (some ((), r), e) := by
  rw [ws_def, dropWhile_spaces k r h]

theorem stopNL (rest : List Char) : EndTok ('\n' :: rest) ∧ NoShiftOp ('\n' :: rest) ∧ NoAddOp ('\n' :: rest) := by
  refine ⟨endTok_cons (by decide), ?_, ?_⟩
  · constructor <;> simp [dropWs, List.dropWhile, isWs, List.isPrefixOf]
  · constructor <;> simp [dropWs, List.dropWhile, isWs, List.isPrefixOf]

theorem dropWs_nl (rest : List Char) : dropWs ('\n' :: rest) = '\n' :: rest := by
  simp [dropWs, List.dropWhile, isWs]

/-- an assignment line parses back -/
theorem assignment_ok (fuel pad : Nat) (st : Stmt) (rest : List Char) (e : Bool)
    (hn : ValidIdent st.name) (hx : WF st.e) (hf : pdepth st.e < fuel) :
    assignment fuel (printAssign pad st ++ rest) e = (some (st, rest), e) := by
  obtain ⟨c, cs, hname, hc, hcs⟩ := hn
  unfold assignment printAssign
  simp only [bind_def]
  have hnw : NoWsHead (st.name ++ spaces (pad + 1) ++ '=' :: ' ' :: body st.e ++ ['\n'] ++ rest) := by
    rw [hname]; intro c' t h; simp at h
    cases hw : isWs c' with
    | false => rfl
    | true =>
      rw [← h.1] at hw
      simp [isWs] at hw
      rcases hw with (rfl | rfl) | rfl <;> simp [isIdStart] at hc
  rw [ws_id _ _ hnw]
  simp only []
  have hshape : st.name ++ spaces (pad + 1) ++ '=' :: ' ' :: body st.e ++ ['\n'] ++ rest
      = st.name ++ (spaces (pad + 1) ++ ('=' :: ' ' :: (body st.e ++ '\n' :: rest))) := by simp
  rw [hshape, ident_ok st.name _ e ⟨c, cs, hname, hc, hcs⟩ (by
    intro c' t h; simp [spaces, List.replicate_succ] at h; rw [← h.1]; decide)]
  simp only []
  rw [ws_spaces _ _ _ (by intro c' t h; cases h; decide)]
  simp only []
  rw [lit_cons_ok]
  simp only []
  have hws : ws (' ' :: (body st.e ++ '\n' :: rest)) e = (some ((), body st.e ++ '\n' :: rest), e) := by
    have := ws_spaces 1 (body st.e ++ '\n' :: rest) e (body_noWs hx _)
    simpa [spaces] using this
  rw [hws]
  simp only []
  obtain ⟨s1, s2, s3⟩ := stopNL rest
  rw [expr_rt fuel st.e hx hf ('\n' :: rest) e s1 s2 s3, dropWs_nl]
  simp only []
  rw [ws_id _ _ (by intro c' t h; cases h; decide)]
  simp only []
  unfold eol
  rw [lit_cons_ok]
  rfl


theorem validIdent_return : ValidIdent "return".toList :=
  ⟨'r', "eturn".toList, rfl, by decide, by decide⟩

/-- the assignment rule fails on a return line (so the `*` loop stops there) -/
theorem assignment_fail_ret (fuel pad : Nat) (x : Expr) (rest : List Char) (e : Bool) (hx : WF x) :
    assignment fuel (printRet pad x ++ rest) e = (none, e) := by
  unfold assignment printRet
  simp only [bind_def]
  have hshape : "return".toList ++ spaces (pad + 1) ++ body x ++ ['\n'] ++ rest
      = "return".toList ++ (spaces (pad + 1) ++ (body x ++ '\n' :: rest)) := by simp
  rw [hshape]
  rw [ws_id _ _ (by intro c' t h; cases h; decide)]
  simp only []
  rw [ident_ok _ _ e validIdent_return (by
    intro c' t h; simp [spaces, List.replicate_succ] at h; rw [← h.1]; decide)]
  simp only []
  rw [ws_spaces _ _ _ (body_noWs hx _)]
  simp only []
  obtain ⟨c, tl, hb, hg⟩ := body_head hx
  rw [hb]
  have hne : '=' ≠ c := by
    rcases hg with rfl | rfl | rfl | rfl | h
    · decide
    · decide
    · decide
    · decide
    · rintro rfl; simp [isIdStart] at h
  simp only [List.cons_append]
  rw [lit_fail_head _ _ _ _ _ hne]

theorem ret_ok (fuel pad : Nat) (x : Expr) (e : Bool) (hx : WF x) (hf : pdepth x < fuel) :
    ret fuel (printRet pad x) e = (some (⟨[], x⟩, []), e) := by
  unfold ret printRet
  simp only [bind_def]
  have hshape : "return".toList ++ spaces (pad + 1) ++ body x ++ ['\n']
      = "return".toList ++ (' ' :: (spaces pad ++ (body x ++ ['\n']))) := by
    simp [spaces, List.replicate_succ]
  rw [hshape]
  rw [ws_id _ _ (by intro c' t h; cases h; decide)]
  simp only []
  have hkw : optU retKw ("return".toList ++ (' ' :: (spaces pad ++ (body x ++ ['\n'])))) e
      = (some ((), body x ++ ['\n']), e) := by
    unfold optU retKw
    simp only [bind_def]
    rw [lit_ok]
    simp only [ws1]
    have : isWs ' ' = true := by decide
    simp only [this, if_true]
    rw [dropWhile_spaces pad _ (body_noWs hx _)]
  rw [hkw]
  simp only []
  obtain ⟨s1, s2, s3⟩ := stopNL []
  rw [expr_rt fuel x hx hf ['\n'] e s1 s2 s3, dropWs_nl]
  simp only []
  rw [ws_id _ _ (by intro c' t h; cases h; decide)]
  simp only []
  have : optU eol ['\n'] e = (some ((), []), e) := by
    unfold optU eol; rw [lit_cons_ok]
  rw [this]
  rfl

def printAll (pad : Nat) : List Stmt → Expr → List Char
  | [], x => printRet pad x
  | st :: r, x => printAssign pad st ++ printAll pad r x

/-- the `Assignment*` loop reads exactly the assignment lines -/
theorem starA_ok (fuel pad : Nat) : ∀ (as : List Stmt) (k : Nat) (acc : List Stmt) (x : Expr) (e : Bool),
    as.length < k → (∀ st ∈ as, ValidIdent st.name ∧ WF st.e ∧ pdepth st.e < fuel) → WF x →
    starA fuel k acc (printAll pad as x) e = (some (acc ++ as, printRet pad x), e) := by
  intro as
  induction as with
  | nil =>
    intro k acc x e hk _ hx
    obtain ⟨k', rfl⟩ : ∃ k', k = k' + 1 := ⟨k - 1, by simp at hk; omega⟩
    simp only [starA, printAll]
    have := assignment_fail_ret fuel pad x [] e hx
    simp only [List.append_nil] at this
    rw [this]
    simp
  | cons st r ih =>
    intro k acc x e hk hall hx
    obtain ⟨k', rfl⟩ : ∃ k', k = k' + 1 := ⟨k - 1, by simp at hk; omega⟩
    obtain ⟨h1, h2, h3⟩ := hall st (by simp)
    simp only [starA, printAll]
    rw [assignment_ok fuel pad st _ e h1 h2 h3]
    simp only []
    rw [ih k' (acc ++ [st]) x e (by simp at hk; omega) (fun s hs => hall s (List.mem_cons_of_mem _ hs)) hx]
    simp

/-- **C07, script level**: a whole script — assignments with valid names, then the return
    statement — printed with any padding parses back to itself. -/
theorem chain_roundtrip (fuel pad : Nat) (as : List Stmt) (x : Expr)
    (hall : ∀ st ∈ as, ValidIdent st.name ∧ WF st.e ∧ pdepth st.e < fuel) (hx : WF x) (hf : pdepth x < fuel) :
    chainP fuel (printAll pad as x) false = (some (as ++ [⟨[], x⟩], []), false) := by
  unfold chainP
  simp only [bind_def]
  have hlen : as.length < (printAll pad as x).length := by
    clear hall
    induction as with
    | nil =>
      show 0 < ("return".toList ++ spaces (pad + 1) ++ body x ++ ['\n']).length
      rw [List.length_append]; exact Nat.succ_pos _
    | cons st r ih =>
      have h1 : 0 < (printAssign pad st).length := by
        show 0 < (st.name ++ spaces (pad + 1) ++ '=' :: ' ' :: body st.e ++ ['\n']).length
        rw [List.length_append]; exact Nat.succ_pos _
      show (st :: r).length < (printAssign pad st ++ printAll pad r x).length
      rw [List.length_append, List.length_cons]
      omega
  rw [starA_ok fuel pad as _ [] x false hlen hall hx]
  simp only [List.nil_append]
  rw [ret_ok fuel pad x false hx hf]
  simp only []
  rw [ws_def]
  simp only [List.dropWhile]
  simp [eof]

end P.Peg
