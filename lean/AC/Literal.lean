import AC.RT
/-! C03/C07 prototype: the full `UintLiteral` rule (hex / octal / decimal alternatives) agrees with
    the decimal-only rule on printed numbers. -/
namespace P.Peg

def isHexDigit (c : Char) : Bool := c.isDigit || ('a' ≤ c && c ≤ 'f') || ('A' ≤ c && c ≤ 'F')
def isOctDigit (c : Char) : Bool := '0' ≤ c && c ≤ '7'
def hexVal (c : Char) : Nat :=
  if c.isDigit then c.toNat - '0'.toNat else if 'a' ≤ c then c.toNat - 'a'.toNat + 10 else c.toNat - 'A'.toNat + 10
def baseVal (b : Nat) (ds : List Char) : Nat := ds.foldl (fun a c => b * a + hexVal c) 0

/-- `HexUintLiteral <- "0x" [0-9a-fA-F]+` with the `ParseUint(text, 0, 64)` action -/
def hexLit : P Nat := fun s e =>
  match s with
  | '0' :: 'x' :: r =>
    let ds := r.takeWhile isHexDigit
    if ds.isEmpty then (none, e)
    else
      let v := baseVal 16 ds
      (some (if v ≥ 2 ^ 64 then 0 else v, r.dropWhile isHexDigit), e || decide (v ≥ 2 ^ 64))
  | _ => (none, e)

/-- `OctalUintLiteral <- '0' [0-7]+` -/
def octLit : P Nat := fun s e =>
  match s with
  | '0' :: r =>
    let ds := r.takeWhile isOctDigit
    if ds.isEmpty then (none, e)
    else
      let v := baseVal 8 ds
      (some (if v ≥ 2 ^ 64 then 0 else v, r.dropWhile isOctDigit), e || decide (v ≥ 2 ^ 64))
  | _ => (none, e)

def uintLitFull : P Nat := por hexLit (por octLit uintLit)

theorem natStr_head_digit (n : Nat) : ∃ c t, natStr n = c :: t ∧ c.isDigit = true ∧ (c = '0' → n = 0 ∧ t = []) := by
  rw [natStr_eq]
  have hne : Nat.toDigits 10 n ≠ [] := Nat.toDigits_ne_nil
  cases hd : Nat.toDigits 10 n with
  | nil => exact absurd hd hne
  | cons c t =>
    refine ⟨c, t, rfl, Nat.isDigit_of_mem_toDigits (b := 10) (n := n) (by omega) (by omega) (by rw [hd]; simp), ?_⟩
    intro hc
    by_cases h0 : n = 0
    · subst h0; rw [Nat.toDigits_zero] at hd; cases hd; exact ⟨rfl, rfl⟩
    · exfalso
      have := toDigits_head_ne_zero' n n (Nat.le_refl _) (by omega)
      rw [hd] at this
      simp at this
      exact this hc

/-- **the full literal rule reads printed numbers exactly like the decimal rule** -/
theorem uintLitFull_ok (n : Nat) (r : List Char) (e : Bool) (hn : n < 2 ^ 64) (hr : EndTok r) :
    uintLitFull (natStr n ++ r) e = (some (n, r), e) := by
  obtain ⟨c, t, hs, hc, hz⟩ := natStr_head_digit n
  have hdec := uintLit_ok n r e hn hr
  unfold uintLitFull
  have hhex : hexLit (natStr n ++ r) e = (none, e) := by
    rw [hs]
    by_cases h0 : c = '0'
    · obtain ⟨_, ht⟩ := hz h0
      subst h0; subst ht
      cases r with
      | nil => rfl
      | cons a r' =>
        have ha := hr a r' rfl
        have : a ≠ 'x' := by intro e'; subst e'; simp [isIdChar] at ha
        simp only [List.cons_append, List.nil_append, hexLit]
        split
        · rename_i heq; cases heq; exact absurd rfl this
        · rfl
    · simp only [List.cons_append, hexLit]
      split
      · rename_i heq; injection heq with h1 _; exact absurd h1 h0
      · rfl
  have hoct : octLit (natStr n ++ r) e = (none, e) := by
    rw [hs]
    by_cases h0 : c = '0'
    · obtain ⟨_, ht⟩ := hz h0
      subst h0; subst ht
      simp only [List.cons_append, List.nil_append, octLit]
      cases r with
      | nil => simp
      | cons a r' =>
        have ha := hr a r' rfl
        have : isOctDigit a = false := by
          cases ho : isOctDigit a with
          | false => rfl
          | true =>
            exfalso
            simp only [isOctDigit, Bool.and_eq_true, decide_eq_true_eq] at ho
            have : a.isDigit = true := by
              simp only [Char.isDigit, Bool.and_eq_true, decide_eq_true_eq]
              have h7 : (55 : Nat) ≤ 57 := by omega
              constructor
              · exact ho.1
              · exact Nat.le_trans ho.2 (by decide)
            rw [isDigit_isIdChar a this] at ha; cases ha
        simp [List.takeWhile, this]
    · simp only [List.cons_append, octLit]
      split
      · rename_i heq; injection heq with h1 _; exact absurd h1 h0
      · rfl
  rw [por_right hhex, por_right hoct]
  exact hdec

end P.Peg
