import AC.Decomp
import AC.HybridDisj
/-! Glue for C09: sorting by exponent a family of pairwise separated terms yields a list in which
    every term lies strictly below the exponent of every later term. -/
namespace P.Bits

/-- `a` lies entirely below `b`'s exponent -/
def Below (a b : Term) : Prop := a.d * 2 ^ a.e < 2 ^ b.e
/-- bit ranges do not overlap (order-free form) -/
def Sep (a b : Term) : Prop := Below a b ∨ Below b a

theorem Sep.symm {a b : Term} (h : Sep a b) : Sep b a := Or.symm h

theorem insertByE_perm (t : Term) : ∀ l, (insertByE t l).Perm (t :: l)
  | [] => List.Perm.refl _
  | u :: r => by
    unfold insertByE
    split
    · exact List.Perm.refl _
    · exact ((insertByE_perm t r).cons u).trans (List.Perm.swap t u r)

theorem sortByE_perm : ∀ l, (sortByE l).Perm l
  | [] => List.Perm.refl _
  | t :: r => by
    show (insertByE t (sortByE r)).Perm (t :: r)
    exact (insertByE_perm t _).trans ((sortByE_perm r).cons t)

theorem insertByE_sorted (t : Term) : ∀ l, l.Pairwise (fun a b => a.e ≤ b.e) →
    (insertByE t l).Pairwise (fun a b => a.e ≤ b.e)
  | [], _ => by simp [insertByE]
  | u :: r, h => by
    unfold insertByE
    rw [List.pairwise_cons] at h
    split
    · rename_i hlt
      refine List.pairwise_cons.2 ⟨?_, List.pairwise_cons.2 h⟩
      intro b hb
      rcases List.mem_cons.1 hb with rfl | hb
      · omega
      · have := h.1 b hb; omega
    · rename_i hge
      refine List.pairwise_cons.2 ⟨?_, insertByE_sorted t r h.2⟩
      intro b hb
      rcases List.mem_cons.1 ((insertByE_perm t r).subset hb) with rfl | hb
      · omega
      · exact h.1 b hb

theorem sortByE_sorted : ∀ l, (sortByE l).Pairwise (fun a b => a.e ≤ b.e)
  | [] => List.Pairwise.nil
  | t :: r => insertByE_sorted t _ (sortByE_sorted r)

theorem below_of_le {a b : Term} (hb : 0 < b.d) (hle : a.e ≤ b.e) (h : Sep a b) : Below a b := by
  rcases h with h | h
  · exact h
  · exfalso
    unfold Below at h
    have h1 : 2 ^ b.e ≤ b.d * 2 ^ b.e := Nat.le_mul_of_pos_left _ hb
    have h2 : 2 ^ a.e ≤ 2 ^ b.e := Nat.pow_le_pow_right (by omega) hle
    omega

/-- sorted result: every term lies strictly below the exponent of every later term -/
theorem sortByE_below (l : List Term) (hpos : ∀ t ∈ l, 0 < t.d) (hsep : l.Pairwise Sep) :
    (sortByE l).Pairwise Below := by
  have hp := sortByE_perm l
  have h1 : (sortByE l).Pairwise Sep := hp.symm.pairwise hsep (fun h => h.symm)
  have h2 := sortByE_sorted l
  have h3 := h1.and h2
  have hpos' : ∀ t ∈ sortByE l, 0 < t.d := fun t ht => hpos t (hp.subset ht)
  clear h1 h2 hp hsep hpos
  generalize sortByE l = s at h3 hpos'
  induction h3 with
  | nil => exact List.Pairwise.nil
  | cons hx _ ih =>
    rename_i a l' _
    refine List.Pairwise.cons ?_ (ih (fun t ht => hpos' t (List.mem_cons_of_mem _ ht)))
    intro b hb
    exact below_of_le (hpos' b (List.mem_cons_of_mem _ hb)) (hx b hb).2 (hx b hb).1

/-- `Below` with positive `d` forces strictly increasing exponents -/
theorem below_exp_lt {a b : Term} (ha : 0 < a.d) (h : Below a b) : a.e < b.e := by
  unfold Below at h
  have h1 : 2 ^ a.e ≤ a.d * 2 ^ a.e := Nat.le_mul_of_pos_left _ ha
  have : 2 ^ a.e < 2 ^ b.e := by omega
  exact (Nat.pow_lt_pow_iff_right (by omega)).1 this

theorem value_perm {l1 l2 : List Term} (h : l1.Perm l2) : value l1 = value l2 := by
  unfold value
  exact (h.map _).sum_nat

end P.Bits
