import AC.Decomp
import AC.SeqAlg
import AC.OptX
import AC.RunsX
import AC.Binary
import AC.Prim
import AC.DictSum
/-! Executable model of the chain algorithms: `binary.RightToLeft`, `alg.AsChainAlgorithm`,
    `dict.Algorithm` (decompose → dictionary → sequence algorithm → `primitive` → `dictsumchain`
    → sort + unique), `dict.RunsAlgorithm`, `opt.Algorithm`, and `exec.Execute`.

    `sort.Slice` in `primitive` is unstable and the rebuilt sum may contain equal exponents, so the
    order after that sort is an *oracle* argument (`SortOracle`): the driver supplies the order the
    real run produced and checks it is admissible (a permutation, sorted by exponent). -/
namespace P.DA
open P P.Bits

abbrev TermP := Nat × Nat     -- (D, E)

def valueP (s : List TermP) : Nat := (s.map fun t => t.1 * 2 ^ t.2).sum

/-- `idx[t.D.String()]`: last occurrence; Go's zero default for a missing key -/
def idxOf (c : List Nat) (d : Nat) : Nat :=
  ((List.range c.length).filter fun i => c.getD i 0 == d).getLast?.getD 0

def incrL : List Nat → Nat → List Nat
  | [], _ => []
  | c :: r, 0 => (c + 1) :: r
  | c :: r, i+1 => c :: incrL r i

/-- `Program.ReadCounts` plus one read per sum term -/
def readsL (p : List Op) (termIdx : List Nat) : List Nat :=
  let r0 := p.foldl (fun rs o => if o.1 == o.2 then incrL rs o.1 else incrL (incrL rs o.1) o.2)
    (List.replicate (p.length + 1) 0)
  termIdx.foldl incrL r0

/-- bitset of primitive positions: positions read at least twice, and their dependencies -/
def primMask (reads deps : List Nat) : Nat :=
  (List.range reads.length).foldl
    (fun m i => if reads.getD i 0 ≥ 2 then m ||| 2 ^ i ||| deps.getD i 0 else m) 0

def basisL (n i : Nat) : List Nat := (List.range n).map fun j => if j == i then 1 else 0
def addL (a b : List Nat) : List Nat := List.zipWith (· + ·) a b
def lshL (a : List Nat) (e : Nat) : List Nat := a.map (· * 2 ^ e)

/-- the combination vectors `vc` -/
def vcList (n : Nat) (mask : Nat) (p : List Op) : List (List Nat) :=
  p.foldl (fun vs o =>
    vs ++ [if mask.testBit vs.length then basisL n vs.length
           else addL (vs.getD o.1 []) (vs.getD o.2 [])]) [basisL n 0]

/-- `primitive` up to (not including) the final `SortByExponent`: the rebuilt sum in generation
    order (ascending chain index, then ascending exponent) and the pruned chain.
    `none` = the Go code returns an error (invalid chain, or reconstruction mismatch). -/
def primitivePre (sum : List TermP) (c : List Nat) : Option (List TermP × List Nat) :=
  match program (c.map Int.ofNat) with
  | .error _ => none
  | .ok p =>
    let n := c.length
    let tidx := sum.map fun t => idxOf c t.1
    let reads := readsL p tidx
    let deps := P.Prim.depsL p
    let mask := primMask reads deps
    let vc := vcList n mask p
    let v := (sum.zip tidx).foldl (fun acc ti => addL acc (lshL (vc.getD ti.2 []) ti.1.2)) (List.replicate n 0)
    let out := (List.range n).flatMap fun i => (P.Prim.bitsSet (v.getD i 0)).map fun e => (c.getD i 0, e)
    if valueP out == valueP sum then
      some (out, (List.range n).filterMap fun i => if mask.testBit i then some (c.getD i 0) else none)
    else none

/-- is `o` an admissible result of sorting `pre` by exponent? -/
def admissible (pre o : List TermP) : Bool :=
  o.isPerm pre && (o.zip o.tail).all fun p => p.1.2 ≤ p.2.2

/-- `dictsumchain` on a sum sorted by ascending exponent (non-empty) -/
def dictSumChain (sum : List TermP) : List Nat := P.DictSum.dictsumchain sum.reverse

inductive Decomp | fixed (k : Nat) | sliding (k : Nat) | runLength (t : Nat) | hybrid (k t : Nat)
deriving Repr

def Decomp.run : Decomp → Nat → List Term
  | .fixed k, x => decompose .fixed x k 0
  | .sliding k, x => decompose .sliding x k 0
  | .runLength t, x => decompose .runLength x 0 t
  | .hybrid k t, x => decompose .hybrid x k t

inductive ChainAlg
  | binaryRTL
  | asChain (s : SeqAlg)
  | dict (d : Decomp) (s : SeqAlg)
  | runs (s : SeqAlg)
  | opt (a : ChainAlg)
deriving Repr

inductive Err | seq | primitive | oracle | runs | optimize | chain | target deriving Repr, DecidableEq

def toNats (c : List Int) : List Nat := c.map Int.toNat

/-- common tail of the dictionary and runs algorithms -/
def finish (sum : List TermP) (c : List Nat) (oracle : List TermP) : Except Err (List Int) :=
  if sum.length == 1 then
    .ok (sortUniq ((c ++ dictSumChain sum).map Int.ofNat))
  else match primitivePre sum c with
    | none => .error .primitive
    | some (pre, pruned) =>
      if admissible pre oracle then .ok (sortUniq ((pruned ++ dictSumChain oracle).map Int.ofNat))
      else .error .oracle

/-- `FindChain`; `oracle` = order of the rebuilt sum after `sort.Slice` (ignored where unused) -/
def ChainAlg.find : ChainAlg → Nat → List TermP → Except Err (List Int)
  | .binaryRTL, n, _ => .ok (if n = 0 then [] else rtl n)
  | .asChain s, n, _ => match s.find [(n : Int)] with | some c => .ok c | none => .error .seq
  | .dict d s, n, o =>
    let sum := (d.run n).map fun t => (t.d, t.e)
    match s.find (dictionary (d.run n)) with
    | none => .error .seq
    | some c => finish sum (toNats c) o
  | .runs s, n, o =>
    let ts := decompose .runLength n 0 0
    let sum := ts.map fun t => (t.d, t.e)
    let lengths := (dictionary ts).map fun r => (bitLen r.toNat : Int)
    match s.find lengths with
    | none => .error .seq
    | some lc => match runsChainX lc with
      | .error _ => .error .runs
      | .ok c => finish sum (toNats c) o
  | .opt a, n, o => match a.find n o with
    | .error e => .error e
    | .ok c => .ok (P.OptX.optimize c)

/-- `exec.Execute`: find, derive the program (validates), check the end -/
def execute (a : ChainAlg) (n : Nat) (o : List TermP) : Except Err (List Int × List Op) :=
  match a.find n o with
  | .error e => .error e
  | .ok c => match program c with
    | .error _ => .error .chain
    | .ok p => if c.getLast? == some (n : Int) then .ok (c, p) else .error .target

/-- well-formed configurations: window sizes at least 1, heuristics containing a total one -/
def SeqAlg.wf : SeqAlg → Bool
  | .heuristic h => h.isTotal
  | .contfrac _ => true

def Decomp.wf : Decomp → Bool
  | .fixed k => k ≥ 1 | .sliding k => k ≥ 1 | .runLength _ => true | .hybrid k _ => k ≥ 1

def ChainAlg.wf : ChainAlg → Bool
  | .binaryRTL => true
  | .asChain s => SeqAlg.wf s
  | .dict d s => d.wf && SeqAlg.wf s
  | .runs s => SeqAlg.wf s
  | .opt a => a.wf

end P.DA
