import AC.ChainX
import AC.CFProof
import AC.Deps
/-! Model of the program builders and analyses of program.go (`Add`, `Double`, `Shift`,
    `boundscheck`, `Count`, `Evaluate`, `ReadCounts`, `Dependencies`) and of `Product`/`Plus` of
    chain.go, with the places where the Go code would panic (index out of range) as explicit
    `none` outcomes. Operands of the builders are `Int` (Go `int`: negative values can be passed). -/
namespace P.PX
open P P.Prim

/-- the two errors of `Program.boundscheck` -/
inductive Err
  | negative (i : Int)      -- "negative index %d"
  | outOfBounds (i : Int)   -- "index %d out of bounds"
deriving Repr, DecidableEq

/-- `Program.boundscheck`: the chain is one longer than the program, so `i = len` is allowed -/
def boundscheck (p : List Op) (i : Int) : Option Err :=
  if i < 0 then some (.negative i)
  else if i > (p.length : Int) then some (.outOfBounds i)
  else none

/-- `Program.Add`: checks `i`, then `j`, then appends and returns the new length -/
def padd (p : List Op) (i j : Int) : Except Err (List Op × Nat) :=
  match boundscheck p i with
  | some e => .error e
  | none =>
    match boundscheck p j with
    | some e => .error e
    | none => .ok (p ++ [(i.toNat, j.toNat)], p.length + 1)

/-- `Program.Double` -/
def pdouble (p : List Op) (i : Int) : Except Err (List Op × Nat) := padd p i i

/-- `Program.Shift`: `s` doublings one at a time; state passing form, because the Go loop could
    in principle fail after some doublings were already appended (the returned program is the
    receiver's content afterwards). With `s = 0` it returns `i` without any check. -/
def pshift (p : List Op) (i : Int) : Nat → List Op × Except Err Int
  | 0 => (p, .ok i)
  | s + 1 =>
    match pdouble p i with
    | .error e => (p, .error e)
    | .ok (p', n) => pshift p' (n : Int) s

/-- one builder call -/
inductive Call
  | add (i j : Int)
  | double (i : Int)
  | shift (i : Int) (s : Nat)
deriving Repr, DecidableEq

/-- program after the call and what the call returned -/
def step (p : List Op) : Call → List Op × Except Err Int
  | .add i j => match padd p i j with
    | .ok (p', n) => (p', .ok (n : Int))
    | .error e => (p, .error e)
  | .double i => match pdouble p i with
    | .ok (p', n) => (p', .ok (n : Int))
    | .error e => (p, .error e)
  | .shift i s => pshift p i s

/-- run a call sequence: final program, per-call results, program after each call -/
def runCalls (p : List Op) : List Call → List Op × List (Except Err Int × List Op)
  | [] => (p, [])
  | c :: cs =>
    let (p', r) := step p c
    let (q, rs) := runCalls p' cs
    (q, (r, p') :: rs)

/-- final program only -/
def build (p : List Op) (cs : List Call) : List Op := (runCalls p cs).1

/-- `Program.Count`: (doubles, adds) -/
def count (p : List Op) : Nat × Nat :=
  p.foldl (fun (acc : Nat × Nat) o => if o.1 == o.2 then (acc.1 + 1, acc.2) else (acc.1, acc.2 + 1)) (0, 0)

/-- `Program.Evaluate`; `none` = index out of range panic -/
def evaluateX (p : List Op) : Option Chain :=
  p.foldlM (fun (c : Chain) o =>
    if o.1 < c.length ∧ o.2 < c.length then some (c ++ [at' c o.1 + at' c o.2]) else none) [1]

/-- `reads[i]++`; `none` = index out of range panic -/
def incr (l : List Nat) (i : Nat) : Option (List Nat) :=
  if i < l.length then some (l.set i (l.getD i 0 + 1)) else none

/-- `Op.Operands`: one entry for a doubling -/
def operands (o : Op) : List Nat := if o.1 == o.2 then [o.1] else [o.1, o.2]

/-- `Program.ReadCounts`; `none` = index out of range panic -/
def readCounts (p : List Op) : Option (List Nat) :=
  p.foldlM (fun r o => (operands o).foldlM incr r) (List.replicate (p.length + 1) 0)

/-- `Program.Dependencies`, bitsets as naturals; `none` = index out of range panic -/
def dependencies (p : List Op) : Option (List Nat) :=
  p.foldlM (fun (ds : List Nat) o =>
    if o.1 < ds.length ∧ o.2 < ds.length then some (depsStep ds o) else none) [1]

/-- `Product`; `none` = panic (`End` of an empty chain, `b[1:]` of an empty chain) -/
def productX (a b : Chain) : Option Chain :=
  if a.isEmpty || b.isEmpty then none else some (product a b)

/-- `Plus`; `none` = panic (`End` of an empty chain) -/
def plusX (a : Chain) (x : Int) : Option Chain :=
  if a.isEmpty then none else some (plus a x)

/-- every operation reads positions that exist when it is executed: op number `k` (0-based,
    producing position `k+1`) has both operands `≤ k` -/
def InRange (p : List Op) : Prop := ∀ k (h : k < p.length), p[k].1 ≤ k ∧ p[k].2 ≤ k

/-- "`j` is an operand of position `k`" closed reflexively and transitively -/
inductive Reach (p : List Op) (j : Nat) : Nat → Prop
  | refl : Reach p j j
  | step (m k : Nat) : 1 ≤ k → k ≤ p.length → (m = (opAt p k).1 ∨ m = (opAt p k).2) →
      Reach p j m → Reach p j k

/-- operation `o` uses position `i` (`Op.Uses`) -/
def uses (i : Nat) (o : Op) : Bool := o.1 == i || o.2 == i

/-- ops appended by `Shift(i, s)` on a program of length `n` -/
def shiftOps (n i : Nat) : Nat → List Op
  | 0 => []
  | s + 1 => (i, i) :: shiftOps (n + 1) (n + 1) s

@[elab_as_elim]
theorem snocInd {α} {motive : List α → Prop} (nil : motive [])
    (append_singleton : ∀ l a, motive l → motive (l ++ [a])) (l : List α) : motive l := by
  have : ∀ n (l : List α), l.length = n → motive l := by
    intro n
    induction n with
    | zero => intro l h; have := List.eq_nil_of_length_eq_zero h; subst this; exact nil
    | succ n ih =>
      intro l h
      have hne : l ≠ [] := by intro e; simp [e] at h
      rw [← List.dropLast_concat_getLast hne]
      exact append_singleton _ _ (ih _ (by rw [List.length_dropLast]; omega))
  exact this _ l rfl

/-! ### boundscheck / add -/
theorem boundscheck_none_iff (p : List Op) (i : Int) :
    boundscheck p i = none ↔ 0 ≤ i ∧ i ≤ (p.length : Int) := by
  unfold boundscheck
  by_cases h1 : i < 0
  · simp [h1]; omega
  · by_cases h2 : i > (p.length : Int)
    · simp [h1, h2]
    · simp [h1, h2]; omega

theorem padd_ok (p : List Op) (i j : Int) (hi : 0 ≤ i ∧ i ≤ (p.length : Int))
    (hj : 0 ≤ j ∧ j ≤ (p.length : Int)) :
    padd p i j = .ok (p ++ [(i.toNat, j.toNat)], p.length + 1) := by
  unfold padd
  rw [(boundscheck_none_iff p i).2 hi, (boundscheck_none_iff p j).2 hj]

theorem padd_err (p : List Op) (i j : Int)
    (h : ¬ ((0 ≤ i ∧ i ≤ (p.length : Int)) ∧ (0 ≤ j ∧ j ≤ (p.length : Int)))) :
    ∃ e, padd p i j = .error e := by
  unfold padd
  cases hi : boundscheck p i with
  | some e => exact ⟨e, rfl⟩
  | none =>
    cases hj : boundscheck p j with
    | some e => exact ⟨e, rfl⟩
    | none => exact absurd ⟨(boundscheck_none_iff p i).1 hi, (boundscheck_none_iff p j).1 hj⟩ h

/-! ### shift -/
theorem shiftOps_length : ∀ (s n i : Nat), (shiftOps n i s).length = s := by
  intro s; induction s with
  | zero => intros; rfl
  | succ s ih => intro n i; simp [shiftOps, ih]

theorem pshift_ok : ∀ (s : Nat) (p : List Op) (i : Int), 1 ≤ s → 0 ≤ i → i ≤ (p.length : Int) →
    pshift p i s = (p ++ shiftOps p.length i.toNat s, .ok ((p.length + s : Nat) : Int)) := by
  intro s
  induction s with
  | zero => intro p i h; omega
  | succ s ih =>
    intro p i _ h0 h1
    unfold pshift pdouble
    rw [padd_ok p i i ⟨h0, h1⟩ ⟨h0, h1⟩]
    simp only []
    cases s with
    | zero => simp [pshift, shiftOps]
    | succ s =>
      rw [ih (p ++ [(i.toNat, i.toNat)]) ((p.length + 1 : Nat) : Int) (by omega) (by omega) (by simp)]
      simp only [List.length_append, List.length_singleton, Int.toNat_natCast, List.append_assoc]
      rw [show shiftOps p.length i.toNat (s + 1 + 1) =
        (i.toNat, i.toNat) :: shiftOps (p.length + 1) (p.length + 1) (s + 1) from rfl]
      simp only [List.singleton_append]
      congr 2
      omega

theorem pshift_err (s : Nat) (p : List Op) (i : Int) (h : ¬ (0 ≤ i ∧ i ≤ (p.length : Int))) :
    ∃ e, pshift p i (s + 1) = (p, .error e) := by
  unfold pshift pdouble
  obtain ⟨e, he⟩ := padd_err p i i (fun hh => h hh.1)
  rw [he]
  exact ⟨e, rfl⟩

/-! ### InRange -/
theorem inRange_nil : InRange [] := by intro k h; simp at h

theorem inRange_snoc (p : List Op) (o : Op) (h : InRange p) (h1 : o.1 ≤ p.length) (h2 : o.2 ≤ p.length) :
    InRange (p ++ [o]) := by
  intro k hk
  simp at hk
  by_cases hkl : k < p.length
  · rw [List.getElem_append_left hkl]; exact h k hkl
  · have : k = p.length := by omega
    subst this
    simp [h1, h2]

theorem inRange_shiftOps : ∀ (s : Nat) (p : List Op) (i : Nat), InRange p → i ≤ p.length →
    InRange (p ++ shiftOps p.length i s) := by
  intro s
  induction s with
  | zero => intro p i h _; simpa [shiftOps] using h
  | succ s ih =>
    intro p i h hi
    have h1 := inRange_snoc p (i, i) h hi hi
    have := ih (p ++ [(i, i)]) (p.length + 1) h1 (by simp)
    simpa [shiftOps] using this

theorem inRange_iff_inRangeP_aux : ∀ (r : List Op) (n : Nat),
    InRangeP r n ↔ ∀ k (h : k < r.length), r[k].1 ≤ n + k ∧ r[k].2 ≤ n + k := by
  intro r
  induction r with
  | nil => intro n; simp [InRangeP]
  | cons o r ih =>
    intro n
    simp only [InRangeP, ih]
    constructor
    · rintro ⟨h1, h2, h3⟩ k hk
      cases k with
      | zero => simpa using ⟨h1, h2⟩
      | succ k =>
        have := h3 k (by simpa using hk)
        simp only [List.getElem_cons_succ]
        omega
    · intro h
      refine ⟨?_, ?_, ?_⟩
      · have := (h 0 (by simp)).1; simpa using this
      · have := (h 0 (by simp)).2; simpa using this
      · intro k hk
        have := h (k + 1) (by simpa using hk)
        simp only [List.getElem_cons_succ] at this
        omega

theorem inRange_iff_inRangeP (p : List Op) : InRange p ↔ InRangeP p 0 := by
  rw [inRange_iff_inRangeP_aux]
  unfold InRange
  simp

theorem step_inRange (p : List Op) (c : Call) (h : InRange p) : InRange (step p c).1 := by
  cases c with
  | add i j =>
    simp only [step]
    by_cases hr : (0 ≤ i ∧ i ≤ (p.length : Int)) ∧ (0 ≤ j ∧ j ≤ (p.length : Int))
    · rw [padd_ok p i j hr.1 hr.2]
      exact inRange_snoc p _ h (by simp; omega) (by simp; omega)
    · obtain ⟨e, he⟩ := padd_err p i j hr
      rw [he]; exact h
  | double i =>
    simp only [step, pdouble]
    by_cases hr : (0 ≤ i ∧ i ≤ (p.length : Int))
    · rw [padd_ok p i i hr hr]
      exact inRange_snoc p _ h (by simp; omega) (by simp; omega)
    · obtain ⟨e, he⟩ := padd_err p i i (fun hh => hr hh.1)
      rw [he]; exact h
  | shift i s =>
    simp only [step]
    cases s with
    | zero => exact h
    | succ s =>
      by_cases hr : (0 ≤ i ∧ i ≤ (p.length : Int))
      · rw [pshift_ok (s + 1) p i (by omega) hr.1 hr.2]
        exact inRange_shiftOps (s + 1) p i.toNat h (by omega)
      · obtain ⟨e, he⟩ := pshift_err s p i hr
        rw [he]; exact h

theorem build_inRange : ∀ (cs : List Call) (p : List Op), InRange p → InRange (build p cs) := by
  intro cs
  induction cs with
  | nil => intro p h; exact h
  | cons c cs ih =>
    intro p h
    have := ih (step p c).1 (step_inRange p c h)
    simpa [build, runCalls] using this

/-! ### evaluate -/
theorem evaluate_length (p : List Op) : (evaluate p).length = p.length + 1 := by
  induction p using snocInd with
  | nil => rfl
  | append_singleton p o ih => rw [evaluate_append]; simp [ih]

theorem foldlM_append_singleton {α β} (f : β → α → Option β) (l : List α) (a : α) (b : β) :
    (l ++ [a]).foldlM f b = (l.foldlM f b).bind (fun x => f x a) := by
  rw [List.foldlM_append]
  cases l.foldlM f b <;> simp

theorem evaluateX_eq (p : List Op) (h : InRange p) : evaluateX p = some (evaluate p) := by
  induction p using snocInd with
  | nil => rfl
  | append_singleton p o ih =>
    have hp : InRange p := by
      intro k hk
      have := h k (by simp; omega)
      rwa [List.getElem_append_left hk] at this
    have ho := h p.length (by simp)
    simp at ho
    unfold evaluateX at ih ⊢
    rw [foldlM_append_singleton, ih hp]
    simp only [Option.bind_some]
    rw [evaluate_append, evaluate_length]
    simp [show o.1 < p.length + 1 by omega, show o.2 < p.length + 1 by omega]

/-! ### count -/
theorem count_append (p : List Op) (o : Op) :
    count (p ++ [o]) = if o.1 == o.2 then ((count p).1 + 1, (count p).2) else ((count p).1, (count p).2 + 1) := by
  simp [count, List.foldl_append]

theorem count_sum (p : List Op) : (count p).1 + (count p).2 = p.length := by
  induction p using snocInd with
  | nil => rfl
  | append_singleton p o ih =>
    rw [count_append]
    split <;> simp <;> omega

theorem count_eq (p : List Op) :
    count p = (p.countP (fun o => o.1 == o.2), p.countP (fun o => !(o.1 == o.2))) := by
  induction p using snocInd with
  | nil => rfl
  | append_singleton p o ih =>
    rw [count_append, ih]
    by_cases h : (o.1 == o.2) = true
    · simp [h, List.countP_append]
    · simp [h, List.countP_append]

/-! ### read counts -/
theorem getD_set_nat (l : List Nat) (i k v : Nat) (h : i < l.length) :
    (l.set i v).getD k 0 = if k = i then v else l.getD k 0 := by
  simp only [List.getD_eq_getElem?_getD, List.getElem?_set]
  by_cases hk : i = k
  · subst hk; simp [h]
  · have : ¬ k = i := fun e => hk e.symm
    simp [hk, this]

theorem incr_spec (l : List Nat) (i : Nat) (h : i < l.length) :
    ∃ r, incr l i = some r ∧ r.length = l.length ∧
      ∀ k, r.getD k 0 = l.getD k 0 + (if k = i then 1 else 0) := by
  refine ⟨l.set i (l.getD i 0 + 1), by simp [incr, h], by simp, fun k => ?_⟩
  rw [getD_set_nat l i k _ h]
  by_cases hk : k = i
  · subst hk; simp
  · simp [hk]

theorem operands_spec (r : List Nat) (o : Op) (h1 : o.1 < r.length) (h2 : o.2 < r.length) :
    ∃ r', (operands o).foldlM incr r = some r' ∧ r'.length = r.length ∧
      ∀ k, r'.getD k 0 = r.getD k 0 + (if uses k o then 1 else 0) := by
  unfold operands uses
  obtain ⟨a, b⟩ := o
  simp only at h1 h2 ⊢
  by_cases hd : a = b
  · subst hd
    obtain ⟨r1, e1, l1, g1⟩ := incr_spec r a h1
    refine ⟨r1, by simp [e1], l1, fun k => ?_⟩
    rw [g1 k]
    by_cases hk : k = a
    · simp [hk]
    · have : ¬ a = k := fun e => hk e.symm
      simp [hk, this]
  · obtain ⟨r1, e1, l1, g1⟩ := incr_spec r a h1
    obtain ⟨r2, e2, l2, g2⟩ := incr_spec r1 b (by omega)
    have hb : (a == b) = false := by simp [hd]
    refine ⟨r2, by simp [hb, e1, e2], by omega, fun k => ?_⟩
    rw [g2 k, g1 k]
    by_cases hk1 : k = a
    · subst hk1
      simp [hd]
    · by_cases hk2 : k = b
      · subst hk2
        simp [hk1]
      · have h3 : ¬ a = k := fun e => hk1 e.symm
        have h4 : ¬ b = k := fun e => hk2 e.symm
        simp [hk1, hk2, h3, h4]

theorem readCounts_aux : ∀ (q : List Op) (r0 : List Nat),
    (∀ o ∈ q, o.1 < r0.length ∧ o.2 < r0.length) →
    ∃ r, q.foldlM (fun r o => (operands o).foldlM incr r) r0 = some r ∧ r.length = r0.length ∧
      ∀ k, r.getD k 0 = r0.getD k 0 + q.countP (uses k) := by
  intro q
  induction q with
  | nil => intro r0 _; exact ⟨r0, rfl, rfl, fun k => by simp⟩
  | cons o q ih =>
    intro r0 h
    obtain ⟨h1, h2⟩ := h o List.mem_cons_self
    obtain ⟨r1, e1, l1, g1⟩ := operands_spec r0 o h1 h2
    obtain ⟨r2, e2, l2, g2⟩ := ih r1 (fun o' ho' => by
      have := h o' (List.mem_cons_of_mem _ ho'); omega)
    refine ⟨r2, by simp [List.foldlM_cons, e1, e2], by omega, fun k => ?_⟩
    rw [g2 k, g1 k, List.countP_cons]
    omega

theorem readCounts_ok (p : List Op) (h : ∀ o ∈ p, o.1 ≤ p.length ∧ o.2 ≤ p.length) :
    ∃ r, readCounts p = some r ∧ r.length = p.length + 1 ∧
      ∀ k, r.getD k 0 = p.countP (uses k) := by
  obtain ⟨r, e, l, g⟩ := readCounts_aux p (List.replicate (p.length + 1) 0) (fun o ho => by
    have := h o ho; simp; omega)
  refine ⟨r, e, by simpa using l, fun k => ?_⟩
  rw [g k]
  simp [List.getD_eq_getElem?_getD, List.getElem?_replicate]
  split <;> rfl

theorem inRange_mem_le (p : List Op) (h : InRange p) : ∀ o ∈ p, o.1 ≤ p.length ∧ o.2 ≤ p.length := by
  intro o ho
  obtain ⟨k, hk, rfl⟩ := List.getElem_of_mem ho
  have := h k hk
  omega

/-! ### dependencies -/
theorem depsL_append (p : List Op) (o : Op) : depsL (p ++ [o]) = depsStep (depsL p) o := by
  simp [depsL, List.foldl_append]

theorem depsL_length (p : List Op) : (depsL p).length = p.length + 1 := by
  induction p using snocInd with
  | nil => rfl
  | append_singleton p o ih => rw [depsL_append]; simp [depsStep, ih]

theorem inRange_init (p : List Op) (o : Op) (h : InRange (p ++ [o])) :
    InRange p ∧ o.1 ≤ p.length ∧ o.2 ≤ p.length := by
  refine ⟨?_, ?_⟩
  · intro k hk
    have := h k (by simp; omega)
    rwa [List.getElem_append_left hk] at this
  · have ho := h p.length (by simp)
    simpa using ho

theorem dependencies_eq (p : List Op) (h : InRange p) : dependencies p = some (depsL p) := by
  induction p using snocInd with
  | nil => rfl
  | append_singleton p o ih =>
    obtain ⟨hp, h1, h2⟩ := inRange_init p o h
    unfold dependencies at ih ⊢
    rw [foldlM_append_singleton, ih hp]
    simp only [Option.bind_some]
    rw [depsL_append, depsL_length]
    simp [show o.1 < p.length + 1 by omega, show o.2 < p.length + 1 by omega]

theorem reach_of_bit (p : List Op) (ds : List Nat) (h : DExact p ds) :
    ∀ n k, k ≤ n → k ≤ p.length → ∀ j, (ds.getD k 0).testBit j = true → Reach p j k := by
  intro n
  induction n with
  | zero =>
    intro k hk _ j hj
    have : k = 0 := by omega
    subst this
    have := (h.zero j).1 hj
    subst this
    exact Reach.refl
  | succ n ih =>
    intro k hk hkl j hj
    by_cases hk0 : k = 0
    · subst hk0
      have := (h.zero j).1 hj
      subst this
      exact Reach.refl
    · have hk1 : 1 ≤ k := by omega
      obtain ⟨b1, b2⟩ := h.inr k hk1 hkl
      rcases (h.unfold k hk1 hkl j).1 hj with e | e | e
      · subst e; exact Reach.refl
      · exact Reach.step _ k hk1 hkl (Or.inl rfl) (ih _ (by omega) (by omega) j e)
      · exact Reach.step _ k hk1 hkl (Or.inr rfl) (ih _ (by omega) (by omega) j e)

theorem bit_of_reach (p : List Op) (ds : List Nat) (h : DExact p ds) (j k : Nat) (hr : Reach p j k) :
    k ≤ p.length → (ds.getD k 0).testBit j = true := by
  induction hr with
  | refl =>
    intro hk
    by_cases hk0 : j = 0
    · subst hk0; exact (h.zero 0).2 rfl
    · exact (h.unfold j (by omega) hk j).2 (Or.inl rfl)
  | step m k hk1 hkl hm _ ih =>
    intro _
    obtain ⟨b1, b2⟩ := h.inr k hk1 hkl
    rcases hm with e | e
    · exact (h.unfold k hk1 hkl j).2 (Or.inr (Or.inl (e ▸ ih (by omega))))
    · exact (h.unfold k hk1 hkl j).2 (Or.inr (Or.inr (e ▸ ih (by omega))))

/-! ### product / plus on valid ascending chains -/
theorem goodC_of_isChain (c : Chain) (hc : IsChain c) (hasc : c.Pairwise (· < ·)) : GoodC c := by
  obtain ⟨hne, h0, _, _, hcl⟩ := hc
  cases c with
  | nil => exact absurd rfl hne
  | cons x r =>
    have hx : x = 1 := by simpa [at'] using h0
    subst hx
    have hgt := (List.pairwise_cons.mp hasc).1
    refine ⟨hasc, rfl, ?_, ?_⟩
    · intro y hy
      rcases List.mem_cons.mp hy with e | e
      · omega
      · have := hgt y e; omega
    · intro y hy
      obtain ⟨k, hk, hky⟩ := index_of_mem _ y hy
      by_cases hk0 : k = 0
      · left; subst hk0; rw [← hky]; simp [at']
      · right
        obtain ⟨i, j, hi, hj, hs⟩ := hcl k (by omega) hk
        refine ⟨at' (1 :: r) i, ?_, at' (1 :: r) j, ?_, by rw [hs, hky]⟩
        · simp only [at', List.getD_eq_getElem?_getD]
          rw [List.getElem?_eq_getElem (by omega)]; simp
        · simp only [at', List.getD_eq_getElem?_getD]
          rw [List.getElem?_eq_getElem (by omega)]; simp

end P.PX
