import AC.ChainTie
import AC.OptX
/-! # The translated `opt.Optimize` equals the index-based model `P.OptX.optimize` (C10 translator tie)

`optOptimize` of `AC/Gen/ProgramFns.lean` is regenerated from alg/opt/opt.go on every run. The proof follows
the Go function loop by loop: the operation table (`loop1`, through `ops_tie`), the initial counters
(`loop2`/`loop3`), the candidate loop with its pruning sweep (`loop4`/`loop5`/`loop6`), the final removal
(`loop7`). -/
namespace AC.OptTie
open AC.Gen.Program AC.GoPrim AC.BigPrim AC.ProgramTie P P.OptX

/-- translated `pruneuses` (the in-place filter of opt.go) = filtering out the operations that use `i` -/
theorem pruneuses_loop_tie (i : Int) : ∀ (ops ops0 acc : List GOp),
    optpruneuses_loop1 ops ops0 i acc = some (acc ++ ops.filter (fun o => !(o.I == i || o.J == i))) := by
  intro ops
  induction ops with
  | nil => intro ops0 acc; simp [optpruneuses_loop1]
  | cons o ops ih =>
    intro ops0 acc
    simp only [optpruneuses_loop1, opUses, bind, Option.bind, pure, List.filter_cons]
    by_cases h : (o.I == i || o.J == i) = true
    · simp only [h, Bool.not_true, Bool.false_eq_true, if_false]
      exact ih ops0 acc
    · have hf : (o.I == i || o.J == i) = false := by simpa using h
      simp only [hf, Bool.not_false, if_true]
      have := ih ops0 (acc ++ [o])
      simpa using this

theorem pruneuses_tie (ops : List GOp) (i : Int) :
    optpruneuses ops i = some (ops.filter (fun o => !(o.I == i || o.J == i))) := by
  unfold optpruneuses
  have hs : sliceTo ops 0 = some [] := by simp [sliceTo]
  simp only [hs, bind, Option.bind]
  simpa using pruneuses_loop_tie i ops ops []


/-- the table as the translated code holds it -/
def opsG (T : List (List Op)) : List (List GOp) := T.map toGs

@[simp] theorem opsG_length (T : List (List Op)) : (opsG T).length = T.length := by simp [opsG]

theorem incr_length : ∀ (cs : List Nat) (i : Nat), (incr cs i).length = cs.length := by
  intro cs
  induction cs with
  | nil => intro i; rfl
  | cons c r ih => intro i; cases i <;> simp [incr, ih]

theorem incr_eq_set : ∀ (cs : List Nat) (i : Nat), i < cs.length → incr cs i = cs.set i (cs.getD i 0 + 1) := by
  intro cs
  induction cs with
  | nil => intro i h; simp at h
  | cons c r ih =>
    intro i h
    cases i with
    | zero => simp [incr]
    | succ i => simp [incr, ih i (by simpa using h)]

theorem bump_step (cs : List Nat) (x : Nat) (hx : x < cs.length) :
    ((idx (ints cs) (x : Int)).bind fun v => setIdx (ints cs) (x : Int) (v + 1)) = some (ints (incr cs x)) := by
  have hn : ¬ ((x : Int) < 0) := by omega
  have h1 : idx (ints cs) (x : Int) = some (Int.ofNat (cs.getD x 0)) := by
    rw [idx_nat]; simp [ints, hx]
  rw [h1, incr_eq_set cs x hx]
  simp only [Option.bind, setIdx, hn, if_false, Int.toNat_natCast, ints_length, hx, if_true]
  rw [show Int.ofNat (cs.getD x 0) + 1 = Int.ofNat (cs.getD x 0 + 1) from rfl, ints_set]

theorem foldl_incr_length (xs : List Nat) : ∀ cs : List Nat, (xs.foldl incr cs).length = cs.length := by
  induction xs with
  | nil => intro cs; rfl
  | cons x xs ih => intro cs; simp [ih, incr_length]

theorem bump3_tie : ∀ (xs : List Nat) (cs : List Nat) (c : List Int) (ops : List (List GOp)) (k : Int),
    (∀ x ∈ xs, x < cs.length) →
    optOptimize_loop3 (ints xs) c ops (ints cs) k = some (ints (xs.foldl incr cs)) := by
  intro xs
  induction xs with
  | nil => intro cs c ops k _; simp [optOptimize_loop3, ints]
  | cons x xs ih =>
    intro cs c ops k hx
    show ((idx (ints cs) (x : Int)).bind fun v => (setIdx (ints cs) (x : Int) (v + 1)).bind fun r2 =>
      optOptimize_loop3 (ints xs) c ops r2 k) = _
    rw [← Option.bind_assoc, bump_step cs x (hx x (by simp))]
    simp only [Option.bind, List.foldl_cons]
    exact ih (incr cs x) c ops k (fun y hy => by rw [incr_length]; exact hx y (by simp [hy]))

theorem bump6_tie : ∀ (xs : List Nat) (cs : List Nat) (c : List Int) (ops : List (List GOp)) (rm : List Int) (k l : Int),
    (∀ x ∈ xs, x < cs.length) →
    optOptimize_loop6 (ints xs) c ops (ints cs) rm k l = some (ints (xs.foldl incr cs)) := by
  intro xs
  induction xs with
  | nil => intro cs c ops rm k l _; simp [optOptimize_loop6, ints]
  | cons x xs ih =>
    intro cs c ops rm k l hx
    show ((idx (ints cs) (x : Int)).bind fun v => (setIdx (ints cs) (x : Int) (v + 1)).bind fun r2 =>
      optOptimize_loop6 (ints xs) c ops r2 rm k l) = _
    rw [← Option.bind_assoc, bump_step cs x (hx x (by simp))]
    simp only [Option.bind, List.foldl_cons]
    exact ih (incr cs x) c ops rm k l (fun y hy => by rw [incr_length]; exact hx y (by simp [hy]))

/-! ### loop1: the operation table -/

def fillOps (c : Chain) (T : List (List Op)) (k n : Nat) : List (List Op) :=
  (List.range' k n).foldl (fun T j => T.set j (ops c j)) T

theorem fillOps_length (c : Chain) : ∀ (n k : Nat) (T : List (List Op)), (fillOps c T k n).length = T.length := by
  intro n
  induction n with
  | zero => intro k T; rfl
  | succ n ih => intro k T; simp only [fillOps, List.range'_succ, List.foldl_cons]; exact (ih (k + 1) _).trans (by simp)

theorem setIdx_opsG (T : List (List Op)) (k : Nat) (v : List Op) (hk : k < T.length) :
    setIdx (opsG T) (k : Int) (toGs v) = some (opsG (T.set k v)) := by
  have hn : ¬ ((k : Int) < 0) := by omega
  simp [setIdx, hn, hk, opsG, List.map_set]

theorem loop1_tie (c : Chain) : ∀ (n k : Nat) (T : List (List Op)), k + n = c.length → T.length = c.length →
    optOptimize_loop1 n (k : Int) c (opsG T) =
      optOptimize_loop1 0 ((k + n : Nat) : Int) c (opsG (fillOps c T k n)) := by
  intro n
  induction n with
  | zero => intro k T _ _; simp [fillOps]
  | succ n ih =>
    intro k T hk hT
    have hkl : k < c.length := by omega
    have := ih (k + 1) (T.set k (ops c k)) (by omega) (by simpa using hT)
    push_cast at this
    have hfill : fillOps c T k (n + 1) = fillOps c (T.set k (ops c k)) (k + 1) n := by
      simp [fillOps, List.range'_succ]
    have hcast : ((k + (n + 1) : Nat) : Int) = (k : Int) + 1 + (n : Int) := by push_cast; omega
    rw [hfill, hcast, ← this]
    simp only [optOptimize_loop1, AC.ChainTie.ops_tie c k hkl, bind, Option.bind,
      setIdx_opsG T k (ops c k) (by omega)]

/-! ### loop2: the initial counters -/

/-- every operand mentioned in the table is a position of the chain -/
def Scoped (N : Nat) (T : List (List Op)) : Prop := ∀ l, ∀ o ∈ T.getD l [], o.1 < N ∧ o.2 < N

theorem idx_opsG (T : List (List Op)) (k : Nat) (hk : k < T.length) :
    idx (opsG T) (k : Int) = some (toGs (T.getD k [])) := by
  rw [idx_nat]; simp [opsG, hk]

theorem operands_lt (N : Nat) (o : Op) (h : o.1 < N ∧ o.2 < N) : ∀ x ∈ OptX.operands o, x < N := by
  intro x hx
  unfold OptX.operands at hx
  split at hx <;> simp at hx <;> omega

theorem bumpSingle_length (cs : List Nat) (L : List Op) : (bumpSingle cs L).length = cs.length := by
  unfold bumpSingle
  split
  · exact foldl_incr_length _ _
  · rfl

def countsFrom (T : List (List Op)) (cs : List Nat) (k n : Nat) : List Nat :=
  (List.range' k n).foldl (fun cs j => bumpSingle cs (T.getD j [])) cs

theorem countsFrom_length (T : List (List Op)) : ∀ (n k : Nat) (cs : List Nat), (countsFrom T cs k n).length = cs.length := by
  intro n
  induction n with
  | zero => intro k cs; rfl
  | succ n ih =>
    intro k cs
    simp only [countsFrom, List.range'_succ, List.foldl_cons]
    exact (ih (k + 1) _).trans (bumpSingle_length _ _)

theorem loop2_tie (c : List Int) (T : List (List Op)) : ∀ (n k : Nat) (cs : List Nat),
    k + n ≤ T.length → Scoped cs.length T →
    optOptimize_loop2 n (k : Int) c (opsG T) (ints cs) =
      optOptimize_loop2 0 ((k + n : Nat) : Int) c (opsG T) (ints (countsFrom T cs k n)) := by
  intro n
  induction n with
  | zero => intro k cs _ _; simp [countsFrom]
  | succ n ih =>
    intro k cs hk hs
    have hkl : k < T.length := by omega
    have hcast : ((k + (n + 1) : Nat) : Int) = (k : Int) + 1 + (n : Int) := by push_cast; omega
    have hcf : countsFrom T cs k (n + 1) = countsFrom T (bumpSingle cs (T.getD k [])) (k + 1) n := by
      simp [countsFrom, List.range'_succ]
    have hnext := ih (k + 1) (bumpSingle cs (T.getD k [])) (by omega) (by rw [bumpSingle_length]; exact hs)
    push_cast at hnext
    rw [hcf, hcast, ← hnext]
    simp only [optOptimize_loop2, idx_opsG T k hkl, bind, Option.bind]
    have hsk := hs k
    cases hT : T.getD k [] with
    | nil => simp [len, bumpSingle]
    | cons o r =>
      cases r with
      | cons o2 r2 =>
        have : ¬ ((2 : Int) + r2.length = 1) := by omega
        simp [len, bumpSingle]; omega
      | nil =>
        rw [hT] at hsk
        have ho := hsk o (by simp)
        have hidx' : idx [toG o] 0 = some (toG o) := by simp [idx]
        have hb := bump3_tie (OptX.operands o) cs c (opsG T) (k : Int) (operands_lt _ o ho)
        have hop : opOperands (toG o) = some (ints (OptX.operands o)) := opOperands_tie o
        simp [len, hidx', hop, hb, bumpSingle]

/-! ### loop5 / loop6: the pruning sweep for one candidate `k` -/

theorem toGs_pruneUses (L : List Op) (k : Nat) :
    (toGs L).filter (fun o => !(o.I == (k : Int) || o.J == (k : Int))) = toGs (pruneUses L k) := by
  induction L with
  | nil => rfl
  | cons o L ih =>
    simp only [toGs_cons, pruneUses, List.filter_cons, toG, uses] at ih ⊢
    have e1 : (((o.1 : Nat) : Int) == (k : Int)) = (o.1 == k) := beq_cast o.1 k
    have e2 : (((o.2 : Nat) : Int) == (k : Int)) = (o.2 == k) := beq_cast o.2 k
    rw [e1, e2]
    by_cases h : (o.1 == k || o.2 == k) = true
    · simp only [h, Bool.not_true, Bool.false_eq_true, if_false]; exact ih
    · have hf : (o.1 == k || o.2 == k) = false := by simpa using h
      simp only [hf, Bool.not_false, if_true, toGs_cons, toG]
      rw [ih]

/-- one position of the sweep -/
def sweepStep (k : Nat) (st : List (List Op) × List Nat) (j : Nat) : List (List Op) × List Nat :=
  let T' := st.1.set j (pruneUses (st.1.getD j []) k)
  (T', bumpSingle st.2 (T'.getD j []))

def sweep (k : Nat) (T : List (List Op)) (cs : List Nat) (l n : Nat) : List (List Op) × List Nat :=
  (List.range' l n).foldl (sweepStep k) (T, cs)

theorem scoped_set (N : Nat) (T : List (List Op)) (j k : Nat) (hs : Scoped N T) :
    Scoped N (T.set j (pruneUses (T.getD j []) k)) := by
  intro l o ho
  by_cases hl : l = j
  · subst hl
    by_cases hj : l < T.length
    · simp only [List.getD_eq_getElem?_getD, List.getElem?_set_self hj, Option.getD_some] at ho
      have hmem : o ∈ T.getD l [] := by
        simp only [pruneUses, List.mem_filter] at ho
        simpa [List.getD_eq_getElem?_getD] using ho.1
      exact hs l o hmem
    · have hlen : T.length ≤ l := by omega
      have : (T.set l (pruneUses (T.getD l []) k)).getD l [] = [] := by
        rw [List.getD_eq_getElem?_getD, List.getElem?_eq_none (by simpa using hlen)]; rfl
      rw [this] at ho; simp at ho
  · have : (T.set j (pruneUses (T.getD j []) k)).getD l [] = T.getD l [] := by
      simp [List.getD_eq_getElem?_getD, List.getElem?_set_ne (Ne.symm hl)]
    rw [this] at ho
    exact hs l o ho

theorem loop5_tie (c : List Int) (rm : List Int) (k : Nat) : ∀ (n l : Nat) (T : List (List Op)) (cs : List Nat),
    l + n ≤ T.length → Scoped cs.length T →
    optOptimize_loop5 n (l : Int) c (opsG T) (ints cs) rm (k : Int) =
      some (opsG (sweep k T cs l n).1, ints (sweep k T cs l n).2) := by
  intro n
  induction n with
  | zero => intro l T cs _ _; simp [optOptimize_loop5, sweep]
  | succ n ih =>
    intro l T cs hl hs
    have hlt : l < T.length := by omega
    let T' := T.set l (pruneUses (T.getD l []) k)
    have hT'len : T'.length = T.length := by simp [T']
    have hs' : Scoped cs.length T' := scoped_set _ T l k hs
    have hget : T'.getD l [] = pruneUses (T.getD l []) k := by
      simp [T', List.getD_eq_getElem?_getD, List.getElem?_set_self hlt]
    have hsw : sweep k T cs l (n + 1) = sweep k T' (bumpSingle cs (T'.getD l [])) (l + 1) n := by
      simp only [sweep, List.range'_succ, List.foldl_cons, sweepStep, T']
    have hnext := ih (l + 1) T' (bumpSingle cs (T'.getD l [])) (by omega) (by rw [bumpSingle_length]; exact hs')
    push_cast at hnext
    rw [hsw, ← hnext]
    have hprune : optpruneuses (toGs (T.getD l [])) (k : Int) = some (toGs (pruneUses (T.getD l []) k)) := by
      rw [pruneuses_tie, toGs_pruneUses]
    have hset : setIdx (opsG T) (l : Int) (toGs (pruneUses (T.getD l []) k)) = some (opsG T') :=
      setIdx_opsG T l _ hlt
    simp only [optOptimize_loop5, idx_opsG T l hlt, hprune, hset, bind, Option.bind,
      idx_opsG T' l (by omega), hget]
    have hsk := hs' l
    rw [hget] at hsk
    cases hP : pruneUses (T.getD l []) k with
    | nil => simp [len, bumpSingle]
    | cons o r =>
      cases r with
      | cons o2 r2 =>
        have : ¬ ((2 : Int) + r2.length = 1) := by omega
        simp [len, bumpSingle]; omega
      | nil =>
        rw [hP] at hsk
        have ho := hsk o (by simp)
        have hidx' : idx [toG o] 0 = some (toG o) := by simp [idx]
        have hb := bump6_tie (OptX.operands o) cs c (opsG T') rm (k : Int) (l : Int) (operands_lt _ o ho)
        have hop : opOperands (toG o) = some (ints (OptX.operands o)) := opOperands_tie o
        simp [len, hidx', hop, hb, bumpSingle]

/-! ### loop4: the candidate loop -/

theorem sweepStep_length1 (k : Nat) (st : List (List Op) × List Nat) (j : Nat) :
    (sweepStep k st j).1.length = st.1.length := by simp [sweepStep]

theorem sweepStep_length2 (k : Nat) (st : List (List Op) × List Nat) (j : Nat) :
    (sweepStep k st j).2.length = st.2.length := by simp [sweepStep, bumpSingle_length]

theorem sweep_inv (N k : Nat) : ∀ (n l : Nat) (T : List (List Op)) (cs : List Nat), Scoped N T →
    (sweep k T cs l n).1.length = T.length ∧ (sweep k T cs l n).2.length = cs.length ∧
      Scoped N (sweep k T cs l n).1 := by
  intro n
  induction n with
  | zero => intro l T cs hs; exact ⟨rfl, rfl, hs⟩
  | succ n ih =>
    intro l T cs hs
    have hsw : sweep k T cs l (n + 1) =
        sweep k (T.set l (pruneUses (T.getD l []) k))
          (bumpSingle cs ((T.set l (pruneUses (T.getD l []) k)).getD l [])) (l + 1) n := by
      simp only [sweep, List.range'_succ, List.foldl_cons, sweepStep]
    rw [hsw]
    obtain ⟨h1, h2, h3⟩ := ih (l + 1) _ (bumpSingle cs ((T.set l (pruneUses (T.getD l []) k)).getD l []))
      (scoped_set N T l k hs)
    exact ⟨by rw [h1]; simp, by rw [h2, bumpSingle_length], h3⟩

abbrev SeqSt := List (List Op) × List Nat × List Nat

/-- one candidate position, sequentially as the Go code does it -/
def seqStep (N : Nat) (st : SeqSt) (k : Nat) : SeqSt :=
  if st.2.1.getD k 0 > 0 then st else
    let sw := sweep k st.1 st.2.1 (k + 1) (N - (k + 1))
    (sw.1, sw.2, st.2.2 ++ [k])

structure SeqInv (N : Nat) (st : SeqSt) : Prop where
  lenT : st.1.length = N
  lenC : st.2.1.length = N
  sc : Scoped N st.1

theorem seqStep_inv (N : Nat) (st : SeqSt) (k : Nat) (h : SeqInv N st) : SeqInv N (seqStep N st k) := by
  unfold seqStep
  split
  · exact h
  · obtain ⟨h1, h2, h3⟩ := sweep_inv N k (N - (k + 1)) (k + 1) st.1 st.2.1 h.sc
    exact ⟨by simp only []; rw [h1, h.lenT], by simp only []; rw [h2, h.lenC], h3⟩

theorem loop4_tie (c : List Int) : ∀ (n k : Nat) (st : SeqSt), SeqInv c.length st → k + n ≤ c.length →
    optOptimize_loop4 n (k : Int) c (opsG st.1) (ints st.2.1) (ints st.2.2) =
      (let st' := (List.range' k n).foldl (seqStep c.length) st
       optOptimize_loop4 0 ((k + n : Nat) : Int) c (opsG st'.1) (ints st'.2.1) (ints st'.2.2)) := by
  intro n
  induction n with
  | zero => intro k st _ _; simp
  | succ n ih =>
    intro k st hinv hk
    have hkl : k < c.length := by omega
    have hcast : ((k + (n + 1) : Nat) : Int) = (k : Int) + 1 + (n : Int) := by push_cast; omega
    have hnext := ih (k + 1) (seqStep c.length st k) (seqStep_inv _ st k hinv) (by omega)
    push_cast at hnext
    simp only [List.range'_succ, List.foldl_cons, hcast]
    rw [← hnext]
    have hidx : idx (ints st.2.1) (k : Int) = some (Int.ofNat (st.2.1.getD k 0)) := by
      rw [idx_nat]; simp [ints, hinv.lenC, hkl]
    simp only [optOptimize_loop4, hidx, bind, Option.bind]
    unfold seqStep
    by_cases hc : st.2.1.getD k 0 > 0
    · have hpos : decide (Int.ofNat (st.2.1.getD k 0) > 0) = true := by
        have : (0 : Int) < ((st.2.1.getD k 0 : Nat) : Int) := by exact_mod_cast hc
        simpa using this
      rw [if_pos hpos, if_pos hc]
    · have hz : st.2.1.getD k 0 = 0 := by omega
      have hcount : Int.toNat (len c - ((k : Int) + 1)) = c.length - (k + 1) := by simp [len]; omega
      have hsw := loop5_tie c (ints st.2.2) k (c.length - (k + 1)) (k + 1) st.1 st.2.1
        (by rw [hinv.lenT]; omega) (by rw [hinv.lenC]; exact hinv.sc)
      push_cast at hsw
      simp only [hc, hz, hcount, hsw, if_false]
      simp [ints]

/-! ### loop7: the removal -/

def keepFrom : List Int → Nat → List Nat → List Int
  | [], _, _ => []
  | x :: xs, i, rm => if rm.head? = some i then keepFrom xs (i + 1) rm.tail else x :: keepFrom xs (i + 1) rm

theorem loop7_tie (c : List Int) (ops : List (List GOp)) (counts : List Int) :
    ∀ (xs : List Int) (i : Nat) (rm : List Nat) (pruned : List Int),
    optOptimize_loop7 xs (i : Int) c ops counts (ints rm) pruned = some (pruned ++ keepFrom xs i rm, none) := by
  intro xs
  induction xs with
  | nil => intro i rm pruned; simp [optOptimize_loop7, keepFrom, goNil]
  | cons x xs ih =>
    intro i rm pruned
    cases rm with
    | nil =>
      have := ih (i + 1) [] (pruned ++ [x])
      push_cast at this
      have hi : ints ([] : List Nat) = [] := rfl
      rw [hi] at this
      simp [optOptimize_loop7, keepFrom, hi, len, this]
    | cons r rm =>
      have hlen : decide (len (ints (r :: rm)) > 0) = true := by simp [len, ints]
      have hidx : idx (ints (r :: rm)) 0 = some (r : Int) := by simp [idx, ints]
      have hsl : sliceFrom (ints (r :: rm)) 1 = some (ints rm) := by simp [sliceFrom, ints]
      simp only [optOptimize_loop7, hlen, if_true, hidx, bind, Option.bind, pure, keepFrom, List.head?_cons,
        List.tail_cons, Option.some.injEq, beq_cast]
      by_cases hri : r = i
      · subst hri
        have := ih (r + 1) rm pruned
        push_cast at this
        simp [hsl, this]
      · have hb : (r == i) = false := by simp [hri]
        have := ih (i + 1) (r :: rm) (pruned ++ [x])
        push_cast at this
        simp [hb, hri, this]

/-! ### the translated function as a sequential computation on the model's data -/

def seqT0 (c : Chain) : List (List Op) := fillOps c (List.replicate c.length []) 1 (c.length - 1)
def seqC0 (c : Chain) : List Nat := countsFrom (seqT0 c) (List.replicate c.length 0) 1 (c.length - 1)
def seqFin (c : Chain) : SeqSt :=
  (List.range' 1 (c.length - 1 - 1)).foldl (seqStep c.length) (seqT0 c, seqC0 c, [])
def seqOptimize (c : Chain) : Chain := keepFrom c 0 (seqFin c).2.2

theorem fillOps_getD (c : Chain) : ∀ (n k : Nat) (T : List (List Op)) (j : Nat), k + n ≤ T.length →
    (fillOps c T k n).getD j [] = if k ≤ j ∧ j < k + n then ops c j else T.getD j [] := by
  intro n
  induction n with
  | zero => intro k T j _; simp [fillOps]; omega
  | succ n ih =>
    intro k T j hk
    have hfill : fillOps c T k (n + 1) = fillOps c (T.set k (ops c k)) (k + 1) n := by
      simp [fillOps, List.range'_succ]
    rw [hfill, ih (k + 1) _ j (by simp; omega)]
    by_cases hj : j = k
    · subst hj
      have : ¬ (j + 1 ≤ j ∧ j < j + 1 + n) := by omega
      simp [this, List.getD_eq_getElem?_getD, List.getElem?_set_self (show j < T.length by omega)]
    · have hset : (T.set k (ops c k)).getD j [] = T.getD j [] := by
        simp [List.getD_eq_getElem?_getD, List.getElem?_set_ne (Ne.symm hj)]
      rw [hset]
      by_cases h1 : k + 1 ≤ j ∧ j < k + 1 + n
      · have : k ≤ j ∧ j < k + (n + 1) := by omega
        simp [h1, this]
      · have : ¬ (k ≤ j ∧ j < k + (n + 1)) := by omega
        simp [h1, this]

theorem seqT0_scoped (c : Chain) : Scoped c.length (seqT0 c) := by
  intro l o ho
  unfold seqT0 at ho
  by_cases hc : c.length = 0
  · simp [hc, fillOps] at ho
  rw [fillOps_getD c (c.length - 1) 1 _ l (by simp; omega)] at ho
  split at ho
  · rename_i h
    have hl : l < c.length := by omega
    have := (mem_ops c l o.1 o.2 hl).1 ho
    omega
  · simp [List.getD_eq_getElem?_getD] at ho
    by_cases hl : l < c.length
    · simp [List.getElem?_replicate, hl] at ho
    · simp [List.getElem?_replicate, hl] at ho

/-- first half: the translated `Optimize` computes `seqOptimize` (and never panics) -/
theorem optOptimize_seq (c : Chain) : optOptimize c = some (seqOptimize c, none) := by
  unfold optOptimize
  have hmk : makeOpLists (len c) = some (opsG (List.replicate c.length [])) := by
    have : ¬ (((c.length : Nat) : Int) < 0) := by omega
    simp [makeOpLists, len, this, opsG]
  simp only [hmk, bind, Option.bind]
  by_cases hc : c.length = 0
  · have : c = [] := List.eq_nil_of_length_eq_zero hc
    subst this
    simp [optOptimize_loop1, optOptimize_loop2, optOptimize_loop4, optOptimize_loop7, makeInts, len, opsG,
      seqOptimize, keepFrom, goNil]
  have hN1 : Int.toNat (len c - 1) = c.length - 1 := by simp [len]
  -- loop1
  have h1 := loop1_tie c (c.length - 1) 1 (List.replicate c.length []) (by omega) (by simp)
  rw [hN1]
  rw [show ((1 : Nat) : Int) = 1 from rfl] at h1
  rw [h1]
  -- base of loop1: counters, then loop2
  have hmi : makeInts (len c) = some (ints (List.replicate c.length 0)) := by
    have : ¬ (((c.length : Nat) : Int) < 0) := by omega
    simp [makeInts, len, this, ints]
  have hlenT : (seqT0 c).length = c.length := by simp [seqT0, fillOps_length]
  have h2 := loop2_tie c (seqT0 c) (c.length - 1) 1 (List.replicate c.length 0)
    (by rw [hlenT]; omega) (by simpa using seqT0_scoped c)
  rw [show ((1 : Nat) : Int) = 1 from rfl] at h2
  have hfold : fillOps c (List.replicate c.length []) 1 (c.length - 1) = seqT0 c := rfl
  simp only [optOptimize_loop1, hmi, bind, Option.bind, hN1, hfold]
  rw [h2]
  -- base of loop2: loop4
  have hN2 : Int.toNat (len c - 1 - 1) = c.length - 1 - 1 := by simp [len]
  have hcf : countsFrom (seqT0 c) (List.replicate c.length 0) 1 (c.length - 1) = seqC0 c := rfl
  have hinv : SeqInv c.length (seqT0 c, seqC0 c, []) :=
    ⟨hlenT, by simp [seqC0, countsFrom_length], seqT0_scoped c⟩
  have h4 := loop4_tie c (c.length - 1 - 1) 1 (seqT0 c, seqC0 c, []) hinv (by omega)
  rw [show ((1 : Nat) : Int) = 1 from rfl] at h4
  have hnil : ints ([] : List Nat) = [] := rfl
  simp only [hnil] at h4
  simp only [optOptimize_loop2, hN2, hcf, bind, Option.bind]
  rw [h4]
  -- base of loop4: loop7
  have h7 := loop7_tie c (opsG (seqFin c).1) (ints (seqFin c).2.1) c 0 (seqFin c).2.2 []
  rw [show ((0 : Nat) : Int) = 0 from rfl] at h7
  simp only [optOptimize_loop4, bind, Option.bind]
  have hfin : (List.range' 1 (c.length - 1 - 1)).foldl (seqStep c.length) (seqT0 c, seqC0 c, []) = seqFin c := rfl
  simp only [hfin, h7]
  simp [seqOptimize]

/-! ### second half: the sequential computation equals the model `P.OptX.optimize` -/

theorem range_filter_gt (N k : Nat) :
    (List.range N).filter (fun j => decide (k < j)) = List.range' (k + 1) (N - (k + 1)) := by
  by_cases hk : k + 1 ≤ N
  · have hsplit : List.range N = List.range' 0 (k + 1) ++ List.range' (k + 1) (N - (k + 1)) := by
      rw [List.range_eq_range']
      have := List.range'_append (s := 0) (m := k + 1) (n := N - (k + 1)) (step := 1)
      simp only [Nat.zero_add, Nat.one_mul] at this
      rw [this]; congr 1; omega
    rw [hsplit, List.filter_append]
    have h1 : (List.range' 0 (k + 1)).filter (fun j => decide (k < j)) = [] := by
      rw [List.filter_eq_nil_iff]
      intro j hj
      simp only [List.mem_range'_1] at hj
      have : ¬ k < j := by omega
      simp [this]
    have h2 : (List.range' (k + 1) (N - (k + 1))).filter (fun j => decide (k < j)) =
        List.range' (k + 1) (N - (k + 1)) := by
      rw [List.filter_eq_self]
      intro j hj
      simp only [List.mem_range'_1] at hj
      have : k < j := by omega
      simp [this]
    rw [h1, h2, List.nil_append]
  · have h0 : N - (k + 1) = 0 := by omega
    rw [h0, List.range'_zero, List.filter_eq_nil_iff]
    intro j hj
    simp only [List.mem_range] at hj
    have : ¬ k < j := by omega
    simp [this]

theorem foldl_congr_mem {α β} (f g : β → α → β) : ∀ (l : List α) (b : β), (∀ b a, a ∈ l → f b a = g b a) →
    l.foldl f b = l.foldl g b := by
  intro l
  induction l with
  | nil => intro b _; rfl
  | cons a l ih =>
    intro b h
    simp only [List.foldl_cons]
    rw [h b a (by simp)]
    exact ih _ (fun b' a' ha' => h b' a' (by simp [ha']))

theorem seqT0_eq (c : Chain) : seqT0 c = (initSt c).ops := by
  apply List.ext_getElem?
  intro j
  have hl1 : (seqT0 c).length = c.length := by simp [seqT0, fillOps_length]
  by_cases hj : j < c.length
  · have h1 : (seqT0 c)[j]? = some ((seqT0 c).getD j []) := by
      rw [List.getD_eq_getElem?_getD, List.getElem?_eq_getElem (by omega)]; rfl
    rw [h1]
    unfold seqT0
    rw [fillOps_getD c (c.length - 1) 1 _ j (by simp; omega)]
    simp only [initSt, List.getElem?_map, List.getElem?_range hj, Option.map_some]
    by_cases h0 : j = 0
    · subst h0; simp [List.getD_eq_getElem?_getD, List.getElem?_replicate, hj]
    · have : 1 ≤ j ∧ j < 1 + (c.length - 1) := by omega
      have hb : (j == 0) = false := by simp [h0]
      simp [this, hb]
  · rw [List.getElem?_eq_none (by omega), List.getElem?_eq_none (by simp [initSt]; omega)]

theorem seqC0_eq (c : Chain) : seqC0 c = (initSt c).counts := by
  have hf := range_filter_gt c.length 0
  simp only [Nat.zero_add] at hf
  show countsFrom (seqT0 c) (List.replicate c.length 0) 1 (c.length - 1) =
    ((List.range c.length).filter (fun j => decide (0 < j))).foldl
      (fun cs k => bumpSingle cs ((initSt c).ops.getD k [])) (List.replicate c.length 0)
  rw [hf, ← seqT0_eq]
  rfl

/-- the table after the sweep, position by position, and the counters as a fold over the original table -/
theorem sweep_spec (k : Nat) : ∀ (n l : Nat) (T : List (List Op)) (cs : List Nat), l + n ≤ T.length →
    (∀ j, (sweep k T cs l n).1.getD j [] =
        if l ≤ j ∧ j < l + n then pruneUses (T.getD j []) k else T.getD j []) ∧
    (sweep k T cs l n).2 = (List.range' l n).foldl (fun cs j => bumpSingle cs (pruneUses (T.getD j []) k)) cs := by
  intro n
  induction n with
  | zero => intro l T cs _; exact ⟨fun j => by simp [sweep]; omega, rfl⟩
  | succ n ih =>
    intro l T cs hl
    have hlt : l < T.length := by omega
    let T' := T.set l (pruneUses (T.getD l []) k)
    have hget : T'.getD l [] = pruneUses (T.getD l []) k := by
      simp [T', List.getD_eq_getElem?_getD, List.getElem?_set_self hlt]
    have hother : ∀ j, j ≠ l → T'.getD j [] = T.getD j [] := by
      intro j hj; simp [T', List.getD_eq_getElem?_getD, List.getElem?_set_ne (Ne.symm hj)]
    have hsw : sweep k T cs l (n + 1) = sweep k T' (bumpSingle cs (T'.getD l [])) (l + 1) n := by
      simp only [sweep, List.range'_succ, List.foldl_cons, sweepStep, T']
    obtain ⟨h1, h2⟩ := ih (l + 1) T' (bumpSingle cs (T'.getD l [])) (by simp [T']; omega)
    rw [hsw]
    refine ⟨fun j => ?_, ?_⟩
    · rw [h1 j]
      by_cases hj : j = l
      · subst hj
        have : ¬ (j + 1 ≤ j ∧ j < j + 1 + n) := by omega
        have h2' : j ≤ j ∧ j < j + (n + 1) := by omega
        simp only [this, h2', if_false, if_true, and_self]
        exact hget
      · rw [hother j hj]
        by_cases hc : l + 1 ≤ j ∧ j < l + 1 + n
        · have : l ≤ j ∧ j < l + (n + 1) := by omega
          simp [hc, this, hother j hj]
        · have : ¬ (l ≤ j ∧ j < l + (n + 1)) := by omega
          simp [hc, this]
    · rw [h2, hget]
      simp only [List.range'_succ, List.foldl_cons]
      apply foldl_congr_mem
      intro cs' j hj
      simp only [List.mem_range'_1] at hj
      rw [hother j (by omega)]

def toSt (st : SeqSt) : St := ⟨st.1, st.2.1, st.2.2⟩

theorem mapIdx_getD (T : List (List Op)) (f : Nat → List Op → List Op) (j : Nat) (hj : j < T.length) :
    (T.mapIdx f).getD j [] = f j (T.getD j []) := by
  simp [List.getD_eq_getElem?_getD, List.getElem?_mapIdx, List.getElem?_eq_getElem hj]

theorem seqStep_eq_step (N : Nat) (st : SeqSt) (k : Nat) (h : SeqInv N st) (hk : k < N) :
    toSt (seqStep N st k) = step N (toSt st) k := by
  unfold seqStep step toSt
  by_cases hc : st.2.1.getD k 0 > 0
  · rw [if_pos hc, if_pos hc]
  · rw [if_neg hc, if_neg hc]
    obtain ⟨hl1, hl2, _⟩ := sweep_inv N k (N - (k + 1)) (k + 1) st.1 st.2.1 h.sc
    obtain ⟨hs1, hs2⟩ := sweep_spec k (N - (k + 1)) (k + 1) st.1 st.2.1 (by rw [h.lenT]; omega)
    have hops : (sweep k st.1 st.2.1 (k + 1) (N - (k + 1))).1 =
        st.1.mapIdx (fun l o => if k < l then pruneUses o k else o) := by
      apply List.ext_getElem?
      intro j
      by_cases hj : j < N
      · have e1 : (sweep k st.1 st.2.1 (k + 1) (N - (k + 1))).1[j]? =
            some ((sweep k st.1 st.2.1 (k + 1) (N - (k + 1))).1.getD j []) := by
          rw [List.getD_eq_getElem?_getD, List.getElem?_eq_getElem (by rw [hl1, h.lenT]; exact hj)]; rfl
        have e2 : (st.1.mapIdx (fun l o => if k < l then pruneUses o k else o))[j]? =
            some ((st.1.mapIdx (fun l o => if k < l then pruneUses o k else o)).getD j []) := by
          rw [List.getD_eq_getElem?_getD, List.getElem?_eq_getElem (by simp [h.lenT]; exact hj)]; rfl
        rw [e1, e2, hs1 j, mapIdx_getD _ _ j (by rw [h.lenT]; exact hj)]
        by_cases hkj : k < j
        · have : k + 1 ≤ j ∧ j < k + 1 + (N - (k + 1)) := by omega
          simp [hkj, this]
        · have : ¬ (k + 1 ≤ j ∧ j < k + 1 + (N - (k + 1))) := by omega
          simp [hkj, this]
      · rw [List.getElem?_eq_none (by rw [hl1, h.lenT]; omega), List.getElem?_eq_none (by simp [h.lenT]; omega)]
    have hcounts : (sweep k st.1 st.2.1 (k + 1) (N - (k + 1))).2 =
        ((List.range N).filter (fun l => decide (k < l))).foldl
          (fun cs l => bumpSingle cs ((st.1.mapIdx (fun l o => if k < l then pruneUses o k else o)).getD l [])) st.2.1 := by
      rw [hs2, range_filter_gt]
      apply foldl_congr_mem
      intro cs j hj
      simp only [List.mem_range'_1] at hj
      rw [mapIdx_getD _ _ j (by rw [h.lenT]; omega)]
      have : k < j := by omega
      simp [this]
    simp only [hops, hcounts]

theorem fold_seq_eq_step (N : Nat) : ∀ (ks : List Nat) (st : SeqSt), SeqInv N st → (∀ k ∈ ks, k < N) →
    toSt (ks.foldl (seqStep N) st) = ks.foldl (step N) (toSt st) := by
  intro ks
  induction ks with
  | nil => intro st _ _; rfl
  | cons k ks ih =>
    intro st h hk
    simp only [List.foldl_cons]
    rw [ih (seqStep N st k) (seqStep_inv N st k h) (fun k' hk' => hk k' (by simp [hk'])),
      seqStep_eq_step N st k h (hk k (by simp))]

/-! ### the removal list is ascending, and removing by popping its head is removing by membership -/

def RmInv (k : Nat) (rm : List Nat) : Prop := rm.Pairwise (· < ·) ∧ ∀ r ∈ rm, r < k

theorem seqStep_rm (N : Nat) (st : SeqSt) (k : Nat) (h : RmInv k st.2.2) : RmInv (k + 1) (seqStep N st k).2.2 := by
  unfold seqStep
  split
  · exact ⟨h.1, fun r hr => by have := h.2 r hr; omega⟩
  · refine ⟨?_, ?_⟩
    · simp only []
      rw [List.pairwise_append]
      exact ⟨h.1, by simp, fun a ha b hb => by simp at hb; subst hb; exact h.2 a ha⟩
    · intro r hr
      simp only [List.mem_append, List.mem_singleton] at hr
      rcases hr with hr | hr
      · have := h.2 r hr; omega
      · omega

theorem fold_rm (N : Nat) : ∀ (n k : Nat) (st : SeqSt), RmInv k st.2.2 →
    RmInv (k + n) ((List.range' k n).foldl (seqStep N) st).2.2 := by
  intro n
  induction n with
  | zero => intro k st h; exact h
  | succ n ih =>
    intro k st h
    simp only [List.range'_succ, List.foldl_cons]
    have := ih (k + 1) (seqStep N st k) (seqStep_rm N st k h)
    rw [show k + (n + 1) = k + 1 + n by omega]
    exact this

theorem filterMap_congr_mem {α β} (f g : α → Option β) : ∀ (l : List α), (∀ a ∈ l, f a = g a) →
    l.filterMap f = l.filterMap g := by
  intro l
  induction l with
  | nil => intro _; rfl
  | cons a l ih =>
    intro h
    simp only [List.filterMap_cons]
    rw [h a (by simp), ih (fun b hb => h b (by simp [hb]))]

theorem keepFrom_spec : ∀ (xs : List Int) (i : Nat) (rm : List Nat), rm.Pairwise (· < ·) → (∀ r ∈ rm, i ≤ r) →
    keepFrom xs i rm =
      ((List.range' i xs.length).zip xs).filterMap (fun p => if rm.contains p.1 then none else some p.2) := by
  intro xs
  induction xs with
  | nil => intro i rm _ _; simp [keepFrom]
  | cons x xs ih =>
    intro i rm hp hge
    simp only [keepFrom, List.length_cons, List.range'_succ, List.zip_cons_cons, List.filterMap_cons]
    by_cases hh : rm.head? = some i
    · obtain ⟨rm', rfl⟩ : ∃ rm', rm = i :: rm' := by
        cases rm with
        | nil => simp at hh
        | cons r rm' => simp at hh; subst hh; exact ⟨rm', rfl⟩
      have hp' := (List.pairwise_cons.1 hp)
      have hci : (i :: rm').contains i = true := by simp
      simp only [hh, if_true, List.tail_cons, hci]
      rw [ih (i + 1) rm' hp'.2 (fun r hr => by have := hp'.1 r hr; omega)]
      apply filterMap_congr_mem
      intro p hp2
      have hmem := List.of_mem_zip hp2
      simp only [List.mem_range'_1] at hmem
      have hne : p.1 ≠ i := by omega
      have : (i :: rm').contains p.1 = rm'.contains p.1 := by
        simp [List.contains_cons, hne]
      rw [this]
    · have hni : rm.contains i = false := by
        cases rm with
        | nil => rfl
        | cons r rm' =>
          have hp' := (List.pairwise_cons.1 hp)
          have hr : r ≠ i := by intro e; subst e; simp at hh
          have hri : i < r := by have := hge r (by simp); omega
          have : ∀ y ∈ rm', y ≠ i := fun y hy => by have := hp'.1 y hy; omega
          simp only [List.contains_cons, Bool.or_eq_false_iff]
          refine ⟨by simp; omega, ?_⟩
          cases hc : rm'.contains i
          · rfl
          · exact absurd rfl (this i (by simpa using hc))
      simp only [hh, if_false, hni, Bool.false_eq_true]
      rw [ih (i + 1) rm hp (fun r hr => by
        have h1 := hge r hr
        have : r ≠ i := by
          intro e; subst e
          have : rm.contains r = true := by simpa using hr
          rw [hni] at this; cases this
        omega)]

theorem zip_range_filterMap (g : Nat → Int → Option Int) : ∀ (xs pre : List Int),
    ((List.range' pre.length xs.length).zip xs).filterMap (fun p => g p.1 p.2) =
      (List.range' pre.length xs.length).filterMap (fun j => g j (at' (pre ++ xs) j)) := by
  intro xs
  induction xs with
  | nil => intro pre; simp
  | cons x xs ih =>
    intro pre
    simp only [List.length_cons, List.range'_succ, List.zip_cons_cons, List.filterMap_cons]
    have hx : at' (pre ++ x :: xs) pre.length = x := by simp [at']
    rw [hx]
    have := ih (pre ++ [x])
    simp only [List.length_append, List.length_singleton, List.append_assoc, List.singleton_append] at this
    rw [this]

/-- second half: the sequential computation is the model -/
theorem seqOptimize_eq (c : Chain) : seqOptimize c = optimize c := by
  unfold seqOptimize optimize
  have hlenT : (seqT0 c).length = c.length := by simp [seqT0, fillOps_length]
  have hinv : SeqInv c.length (seqT0 c, seqC0 c, []) :=
    ⟨hlenT, by simp [seqC0, countsFrom_length], seqT0_scoped c⟩
  have hinit : toSt (seqT0 c, seqC0 c, []) = initSt c := by
    have h1 := seqT0_eq c
    have h2 := seqC0_eq c
    simp only [toSt, h1, h2]
    rfl
  have hf := range_filter_gt (c.length - 1) 0
  simp only [Nat.zero_add] at hf
  have hfold := fold_seq_eq_step c.length (List.range' 1 (c.length - 1 - 1)) (seqT0 c, seqC0 c, []) hinv
    (fun k hk => by simp only [List.mem_range'_1] at hk; omega)
  rw [hinit] at hfold
  have hfin : ((List.range (c.length - 1)).filter (fun j => decide (0 < j))).foldl (step c.length) (initSt c) =
      toSt (seqFin c) := by rw [hf]; exact hfold.symm
  have hrm := fold_rm c.length (c.length - 1 - 1) 1 (seqT0 c, seqC0 c, []) ⟨by simp, by simp⟩
  have hk := keepFrom_spec c 0 (seqFin c).2.2 hrm.1 (fun _ _ => Nat.zero_le _)
  rw [hk]
  have hz := zip_range_filterMap (fun j x => if (seqFin c).2.2.contains j then none else some x) c []
  simp only [List.length_nil, List.nil_append] at hz
  rw [hz, ← List.range_eq_range']
  show _ = (List.range c.length).filterMap (fun i =>
    if (((List.range (c.length - 1)).filter (fun j => decide (0 < j))).foldl (step c.length) (initSt c)).remove.contains i
    then none else some (at' c i))
  rw [hfin]
  rfl

/-- **`opt.Optimize` as translated from opt.go equals the model**, for every chain: no panic, nil error,
    and the chain `P.OptX.optimize c` -/
theorem optimize_tie (c : Chain) : optOptimize c = some (optimize c, none) := by
  rw [optOptimize_seq, seqOptimize_eq]

end AC.OptTie
