import AC.PegFull
import AC.Gen.AstPrec
/-! # Executable model of `acc/printer/printer.go` composed with `text/tabwriter` (C07)

`printer.expr(e, prec)` parenthesises when `e.Precedence() < prec`, where `prec` is the minimum
precedence the grammar admits in that position: statement `LowestPrec`; `Add.X` the addition's
own precedence; `Add.Y` one more; operand of `Double`/`Shift` `HighestPrec`.  Inside the
parentheses the expression is printed at `LowestPrec`, which never parenthesises again because
no precedence is below `LowestPrec` (`prec_ge_lowest`; if that failed the real code would
recurse forever).  The precedences come from the generated table `AC.Gen.AstPrec`.

Every statement is written as `name\t=\t<expr>\n` or `return\t\t<expr>\n` through a tabwriter
with minwidth 1, tabwidth 4, padding 1, padchar `' '`, flags 0: all lines have exactly two
tab-terminated cells, so they form one column block; a column is as wide as its widest cell
plus the padding (at least minwidth), every cell is padded with blanks to that width, and the
trailing text is copied unchanged.  Cell widths are counted in characters (the harness only
uses ASCII names). -/
namespace P.PegF
open AC.Gen
open P.Peg (natStr)

def precOf : Expr → Nat
  | .operand _ => AstPrec.operand
  | .ident _ => AstPrec.identifier
  | .add .. => AstPrec.add
  | .shift .. => AstPrec.shift
  | .double .. => AstPrec.double

def intStr (i : Int) : List Char := (toString i).toList

def paren (b : Bool) (l : List Char) : List Char := if b then '(' :: (l ++ [')']) else l

/-- `printer.expr(e, LowestPrec)`; `prAt` is `printer.expr(e, prec)` -/
def prBody : Expr → List Char
  | .operand i => if i = 0 then ['1'] else '[' :: (intStr i ++ [']'])
  | .ident s => s
  | .add x y =>
      paren (decide (precOf x < AstPrec.add)) (prBody x) ++ " + ".toList ++
      paren (decide (precOf y < AstPrec.add + 1)) (prBody y)
  | .double x => "2*".toList ++ paren (decide (precOf x < AstPrec.highestPrec)) (prBody x)
  | .shift x s => paren (decide (precOf x < AstPrec.highestPrec)) (prBody x) ++ " << ".toList ++ natStr s

def prAt (e : Expr) (prec : Nat) : List Char := paren (decide (precOf e < prec)) (prBody e)

/-- the two tab-terminated cells of a statement line -/
def cell1 (st : Stmt) : List Char := if st.name.isEmpty then "return".toList else st.name
def cell2 (st : Stmt) : List Char := if st.name.isEmpty then [] else ['=']

/-- tabwriter column width: minwidth 1, padding 1 -/
def colWidth (cells : List (List Char)) : Nat := cells.foldl (fun w c => max w (c.length + 1)) 1

def padTo (w : Nat) (c : List Char) : List Char := c ++ List.replicate (w - c.length) ' '

def printLine (w1 w2 : Nat) (st : Stmt) : List Char :=
  padTo w1 (cell1 st) ++ (padTo w2 (cell2 st) ++ (prAt st.e AstPrec.lowestPrec ++ ['\n']))

/-- `printer.String(&ast.Chain{…})` -/
def printChain (t : Tree) : List Char :=
  t.flatMap (printLine (colWidth (t.map cell1)) (colWidth (t.map cell2)))

end P.PegF

namespace P.PegF
/-! ### decidable well-formedness (the domain of the round-trip theorem)

`WFTree`: at least one statement; the final statement is unnamed, every other name is an
identifier; identifiers in expressions are identifiers; an identifier that is printed in
`ShiftExpr` position (statement level, operand of `+`, inside parentheses — i.e. anywhere except
directly under a shift or a double) is not `dbl` followed by `1`, a letter or `_` (F10: `dblx`
re-parses as `2*x`); operand indices satisfy `0 ≤ i < 2^63` (F8); shift counts are `< 2^64`. -/

def validIdentB : List Char → Bool
  | c :: cs => P.Peg.isIdStart c && cs.all P.Peg.isIdChar
  | [] => false

/-- not (`dbl` followed by `1`, a letter or `_`) -/
def safeIdentB : List Char → Bool
  | 'd' :: 'b' :: 'l' :: c :: _ => !(c == '1' || P.Peg.isIdStart c)
  | _ => true

/-- `sa`: the expression is printed in `ShiftExpr` position (stand-alone) -/
def wfExprG (idxOK : Int → Bool) (safe : List Char → Bool) : Bool → Expr → Bool
  | _, .operand i => idxOK i
  | sa, .ident s => validIdentB s && (!sa || safe s)
  | _, .add x y => wfExprG idxOK safe true x && wfExprG idxOK safe true y
  | _, .shift x s => wfExprG idxOK safe false x && decide (s < 2 ^ 64)
  | _, .double x => wfExprG idxOK safe false x

def idxB (i : Int) : Bool := decide (0 ≤ i) && decide (i < 2 ^ 63)
def idxIntB (i : Int) : Bool := decide (-(2 ^ 63) ≤ i) && decide (i < 2 ^ 63)

def wfTreeG (idxOK : Int → Bool) (safe : List Char → Bool) : Tree → Bool
  | [] => false
  | [st] => st.name.isEmpty && wfExprG idxOK safe true st.e
  | st :: r => validIdentB st.name && wfExprG idxOK safe true st.e && wfTreeG idxOK safe r

def wfTreeB (t : Tree) : Bool := wfTreeG idxB safeIdentB t
/-- the tree violates only the index-range condition (F8) -/
def f8Only (t : Tree) : Bool := !wfTreeB t && wfTreeG idxIntB safeIdentB t
/-- the tree violates only the stand-alone-identifier condition (F10) -/
def f10Only (t : Tree) : Bool := !wfTreeB t && wfTreeG idxB (fun _ => true) t

end P.PegF
