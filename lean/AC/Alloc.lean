namespace P.Alloc

inductive Op | add (x y : Nat) | dbl (x : Nat) | shl (x s : Nat)
deriving Repr, DecidableEq
structure Inst where
  out : Nat
  op : Op
deriving Repr, DecidableEq

def Op.inputs : Op → List Nat
  | .add x y => [x, y] | .dbl x => [x] | .shl x _ => [x]

structure St where
  var : Nat → Option Nat    -- the Go map index ↦ variable (entries are never deleted)
  avail : List Nat          -- free list; Go appends and takes from the END
  n : Nat

def St.allocate (s : St) (i : Nat) : St :=
  match s.var i with
  | some _ => s
  | none =>
    match s.avail.getLast? with
    | some v => { s with var := fun j => if j = i then some v else s.var j, avail := s.avail.dropLast }
    | none => { s with var := fun j => if j = i then some s.n else s.var j, n := s.n + 1 }

def St.free (s : St) (v : Nat) : St := { s with avail := s.avail ++ [v] }

/-- one reverse step of Allocator.Execute: Variable(out) (allocating on demand), Free, then
    Allocate each input in order. -/
def step (s : St) (inst : Inst) : St :=
  let s1 := s.allocate inst.out
  let s2 := s1.free ((s1.var inst.out).getD 0)
  inst.op.inputs.foldl St.allocate s2

def init : St := { var := fun _ => none, avail := [], n := 0 }
def run (ir : List Inst) : St := ir.reverse.foldl step init

/-- Invariant of the reverse scan. `live`: indices needed later in program order (already
    seen as inputs, not yet defined). `dead`: indices whose defining instruction has been
    passed. -/
structure Inv (s : St) (live : List Nat) : Prop where
  avail_lt : ∀ v ∈ s.avail, v < s.n
  avail_nodup : s.avail.Nodup
  live_has : ∀ i ∈ live, ∃ v, s.var i = some v ∧ v < s.n ∧ v ∉ s.avail
  live_inj : ∀ i ∈ live, ∀ j ∈ live, s.var i = s.var j → i = j
  cover : ∀ v, v < s.n → v ∈ s.avail ∨ ∃ i ∈ live, s.var i = some v
  /-- entries exist only for live or already-defined indices -/
  nolive_none : ∀ i, i ∉ live → s.var i = none ∨ True

theorem getLast?_mem {l : List Nat} {v : Nat} (h : l.getLast? = some v) : v ∈ l := by
  exact List.mem_of_getLast? h

theorem dropLast_append_getLast? {l : List Nat} {v : Nat} (h : l.getLast? = some v) :
    l = l.dropLast ++ [v] := by
  have hne : l ≠ [] := by intro e; simp [e] at h
  have h1 := List.dropLast_concat_getLast hne
  have h2 : l.getLast hne = v := by
    have := List.getLast?_eq_some_getLast hne
    rw [this] at h; exact Option.some.inj h
  rw [h2] at h1; exact h1.symm

/-- allocating a fresh (unmapped, non-live) index keeps the invariant with that index live. -/
theorem allocate_fresh {s : St} {live : List Nat} (h : Inv s live) {i : Nat}
    (hi : s.var i = none) (hnl : i ∉ live) : Inv (s.allocate i) (i :: live) := by
  unfold St.allocate
  simp only [hi]
  cases hg : s.avail.getLast? with
  | some v =>
    simp only
    have hv_mem : v ∈ s.avail := getLast?_mem hg
    have hsplit := dropLast_append_getLast? hg
    have hnd : (s.avail.dropLast ++ [v]).Nodup := hsplit ▸ h.avail_nodup
    have hv_notin : v ∉ s.avail.dropLast := by
      intro hm
      have := List.nodup_append.mp hnd
      exact this.2.2 v hm v (by simp) rfl
    have hsub : ∀ w, w ∈ s.avail.dropLast → w ∈ s.avail := fun w hw => List.dropLast_subset _ hw
    refine ⟨?_, ?_, ?_, ?_, ?_, ?_⟩
    · intro w hw; exact h.avail_lt w (hsub w hw)
    · exact (List.nodup_append.mp hnd).1
    · intro j hj
      by_cases hji : j = i
      · subst hji
        exact ⟨v, by simp, h.avail_lt v hv_mem, hv_notin⟩
      · have hjl : j ∈ live := by simpa [hji] using hj
        obtain ⟨w, hw1, hw2, hw3⟩ := h.live_has j hjl
        exact ⟨w, by simp [hji, hw1], hw2, fun hm => hw3 (hsub w hm)⟩
    · intro j hj k hk hjk
      by_cases hji : j = i <;> by_cases hki : k = i
      · omega
      · subst hji
        have hkl : k ∈ live := by simpa [hki] using hk
        obtain ⟨w, hw1, _, hw3⟩ := h.live_has k hkl
        simp [hki, hw1] at hjk
        subst hjk
        exact absurd hv_mem hw3
      · subst hki
        have hjl : j ∈ live := by simpa [hji] using hj
        obtain ⟨w, hw1, _, hw3⟩ := h.live_has j hjl
        simp [hji, hw1] at hjk
        subst hjk
        exact absurd hv_mem hw3
      · have hjl : j ∈ live := by simpa [hji] using hj
        have hkl : k ∈ live := by simpa [hki] using hk
        simp [hji, hki] at hjk
        exact h.live_inj j hjl k hkl hjk
    · intro w hw
      by_cases hwv : w = v
      · subst hwv
        exact Or.inr ⟨i, by simp, by simp⟩
      · rcases h.cover w hw with hm | ⟨j, hj, hjv⟩
        · left
          rw [hsplit] at hm
          simpa [hwv] using hm
        · right
          refine ⟨j, by simp [hj], ?_⟩
          have : j ≠ i := fun e => hnl (e ▸ hj)
          simp [this, hjv]
    · intro _ _; exact Or.inr trivial
  | none =>
    simp only
    have hav : s.avail = [] := by simpa using hg
    refine ⟨?_, ?_, ?_, ?_, ?_, ?_⟩
    · intro w hw; simp [hav] at hw
    · simp [hav]
    · intro j hj
      by_cases hji : j = i
      · subst hji; exact ⟨s.n, by simp, by show s.n < s.n + 1; omega, by simp [hav]⟩
      · have hjl : j ∈ live := by simpa [hji] using hj
        obtain ⟨w, hw1, hw2, hw3⟩ := h.live_has j hjl
        exact ⟨w, by simp [hji, hw1], by show w < s.n + 1; omega, by simp [hav]⟩
    · intro j hj k hk hjk
      by_cases hji : j = i <;> by_cases hki : k = i
      · omega
      · subst hji
        have hkl : k ∈ live := by simpa [hki] using hk
        obtain ⟨w, hw1, hw2, _⟩ := h.live_has k hkl
        simp [hki, hw1] at hjk
        omega
      · subst hki
        have hjl : j ∈ live := by simpa [hji] using hj
        obtain ⟨w, hw1, hw2, _⟩ := h.live_has j hjl
        simp [hji, hw1] at hjk
        omega
      · have hjl : j ∈ live := by simpa [hji] using hj
        have hkl : k ∈ live := by simpa [hki] using hk
        simp [hji, hki] at hjk
        exact h.live_inj j hjl k hkl hjk
    · intro w hw
      by_cases hwn : w = s.n
      · subst hwn; exact Or.inr ⟨i, by simp, by simp⟩
      · rcases h.cover w (by have : w < s.n + 1 := hw; omega) with hm | ⟨j, hj, hjv⟩
        · simp [hav] at hm
        · right
          refine ⟨j, by simp [hj], ?_⟩
          have : j ≠ i := fun e => hnl (e ▸ hj)
          simp [this, hjv]
    · intro _ _; exact Or.inr trivial

end P.Alloc
