/-! # C03 model (semantic half): AST → IR → program → chain, and the direct semantics

Executable, core-only model of

* `acc.Translate` (acc/translate.go): running counter `n` (a Go `int`, 64-bit two's complement),
  name table, operand swap `x.Index > y.Index`, shift output index `n - 1 + int(S)`;
* `pass.Compile` (acc/pass/eval.go) over `addchain.Program` (program.go): `boundscheck`
  ("negative index" before "out of bounds", first operand before second), `Shift(i, 0)` returning
  `i` unchecked, the cross-check `out != i.Output.Index`;
* `Program.Evaluate`;

and of the direct big-step semantics `denote` (statements in order, operands left to right).
The main result `load_eq_denote` says the pipeline refines `denote`.

Indices are `Int` because the Go payload is an `int` that may be negative (`[18446744073709551615]`
wraps to `-1`). Shift amounts are `Nat` below `2^64` (a Go `uint`). -/
namespace P.SemX

inductive Expr
  | operand (i : Int)
  | ident (s : String)
  | add (x y : Expr)
  | shift (x : Expr) (s : Nat)
  | double (x : Expr)
deriving Repr, BEq

structure Stmt where
  name : String
  e : Expr
deriving Repr, BEq

abbrev Tree := List Stmt

/-- 2^63 -/
abbrev B63 : Int := 9223372036854775808
/-- 2^64 -/
abbrev B64 : Int := 18446744073709551616

/-- Go `int` (64-bit) wrap-around; also the conversion `int(u)` of a `uint` value `u < 2^64` -/
def wrap64 (x : Int) : Int := (x + B63) % B64 - B63

theorem wrap64_id {x : Int} (h1 : -B63 ≤ x) (h2 : x < B63) : wrap64 x = x := by
  unfold wrap64 B63 B64 at *; omega

/-! ## IR -/
inductive Op
  | add (x y : Int)
  | dbl (x : Int)
  | shl (x : Int) (s : Nat)
deriving Repr, BEq

structure Inst where
  out : Int
  op : Op
deriving Repr, BEq

inductive Err | undefined | redefine | negindex | bounds | outputindex
deriving Repr, BEq, DecidableEq

abbrev Env := List (String × Int)
def lookup (env : Env) (s : String) : Option Int := (env.find? (·.1 == s)).map (·.2)

/-! ## translate (acc/translate.go): emitted instructions, new counter, result index -/
def tExpr (env : Env) : Int → Expr → Except Err (List Inst × Int × Int)
  | n, .operand i => .ok ([], n, i)
  | n, .ident s =>
    match lookup env s with
    | none => .error .undefined
    | some i => .ok ([], n, i)
  | n, .add x y =>
    match tExpr env n x with
    | .error e => .error e
    | .ok (d1, n1, a) =>
      match tExpr env n1 y with
      | .error e => .error e
      | .ok (d2, n2, b) =>
        .ok (d1 ++ d2 ++ [⟨n2, if a > b then .add b a else .add a b⟩], wrap64 (n2 + 1), n2)
  | n, .double x =>
    match tExpr env n x with
    | .error e => .error e
    | .ok (d1, n1, a) => .ok (d1 ++ [⟨n1, .dbl a⟩], wrap64 (n1 + 1), n1)
  | n, .shift x s =>
    match tExpr env n x with
    | .error e => .error e
    | .ok (d1, n1, a) =>
      let n2 := wrap64 (n1 + wrap64 s)
      .ok (d1 ++ [⟨wrap64 (n2 - 1), .shl a s⟩], n2, wrap64 (n2 - 1))

/-- translate a statement list from counter `n` and name table `env`: all emitted instructions.
    `define` happens after the expression was translated; the return statement has name `""`. -/
def tStmts (env : Env) (n : Int) : List Stmt → Except Err (List Inst)
  | [] => .ok []
  | st :: r =>
    match tExpr env n st.e with
    | .error e => .error e
    | .ok (Δ, n', x) =>
      match lookup env st.name with
      | some _ => .error .redefine
      | none =>
        match tStmts ((st.name, x) :: env) n' r with
        | .error e => .error e
        | .ok ir => .ok (Δ ++ ir)

def translate (t : Tree) : Except Err (List Inst) := tStmts [] 1 t

/-! ## compile (pass.Compile over addchain.Program) -/
abbrev Prog := List (Nat × Nat)

/-- `Program.Add`: boundscheck(i), boundscheck(j), append, return the new length -/
def pAdd (p : Prog) (i j : Int) : Except Err (Prog × Int) :=
  if i < 0 then .error .negindex
  else if i > p.length then .error .bounds
  else if j < 0 then .error .negindex
  else if j > p.length then .error .bounds
  else .ok (p ++ [(i.toNat, j.toNat)], p.length + 1)

/-- `Program.Shift`: `s` doublings; `Shift(i, 0)` returns `i` unchecked -/
def pShift : Nat → Prog → Int → Except Err (Prog × Int)
  | 0, p, i => .ok (p, i)
  | s+1, p, i =>
    match pAdd p i i with
    | .error e => .error e
    | .ok (p', i') => pShift s p' i'

def cInst (p : Prog) (inst : Inst) : Except Err Prog :=
  let r := match inst.op with
    | .add x y => pAdd p x y
    | .dbl x => pAdd p x x
    | .shl x s => pShift s p x
  match r with
  | .error e => .error e
  | .ok (p', out) => if out = inst.out then .ok p' else .error .outputindex

def cAll : Prog → List Inst → Except Err Prog
  | p, [] => .ok p
  | p, i :: r =>
    match cInst p i with
    | .error e => .error e
    | .ok p' => cAll p' r

def compile (ir : List Inst) : Except Err Prog := cAll [] ir

/-! ## evaluate (Program.Evaluate) -/
def evalStep (c : List Nat) (o : Nat × Nat) : List Nat := c ++ [c.getD o.1 0 + c.getD o.2 0]
def evaluate (p : Prog) : List Nat := p.foldl evalStep [1]

/-- result of a load: the chain and the op list -/
structure St where
  chain : List Nat
  ops : Prog
deriving Repr, BEq, DecidableEq

def mk (p : Prog) : St := ⟨evaluate p, p⟩

/-- `acc.LoadString` after parsing: Translate, then pass.Eval (= Compile + Evaluate) -/
def load (t : Tree) : Except Err St :=
  match translate t with
  | .error e => .error e
  | .ok ir =>
    match compile ir with
    | .error e => .error e
    | .ok p => .ok (mk p)

/-! ## the direct semantics

State = the chain computed so far (initially `[1]`) and the op list. -/
def St.init : St := ⟨[1], []⟩

/-- value of element `a` -/
def St.val (st : St) (a : Int) : Nat := st.chain.getD a.toNat 0

/-- one addition of elements `a` and `b`: both must have been computed already; appends one element
    (their sum), records the operands smaller index first, returns the new element's index -/
def step (st : St) (a b : Int) : Option (St × Int) :=
  if 0 ≤ a ∧ a < st.chain.length ∧ 0 ≤ b ∧ b < st.chain.length then
    some (⟨st.chain ++ [st.val a + st.val b], st.ops ++ [((min a b).toNat, (max a b).toNat)]⟩,
          st.chain.length)
  else none

/-- `s` successive doublings starting from element `a` -/
def doubles : Nat → St → Int → Option (St × Int)
  | 0, st, a => some (st, a)
  | s+1, st, a =>
    match step st a a with
    | none => none
    | some (st', a') => doubles s st' a'

def dExpr (st : St) (env : Env) : Expr → Option (St × Int)
  | .operand i => some (st, i)
  | .ident s => (lookup env s).map (fun i => (st, i))
  | .add x y =>
    match dExpr st env x with
    | none => none
    | some (st1, a) =>
      match dExpr st1 env y with
      | none => none
      | some (st2, b) => step st2 a b
  | .double x =>
    match dExpr st env x with
    | none => none
    | some (st1, a) => step st1 a a
  | .shift x s =>
    match dExpr st env x with
    | none => none
    | some (st1, a) =>
      -- the quirk: a shift by 0 is accepted iff its operand is the most recent element
      if s = 0 then (if a = (st1.chain.length : Int) - 1 then some (st1, a) else none)
      else doubles s st1 a

def dStmts (st : St) (env : Env) : List Stmt → Option St
  | [] => some st
  | s :: r =>
    match dExpr st env s.e with
    | none => none
    | some (st', x) =>
      match lookup env s.name with
      | some _ => none                      -- redefinition
      | none => dStmts st' ((s.name, x) :: env) r

def denote (t : Tree) : Option St := dStmts St.init [] t

/-! ## size of a tree: number of chain elements it appends -/
def weight : Expr → Nat
  | .operand _ => 0
  | .ident _ => 0
  | .add x y => weight x + weight y + 1
  | .double x => weight x + 1
  | .shift x s => weight x + s

def weightS : List Stmt → Nat
  | [] => 0
  | s :: r => weight s.e + weightS r

/-! ## lemmas -/

theorem evaluate_append (p : Prog) (o : Nat × Nat) :
    evaluate (p ++ [o]) = evaluate p ++ [(evaluate p).getD o.1 0 + (evaluate p).getD o.2 0] := by
  unfold evaluate
  rw [List.foldl_append]
  rfl

theorem evaluate_length (p : Prog) : (evaluate p).length = p.length + 1 := by
  have key : ∀ (q : Prog) (c : List Nat), (q.foldl evalStep c).length = c.length + q.length := by
    intro q
    induction q with
    | nil => intro c; simp
    | cons o r ih =>
      intro c
      simp only [List.foldl_cons, List.length_cons]
      rw [ih]; simp [evalStep]; omega
  unfold evaluate
  rw [key]; simp; omega

theorem cAll_append : ∀ (a b : List Inst) (p : Prog),
    cAll p (a ++ b) = match cAll p a with | .error e => .error e | .ok p' => cAll p' b := by
  intro a
  induction a with
  | nil => intro b p; rfl
  | cons i r ih =>
    intro b p
    simp only [List.cons_append, cAll]
    cases cInst p i with
    | error e => rfl
    | ok p' => exact ih b p'

theorem cAll_single (p : Prog) (i : Inst) : cAll p [i] = cInst p i := by
  simp only [cAll]; cases cInst p i <;> rfl

theorem pAdd_out {p : Prog} {i j : Int} {p' : Prog} {o : Int} (h : pAdd p i j = .ok (p', o)) :
    o = p.length + 1 ∧ p'.length = p.length + 1 := by
  unfold pAdd at h
  repeat' split at h
  all_goals first | (cases h; done) | skip
  cases h; simp

theorem pShift_out : ∀ (s : Nat) (p : Prog) (i : Int) (p' : Prog) (o : Int), 1 ≤ s →
    pShift s p i = .ok (p', o) → o = p.length + s ∧ p'.length = p.length + s := by
  intro s
  induction s with
  | zero => intro p i p' o h; omega
  | succ s ih =>
    intro p i p' o _ h
    simp only [pShift] at h
    cases h1 : pAdd p i i with
    | error e => rw [h1] at h; cases h
    | ok r =>
      obtain ⟨p1, i1⟩ := r
      rw [h1] at h
      simp only [] at h
      obtain ⟨ho, hl⟩ := pAdd_out h1
      cases s with
      | zero =>
        simp only [pShift] at h
        cases h
        refine ⟨?_, hl⟩
        rw [ho]; simp
      | succ s =>
        have := ih p1 i1 p' o (by omega) h
        refine ⟨?_, by omega⟩
        rw [this.1, hl]; simp; omega

/-- the direct addition step agrees with `Program.Add` on the swapped operands -/
theorem step_sim (p : Prog) (a b : Int) :
    step (mk p) a b =
      match (if a > b then pAdd p b a else pAdd p a b) with
      | .error _ => none
      | .ok (p', o) => some (mk p', o) := by
  have hl := evaluate_length p
  unfold step
  simp only [mk, hl]
  by_cases hc : 0 ≤ a ∧ a < ((p.length + 1 : Nat) : Int) ∧ 0 ≤ b ∧ b < ((p.length + 1 : Nat) : Int)
  · rw [if_pos hc]
    obtain ⟨h1, h2, h3, h4⟩ := hc
    by_cases hab : a > b
    · rw [if_pos hab]
      unfold pAdd
      rw [if_neg (by omega), if_neg (by omega), if_neg (by omega), if_neg (by omega)]
      simp only [evaluate_append, St.val]
      have e1 : min a b = b := by omega
      have e2 : max a b = a := by omega
      rw [e1, e2, Nat.add_comm ((evaluate p).getD a.toNat 0)]
      simp
    · rw [if_neg hab]
      unfold pAdd
      rw [if_neg (by omega), if_neg (by omega), if_neg (by omega), if_neg (by omega)]
      simp only [evaluate_append, St.val]
      have e1 : min a b = a := by omega
      have e2 : max a b = b := by omega
      rw [e1, e2]
      simp
  · rw [if_neg hc]
    have key : ∀ x y : Int,
        ¬ (0 ≤ x ∧ x < ((p.length + 1 : Nat) : Int) ∧ 0 ≤ y ∧ y < ((p.length + 1 : Nat) : Int)) →
        (match pAdd p x y with
          | .error _ => (none : Option (St × Int))
          | .ok (p', o) => some (mk p', o)) = none := by
      intro x y h
      unfold pAdd
      by_cases c1 : x < 0
      · rw [if_pos c1]
      · rw [if_neg c1]
        by_cases c2 : x > (p.length : Int)
        · rw [if_pos c2]
        · rw [if_neg c2]
          by_cases c3 : y < 0
          · rw [if_pos c3]
          · rw [if_neg c3]
            by_cases c4 : y > (p.length : Int)
            · rw [if_pos c4]
            · exfalso; apply h; omega
    by_cases hab : a > b
    · rw [if_pos hab]
      exact (key b a (by omega)).symm
    · rw [if_neg hab]
      exact (key a b hc).symm

theorem step_sim_dbl (p : Prog) (a : Int) :
    step (mk p) a a =
      match pAdd p a a with
      | .error _ => none
      | .ok (p', o) => some (mk p', o) := by
  have := step_sim p a a
  rw [if_neg (by omega)] at this
  exact this

theorem doubles_sim : ∀ (s : Nat) (p : Prog) (a : Int),
    doubles s (mk p) a =
      match pShift s p a with
      | .error _ => none
      | .ok (p', o) => some (mk p', o) := by
  intro s
  induction s with
  | zero => intro p a; rfl
  | succ s ih =>
    intro p a
    simp only [doubles, pShift, step_sim_dbl]
    cases pAdd p a a with
    | error e => rfl
    | ok r =>
      obtain ⟨p1, a1⟩ := r
      exact ih p1 a1

theorem cInst_add (p : Prog) (o x y : Int) (ho : o = p.length + 1) :
    cInst p ⟨o, .add x y⟩ = (match pAdd p x y with | .error e => .error e | .ok r => .ok r.1) := by
  unfold cInst
  simp only []
  cases h : pAdd p x y with
  | error e => rfl
  | ok r =>
    obtain ⟨p', o'⟩ := r
    have := (pAdd_out h).1
    simp [ho, this]

theorem cInst_dbl (p : Prog) (o x : Int) (ho : o = p.length + 1) :
    cInst p ⟨o, .dbl x⟩ = (match pAdd p x x with | .error e => .error e | .ok r => .ok r.1) := by
  unfold cInst
  simp only []
  cases h : pAdd p x x with
  | error e => rfl
  | ok r =>
    obtain ⟨p', o'⟩ := r
    have := (pAdd_out h).1
    simp [ho, this]

/-- without overflow the translator's counter advances by exactly the weight of the expression -/
theorem tExpr_n (env : Env) : ∀ (e : Expr) (n : Int) (Δ : List Inst) (n' x : Int), 1 ≤ n →
    n + weight e < B63 → tExpr env n e = .ok (Δ, n', x) → n' = n + weight e := by
  intro e
  induction e with
  | operand i => intro n Δ n' x _ _ h; simp [tExpr] at h; simp [weight, h.2.1]
  | ident s =>
    intro n Δ n' x _ _ h
    simp only [tExpr] at h
    cases hl : lookup env s with
    | none => rw [hl] at h; cases h
    | some v => rw [hl] at h; cases h; simp [weight]
  | add x y ihx ihy =>
    intro n Δ n' o h1 hb h
    simp only [tExpr] at h
    simp only [weight] at hb ⊢
    cases hx : tExpr env n x with
    | error e => rw [hx] at h; cases h
    | ok r1 =>
      obtain ⟨d1, n1, a⟩ := r1
      rw [hx] at h; simp only [] at h
      have e1 := ihx n d1 n1 a h1 (by omega) hx
      cases hy : tExpr env n1 y with
      | error e => rw [hy] at h; cases h
      | ok r2 =>
        obtain ⟨d2, n2, b⟩ := r2
        rw [hy] at h; simp only [] at h
        have e2 := ihy n1 d2 n2 b (by omega) (by omega) hy
        cases h
        rw [wrap64_id (by unfold B63; omega) (by omega)]
        omega
  | double x ihx =>
    intro n Δ n' o h1 hb h
    simp only [tExpr] at h
    simp only [weight] at hb ⊢
    cases hx : tExpr env n x with
    | error e => rw [hx] at h; cases h
    | ok r1 =>
      obtain ⟨d1, n1, a⟩ := r1
      rw [hx] at h; simp only [] at h
      have e1 := ihx n d1 n1 a h1 (by omega) hx
      cases h
      rw [wrap64_id (by unfold B63; omega) (by omega)]
      omega
  | shift x s ihx =>
    intro n Δ n' o h1 hb h
    simp only [tExpr] at h
    simp only [weight] at hb ⊢
    cases hx : tExpr env n x with
    | error e => rw [hx] at h; cases h
    | ok r1 =>
      obtain ⟨d1, n1, a⟩ := r1
      rw [hx] at h; simp only [] at h
      have e1 := ihx n d1 n1 a h1 (by omega) hx
      cases h
      rw [wrap64_id (x := (s : Int)) (by unfold B63; omega) (by omega)]
      rw [wrap64_id (by unfold B63; omega) (by omega)]
      omega

end P.SemX
