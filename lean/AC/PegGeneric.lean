import AC.PegFull
/-! # A generic PEG interpreter, run on the grammar REGENERATED from acc.peg (C03)

`AC/Gen/AccGrammar.lean` is rewritten on every run from `acc/parse/acc.peg` of the working tree
(`harness/cmd/extract`): every rule as a term of `PE`.  `pegParse` interprets such a grammar with
pigeon's semantics — ordered choice, greedy `* + ?`, predicates, sequences returning the list of their
values, labels scoped to the enclosing action, an action error recorded without stopping the parse
(the final result is then an error).  The semantic actions are the Go code blocks of acc.peg; they
are given here by rule name and position (`runAction`), and their source text is compared with
`expect/` on every run.

The driver evaluates C03's clause "a returned tree is the tree the published grammar assigns to the
text" with this interpreter on the regenerated grammar, next to the hand-written parser model
`P.PegF.parse` (which the theorems are about): the three must agree on every generated input.
Core Lean only; no theorem depends on this file. -/
namespace AC.PegG
open P.PegF (Expr Stmt Tree wrapInt)

/-- parsing expressions -/
inductive PE where
  | lit (s : List Char) (ic : Bool)
  | cls (ranges : List (Char × Char)) (chars : List Char) (inv ic : Bool)
  | any
  | ref (n : String)
  | seq (l : List PE)
  | alt (l : List PE)
  | star (e : PE)
  | plus (e : PE)
  | opt (e : PE)
  | nott (e : PE)
  | andd (e : PE)
  | lab (n : String) (e : PE)
  | act (k : Nat) (e : PE)
deriving Inhabited

abbrev Grammar := List (String × PE)

/-- semantic values -/
inductive Val where
  | nil
  | chars (cs : List Char)
  | list (vs : List Val)
  | expr (e : Expr)
  | stmt (s : Stmt)
  | tree (t : Tree)
  | num (n : Nat)
deriving Inhabited

def lower (c : Char) : Char := if 'A' ≤ c ∧ c ≤ 'Z' then Char.ofNat (c.toNat + 32) else c

def matchLit (ic : Bool) : List Char → List Char → Option (List Char × List Char)
  | [], s => some ([], s)
  | _ :: _, [] => none
  | a :: l, b :: s =>
    if a = b ∨ (ic ∧ lower a = lower b) then
      match matchLit ic l s with
      | some (m, r) => some (b :: m, r)
      | none => none
    else none

def inClass (ranges : List (Char × Char)) (chars : List Char) (inv ic : Bool) (c : Char) : Bool :=
  let hit (c : Char) := ranges.any (fun r => r.1 ≤ c && c ≤ r.2) || chars.contains c
  let h := hit c || (ic && (hit (lower c) || hit (if 'a' ≤ c ∧ c ≤ 'z' then Char.ofNat (c.toNat - 32) else c)))
  if inv then !h else h

/-- `strconv.ParseUint(text, 0, 64)` on the texts the literal rules can match -/
def parseUint0 (t : List Char) : Option Nat :=
  let digit (b : Nat) (c : Char) : Option Nat :=
    let v := if c.isDigit then some (c.toNat - '0'.toNat)
      else if 'a' ≤ c ∧ c ≤ 'f' then some (c.toNat - 'a'.toNat + 10)
      else if 'A' ≤ c ∧ c ≤ 'F' then some (c.toNat - 'A'.toNat + 10) else none
    match v with | some d => if d < b then some d else none | none => none
  let value (b : Nat) (ds : List Char) : Option Nat :=
    if ds.isEmpty then none else
    ds.foldl (fun acc c => match acc, digit b c with | some a, some d => some (b * a + d) | _, _ => none) (some 0)
  let r := match t with
    | '0' :: 'x' :: ds => value 16 ds
    | '0' :: 'X' :: ds => value 16 ds
    | '0' :: d :: ds => value 8 (d :: ds)
    | ds => value 10 ds
  match r with
  | some v => if v < 2 ^ 64 then some v else none
  | none => none

def getLab (env : List (String × Val)) (n : String) : Val :=
  match env.find? (·.1 == n) with | some p => p.2 | none => .nil

/-- the code blocks of acc.peg, by rule and position among the rule's actions; `none` = action error -/
def runAction (rule : String) (k : Nat) (env : List (String × Val)) (text : List Char) (v : Val) : Option Val :=
  match rule, k with
  | "Chain", 0 =>
    let as : List Val := match getLab env "as" with | .list vs => vs | _ => []
    let stmts : List Stmt := as.filterMap fun (a : Val) => match a with | .stmt s => some s | _ => none
    match getLab env "r" with
    | .stmt r => some (.tree (stmts ++ [r]))
    | _ => none
  | "Assignment", 0 =>
    match getLab env "n", getLab env "e" with
    | .expr (.ident n), .expr e => some (.stmt ⟨n, e⟩)
    | _, _ => none
  | "Return", 0 => match getLab env "e" with | .expr e => some (.stmt ⟨[], e⟩) | _ => none
  | "Expr", 0 => some (getLab env "e")
  | "AddExpr", 0 =>
    match getLab env "x" with
    | .expr x =>
      let rest : List Val := match getLab env "rest" with | .list vs => vs | _ => []
      -- each item of `rest` is the sequence value [_, AddOperator, _, ShiftExpr]
      let ys : List Expr := rest.filterMap fun (it : Val) => match it with
        | .list [_, _, _, .expr y] => some y
        | _ => none
      if ys.length = rest.length then some (Val.expr (ys.foldl (fun r y => Expr.add r y) x)) else none
    | _ => none
  | "ShiftExpr", 0 =>
    match getLab env "x", getLab env "s" with
    | .expr x, .num s => some (.expr (.shift x s))
    | _, _ => none
  | "ShiftExpr", 1 => match getLab env "x" with | .expr x => some (.expr (.double x)) | _ => none
  | "ParenExpr", 0 => some (getLab env "e")
  | "Operand", 0 => some (getLab env "op")
  | "One", 0 => some (.expr (.operand 0))
  | "Index", 0 => match getLab env "idx" with | .num i => some (.expr (.operand (wrapInt i))) | _ => none
  | "Identifier", 0 => some (.expr (.ident text))
  | "UintLiteral", 0 => match getLab env "u64" with | .num n => some (.num n) | _ => none
  | "Uint64Literal", 0 => match parseUint0 text with | some n => some (.num n) | none => none
  | _, _ => let _ := v; none

/-- result of evaluating an expression: value, rest of the input with its length, labels set -/
structure R where
  v : Val
  rest : List Char
  n : Nat                      -- rest.length (carried, so that no length is recomputed)
  labs : List (String × Val)

mutual
/-- evaluate `e` of rule `rule` on `s` (of length `n`); the Boolean is the sticky action-error flag -/
partial def eval (g : Grammar) (rule : String) (e : PE) (s : List Char) (n : Nat) (err : Bool) : Option R × Bool :=
  match e with
  | .lit l ic => match matchLit ic l s with
    | some (m, r) => (some ⟨.chars m, r, n - m.length, []⟩, err)
    | none => (none, err)
  | .cls rs cs inv ic => match s with
    | c :: r => if inClass rs cs inv ic c then (some ⟨.chars [c], r, n - 1, []⟩, err) else (none, err)
    | [] => (none, err)
  | .any => match s with
    | c :: r => (some ⟨.chars [c], r, n - 1, []⟩, err)
    | [] => (none, err)
  | .ref nm => match g.find? (·.1 == nm) with
    | some (_, body) =>
      -- a rule starts a fresh label scope
      match eval g nm body s n err with
      | (some r, e') => (some ⟨r.v, r.rest, r.n, []⟩, e')
      | (none, e') => (none, e')
    | none => (none, true)
  | .seq l => evalSeq g rule l s n err [] []
  | .alt l => evalAlt g rule l s n err
  | .star x => evalStar g rule x s n err []
  | .plus x => match eval g rule x s n err with
    | (some r, e') => evalStar g rule x r.rest r.n e' [r.v]
    | (none, e') => (none, e')
  | .opt x => match eval g rule x s n err with
    | (some r, e') => (some r, e')
    | (none, e') => (some ⟨.nil, s, n, []⟩, e')
  | .nott x => match eval g rule x s n err with
    | (some _, e') => (none, e')
    | (none, e') => (some ⟨.nil, s, n, []⟩, e')
  | .andd x => match eval g rule x s n err with
    | (some _, e') => (some ⟨.nil, s, n, []⟩, e')
    | (none, e') => (none, e')
  | .lab nm x => match eval g rule x s n err with
    | (some r, e') => (some ⟨r.v, r.rest, r.n, (nm, r.v) :: r.labs⟩, e')
    | (none, e') => (none, e')
  | .act k x => match eval g rule x s n err with
    | (some r, e') =>
      let text := s.take (n - r.n)
      match runAction rule k r.labs text r.v with
      | some v => (some ⟨v, r.rest, r.n, []⟩, e')
      | none => (some ⟨.num 0, r.rest, r.n, []⟩, true)
    | (none, e') => (none, e')

partial def evalSeq (g : Grammar) (rule : String) (l : List PE) (s : List Char) (n : Nat) (err : Bool)
    (vs : List Val) (labs : List (String × Val)) : Option R × Bool :=
  match l with
  | [] => (some ⟨.list vs.reverse, s, n, labs⟩, err)
  | x :: xs => match eval g rule x s n err with
    | (some r, e') => evalSeq g rule xs r.rest r.n e' (r.v :: vs) (labs ++ r.labs)
    | (none, e') => (none, e')

partial def evalAlt (g : Grammar) (rule : String) (l : List PE) (s : List Char) (n : Nat) (err : Bool) : Option R × Bool :=
  match l with
  | [] => (none, err)
  | x :: xs => match eval g rule x s n err with
    | (some r, e') => (some r, e')
    | (none, e') => evalAlt g rule xs s n e'

partial def evalStar (g : Grammar) (rule : String) (x : PE) (s : List Char) (n : Nat) (err : Bool) (vs : List Val) : Option R × Bool :=
  match eval g rule x s n err with
  | (some r, e') =>
    -- pigeon does not guard against an iteration that consumes nothing; no rule of acc.peg has one
    if r.n < n then evalStar g rule x r.rest r.n e' (r.v :: vs)
    else (some ⟨.list (r.v :: vs).reverse, r.rest, r.n, []⟩, e')
  | (none, e') => (some ⟨.list vs.reverse, s, n, []⟩, e')
end

/-- `parser.Parse` with the first rule as entry point: a tree, or an error (no match, input left over is
    impossible as `Chain` ends in EOF, or an action error recorded anywhere) -/
def pegParse (g : Grammar) (s : List Char) : Except Unit Tree :=
  match g with
  | [] => .error ()
  | (n, body) :: _ =>
    match eval g n body s s.length false with
    | (some ⟨.tree t, _, _, _⟩, false) => .ok t
    | _ => .error ()

end AC.PegG
