/-! C16 prototype: generated names are injective, legal and faithful. -/
namespace P.Naming

def bitLen (n : Nat) : Nat := if n = 0 then 0 else Nat.log2 n + 1

/-- name given to chain index `i` with value `cv i`: `_<binary>` for values of at most 8 bits,
    else `x<len>` for all-ones values, else `i<index>` (build.go / naming.go) -/
def nameOf (cv : Nat → Nat) (i : Nat) : List Char :=
  let x := cv i
  if bitLen x ≤ 8 then '_' :: Nat.toDigits 2 x
  else if x = 2 ^ bitLen x - 1 then 'x' :: Nat.toDigits 10 (bitLen x)
  else 'i' :: Nat.toDigits 10 i

theorem toDigits_inj (b : Nat) (hb1 : 1 < b) (hb : b ≤ 10) (m n : Nat)
    (h : Nat.toDigits b m = Nat.toDigits b n) : m = n := by
  have h1 := @Nat.ofDigitChars_toDigits b m hb1 hb
  have h2 := @Nat.ofDigitChars_toDigits b n hb1 hb
  rw [h] at h1
  omega

/-- **uniqueness**: distinct indices with distinct values get distinct names -/
theorem nameOf_inj (cv : Nat → Nat) (i j : Nat) (hcv : cv i = cv j → i = j)
    (h : nameOf cv i = nameOf cv j) : i = j := by
  unfold nameOf at h
  simp only [] at h
  by_cases a1 : bitLen (cv i) ≤ 8 <;> by_cases a2 : bitLen (cv j) ≤ 8
  · simp only [a1, a2, if_true, List.cons.injEq, true_and] at h
    exact hcv (toDigits_inj 2 (by omega) (by omega) _ _ h)
  · simp only [a1, a2, if_true, if_false] at h
    split at h <;> simp at h
  · simp only [a1, a2, if_true, if_false] at h
    split at h <;> simp at h
  · simp only [a1, a2, if_false] at h
    by_cases b1 : cv i = 2 ^ bitLen (cv i) - 1 <;> by_cases b2 : cv j = 2 ^ bitLen (cv j) - 1
    · rw [if_pos b1, if_pos b2] at h
      simp only [List.cons.injEq, true_and] at h
      have := toDigits_inj 10 (by omega) (by omega) _ _ h
      apply hcv
      rw [b1, b2, this]
    · rw [if_pos b1, if_neg b2] at h; simp at h
    · rw [if_neg b1, if_pos b2] at h; simp at h
    · rw [if_neg b1, if_neg b2] at h
      simp only [List.cons.injEq, true_and] at h
      exact toDigits_inj 10 (by omega) (by omega) _ _ h

def isIdStart (c : Char) : Bool := c.isAlpha || c = '_'
def isIdChar (c : Char) : Bool := c.isAlphanum || c = '_'

/-- **legality**: every generated name matches `[a-zA-Z_][a-zA-Z0-9_]*` -/
theorem nameOf_legal (cv : Nat → Nat) (i : Nat) :
    ∃ c cs, nameOf cv i = c :: cs ∧ isIdStart c = true ∧ ∀ x ∈ cs, isIdChar x = true := by
  have dig : ∀ (b n : Nat), 0 < b → b ≤ 10 → ∀ x ∈ Nat.toDigits b n, isIdChar x = true := by
    intro b n h0 h10 x hx
    have := Nat.isDigit_of_mem_toDigits h0 h10 hx
    simp [isIdChar, Char.isAlphanum, this]
  unfold nameOf
  simp only []
  split
  · exact ⟨'_', _, rfl, by decide, dig 2 _ (by omega) (by omega)⟩
  · split
    · exact ⟨'x', _, rfl, by decide, dig 10 _ (by omega) (by omega)⟩
    · exact ⟨'i', _, rfl, by decide, dig 10 _ (by omega) (by omega)⟩

/-- **faithfulness**: what a name says about the value -/
theorem nameOf_faithful (cv : Nat → Nat) (i : Nat) :
    (∀ ds, nameOf cv i = '_' :: ds → Nat.ofDigitChars 2 ds 0 = cv i) ∧
    (∀ ds, nameOf cv i = 'x' :: ds → cv i = 2 ^ Nat.ofDigitChars 10 ds 0 - 1) ∧
    (∀ ds, nameOf cv i = 'i' :: ds → Nat.ofDigitChars 10 ds 0 = i) := by
  unfold nameOf
  simp only []
  refine ⟨?_, ?_, ?_⟩
  · intro ds h
    split at h
    · simp only [List.cons.injEq, true_and] at h
      rw [← h]; exact Nat.ofDigitChars_toDigits (by omega) (by omega)
    · split at h <;> simp at h
  · intro ds h
    split at h
    · simp at h
    · split at h
      · rename_i hx
        simp only [List.cons.injEq, true_and] at h
        rw [← h, Nat.ofDigitChars_toDigits (by omega) (by omega)]
        exact hx
      · simp at h
  · intro ds h
    split at h
    · simp at h
    · split at h
      · simp at h
      · simp only [List.cons.injEq, true_and] at h
        rw [← h]; exact Nat.ofDigitChars_toDigits (by omega) (by omega)

end P.Naming
