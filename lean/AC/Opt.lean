/-! C10 prototype: the pruning argument of opt.Optimize at the level of alternatives. -/
namespace P.Opt

abbrev Alt := Int × Int
def usesA (a : Alt) (k : Int) : Bool := a.1 == k || a.2 == k

structure Node where
  val : Int
  alts : List Alt

def prune (k : Int) (nd : Node) : Node := { nd with alts := nd.alts.filter (fun a => !usesA a k) }

/-- (U): at most one alternative of a node uses a given element (true for duplicate-free
    chains: the other operand is determined) -/
def Uniq (nd : Node) : Prop := ∀ k a b, a ∈ nd.alts → b ∈ nd.alts → usesA a k = true → usesA b k = true → a = b

/-- no node whose only alternative uses `k` -/
def Dispensable (nodes : List Node) (k : Int) : Prop :=
  ∀ nd ∈ nodes, ∀ a, nd.alts = [a] → usesA a k = false

/-- invariant: every node still has an alternative, and alternatives avoid removed elements -/
structure OInv (nodes : List Node) (removed : List Int) : Prop where
  nonempty : ∀ nd ∈ nodes, nd.val ∉ removed → nd.alts ≠ []
  avoid : ∀ nd ∈ nodes, ∀ a ∈ nd.alts, a.1 ∉ removed ∧ a.2 ∉ removed
  uniq : ∀ nd ∈ nodes, Uniq nd

theorem uniq_prune (k : Int) (nd : Node) (h : Uniq nd) : Uniq (prune k nd) := by
  intro k' a b ha hb hua hub
  simp only [prune, List.mem_filter] at ha hb
  exact h k' a b ha.1 hb.1 hua hub

theorem filter_ne_nil_of_two {α} (l : List α) (p : α → Bool)
    (h : ∀ a b, a ∈ l → b ∈ l → p a = false → p b = false → a = b) (hlen : 2 ≤ l.length) (hnd : l.Nodup) :
    l.filter p ≠ [] := by
  match l, hlen, hnd with
  | a :: b :: r, _, hnd =>
    have hab : a ≠ b := by
      intro e; subst e
      have := (List.nodup_cons.mp hnd).1
      simp at this
    by_cases ha : p a = true
    · simp [List.filter, ha]
    · by_cases hb : p b = true
      · simp [List.filter, ha, hb]
      · exfalso
        exact hab (h a b (by simp) (by simp) (by simpa using ha) (by simpa using hb))

/-- **safety of one removal**: if no singleton alternative uses `k`, pruning `k` everywhere keeps
    the invariant with `k` removed -/
theorem remove_safe (nodes : List Node) (removed : List Int) (k : Int) (hI : OInv nodes removed)
    (hnd : ∀ nd ∈ nodes, nd.alts.Nodup) (hd : Dispensable nodes k) :
    OInv (nodes.map (prune k)) (k :: removed) := by
  refine ⟨?_, ?_, ?_⟩
  · intro nd hnd' hval
    obtain ⟨nd0, hnd0, rfl⟩ := List.mem_map.mp hnd'
    have hval0 : nd0.val ∉ removed := fun h => hval (by simp [prune, h])
    have hne := hI.nonempty nd0 hnd0 hval0
    simp only [prune]
    -- case on the number of alternatives
    match hl : nd0.alts with
    | [] => exact absurd hl hne
    | [a] =>
      have := hd nd0 hnd0 a hl
      simp [List.filter, this]
    | a :: b :: r =>
      rw [← hl]
      apply filter_ne_nil_of_two
      · intro x y hx hy hpx hpy
        have hux : usesA x k = true := by simpa using hpx
        have huy : usesA y k = true := by simpa using hpy
        exact hI.uniq nd0 hnd0 k x y hx hy hux huy
      · rw [hl]; simp
      · exact hnd nd0 hnd0
  · intro nd hnd' a ha
    obtain ⟨nd0, hnd0, rfl⟩ := List.mem_map.mp hnd'
    simp only [prune, List.mem_filter] at ha
    obtain ⟨ha0, hnu⟩ := ha
    obtain ⟨h1, h2⟩ := hI.avoid nd0 hnd0 a ha0
    simp only [usesA, Bool.not_eq_true', Bool.or_eq_false_iff, beq_eq_false_iff_ne] at hnu
    exact ⟨by simp [hnu.1, h1], by simp [hnu.2, h2]⟩
  · intro nd hnd'
    obtain ⟨nd0, hnd0, rfl⟩ := List.mem_map.mp hnd'
    exact uniq_prune k nd0 (hI.uniq nd0 hnd0)


/-! ### the counters make the removal decision sound -/
def CountsOK (nodes : List Node) (counts : Int → Nat) : Prop :=
  ∀ nd ∈ nodes, ∀ a, nd.alts = [a] → ∀ i, usesA a i = true → 0 < counts i

theorem dispensable_of_counts (nodes : List Node) (counts : Int → Nat) (k : Int)
    (h : CountsOK nodes counts) (hk : counts k = 0) : Dispensable nodes k := by
  intro nd hnd a ha
  cases hu : usesA a k with
  | false => rfl
  | true => have := h nd hnd a ha k hu; omega

def isSingletonUsing (i : Int) (nd : Node) : Bool :=
  match nd.alts with
  | [a] => usesA a i
  | _ => false

/-- the update of `Optimize`: after pruning `k`, every affected node whose list now has one
    element bumps the counters of its operands (`touched` selects the nodes the loop walks over;
    the Go loop walks over all later positions, also unchanged ones — over-counting is harmless) -/
def bump (nodes' : List Node) (touched : Node → Bool) (counts : Int → Nat) : Int → Nat :=
  fun i => counts i + (nodes'.filter (fun nd => touched nd && isSingletonUsing i nd)).length

theorem countsOK_bump (nodes : List Node) (k : Int) (touched : Node → Bool) (counts : Int → Nat)
    (h : CountsOK nodes counts)
    (hun : ∀ nd ∈ nodes, touched (prune k nd) = false → prune k nd = nd) :
    CountsOK (nodes.map (prune k)) (bump (nodes.map (prune k)) touched counts) := by
  intro nd hnd a ha i hu
  obtain ⟨nd0, hnd0, rfl⟩ := List.mem_map.mp hnd
  unfold bump
  cases ht : touched (prune k nd0) with
  | true =>
    have : 0 < ((nodes.map (prune k)).filter (fun nd => touched nd && isSingletonUsing i nd)).length := by
      apply List.length_pos_iff.mpr
      intro he
      have hm : prune k nd0 ∈ (nodes.map (prune k)).filter (fun nd => touched nd && isSingletonUsing i nd) := by
        apply List.mem_filter.mpr
        refine ⟨hnd, ?_⟩
        simp [ht, isSingletonUsing, ha, hu]
      rw [he] at hm; cases hm
    omega
  | false =>
    have e := hun nd0 hnd0 ht
    rw [e] at ha
    have := h nd0 hnd0 a ha i hu
    omega

/-- the whole loop over candidates: remove `k` iff its counter is zero -/
structure OS where
  nodes : List Node
  counts : Int → Nat
  removed : List Int

def optStep (touched : Int → Node → Bool) (st : OS) (k : Int) : OS :=
  if st.counts k = 0 then
    let nodes' := st.nodes.map (prune k)
    { nodes := nodes', counts := bump nodes' (touched k) st.counts, removed := k :: st.removed }
  else st

structure SInv (st : OS) : Prop where
  oinv : OInv st.nodes st.removed
  nodup : ∀ nd ∈ st.nodes, nd.alts.Nodup
  counts : CountsOK st.nodes st.counts

theorem optStep_inv (touched : Int → Node → Bool) (st : OS) (k : Int) (h : SInv st)
    (hun : ∀ nd ∈ st.nodes, touched k (prune k nd) = false → prune k nd = nd) : SInv (optStep touched st k) := by
  unfold optStep
  split
  · rename_i hk
    refine ⟨remove_safe st.nodes st.removed k h.oinv h.nodup (dispensable_of_counts _ _ k h.counts hk), ?_,
      countsOK_bump st.nodes k (touched k) st.counts h.counts hun⟩
    intro nd hnd
    obtain ⟨nd0, hnd0, rfl⟩ := List.mem_map.mp hnd
    exact (h.nodup nd0 hnd0).sublist List.filter_sublist
  · exact h

/-- **C10 core**: after any run of the candidate loop every element that was not removed still
    has a way of being formed from two elements that were not removed. -/
theorem opt_core (touched : Int → Node → Bool) (cands : List Int) (st : OS) (h : SInv st)
    (hun : ∀ (k : Int) (nodes : List Node), ∀ nd ∈ nodes, touched k (prune k nd) = false → prune k nd = nd) :
    let fin := cands.foldl (optStep touched) st
    ∀ nd ∈ fin.nodes, nd.val ∉ fin.removed → ∃ a ∈ nd.alts, a.1 ∉ fin.removed ∧ a.2 ∉ fin.removed := by
  have hall : ∀ (cands : List Int) (st : OS), SInv st → SInv (cands.foldl (optStep touched) st) := by
    intro cands
    induction cands with
    | nil => intro st h; exact h
    | cons k r ih => intro st h; exact ih _ (optStep_inv touched st k h (hun k st.nodes))
  intro fin nd hnd hval
  have hf := hall cands st h
  have hne := hf.oinv.nonempty nd hnd hval
  cases hl : nd.alts with
  | nil => exact absurd hl hne
  | cons a r =>
    have := hf.oinv.avoid nd hnd a (by rw [hl]; simp)
    exact ⟨a, by simp, this⟩

end P.Opt
