/-! C19 prototype: limb/byte conversions and sorted membership. -/
namespace P.Helpers

/-- little-endian digits in base `b` (`Uint64s` with b = 2^64, `BytesLittleEndian` with b = 256) -/
def digitsLE (b : Nat) (hb : 2 ≤ b) (x : Nat) : List Nat :=
  if h : x = 0 then [] else (x % b) :: digitsLE b hb (x / b)
termination_by x
decreasing_by exact Nat.div_lt_self (by omega) (by omega)

def valueLE (b : Nat) : List Nat → Nat
  | [] => 0
  | d :: r => d + b * valueLE b r

theorem digitsLE_spec (b : Nat) (hb : 2 ≤ b) : ∀ (x : Nat),
    valueLE b (digitsLE b hb x) = x ∧ (∀ d ∈ digitsLE b hb x, d < b) ∧
    (∀ l, (digitsLE b hb x).getLast? = some l → l ≠ 0) := by
  intro x
  induction x using Nat.strongRecOn with
  | _ x ih =>
    rw [digitsLE]
    by_cases h : x = 0
    · simp [h, valueLE]
    · simp only [h, dite_false]
      obtain ⟨i1, i2, i3⟩ := ih (x / b) (Nat.div_lt_self (by omega) (by omega))
      refine ⟨?_, ?_, ?_⟩
      · simp only [valueLE, i1]
        have := Nat.div_add_mod x b
        omega
      · intro d hd
        rcases List.mem_cons.mp hd with rfl | hd
        · exact Nat.mod_lt _ (by omega)
        · exact i2 d hd
      · intro l hl
        cases hr : digitsLE b hb (x / b) with
        | nil =>
          rw [hr] at hl
          simp at hl
          -- x / b = 0, so x < b and x % b = x ≠ 0
          have hq : x / b = 0 := by
            rw [digitsLE] at hr
            by_cases hq : x / b = 0
            · exact hq
            · simp [hq] at hr
          have : x < b := by
            apply Classical.byContradiction
            intro hc
            have : 0 < x / b := Nat.div_pos (by omega) (by omega)
            omega
          rw [Nat.mod_eq_of_lt this] at hl
          omega
        | cons a t =>
          rw [hr] at hl
          simp only [List.getLast?_cons_cons] at hl
          exact i3 l (by rw [hr]; exact hl)

/-- `sort.Search` as used by `ContainsSorted`: least index in `[i, j)` with `xs[h] ≥ n`, else `j` -/
def search (xs : List Int) (n : Int) : Nat → Nat → Nat → Nat
  | 0, i, _ => i
  | f+1, i, j =>
    if i < j then
      let h := (i + j) / 2
      if xs.getD h 0 < n then search xs n f (h + 1) j else search xs n f i h
    else i

def containsSorted (n : Int) (xs : List Int) : Bool :=
  let i := search xs n (xs.length + 1) 0 xs.length
  decide (i < xs.length) && xs.getD i 0 == n

/-- the binary search returns the boundary between elements `< n` and elements `≥ n` -/
theorem search_spec (xs : List Int) (n : Int) (hs : ∀ a b, a < b → b < xs.length → xs.getD a 0 ≤ xs.getD b 0) :
    ∀ (f i j : Nat), j - i < f → i ≤ j → j ≤ xs.length →
    (∀ a, a < i → xs.getD a 0 < n) → (∀ a, j ≤ a → a < xs.length → n ≤ xs.getD a 0) →
    let r := search xs n f i j
    i ≤ r ∧ r ≤ j ∧ (∀ a, a < r → xs.getD a 0 < n) ∧ (∀ a, r ≤ a → a < xs.length → n ≤ xs.getD a 0) := by
  intro f
  induction f with
  | zero => intro i j h; omega
  | succ f ih =>
    intro i j hf hij hj hlo hhi
    simp only [search]
    by_cases hlt : i < j
    · simp only [hlt, if_true]
      by_cases hc : xs.getD ((i + j) / 2) 0 < n
      · simp only [hc, if_true]
        have := ih ((i + j) / 2 + 1) j (by omega) (by omega) hj
          (by
            intro a ha
            by_cases hah : a = (i + j) / 2
            · subst hah; exact hc
            · have : xs.getD a 0 ≤ xs.getD ((i + j) / 2) 0 := hs a _ (by omega) (by omega)
              omega)
          hhi
        exact ⟨by omega, this.2.1, this.2.2.1, this.2.2.2⟩
      · simp only [hc, if_false]
        have := ih i ((i + j) / 2) (by omega) (by omega) (by omega) hlo
          (by
            intro a ha hal
            by_cases hah : a = (i + j) / 2
            · subst hah; omega
            · have : xs.getD ((i + j) / 2) 0 ≤ xs.getD a 0 := hs _ a (by omega) hal
              omega)
        exact ⟨this.1, by omega, this.2.2.1, this.2.2.2⟩
    · simp only [hlt, if_false]
      have : i = j := by omega
      subst this
      exact ⟨Nat.le_refl _, Nat.le_refl _, hlo, hhi⟩

theorem containsSorted_iff (n : Int) (xs : List Int) (hs : xs.Pairwise (· ≤ ·)) :
    containsSorted n xs = true ↔ n ∈ xs := by
  have hs' : ∀ a b, a < b → b < xs.length → xs.getD a 0 ≤ xs.getD b 0 := by
    intro a b hab hb
    have ha : a < xs.length := by omega
    simp only [List.getD, List.getElem?_eq_getElem ha, List.getElem?_eq_getElem hb, Option.getD_some]
    exact List.pairwise_iff_getElem.mp hs a b ha hb hab
  obtain ⟨_, r2, r3, r4⟩ := search_spec xs n hs' (xs.length + 1) 0 xs.length (by omega) (by omega)
    (Nat.le_refl _) (by intro a h; omega) (by intro a h1 h2; omega)
  unfold containsSorted
  simp only [Bool.and_eq_true, decide_eq_true_eq, beq_iff_eq]
  generalize search xs n (xs.length + 1) 0 xs.length = r at *
  constructor
  · rintro ⟨hr, he⟩
    rw [← he]
    simp [List.getD, List.getElem?_eq_getElem hr]
  · intro hm
    obtain ⟨k, hk, hke⟩ := List.getElem_of_mem hm
    have hkd : xs.getD k 0 = n := by simp [List.getD, List.getElem?_eq_getElem hk, hke]
    have hrk : r ≤ k := by
      apply Classical.byContradiction
      intro hc
      have := r3 k (by omega); omega
    have hrl : r < xs.length := by omega
    refine ⟨hrl, ?_⟩
    have h1 := r4 r (Nat.le_refl _) hrl
    have h2 : xs.getD r 0 ≤ xs.getD k 0 := by
      by_cases e : r = k
      · rw [e]; exact Int.le_refl _
      · exact hs' r k (by omega) hk
    omega

end P.Helpers
