import AC.AllocInv
/-! C17 prototype: the allocator never uses more variables than values simultaneously alive. -/
namespace P.Alloc

/-- `L` has at most `K` distinct members -/
def DistinctLE (L : List Nat) (K : Nat) : Prop := ∀ D : List Nat, D.Nodup → (∀ x ∈ D, x ∈ L) → D.length ≤ K

theorem distinctLE_mono {L L' : List Nat} {K : Nat} (h : DistinctLE L' K) (hs : ∀ x ∈ L, x ∈ L') : DistinctLE L K :=
  fun D hnd hD => h D hnd (fun x hx => hs x (hD x hx))

/-- if every variable below `m` is held by a live index, there are at least `m` distinct live
    indices -/
theorem holders (s : St) (live : List Nat) : ∀ m, (∀ v, v < m → ∃ i ∈ live, s.var i = some v) →
    ∃ D : List Nat, D.Nodup ∧ D.length = m ∧ ∀ x ∈ D, x ∈ live ∧ ∃ v, v < m ∧ s.var x = some v := by
  intro m
  induction m with
  | zero => intro _; exact ⟨[], by simp, rfl, by simp⟩
  | succ m ih =>
    intro h
    obtain ⟨D, hnd, hlen, hD⟩ := ih (fun v hv => h v (by omega))
    obtain ⟨i, hi, hiv⟩ := h m (by omega)
    refine ⟨i :: D, ?_, by simp [hlen], ?_⟩
    · apply List.nodup_cons.mpr
      refine ⟨?_, hnd⟩
      intro hmem
      obtain ⟨_, v, hv, hvar⟩ := hD i hmem
      rw [hiv] at hvar
      have := Option.some.inj hvar
      omega
    · intro x hx
      rcases List.mem_cons.mp hx with rfl | hx
      · exact ⟨hi, m, by omega, hiv⟩
      · obtain ⟨h1, v, hv, hvar⟩ := hD x hx
        exact ⟨h1, v, by omega, hvar⟩

theorem allocate_n_le {s : St} {live : List Nat} (h : Inv s live) (i K : Nat) (hn : s.n ≤ K)
    (hi : i ∈ live ∨ s.var i = none) (hK : DistinctLE (i :: live) K) : (s.allocate i).n ≤ K := by
  unfold St.allocate
  cases hv : s.var i with
  | some v => exact hn
  | none =>
    simp only []
    cases hg : s.avail.getLast? with
    | some w => exact hn
    | none =>
      simp only []
      have hav : s.avail = [] := by simpa using hg
      have hil : i ∉ live := by
        intro hmem
        obtain ⟨v, hv', _, _⟩ := h.live_has i hmem
        rw [hv] at hv'; cases hv'
      obtain ⟨D, hnd, hlen, hD⟩ := holders s live s.n (by
        intro v hv'
        rcases h.cover v hv' with hm | hh
        · rw [hav] at hm; cases hm
        · exact hh)
      have : (i :: D).length ≤ K := by
        apply hK
        · apply List.nodup_cons.mpr
          refine ⟨?_, hnd⟩
          intro hmem
          exact hil (hD i hmem).1
        · intro x hx
          rcases List.mem_cons.mp hx with rfl | hx
          · simp
          · exact List.mem_cons_of_mem _ (hD x hx).1
      simp [hlen] at this
      omega

theorem free_n (s : St) (v : Nat) : (s.free v).n = s.n := rfl

theorem foldl_allocate_n_le : ∀ (xs : List Nat) {s : St} {live : List Nat} (K : Nat), Inv s live → s.n ≤ K →
    (∀ x ∈ xs, x ∈ live ∨ s.var x = none) → DistinctLE (xs.reverse ++ live) K →
    (xs.foldl St.allocate s).n ≤ K := by
  intro xs
  induction xs with
  | nil => intro s live K _ hn _ _; exact hn
  | cons x xs ih =>
    intro s live K h hn hx hK
    have h1 := allocate_inv h x (hx x (by simp))
    have hn1 := allocate_n_le h x K hn (hx x (by simp))
      (distinctLE_mono hK (by intro y hy; simp at hy ⊢; rcases hy with rfl | hy <;> simp [*]))
    simp only [List.foldl_cons]
    apply ih K h1 hn1
    · intro y hy
      by_cases hyx : y = x
      · left; simp [hyx]
      · rcases hx y (by simp [hy]) with hl | hnone
        · left; simp [hl]
        · right; rw [allocate_var_ne s x y hyx]; exact hnone
    · apply distinctLE_mono hK
      intro y hy; simp at hy ⊢
      rcases hy with hy | rfl | hy <;> simp [*]

theorem step_n_le {s : St} {live : List Nat} (h : Inv s live) (inst : Inst) (K : Nat) (hn : s.n ≤ K)
    (ho : inst.out ∈ live ∨ s.var inst.out = none)
    (hin : ∀ x ∈ inst.op.inputs, x ≠ inst.out ∧ (x ∈ live ∨ s.var x = none))
    (hK1 : DistinctLE (inst.out :: live) K) (hK2 : DistinctLE (liveBefore' live inst) K) :
    (step s inst).n ≤ K := by
  unfold step
  have h1 := allocate_inv h inst.out ho
  have hn1 := allocate_n_le h inst.out K hn ho hK1
  obtain ⟨v, hv, _, _⟩ := h1.live_has inst.out (by simp)
  simp only [hv, Option.getD_some]
  have h2 := free_inv h1 inst.out v (by simp) hv
  have hfilter : ∀ i, i ∈ (inst.out :: live).filter (· ≠ inst.out) ↔ i ∈ live.filter (· ≠ inst.out) := by
    intro i; simp
  have h3 := inv_congr hfilter h2
  apply foldl_allocate_n_le _ K h3 (by rw [free_n]; exact hn1)
  · intro x hx
    obtain ⟨hne, hx'⟩ := hin x hx
    rcases hx' with hl | hnone
    · left; simp [hl, hne]
    · right; rw [free_var, allocate_var_ne s inst.out x hne]; exact hnone
  · exact hK2

/-- **C17**: if at every program point at most `K` values are alive — counting, right after an
    instruction, its own result — then the allocator creates at most `K` variables. -/
theorem run_n_le (K : Nat) : ∀ (ir : List Inst), WFs ir →
    (∀ pre inst suf, ir = pre ++ inst :: suf →
      DistinctLE (inst.out :: liveAt suf) K ∧ DistinctLE (liveAt (inst :: suf)) K) →
    (run ir).n ≤ K := by
  intro ir
  induction ir with
  | nil => intro _ _; simp [run, init]
  | cons inst suf ih =>
    intro hwf hK
    obtain ⟨hout, hin, hsuf⟩ := hwf
    have hn := ih hsuf (fun pre i' s' e => hK (inst :: pre) i' s' (by simp [e]))
    obtain ⟨hinv, hsupp⟩ := run_inv suf hsuf
    rw [run_cons]
    obtain ⟨k1, k2⟩ := hK [] inst suf rfl
    apply step_n_le hinv inst K hn _ _ k1 k2
    · cases hv : (run suf).var inst.out with
      | none => exact Or.inr rfl
      | some v =>
        rcases hsupp inst.out (by rw [hv]; simp) with h | h
        · exact Or.inl h
        · exact absurd h hout
    · intro x hx
      refine ⟨(hin x hx).1, ?_⟩
      cases hv : (run suf).var x with
      | none => exact Or.inr rfl
      | some v =>
        rcases hsupp x (by rw [hv]; simp) with h | h
        · exact Or.inl h
        · exact absurd h (hin x hx).2

end P.Alloc
