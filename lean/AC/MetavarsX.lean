/-! # C20 model: `strconv.Quote`/`Unquote` on byte strings and the text written by `metavars.Write`

Everything is over bytes (`Nat` < 256 in a `List`), because property values are arbitrary byte
strings (invalid UTF-8 included) which a Lean `String` cannot hold.

* `decodeMB` — `utf8.DecodeRune` for a first byte ≥ 0x80 (accept ranges of the Go decoder: no overlong
  forms, no surrogates, nothing above U+10FFFF); `encode` — `utf8.AppendRune`.
* `quote isPrint` — `strconv.Quote` (= `%q`); `isPrint` is the oracle for `strconv.IsPrint` on runes ≥ 0x80.
* `unqR`/`unquote` — `strconv.Unquote` for double-quoted interpreted literals, escapes
  `\a \b \f \n \r \t \v \\ \" \xNN \uNNNN \UNNNNNNNN` (octal and `\'` are outside the image of `quote`: rejected).
* `writeModel` — bytes of `metavars.Write` *after* `format.Source`; `readModel` — `metavars.Read` on that shape.
* `get/add/set` — `File.Get/Add/Set` as an ordered association list.
-/
namespace P.MetaX

/-! ## UTF-8 -/

/-- lower bound of the second byte for the Go decoder's accept range of first byte `b0` -/
def lo1 (b0 : Nat) : Nat := if b0 = 0xE0 then 0xA0 else if b0 = 0xF0 then 0x90 else 0x80
/-- upper bound of the second byte -/
def hi1 (b0 : Nat) : Nat := if b0 = 0xED then 0x9F else if b0 = 0xF4 then 0x8F else 0xBF

/-- `utf8.DecodeRune` on a string whose first byte is ≥ 0x80: `some (rune, rest)` for a valid
    sequence, `none` for `(RuneError, 1)`. -/
def decodeMB : List Nat → Option (Nat × List Nat)
  | b0 :: b1 :: t =>
    if 0xC2 ≤ b0 ∧ b0 ≤ 0xDF then
      if 0x80 ≤ b1 ∧ b1 ≤ 0xBF then some ((b0 - 0xC0) * 64 + (b1 - 0x80), t) else none
    else if 0xE0 ≤ b0 ∧ b0 ≤ 0xEF then
      match t with
      | b2 :: t' =>
        if lo1 b0 ≤ b1 ∧ b1 ≤ hi1 b0 ∧ 0x80 ≤ b2 ∧ b2 ≤ 0xBF then
          some ((b0 - 0xE0) * 4096 + (b1 - 0x80) * 64 + (b2 - 0x80), t')
        else none
      | [] => none
    else if 0xF0 ≤ b0 ∧ b0 ≤ 0xF4 then
      match t with
      | b2 :: b3 :: t' =>
        if lo1 b0 ≤ b1 ∧ b1 ≤ hi1 b0 ∧ 0x80 ≤ b2 ∧ b2 ≤ 0xBF ∧ 0x80 ≤ b3 ∧ b3 ≤ 0xBF then
          some ((b0 - 0xF0) * 262144 + (b1 - 0x80) * 4096 + (b2 - 0x80) * 64 + (b3 - 0x80), t')
        else none
      | _ => none
    else none
  | _ => none

/-- `utf8.ValidRune` -/
def validRune (r : Nat) : Bool := decide (r < 0xD800 ∨ (0xDFFF < r ∧ r ≤ 0x10FFFF))

/-- `utf8.AppendRune` (invalid runes are written as U+FFFD) -/
def encode (r : Nat) : List Nat :=
  if r < 0x80 then [r]
  else if r < 0x800 then [0xC0 + r / 64, 0x80 + r % 64]
  else if (0xD800 ≤ r ∧ r ≤ 0xDFFF) ∨ 0x10FFFF < r then [0xEF, 0xBF, 0xBD]
  else if r < 0x10000 then [0xE0 + r / 4096, 0x80 + r / 64 % 64, 0x80 + r % 64]
  else [0xF0 + r / 262144, 0x80 + r / 4096 % 64, 0x80 + r / 64 % 64, 0x80 + r % 64]

/-! ## strconv.Quote -/

/-- `lowerhex[n]` -/
def hexd (n : Nat) : Nat := if n < 10 then 48 + n else 87 + n
def hex2 (b : Nat) : List Nat := [hexd (b / 16 % 16), hexd (b % 16)]
def hex4 (r : Nat) : List Nat := [hexd (r / 4096 % 16), hexd (r / 256 % 16), hexd (r / 16 % 16), hexd (r % 16)]
def hex8 (r : Nat) : List Nat :=
  [hexd (r / 268435456 % 16), hexd (r / 16777216 % 16), hexd (r / 1048576 % 16), hexd (r / 65536 % 16)] ++ hex4 r

/-- `strconv.IsPrint`: ASCII decided directly, the rest by the oracle -/
def printable (isPrint : Nat → Bool) (r : Nat) : Bool :=
  if r < 0x80 then decide (0x20 ≤ r ∧ r ≤ 0x7E) else isPrint r

/-- `appendEscapedRune(buf, r, '"', false, false)` -/
def escRune (isPrint : Nat → Bool) (r : Nat) : List Nat :=
  if r = 0x22 ∨ r = 0x5C then [0x5C, r]
  else if printable isPrint r = true then encode r
  else if r = 7 then [0x5C, 97]
  else if r = 8 then [0x5C, 98]
  else if r = 12 then [0x5C, 102]
  else if r = 10 then [0x5C, 110]
  else if r = 13 then [0x5C, 114]
  else if r = 9 then [0x5C, 116]
  else if r = 11 then [0x5C, 118]
  else if r < 0x20 ∨ r = 0x7F then [0x5C, 120] ++ hex2 r
  else if validRune r = false then [0x5C, 117] ++ hex4 0xFFFD
  else if r < 0x10000 then [0x5C, 117] ++ hex4 r
  else [0x5C, 85] ++ hex8 r

/-- loop of `appendQuotedWith`; one unit of fuel per decoded chunk -/
def bodyF (isPrint : Nat → Bool) : Nat → List Nat → List Nat
  | 0, _ => []
  | _+1, [] => []
  | n+1, b :: t =>
    if b < 0x80 then escRune isPrint b ++ bodyF isPrint n t
    else match decodeMB (b :: t) with
      | some (r, t') => escRune isPrint r ++ bodyF isPrint n t'
      | none => [0x5C, 120] ++ hex2 b ++ bodyF isPrint n t

/-- `strconv.Quote(s)` -/
def quote (isPrint : Nat → Bool) (s : List Nat) : List Nat :=
  0x22 :: (bodyF isPrint s.length s ++ [0x22])

/-! ## strconv.Unquote (double-quoted interpreted literal) -/

/-- `unhex` -/
def unhex (c : Nat) : Option Nat :=
  if 48 ≤ c ∧ c ≤ 57 then some (c - 48)
  else if 97 ≤ c ∧ c ≤ 102 then some (c - 87)
  else if 65 ≤ c ∧ c ≤ 70 then some (c - 55)
  else none

/-- read exactly `n` hex digits -/
def hexN : Nat → Nat → List Nat → Option (Nat × List Nat)
  | 0, acc, t => some (acc, t)
  | _+1, _, [] => none
  | n+1, acc, c :: t =>
    match unhex c with
    | some d => hexN n (acc * 16 + d) t
    | none => none

/-- the part of `UnquoteChar` after a backslash: bytes appended by `Unquote` and the remaining input -/
def unesc : List Nat → Option (List Nat × List Nat)
  | [] => none
  | e :: t =>
    if e = 97 then some ([7], t)
    else if e = 98 then some ([8], t)
    else if e = 102 then some ([12], t)
    else if e = 110 then some ([10], t)
    else if e = 114 then some ([13], t)
    else if e = 116 then some ([9], t)
    else if e = 118 then some ([11], t)
    else if e = 0x5C then some ([0x5C], t)
    else if e = 0x22 then some ([0x22], t)
    else if e = 120 then
      match hexN 2 0 t with
      | some (v, t') => some ([v], t')
      | none => none
    else if e = 117 then
      match hexN 4 0 t with
      | some (v, t') => if validRune v = true then some (encode v, t') else none
      | none => none
    else if e = 85 then
      match hexN 8 0 t with
      | some (v, t') => if validRune v = true then some (encode v, t') else none
      | none => none
    else none

/-- one `UnquoteChar` step as used by `Unquote`: appended bytes and remaining input -/
def unqChar : List Nat → Option (List Nat × List Nat)
  | [] => none
  | c :: t =>
    if c = 0x5C then unesc t
    else if c < 0x80 then some ([c], t)
    else match decodeMB (c :: t) with
      | some (r, t') => some (encode r, t')
      | none => some ([0xEF, 0xBF, 0xBD], t)

/-- body loop of `unquote`: input after the opening quote; returns the value and what follows the closing quote -/
def unqR : Nat → List Nat → Option (List Nat × List Nat)
  | 0, _ => none
  | _+1, [] => none
  | n+1, c :: t =>
    if c = 0x22 then some ([], t)
    else if c = 0x0A then none
    else match unqChar (c :: t) with
      | some (out, t') =>
        match unqR n t' with
        | some (v, rest) => some (out ++ v, rest)
        | none => none
      | none => none

/-- `strconv.Unquote` on a double-quoted literal -/
def unquote (s : List Nat) : Option (List Nat) :=
  match s with
  | 0x22 :: t =>
    match unqR t.length t with
    | some (v, []) => some v
    | _ => none
  | _ => none

/-! ## the file -/

structure BProp where
  name : List Nat
  doc : List Nat
  value : List Nat
deriving DecidableEq, Repr

structure BFile where
  pkg : List Nat
  props : List BProp
deriving DecidableEq, Repr

/-- number of runes of a (valid UTF-8) name: bytes that are not continuation bytes (tabwriter cell width) -/
def runeCount (l : List Nat) : Nat := (l.filter fun b => !(decide (0x80 ≤ b) && decide (b < 0xC0))).length

/-- gofmt alignment sections: a property with a doc comment starts a new section -/
def sections : List BProp → List (List BProp)
  | [] => []
  | p :: rest =>
    match sections rest with
    | [] => [[p]]
    | s :: ss =>
      match s with
      | q :: _ => if q.doc = [] then (p :: s) :: ss else [p] :: s :: ss
      | [] => [p] :: ss

def secWidth (s : List BProp) : Nat := s.foldl (fun w p => max w (runeCount p.name)) 0

/-- every property with the width of its section's name column -/
def annot (l : List BProp) : List (Nat × BProp) :=
  (sections l).flatMap fun s => s.map fun p => (secWidth s, p)

/-- one spec: optional `\t// doc\n`, then `\tname<pad> = "value"\n` -/
def writeSpec (isPrint : Nat → Bool) (w : Nat) (p : BProp) : List Nat :=
  (if p.doc = [] then [] else [9, 47, 47, 32] ++ p.doc ++ [10]) ++
  (9 :: (p.name ++ (List.replicate (w + 1 - runeCount p.name) 32 ++ ([61, 32] ++ (quote isPrint p.value ++ [10])))))

def writeSpecs (isPrint : Nat → Bool) (l : List (Nat × BProp)) : List Nat :=
  l.flatMap fun wp => writeSpec isPrint wp.1 wp.2

/-- `package ` -/
def kwPackage : List Nat := [112, 97, 99, 107, 97, 103, 101, 32]
/-- `\n\nvar (` -/
def kwVar : List Nat := [10, 10, 118, 97, 114, 32, 40]

/-- bytes written by `metavars.Write` (after `format.Source`) -/
def writeModel (isPrint : Nat → Bool) (f : BFile) : List Nat :=
  kwPackage ++ (f.pkg ++ (kwVar ++
    (if f.props = [] then [41, 10] else 10 :: (writeSpecs isPrint (annot f.props) ++ [41, 10]))))

/-! ## reading that shape back -/

def isIdStart (c : Nat) : Bool :=
  (decide (65 ≤ c) && decide (c ≤ 90)) || (decide (97 ≤ c) && decide (c ≤ 122)) || c == 95 || decide (0x80 ≤ c)
def isIdChar (c : Nat) : Bool := isIdStart c || (decide (48 ≤ c) && decide (c ≤ 57))

def stripPrefix : List Nat → List Nat → Option (List Nat)
  | [], l => some l
  | _ :: _, [] => none
  | a :: p, b :: l => if a = b then stripPrefix p l else none

/-- optional doc line `\t// <doc>\n`; the doc is what follows the `// ` leader -/
def readDoc (l : List Nat) : Option (List Nat × List Nat) :=
  match stripPrefix [9, 47, 47, 32] l with
  | some r =>
    match r.dropWhile (· != 10) with
    | _ :: rest => some (r.takeWhile (· != 10), rest)
    | [] => none
  | none => some ([], l)

def readSpec (l : List Nat) : Option (BProp × List Nat) :=
  match readDoc l with
  | none => none
  | some (doc, l1) =>
    match l1 with
    | [] => none
    | c :: l2 =>
      if c = 9 then
        let name := l2.takeWhile isIdChar
        let l3 := (l2.dropWhile isIdChar).dropWhile (· == 32)
        if name = [] then none
        else match stripPrefix [61, 32, 34] l3 with
          | some l4 =>
            match unqR l4.length l4 with
            | some (v, rest) =>
              match rest with
              | [] => none
              | d :: l5 => if d = 10 then some ({ name := name, doc := doc, value := v }, l5) else none
            | none => none
          | none => none
      else none

def readSpecs : Nat → List Nat → Option (List BProp)
  | 0, _ => none
  | n+1, l =>
    if l = [41, 10] then some []
    else match readSpec l with
      | some (p, rest) =>
        match readSpecs n rest with
        | some ps => some (p :: ps)
        | none => none
      | none => none

/-- `metavars.Read` on the shape written by `Write` -/
def readModel (l : List Nat) : Option BFile :=
  match stripPrefix kwPackage l with
  | none => none
  | some l1 =>
    let pkg := l1.takeWhile isIdChar
    if pkg = [] then none
    else match stripPrefix kwVar (l1.dropWhile isIdChar) with
      | none => none
      | some l2 =>
        if l2 = [41, 10] then some { pkg := pkg, props := [] }
        else match l2 with
          | [] => none
          | c :: l3 =>
            if c = 10 then
              match readSpecs (l3.length + 1) l3 with
              | some ps => some { pkg := pkg, props := ps }
              | none => none
            else none

/-! ## well-formed inputs (the property's domain) -/

def isIdStartA (c : Nat) : Bool :=
  (decide (65 ≤ c) && decide (c ≤ 90)) || (decide (97 ≤ c) && decide (c ≤ 122)) || c == 95
def isIdCharA (c : Nat) : Bool := isIdStartA c || (decide (48 ≤ c) && decide (c ≤ 57))

/-- ASCII identifier `[A-Za-z_][A-Za-z0-9_]*` -/
def isIdent : List Nat → Bool
  | [] => false
  | c :: t => isIdStartA c && t.all isIdCharA

def bytesOf (s : String) : List Nat := s.toList.map Char.toNat

/-- the 25 Go keywords -/
def keywords : List (List Nat) :=
  ["break", "case", "chan", "const", "continue", "default", "defer", "else", "fallthrough", "for", "func",
   "go", "goto", "if", "import", "interface", "map", "package", "range", "return", "select", "struct",
   "switch", "type", "var"].map bytesOf

def isName (l : List Nat) : Bool := isIdent l && !(keywords.contains l)

/-- `+build` -/
def kwPlusBuild : List Nat := [43, 98, 117, 105, 108, 100]

/-- `constraint.IsPlusBuild("// " ++ doc)` for a doc of printable ASCII: gofmt moves such a line to the file header -/
def isPlusBuild (doc : List Nat) : Bool :=
  match stripPrefix kwPlusBuild (doc.dropWhile (· == 32)) with
  | some [] => true
  | some (c :: _) => c == 32
  | none => false

/-- one-line plain prose: printable ASCII, no trailing blank (gofmt trims it), not a `+build` line;
    the empty doc means "no documentation" -/
def isDoc (d : List Nat) : Bool :=
  d.all (fun b => decide (0x20 ≤ b) && decide (b ≤ 0x7E)) && d.getLast? != some 32 && !isPlusBuild d

def wfProp (p : BProp) : Bool := isName p.name && isDoc p.doc && p.value.all (· < 256)
def wfFile (f : BFile) : Bool := isName f.pkg && f.props.all wfProp

def WFFile (f : BFile) : Prop := wfFile f = true

/-- `Write` fails (parse error in `format.Source`) unless every name is an identifier and not a keyword;
    the model only claims the written bytes for such files (bytes ≥ 0x80 stand for non-ASCII letters) -/
def isNameX (l : List Nat) : Bool :=
  (match l with | [] => false | c :: t => isIdStart c && t.all isIdChar) && !(keywords.contains l)
def namesOK (f : BFile) : Bool := isNameX f.pkg && f.props.all (fun p => isNameX p.name)

/-! ## File.Get / Add / Set -/

def get (f : List BProp) (n : List Nat) : Option (List Nat) := (f.find? (·.name == n)).map (·.value)

def add (f : List BProp) (p : BProp) : Except String (List BProp) :=
  match f.find? (·.name == p.name) with
  | some _ => .error "exists"
  | none => .ok (f ++ [p])

def set : List BProp → List Nat → List Nat → Option (List BProp)
  | [], _, _ => none
  | p :: r, n, v => if p.name = n then some ({ p with value := v } :: r) else (set r n v).map (p :: ·)

/-- `File.Add` as a state transformer: (succeeded, file afterwards); on error the file is left as it was -/
def addS (f : List BProp) (p : BProp) : Bool × List BProp :=
  match add f p with
  | .ok f' => (true, f')
  | .error _ => (false, f)

/-- `File.Set` as a state transformer -/
def setS (f : List BProp) (n v : List Nat) : Bool × List BProp :=
  match set f n v with
  | some f' => (true, f')
  | none => (false, f)

end P.MetaX
