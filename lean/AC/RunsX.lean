import AC.Runs
import AC.ChainX
/-! Executable top-level model of `dict.RunsChain` (alg/dict/runs.go): validation through
    `Chain.Program`, the `IsUint64` refusal, then the fold of `runsStep`. -/
namespace P

inductive RunsErr | invalid | tooLarge deriving Repr, DecidableEq

def isUint64 (x : Int) : Bool := 0 ≤ x && x < 2 ^ 64

/-- `RunsChain` -/
def runsChainX (lc : Chain) : Except RunsErr Chain :=
  match program lc with
  | .error _ => .error .invalid
  | .ok p =>
    if p.all (fun o => isUint64 (at' lc o.1) && isUint64 (at' lc o.2)) then .ok (runsChain lc p)
    else .error .tooLarge

end P
