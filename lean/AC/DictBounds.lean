import AC.RunsProof
import AC.DictSum
/-! Bounds on the elements emitted by `dictsumchain` (alg/dict/dict.go) and `RunsChain`
    (alg/dict/runs.go): every element is positive and at most the final / largest value, so that
    after sorting the last element of the returned chain is the target. -/

namespace P.DictSum

/-- `lastOr` is either the default or a member of the list -/
theorem lastOr_mem (l : List Nat) (d : Nat) : (l = [] ∧ lastOr l d = d) ∨ lastOr l d ∈ l := by
  unfold lastOr
  cases h : l.getLast? with
  | none => left; exact ⟨List.getLast?_eq_none_iff.1 h, rfl⟩
  | some v => right; exact List.mem_of_getLast? h

/-- `lastOr` of `pre ++ [x] ++ l` -/
theorem lastOr_append_mid (pre l : List Nat) (x d : Nat) :
    lastOr (pre ++ [x] ++ l) d = lastOr l x := by
  unfold lastOr
  simp only [List.getLast?_append, List.getLast?_singleton]
  cases l.getLast? <;> simp

theorem le_mul_two_pow (cur k : Nat) : cur ≤ cur * 2 ^ k := by
  have : 1 ≤ 2 ^ k := Nat.one_le_two_pow
  exact Nat.le_mul_of_pos_right cur this

/-- the doublings of `cur` lie between `cur` and `cur * 2^k` -/
theorem doubles_bounds : ∀ (k cur : Nat), ∀ y ∈ doubles k cur, cur ≤ y ∧ y ≤ cur * 2 ^ k := by
  intro k
  induction k with
  | zero => intro cur y h; simp [doubles] at h
  | succ k ih =>
    intro cur y h
    simp only [doubles, List.mem_cons] at h
    have hp : cur * 2 ^ (k + 1) = 2 * cur * 2 ^ k := by
      rw [Nat.pow_succ, Nat.mul_comm (2 ^ k) 2, ← Nat.mul_assoc, Nat.mul_comm cur 2]
    rw [hp]
    rcases h with rfl | h
    · exact ⟨by omega, le_mul_two_pow (2 * cur) k⟩
    · obtain ⟨h1, h2⟩ := ih (2 * cur) y h
      exact ⟨by omega, h2⟩

/-- every element `dictsumchain` emits is at least the running value it started from and at most
    the final value (hence positive when `cur` is) -/
theorem go_bounds : ∀ (ts : List (Nat × Nat)) (cur E : Nat), 1 ≤ cur →
    ∀ y ∈ go cur E ts, cur ≤ y ∧ y ≤ lastOr (go cur E ts) cur := by
  intro ts
  induction ts with
  | nil =>
    intro cur E _ y hy
    simp only [go] at hy ⊢
    rw [doubles_last]
    exact doubles_bounds E cur y hy
  | cons t r ih =>
    intro cur E hcur y hy
    obtain ⟨d, e⟩ := t
    simp only [go] at hy ⊢
    rw [lastOr_append_mid]
    have hc1 : cur ≤ cur * 2 ^ (E - e) := le_mul_two_pow cur (E - e)
    have ih' := ih (cur * 2 ^ (E - e) + d) e (by omega)
    -- the final value is at least the value after adding the dictionary entry
    have hlast : cur * 2 ^ (E - e) + d ≤
        lastOr (go (cur * 2 ^ (E - e) + d) e r) (cur * 2 ^ (E - e) + d) := by
      rcases lastOr_mem (go (cur * 2 ^ (E - e) + d) e r) (cur * 2 ^ (E - e) + d) with ⟨_, h⟩ | h
      · rw [h]; exact Nat.le_refl _
      · exact (ih' _ h).1
    simp only [List.mem_append, List.mem_singleton] at hy
    rcases hy with (hy | hy) | hy
    · obtain ⟨h1, h2⟩ := doubles_bounds (E - e) cur y hy
      exact ⟨h1, by omega⟩
    · subst hy; exact ⟨by omega, hlast⟩
    · obtain ⟨h1, h2⟩ := ih' y hy
      exact ⟨by omega, h2⟩

/-- the final value of a non-trivial run is at least the starting value -/
theorem go_last_ge (ts : List (Nat × Nat)) (cur E : Nat) (hcur : 1 ≤ cur) :
    cur ≤ lastOr (go cur E ts) cur := by
  rcases lastOr_mem (go cur E ts) cur with ⟨_, h⟩ | h
  · rw [h]; exact Nat.le_refl _
  · exact (go_bounds ts cur E hcur _ h).1

/-- positivity of everything `go` emits -/
theorem go_pos (ts : List (Nat × Nat)) (cur E : Nat) (hcur : 1 ≤ cur) :
    ∀ y ∈ go cur E ts, 1 ≤ y := fun y hy =>
  Nat.le_trans hcur (go_bounds ts cur E hcur y hy).1

end P.DictSum

namespace P

theorem onesI_nonneg (n : Nat) : 0 ≤ onesI n := by
  unfold onesI
  have := two_pow_pos_int' n
  omega

/-- `(2^b − 1)·2^j ≤ 2^(j+b) − 1` -/
theorem run_shift_le (b j : Nat) : onesI b * 2 ^ j ≤ onesI (j + b) := by
  rw [onesI_add j b]
  have := onesI_nonneg j
  omega

theorem onesI_mono {a b : Nat} (h : a ≤ b) : onesI a ≤ onesI b := by
  obtain ⟨t, rfl⟩ : ∃ t, b = t + a := ⟨b - a, by omega⟩
  have h1 := run_shift_le a t
  have h2 : onesI a * 1 ≤ onesI a * 2 ^ t :=
    Int.mul_le_mul_of_nonneg_left (by have := two_pow_pos_int' t; omega) (onesI_nonneg a)
  rw [Int.mul_one] at h2
  exact Int.le_trans h2 h1

/-- the initial state of `RunsChain` -/
theorem rinv_init : RInv [1] ⟨[1], fun _ => 0⟩ := by
  refine ⟨⟨by simp, rfl, by simp, by simp, ?_⟩, ?_, by simp, by intro b _; rfl⟩
  · intro k hk0 hkl; simp at hkl; omega
  · intro x
    simp only [List.mem_singleton]
    constructor
    · intro h; exact ⟨1, 0, rfl, Nat.le_refl _, by simp [h, onesI]⟩
    · rintro ⟨b, j, hb, hj, he⟩
      subst hb
      have : j = 0 := by omega
      subst this; simp [he, onesI]

/-- the recorded shift of a length, added to the length, is again a length reached -/
def ShiftInv (L : List Nat) (st : RS) : Prop := ∀ b, b ∈ L → b + st.s b ∈ L

theorem runsStepN_shiftInv (L : List Nat) (st : RS) (la lb : Nat) (hI : RInv L st)
    (hS : ShiftInv L st) (hlb : lb ∈ L) (hnew : la + lb ∉ L) :
    ShiftInv (L ++ [la + lb]) (runsStepN st la lb) := by
  intro b hb
  unfold runsStepN
  simp only []
  by_cases hbl : b = lb
  · subst hbl
    simp only [if_true]
    rcases Nat.le_total (st.s b) la with h | h
    · rw [Nat.max_eq_right h, Nat.add_comm b la]; simp
    · rw [Nat.max_eq_left h]; exact List.mem_append_left _ (hS b hlb)
  · simp only [hbl, if_false]
    rcases List.mem_append.mp hb with h | h
    · exact List.mem_append_left _ (hS b h)
    · simp only [List.mem_singleton] at h
      subst h
      rw [hI.fresh _ hnew]; simp

theorem runSteps_shiftInv : ∀ (steps : List (Nat × Nat)) (L : List Nat) (st : RS), RInv L st →
    ShiftInv L st → ValidSteps L steps → ShiftInv (lensAfter L steps) (runSteps st steps) := by
  intro steps
  induction steps with
  | nil => intro L st _ h _; simpa [lensAfter, runSteps] using h
  | cons p r ih =>
    intro L st hI hS hv
    obtain ⟨la, lb⟩ := p
    obtain ⟨h1, h2, h3, h4⟩ := hv
    have := ih (L ++ [la + lb]) (runsStepN st la lb) (runsStepN_inv L st la lb hI h1 h2 h3)
      (runsStepN_shiftInv L st la lb hI hS h2 h3) h4
    simpa [lensAfter, runSteps] using this

/-- elements of a state satisfying both invariants are positive and at most `2^m − 1` -/
theorem rinv_bound (L : List Nat) (st : RS) (hI : RInv L st) (hS : ShiftInv L st) (m : Nat)
    (hm : ∀ b ∈ L, b ≤ m) : ∀ x ∈ st.c, 1 ≤ x ∧ x ≤ onesI m := by
  intro x hx
  obtain ⟨b, j, hb, hj, rfl⟩ := (hI.mem x).1 hx
  constructor
  · have h1 := onesI_pos b (hI.pos b hb)
    have h2 : onesI b * 1 ≤ onesI b * 2 ^ j :=
      Int.mul_le_mul_of_nonneg_left (by have := two_pow_pos_int' j; omega) (by omega)
    omega
  · have h1 := run_shift_le b j
    have h2 : j + b ≤ m := by
      have := hm _ (hS b hb)
      omega
    exact Int.le_trans h1 (onesI_mono h2)

-- `hsmall` is not needed (success of `runsChainX` already implies it) but kept for a uniform interface
set_option linter.unusedVariables false in
/-- every element of the chain built by `RunsChain` is positive and at most `2^m − 1` where `m`
    bounds the lengths -/
theorem runsChainX_bound (lc : Chain) (hc : IsChain lc) (hsmall : ∀ l ∈ lc, l < 2 ^ 64)
    (c : Chain) (h : runsChainX lc = .ok c) (m : Nat) (hm : ∀ l ∈ lc, l.toNat ≤ m) :
    ∀ x ∈ c, 1 ≤ x ∧ x ≤ onesI m := by
  unfold runsChainX at h
  split at h
  · cases h
  · rename_i p hp
    split at h
    · cases h
      obtain ⟨hlen, _⟩ := program_get lc p hp
      obtain ⟨hv, hl⟩ := steps_valid lc hc p hp p.length (Nat.le_refl _)
      rw [List.take_length] at hv hl
      rw [List.take_of_length_le (by omega)] at hl
      have hI := runSteps_inv (p.map (toStep lc)) [1] _ rinv_init hv
      have hS := runSteps_shiftInv (p.map (toStep lc)) [1] _ rinv_init
        (by intro b hb; simpa using hb) hv
      rw [runsChain_eq]
      apply rinv_bound _ _ hI hS m
      intro b hb
      rw [hl] at hb
      obtain ⟨l, hl', rfl⟩ := List.mem_map.1 hb
      exact hm l hl'
    · cases h

end P
