import AC.ProgramTie
import AC.BigintTie
import AC.BigintsTie
import AC.Decomp
/-! # The translated `FixedWindow.Decompose` equals the model (C09 translator tie)

`dictFixedWindowDecompose` of `AC/Gen/ProgramFns.lean` is regenerated from alg/dict/dict.go on every run.
The window width `K` is the struct's single field; `Sum.SortByExponent` is the primitive insertion sort. -/
namespace AC.DecompTie
open AC.Gen.Program AC.GoPrim AC.BigPrim P P.Bits P.HX

def toGT (t : Term) : GTerm := ⟨(t.d : Int), t.e⟩
def toGTs (l : List Term) : List GTerm := l.map toGT

theorem insert_tie (t : Term) : ∀ l : List Term, insertGTerm (toGT t) (toGTs l) = toGTs (insertByE t l) := by
  intro l
  induction l with
  | nil => rfl
  | cons u r ih =>
    simp only [toGTs, List.map_cons, insertGTerm, insertByE, toGT] at ih ⊢
    by_cases h : t.e < u.e
    · simp [h, toGT]
    · simp [h, ih, toGT]

theorem sort_tie : ∀ l : List Term, sumSortByExponent (toGTs l) = toGTs (sortByE l) := by
  intro l
  induction l with
  | nil => rfl
  | cons t l ih =>
    simp only [sumSortByExponent, sortByE, toGTs, List.map_cons, List.foldr_cons] at ih ⊢
    rw [ih]; exact insert_tie t _

theorem fixed_loop_tie (x K : Nat) (hK : 1 ≤ K) : ∀ (fuel h : Nat) (sum : List Term), h ≤ fuel →
    dictFixedWindowDecompose_loop1 fuel K (x : Int) (toGTs sum) (h : Int) =
      some (sumSortByExponent (toGTs (sum ++ fixedW x K fuel h))) := by
  intro fuel
  induction fuel with
  | zero =>
    intro h sum hh
    have : h = 0 := by omega
    subst this
    simp [dictFixedWindowDecompose_loop1, fixedW]
  | succ fuel ih =>
    intro h sum hh
    cases h with
    | zero => simp [dictFixedWindowDecompose_loop1, fixedW]
    | succ h =>
      have hpos : ((h + 1 : Nat) : Int) > 0 := by omega
      have hl : max (((h + 1 : Nat) : Int) - Int.ofNat K) 0 = ((h + 1 - K : Nat) : Int) := by
        simp only [Int.ofNat_eq_natCast]; omega
      have hu1 : goUint ((h + 1 - K : Nat) : Int) = some (h + 1 - K) := by
        have : ¬ (((h + 1 - K : Nat) : Int) < 0) := by omega
        simp [goUint, this]
      have hu2 : goUint ((h + 1 : Nat) : Int) = some (h + 1) := by
        have : ¬ (((h + 1 : Nat) : Int) < 0) := by omega
        unfold goUint
        rw [if_neg this]; simp
      have hex : AC.Gen.Bigint.extract (x : Int) (h + 1 - K) (h + 1) =
          ((x / 2 ^ (h + 1 - K) % 2 ^ (h + 1 - (h + 1 - K)) : Nat) : Int) := by
        rw [AC.BigintTie.extract_eq, extractI_eq x _ _ (by omega), extract_eq x _ _ (by omega)]
      have hnext := fun sum' => ih (h + 1 - K) sum' (by omega)
      simp only [dictFixedWindowDecompose_loop1, hpos, decide_true, if_true, hl, hu1, hu2, hex, bind,
        Option.bind, fixedW]
      by_cases hd : x / 2 ^ (h + 1 - K) % 2 ^ (h + 1 - (h + 1 - K)) = 0
      · have hz : AC.Gen.Bigint.isNonZero ((x / 2 ^ (h + 1 - K) % 2 ^ (h + 1 - (h + 1 - K)) : Nat) : Int) = false := by
          cases hc : AC.Gen.Bigint.isNonZero ((x / 2 ^ (h + 1 - K) % 2 ^ (h + 1 - (h + 1 - K)) : Nat) : Int)
          · rfl
          · have := (AC.BigintTie.isNonZero_iff _).1 hc
            rw [hd] at this; simp at this
        simp only [hz, Bool.false_eq_true, if_false, hd, ne_eq, not_true_eq_false]
        exact hnext sum
      · have hz : AC.Gen.Bigint.isNonZero ((x / 2 ^ (h + 1 - K) % 2 ^ (h + 1 - (h + 1 - K)) : Nat) : Int) = true :=
          (AC.BigintTie.isNonZero_iff _).2 (by exact_mod_cast hd)
        simp only [hz, if_true, hd, ne_eq, not_false_eq_true]
        have := hnext (sum ++ [⟨x / 2 ^ (h + 1 - K) % 2 ^ (h + 1 - (h + 1 - K)), h + 1 - K⟩])
        simpa [toGTs, toGT] using this

/-- translated `FixedWindow{K}.Decompose(x)` for `x ≥ 1`, `K ≥ 1` = the model's decomposition -/
theorem fixedWindow_tie (x K : Nat) (hx : 1 ≤ x) (hK : 1 ≤ K) :
    dictFixedWindowDecompose K (x : Int) = some (toGTs (decompose .fixed x K 0)) := by
  unfold dictFixedWindowDecompose decompose rawTerms
  have hbl : bBitLen (x : Int) = ((Nat.log2 x + 1 : Nat) : Int) := by
    unfold bBitLen HX.bitLen
    have : x ≠ 0 := by omega
    simp [this]
  have := fixed_loop_tie x K hK (Nat.log2 x + 1) (Nat.log2 x + 1) [] (Nat.le_refl _)
  simp only [hbl, Int.toNat_natCast, bind, Option.bind]
  rw [show ([] : List GTerm) = toGTs [] from rfl, this]
  simp [sort_tie]

/-! ## `Term.Int`, `Sum.Int`, `Sum.Dictionary` (translated from dict.go on every run) -/

/-- translated `Term.Int` = `d·2^e` -/
theorem termInt_tie (t : Term) : dictTermInt (toGT t) = some ((t.d * 2 ^ t.e : Nat) : Int) := by
  simp [dictTermInt, toGT, bLsh, Int.natCast_pow]

theorem sumInt_loop_tie : ∀ (l s : List Term) (acc : Nat),
    dictSumInt_loop1 (toGTs l) (toGTs s) (acc : Int) = some ((acc + value l : Nat) : Int) := by
  intro l
  induction l with
  | nil => intro s acc; simp [dictSumInt_loop1, toGTs, value]
  | cons t l ih =>
    intro s acc
    have h := ih s (acc + t.d * 2 ^ t.e)
    simp only [toGTs, List.map_cons] at h ⊢
    simp only [dictSumInt_loop1, termInt_tie, bind, Option.bind, bAdd]
    rw [show ((acc : Int) + ((t.d * 2 ^ t.e : Nat) : Int)) = ((acc + t.d * 2 ^ t.e : Nat) : Int) by simp]
    rw [h]
    simp [value, Nat.add_assoc]

/-- translated `Sum.Int` never panics and is the model's `value` (Σ d·2^e) -/
theorem sumInt_tie (s : List Term) : dictSumInt (toGTs s) = some ((value s : Nat) : Int) := by
  have := sumInt_loop_tie s s 0
  simp only [Int.natCast_zero, Nat.zero_add] at this
  simp [dictSumInt, AC.Gen.Bigint.zero, bNewInt, this]

theorem dictionary_loop_tie : ∀ (l s : List Term) (acc : List Int),
    dictSumDictionary_loop1 (toGTs l) (toGTs s) acc =
      some (P.sortUniq (acc ++ l.map fun t => (t.d : Int))) := by
  intro l
  induction l with
  | nil =>
    intro s acc
    simp [dictSumDictionary_loop1, toGTs, bigintsSort, AC.BigintsTie.unique_tie, P.sortUniq]
  | cons t l ih =>
    intro s acc
    have h := ih s (acc ++ [(t.d : Int)])
    simp only [toGTs, List.map_cons] at h ⊢
    simp only [dictSumDictionary_loop1, toGT]
    rw [h]
    simp

/-- translated `Sum.Dictionary` never panics and is the model's `dictionary` (sorted, distinct `d`) -/
theorem dictionary_tie (s : List Term) : dictSumDictionary (toGTs s) = some (dictionary s) := by
  have := dictionary_loop_tie s s []
  simp only [List.nil_append] at this
  simp [dictSumDictionary, makeBigs, this, dictionary]

end AC.DecompTie
