/-! C19 prototype: bit helpers of internal/bigint on naturals. -/
namespace P.Bits

def mask (l h : Nat) : Nat := 2 ^ h - 2 ^ l
def ones (n : Nat) : Nat := mask 0 n
def extract (x l h : Nat) : Nat := (mask l h &&& x) >>> l

theorem mask_testBit (l h i : Nat) (hlh : l ≤ h) : (mask l h).testBit i = (decide (l ≤ i) && decide (i < h)) := by
  unfold mask
  have hpos : 0 < 2 ^ l := Nat.pow_pos (by omega)
  have hlt : 2 ^ l - 1 < 2 ^ h := by
    have := Nat.pow_le_pow_right (n := 2) (by omega) hlh
    omega
  have : 2 ^ h - 2 ^ l = 2 ^ h - ((2 ^ l - 1) + 1) := by omega
  rw [this, Nat.testBit_two_pow_sub_succ hlt, Nat.testBit_two_pow_sub_one]
  by_cases h1 : i < h <;> by_cases h2 : i < l <;> simp [h1, h2] <;> omega

theorem ones_eq (n : Nat) : ones n = 2 ^ n - 1 := by simp [ones, mask]

theorem extract_eq (x l h : Nat) (hlh : l ≤ h) : extract x l h = x / 2 ^ l % 2 ^ (h - l) := by
  apply Nat.eq_of_testBit_eq
  intro i
  unfold extract
  rw [Nat.testBit_shiftRight, Nat.testBit_and, mask_testBit l h (l + i) hlh,
    Nat.testBit_mod_two_pow, Nat.testBit_div_two_pow]
  have : i + l = l + i := by omega
  rw [this]
  by_cases h1 : l + i < h
  · have h2 : i < h - l := by omega
    simp [h1, h2]
  · have h2 : ¬ i < h - l := by omega
    simp [h1, h2]

end P.Bits
