import AC.Props.C04
import AC.Props.C16
import AC.Props.C07
import AC.Props.C03
import AC.Props.C06
/-! # Compositions across the models of C03 / C04 / C06 / C07 (text level)

Three model families meet here:

* `P.Sem` / `P.BuildX` (C04, C16): scripts with `Nat` operand indices and `String` names, the builder
  `buildX`, the direct semantics `P.Sem.dStmts`;
* `P.PegF` (C07): trees with `Int` operand indices and `List Char` names, `parse`, `printChain`, `WFTree`;
* `P.SemX` (C03): trees with `Int` operand indices and `String` names, `load`, `denote`, `loadText`.

`toPegTree` converts a built script to C07's tree type (the dump of a built script is byte-identical to
`P.PegF.showTree` of its image); `P.SemX.ofPegTree` converts on to C03's tree type. -/
namespace P.TextCompose
open P.BuildX

/-! ## conversions -/

def toPegExpr : P.Sem.Expr → P.PegF.Expr
  | .operand i => .operand (i : Int)
  | .ident s => .ident s.toList
  | .add x y => .add (toPegExpr x) (toPegExpr y)
  | .shift x s => .shift (toPegExpr x) s
  | .double x => .double (toPegExpr x)

def toPegStmt (st : P.Sem.Stmt) : P.PegF.Stmt := ⟨st.name.toList, toPegExpr st.e⟩

/-- a script of the builder model as a tree of the parser / printer model -/
def toPegTree (s : Script) : P.PegF.Tree := s.map toPegStmt

def toXExpr : P.Sem.Expr → P.SemX.Expr
  | .operand i => .operand (i : Int)
  | .ident s => .ident s
  | .add x y => .add (toXExpr x) (toXExpr y)
  | .shift x s => .shift (toXExpr x) s
  | .double x => .double (toXExpr x)

def toXStmt (st : P.Sem.Stmt) : P.SemX.Stmt := ⟨st.name, toXExpr st.e⟩

/-- a script of the builder model as a tree of the loader model -/
def toXTree (s : Script) : P.SemX.Tree := s.map toXStmt

theorem ofPegExpr_toPegExpr (e : P.Sem.Expr) : P.SemX.ofPegExpr (toPegExpr e) = toXExpr e := by
  induction e with
  | operand i => rfl
  | ident s => simp [toPegExpr, toXExpr, P.SemX.ofPegExpr]
  | add x y ihx ihy => simp [toPegExpr, toXExpr, P.SemX.ofPegExpr, ihx, ihy]
  | shift x s ihx => simp [toPegExpr, toXExpr, P.SemX.ofPegExpr, ihx]
  | double x ihx => simp [toPegExpr, toXExpr, P.SemX.ofPegExpr, ihx]

theorem ofPegTree_toPegTree (s : Script) : P.SemX.ofPegTree (toPegTree s) = toXTree s := by
  unfold P.SemX.ofPegTree toPegTree toXTree
  rw [List.map_map]
  apply List.map_congr_left
  intro st _
  simp [toPegStmt, toXStmt, ofPegExpr_toPegExpr]

/-! ## the direct semantics of C04 (`P.Sem`) is the direct semantics of C03 (`P.SemX`) -/

def envX (env : P.Sem.Env) : P.SemX.Env := env.map fun kv => (kv.1, (kv.2 : Int))

theorem lookup_envX (env : P.Sem.Env) (s : String) :
    P.SemX.lookup (envX env) s = (P.Sem.lookup env s).map fun v => (v : Int) := by
  unfold P.SemX.lookup P.Sem.lookup envX
  induction env with
  | nil => rfl
  | cons kv r ih =>
    simp only [List.map_cons, List.find?_cons]
    cases hk : kv.1 == s with
    | true => simp
    | false => simpa using ih

theorem pAdd_sim {p p' : P.Sem.Prog} {i j o : Nat} (h : P.Sem.pAdd p i j = some (p', o)) :
    P.SemX.pAdd p (i : Int) (j : Int) = .ok (p', (o : Int)) := by
  unfold P.Sem.pAdd at h
  split at h
  · rename_i hb
    cases h
    unfold P.SemX.pAdd
    rw [if_neg (by omega), if_neg (by omega), if_neg (by omega), if_neg (by omega)]
    simp
  · cases h

theorem pShift_sim : ∀ (s : Nat) (p p' : P.Sem.Prog) (i o : Nat), P.Sem.pShift s p i = some (p', o) →
    P.SemX.pShift s p (i : Int) = .ok (p', (o : Int)) := by
  intro s
  induction s with
  | zero => intro p p' i o h; simp only [P.Sem.pShift] at h; cases h; rfl
  | succ s ih =>
    intro p p' i o h
    simp only [P.Sem.pShift] at h
    cases h1 : P.Sem.pAdd p i i with
    | none => rw [h1] at h; cases h
    | some r =>
      obtain ⟨p1, i1⟩ := r
      rw [h1] at h
      simp only [] at h
      simp only [P.SemX.pShift, pAdd_sim h1]
      exact ih p1 p' i1 o h

theorem dExpr_sim (env : P.Sem.Env) : ∀ (e : P.Sem.Expr) (p p' : P.Sem.Prog) (x : Nat),
    P.Sem.dExpr p env e = some (p', x) →
    P.SemX.dExpr (P.SemX.mk p) (envX env) (toXExpr e) = some (P.SemX.mk p', (x : Int)) ∧
    p'.length = p.length + P.SemX.weight (toXExpr e) := by
  intro e
  induction e with
  | operand i =>
    intro p p' x h
    simp only [P.Sem.dExpr] at h
    cases h
    exact ⟨rfl, rfl⟩
  | ident s =>
    intro p p' x h
    simp only [P.Sem.dExpr] at h
    cases hl : P.Sem.lookup env s with
    | none => rw [hl] at h; cases h
    | some v =>
      rw [hl] at h
      cases h
      refine ⟨?_, rfl⟩
      simp only [toXExpr, P.SemX.dExpr, lookup_envX, hl]
      rfl
  | add x y ihx ihy =>
    intro p p' o h
    simp only [P.Sem.dExpr] at h
    cases hx : P.Sem.dExpr p env x with
    | none => rw [hx] at h; cases h
    | some r1 =>
      obtain ⟨p1, a⟩ := r1
      rw [hx] at h; simp only [] at h
      cases hy : P.Sem.dExpr p1 env y with
      | none => rw [hy] at h; cases h
      | some r2 =>
        obtain ⟨p2, b⟩ := r2
        rw [hy] at h; simp only [] at h
        obtain ⟨ex, wx⟩ := ihx p p1 a hx
        obtain ⟨ey, wy⟩ := ihy p1 p2 b hy
        have hl := (P.Sem.pAdd_out h).2
        refine ⟨?_, by simp only [toXExpr, P.SemX.weight]; omega⟩
        simp only [toXExpr, P.SemX.dExpr, ex, ey, P.SemX.step_sim]
        have hs := pAdd_sim h
        by_cases hab : (a : Int) > (b : Int)
        · rw [if_pos hab]
          have e1 : min a b = b := by omega
          have e2 : max a b = a := by omega
          rw [e1, e2] at hs
          rw [hs]
        · rw [if_neg hab]
          have e1 : min a b = a := by omega
          have e2 : max a b = b := by omega
          rw [e1, e2] at hs
          rw [hs]
  | double x ihx =>
    intro p p' o h
    simp only [P.Sem.dExpr] at h
    cases hx : P.Sem.dExpr p env x with
    | none => rw [hx] at h; cases h
    | some r1 =>
      obtain ⟨p1, a⟩ := r1
      rw [hx] at h; simp only [] at h
      obtain ⟨ex, wx⟩ := ihx p p1 a hx
      have hl := (P.Sem.pAdd_out h).2
      refine ⟨?_, by simp only [toXExpr, P.SemX.weight]; omega⟩
      simp only [toXExpr, P.SemX.dExpr, ex, P.SemX.step_sim_dbl, pAdd_sim h]
  | shift x s ihx =>
    intro p p' o h
    simp only [P.Sem.dExpr] at h
    cases hx : P.Sem.dExpr p env x with
    | none => rw [hx] at h; cases h
    | some r1 =>
      obtain ⟨p1, a⟩ := r1
      rw [hx] at h; simp only [] at h
      obtain ⟨ex, wx⟩ := ihx p p1 a hx
      by_cases hs0 : s = 0
      · subst hs0
        simp only [if_true] at h
        by_cases ha : a = p1.length
        · rw [if_pos ha] at h
          cases h
          refine ⟨?_, by simp only [toXExpr, P.SemX.weight]; omega⟩
          simp only [toXExpr, P.SemX.dExpr, ex, if_true]
          have : ((o : Nat) : Int) = ((P.SemX.mk p').chain.length : Int) - 1 := by
            simp only [P.SemX.mk, P.SemX.evaluate_length]; omega
          rw [if_pos this]
        · rw [if_neg ha] at h; cases h
      · rw [if_neg hs0] at h
        have hl := (P.Sem.pShift_out s p1 a p' o (by omega) h).2
        refine ⟨?_, by simp only [toXExpr, P.SemX.weight]; omega⟩
        simp only [toXExpr, P.SemX.dExpr, ex]
        rw [if_neg hs0, P.SemX.doubles_sim, pShift_sim s p1 p' a o h]

theorem dStmts_sim : ∀ (ss : List P.Sem.Stmt) (p q : P.Sem.Prog) (env : P.Sem.Env),
    P.Sem.dStmts p env ss = some q →
    P.SemX.dStmts (P.SemX.mk p) (envX env) (toXTree ss) = some (P.SemX.mk q) ∧
    q.length = p.length + P.SemX.weightS (toXTree ss) := by
  intro ss
  induction ss with
  | nil => intro p q env h; simp only [P.Sem.dStmts] at h; cases h; exact ⟨rfl, rfl⟩
  | cons st r ih =>
    intro p q env h
    simp only [P.Sem.dStmts] at h
    cases hd : P.Sem.dExpr p env st.e with
    | none => rw [hd] at h; cases h
    | some r1 =>
      obtain ⟨p1, x⟩ := r1
      rw [hd] at h; simp only [] at h
      cases hl : P.Sem.lookup env st.name with
      | some v => rw [hl] at h; cases h
      | none =>
        rw [hl] at h; simp only [] at h
        obtain ⟨e1, w1⟩ := dExpr_sim env st.e p p1 x hd
        obtain ⟨e2, w2⟩ := ih p1 q ((st.name, x) :: env) h
        refine ⟨?_, ?_⟩
        · simp only [toXTree, List.map_cons, P.SemX.dStmts, toXStmt, e1, lookup_envX, hl]
          exact e2
        · simp only [toXTree, List.map_cons, P.SemX.weightS, toXStmt] at w2 ⊢
          omega

/-- a script that denotes `q` in C04's semantics denotes the chain and operation list of `q` in C03's,
    and describes `q.length` chain elements beyond the initial 1 -/
theorem denote_of_dStmts (s : Script) (q : P.Sem.Prog) (h : P.Sem.dStmts [] [] s = some q) :
    P.SemX.denote (toXTree s) = some (P.SemX.mk q) ∧ P.SemX.weightS (toXTree s) = q.length := by
  obtain ⟨h1, h2⟩ := dStmts_sim s [] q [] h
  exact ⟨h1, by simpa using h2.symm⟩

/-! ## the shape of built scripts

Structural part (by induction over the builder loop): every statement the loop emits is an operator
expression and every identifier in it is a generated name (`nameS chain k` or the fall-back `i<k>`).
Numeric part (from the fact that the script evaluates): operand indices and shift amounts in an
operator expression that evaluates are bounded by the length of the resulting program. -/

/-- every identifier of the expression is a generated name -/
def Shp (chain : List Int) : P.Sem.Expr → Prop
  | .operand _ => True
  | .ident s => ∃ k, s = nameS chain k ∨ s = fallbackS k
  | .add x y => Shp chain x ∧ Shp chain y
  | .shift x _ => Shp chain x
  | .double x => Shp chain x

theorem shp_opExpr (chain : List Int) (E : Nat → P.Sem.Expr) (hE : ∀ k, Shp chain (E k)) (op : P.Sem.Op) :
    Shp chain (P.Sem.opExpr E op) ∧ P.Sem.isOpE (P.Sem.opExpr E op) = true := by
  cases op with
  | add x y =>
    simp only [P.Sem.opExpr]
    split
    · exact ⟨by simp only [Shp]; exact ⟨hE y, hE x⟩, rfl⟩
    · exact ⟨by simp only [Shp]; exact ⟨hE x, hE y⟩, rfl⟩
  | dbl x => exact ⟨hE x, rfl⟩
  | shl x s => exact ⟨hE x, rfl⟩

/-- the invariant of the builder state -/
def BSInv (chain : List Int) (bs : P.Sem.BS) : Prop :=
  (∀ k, Shp chain (bs.E k)) ∧ ∀ st ∈ bs.stmts, Shp chain st.e ∧ P.Sem.isOpE st.e = true

theorem bStep_shp (chain : List Int) (nm : Nat → String) (hnm : ∀ k, ∃ j, nm k = nameS chain j ∨ nm k = fallbackS j)
    (want : Nat → Bool) (full : List P.Sem.Inst) (bs : P.Sem.BS) (inst : P.Sem.Inst) (next : Option P.Sem.Inst)
    (h : BSInv chain bs) : BSInv chain (P.Sem.bStep nm want full bs inst next) := by
  obtain ⟨hE, hS⟩ := h
  have hop := shp_opExpr chain bs.E hE inst.op
  unfold P.Sem.bStep
  split
  · refine ⟨?_, hS⟩
    intro k
    show Shp chain (P.Sem.setE bs.E inst.out _ k)
    unfold P.Sem.setE
    split
    · exact hop.1
    · exact hE k
  · refine ⟨?_, ?_⟩
    · intro k
      show Shp chain (P.Sem.setE bs.E inst.out _ k)
      unfold P.Sem.setE
      split
      · exact hnm inst.out
      · exact hE k
    · intro st hst
      rcases List.mem_append.mp hst with h1 | h1
      · exact hS st h1
      · rw [List.mem_singleton.mp h1]; exact hop

theorem stepX_shp (chain : List Int) (full : IR) (seen : List Nat) (st st' : P.Sem.BS × Nat) (inst : P.Sem.Inst)
    (next : Option P.Sem.Inst) (h : stepX chain full seen st inst next = .ok st') (hI : BSInv chain st.1) :
    BSInv chain st'.1 := by
  unfold stepX at h
  simp only [] at h
  split at h
  · cases h
  · injection h with h
    rw [← h]
    apply bStep_shp chain _ _ _ _ _ _ _ hI
    intro k
    by_cases hc : canonOut seen inst = true
    · exact ⟨k, by simp [hc]⟩
    · exact ⟨k, by simp [hc]⟩

theorem loopX_shp (chain : List Int) (full : IR) : ∀ (rest : List P.Sem.Inst) (seen : List Nat)
    (st st' : P.Sem.BS × Nat), loopX chain full seen st rest = .ok st' → BSInv chain st.1 → BSInv chain st'.1 := by
  intro rest
  induction rest with
  | nil => intro seen st st' h hI; simp only [loopX] at h; cases h; exact hI
  | cons inst r ih =>
    intro seen st st' h hI
    simp only [loopX] at h
    cases hs : stepX chain full seen st inst r.head? with
    | error e => rw [hs] at h; cases h
    | ok st1 =>
      rw [hs] at h
      exact ih _ st1 st' h (stepX_shp chain full seen st st1 inst _ hs hI)

/-- what `buildX` returns: `finish` of a list of operator statements over generated names -/
theorem buildX_shape (ir : IR) (s : Script) (h : buildX ir = .ok s) :
    ∃ p stmts, P.Sem.cAll [] ir = some p ∧ s = finish stmts ∧
      ∀ st ∈ stmts, Shp (P.evaluate p) st.e ∧ P.Sem.isOpE st.e = true := by
  unfold buildX at h
  cases hc : P.Sem.cAll [] ir with
  | none => rw [hc] at h; cases h
  | some p =>
    rw [hc] at h
    simp only [] at h
    cases hl : loopX (P.evaluate p) ir [] (initBS, 0) ir with
    | error e => rw [hl] at h; cases h
    | ok st =>
      rw [hl] at h
      injection h with h
      refine ⟨p, st.1.stmts, rfl, h.symm, ?_⟩
      have := loopX_shp (P.evaluate p) ir ir [] (initBS, 0) st hl
        ⟨fun k => trivial, fun st hst => by simp [initBS] at hst⟩
      exact this.2

theorem finish_mem (ss : List P.Sem.Stmt) : ∀ st ∈ finish ss,
    (∃ st' ∈ ss, st.e = st'.e) ∨ st.e = .operand 0 := by
  intro st hst
  rcases List.eq_nil_or_concat ss with rfl | ⟨l', b, rfl⟩
  · right
    simp only [finish, List.mem_singleton] at hst
    rw [hst]
  · left
    rw [List.concat_eq_append, finish_concat] at hst
    rw [List.concat_eq_append]
    rcases List.mem_append.mp hst with h1 | h1
    · exact ⟨st, List.mem_append_left _ h1, rfl⟩
    · rw [List.mem_singleton.mp h1]
      exact ⟨b, by simp, rfl⟩

/-- operand indices and shift amounts are at most `N` -/
def Bnd (N : Nat) : P.Sem.Expr → Prop
  | .operand k => k ≤ N
  | .ident _ => True
  | .add x y => Bnd N x ∧ Bnd N y
  | .shift x s => Bnd N x ∧ s ≤ N
  | .double x => Bnd N x

theorem pAdd_inv {p p' : P.Sem.Prog} {i j o : Nat} (h : P.Sem.pAdd p i j = some (p', o)) :
    i ≤ p.length ∧ j ≤ p.length ∧ o = p.length + 1 ∧ p'.length = p.length + 1 := by
  have h2 := P.Sem.pAdd_out h
  unfold P.Sem.pAdd at h
  split at h
  · rename_i hb; exact ⟨hb.1, hb.2, h2.1, h2.2⟩
  · cases h

/-- an expression that evaluates: the program only grows; the result of an operator is an element of the
    new program; every operand index and shift amount is bounded by any bound on the new length and the
    result -/
theorem dExpr_bnd (env : P.Sem.Env) : ∀ (e : P.Sem.Expr) (p p' : P.Sem.Prog) (x : Nat),
    P.Sem.dExpr p env e = some (p', x) →
    p.length ≤ p'.length ∧ (P.Sem.isOpE e = true → x ≤ p'.length) ∧
    ∀ N, p'.length ≤ N → x ≤ N → Bnd N e := by
  intro e
  induction e with
  | operand i =>
    intro p p' x h
    simp only [P.Sem.dExpr] at h
    cases h
    exact ⟨Nat.le_refl _, fun h => (by simp [P.Sem.isOpE] at h), fun N _ hx => hx⟩
  | ident s =>
    intro p p' x h
    simp only [P.Sem.dExpr] at h
    cases hl : P.Sem.lookup env s with
    | none => rw [hl] at h; cases h
    | some v =>
      rw [hl] at h
      cases h
      exact ⟨Nat.le_refl _, fun h => (by simp [P.Sem.isOpE] at h), fun N _ _ => trivial⟩
  | add x y ihx ihy =>
    intro p p' o h
    simp only [P.Sem.dExpr] at h
    cases hx : P.Sem.dExpr p env x with
    | none => rw [hx] at h; cases h
    | some r1 =>
      obtain ⟨p1, a⟩ := r1
      rw [hx] at h; simp only [] at h
      cases hy : P.Sem.dExpr p1 env y with
      | none => rw [hy] at h; cases h
      | some r2 =>
        obtain ⟨p2, b⟩ := r2
        rw [hy] at h; simp only [] at h
        obtain ⟨lx, _, bx⟩ := ihx p p1 a hx
        obtain ⟨ly, _, by'⟩ := ihy p1 p2 b hy
        obtain ⟨h1, h2, h3, h4⟩ := pAdd_inv h
        refine ⟨by omega, fun _ => by omega, ?_⟩
        intro N hN _
        exact ⟨bx N (by omega) (by omega), by' N (by omega) (by omega)⟩
  | double x ihx =>
    intro p p' o h
    simp only [P.Sem.dExpr] at h
    cases hx : P.Sem.dExpr p env x with
    | none => rw [hx] at h; cases h
    | some r1 =>
      obtain ⟨p1, a⟩ := r1
      rw [hx] at h; simp only [] at h
      obtain ⟨lx, _, bx⟩ := ihx p p1 a hx
      obtain ⟨h1, h2, h3, h4⟩ := pAdd_inv h
      refine ⟨by omega, fun _ => by omega, ?_⟩
      intro N hN _
      exact bx N (by omega) (by omega)
  | shift x s ihx =>
    intro p p' o h
    simp only [P.Sem.dExpr] at h
    cases hx : P.Sem.dExpr p env x with
    | none => rw [hx] at h; cases h
    | some r1 =>
      obtain ⟨p1, a⟩ := r1
      rw [hx] at h; simp only [] at h
      obtain ⟨lx, _, bx⟩ := ihx p p1 a hx
      by_cases hs0 : s = 0
      · subst hs0
        simp only [if_true] at h
        by_cases ha : a = p1.length
        · rw [if_pos ha] at h
          injection h with h
          injection h with hp ho
          subst hp; subst ho
          refine ⟨lx, fun _ => by omega, ?_⟩
          intro N hN hxN
          exact ⟨bx N hN hxN, Nat.zero_le _⟩
        · rw [if_neg ha] at h; cases h
      · rw [if_neg hs0] at h
        obtain ⟨ho, hl⟩ := P.Sem.pShift_out s p1 a p' o (by omega) h
        have hb := P.Sem.pShift_bound s p1 a _ (by omega) h
        refine ⟨by omega, fun _ => by omega, ?_⟩
        intro N hN _
        exact ⟨bx N (by omega) (by omega), by omega⟩

theorem dRun_bnd : ∀ (ss : List P.Sem.Stmt) (p : P.Sem.Prog) (env : P.Sem.Env) (res : P.Sem.Prog × P.Sem.Env),
    P.Sem.dRun p env ss = some res →
    p.length ≤ res.1.length ∧ ∀ st ∈ ss, P.Sem.isOpE st.e = true → Bnd res.1.length st.e := by
  intro ss
  induction ss with
  | nil => intro p env res h; simp only [P.Sem.dRun] at h; cases h; exact ⟨Nat.le_refl _, fun st hst => by cases hst⟩
  | cons st r ih =>
    intro p env res h
    obtain ⟨p1, x, hd, _, hr⟩ := dRun_cons_some h
    obtain ⟨l1, hop, hb⟩ := dExpr_bnd env st.e p p1 x hd
    obtain ⟨l2, hall⟩ := ih p1 _ res hr
    refine ⟨by omega, ?_⟩
    intro s hs hso
    rcases List.mem_cons.mp hs with rfl | hs
    · exact hb _ l2 (by have := hop hso; omega)
    · exact hall s hs hso

/-! ### generated names are identifiers that do not start with `d` -/

theorem isIdStart_eq : P.Naming.isIdStart = P.Peg.isIdStart := rfl
theorem isIdChar_eq : P.Naming.isIdChar = P.Peg.isIdChar := rfl

theorem identOf_cases (c : List Int) (i : Nat) :
    identOf c i = [] ∨ ∃ ch cs, identOf c i = ch :: cs ∧ ch ≠ 'd' := by
  unfold identOf
  split
  · simp only []
    split
    · exact Or.inr ⟨'_', _, rfl, by decide⟩
    · split
      · exact Or.inr ⟨'x', _, rfl, by decide⟩
      · exact Or.inl rfl
  · exact Or.inl rfl

theorem nameL_head (c : List Int) (i : Nat) : ∃ ch cs, nameL c i = ch :: cs ∧ ch ≠ 'd' := by
  unfold nameL
  rcases identOf_cases c i with h | ⟨ch, cs, h, hd⟩
  · rw [h]; exact ⟨'i', _, rfl, by decide⟩
  · rw [h]; exact ⟨ch, cs, rfl, hd⟩

/-- a generated name is a legal identifier and does not begin with `d` (so never with `dbl`) -/
theorem genName_ok (chain : List Int) (nm : String) (h : ∃ k, nm = nameS chain k ∨ nm = fallbackS k) :
    P.Peg.ValidIdent nm.toList ∧ P.PegF.SafeIdent nm.toList := by
  obtain ⟨k, h | h⟩ := h
  · obtain ⟨ch, cs, h1, h2, h3⟩ := nameL_legal chain k
    obtain ⟨ch', cs', h1', hd⟩ := nameL_head chain k
    have htl : nm.toList = nameL chain k := by rw [h]; simp [nameS]
    refine ⟨⟨ch, cs, by rw [htl, h1], by rw [← isIdStart_eq]; exact h2, by rw [← isIdChar_eq]; exact h3⟩, ?_⟩
    intro c t e
    rw [htl, h1'] at e
    injection e with e _
    exact absurd e hd
  · have htl : nm.toList = 'i' :: Nat.toDigits 10 k := by rw [h]; simp [fallbackS]
    refine ⟨⟨'i', _, htl, by decide, ?_⟩, ?_⟩
    · intro x hx
      have := Nat.isDigit_of_mem_toDigits (by omega) (by omega) hx
      simp [P.Peg.isIdChar, Char.isAlphanum, this]
    · intro c t e
      rw [htl] at e
      injection e with e _
      exact absurd e (by decide)

/-- generated names + bounded numbers ⇒ well-formed in the sense of the round-trip theorem of C07 -/
theorem wf_of (chain : List Int) (N : Nat) (hN : N < 2 ^ 63) : ∀ (e : P.Sem.Expr) (b : Bool),
    Shp chain e → Bnd N e → P.PegF.WF b (toPegExpr e) := by
  intro e
  induction e with
  | operand i =>
    intro b _ hb
    simp only [Bnd] at hb
    exact .operand b _ (by omega) (by omega)
  | ident s =>
    intro b hs _
    obtain ⟨h1, h2⟩ := genName_ok chain s hs
    exact .ident b _ h1 (fun _ => h2)
  | add x y ihx ihy =>
    intro b hs hb
    exact .add b _ _ (ihx true hs.1 hb.1) (ihy true hs.2 hb.2)
  | shift x s ihx =>
    intro b hs hb
    simp only [Bnd] at hb
    exact .shift b _ _ (ihx false hs hb.1) (by omega)
  | double x ihx =>
    intro b hs hb
    exact .double b _ (ihx false hs hb)

/-- **(a)** the script `Build` produces, converted to C07's tree type, is in the domain of the printer
    round trip — provided the program has fewer than `2^63` operations (an operand index printed as
    `[k]` must be below `2^63` and a shift amount below `2^64` to parse back to the same number) -/
theorem built_wfTree (ir : IR) (p : P.Sem.Prog)
    (hs : ∀ inst ∈ ir, ∀ x s, inst.op = .shl x s → 1 ≤ s)
    (hc : P.Sem.cAll [] ir = some p) (hnd : (P.evaluate p).Nodup) (hsz : p.length < 2 ^ 63)
    (s : Script) (hb : buildX ir = .ok s) : P.PegF.WFTree (toPegTree s) := by
  obtain ⟨s', env', hb', hrun, hne, ⟨e, hlast⟩, hn⟩ := buildX_facts ir p hs hc hnd
  rw [hb] at hb'; cases hb'
  obtain ⟨p2, stmts, hc2, hfin, hshape⟩ := buildX_shape ir s hb
  rw [hc] at hc2; cases hc2
  obtain ⟨_, hbnd⟩ := dRun_bnd s [] [] _ hrun
  have hlen : (p.map P.Sem.norm).length = p.length := by simp
  simp only [hlen] at hbnd
  have hwf : ∀ st ∈ s, P.PegF.WF true (toPegExpr st.e) := by
    intro st hst
    rw [hfin] at hst
    rcases finish_mem stmts st hst with ⟨st', hst', he⟩ | he
    · obtain ⟨h1, h2⟩ := hshape st' hst'
      rw [← he] at h1 h2
      exact wf_of _ p.length hsz st.e true h1 (hbnd st (by rw [hfin]; exact hst) h2)
    · rw [he]
      exact .operand true _ (by decide) (by decide)
  have hsplit : s = s.dropLast ++ [⟨"", e⟩] := by
    have h1 := List.dropLast_concat_getLast hne
    rw [List.getLast?_eq_some_getLast hne] at hlast
    rw [Option.some.inj hlast] at h1
    exact h1.symm
  refine ⟨toPegTree s.dropLast, toPegExpr e, ?_, ?_, ?_⟩
  · conv => lhs; rw [hsplit]
    simp [toPegTree, toPegStmt]
  · intro st hst
    simp only [toPegTree, List.mem_map] at hst
    obtain ⟨st0, hst0, rfl⟩ := hst
    obtain ⟨k, hk, _, _⟩ := hn st0 hst0
    exact ⟨(genName_ok (P.evaluate p) st0.name ⟨k, Or.inl hk⟩).1,
      hwf st0 ((List.dropLast_sublist _).subset hst0)⟩
  · exact hwf ⟨"", e⟩ (by rw [hsplit]; simp)

/-! ## Obligation 1 — C04 at text level -/

/-- `printer.String` of a built script -/
def printScript (s : Script) : List Char := P.PegF.printChain (toPegTree s)

/-- `acc.LoadString`, keeping the operation list of the loaded program -/
def loadOps (t : List Char) : Option P.Sem.Prog := (P.SemX.loadText t).toOption.map (·.ops)

theorem ok_of_toOption {ε α : Type} {x : Except ε α} {a : α} (h : x.toOption = some a) : x = .ok a := by
  cases x with
  | error e => simp [Except.toOption] at h
  | ok v => simp [Except.toOption] at h; rw [h]

theorem at'_map_cast (c : List Nat) (i : Nat) :
    P.at' (c.map fun n : Nat => (n : Int)) i = ((c.getD i 0 : Nat) : Int) := by
  unfold P.at'
  rw [List.getD_eq_getElem?_getD, List.getD_eq_getElem?_getD, List.getElem?_map]
  cases c[i]? <;> rfl

/-- the chain of the loader model (naturals) is the chain of `P.evaluate` (integers) -/
theorem evaluate_cast (q : P.Sem.Prog) :
    (P.SemX.evaluate q).map (fun n : Nat => (n : Int)) = P.evaluate q := by
  have key : ∀ (q : P.Sem.Prog) (c : List Nat),
      (q.foldl P.SemX.evalStep c).map (fun n : Nat => (n : Int)) =
      q.foldl (fun c o => c ++ [P.at' c o.1 + P.at' c o.2]) (c.map fun n : Nat => (n : Int)) := by
    intro q
    induction q with
    | nil => intro c; rfl
    | cons o r ih =>
      intro c
      simp only [List.foldl_cons]
      rw [ih]
      congr 1
      simp only [P.SemX.evalStep, List.map_append, List.map_cons, List.map_nil, at'_map_cast]
      rfl
  unfold P.SemX.evaluate P.evaluate
  exact key q [1]

/-- **C04, text level, for `Build` on any IR program**: if `ir` compiles to `p`, contains no shift by
    zero, the chain of `p` has pairwise distinct values and fewer than `2^63` elements, then `Build`
    succeeds; the resulting script is in the domain of C07's round trip; its printed text parses back to
    the script; and loading the printed text (`parse`, `Translate`, `pass.Compile`, `Evaluate`) succeeds
    with the operation list `p` (addition operands sorted) and the chain `evaluate p`. -/
theorem C04_text_build (ir : IR) (p : P.Sem.Prog)
    (hs : ∀ inst ∈ ir, ∀ x s, inst.op = .shl x s → 1 ≤ s)
    (hc : P.Sem.cAll [] ir = some p) (hnd : (P.evaluate p).Nodup) (hsz : p.length + 1 < 2 ^ 63) :
    ∃ s, buildX ir = .ok s ∧ P.PegF.WFTree (toPegTree s) ∧
      P.PegF.parse (printScript s) = .ok (toPegTree s) ∧
      P.SemX.loadText (printScript s) = .ok ⟨P.SemX.evaluate (p.map P.Sem.norm), p.map P.Sem.norm⟩ ∧
      (P.SemX.evaluate (p.map P.Sem.norm)).map (fun n : Nat => (n : Int)) = P.evaluate p := by
  obtain ⟨s, hb, hd⟩ := AC.Props.C04.C04_build_denotes ir p hs hc hnd
  have hwf := built_wfTree ir p hs hc hnd (by omega) s hb
  have hparse : P.PegF.parse (printScript s) = .ok (toPegTree s) := AC.Props.C07.C07_roundtrip _ hwf
  obtain ⟨hden, hw⟩ := denote_of_dStmts s _ hd
  have hsmall : AC.Props.C03.Small (P.SemX.ofPegTree (toPegTree s)) := by
    rw [ofPegTree_toPegTree]
    unfold AC.Props.C03.Small
    rw [hw, List.length_map]
    omega
  have hload := AC.Props.C03.C03_load_text (printScript s) (toPegTree s) hparse hsmall
  rw [ofPegTree_toPegTree, hden] at hload
  refine ⟨s, hb, hwf, hparse, ok_of_toOption hload, ?_⟩
  rw [evaluate_cast, evaluate_map_norm]

/-- **C04, text level** (`C04_text_Statement` of `AC/Props/C04.lean` with the concrete printer and loader
    models, plus the size bound those models need): for every program `p` with in-range operands whose
    chain has pairwise distinct values and fewer than `2^63` elements, `Decompile` and `Build` succeed,
    and printing the script and loading that text yields the chain `evaluate p` and the program `p` with
    the operands of each addition sorted.

    The size bound cannot be dropped for these models: a run of `2^64` doublings is decompiled to one
    shift whose amount prints as `18446744073709551616`, which `strconv.ParseUint(…, 64)` (and the
    parser model) rejects; an operand index `≥ 2^63` would wrap to a negative `int` (F8). No Go slice
    holds that many operations. -/
theorem C04_text (p : P.Sem.Prog) (h : P.Sem.InRange p 0) (hnd : (P.evaluate p).Nodup)
    (hsz : p.length + 1 < 2 ^ 63) :
    ∃ ir s, decompileX p = .ok ir ∧ buildX ir = .ok s ∧ P.PegF.WFTree (toPegTree s) ∧
      P.PegF.parse (printScript s) = .ok (toPegTree s) ∧
      P.SemX.loadText (printScript s) = .ok ⟨P.SemX.evaluate (p.map P.Sem.norm), p.map P.Sem.norm⟩ ∧
      (P.SemX.evaluate (p.map P.Sem.norm)).map (fun n : Nat => (n : Int)) = P.evaluate p := by
  obtain ⟨s, hb, h1, h2, h3, h4⟩ := C04_text_build (P.Sem.decompile p) p
    (P.Sem.decompileFrom_shl_pos p p.length p 0) (P.Sem.compile_decompile p h) hnd hsz
  exact ⟨P.Sem.decompile p, s, decompileX_ok p h, hb, h1, h2, h3, h4⟩

/-- `AC.Props.C04.C04_text_Statement` restricted to programs of fewer than `2^63 - 1` operations -/
def C04_text_Statement_sized (print : Script → List Char) (load : List Char → Option P.Sem.Prog) : Prop :=
  ∀ p : P.Sem.Prog, P.Sem.InRange p 0 → (P.evaluate p).Nodup → p.length + 1 < 2 ^ 63 →
    ∃ ir s, decompileX p = .ok ir ∧ buildX ir = .ok s ∧ load (print s) = some (p.map P.Sem.norm)

/-- the sized text-level statement holds for the printer model of C07 and the loader model of C03 -/
theorem C04_text_Statement_sized_holds : C04_text_Statement_sized printScript loadOps := by
  intro p h hnd hsz
  obtain ⟨ir, s, h1, h2, _, _, h5, _⟩ := C04_text p h hnd hsz
  exact ⟨ir, s, h1, h2, by simp [loadOps, h5, Except.toOption]⟩

/-! ## Obligation 2 — the `script` template of C06 -/

/-- well-formed trees have no negative operand index -/
theorem nonNeg_of_wf : ∀ {b : Bool} {e : P.PegF.Expr}, P.PegF.WF b e → P.PegF.NonNeg e := by
  intro b e h
  induction h with
  | operand b i h1 h2 => exact h1
  | ident b s h1 h2 => trivial
  | add b x y _ _ ihx ihy => exact ⟨ihx, ihy⟩
  | shift b x s _ _ ihx => exact ihx
  | double b x _ ihx => exact ihx

theorem nonNegTree_of_wfTree {t : P.PegF.Tree} (h : P.PegF.WFTree t) : P.PegF.NonNegTree t := by
  obtain ⟨as, x, rfl, hall, hx⟩ := h
  intro st hst
  rcases List.mem_append.mp hst with h1 | h1
  · exact nonNeg_of_wf (hall st h1).2
  · rw [List.mem_singleton.mp h1]; exact nonNeg_of_wf hx

/-- `parse.String`, restricted to results without a wrapped (negative) operand index — for a parser
    result this is exactly `WFTree` (`C07_parse_image_wf`, `C07_wfTreeB_iff`) -/
def parseWF (s : List Char) : Option P.PegF.Tree :=
  match P.PegF.parse s with
  | .ok t => if P.PegF.wfTreeB t then some t else none
  | .error _ => none

theorem parseWF_some {s : List Char} {t : P.PegF.Tree} (h : parseWF s = some t) :
    P.PegF.parse s = .ok t ∧ P.PegF.WFTree t := by
  unfold parseWF at h
  split at h
  · rename_i t' hp
    split at h
    · rename_i hw
      injection h with h
      subst h
      exact ⟨hp, (AC.Props.C07.C07_wfTreeB_iff _).mp hw⟩
    · cases h
  · cases h

theorem parseWF_of {s : List Char} {t : P.PegF.Tree} (hp : P.PegF.parse s = .ok t) (hn : P.PegF.NonNegTree t) :
    parseWF s = some t := by
  have hw := (AC.Props.C07.C07_wfTreeB_iff t).mpr (AC.Props.C07.C07_parse_image_wf s t hp hn)
  unfold parseWF
  rw [hp]
  simp [hw]

/-- the hypothesis of `C06_script_reloads`, discharged by `C07_fmt_preserves_tree` -/
theorem parseWF_fmt (s : List Char) (t : P.PegF.Tree) (h : parseWF s = some t) :
    parseWF (P.PegF.printChain t) = some t := by
  obtain ⟨hp, hw⟩ := parseWF_some h
  have hn := nonNegTree_of_wfTree hw
  have h7 := AC.Props.C07.C07_fmt_preserves_tree s t hp hn
  exact parseWF_of (h7.trans hp) hn

/-- the chain a tree loads to: `Translate`, `pass.Compile`, `Evaluate` -/
def evalTree (t : P.PegF.Tree) : Option (List Nat) :=
  (P.SemX.load (P.SemX.ofPegTree t)).toOption.map (·.chain)

/-- **The `script` output re-loads to the same chain** (`C06_script_reloads` instantiated with the parser
    and printer models of C07, the loader model of C03 and `C07_fmt_preserves_tree`): if the source
    text `s` parses to `t` and `t` loads to the chain `c`, then the text the `script` template emits —
    `printer.String t` — loads (`acc.LoadString`) to `c`.

    `NonNegTree t` (no operand index wrapped to a negative `int`) is needed: `return [18446744073709551615]`
    parses to `Operand(-1)`, loads to the chain `[1]`, and is printed as `return [-1]`, which does not
    parse (finding F8). -/
theorem C06_script_reloads_inst (s : List Char) (t : P.PegF.Tree) (c : List Nat)
    (hp : P.PegF.parse s = .ok t) (hn : P.PegF.NonNegTree t) (he : evalTree t = some c) :
    (P.SemX.loadText (P.PegF.printChain t)).toOption.map (·.chain) = some c := by
  have h := AC.Props.C06.C06_script_reloads parseWF P.PegF.printChain evalTree parseWF_fmt s t c
    (parseWF_of hp hn) he
  cases hq : parseWF (P.PegF.printChain t) with
  | none => rw [hq] at h; cases h
  | some t' =>
    rw [hq] at h
    have hpp := (parseWF_some hq).1
    simp only [Option.bind_some, evalTree] at h
    cases hl : P.SemX.load (P.SemX.ofPegTree t') with
    | error e => rw [hl] at h; simp [Except.toOption] at h
    | ok st =>
      rw [hl] at h
      have hc : st.chain = c := by simpa [Except.toOption] using h
      unfold P.SemX.loadText
      rw [hpp]
      simp only [hl]
      simp [Except.toOption, hc]

/-- the same for the whole load result (chain and operation list) -/
theorem C06_script_reloads_state (s : List Char) (t : P.PegF.Tree) (st : P.SemX.St)
    (hp : P.PegF.parse s = .ok t) (hn : P.PegF.NonNegTree t)
    (he : P.SemX.load (P.SemX.ofPegTree t) = .ok st) :
    P.SemX.loadText (P.PegF.printChain t) = .ok st := by
  have h7 := AC.Props.C07.C07_fmt_preserves_tree s t hp hn
  unfold P.SemX.loadText
  rw [h7, hp]
  simp only [he]

end P.TextCompose
